package graphs

// Replay of the wrapper VIEWS of package graph - graph.Undirect, graph.UndirectWeighted
// (undirect.go) and graph.Complement (complement.go) - against the answers GraphSet.tla /
// GraphMulti.tla print for every reachable state of the model (record kind "v", operators of
// GraphViews.tla).  The state is reached on a live container by its shortest real history (the path
// machinery of the tour), the views are built over the live container and every method is asked for
// every id / id pair; the node iterators the views return (nodeIteratorPair, nodeFilterIterator) go
// through the iterator exerciser.  The harness has no mathematics of its own: sets, ends, weights
// (doubled by the specification, so the arithmetic mean stays an integer) and the arguments the
// Merge function is handed are compared with what TLC printed.

import (
	"encoding/json"
	"fmt"
	"math"
	"sort"
	"strings"

	"gonum.org/v1/gonum/graph"

	"gonum.org/v1/gonum/verifharness/internal/core"
)

// maRec is what Merge must be handed for the joined pair (X, Y) when Absent = Ab: the unordered
// pair Args of (weight, edge non-nil ? 1 : 0, from, to).
type maRec struct {
	Ab, X, Y int64
	Args     [][4]int64
}

func (m *maRec) UnmarshalJSON(b []byte) error {
	var raw []json.RawMessage
	if err := json.Unmarshal(b, &raw); err != nil {
		return err
	}
	if len(raw) != 4 {
		return fmt.Errorf("merge argument record of %d fields", len(raw))
	}
	for i, p := range []*int64{&m.Ab, &m.X, &m.Y} {
		if err := json.Unmarshal(raw[i], p); err != nil {
			return err
		}
	}
	return json.Unmarshal(raw[3], &m.Args)
}

func (m maRec) MarshalJSON() ([]byte, error) {
	return json.Marshal([]any{m.Ab, m.X, m.Y, m.Args})
}

// viewState is a "v" record: the answers of the views in one abstract state.
type viewState struct {
	K        string    `json:"k"`
	Nodes    []int64   `json:"nodes"`
	Edges    []edgeRec `json:"edges,omitempty"`
	Lines    []lineRec `json:"lines,omitempty"`
	Directed bool      `json:"directed"`
	// graph.Complement
	CFrom map[string][]int64 `json:"cfrom"`
	CHeb  [][2]int64         `json:"cheb"`
	CEv   [][6]int64         `json:"cev"` // u, v, from, to, reversed from, reversed to
	// graph.Undirect / graph.UndirectWeighted (directed containers only)
	UFrom map[string][]int64 `json:"ufrom,omitempty"`
	UHeb  [][2]int64         `json:"uheb,omitempty"`
	UEv   [][6]int64         `json:"uev,omitempty"`
	UW    [][6]int64         `json:"uw,omitempty"` // merge, absent, x, y, kind, twice the weight
	MA    []maRec            `json:"ma,omitempty"`
	Built string             `json:"built,omitempty"`
	Obj   [][2]int64         `json:"obj,omitempty"`
}

// viewCase is the self-contained replayable unit of the views stage: a history from the empty
// graph and the view answers of the state it reaches, for one concrete type.
type viewCase struct {
	K      string     `json:"k"` // "vh" (simple / dense types), "mvh" (multigraphs)
	Type   string     `json:"type"`
	Ops    []opRec    `json:"ops,omitempty"`
	MOps   []mOpRec   `json:"mops,omitempty"`
	Expect *viewState `json:"expect"`
	IDs    []int64    `json:"ids"`
	Absent int64      `json:"absent,omitempty"`
	Bind   string     `json:"bind,omitempty"` // weight tokens bound to NaN / +Inf / -Inf (parseBind)
}

// viewErrs collects disagreements by class; each class becomes one failure signature
// "graph:<View>.<Method>:<kind>".
type viewErrs struct {
	by    map[string][]string
	order []string
}

func (v *viewErrs) add(class, f string, a ...any) {
	if v.by == nil {
		v.by = map[string][]string{}
	}
	if _, ok := v.by[class]; !ok {
		v.order = append(v.order, class)
	}
	if len(v.by[class]) < 6 {
		v.by[class] = append(v.by[class], fmt.Sprintf(f, a...))
	}
}

// viewEnv is what the view checks need of a live container (simple / dense: live, multi: mlive).
type viewEnv struct {
	g       graph.Graph
	real    func(int64) int64
	model   func(int64) int64
	drain   func(what string, it graph.Nodes, errs *[]string) map[int64]bool
	seeNode func(what string, n graph.Node, errs *[]string)
	selfV   float64
	ids     []int64
	calls   int
}

type pairSet map[edgeKey]bool

func pairsOf(ps [][2]int64) pairSet {
	m := pairSet{}
	for _, p := range ps {
		m[edgeKey{p[0], p[1]}] = true
	}
	return m
}

func evsOf(es [][6]int64) map[edgeKey][6]int64 {
	m := map[edgeKey][6]int64{}
	for _, e := range es {
		m[edgeKey{e[0], e[1]}] = e
	}
	return m
}

// nodesOfView checks Node and Nodes of a view: "those of the graph".
func (env *viewEnv) nodesOfView(view string, g graph.Graph, want map[int64]bool, ve *viewErrs) {
	var errs []string
	got := env.drain(view+".Nodes()", g.Nodes(), &errs)
	for _, e := range errs {
		ve.add(view+".Nodes:iterator", "%s", e)
	}
	if !eqSet(got, want) {
		ve.add(view+".Nodes:mismatch", "%s.Nodes() = %s, model %s", view, fmtSet(got), fmtSet(want))
	}
	for _, m := range env.ids {
		r := env.real(m)
		n := g.Node(r)
		env.calls++
		if (n != nil) != want[m] || (n != nil && n.ID() != r) {
			ve.add(view+".Node:mismatch", "%s.Node(%d) = %v, model has node = %v", view, m, n, want[m])
		} else if n != nil {
			errs = errs[:0]
			env.seeNode(fmt.Sprintf("%s.Node(%d)", view, m), n, &errs)
			for _, e := range errs {
				ve.add(view+".Node:object", "%s", e)
			}
		}
	}
}

// fromOfView checks From of a view for every id, through the iterator exerciser.
func (env *viewEnv) fromOfView(view string, g graph.Graph, want map[string][]int64, ve *viewErrs) {
	for _, m := range env.ids {
		var errs []string
		w := setOf(want[fmt.Sprint(m)])
		it := g.From(env.real(m))
		env.calls++
		if it == nil {
			ve.add(view+".From:nil", "%s.From(%d) is nil", view, m)
			continue
		}
		got := env.drain(fmt.Sprintf("%s.From(%d)", view, m), it, &errs)
		for _, e := range errs {
			ve.add(view+".From:iterator", "%s", e)
		}
		if !eqSet(got, w) {
			ve.add(view+".From:mismatch", "%s.From(%d) = %s, model %s", view, m, fmtSet(got), fmtSet(w))
		}
	}
}

// edgeValueOfView compares an edge VALUE a view returned for the query (x, y) with the ends the
// specification printed (ev: x, y, from, to, reversed from, reversed to); w2 is twice the weight the
// value must report (weighted = false: the value has no weight).
func (env *viewEnv) edgeValueOfView(class, what string, e graph.Edge, ev [6]int64, weighted bool, w2 int64, ve *viewErrs) {
	ends := func(x graph.Edge) (int64, int64, bool) {
		if x == nil || x.From() == nil || x.To() == nil {
			return 0, 0, false
		}
		return env.model(x.From().ID()), env.model(x.To().ID()), true
	}
	weightIs := func(name string, x graph.Edge) {
		if !weighted {
			return
		}
		wx, ok := x.(graph.WeightedEdge)
		if !ok {
			ve.add(class+":value-weight", "%s: %s is a %T, which has no weight", what, name, x)
			return
		}
		for call := 1; call <= 2; call++ {
			if w := wx.Weight(); 2*w != float64(w2) {
				ve.add(class+":value-weight", "%s: %s.Weight() call %d = %v, model %v/2", what, name, call, w, w2)
			}
		}
	}
	f, t, ok := ends(e)
	if !ok || f != ev[2] || t != ev[3] {
		ve.add(class+":value-ends", "%s has ends (%d,%d) ok=%v, model (%d,%d)", what, f, t, ok, ev[2], ev[3])
		return
	}
	var errs []string
	env.seeNode(what+" From()", e.From(), &errs)
	env.seeNode(what+" To()", e.To(), &errs)
	for _, x := range errs {
		ve.add(class+":value-object", "%s", x)
	}
	weightIs("the value", e)
	r := e.ReversedEdge()
	env.calls++
	rf, rt, ok := ends(r)
	if !ok || rf != ev[4] || rt != ev[5] {
		ve.add(class+":value-reversed", "%s.ReversedEdge() has ends (%d,%d) ok=%v, model (%d,%d)", what, rf, rt, ok, ev[4], ev[5])
		return
	}
	weightIs("ReversedEdge()", r)
	rr := r.ReversedEdge()
	if f2, t2, ok := ends(rr); !ok || f2 != ev[2] || t2 != ev[3] {
		ve.add(class+":value-reversed", "%s.ReversedEdge().ReversedEdge() has ends (%d,%d) ok=%v, model (%d,%d)", what, f2, t2, ok, ev[2], ev[3])
		return
	}
	weightIs("ReversedEdge().ReversedEdge()", rr)
}

// mergeProbe is the Merge function handed to graph.UndirectWeighted: it records what it is handed
// and answers the smaller or the larger of the two weights, as told.
type mergeCall struct {
	w [2]float64
	e [2]graph.Edge
}

type mergeProbe struct {
	max   bool
	calls []mergeCall
}

func (p *mergeProbe) merge(x, y float64, xe, ye graph.Edge) float64 {
	p.calls = append(p.calls, mergeCall{[2]float64{x, y}, [2]graph.Edge{xe, ye}})
	if p.max {
		return math.Max(x, y)
	}
	return math.Min(x, y)
}

// checkMergeCalls compares the recorded calls with the unordered argument pair of the specification.
func (env *viewEnv) checkMergeCalls(what string, p *mergeProbe, want *maRec, ve *viewErrs) {
	const class = "UndirectWeighted.Merge:arguments"
	if want == nil {
		return
	}
	if len(p.calls) == 0 {
		ve.add(class, "%s: Merge was not called although the pair is joined", what)
		return
	}
	same := func(w float64, e graph.Edge, a [4]int64) bool {
		if w != float64(a[0]) || (e != nil) != (a[1] == 1) {
			return false
		}
		if e == nil {
			return true
		}
		return e.From() != nil && e.To() != nil && env.model(e.From().ID()) == a[2] && env.model(e.To().ID()) == a[3]
	}
	show := func(w float64, e graph.Edge) string {
		if e == nil {
			return fmt.Sprintf("(%v, nil)", w)
		}
		return fmt.Sprintf("(%v, edge %d->%d)", w, env.model(e.From().ID()), env.model(e.To().ID()))
	}
	for _, c := range p.calls {
		a, b := want.Args[0], want.Args[len(want.Args)-1]
		if !(same(c.w[0], c.e[0], a) && same(c.w[1], c.e[1], b)) && !(same(c.w[0], c.e[0], b) && same(c.w[1], c.e[1], a)) {
			ve.add(class, "%s: Merge was handed %s and %s, model (weight, edge present, from, to) %v", what,
				show(c.w[0], c.e[0]), show(c.w[1], c.e[1]), want.Args)
		}
	}
}

// checkUndirect checks graph.Undirect{G: d} against the specification's undirected view.
func (env *viewEnv) checkUndirect(d graph.Directed, v *viewState, ve *viewErrs) {
	const view = "Undirect"
	u := graph.Undirect{G: d}
	env.nodesOfView(view, u, setOf(v.Nodes), ve)
	env.fromOfView(view, u, v.UFrom, ve)
	heb, evs := pairsOf(v.UHeb), evsOf(v.UEv)
	for _, mx := range env.ids {
		for _, my := range env.ids {
			x, y, k := env.real(mx), env.real(my), edgeKey{mx, my}
			if got := u.HasEdgeBetween(x, y); got != heb[k] {
				ve.add(view+".HasEdgeBetween:mismatch", "Undirect.HasEdgeBetween(%d,%d) = %v, model %v", mx, my, got, heb[k])
			}
			for name, e := range map[string]graph.Edge{"Edge": u.Edge(x, y), "EdgeBetween": u.EdgeBetween(x, y)} {
				env.calls += 2
				what := fmt.Sprintf("Undirect.%s(%d,%d)", name, mx, my)
				if (e != nil) != heb[k] {
					ve.add(view+"."+name+":mismatch", "%s non-nil = %v, model %v", what, e != nil, heb[k])
					continue
				}
				if e == nil {
					continue
				}
				// "If an edge exists, the Edge returned is an EdgePair"
				if _, ok := e.(graph.EdgePair); !ok {
					ve.add(view+"."+name+":value-type", "%s is a %T, documented: an EdgePair", what, e)
				}
				env.edgeValueOfView(view+"."+name, what, e, evs[k], false, 0, ve)
			}
		}
	}
}

// checkUndirectWeighted checks graph.UndirectWeighted{G: wd, Absent, Merge} for every (merge,
// absent) combination the specification printed answers for.
func (env *viewEnv) checkUndirectWeighted(wd graph.WeightedDirected, v *viewState, ve *viewErrs) {
	const view = "UndirectWeighted"
	type combo struct{ m, ab int64 }
	byCombo := map[combo]map[edgeKey][6]int64{}
	var combos []combo
	for _, w := range v.UW {
		c := combo{w[0], w[1]}
		if byCombo[c] == nil {
			byCombo[c] = map[edgeKey][6]int64{}
			combos = append(combos, c)
		}
		byCombo[c][edgeKey{w[2], w[3]}] = w
	}
	sort.Slice(combos, func(i, j int) bool {
		if combos[i].m != combos[j].m {
			return combos[i].m < combos[j].m
		}
		return combos[i].ab < combos[j].ab
	})
	margs := map[[3]int64]*maRec{}
	for i := range v.MA {
		margs[[3]int64{v.MA[i].Ab, v.MA[i].X, v.MA[i].Y}] = &v.MA[i]
	}
	heb, evs := pairsOf(v.UHeb), evsOf(v.UEv)
	wantNodes := setOf(v.Nodes)
	seenMerge := map[int64]bool{}
	for _, c := range combos {
		tag := fmt.Sprintf("UndirectWeighted{Absent:%d,Merge:%s}", c.ab, [...]string{"nil", "min", "max"}[c.m])
		uw := graph.UndirectWeighted{G: wd, Absent: float64(c.ab)}
		var probe *mergeProbe
		if c.m != 0 {
			probe = &mergeProbe{max: c.m == 2}
			uw.Merge = probe.merge
		}
		if !seenMerge[c.m] {
			// (Node, Nodes and From do not look at Absent: once per merge)
			seenMerge[c.m] = true
			env.nodesOfView(view, uw, wantNodes, ve)
			env.fromOfView(view, uw, v.UFrom, ve)
		}
		for _, mx := range env.ids {
			for _, my := range env.ids {
				x, y, k := env.real(mx), env.real(my), edgeKey{mx, my}
				exp := byCombo[c][k]
				if got := uw.HasEdgeBetween(x, y); got != heb[k] {
					ve.add(view+".HasEdgeBetween:mismatch", "%s.HasEdgeBetween(%d,%d) = %v, model %v", tag, mx, my, got, heb[k])
				}
				for _, q := range []struct {
					name string
					f    func() graph.Edge
				}{
					{"Edge", func() graph.Edge { return uw.Edge(x, y) }},
					{"EdgeBetween", func() graph.Edge { return uw.EdgeBetween(x, y) }},
					{"WeightedEdge", func() graph.Edge {
						if e := uw.WeightedEdge(x, y); e != nil {
							return e
						}
						return nil
					}},
					{"WeightedEdgeBetween", func() graph.Edge {
						if e := uw.WeightedEdgeBetween(x, y); e != nil {
							return e
						}
						return nil
					}},
				} {
					if probe != nil {
						probe.calls = probe.calls[:0]
					}
					e := q.f()
					env.calls++
					what := fmt.Sprintf("%s.%s(%d,%d)", tag, q.name, mx, my)
					if (e != nil) != heb[k] {
						ve.add(view+"."+q.name+":mismatch", "%s non-nil = %v, model %v", what, e != nil, heb[k])
						continue
					}
					if e == nil {
						continue
					}
					env.edgeValueOfView(view+"."+q.name, what, e, evs[k], true, exp[5], ve)
					if probe != nil && mx != my {
						env.checkMergeCalls(what, probe, margs[[3]int64{c.ab, mx, my}], ve)
					}
				}
				if probe != nil {
					probe.calls = probe.calls[:0]
				}
				w, ok := uw.Weight(x, y)
				env.calls++
				what := fmt.Sprintf("%s.Weight(%d,%d)", tag, mx, my)
				switch exp[4] {
				case 0: // x = y: "the internal node weight is returned", true
					if !sameF(w, env.selfV) || !ok {
						ve.add(view+".Weight:self", "%s = (%v,%v), model: the internal node weight %v, true", what, w, ok, env.selfV)
					}
				case 1: // joined: the merged weight, true
					if 2*w != float64(exp[5]) || !ok {
						ve.add(view+".Weight:mismatch", "%s = (%v,%v), model (%v/2,true)", what, w, ok, exp[5])
					}
					if probe != nil {
						env.checkMergeCalls(what, probe, margs[[3]int64{c.ab, mx, my}], ve)
					}
				case 2: // "If there is no joining edge between the two nodes the weight value returned is zero", false
					if ok {
						ve.add(view+".Weight:mismatch", "%s = (%v,%v), model (0,false): no joining edge", what, w, ok)
					} else if w != 0 {
						ve.add(view+".Weight:absent-pair-value", "%s = (%v,%v), documented: \"If there is no joining edge between the two nodes the weight value returned is zero\"", what, w, ok)
					}
				}
			}
		}
	}
}

// checkComplement checks graph.Complement{Graph: g} against the specification's complement view.
func (env *viewEnv) checkComplement(v *viewState, ve *viewErrs) {
	const view = "Complement"
	c := graph.Complement{Graph: env.g}
	env.nodesOfView(view, c, setOf(v.Nodes), ve)
	env.fromOfView(view, c, v.CFrom, ve)
	heb, evs := pairsOf(v.CHeb), evsOf(v.CEv)
	for _, mx := range env.ids {
		for _, my := range env.ids {
			x, y, k := env.real(mx), env.real(my), edgeKey{mx, my}
			if got := c.HasEdgeBetween(x, y); got != heb[k] {
				ve.add(view+".HasEdgeBetween:mismatch", "Complement.HasEdgeBetween(%d,%d) = %v, model %v", mx, my, got, heb[k])
			}
			e := c.Edge(x, y)
			env.calls += 2
			ev, want := evs[k]
			what := fmt.Sprintf("Complement.Edge(%d,%d)", mx, my)
			if (e != nil) != want {
				ve.add(view+".Edge:mismatch", "%s non-nil = %v, model %v", what, e != nil, want)
				continue
			}
			if e != nil {
				env.edgeValueOfView(view+".Edge", what, e, ev, false, 0, ve)
			}
		}
	}
}

// checkViews runs every view check that applies to the container.
func (env *viewEnv) checkViews(v *viewState) *viewErrs {
	ve := &viewErrs{}
	if d, ok := env.g.(graph.Directed); ok && v.Directed {
		env.checkUndirect(d, v, ve)
		if wd, ok := env.g.(graph.WeightedDirected); ok && v.UW != nil {
			env.checkUndirectWeighted(wd, v, ve)
		}
	}
	env.checkComplement(v, ve)
	return ve
}

func (ve *viewErrs) report(typ string, c *viewCase, sum *core.Summary) {
	for _, class := range ve.order {
		sum.Fail("graph:"+class, typ+": "+strings.Join(ve.by[class], "; "), c)
	}
}

// runViewHistory reaches the state of a "vh" case on a fresh container of a simple / dense type and
// checks the views.
func runViewHistory(c *viewCase, sum *core.Summary) {
	k := kindByName(c.Type)
	if k == nil {
		sum.Fail("harness:unknown-type", c.Type, c)
		return
	}
	l := newLive(k)
	liveNodes := map[int64]bool{}
	if b, err := parseBind(c.Bind); err != nil {
		sum.Fail("harness:bad-bind", err.Error(), c)
		return
	} else {
		l.bind = b
	}
	if k.dense > 0 {
		l.absentV = l.f(c.Absent)
		for _, m := range c.IDs {
			l.real(m)
		}
	}
	for i, o := range c.Ops {
		out, problem := l.apply(o, liveNodes)
		if problem != "" {
			sum.Fail("graph:view:"+c.Type+":history", fmt.Sprintf("step %d %+v: %s", i, o, problem), c)
			return
		}
		if out.Panicked != o.Pan {
			sum.Fail("graph:view:"+c.Type+":history", fmt.Sprintf("step %d %+v: panicked=%v (%s), model says %v", i, o, out.Panicked, out.Text, o.Pan), c)
			return
		}
		if !out.Panicked {
			switch o.Op {
			case "AddNode", "NewNode":
				liveNodes[o.U] = true
			case "RemoveNode":
				delete(liveNodes, o.U)
			case "SetEdge":
				liveNodes[o.U], liveNodes[o.V] = true, true
			}
		}
	}
	v := c.Expect
	if v.Built == "no" || l.g == nil {
		if (v.Built == "no") != (l.g == nil) {
			sum.Fail("graph:view:"+c.Type+":history", fmt.Sprintf("graph exists = %v, model built = %q", l.g != nil, v.Built), c)
		}
		return
	}
	l.obj = nil
	if v.Built != "" {
		l.obj = map[int64]int64{}
		for _, o := range v.Obj {
			l.obj[o[0]] = o[1]
		}
	}
	env := &viewEnv{g: l.g, real: l.real, model: l.model, drain: l.drainNodes, seeNode: l.seeNode, selfV: l.selfV, ids: c.IDs}
	var ve *viewErrs
	if o := core.Call(func() { ve = env.checkViews(v) }); o.Panicked {
		sum.Fail("graph:view:"+c.Type+":panic", o.Text, c)
		return
	}
	ve.report(c.Type, c, sum)
	sum.Count("view_calls", env.calls)
}

// runMViewHistory does the same on a multigraph type ("mvh" case).
func runMViewHistory(c *viewCase, sum *core.Summary) {
	var k *mkind
	for i := range mkinds {
		if mkinds[i].name == c.Type {
			k = &mkinds[i]
		}
	}
	if k == nil {
		sum.Fail("harness:unknown-type", c.Type, c)
		return
	}
	l := newMLive(k)
	for i, o := range c.MOps {
		out, problem := l.apply(o, nil)
		if problem != "" || out.Panicked {
			sum.Fail("graph:view:"+c.Type+":history", fmt.Sprintf("step %d %+v: %s panicked=%v (%s)", i, o, problem, out.Panicked, out.Text), c)
			return
		}
	}
	g, ok := l.g.(graph.Graph)
	if !ok {
		sum.Fail("harness:not-a-graph", c.Type, c)
		return
	}
	env := &viewEnv{g: g, real: l.real, model: l.model, drain: l.drainNodes,
		seeNode: func(string, graph.Node, *[]string) {}, ids: c.IDs}
	var ve *viewErrs
	if o := core.Call(func() { ve = env.checkViews(c.Expect) }); o.Panicked {
		sum.Fail("graph:view:"+c.Type+":panic", o.Text, c)
		return
	}
	ve.report(c.Type, c, sum)
	sum.Count("view_calls", env.calls)
}
