// Package graphs binds specs/graph/GraphSet.tla (and GraphMulti.tla) to the
// real graph containers: spec->code replay of every transition of the model's
// state graph, and code->spec recording of long random histories.
package graphs

import (
	"encoding/json"
	"fmt"
	"math"
	"sort"
	"strings"

	"gonum.org/v1/gonum/graph"
	"gonum.org/v1/gonum/graph/simple"

	"gonum.org/v1/gonum/verifharness/internal/core"
)

const (
	selfW   = -7.0
	absentW = -9.0
)

// ---- records emitted by GraphSet.tla -----------------------------------

type edgeRec [3]int64 // u, v, weight token

type stateRec struct {
	Nodes []int64   `json:"nodes"`
	Edges []edgeRec `json:"edges"`
	// GraphDense.tla only: which constructor built the graph ("no": none yet) and the payload
	// token of the node object the graph holds for each id
	Built string     `json:"built,omitempty"`
	Obj   [][2]int64 `json:"obj,omitempty"`
}

// evRec is the VALUE returned for the edge (u,v) and the value its ReversedEdge must be.
type evRec struct {
	U  int64 `json:"u"`
	V  int64 `json:"v"`
	W  int64 `json:"w"`
	RF int64 `json:"rf"`
	RT int64 `json:"rt"`
	RW int64 `json:"rw"`
}

// tokens of GraphDense.tla for the node objects
const (
	anyTok   = 8 // identity left open (after a panicking SetEdge)
	plainTok = 9 // a simple.Node made by the graph itself
)

// pnode is a node object with a payload, so that WHICH object a graph returns can be observed.
type pnode struct {
	id  int64
	pay int64
}

func (n pnode) ID() int64 { return n.id }

type wRec struct {
	U int64  `json:"u"`
	V int64  `json:"v"`
	K string `json:"k"`
	W int64  `json:"w"`
}

type fullState struct {
	K     string             `json:"k"`
	Nodes []int64            `json:"nodes"`
	Edges []edgeRec          `json:"edges"`
	From  map[string][]int64 `json:"from"`
	To    map[string][]int64 `json:"to"`
	Heft  [][2]int64         `json:"heft"`
	Heb   [][2]int64         `json:"heb"`
	W     []wRec             `json:"w"`
	Deg   map[string]int     `json:"deg"`
	UFrom map[string][]int64 `json:"ufrom"`
	Ev    []evRec            `json:"ev"`
	Built string             `json:"built,omitempty"`
	Obj   [][2]int64         `json:"obj,omitempty"`
}

type opRec struct {
	Op string `json:"op"`
	U  int64  `json:"u"`
	V  int64  `json:"v"`
	W  int64  `json:"w"`
	// GraphDense.tla: payload of the node objects of a SetEdge call; constructor arguments
	P    int64   `json:"p,omitempty"`
	Kind string  `json:"kind,omitempty"`
	N    int     `json:"n,omitempty"`
	Ord  []int64 `json:"ord,omitempty"`
	Init int64   `json:"init,omitempty"`
	Self int64   `json:"self,omitempty"`
	// Pan marks a call in the middle of a history that the model says panics (the history goes on
	// with the graph as the recovered panic left it)
	Pan bool `json:"pan,omitempty"`
}

type transRec struct {
	K   string   `json:"k"`
	S   stateRec `json:"s"`
	Op  opRec    `json:"op"`
	T   stateRec `json:"t"`
	Out string   `json:"out"`
}

// histCase is the self-contained replayable unit: a history of mutator calls
// from the empty graph, the expected outcome of the last call and the expected
// final abstract state with all its query answers, for one concrete type.
type histCase struct {
	K      string     `json:"k"` // "h"
	Type   string     `json:"type"`
	Ops    []opRec    `json:"ops"`
	Out    string     `json:"out"`
	Expect *fullState `json:"expect"`
	IDs    []int64    `json:"ids"`
	Absent int64      `json:"absent,omitempty"` // dense graphs: the weight that means "no edge"
	Bind   string     `json:"bind,omitempty"`   // weight tokens bound to special float values, see parseBind
}

// The specification works with weight TOKENS (small integers).  A token is handed to gonum as the
// float64 of its number, unless the replay argument bind= ("2:nan", "2:pinf,7:nan", ...) binds it to
// NaN, +Inf or -Inf: the dense graphs document absent as "the weight returned for absent edges" and
// take any float64 for init, self and absent, so the token that the model uses as AbsentW (or as a
// self weight) may stand for NaN - an edge whose weight is NaN is then absent (RemoveEdge "removes
// the edge" by storing absent, so an implementation has to treat NaN as the same value as NaN).
// Weights that come back are compared by sameF: a returned NaN equals a token bound to NaN.
func parseBind(s string) (map[int64]float64, error) {
	if s == "" {
		return nil, nil
	}
	m := map[int64]float64{}
	for _, kv := range strings.Split(s, ",") {
		var tok int64
		var name string
		if _, err := fmt.Sscanf(strings.Replace(kv, ":", " ", 1), "%d %s", &tok, &name); err != nil {
			return nil, fmt.Errorf("bad bind %q: %v", kv, err)
		}
		switch name {
		case "nan":
			m[tok] = math.NaN()
		case "pinf":
			m[tok] = math.Inf(1)
		case "ninf":
			m[tok] = math.Inf(-1)
		default:
			return nil, fmt.Errorf("bad bind %q", kv)
		}
	}
	return m, nil
}

func sameF(a, b float64) bool { return a == b || (math.IsNaN(a) && math.IsNaN(b)) }

// f is the float64 value a weight token stands for.
func (l *live) f(tok int64) float64 {
	if v, ok := l.bind[tok]; ok {
		return v
	}
	return float64(tok)
}

func keyOf(s *stateRec) string {
	k := key(s.Nodes, s.Edges)
	if s.Built != "" {
		o := append([][2]int64(nil), s.Obj...)
		sort.Slice(o, func(i, j int) bool { return o[i][0] < o[j][0] })
		k += fmt.Sprint(s.Built, o)
	}
	return k
}

func key(n []int64, e []edgeRec) string {
	n2 := append([]int64(nil), n...)
	sort.Slice(n2, func(i, j int) bool { return n2[i] < n2[j] })
	e2 := append([]edgeRec(nil), e...)
	sort.Slice(e2, func(i, j int) bool {
		for k := 0; k < 3; k++ {
			if e2[i][k] != e2[j][k] {
				return e2[i][k] < e2[j][k]
			}
		}
		return false
	})
	return fmt.Sprint(n2, e2)
}

// ---- concrete types ------------------------------------------------------

type kind struct {
	name     string
	directed bool
	weighted bool // has a Weight method / takes weighted edges
	dense    int  // 0: map backed
	mk       func() graph.Graph
}

var kinds = []kind{
	{"simple.DirectedGraph", true, false, 0, func() graph.Graph { return simple.NewDirectedGraph() }},
	{"simple.UndirectedGraph", false, false, 0, func() graph.Graph { return simple.NewUndirectedGraph() }},
	{"simple.WeightedDirectedGraph", true, true, 0, func() graph.Graph { return simple.NewWeightedDirectedGraph(selfW, absentW) }},
	{"simple.WeightedUndirectedGraph", false, true, 0, func() graph.Graph { return simple.NewWeightedUndirectedGraph(selfW, absentW) }},
	// the dense types are built by the Construct call of the history (GraphDense.tla)
	{"simple.DirectedMatrix", true, true, 1, nil},
	{"simple.UndirectedMatrix", false, true, 1, nil},
}

// construct performs one constructor call of a dense type: kind "plain" is New*Matrix(n, ...),
// kind "from" is New*MatrixFrom(nodes, ...) with node objects of payload 0 in the order ord.
func construct(directed bool, kind string, n int, ord []int64, init, self, absent float64) graph.Graph {
	if kind == "plain" {
		if directed {
			return simple.NewDirectedMatrix(n, init, self, absent)
		}
		return simple.NewUndirectedMatrix(n, init, self, absent)
	}
	nodes := make([]graph.Node, len(ord))
	for i, id := range ord {
		nodes[i] = pnode{id: id, pay: 0}
	}
	if directed {
		return simple.NewDirectedMatrixFrom(nodes, init, self, absent)
	}
	return simple.NewUndirectedMatrixFrom(nodes, init, self, absent)
}

func kindByName(n string) *kind {
	for i := range kinds {
		if kinds[i].name == n {
			return &kinds[i]
		}
	}
	return nil
}

// live is a real container plus the binding of model ids to real ids.
type live struct {
	k    *kind
	g    graph.Graph
	m2r  map[int64]int64
	r2m  map[int64]int64
	note []string
	// derived: this wrapper holds a copy being checked; do not derive further graphs from it
	derived bool
	// dense graphs: the values the constructor was called with, and the payload token expected
	// for the node object of each id in the state being checked (nil: not tracked)
	selfV, absentV float64
	obj            map[int64]int64
	bind           map[int64]float64 // weight tokens bound to NaN / +Inf / -Inf (parseBind)
}

func newLive(k *kind) *live {
	l := &live{k: k, m2r: map[int64]int64{}, r2m: map[int64]int64{}, selfV: selfW, absentV: absentW}
	if k.mk != nil {
		l.g = k.mk()
	}
	return l
}

// seeNode compares the node OBJECT a query returned with the one the model says the graph holds.
func (l *live) seeNode(what string, n graph.Node, errs *[]string) {
	if l.obj == nil || n == nil {
		return
	}
	want, ok := l.obj[l.model(n.ID())]
	if !ok || want == anyTok {
		return
	}
	got := int64(-1)
	switch v := n.(type) {
	case pnode:
		got = v.pay
	case simple.Node:
		got = plainTok
	}
	if got != want {
		*errs = append(*errs, fmt.Sprintf("%s: node %d is the object %#v (token %d), the model holds token %d", what, l.model(n.ID()), n, got, want))
	}
}

// real returns the real id bound to model id m, binding it to itself (or the
// next free id in steps of 1000) on first use.
func (l *live) real(m int64) int64 {
	if r, ok := l.m2r[m]; ok {
		return r
	}
	r := m
	for {
		if _, used := l.r2m[r]; !used {
			break
		}
		r += 1000
	}
	l.m2r[m], l.r2m[r] = r, m
	return r
}

func (l *live) model(r int64) int64 {
	if m, ok := l.r2m[r]; ok {
		return m
	}
	return r + 1_000_000 // an id the model never uses: shows up as a mismatch
}

func (l *live) absent() float64 { return l.absentV }

// apply performs one mutator call. It returns the outcome and, when the
// operation cannot be expressed on this type, skip=true.
func (l *live) apply(o opRec, liveNodes map[int64]bool) (out core.Outcome, problem string) {
	switch o.Op {
	case "AddNode":
		id := l.real(o.U)
		out = core.Call(func() { l.g.(graph.NodeAdder).AddNode(simple.Node(id)) })
	case "NewNode":
		var n graph.Node
		out = core.Call(func() { n = l.g.(graph.NodeAdder).NewNode() })
		if out.Panicked {
			return out, "NewNode panicked: " + out.Text
		}
		r := n.ID()
		if liveNodes[l.model(r)] && l.g.Node(r) != nil {
			return out, fmt.Sprintf("NewNode returned id %d which is a live node", r)
		}
		if l.g.Node(r) != nil {
			return out, fmt.Sprintf("NewNode returned id %d for which Node(id) is non-nil", r)
		}
		// rebind model id o.U to the id the allocator chose
		if old, ok := l.m2r[o.U]; ok {
			delete(l.r2m, old)
		}
		if m2, ok := l.r2m[r]; ok && m2 != o.U {
			// some other (not live) model id was bound to r: move it away
			delete(l.m2r, m2)
		}
		l.m2r[o.U], l.r2m[r] = r, o.U
		out = core.Call(func() { l.g.(graph.NodeAdder).AddNode(n) })
	case "RemoveNode":
		id := l.real(o.U)
		out = core.Call(func() { l.g.(graph.NodeRemover).RemoveNode(id) })
	case "SetEdge":
		u, v := l.real(o.U), l.real(o.V)
		out = core.Call(func() {
			if l.k.weighted {
				l.g.(interface{ SetWeightedEdge(graph.WeightedEdge) }).SetWeightedEdge(simple.WeightedEdge{F: simple.Node(u), T: simple.Node(v), W: l.f(o.W)})
			} else {
				l.g.(interface{ SetEdge(graph.Edge) }).SetEdge(simple.Edge{F: simple.Node(u), T: simple.Node(v)})
			}
		})
	case "RemoveEdge":
		u, v := l.real(o.U), l.real(o.V)
		out = core.Call(func() { l.g.(graph.EdgeRemover).RemoveEdge(u, v) })
	case "Construct":
		if l.g != nil {
			return out, "Construct on a graph that exists"
		}
		l.selfV = l.f(o.Self)
		var g graph.Graph
		out = core.Call(func() { g = construct(l.k.directed, o.Kind, o.N, o.Ord, l.f(o.Init), l.selfV, l.absentV) })
		if !out.Panicked {
			l.g = g
		}
	case "SetWeightedEdge", "SetUnitEdge":
		if l.g == nil {
			return out, o.Op + " before Construct"
		}
		u, v := l.real(o.U), l.real(o.V)
		out = core.Call(func() {
			if o.Op == "SetUnitEdge" {
				l.g.(interface{ SetEdge(graph.Edge) }).SetEdge(simple.Edge{F: pnode{u, o.P}, T: pnode{v, o.P}})
			} else {
				l.g.(interface{ SetWeightedEdge(graph.WeightedEdge) }).SetWeightedEdge(simple.WeightedEdge{F: pnode{u, o.P}, T: pnode{v, o.P}, W: l.f(o.W)})
			}
		})
	default:
		return out, "unknown op " + o.Op
	}
	return out, ""
}

func setOf(xs []int64) map[int64]bool {
	m := map[int64]bool{}
	for _, x := range xs {
		m[x] = true
	}
	return m
}

func fmtSet(m map[int64]bool) string {
	var xs []int64
	for x := range m {
		xs = append(xs, x)
	}
	sort.Slice(xs, func(i, j int) bool { return xs[i] < xs[j] })
	return fmt.Sprint(xs)
}

func eqSet(a, b map[int64]bool) bool {
	if len(a) != len(b) {
		return false
	}
	for x := range a {
		if !b[x] {
			return false
		}
	}
	return true
}

// drainNodes exercises a Nodes iterator against the Iterator contract
// (each element exactly once, Len counts the remaining elements, Reset
// restores, the slice form returns the remaining ones) and returns the
// model ids it enumerated.
func (l *live) drainNodes(what string, it graph.Nodes, errs *[]string) map[int64]bool {
	bad := func(f string, a ...any) { *errs = append(*errs, what+": "+fmt.Sprintf(f, a...)) }
	n := it.Len()
	if n < 0 {
		// indeterminate length is allowed by the interface for implicit iterators
		n = -1
	}
	got := map[int64]bool{}
	cnt := 0
	for it.Next() {
		cnt++
		nd := it.Node()
		if nd == nil {
			bad("Node() returned nil during iteration")
			break
		}
		m := l.model(nd.ID())
		if got[m] {
			bad("element %d enumerated twice", m)
		}
		got[m] = true
		l.seeNode(what, nd, errs)
		if n >= 0 && it.Len() != n-cnt {
			bad("Len()=%d after %d of %d Next calls", it.Len(), cnt, n)
		}
		if cnt > 10000 {
			bad("iterator does not terminate")
			break
		}
	}
	if n >= 0 && cnt != n {
		bad("Len() said %d, Next yielded %d", n, cnt)
	}
	if n >= 0 && it.Len() != 0 {
		bad("Len()=%d on the exhausted iterator, want 0", it.Len())
	}
	if it.Next() {
		bad("Next() true after exhaustion")
	}
	it.Reset()
	if n >= 0 && it.Len() != n {
		bad("Len()=%d after Reset, want %d", it.Len(), n)
	}
	// second pass: one step, then the slice form (if any) must hold the rest
	again := map[int64]bool{}
	if it.Next() {
		again[l.model(it.Node().ID())] = true
	}
	if sl, ok := it.(graph.NodeSlicer); ok {
		for _, nd := range sl.NodeSlice() {
			m := l.model(nd.ID())
			if again[m] {
				bad("NodeSlice repeats element %d", m)
			}
			again[m] = true
		}
		if it.Next() {
			bad("Next() true after NodeSlice")
		}
		if n >= 0 && it.Len() != 0 {
			bad("Len()=%d after NodeSlice handed out the remaining nodes, want 0", it.Len())
		}
	} else {
		for it.Next() {
			again[l.model(it.Node().ID())] = true
		}
	}
	if !eqSet(got, again) {
		bad("after Reset enumerated %s, first pass %s", fmtSet(again), fmtSet(got))
	}
	it.Reset()
	return got
}

type edgeKey struct{ u, v int64 }

func (l *live) ekey(u, v int64) edgeKey {
	if !l.k.directed && u > v {
		u, v = v, u
	}
	return edgeKey{u, v}
}

// drainEdges does the same for an Edges / WeightedEdges iterator.
func (l *live) drainEdges(what string, it graph.Iterator, cur func() graph.Edge, slice func() []graph.Edge, errs *[]string) map[edgeKey]graph.Edge {
	bad := func(f string, a ...any) { *errs = append(*errs, what+": "+fmt.Sprintf(f, a...)) }
	n := it.Len()
	got := map[edgeKey]graph.Edge{}
	cnt := 0
	for it.Next() {
		cnt++
		e := cur()
		if e == nil {
			bad("Edge() returned nil during iteration")
			break
		}
		k := l.ekey(l.model(e.From().ID()), l.model(e.To().ID()))
		if _, dup := got[k]; dup {
			bad("edge %v enumerated twice", k)
		}
		got[k] = e
		if n >= 0 && it.Len() != n-cnt {
			bad("Len()=%d after %d of %d Next calls", it.Len(), cnt, n)
		}
		if cnt > 100000 {
			bad("iterator does not terminate")
			break
		}
	}
	if n >= 0 && cnt != n {
		bad("Len() said %d, Next yielded %d", n, cnt)
	}
	if n >= 0 && it.Len() != 0 {
		bad("Len()=%d on the exhausted iterator, want 0", it.Len())
	}
	it.Reset()
	if n >= 0 && it.Len() != n {
		bad("Len()=%d after Reset, want %d", it.Len(), n)
	}
	c2 := 0
	if it.Next() {
		c2++
	}
	if slice != nil {
		if s := slice(); s != nil || n-c2 == 0 {
			c2 += len(s)
		}
		if n >= 0 && it.Len() != 0 {
			bad("Len()=%d after the slice form handed out the remaining edges, want 0", it.Len())
		}
		if it.Next() {
			bad("Next() true after the slice form")
		}
	} else {
		for it.Next() {
			c2++
		}
	}
	if c2 != cnt {
		bad("second pass after Reset yielded %d elements, first %d", c2, cnt)
	}
	it.Reset()
	return got
}

// checkEdgeValue compares a returned edge VALUE (simple.Edge / simple.WeightedEdge) with the one
// the specification printed for its ends: the node objects at its ends, its weight (read twice)
// and the value ReversedEdge returns, which reversed again must be the value itself.
func (l *live) checkEdgeValue(what string, e graph.Edge, evs map[edgeKey]evRec, have bool, errs *[]string) {
	bad := func(f string, a ...any) { *errs = append(*errs, what+": "+fmt.Sprintf(f, a...)) }
	l.seeNode(what+" From()", e.From(), errs)
	l.seeNode(what+" To()", e.To(), errs)
	if !have {
		return
	}
	f, t := l.model(e.From().ID()), l.model(e.To().ID())
	ev, ok := evs[edgeKey{f, t}]
	if !ok {
		bad("edge value with ends (%d,%d), which the model does not have", f, t)
		return
	}
	weightIs := func(name string, x graph.Edge, want int64) {
		if !l.k.weighted {
			return
		}
		wx, ok := x.(graph.WeightedEdge)
		if !ok {
			// the unweighted interface of a weighted container may hand out unweighted values
			if _, isW := e.(graph.WeightedEdge); isW {
				bad("%s of a weighted edge value is a %T", name, x)
			}
			return
		}
		for call := 1; call <= 2; call++ {
			if w := wx.Weight(); !sameF(w, l.f(want)) {
				bad("%s.Weight() call %d = %v, model %d", name, call, w, want)
			}
		}
	}
	weightIs("value", e, ev.W)
	r := e.ReversedEdge()
	if r == nil {
		bad("ReversedEdge() is nil")
		return
	}
	if rf, rt := l.model(r.From().ID()), l.model(r.To().ID()); rf != ev.RF || rt != ev.RT {
		bad("ReversedEdge() has ends (%d,%d), model (%d,%d)", rf, rt, ev.RF, ev.RT)
	}
	weightIs("ReversedEdge()", r, ev.RW)
	if rr := r.ReversedEdge(); rr == nil || l.model(rr.From().ID()) != ev.U || l.model(rr.To().ID()) != ev.V {
		bad("ReversedEdge().ReversedEdge() = %v, model (%d,%d)", rr, ev.U, ev.V)
	} else {
		weightIs("ReversedEdge().ReversedEdge()", rr, ev.W)
	}
}

// checkState compares every query of the real container with the answers the
// specification printed for the abstract state.
func (l *live) checkState(st *fullState, ids []int64) []string {
	var errs []string
	bad := func(f string, a ...any) { errs = append(errs, fmt.Sprintf(f, a...)) }
	g := l.g
	if st.Built == "no" {
		// no graph exists (the constructor call must have panicked): nothing to query
		if g != nil {
			bad("a graph exists although the model says that no constructor call succeeded")
		}
		return errs
	}
	if g == nil {
		return []string{"no graph was built"}
	}
	l.obj = nil
	if st.Built != "" {
		l.obj = map[int64]int64{}
		for _, o := range st.Obj {
			l.obj[o[0]] = o[1]
		}
	}
	evs := map[edgeKey]evRec{}
	for _, e := range st.Ev {
		evs[edgeKey{e.U, e.V}] = e
	}
	wantNodes := setOf(st.Nodes)

	gotNodes := l.drainNodes("Nodes()", g.Nodes(), &errs)
	if !eqSet(gotNodes, wantNodes) {
		bad("Nodes() = %s, model %s", fmtSet(gotNodes), fmtSet(wantNodes))
	}
	for _, m := range ids {
		r := l.real(m)
		n := g.Node(r)
		if (n != nil) != wantNodes[m] {
			bad("Node(%d) non-nil = %v, model has node = %v", m, n != nil, wantNodes[m])
		}
		if n != nil && n.ID() != r {
			bad("Node(%d).ID() = %d", r, n.ID())
		} else {
			l.seeNode(fmt.Sprintf("Node(%d)", m), n, &errs)
		}
		if nw, ok := g.(graph.NodeWithIDer); ok {
			nn, isNew := nw.NodeWithID(r)
			if nn == nil || nn.ID() != r || isNew == wantNodes[m] {
				bad("NodeWithID(%d) = (%v, new=%v), model has node = %v", m, nn, isNew, wantNodes[m])
			}
		}
	}
	// adjacency
	for _, m := range ids {
		r := l.real(m)
		want := setOf(st.From[fmt.Sprint(m)])
		got := l.drainNodes(fmt.Sprintf("From(%d)", m), g.From(r), &errs)
		if !eqSet(got, want) {
			bad("From(%d) = %s, model %s", m, fmtSet(got), fmtSet(want))
		}
		wantTo := setOf(st.To[fmt.Sprint(m)])
		if d, ok := g.(interface{ To(int64) graph.Nodes }); ok {
			gotTo := l.drainNodes(fmt.Sprintf("To(%d)", m), d.To(r), &errs)
			if !eqSet(gotTo, wantTo) {
				bad("To(%d) = %s, model %s", m, fmtSet(gotTo), fmtSet(wantTo))
			}
		}
	}
	heft := map[edgeKey]bool{}
	for _, p := range st.Heft {
		heft[edgeKey{p[0], p[1]}] = true
	}
	heb := map[edgeKey]bool{}
	for _, p := range st.Heb {
		heb[edgeKey{p[0], p[1]}] = true
	}
	wts := map[edgeKey]wRec{}
	for _, w := range st.W {
		wts[edgeKey{w.U, w.V}] = w
	}
	for _, mu := range ids {
		for _, mv := range ids {
			u, v := l.real(mu), l.real(mv)
			k := edgeKey{mu, mv}
			if got := g.HasEdgeBetween(u, v); got != heb[k] {
				bad("HasEdgeBetween(%d,%d) = %v, model %v", mu, mv, got, heb[k])
			}
			if d, ok := g.(interface{ HasEdgeFromTo(int64, int64) bool }); ok {
				if got := d.HasEdgeFromTo(u, v); got != heft[k] {
					bad("HasEdgeFromTo(%d,%d) = %v, model %v", mu, mv, got, heft[k])
				}
			}
			e := g.Edge(u, v)
			if (e != nil) != heft[k] {
				bad("Edge(%d,%d) non-nil = %v, model %v", mu, mv, e != nil, heft[k])
			}
			if e != nil {
				f, t := l.model(e.From().ID()), l.model(e.To().ID())
				if l.ekey(f, t) != l.ekey(mu, mv) {
					bad("Edge(%d,%d) has ends (%d,%d)", mu, mv, f, t)
				}
				if l.k.directed && (f != mu || t != mv) {
					bad("Edge(%d,%d) is oriented (%d,%d)", mu, mv, f, t)
				}
				l.checkEdgeValue(fmt.Sprintf("Edge(%d,%d)", mu, mv), e, evs, st.Ev != nil, &errs)
			}
			if ud, ok := g.(graph.Undirected); ok {
				eb := ud.EdgeBetween(u, v)
				if (eb != nil) != heb[k] {
					bad("EdgeBetween(%d,%d) non-nil = %v, model %v", mu, mv, eb != nil, heb[k])
				}
			}
			if wg, ok := g.(graph.Weighted); ok {
				w, okw := wg.Weight(u, v)
				exp := wts[k]
				var ww float64
				var wok bool
				switch exp.K {
				case "self":
					ww, wok = l.selfV, true
				case "edge":
					ww, wok = l.f(exp.W), true
				default:
					ww, wok = l.absent(), false
				}
				if !sameF(w, ww) || okw != wok {
					bad("Weight(%d,%d) = (%v,%v), model (%v,%v)", mu, mv, w, okw, ww, wok)
				}
				we := wg.WeightedEdge(u, v)
				if (we != nil) != heft[k] {
					bad("WeightedEdge(%d,%d) non-nil = %v, model %v", mu, mv, we != nil, heft[k])
				}
				if we != nil && exp.K == "edge" && !sameF(we.Weight(), l.f(exp.W)) {
					bad("WeightedEdge(%d,%d).Weight() = %v, model %v", mu, mv, we.Weight(), exp.W)
				}
				if we != nil {
					l.checkEdgeValue(fmt.Sprintf("WeightedEdge(%d,%d)", mu, mv), we, evs, st.Ev != nil, &errs)
				}
			}
		}
	}
	// allocator freshness in this state (the model's NewNode guard)
	if na, ok := g.(graph.NodeAdder); ok {
		if o := core.Call(func() {
			if n := na.NewNode(); g.Node(n.ID()) != nil {
				bad("NewNode() returned id %d which is a live node", n.ID())
			}
		}); o.Panicked {
			bad("NewNode() panicked: %s", o.Text)
		}
	}
	// derived graphs: the undirected projection of a directed graph, and copies
	if !l.derived {
		if d, ok := g.(graph.Directed); ok && st.UFrom != nil {
			u := graph.Undirect{G: d}
			for _, m := range ids {
				r := l.real(m)
				want := setOf(st.UFrom[fmt.Sprint(m)])
				got := l.drainNodes(fmt.Sprintf("Undirect.From(%d)", m), u.From(r), &errs)
				if !eqSet(got, want) {
					bad("Undirect.From(%d) = %s, model %s", m, fmtSet(got), fmtSet(want))
				}
				for _, mv := range ids {
					v := l.real(mv)
					k := edgeKey{m, mv}
					if got := u.HasEdgeBetween(r, v); got != heb[k] {
						bad("Undirect.HasEdgeBetween(%d,%d) = %v, model %v", m, mv, got, heb[k])
					}
					if e := u.EdgeBetween(r, v); (e != nil) != heb[k] {
						bad("Undirect.EdgeBetween(%d,%d) non-nil = %v, model %v", m, mv, e != nil, heb[k])
					}
				}
			}
			if wd, ok := g.(graph.WeightedDirected); ok {
				uw := graph.UndirectWeighted{G: wd, Absent: l.absent()}
				for _, m := range ids {
					want := setOf(st.UFrom[fmt.Sprint(m)])
					got := l.drainNodes(fmt.Sprintf("UndirectWeighted.From(%d)", m), uw.From(l.real(m)), &errs)
					if !eqSet(got, want) {
						bad("UndirectWeighted.From(%d) = %s, model %s", m, fmtSet(got), fmtSet(want))
					}
				}
			}
		}
		if l.k.dense == 0 {
			var dst graph.Graph
			errc := core.Call(func() {
				dst = l.k.mk()
				if wg, ok := g.(graph.Weighted); ok && l.k.weighted {
					graph.CopyWeighted(dst.(graph.WeightedBuilder), wg)
				} else {
					graph.Copy(dst.(graph.Builder), g)
				}
			})
			if errc.Panicked {
				bad("graph.Copy panicked: %s", errc.Text)
			} else {
				l2 := &live{k: l.k, g: dst, m2r: l.m2r, r2m: l.r2m, derived: true, selfV: l.selfV, absentV: l.absentV}
				for _, e := range l2.checkState(st, ids) {
					bad("graph.Copy: %s", e)
				}
			}
		}
	}
	// edge set
	wantE := map[edgeKey]int64{}
	for _, e := range st.Edges {
		wantE[l.ekey(e[0], e[1])] = e[2]
	}
	if eg, ok := g.(interface{ Edges() graph.Edges }); ok {
		it := eg.Edges()
		var sl func() []graph.Edge
		if s, ok := it.(graph.EdgeSlicer); ok {
			sl = s.EdgeSlice
		}
		got := l.drainEdges("Edges()", it, it.Edge, sl, &errs)
		if len(got) != len(wantE) {
			bad("Edges() has %d edges, model %d", len(got), len(wantE))
		}
		for k, e := range got {
			if _, ok := wantE[k]; !ok {
				bad("Edges() contains %v which the model does not", k)
			} else {
				l.checkEdgeValue(fmt.Sprintf("Edges() item %v", k), e, evs, st.Ev != nil, &errs)
			}
		}
	}
	if eg, ok := g.(interface{ WeightedEdges() graph.WeightedEdges }); ok {
		it := eg.WeightedEdges()
		var sl func() []graph.Edge
		if s, ok := it.(graph.WeightedEdgeSlicer); ok {
			sl = func() []graph.Edge {
				ws := s.WeightedEdgeSlice()
				if ws == nil {
					return nil
				}
				es := make([]graph.Edge, len(ws))
				for i, w := range ws {
					es[i] = w
				}
				return es
			}
		}
		got := l.drainEdges("WeightedEdges()", it, func() graph.Edge {
			if w := it.WeightedEdge(); w != nil {
				return w
			}
			return nil
		}, sl, &errs)
		if len(got) != len(wantE) {
			bad("WeightedEdges() has %d edges, model %d", len(got), len(wantE))
		}
		for k, e := range got {
			w, ok := wantE[k]
			if !ok {
				bad("WeightedEdges() contains %v which the model does not", k)
			} else if !sameF(e.(graph.WeightedEdge).Weight(), l.f(w)) {
				bad("WeightedEdges() weight of %v = %v, model %v", k, e.(graph.WeightedEdge).Weight(), w)
			} else {
				l.checkEdgeValue(fmt.Sprintf("WeightedEdges() item %v", k), e, evs, st.Ev != nil, &errs)
			}
		}
	}
	return errs
}

// runHistory executes one history case on a fresh container.
func runHistory(c *histCase, sum *core.Summary) {
	k := kindByName(c.Type)
	if k == nil {
		sum.Fail("harness:unknown-type", c.Type, c)
		return
	}
	l := newLive(k)
	liveNodes := map[int64]bool{}
	if b, err := parseBind(c.Bind); err != nil {
		sum.Fail("harness:bad-bind", err.Error(), c)
		return
	} else {
		l.bind = b
	}
	if k.dense > 0 {
		// dense graphs: model ids are the real ids; the history starts with the constructor call
		l.absentV = l.f(c.Absent)
		for _, m := range c.IDs {
			l.real(m)
		}
	}
	sig := func(s string) string { return fmt.Sprintf("graph:%s:%s:%s", c.Type, c.Ops[len(c.Ops)-1].Op, s) }
	for i, o := range c.Ops {
		lastOp := i == len(c.Ops)-1
		out, problem := l.apply(o, liveNodes)
		if problem != "" {
			sum.Fail(sig("allocator"), fmt.Sprintf("step %d %+v: %s", i, o, problem), c)
			return
		}
		wantPanic := (lastOp && c.Out == "panic") || (!lastOp && o.Pan)
		if out.Panicked != wantPanic {
			sum.Fail(sig("panic-mismatch"), fmt.Sprintf("step %d %+v: panicked=%v (%s), model says %v", i, o, out.Panicked, out.Text, wantPanic), c)
			return
		}
		// maintain the live node set for the allocator freshness check
		if !out.Panicked {
			switch o.Op {
			case "AddNode", "NewNode":
				liveNodes[o.U] = true
			case "RemoveNode":
				delete(liveNodes, o.U)
			case "SetEdge":
				liveNodes[o.U], liveNodes[o.V] = true, true
			}
		}
	}
	errs := l.checkState(c.Expect, c.IDs)
	if len(errs) > 0 {
		if len(errs) > 6 {
			errs = errs[:6]
		}
		sum.Fail(sig("state-mismatch"), strings.Join(errs, "; "), c)
	}
}

// replaySimple consumes the output of GraphSet.tla run as a generator: "s"
// records (states with query answers) and "t" records (transitions), or
// explicit "h" history cases (used when a failing case is replayed alone).
func replaySimple(in *core.Lines, args []string, seed int64, sum *core.Summary) error {
	var types []string
	ids := []int64{}
	var absent int64
	bind := "" // weight tokens bound to NaN / +Inf / -Inf (parseBind)
	// views=1: check only the wrapper views (views.go), once per reachable state instead of every
	// query once per transition
	viewsOnly := false
	for _, a := range args {
		if a == "views=1" {
			viewsOnly = true
		}
		if strings.HasPrefix(a, "types=") {
			types = strings.Split(a[6:], ",")
		}
		if strings.HasPrefix(a, "ids=") {
			json.Unmarshal([]byte(a[4:]), &ids)
		}
		if strings.HasPrefix(a, "absent=") {
			fmt.Sscan(a[7:], &absent)
		}
		if strings.HasPrefix(a, "bind=") {
			bind = a[5:]
		}
	}
	if _, err := parseBind(bind); err != nil {
		return err
	}
	states := map[string]*fullState{}
	views := map[string]*viewState{}
	var viewOrder []string
	var trans []*transRec
	nh := 0
	for {
		b, ok := in.Next()
		if !ok {
			break
		}
		var probe struct {
			K string `json:"k"`
		}
		if err := json.Unmarshal(b, &probe); err != nil {
			return fmt.Errorf("line %d: %v", in.N, err)
		}
		switch probe.K {
		case "s":
			if viewsOnly {
				continue
			}
			st := new(fullState)
			if err := json.Unmarshal(b, st); err != nil {
				return err
			}
			states[keyOf(&stateRec{Nodes: st.Nodes, Edges: st.Edges, Built: st.Built, Obj: st.Obj})] = st
		case "v":
			if !viewsOnly {
				continue
			}
			v := new(viewState)
			if err := json.Unmarshal(b, v); err != nil {
				return err
			}
			k := keyOf(&stateRec{Nodes: v.Nodes, Edges: v.Edges, Built: v.Built, Obj: v.Obj})
			views[k] = v
			viewOrder = append(viewOrder, k)
		case "vh":
			c := new(viewCase)
			if err := json.Unmarshal(b, c); err != nil {
				return err
			}
			if c.Bind == "" {
				c.Bind = bind
			}
			runViewHistory(c, sum)
			sum.Cases++
			sum.Nontrivial++
			nh++
		case "t":
			t := new(transRec)
			if err := json.Unmarshal(b, t); err != nil {
				return err
			}
			trans = append(trans, t)
		case "h":
			c := new(histCase)
			if err := json.Unmarshal(b, c); err != nil {
				return err
			}
			if c.Bind == "" {
				c.Bind = bind
			}
			runHistory(c, sum)
			sum.Cases++
			sum.Nontrivial++
			nh++
		}
	}
	if len(trans) == 0 {
		return nil
	}
	// shortest history reaching every state, from the BFS order of the dump
	path := map[string][]opRec{}
	// dense graphs: the constructor calls that lead from "no graph" to the same state are
	// interchangeable as the first call of a history (the specification gives them one and the
	// same post-state): alts[root] lists them, root[state] is the first built state on its path
	alts := map[string][]opRec{}
	root := map[string]string{}
	for _, t := range trans {
		sk, tk := keyOf(&t.S), keyOf(&t.T)
		if len(path) == 0 {
			path[sk] = []opRec{}
		}
		if t.Op.Op == "Construct" && t.Out == "ok" {
			alts[tk] = append(alts[tk], t.Op)
		}
		// (a state first reached by a panicking call - GraphDense.tla: the identity of a node object
		// is left open by a panicking SetEdge - is reached through that call, marked Pan)
		if _, ok := path[tk]; !ok && (t.Out == "ok" || t.S.Built != "") {
			p, ok := path[sk]
			if !ok {
				return fmt.Errorf("transition from a state with no known history: %s", sk)
			}
			op := t.Op
			op.Pan = t.Out == "panic"
			path[tk] = append(append([]opRec{}, p...), op)
			if t.Op.Op == "Construct" {
				root[tk] = tk
			} else {
				root[tk] = root[sk]
			}
		}
	}
	if viewsOnly {
		// every reachable state once, reached by its shortest real history
		for vi, sk := range viewOrder {
			ops, ok := path[sk]
			if !ok {
				return fmt.Errorf("no history reaches the state %s", sk)
			}
			ops = append([]opRec{}, ops...)
			if a := alts[root[sk]]; len(ops) > 0 && len(a) > 1 {
				ops[0] = a[(vi+int(seed%1000))%len(a)]
			}
			for _, ty := range types {
				c := &viewCase{K: "vh", Type: ty, Ops: ops, Expect: views[sk], IDs: ids, Absent: absent, Bind: bind}
				runViewHistory(c, sum)
				sum.Cases++
				if len(views[sk].Nodes) > 1 {
					sum.Nontrivial++
				}
				if sum.Cases%997 == 1 {
					sum.Sample(map[string]any{"type": ty, "history": ops, "views_of": stateRec{Nodes: views[sk].Nodes, Edges: views[sk].Edges}})
				}
			}
		}
		sum.Count("model_states", len(views))
		return nil
	}
	distinct := map[string]bool{}
	for ti, t := range trans {
		sk, tk := keyOf(&t.S), keyOf(&t.T)
		exp := states[tk]
		if exp == nil {
			return fmt.Errorf("no state record for %s", tk)
		}
		ops := append(append([]opRec{}, path[sk]...), t.Op)
		if a := alts[root[sk]]; len(ops) > 1 && len(a) > 1 {
			// every history is replayed behind one of the equivalent constructor calls, chosen by
			// the position of the transition and the seed (all node orders, both constructors' self values)
			ops[0] = a[(ti+int(seed%1000))%len(a)]
		}
		for _, ty := range types {
			c := &histCase{K: "h", Type: ty, Ops: ops, Out: t.Out, Expect: exp, IDs: ids, Absent: absent, Bind: bind}
			runHistory(c, sum)
			sum.Cases++
			if sk != tk || t.Out == "panic" {
				sum.Nontrivial++
			}
			if sum.Cases%9973 == 1 {
				sum.Sample(map[string]any{"type": ty, "history": ops, "outcome": t.Out, "post": t.T})
			}
		}
		distinct[sk+"|"+fmt.Sprint(t.Op)] = true
	}
	nalt := 0
	for _, a := range alts {
		nalt += len(a)
	}
	if nalt > 0 {
		sum.Count("constructor_calls", nalt)
	}
	sum.Count("model_states", len(states))
	sum.Count("model_transitions", len(distinct))
	return nil
}

func init() {
	core.RegisterReplay("graph-simple", replaySimple)
}
