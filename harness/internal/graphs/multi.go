package graphs

import (
	"encoding/json"
	"fmt"
	"sort"
	"strings"

	"gonum.org/v1/gonum/graph"
	"gonum.org/v1/gonum/graph/multi"

	"gonum.org/v1/gonum/verifharness/internal/core"
)

// ---- records emitted by GraphMulti.tla -----------------------------------

type lineRec [4]int64 // a, b, line id, weight token

type mStateRec struct {
	Nodes []int64   `json:"nodes"`
	Lines []lineRec `json:"lines"`
}

// lineValRec is a line VALUE of a pair and the value its ReversedLine must be.
type lineValRec struct {
	I  int64 `json:"i"`
	W  int64 `json:"w"`
	RF int64 `json:"rf"`
	RT int64 `json:"rt"`
	RI int64 `json:"ri"`
	RW int64 `json:"rw"`
}

// lidRec is the edge VALUE of an ordered pair: its line ids, weight, the ends of its
// ReversedEdge and its line values.
type lidRec struct {
	U   int64        `json:"u"`
	V   int64        `json:"v"`
	IDs []int64      `json:"ids"`
	W   int64        `json:"w"`
	RF  int64        `json:"rf"`
	RT  int64        `json:"rt"`
	LV  []lineValRec `json:"lv"`
	// HasValues is false for cases printed before the specification listed the values
	HasValues bool `json:"-"`
}

type mFullState struct {
	K     string             `json:"k"`
	Nodes []int64            `json:"nodes"`
	Lines []lineRec          `json:"lines"`
	From  map[string][]int64 `json:"from"`
	To    map[string][]int64 `json:"to"`
	Heft  [][2]int64         `json:"heft"`
	Heb   [][2]int64         `json:"heb"`
	Lids  []lidRec           `json:"lids"`
	Pairs [][2]int64         `json:"pairs"`
}

type mOpRec struct {
	Op string `json:"op"`
	U  int64  `json:"u"`
	V  int64  `json:"v"`
	I  int64  `json:"i"`
	W  int64  `json:"w"`
}

type mTransRec struct {
	K   string    `json:"k"`
	S   mStateRec `json:"s"`
	Op  mOpRec    `json:"op"`
	T   mStateRec `json:"t"`
	Out string    `json:"out"`
}

type mHistCase struct {
	K      string      `json:"k"` // "mh"
	Type   string      `json:"type"`
	Ops    []mOpRec    `json:"ops"`
	Out    string      `json:"out"`
	Expect *mFullState `json:"expect"`
	IDs    []int64     `json:"ids"`
}

func mkey(n []int64, e []lineRec) string {
	n2 := append([]int64(nil), n...)
	sort.Slice(n2, func(i, j int) bool { return n2[i] < n2[j] })
	e2 := append([]lineRec(nil), e...)
	sort.Slice(e2, func(i, j int) bool {
		for k := 0; k < 4; k++ {
			if e2[i][k] != e2[j][k] {
				return e2[i][k] < e2[j][k]
			}
		}
		return false
	})
	return fmt.Sprint(n2, e2)
}

type mkind struct {
	name     string
	directed bool
	weighted bool
	mk       func() graph.Multigraph
}

var mkinds = []mkind{
	{"multi.DirectedGraph", true, false, func() graph.Multigraph { return multi.NewDirectedGraph() }},
	{"multi.UndirectedGraph", false, false, func() graph.Multigraph { return multi.NewUndirectedGraph() }},
	{"multi.WeightedDirectedGraph", true, true, func() graph.Multigraph { return multi.NewWeightedDirectedGraph() }},
	{"multi.WeightedUndirectedGraph", false, true, func() graph.Multigraph { return multi.NewWeightedUndirectedGraph() }},
}

type pairLid struct{ a, b, i int64 }

type mlive struct {
	k   *mkind
	g   graph.Multigraph
	m2r map[int64]int64 // node ids
	r2m map[int64]int64
	l2r map[pairLid]int64 // (model pair, model line id) -> real line id
	r2l map[pairLid]int64 // (model pair, real line id)  -> model line id
}

func newMLive(k *mkind) *mlive {
	return &mlive{k: k, g: k.mk(), m2r: map[int64]int64{}, r2m: map[int64]int64{}, l2r: map[pairLid]int64{}, r2l: map[pairLid]int64{}}
}

func (l *mlive) real(m int64) int64 {
	if r, ok := l.m2r[m]; ok {
		return r
	}
	r := m
	for {
		if _, used := l.r2m[r]; !used {
			break
		}
		r += 1000
	}
	l.m2r[m], l.r2m[r] = r, m
	return r
}

func (l *mlive) model(r int64) int64 {
	if m, ok := l.r2m[r]; ok {
		return m
	}
	return r + 1_000_000
}

func (l *mlive) norm(a, b int64) (int64, int64) {
	if !l.k.directed && a > b {
		return b, a
	}
	return a, b
}

// realLid returns the real line id bound to model line id i of model pair (a,b).
func (l *mlive) realLid(a, b, i int64) int64 {
	a, b = l.norm(a, b)
	if r, ok := l.l2r[pairLid{a, b, i}]; ok {
		return r
	}
	r := i
	for {
		if _, used := l.r2l[pairLid{a, b, r}]; !used {
			break
		}
		r += 1000
	}
	l.l2r[pairLid{a, b, i}], l.r2l[pairLid{a, b, r}] = r, i
	return r
}

func (l *mlive) modelLid(a, b, r int64) int64 {
	a, b = l.norm(a, b)
	if i, ok := l.r2l[pairLid{a, b, r}]; ok {
		return i
	}
	return r + 1_000_000
}

func (l *mlive) setLine(u, v, id int64, w int64) {
	if l.k.weighted {
		l.g.(graph.WeightedLineAdder).SetWeightedLine(multi.WeightedLine{F: multi.Node(u), T: multi.Node(v), W: float64(w), UID: id})
	} else {
		l.g.(graph.LineAdder).SetLine(multi.Line{F: multi.Node(u), T: multi.Node(v), UID: id})
	}
}

func (l *mlive) lineIDs(u, v int64) []int64 {
	var ids []int64
	it := l.g.Lines(u, v)
	for it.Next() {
		ids = append(ids, it.Line().ID())
	}
	return ids
}

func (l *mlive) apply(o mOpRec, liveNodes map[int64]bool) (out core.Outcome, problem string) {
	switch o.Op {
	case "AddNode":
		id := l.real(o.U)
		out = core.Call(func() { l.g.(graph.NodeAdder).AddNode(multi.Node(id)) })
	case "NewNode":
		var n graph.Node
		out = core.Call(func() { n = l.g.(graph.NodeAdder).NewNode() })
		if out.Panicked {
			return out, "NewNode panicked: " + out.Text
		}
		r := n.ID()
		if l.g.Node(r) != nil {
			return out, fmt.Sprintf("NewNode returned id %d which is a live node", r)
		}
		if old, ok := l.m2r[o.U]; ok {
			delete(l.r2m, old)
		}
		if m2, ok := l.r2m[r]; ok && m2 != o.U {
			delete(l.m2r, m2)
		}
		l.m2r[o.U], l.r2m[r] = r, o.U
		out = core.Call(func() { l.g.(graph.NodeAdder).AddNode(n) })
	case "RemoveNode":
		id := l.real(o.U)
		out = core.Call(func() { l.g.(graph.NodeRemover).RemoveNode(id) })
	case "SetLine":
		u, v := l.real(o.U), l.real(o.V)
		id := l.realLid(o.U, o.V, o.I)
		out = core.Call(func() { l.setLine(u, v, id, o.W) })
	case "NewLine":
		u, v := l.real(o.U), l.real(o.V)
		var nl graph.Line
		out = core.Call(func() {
			if l.k.weighted {
				nl = l.g.(graph.WeightedLineAdder).NewWeightedLine(multi.Node(u), multi.Node(v), float64(o.W))
			} else {
				nl = l.g.(graph.LineAdder).NewLine(multi.Node(u), multi.Node(v))
			}
		})
		if out.Panicked {
			return out, "NewLine panicked: " + out.Text
		}
		r := nl.ID()
		for _, liveID := range l.lineIDs(u, v) {
			if liveID == r {
				return out, fmt.Sprintf("NewLine(%d,%d) returned line id %d which is a live line of the pair", o.U, o.V, r)
			}
		}
		// rebind model line id o.I of this pair to r
		a, b := l.norm(o.U, o.V)
		if old, ok := l.l2r[pairLid{a, b, o.I}]; ok {
			delete(l.r2l, pairLid{a, b, old})
		}
		if i2, ok := l.r2l[pairLid{a, b, r}]; ok && i2 != o.I {
			delete(l.l2r, pairLid{a, b, i2})
		}
		l.l2r[pairLid{a, b, o.I}], l.r2l[pairLid{a, b, r}] = r, o.I
		out = core.Call(func() { l.setLine(u, v, r, o.W) })
	case "RemoveLine":
		u, v := l.real(o.U), l.real(o.V)
		id := l.realLid(o.U, o.V, o.I)
		out = core.Call(func() { l.g.(graph.LineRemover).RemoveLine(u, v, id) })
	default:
		return out, "unknown op " + o.Op
	}
	return out, ""
}

// drainLines checks the Iterator contract on a Lines iterator and returns the model line ids.
func (l *mlive) drainLines(what string, mu, mv int64, it graph.Lines, errs *[]string) map[int64]bool {
	bad := func(f string, a ...any) { *errs = append(*errs, what+": "+fmt.Sprintf(f, a...)) }
	n := it.Len()
	got := map[int64]bool{}
	cnt := 0
	for it.Next() {
		cnt++
		ln := it.Line()
		if ln == nil {
			bad("Line() nil during iteration")
			break
		}
		f, t := l.model(ln.From().ID()), l.model(ln.To().ID())
		a, b := l.norm(f, t)
		wa, wb := l.norm(mu, mv)
		if a != wa || b != wb {
			bad("line with ends (%d,%d) returned for pair (%d,%d)", f, t, mu, mv)
		}
		if l.k.directed && (f != mu || t != mv) {
			bad("line oriented (%d,%d) returned for Lines(%d,%d)", f, t, mu, mv)
		}
		i := l.modelLid(mu, mv, ln.ID())
		if got[i] {
			bad("line id %d enumerated twice", i)
		}
		got[i] = true
		if n >= 0 && it.Len() != n-cnt {
			bad("Len()=%d after %d of %d Next calls", it.Len(), cnt, n)
		}
		if cnt > 10000 {
			bad("iterator does not terminate")
			break
		}
	}
	if n >= 0 && cnt != n {
		bad("Len() said %d, Next yielded %d", n, cnt)
	}
	if n >= 0 && it.Len() != 0 {
		bad("Len()=%d on the exhausted iterator, want 0", it.Len())
	}
	it.Reset()
	if n >= 0 && it.Len() != n {
		bad("Len()=%d after Reset, want %d", it.Len(), n)
	}
	c2 := 0
	if it.Next() {
		c2++
	}
	if sl, ok := it.(graph.LineSlicer); ok {
		c2 += len(sl.LineSlice())
		if n >= 0 && it.Len() != 0 {
			bad("Len()=%d after LineSlice handed out the remaining lines, want 0", it.Len())
		}
		if it.Next() {
			bad("Next() true after LineSlice")
		}
	} else {
		for it.Next() {
			c2++
		}
	}
	if c2 != cnt {
		bad("second pass after Reset yielded %d lines, first %d", c2, cnt)
	}
	it.Reset()
	return got
}

func (l *mlive) drainNodes(what string, it graph.Nodes, errs *[]string) map[int64]bool {
	// reuse the simple-graph iterator exerciser through a shim
	s := &live{m2r: l.m2r, r2m: l.r2m}
	return s.drainNodes(what, it, errs)
}

func (l *mlive) checkState(st *mFullState, ids []int64) []string {
	var errs []string
	bad := func(f string, a ...any) { errs = append(errs, fmt.Sprintf(f, a...)) }
	g := l.g
	wantNodes := setOf(st.Nodes)
	gotNodes := l.drainNodes("Nodes()", g.Nodes(), &errs)
	if !eqSet(gotNodes, wantNodes) {
		bad("Nodes() = %s, model %s", fmtSet(gotNodes), fmtSet(wantNodes))
	}
	for _, m := range ids {
		r := l.real(m)
		n := g.Node(r)
		if (n != nil) != wantNodes[m] {
			bad("Node(%d) non-nil = %v, model has node = %v", m, n != nil, wantNodes[m])
		}
		if nw, ok := g.(graph.NodeWithIDer); ok {
			nn, isNew := nw.NodeWithID(r)
			if nn == nil || nn.ID() != r || isNew == wantNodes[m] {
				bad("NodeWithID(%d) = (%v, new=%v), model has node = %v", m, nn, isNew, wantNodes[m])
			}
		}
		want := setOf(st.From[fmt.Sprint(m)])
		got := l.drainNodes(fmt.Sprintf("From(%d)", m), g.From(r), &errs)
		if !eqSet(got, want) {
			bad("From(%d) = %s, model %s", m, fmtSet(got), fmtSet(want))
		}
		if d, ok := g.(interface{ To(int64) graph.Nodes }); ok {
			wantTo := setOf(st.To[fmt.Sprint(m)])
			gotTo := l.drainNodes(fmt.Sprintf("To(%d)", m), d.To(r), &errs)
			if !eqSet(gotTo, wantTo) {
				bad("To(%d) = %s, model %s", m, fmtSet(gotTo), fmtSet(wantTo))
			}
		}
	}
	heft := map[edgeKey]bool{}
	for _, p := range st.Heft {
		heft[edgeKey{p[0], p[1]}] = true
	}
	heb := map[edgeKey]bool{}
	for _, p := range st.Heb {
		heb[edgeKey{p[0], p[1]}] = true
	}
	for _, lr := range st.Lids {
		mu, mv := lr.U, lr.V
		u, v := l.real(mu), l.real(mv)
		k := edgeKey{mu, mv}
		if got := g.HasEdgeBetween(u, v); got != heb[k] {
			bad("HasEdgeBetween(%d,%d) = %v, model %v", mu, mv, got, heb[k])
		}
		if d, ok := g.(interface{ HasEdgeFromTo(int64, int64) bool }); ok {
			if got := d.HasEdgeFromTo(u, v); got != heft[k] {
				bad("HasEdgeFromTo(%d,%d) = %v, model %v", mu, mv, got, heft[k])
			}
		}
		want := setOf(lr.IDs)
		got := l.drainLines(fmt.Sprintf("Lines(%d,%d)", mu, mv), mu, mv, g.Lines(u, v), &errs)
		if !eqSet(got, want) {
			bad("Lines(%d,%d) ids = %s, model %s", mu, mv, fmtSet(got), fmtSet(want))
		}
		if ug, ok := g.(graph.UndirectedMultigraph); ok {
			got := l.drainLines(fmt.Sprintf("LinesBetween(%d,%d)", mu, mv), mu, mv, ug.LinesBetween(u, v), &errs)
			if !eqSet(got, want) {
				bad("LinesBetween(%d,%d) ids = %s, model %s", mu, mv, fmtSet(got), fmtSet(want))
			}
		}
		if wg, ok := g.(graph.WeightedMultigraph); ok {
			it := wg.WeightedLines(u, v)
			var sum float64
			n := 0
			for it.Next() {
				sum += it.WeightedLine().Weight()
				n++
			}
			if n != len(lr.IDs) || sum != float64(lr.W) {
				bad("WeightedLines(%d,%d): %d lines of total weight %v, model %d lines, %d", mu, mv, n, sum, len(lr.IDs), lr.W)
			}
			if wt, ok := g.(interface {
				Weight(int64, int64) (float64, bool)
			}); ok {
				w, okw := wt.Weight(u, v)
				if okw != (len(lr.IDs) > 0) || (okw && w != float64(lr.W)) {
					bad("Weight(%d,%d) = (%v,%v), model (%d,%v)", mu, mv, w, okw, lr.W, len(lr.IDs) > 0)
				}
			}
		}
	}
	// the returned VALUES: multi.Edge / multi.WeightedEdge for every joined pair from every query
	// that returns one, and the line values with their reversals
	byPair := map[edgeKey]*lidRec{}
	for i := range st.Lids {
		st.Lids[i].HasValues = st.Lids[i].LV != nil
		byPair[edgeKey{st.Lids[i].U, st.Lids[i].V}] = &st.Lids[i]
	}
	for i := range st.Lids {
		lr := &st.Lids[i]
		mu, mv := lr.U, lr.V
		u, v := l.real(mu), l.real(mv)
		k := edgeKey{mu, mv}
		queries := []struct {
			name string
			get  func() graph.Edge
		}{{"Edge", func() graph.Edge { return g.(interface{ Edge(int64, int64) graph.Edge }).Edge(u, v) }}}
		if ug, ok := g.(graph.Undirected); ok {
			queries = append(queries, struct {
				name string
				get  func() graph.Edge
			}{"EdgeBetween", func() graph.Edge { return ug.EdgeBetween(u, v) }})
		}
		if wg, ok := g.(graph.Weighted); ok {
			queries = append(queries, struct {
				name string
				get  func() graph.Edge
			}{"WeightedEdge", func() graph.Edge {
				if we := wg.WeightedEdge(u, v); we != nil {
					return we
				}
				return nil
			}})
		}
		if wg, ok := g.(graph.WeightedUndirected); ok {
			queries = append(queries, struct {
				name string
				get  func() graph.Edge
			}{"WeightedEdgeBetween", func() graph.Edge {
				if we := wg.WeightedEdgeBetween(u, v); we != nil {
					return we
				}
				return nil
			}})
		}
		for _, q := range queries {
			e := q.get()
			if (e != nil) != heft[k] {
				bad("%s(%d,%d) non-nil = %v, model %v", q.name, mu, mv, e != nil, heft[k])
				continue
			}
			if e == nil {
				continue
			}
			what := fmt.Sprintf("%s(%d,%d)", q.name, mu, mv)
			f, t := l.model(e.From().ID()), l.model(e.To().ID())
			if l.k.directed && (f != mu || t != mv) {
				bad("%s is oriented (%d,%d)", what, f, t)
				continue
			}
			l.checkEdgeValue(what, e, byPair, &errs)
		}
		// line values
		if lr.HasValues {
			l.checkLineValues(fmt.Sprintf("Lines(%d,%d)", mu, mv), g.Lines(u, v), byPair, &errs)
			if wg, ok := g.(graph.WeightedMultigraph); ok {
				it := wg.WeightedLines(u, v)
				l.checkLineValues(fmt.Sprintf("WeightedLines(%d,%d)", mu, mv), linesOfWeighted{it}, byPair, &errs)
			}
		}
	}
	if eg, ok := g.(interface{ WeightedEdges() graph.WeightedEdges }); ok {
		it := eg.WeightedEdges()
		seen := map[edgeKey]bool{}
		for it.Next() {
			e := it.WeightedEdge()
			a, b := l.norm(l.model(e.From().ID()), l.model(e.To().ID()))
			if seen[edgeKey{a, b}] {
				bad("WeightedEdges(): pair (%d,%d) enumerated twice", a, b)
			}
			seen[edgeKey{a, b}] = true
			l.checkEdgeValue(fmt.Sprintf("WeightedEdges() item (%d,%d)", a, b), e, byPair, &errs)
		}
		if len(seen) != len(st.Pairs) {
			bad("WeightedEdges() has %d pairs, model %d", len(seen), len(st.Pairs))
		}
	}
	// allocator freshness in this state (the model's NewNode / NewLine guards):
	// an id handed out now must not be live
	if na, ok := g.(graph.NodeAdder); ok {
		if o := core.Call(func() {
			if n := na.NewNode(); g.Node(n.ID()) != nil {
				bad("NewNode() returned id %d which is a live node", n.ID())
			}
		}); o.Panicked {
			bad("NewNode() panicked: %s", o.Text)
		}
	}
	for _, lr := range st.Lids {
		if !wantNodes[lr.U] || !wantNodes[lr.V] {
			continue
		}
		u, v := l.real(lr.U), l.real(lr.V)
		if o := core.Call(func() {
			var nl graph.Line
			if l.k.weighted {
				nl = g.(graph.WeightedLineAdder).NewWeightedLine(multi.Node(u), multi.Node(v), 1)
			} else {
				nl = g.(graph.LineAdder).NewLine(multi.Node(u), multi.Node(v))
			}
			for _, id := range l.lineIDs(u, v) {
				if id == nl.ID() {
					bad("NewLine(%d,%d) returned line id %d which is a live line of the pair", lr.U, lr.V, id)
				}
			}
		}); o.Panicked {
			bad("NewLine(%d,%d) panicked: %s", lr.U, lr.V, o.Text)
		}
	}
	// Edges(): one multi edge per joined pair, whose lines are the pair's lines
	if eg, ok := g.(interface{ Edges() graph.Edges }); ok {
		it := eg.Edges()
		n := it.Len()
		seen := map[edgeKey]bool{}
		cnt := 0
		for it.Next() {
			cnt++
			e := it.Edge()
			a, b := l.norm(l.model(e.From().ID()), l.model(e.To().ID()))
			if seen[edgeKey{a, b}] {
				bad("Edges(): pair (%d,%d) enumerated twice", a, b)
			}
			seen[edgeKey{a, b}] = true
			l.checkEdgeValue(fmt.Sprintf("Edges() item (%d,%d)", a, b), e, byPair, &errs)
			if n >= 0 && it.Len() != n-cnt {
				bad("Edges(): Len()=%d after %d of %d Next calls", it.Len(), cnt, n)
			}
		}
		if n >= 0 && it.Len() != 0 {
			bad("Edges(): Len()=%d on the exhausted iterator, want 0", it.Len())
		}
		want := map[edgeKey]bool{}
		for _, p := range st.Pairs {
			want[edgeKey{p[0], p[1]}] = true
		}
		if len(seen) != len(want) {
			bad("Edges() has %d pairs, model %d", len(seen), len(want))
		}
		for k := range seen {
			if !want[k] {
				bad("Edges() contains pair %v which the model does not", k)
			}
		}
	}
	return errs
}

// linesOfWeighted presents a WeightedLines iterator as a Lines iterator.
type linesOfWeighted struct{ graph.WeightedLines }

func (w linesOfWeighted) Line() graph.Line {
	if l := w.WeightedLine(); l != nil {
		return l
	}
	return nil
}

// checkEdgeValue compares a returned multi.Edge / multi.WeightedEdge with the value the
// specification printed for the pair it claims to join: the lines behind its embedded iterator,
// Weight() asked twice (the iterator must be back at its start each time), and ReversedEdge.
func (l *mlive) checkEdgeValue(what string, e graph.Edge, byPair map[edgeKey]*lidRec, errs *[]string) {
	bad := func(f string, a ...any) { *errs = append(*errs, what+": "+fmt.Sprintf(f, a...)) }
	f, t := l.model(e.From().ID()), l.model(e.To().ID())
	lr := byPair[edgeKey{f, t}]
	if lr == nil || len(lr.IDs) == 0 {
		bad("edge value with ends (%d,%d), which the model does not join", f, t)
		return
	}
	var it graph.Lines
	var weight func() float64
	switch v := e.(type) {
	case multi.Edge:
		if l.k.weighted {
			bad("is a multi.Edge, the documentation promises a multi.WeightedEdge")
			return
		}
		it = v.Lines
	case multi.WeightedEdge:
		if !l.k.weighted {
			bad("is a multi.WeightedEdge, the documentation promises a multi.Edge")
			return
		}
		if v.WeightedLines != nil {
			it = linesOfWeighted{v.WeightedLines}
		}
		weight = v.Weight
	default:
		bad("is a %T, the documentation promises multi.Edge / multi.WeightedEdge", e)
		return
	}
	if it == nil {
		bad("edge value without lines")
		return
	}
	want := setOf(lr.IDs)
	if weight != nil {
		for call := 1; call <= 2; call++ {
			if w := weight(); w != float64(lr.W) {
				bad("Weight() call %d = %v, model %d", call, w, lr.W)
			}
			if n := it.Len(); n != len(lr.IDs) {
				bad("Len() of the embedded lines = %d after Weight() call %d, model %d", n, call, len(lr.IDs))
			}
		}
	}
	got := map[int64]bool{}
	for it.Next() {
		ln := it.Line()
		if ln == nil {
			bad("nil line")
			break
		}
		got[l.modelLid(f, t, ln.ID())] = true
		if len(got) > 1000 {
			break
		}
	}
	it.Reset()
	if !eqSet(got, want) {
		bad("lines of the edge value = %s, model %s", fmtSet(got), fmtSet(want))
	}
	if weight != nil {
		if w := weight(); w != float64(lr.W) {
			bad("Weight() after an iteration and Reset = %v, model %d", w, lr.W)
		}
	}
	if !lr.HasValues {
		return
	}
	r := e.ReversedEdge()
	if r == nil {
		bad("ReversedEdge() is nil")
		return
	}
	if rf, rt := l.model(r.From().ID()), l.model(r.To().ID()); rf != lr.RF || rt != lr.RT {
		bad("ReversedEdge() has ends (%d,%d), model (%d,%d)", rf, rt, lr.RF, lr.RT)
	}
	if weight != nil {
		rw, ok := r.(graph.WeightedEdge)
		if !ok {
			bad("ReversedEdge() of a weighted edge value is a %T", r)
		} else if w := rw.Weight(); w != float64(lr.W) {
			bad("ReversedEdge().Weight() = %v, model %d", w, lr.W)
		}
		if n := it.Len(); n != len(lr.IDs) {
			bad("Len() of the embedded lines = %d after ReversedEdge().Weight(), model %d", n, len(lr.IDs))
		}
	}
}

// checkLineValues compares every line VALUE an iterator hands out, and its ReversedLine, with
// the values the specification printed.
func (l *mlive) checkLineValues(what string, it graph.Lines, byPair map[edgeKey]*lidRec, errs *[]string) {
	bad := func(f string, a ...any) { *errs = append(*errs, what+": "+fmt.Sprintf(f, a...)) }
	n := 0
	for it.Next() {
		if n++; n > 1000 {
			break
		}
		ln := it.Line()
		if ln == nil {
			bad("nil line")
			break
		}
		f, t := l.model(ln.From().ID()), l.model(ln.To().ID())
		lr := byPair[edgeKey{f, t}]
		if lr == nil {
			bad("line with ends (%d,%d) outside the model's ids", f, t)
			continue
		}
		i := l.modelLid(f, t, ln.ID())
		var lv *lineValRec
		for j := range lr.LV {
			if lr.LV[j].I == i {
				lv = &lr.LV[j]
			}
		}
		if lv == nil {
			bad("line value (%d,%d,%d) which the model does not have", f, t, i)
			continue
		}
		if l.k.weighted {
			wl, ok := ln.(graph.WeightedLine)
			if !ok || wl.Weight() != float64(lv.W) {
				bad("line (%d,%d,%d) = %v, model weight %d", f, t, i, ln, lv.W)
			}
		}
		r := ln.ReversedLine()
		if r == nil {
			bad("ReversedLine() of (%d,%d,%d) is nil", f, t, i)
			continue
		}
		rf, rt, ri := l.model(r.From().ID()), l.model(r.To().ID()), l.modelLid(f, t, r.ID())
		if rf != lv.RF || rt != lv.RT || ri != lv.RI {
			bad("ReversedLine() of (%d,%d,%d) = (%d,%d,%d), model (%d,%d,%d)", f, t, i, rf, rt, ri, lv.RF, lv.RT, lv.RI)
		}
		if l.k.weighted {
			rw, ok := r.(graph.WeightedLine)
			if !ok || rw.Weight() != float64(lv.RW) {
				bad("ReversedLine() of (%d,%d,%d) = %v, model weight %d", f, t, i, r, lv.RW)
			}
		}
	}
	it.Reset()
}

func runMHistory(c *mHistCase, sum *core.Summary) {
	var k *mkind
	for i := range mkinds {
		if mkinds[i].name == c.Type {
			k = &mkinds[i]
		}
	}
	if k == nil {
		sum.Fail("harness:unknown-type", c.Type, c)
		return
	}
	l := newMLive(k)
	sig := func(s string) string { return fmt.Sprintf("graph:%s:%s:%s", c.Type, c.Ops[len(c.Ops)-1].Op, s) }
	for i, o := range c.Ops {
		lastOp := i == len(c.Ops)-1
		out, problem := l.apply(o, nil)
		if problem != "" {
			sum.Fail(sig("allocator"), fmt.Sprintf("step %d %+v: %s", i, o, problem), c)
			return
		}
		wantPanic := lastOp && c.Out == "panic"
		if out.Panicked != wantPanic {
			sum.Fail(sig("panic-mismatch"), fmt.Sprintf("step %d %+v: panicked=%v (%s), model says %v", i, o, out.Panicked, out.Text, wantPanic), c)
			return
		}
	}
	errs := l.checkState(c.Expect, c.IDs)
	if len(errs) > 0 {
		if len(errs) > 6 {
			errs = errs[:6]
		}
		sum.Fail(sig("state-mismatch"), strings.Join(errs, "; "), c)
	}
}

func replayMulti(in *core.Lines, args []string, seed int64, sum *core.Summary) error {
	var types []string
	ids := []int64{}
	viewsOnly := false // views=1: only the wrapper views (views.go), once per reachable state
	for _, a := range args {
		if a == "views=1" {
			viewsOnly = true
		}
		if strings.HasPrefix(a, "types=") {
			types = strings.Split(a[6:], ",")
		}
		if strings.HasPrefix(a, "ids=") {
			json.Unmarshal([]byte(a[4:]), &ids)
		}
	}
	states := map[string]*mFullState{}
	views := map[string]*viewState{}
	var viewOrder []string
	var trans []*mTransRec
	for {
		b, ok := in.Next()
		if !ok {
			break
		}
		var probe struct {
			K string `json:"k"`
		}
		if err := json.Unmarshal(b, &probe); err != nil {
			return fmt.Errorf("line %d: %v", in.N, err)
		}
		switch probe.K {
		case "s":
			if viewsOnly {
				continue
			}
			st := new(mFullState)
			if err := json.Unmarshal(b, st); err != nil {
				return err
			}
			states[mkey(st.Nodes, st.Lines)] = st
		case "v":
			if !viewsOnly {
				continue
			}
			v := new(viewState)
			if err := json.Unmarshal(b, v); err != nil {
				return err
			}
			views[mkey(v.Nodes, v.Lines)] = v
			viewOrder = append(viewOrder, mkey(v.Nodes, v.Lines))
		case "mvh":
			c := new(viewCase)
			if err := json.Unmarshal(b, c); err != nil {
				return err
			}
			runMViewHistory(c, sum)
			sum.Cases++
			sum.Nontrivial++
		case "t":
			t := new(mTransRec)
			if err := json.Unmarshal(b, t); err != nil {
				return err
			}
			trans = append(trans, t)
		case "mh":
			c := new(mHistCase)
			if err := json.Unmarshal(b, c); err != nil {
				return err
			}
			runMHistory(c, sum)
			sum.Cases++
			sum.Nontrivial++
		}
	}
	if len(trans) == 0 {
		return nil
	}
	path := map[string][]mOpRec{}
	for _, t := range trans {
		sk, tk := mkey(t.S.Nodes, t.S.Lines), mkey(t.T.Nodes, t.T.Lines)
		if len(path) == 0 {
			path[sk] = []mOpRec{}
		}
		if _, ok := path[tk]; !ok && t.Out == "ok" {
			p, ok := path[sk]
			if !ok {
				return fmt.Errorf("transition from a state with no known history: %s", sk)
			}
			path[tk] = append(append([]mOpRec{}, p...), t.Op)
		}
	}
	if viewsOnly {
		for _, sk := range viewOrder {
			ops, ok := path[sk]
			if !ok {
				return fmt.Errorf("no history reaches the state %s", sk)
			}
			for _, ty := range types {
				c := &viewCase{K: "mvh", Type: ty, MOps: ops, Expect: views[sk], IDs: ids}
				runMViewHistory(c, sum)
				sum.Cases++
				if len(views[sk].Nodes) > 1 {
					sum.Nontrivial++
				}
				if sum.Cases%997 == 1 {
					sum.Sample(map[string]any{"type": ty, "history": ops, "views_of": mStateRec{Nodes: views[sk].Nodes, Lines: views[sk].Lines}})
				}
			}
		}
		sum.Count("model_states", len(views))
		return nil
	}
	distinct := map[string]bool{}
	for _, t := range trans {
		sk, tk := mkey(t.S.Nodes, t.S.Lines), mkey(t.T.Nodes, t.T.Lines)
		exp := states[tk]
		if exp == nil {
			return fmt.Errorf("no state record for %s", tk)
		}
		ops := append(append([]mOpRec{}, path[sk]...), t.Op)
		for _, ty := range types {
			c := &mHistCase{K: "mh", Type: ty, Ops: ops, Out: t.Out, Expect: exp, IDs: ids}
			runMHistory(c, sum)
			sum.Cases++
			if sk != tk || t.Out == "panic" {
				sum.Nontrivial++
			}
			if sum.Cases%9973 == 1 {
				sum.Sample(map[string]any{"type": ty, "history": ops, "outcome": t.Out, "post": t.T})
			}
		}
		distinct[sk+"|"+fmt.Sprint(t.Op)] = true
	}
	sum.Count("model_states", len(states))
	sum.Count("model_transitions", len(distinct))
	return nil
}

func init() { core.RegisterReplay("graph-multi", replayMulti) }
