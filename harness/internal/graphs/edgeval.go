package graphs

// Replay of EdgeValue.tla (specs/graph): the edge VALUES handed out by the multigraph containers
// (multi.Edge, multi.WeightedEdge) as small state machines.  For every call history TLC printed
// the harness builds a real multigraph whose pair is joined by exactly the n lines of the case
// (optionally after removing further lines), obtains the value through one of the query methods
// and applies the calls to it: the embedded line iterator must obey the iterator contract, and
// Weight() / ReversedEdge() must answer what the specification printed.  The harness only
// counts, looks up and compares.

import (
	"encoding/json"
	"fmt"
	"sort"
	"strings"

	"gonum.org/v1/gonum/graph"
	"gonum.org/v1/gonum/graph/multi"
	"gonum.org/v1/gonum/verifharness/internal/core"
)

type edgeValCase struct {
	N     int      `json:"n"`
	Ws    []int64  `json:"ws"`
	Total int64    `json:"total"`
	H     [][3]int `json:"h"`
	Kind  string   `json:"kind,omitempty"` // set in failure cases: replay only this variant
}

const (
	evU, evV, evX = int64(5), int64(9), int64(2) // the pair under test and a bystander node
	evLineBase    = int64(10)                    // line i of the case has id evLineBase+i
)

// edgeValVariants lists type/source/pair/weightfunc combinations; "prep" (plain or removed) is
// appended by the caller.
func edgeValVariants() []string {
	var vs []string
	for _, k := range mkinds {
		var srcs []string
		srcs = append(srcs, "Edge", "Edges")
		if !k.directed {
			srcs = append(srcs, "EdgeBetween")
		}
		if k.weighted {
			srcs = append(srcs, "WeightedEdge", "WeightedEdges")
			if !k.directed {
				srcs = append(srcs, "WeightedEdgeBetween")
			}
		}
		wfs := []string{"nil"}
		if k.weighted {
			wfs = append(wfs, "custom")
		}
		for _, s := range srcs {
			pairs := []string{"fwd"}
			if !k.directed && s != "Edges" && s != "WeightedEdges" {
				pairs = append(pairs, "rev")
			}
			if s == "Edge" || s == "WeightedEdge" {
				pairs = append(pairs, "loop")
			}
			for _, p := range pairs {
				for _, wf := range wfs {
					vs = append(vs, strings.Join([]string{k.name, s, p, wf}, "/"))
				}
			}
		}
	}
	return vs
}

// weightFuncProbe is the custom EdgeWeightFunc: it answers a token chosen by the harness and
// records which lines it was handed. It obeys the documented contract of WeightFunc (accepts
// nil, Resets the iterator before returning).
type weightFuncProbe struct {
	calls int
	ids   []int64
	token float64
}

func (p *weightFuncProbe) f(lines graph.WeightedLines) float64 {
	p.calls++
	p.ids = p.ids[:0]
	if lines == nil {
		return p.token
	}
	for lines.Next() {
		p.ids = append(p.ids, lines.WeightedLine().ID())
	}
	lines.Reset()
	return p.token
}

// edgeUnder is one real edge value with the projections the replay needs.
type edgeUnder struct {
	e        graph.Edge
	it       graph.Iterator
	line     func() graph.Line
	slice    func() []graph.Line
	weight   func() float64 // nil for multi.Edge
	weighted bool
	probe    *weightFuncProbe
}

func wrapEdgeValue(e graph.Edge, wantWeighted bool) (*edgeUnder, string) {
	u := &edgeUnder{e: e}
	switch v := e.(type) {
	case multi.Edge:
		if wantWeighted {
			return nil, "the documentation promises a multi.WeightedEdge, got multi.Edge"
		}
		if v.Lines == nil {
			return nil, "multi.Edge without lines"
		}
		u.it = v.Lines
		u.line = v.Lines.Line
		if sl, ok := v.Lines.(graph.LineSlicer); ok {
			u.slice = sl.LineSlice
		}
	case multi.WeightedEdge:
		if !wantWeighted {
			return nil, "the documentation promises a multi.Edge, got multi.WeightedEdge"
		}
		if v.WeightedLines == nil {
			return nil, "multi.WeightedEdge without lines"
		}
		u.weighted = true
		u.it = v.WeightedLines
		u.line = func() graph.Line {
			if l := v.WeightedLines.WeightedLine(); l != nil {
				return l
			}
			return nil
		}
		if sl, ok := v.WeightedLines.(graph.WeightedLineSlicer); ok {
			u.slice = func() []graph.Line {
				ws := sl.WeightedLineSlice()
				ls := make([]graph.Line, len(ws))
				for i, w := range ws {
					ls[i] = w
				}
				return ls
			}
		}
		u.weight = v.Weight
	default:
		return nil, fmt.Sprintf("edge value of type %T, the documentation promises multi.Edge / multi.WeightedEdge", e)
	}
	return u, ""
}

// buildEdgeValue makes a real multigraph in which the pair of the variant is joined by exactly
// the lines of the case and returns the edge value obtained through the variant's source.
func buildEdgeValue(variant string, c *edgeValCase) (u *edgeUnder, a, b int64, directed bool, problem string) {
	parts := strings.Split(variant, "/")
	if len(parts) != 5 {
		return nil, 0, 0, false, "bad variant " + variant
	}
	tname, src, pair, wf, prep := parts[0], parts[1], parts[2], parts[3], parts[4]
	var k *mkind
	for i := range mkinds {
		if mkinds[i].name == tname {
			k = &mkinds[i]
		}
	}
	if k == nil {
		return nil, 0, 0, false, "unknown type " + tname
	}
	l := newMLive(k)
	g := l.g
	var probe *weightFuncProbe
	if wf == "custom" {
		probe = &weightFuncProbe{}
		switch gg := g.(type) {
		case *multi.WeightedDirectedGraph:
			gg.EdgeWeightFunc = probe.f
		case *multi.WeightedUndirectedGraph:
			gg.EdgeWeightFunc = probe.f
		default:
			return nil, 0, 0, false, "custom weight function on an unweighted type"
		}
	}
	// the pair as stored (s, t) and as asked for (a, b)
	s, t := evU, evV
	if pair == "loop" {
		t = evU
	}
	a, b = s, t
	if pair == "rev" {
		a, b = t, s
	}
	if prep == "removed" {
		l.setLine(s, t, 20, 64)
	}
	// bystanders: the opposite direction (a different pair in a directed graph) and another pair
	if k.directed && s != t {
		l.setLine(t, s, evLineBase+1, 32)
	}
	l.setLine(s, evX, evLineBase+1, 16)
	for i := 1; i <= c.N; i++ {
		l.setLine(s, t, evLineBase+int64(i), c.Ws[i-1])
	}
	if prep == "removed" {
		l.setLine(s, t, 21, 128)
		g.(graph.LineRemover).RemoveLine(s, t, 20)
		g.(graph.LineRemover).RemoveLine(s, t, 21)
		g.(graph.LineRemover).RemoveLine(s, evX, evLineBase+1)
	}
	var e graph.Edge
	pick := func(it graph.Iterator, cur func() graph.Edge) {
		for it.Next() {
			x := cur()
			f, tt := x.From().ID(), x.To().ID()
			if (f == s && tt == t) || (!k.directed && f == t && tt == s) {
				e = x
			}
		}
	}
	switch src {
	case "Edge":
		e = g.(interface{ Edge(int64, int64) graph.Edge }).Edge(a, b)
	case "EdgeBetween":
		e = g.(graph.Undirected).EdgeBetween(a, b)
	case "WeightedEdge":
		if we := g.(graph.Weighted).WeightedEdge(a, b); we != nil {
			e = we
		}
	case "WeightedEdgeBetween":
		if we := g.(graph.WeightedUndirected).WeightedEdgeBetween(a, b); we != nil {
			e = we
		}
	case "Edges":
		it := g.(interface{ Edges() graph.Edges }).Edges()
		pick(it, it.Edge)
	case "WeightedEdges":
		it := g.(interface{ WeightedEdges() graph.WeightedEdges }).WeightedEdges()
		pick(it, func() graph.Edge { return it.WeightedEdge() })
	default:
		return nil, 0, 0, false, "unknown source " + src
	}
	if e == nil {
		return nil, a, b, k.directed, fmt.Sprintf("%s returned no edge for a pair joined by %d lines", src, c.N)
	}
	u, problem = wrapEdgeValue(e, k.weighted)
	if u != nil {
		u.probe = probe
	}
	if src == "Edges" || src == "WeightedEdges" {
		// the orientation of the items of an undirected graph's edge iterators is not specified
		a, b = e.From().ID(), e.To().ID()
	}
	return u, a, b, k.directed, problem
}

var evOpName = map[int]string{1: "Next", 2: "Len", 3: "Reset", 4: "Slice", 5: "Item", 6: "Weight", 7: "ReversedEdge"}

// runEdgeValue replays one history on one edge value and returns the first disagreement.
func runEdgeValue(variant string, c *edgeValCase) (what, msg string) {
	u, a, b, directed, problem := buildEdgeValue(variant, c)
	if problem != "" {
		return "obtain", problem
	}
	endsOK := func(f, t int64) bool {
		return (f == a && t == b) || (!directed && f == b && t == a)
	}
	if f, t := u.e.From().ID(), u.e.To().ID(); !endsOK(f, t) || (directed && (f != a || t != b)) {
		return "ends", fmt.Sprintf("edge value asked for (%d,%d) has ends (%d,%d)", a, b, f, t)
	}
	wOf := map[int64]int64{}
	for i := 1; i <= c.N; i++ {
		wOf[evLineBase+int64(i)] = c.Ws[i-1]
	}
	given := map[int64]bool{}
	var last int64
	var trail []string
	hand := func(ln graph.Line) string {
		if ln == nil {
			return "nil line"
		}
		id := ln.ID()
		w, ok := wOf[id]
		if !ok {
			return fmt.Sprintf("handed out line %d which does not join the pair", id)
		}
		if given[id] {
			return fmt.Sprintf("line %d enumerated twice since the last Reset", id)
		}
		given[id] = true
		if !endsOK(ln.From().ID(), ln.To().ID()) {
			return fmt.Sprintf("line %d has ends (%d,%d)", id, ln.From().ID(), ln.To().ID())
		}
		if u.weighted {
			wl, ok := ln.(graph.WeightedLine)
			if !ok || wl.Weight() != float64(w) {
				return fmt.Sprintf("line %d: weight %v, the case set %d", id, ln, w)
			}
		}
		last = id
		return ""
	}
	askWeight := func(at string, weight func() float64, ans int) (string, string) {
		var tok float64
		if u.probe != nil {
			u.probe.calls = 0
			tok = float64(1000 + len(trail))
			u.probe.token = tok
		}
		got := weight()
		if u.probe != nil {
			if u.probe.calls != 1 || got != tok {
				return "Weight-func", fmt.Sprintf("%s: Weight() = %v after %d calls of the WeightFunc, which answered %v", at, got, u.probe.calls, tok)
			}
			if ans >= 0 {
				ids := append([]int64(nil), u.probe.ids...)
				sort.Slice(ids, func(i, j int) bool { return ids[i] < ids[j] })
				ok := len(ids) == c.N
				for i := range ids {
					if ok && ids[i] != evLineBase+int64(i+1) {
						ok = false
					}
				}
				if !ok {
					return "Weight-func-lines", fmt.Sprintf("%s: the WeightFunc was handed lines %v, the pair has %d lines", at, ids, c.N)
				}
			}
		} else if ans >= 0 && got != float64(ans) {
			return "Weight", fmt.Sprintf("%s: Weight() = %v, the specification demands %d", at, got, ans)
		}
		return "", ""
	}
	for i, st := range c.H {
		op, ans, pos := st[0], st[1], st[2]
		trail = append(trail, evOpName[op])
		at := fmt.Sprintf("n=%d calls %s (call %d)", c.N, strings.Join(trail, ","), i+1)
		switch op {
		case 1:
			got := u.it.Next()
			if got != (ans == 1) {
				return "Next", fmt.Sprintf("%s: Next() = %v, the contract demands %v", at, got, ans == 1)
			}
			if got {
				if e := hand(u.line()); e != "" {
					return "Next-item", at + ": " + e
				}
			}
		case 2:
			if got := u.it.Len(); got != ans {
				return "Len", fmt.Sprintf("%s: Len() = %d, the contract demands %d", at, got, ans)
			}
		case 3:
			u.it.Reset()
			given = map[int64]bool{}
		case 4:
			if u.slice == nil {
				return "", ""
			}
			ls := u.slice()
			if len(ls) != ans {
				return "Slice-len", fmt.Sprintf("%s: the slice form returned %d lines, %d remain", at, len(ls), ans)
			}
			for _, ln := range ls {
				if e := hand(ln); e != "" {
					return "Slice-item", at + ": " + e
				}
			}
		case 5:
			ln := u.line()
			if ln == nil || ln.ID() != last {
				return "Item", fmt.Sprintf("%s: current line is %v, Next handed out %d", at, ln, last)
			}
		case 6:
			if u.weight == nil {
				return "", "" // multi.Edge has no Weight: the history does not apply
			}
			if w, m := askWeight(at, u.weight, ans); w != "" {
				return w, m
			}
			given = map[int64]bool{}
		case 7:
			r := u.e.ReversedEdge()
			if r == nil || r.From().ID() != u.e.To().ID() || r.To().ID() != u.e.From().ID() {
				return "ReversedEdge", fmt.Sprintf("%s: ReversedEdge of (%d,%d) is %v", at, u.e.From().ID(), u.e.To().ID(), r)
			}
			if u.weight != nil && ans >= 0 {
				rw, ok := r.(graph.WeightedEdge)
				if !ok {
					return "ReversedEdge-type", fmt.Sprintf("%s: ReversedEdge of a weighted edge value is a %T", at, r)
				}
				if w, m := askWeight(at+" on the reversed value", rw.Weight, ans); w != "" {
					return "Reversed-" + w, m
				}
			}
		}
		if len(given) != pos {
			return "count", fmt.Sprintf("%s: %d distinct lines handed out since the last Reset, the specification demands %d", at, len(given), pos)
		}
	}
	return "", ""
}

func init() {
	core.RegisterReplay("graph-edgeval", func(in *core.Lines, args []string, seed int64, sum *core.Summary) error {
		variants := edgeValVariants()
		idx := 0
		for {
			raw, ok := in.Next()
			if !ok {
				break
			}
			var c edgeValCase
			if err := json.Unmarshal(raw, &c); err != nil {
				return fmt.Errorf("bad case: %v", err)
			}
			if c.N < 1 || len(c.Ws) != c.N {
				return fmt.Errorf("bad case: n=%d ws=%v", c.N, c.Ws)
			}
			idx++
			var run []string
			if c.Kind != "" {
				run = []string{c.Kind}
			} else {
				for vi, v := range variants {
					prep := "plain"
					if (idx+vi+int(seed))%2 == 0 {
						prep = "removed"
					}
					run = append(run, v+"/"+prep)
				}
			}
			for _, v := range run {
				sum.Cases++
				nontrivial := false
				for _, st := range c.H {
					if st[0] == 6 || st[0] == 7 {
						nontrivial = true
					}
				}
				if nontrivial {
					sum.Nontrivial++
				}
				cc := c
				cc.Kind = v
				var what, msg string
				o := core.Call(func() { what, msg = runEdgeValue(v, &cc) })
				if o.Panicked {
					sum.Fail("graph:edgevalue:"+v+":panic", fmt.Sprintf("n=%d history %v: %s", c.N, c.H, o.Text), cc)
					continue
				}
				if what != "" {
					sum.Fail("graph:edgevalue:"+v+":"+what, msg, cc)
				}
			}
			if idx%4000 == 1 {
				sum.Sample(c)
			}
		}
		sum.Count("variants", len(variants))
		return nil
	})
}
