package graphs

// Replay of IteratorProto.tla (specs/graph): every history of Next / Len / Reset / slice form /
// item reads that TLC printed is applied to each iterator type of graph/iterator over a
// collection of n items, and every answer is compared with the one the specification demands.
// The harness only counts and compares: which item is handed out is the implementation's choice,
// the items handed out since the last Reset must be pairwise distinct members of the collection
// and their number must be the specification's pos.

import (
	"encoding/json"
	"fmt"
	"strings"

	"gonum.org/v1/gonum/graph"
	"gonum.org/v1/gonum/graph/iterator"
	"gonum.org/v1/gonum/graph/multi"
	"gonum.org/v1/gonum/graph/simple"
	"gonum.org/v1/gonum/verifharness/internal/core"
)

type iterCase struct {
	N    int      `json:"n"`
	H    [][3]int `json:"h"`
	Kind string   `json:"kind,omitempty"` // set in failure cases: replay only this kind
}

// iterUnder is one real iterator with the projections the replay needs.
type iterUnder struct {
	it       graph.Iterator
	item     func() (int64, bool) // key of the current item, false if the item is nil
	slice    func() []int64       // keys handed out by the slice form
	sliceNil func() bool          // the slice form returned a nil slice (graph.Empty documents that)
	of       func() []int64       // keys returned by the matching graph.XOf helper applied to the iterator
	noLen    bool                 // the harness's adaptor answers Len with a negative value ("unknown")
	universe map[int64]bool
}

// Variants of an iterator handed to the graph.XOf helpers (nodes_edges.go): "" is the iterator
// itself; "hidden" wraps it in an adaptor that has only the methods of the iterator interface (no
// slice form: the helper has to loop over Next); "neglen" additionally answers Len with -1, the
// documented "number of items ... unknown" case; "negslicer" answers Len with -1 but keeps the
// slice form.  The adaptors forward every other call.
var iterVariants = []string{"", "hidden", "neglen", "negslicer"}

type hidNodes struct {
	graph.Nodes
	neg bool
}

func (h hidNodes) Len() int {
	if h.neg {
		return -1
	}
	return h.Nodes.Len()
}

type negNodesSl struct {
	hidNodes
	sl graph.NodeSlicer
}

func (h negNodesSl) NodeSlice() []graph.Node { return h.sl.NodeSlice() }

type hidEdges struct {
	graph.Edges
	neg bool
}

func (h hidEdges) Len() int {
	if h.neg {
		return -1
	}
	return h.Edges.Len()
}

type negEdgesSl struct {
	hidEdges
	sl graph.EdgeSlicer
}

func (h negEdgesSl) EdgeSlice() []graph.Edge { return h.sl.EdgeSlice() }

type hidWEdges struct {
	graph.WeightedEdges
	neg bool
}

func (h hidWEdges) Len() int {
	if h.neg {
		return -1
	}
	return h.WeightedEdges.Len()
}

type negWEdgesSl struct {
	hidWEdges
	sl graph.WeightedEdgeSlicer
}

func (h negWEdgesSl) WeightedEdgeSlice() []graph.WeightedEdge { return h.sl.WeightedEdgeSlice() }

type hidLines struct {
	graph.Lines
	neg bool
}

func (h hidLines) Len() int {
	if h.neg {
		return -1
	}
	return h.Lines.Len()
}

type negLinesSl struct {
	hidLines
	sl graph.LineSlicer
}

func (h negLinesSl) LineSlice() []graph.Line { return h.sl.LineSlice() }

type hidWLines struct {
	graph.WeightedLines
	neg bool
}

func (h hidWLines) Len() int {
	if h.neg {
		return -1
	}
	return h.WeightedLines.Len()
}

type negWLinesSl struct {
	hidWLines
	sl graph.WeightedLineSlicer
}

func (h negWLinesSl) WeightedLineSlice() []graph.WeightedLine { return h.sl.WeightedLineSlice() }

// setNodes .. setWLines bind an iterator (wrapped as the variant demands) and the matching helper.
// They return false when the variant does not exist for the iterator (no slice form to keep).
func (u *iterUnder) setNodes(it graph.Nodes, variant string) bool {
	sl, hasSl := it.(graph.NodeSlicer)
	switch variant {
	case "hidden":
		it = hidNodes{it, false}
	case "neglen":
		it = hidNodes{it, true}
	case "negslicer":
		if !hasSl {
			return false
		}
		it = negNodesSl{hidNodes{it, true}, sl}
	}
	u.noLen = variant == "neglen" || variant == "negslicer"
	u.it = it
	u.item = func() (int64, bool) {
		nd := it.Node()
		if nd == nil {
			return 0, false
		}
		return nd.ID(), true
	}
	keys := func(ns []graph.Node) []int64 {
		var ks []int64
		for _, nd := range ns {
			ks = append(ks, nd.ID())
		}
		return ks
	}
	if s, ok := it.(graph.NodeSlicer); ok {
		var last []graph.Node
		u.slice = func() []int64 { last = s.NodeSlice(); return keys(last) }
		u.sliceNil = func() bool { return last == nil }
	}
	u.of = func() []int64 { return keys(graph.NodesOf(it)) }
	return true
}

func (u *iterUnder) setEdges(it graph.Edges, key func(graph.Edge) int64, variant string) bool {
	sl, hasSl := it.(graph.EdgeSlicer)
	switch variant {
	case "hidden":
		it = hidEdges{it, false}
	case "neglen":
		it = hidEdges{it, true}
	case "negslicer":
		if !hasSl {
			return false
		}
		it = negEdgesSl{hidEdges{it, true}, sl}
	}
	u.noLen = variant == "neglen" || variant == "negslicer"
	u.it = it
	u.item = func() (int64, bool) {
		e := it.Edge()
		if e == nil {
			return 0, false
		}
		return key(e), true
	}
	keys := func(es []graph.Edge) []int64 {
		var ks []int64
		for _, e := range es {
			ks = append(ks, key(e))
		}
		return ks
	}
	if s, ok := it.(graph.EdgeSlicer); ok {
		var last []graph.Edge
		u.slice = func() []int64 { last = s.EdgeSlice(); return keys(last) }
		u.sliceNil = func() bool { return last == nil }
	}
	u.of = func() []int64 { return keys(graph.EdgesOf(it)) }
	return true
}

func (u *iterUnder) setWEdges(it graph.WeightedEdges, key func(graph.WeightedEdge) int64, variant string) bool {
	sl, hasSl := it.(graph.WeightedEdgeSlicer)
	switch variant {
	case "hidden":
		it = hidWEdges{it, false}
	case "neglen":
		it = hidWEdges{it, true}
	case "negslicer":
		if !hasSl {
			return false
		}
		it = negWEdgesSl{hidWEdges{it, true}, sl}
	}
	u.noLen = variant == "neglen" || variant == "negslicer"
	u.it = it
	u.item = func() (int64, bool) {
		e := it.WeightedEdge()
		if e == nil {
			return 0, false
		}
		return key(e), true
	}
	keys := func(es []graph.WeightedEdge) []int64 {
		var ks []int64
		for _, e := range es {
			ks = append(ks, key(e))
		}
		return ks
	}
	if s, ok := it.(graph.WeightedEdgeSlicer); ok {
		var last []graph.WeightedEdge
		u.slice = func() []int64 { last = s.WeightedEdgeSlice(); return keys(last) }
		u.sliceNil = func() bool { return last == nil }
	}
	u.of = func() []int64 { return keys(graph.WeightedEdgesOf(it)) }
	return true
}

func (u *iterUnder) setLines(it graph.Lines, variant string) bool {
	sl, hasSl := it.(graph.LineSlicer)
	switch variant {
	case "hidden":
		it = hidLines{it, false}
	case "neglen":
		it = hidLines{it, true}
	case "negslicer":
		if !hasSl {
			return false
		}
		it = negLinesSl{hidLines{it, true}, sl}
	}
	u.noLen = variant == "neglen" || variant == "negslicer"
	u.it = it
	u.item = func() (int64, bool) {
		l := it.Line()
		if l == nil {
			return 0, false
		}
		return l.ID(), true
	}
	keys := func(ls []graph.Line) []int64 {
		var ks []int64
		for _, l := range ls {
			ks = append(ks, l.ID())
		}
		return ks
	}
	if s, ok := it.(graph.LineSlicer); ok {
		var last []graph.Line
		u.slice = func() []int64 { last = s.LineSlice(); return keys(last) }
		u.sliceNil = func() bool { return last == nil }
	}
	u.of = func() []int64 { return keys(graph.LinesOf(it)) }
	return true
}

func (u *iterUnder) setWLines(it graph.WeightedLines, variant string) bool {
	sl, hasSl := it.(graph.WeightedLineSlicer)
	switch variant {
	case "hidden":
		it = hidWLines{it, false}
	case "neglen":
		it = hidWLines{it, true}
	case "negslicer":
		if !hasSl {
			return false
		}
		it = negWLinesSl{hidWLines{it, true}, sl}
	}
	u.noLen = variant == "neglen" || variant == "negslicer"
	u.it = it
	u.item = func() (int64, bool) {
		l := it.WeightedLine()
		if l == nil {
			return 0, false
		}
		return l.ID(), true
	}
	keys := func(ls []graph.WeightedLine) []int64 {
		var ks []int64
		for _, l := range ls {
			ks = append(ks, l.ID())
		}
		return ks
	}
	if s, ok := it.(graph.WeightedLineSlicer); ok {
		var last []graph.WeightedLine
		u.slice = func() []int64 { last = s.WeightedLineSlice(); return keys(last) }
		u.sliceNil = func() bool { return last == nil }
	}
	u.of = func() []int64 { return keys(graph.WeightedLinesOf(it)) }
	return true
}

func nodeID(i int) int64 { return int64(7*i - 9) } // negative, zero-free, gapped ids

func iterKinds() []string {
	return []string{"OrderedNodes", "ImplicitNodes", "Nodes", "NodesByEdge", "NodesByWeightedEdge", "NodesByLines",
		"NodesByWeightedLines", "LazyOrderedNodes", "LazyOrderedNodesByEdge", "LazyOrderedNodesByWeightedEdge",
		"LazyOrderedNodesByLines", "LazyOrderedNodesByWeightedLines", "OrderedEdges", "OrderedWeightedEdges",
		"OrderedLines", "OrderedWeightedLines", "Lines", "WeightedLines"}
}

// emptyKinds are graph.Empty taken as each of the five iterator interfaces it implements.
func emptyKinds() []string {
	return []string{"Empty/Nodes", "Empty/Edges", "Empty/WeightedEdges", "Empty/Lines", "Empty/WeightedLines"}
}

// buildIter builds the iterator named kind ("Type" or "Type+variant", see iterVariants) over n items.
// It returns nil when the kind is unknown and ok=false when the kind does not exist in this variant
// or for this n.
func buildIter(kind string, n int) (u *iterUnder, ok bool) {
	variant := ""
	if i := strings.IndexByte(kind, '+'); i >= 0 {
		kind, variant = kind[:i], kind[i+1:]
	}
	u = &iterUnder{universe: map[int64]bool{}}
	if strings.HasPrefix(kind, "Empty/") {
		// graph.Empty: "an empty set of nodes, edges or lines"
		if n != 0 {
			return u, false
		}
		switch kind {
		case "Empty/Nodes":
			return u, u.setNodes(graph.Empty, variant)
		case "Empty/Edges":
			return u, u.setEdges(graph.Empty, func(graph.Edge) int64 { return -1 }, variant)
		case "Empty/WeightedEdges":
			return u, u.setWEdges(graph.Empty, func(graph.WeightedEdge) int64 { return -1 }, variant)
		case "Empty/Lines":
			return u, u.setLines(graph.Empty, variant)
		case "Empty/WeightedLines":
			return u, u.setWLines(graph.Empty, variant)
		}
		return nil, false
	}
	nodes := map[int64]graph.Node{}
	var nodeList []graph.Node
	for i := 0; i < n; i++ {
		nd := simple.Node(nodeID(i))
		nodes[nd.ID()] = nd
		nodeList = append(nodeList, nd)
	}
	// extra nodes that the ...By... iterators must not enumerate
	extra := map[int64]graph.Node{}
	for k, v := range nodes {
		extra[k] = v
	}
	for i := n; i < n+2; i++ {
		extra[nodeID(i)] = simple.Node(nodeID(i))
	}
	hub := simple.Node(1000)
	nodeIt := func(it graph.Nodes) bool {
		for k := range nodes {
			u.universe[k] = true
		}
		return u.setNodes(it, variant)
	}
	switch kind {
	case "OrderedNodes":
		ok = nodeIt(iterator.NewOrderedNodes(nodeList))
	case "ImplicitNodes":
		it := iterator.NewImplicitNodes(5, 5+n, func(id int) graph.Node { return simple.Node(id) })
		ok = nodeIt(it)
		u.universe = map[int64]bool{}
		for i := 5; i < 5+n; i++ {
			u.universe[int64(i)] = true
		}
	case "Nodes":
		ok = nodeIt(iterator.NewNodes(nodes))
	case "LazyOrderedNodes":
		ok = nodeIt(iterator.NewLazyOrderedNodes(nodes))
	case "NodesByEdge", "LazyOrderedNodesByEdge":
		edges := map[int64]graph.Edge{}
		for k, nd := range nodes {
			edges[k] = simple.Edge{F: hub, T: nd}
		}
		if kind == "NodesByEdge" {
			ok = nodeIt(iterator.NewNodesByEdge(extra, edges))
		} else {
			ok = nodeIt(iterator.NewLazyOrderedNodesByEdge(extra, edges))
		}
	case "NodesByWeightedEdge", "LazyOrderedNodesByWeightedEdge":
		edges := map[int64]graph.WeightedEdge{}
		for k, nd := range nodes {
			edges[k] = simple.WeightedEdge{F: hub, T: nd, W: 2}
		}
		if kind == "NodesByWeightedEdge" {
			ok = nodeIt(iterator.NewNodesByWeightedEdge(extra, edges))
		} else {
			ok = nodeIt(iterator.NewLazyOrderedNodesByWeightedEdge(extra, edges))
		}
	case "NodesByLines", "LazyOrderedNodesByLines":
		lines := map[int64]map[int64]graph.Line{}
		for k, nd := range nodes {
			lines[k] = map[int64]graph.Line{0: multi.Line{F: hub, T: nd, UID: 0}, 1: multi.Line{F: hub, T: nd, UID: 1}}
		}
		if kind == "NodesByLines" {
			ok = nodeIt(iterator.NewNodesByLines(extra, lines))
		} else {
			ok = nodeIt(iterator.NewLazyOrderedNodesByLines(extra, lines))
		}
	case "NodesByWeightedLines", "LazyOrderedNodesByWeightedLines":
		lines := map[int64]map[int64]graph.WeightedLine{}
		for k, nd := range nodes {
			lines[k] = map[int64]graph.WeightedLine{3: multi.WeightedLine{F: hub, T: nd, W: 1, UID: 3}}
		}
		if kind == "NodesByWeightedLines" {
			ok = nodeIt(iterator.NewNodesByWeightedLines(extra, lines))
		} else {
			ok = nodeIt(iterator.NewLazyOrderedNodesByWeightedLines(extra, lines))
		}
	case "OrderedEdges":
		var es []graph.Edge
		for i, nd := range nodeList {
			es = append(es, simple.Edge{F: hub, T: nd})
			u.universe[int64(i)] = true
		}
		key := func(e graph.Edge) int64 {
			for i, nd := range nodeList {
				if e.To().ID() == nd.ID() {
					return int64(i)
				}
			}
			return -1
		}
		ok = u.setEdges(iterator.NewOrderedEdges(es), key, variant)
	case "OrderedWeightedEdges":
		var es []graph.WeightedEdge
		for i, nd := range nodeList {
			es = append(es, simple.WeightedEdge{F: hub, T: nd, W: float64(i)})
			u.universe[int64(i)] = true
		}
		ok = u.setWEdges(iterator.NewOrderedWeightedEdges(es), func(e graph.WeightedEdge) int64 { return int64(e.Weight()) }, variant)
	case "OrderedLines", "Lines":
		var ls []graph.Line
		lm := map[int64]graph.Line{}
		for i, nd := range nodeList {
			l := multi.Line{F: hub, T: nd, UID: int64(100 + i)}
			ls = append(ls, l)
			lm[l.UID] = l
			u.universe[l.UID] = true
		}
		if kind == "OrderedLines" {
			ok = u.setLines(iterator.NewOrderedLines(ls), variant)
		} else {
			ok = u.setLines(iterator.NewLines(lm), variant)
		}
	case "OrderedWeightedLines", "WeightedLines":
		var ls []graph.WeightedLine
		lm := map[int64]graph.WeightedLine{}
		for i, nd := range nodeList {
			l := multi.WeightedLine{F: hub, T: nd, W: 1, UID: int64(100 + i)}
			ls = append(ls, l)
			lm[l.UID] = l
			u.universe[l.UID] = true
		}
		if kind == "OrderedWeightedLines" {
			ok = u.setWLines(iterator.NewOrderedWeightedLines(ls), variant)
		} else {
			ok = u.setWLines(iterator.NewWeightedLines(lm), variant)
		}
	default:
		return nil, false
	}
	return u, ok
}

var opName = map[int]string{1: "Next", 2: "Len", 3: "Reset", 4: "Slice", 5: "Item", 8: "Of"}

// runIter replays one history on one iterator and returns the first disagreement; applies = false:
// the history (or the kind, for this n) does not apply to this iterator, nothing was run.
func runIter(kind string, c *iterCase) (what, msg string, applies bool) {
	u, ok := buildIter(kind, c.N)
	if u == nil {
		return "unknown-kind", kind, true
	}
	if !ok {
		return "", "", false
	}
	isEmpty := strings.HasPrefix(kind, "Empty/")
	for _, st := range c.H {
		if st[0] == 4 && u.slice == nil {
			return "", "", false // no slice form: the history does not apply to this type
		}
	}
	given := map[int64]bool{}
	var last int64
	var trail []string
	hand := func(k int64) string {
		if !u.universe[k] {
			return fmt.Sprintf("handed out %d which is not in the collection", k)
		}
		if given[k] {
			return fmt.Sprintf("element %d enumerated twice since the last Reset", k)
		}
		given[k] = true
		return ""
	}
	for i, st := range c.H {
		op, ans, pos := st[0], st[1], st[2]
		trail = append(trail, opName[op])
		at := fmt.Sprintf("n=%d calls %s (call %d)", c.N, strings.Join(trail, ","), i+1)
		switch op {
		case 1:
			got := u.it.Next()
			if got != (ans == 1) {
				return "Next", fmt.Sprintf("%s: Next() = %v, the contract demands %v", at, got, ans == 1), true
			}
			if got {
				k, ok := u.item()
				if !ok {
					return "Item-nil", fmt.Sprintf("%s: item is nil after Next() returned true", at), true
				}
				if e := hand(k); e != "" {
					return "Next-item", at + ": " + e, true
				}
				last = k
			} else if isEmpty {
				// Next "returns whether the next call to the item method will return a non-nil item"
				if _, ok := u.item(); ok {
					return "Item-not-nil", fmt.Sprintf("%s: graph.Empty hands out a non-nil item", at), true
				}
			}
		case 2:
			// (an adaptor of the harness that reports an unknown length answers for itself)
			if got := u.it.Len(); got != ans && !u.noLen {
				return "Len", fmt.Sprintf("%s: Len() = %d, the contract demands %d", at, got, ans), true
			}
		case 3:
			u.it.Reset()
			given = map[int64]bool{}
		case 4, 8:
			name, f := "the slice form", u.slice
			if op == 8 {
				name, f = "the graph.XOf helper", u.of
			}
			ks := f()
			if len(ks) != ans {
				return opName[op] + "-len", fmt.Sprintf("%s: %s returned %d items, %d remain", at, name, len(ks), ans), true
			}
			for _, k := range ks {
				if e := hand(k); e != "" {
					return opName[op] + "-item", at + ": " + e, true
				}
			}
			if op == 4 && isEmpty && !u.sliceNil() {
				return "Slice-not-nil", fmt.Sprintf("%s: the slice form of graph.Empty returned a non-nil slice", at), true
			}
		case 5:
			k, ok := u.item()
			if !ok || k != last {
				return "Item", fmt.Sprintf("%s: current item is (%d,%v), Next handed out %d", at, k, ok, last), true
			}
		}
		if len(given) != pos {
			return "count", fmt.Sprintf("%s: %d distinct items handed out since the last Reset, the contract demands %d", at, len(given), pos), true
		}
	}
	return "", "", true
}

// nilOf passes a nil iterator to each helper: "It is safe to pass a nil Nodes to NodesOf" (and the
// same for the other four); there is nothing it could return.
func nilOf(sum *core.Summary) {
	for name, f := range map[string]func() int{
		"NodesOf":         func() int { return len(graph.NodesOf(nil)) },
		"EdgesOf":         func() int { return len(graph.EdgesOf(nil)) },
		"WeightedEdgesOf": func() int { return len(graph.WeightedEdgesOf(nil)) },
		"LinesOf":         func() int { return len(graph.LinesOf(nil)) },
		"WeightedLinesOf": func() int { return len(graph.WeightedLinesOf(nil)) },
	} {
		sum.Cases++
		var n int
		o := core.Call(func() { n = f() })
		if o.Panicked {
			sum.Fail("graph:"+name+":nil-panic", name+"(nil) panicked: "+o.Text, iterCase{Kind: "nil"})
		} else if n != 0 {
			sum.Fail("graph:"+name+":nil-items", fmt.Sprintf("%s(nil) returned %d items", name, n), iterCase{Kind: "nil"})
		}
	}
	sum.Count("nil_iterator_calls", 5)
}

func init() {
	core.RegisterReplay("graph-iter", func(in *core.Lines, args []string, seed int64, sum *core.Summary) error {
		// of=1: the histories call the graph.XOf helpers - every iterator type in every variant
		// (plain, slice form hidden, unknown length), graph.Empty and a nil iterator
		withOf := false
		for _, a := range args {
			if a == "of=1" {
				withOf = true
			}
		}
		kinds := iterKinds()
		if withOf {
			kinds = nil
			for _, k := range append(iterKinds(), emptyKinds()...) {
				for _, v := range iterVariants {
					if v == "" {
						kinds = append(kinds, k)
					} else {
						kinds = append(kinds, k+"+"+v)
					}
				}
			}
		}
		didNil := false
		nh := 0
		for {
			raw, ok := in.Next()
			if !ok {
				break
			}
			var c iterCase
			if err := json.Unmarshal(raw, &c); err != nil {
				return fmt.Errorf("bad case: %v", err)
			}
			ks := kinds
			if c.Kind == "nil" || (withOf && !didNil && c.Kind == "") {
				nilOf(sum)
				didNil = true
				if c.Kind == "nil" {
					continue
				}
			}
			if c.Kind != "" {
				ks = []string{c.Kind}
			}
			nontrivial := false
			for _, st := range c.H {
				if st[0] == 1 && st[1] == 1 || (st[0] == 4 || st[0] == 8) && st[1] > 0 {
					nontrivial = true
				}
			}
			for _, kind := range ks {
				cc := c
				cc.Kind = kind
				var what, msg string
				applies := true
				o := core.Call(func() { what, msg, applies = runIter(kind, &cc) })
				if !applies {
					continue
				}
				sum.Cases++
				if nontrivial {
					sum.Nontrivial++
				}
				if o.Panicked {
					sum.Fail("graph:iterator:"+kind+":panic", fmt.Sprintf("n=%d history %v: %s", c.N, c.H, o.Text), cc)
					continue
				}
				if what != "" {
					sum.Fail("graph:iterator:"+kind+":"+what, msg, cc)
				}
			}
			if nh++; nh%4000 == 1 {
				sum.Sample(c)
			}
		}
		return nil
	})
}
