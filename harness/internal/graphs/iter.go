package graphs

// Replay of IteratorProto.tla (specs/graph): every history of Next / Len / Reset / slice form /
// item reads that TLC printed is applied to each iterator type of graph/iterator over a
// collection of n items, and every answer is compared with the one the specification demands.
// The harness only counts and compares: which item is handed out is the implementation's choice,
// the items handed out since the last Reset must be pairwise distinct members of the collection
// and their number must be the specification's pos.

import (
	"encoding/json"
	"fmt"
	"strings"

	"gonum.org/v1/gonum/graph"
	"gonum.org/v1/gonum/graph/iterator"
	"gonum.org/v1/gonum/graph/multi"
	"gonum.org/v1/gonum/graph/simple"
	"gonum.org/v1/gonum/verifharness/internal/core"
)

type iterCase struct {
	N    int      `json:"n"`
	H    [][3]int `json:"h"`
	Kind string   `json:"kind,omitempty"` // set in failure cases: replay only this kind
}

// iterUnder is one real iterator with the projections the replay needs.
type iterUnder struct {
	it       graph.Iterator
	item     func() (int64, bool) // key of the current item, false if the item is nil
	slice    func() []int64       // keys handed out by the slice form
	universe map[int64]bool
}

func nodeID(i int) int64 { return int64(7*i - 9) } // negative, zero-free, gapped ids

func iterKinds() []string {
	return []string{"OrderedNodes", "ImplicitNodes", "Nodes", "NodesByEdge", "NodesByWeightedEdge", "NodesByLines",
		"NodesByWeightedLines", "LazyOrderedNodes", "LazyOrderedNodesByEdge", "LazyOrderedNodesByWeightedEdge",
		"LazyOrderedNodesByLines", "LazyOrderedNodesByWeightedLines", "OrderedEdges", "OrderedWeightedEdges",
		"OrderedLines", "OrderedWeightedLines", "Lines", "WeightedLines"}
}

func buildIter(kind string, n int) *iterUnder {
	u := &iterUnder{universe: map[int64]bool{}}
	nodes := map[int64]graph.Node{}
	var nodeList []graph.Node
	for i := 0; i < n; i++ {
		nd := simple.Node(nodeID(i))
		nodes[nd.ID()] = nd
		nodeList = append(nodeList, nd)
	}
	// extra nodes that the ...By... iterators must not enumerate
	extra := map[int64]graph.Node{}
	for k, v := range nodes {
		extra[k] = v
	}
	for i := n; i < n+2; i++ {
		extra[nodeID(i)] = simple.Node(nodeID(i))
	}
	hub := simple.Node(1000)
	nodeIt := func(it graph.Nodes) {
		u.it = it
		u.item = func() (int64, bool) {
			nd := it.Node()
			if nd == nil {
				return 0, false
			}
			return nd.ID(), true
		}
		if sl, ok := it.(graph.NodeSlicer); ok {
			u.slice = func() []int64 {
				var ks []int64
				for _, nd := range sl.NodeSlice() {
					ks = append(ks, nd.ID())
				}
				return ks
			}
		}
		for k := range nodes {
			u.universe[k] = true
		}
	}
	switch kind {
	case "OrderedNodes":
		nodeIt(iterator.NewOrderedNodes(nodeList))
	case "ImplicitNodes":
		it := iterator.NewImplicitNodes(5, 5+n, func(id int) graph.Node { return simple.Node(id) })
		nodeIt(it)
		u.universe = map[int64]bool{}
		for i := 5; i < 5+n; i++ {
			u.universe[int64(i)] = true
		}
	case "Nodes":
		nodeIt(iterator.NewNodes(nodes))
	case "LazyOrderedNodes":
		nodeIt(iterator.NewLazyOrderedNodes(nodes))
	case "NodesByEdge", "LazyOrderedNodesByEdge":
		edges := map[int64]graph.Edge{}
		for k, nd := range nodes {
			edges[k] = simple.Edge{F: hub, T: nd}
		}
		if kind == "NodesByEdge" {
			nodeIt(iterator.NewNodesByEdge(extra, edges))
		} else {
			nodeIt(iterator.NewLazyOrderedNodesByEdge(extra, edges))
		}
	case "NodesByWeightedEdge", "LazyOrderedNodesByWeightedEdge":
		edges := map[int64]graph.WeightedEdge{}
		for k, nd := range nodes {
			edges[k] = simple.WeightedEdge{F: hub, T: nd, W: 2}
		}
		if kind == "NodesByWeightedEdge" {
			nodeIt(iterator.NewNodesByWeightedEdge(extra, edges))
		} else {
			nodeIt(iterator.NewLazyOrderedNodesByWeightedEdge(extra, edges))
		}
	case "NodesByLines", "LazyOrderedNodesByLines":
		lines := map[int64]map[int64]graph.Line{}
		for k, nd := range nodes {
			lines[k] = map[int64]graph.Line{0: multi.Line{F: hub, T: nd, UID: 0}, 1: multi.Line{F: hub, T: nd, UID: 1}}
		}
		if kind == "NodesByLines" {
			nodeIt(iterator.NewNodesByLines(extra, lines))
		} else {
			nodeIt(iterator.NewLazyOrderedNodesByLines(extra, lines))
		}
	case "NodesByWeightedLines", "LazyOrderedNodesByWeightedLines":
		lines := map[int64]map[int64]graph.WeightedLine{}
		for k, nd := range nodes {
			lines[k] = map[int64]graph.WeightedLine{3: multi.WeightedLine{F: hub, T: nd, W: 1, UID: 3}}
		}
		if kind == "NodesByWeightedLines" {
			nodeIt(iterator.NewNodesByWeightedLines(extra, lines))
		} else {
			nodeIt(iterator.NewLazyOrderedNodesByWeightedLines(extra, lines))
		}
	case "OrderedEdges":
		var es []graph.Edge
		for i, nd := range nodeList {
			es = append(es, simple.Edge{F: hub, T: nd})
			u.universe[int64(i)] = true
		}
		it := iterator.NewOrderedEdges(es)
		key := func(e graph.Edge) int64 {
			for i, nd := range nodeList {
				if e.To().ID() == nd.ID() {
					return int64(i)
				}
			}
			return -1
		}
		u.it = it
		u.item = func() (int64, bool) {
			e := it.Edge()
			if e == nil {
				return 0, false
			}
			return key(e), true
		}
		u.slice = func() []int64 {
			var ks []int64
			for _, e := range it.EdgeSlice() {
				ks = append(ks, key(e))
			}
			return ks
		}
	case "OrderedWeightedEdges":
		var es []graph.WeightedEdge
		for i, nd := range nodeList {
			es = append(es, simple.WeightedEdge{F: hub, T: nd, W: float64(i)})
			u.universe[int64(i)] = true
		}
		it := iterator.NewOrderedWeightedEdges(es)
		u.it = it
		u.item = func() (int64, bool) {
			e := it.WeightedEdge()
			if e == nil {
				return 0, false
			}
			return int64(e.Weight()), true
		}
		u.slice = func() []int64 {
			var ks []int64
			for _, e := range it.WeightedEdgeSlice() {
				ks = append(ks, int64(e.Weight()))
			}
			return ks
		}
	case "OrderedLines", "Lines":
		var ls []graph.Line
		lm := map[int64]graph.Line{}
		for i, nd := range nodeList {
			l := multi.Line{F: hub, T: nd, UID: int64(100 + i)}
			ls = append(ls, l)
			lm[l.UID] = l
			u.universe[l.UID] = true
		}
		var it interface {
			graph.Iterator
			Line() graph.Line
			LineSlice() []graph.Line
		}
		if kind == "OrderedLines" {
			it = iterator.NewOrderedLines(ls)
		} else {
			it = iterator.NewLines(lm)
		}
		u.it = it
		u.item = func() (int64, bool) {
			l := it.Line()
			if l == nil {
				return 0, false
			}
			return l.ID(), true
		}
		u.slice = func() []int64 {
			var ks []int64
			for _, l := range it.LineSlice() {
				ks = append(ks, l.ID())
			}
			return ks
		}
	case "OrderedWeightedLines", "WeightedLines":
		var ls []graph.WeightedLine
		lm := map[int64]graph.WeightedLine{}
		for i, nd := range nodeList {
			l := multi.WeightedLine{F: hub, T: nd, W: 1, UID: int64(100 + i)}
			ls = append(ls, l)
			lm[l.UID] = l
			u.universe[l.UID] = true
		}
		var it interface {
			graph.Iterator
			WeightedLine() graph.WeightedLine
			WeightedLineSlice() []graph.WeightedLine
		}
		if kind == "OrderedWeightedLines" {
			it = iterator.NewOrderedWeightedLines(ls)
		} else {
			it = iterator.NewWeightedLines(lm)
		}
		u.it = it
		u.item = func() (int64, bool) {
			l := it.WeightedLine()
			if l == nil {
				return 0, false
			}
			return l.ID(), true
		}
		u.slice = func() []int64 {
			var ks []int64
			for _, l := range it.WeightedLineSlice() {
				ks = append(ks, l.ID())
			}
			return ks
		}
	default:
		return nil
	}
	return u
}

var opName = map[int]string{1: "Next", 2: "Len", 3: "Reset", 4: "Slice", 5: "Item"}

// runIter replays one history on one iterator and returns the first disagreement.
func runIter(kind string, c *iterCase) (what, msg string) {
	u := buildIter(kind, c.N)
	if u == nil {
		return "unknown-kind", kind
	}
	given := map[int64]bool{}
	var last int64
	var trail []string
	hand := func(k int64) string {
		if !u.universe[k] {
			return fmt.Sprintf("handed out %d which is not in the collection", k)
		}
		if given[k] {
			return fmt.Sprintf("element %d enumerated twice since the last Reset", k)
		}
		given[k] = true
		return ""
	}
	for i, st := range c.H {
		op, ans, pos := st[0], st[1], st[2]
		trail = append(trail, opName[op])
		at := fmt.Sprintf("n=%d calls %s (call %d)", c.N, strings.Join(trail, ","), i+1)
		switch op {
		case 1:
			got := u.it.Next()
			if got != (ans == 1) {
				return "Next", fmt.Sprintf("%s: Next() = %v, the contract demands %v", at, got, ans == 1)
			}
			if got {
				k, ok := u.item()
				if !ok {
					return "Item-nil", fmt.Sprintf("%s: item is nil after Next() returned true", at)
				}
				if e := hand(k); e != "" {
					return "Next-item", at + ": " + e
				}
				last = k
			}
		case 2:
			if got := u.it.Len(); got != ans {
				return "Len", fmt.Sprintf("%s: Len() = %d, the contract demands %d", at, got, ans)
			}
		case 3:
			u.it.Reset()
			given = map[int64]bool{}
		case 4:
			if u.slice == nil {
				return "", "" // no slice form: the history does not apply to this type
			}
			ks := u.slice()
			if len(ks) != ans {
				return "Slice-len", fmt.Sprintf("%s: the slice form returned %d items, %d remain", at, len(ks), ans)
			}
			for _, k := range ks {
				if e := hand(k); e != "" {
					return "Slice-item", at + ": " + e
				}
			}
		case 5:
			k, ok := u.item()
			if !ok || k != last {
				return "Item", fmt.Sprintf("%s: current item is (%d,%v), Next handed out %d", at, k, ok, last)
			}
		}
		if len(given) != pos {
			return "count", fmt.Sprintf("%s: %d distinct items handed out since the last Reset, the contract demands %d", at, len(given), pos)
		}
	}
	return "", ""
}

func init() {
	core.RegisterReplay("graph-iter", func(in *core.Lines, args []string, seed int64, sum *core.Summary) error {
		for {
			raw, ok := in.Next()
			if !ok {
				break
			}
			var c iterCase
			if err := json.Unmarshal(raw, &c); err != nil {
				return fmt.Errorf("bad case: %v", err)
			}
			kinds := iterKinds()
			if c.Kind != "" {
				kinds = []string{c.Kind}
			}
			for _, kind := range kinds {
				sum.Cases++
				nontrivial := false
				for _, st := range c.H {
					if st[0] == 1 && st[1] == 1 || st[0] == 4 && st[1] > 0 {
						nontrivial = true
					}
				}
				if nontrivial {
					sum.Nontrivial++
				}
				cc := c
				cc.Kind = kind
				var what, msg string
				o := core.Call(func() { what, msg = runIter(kind, &cc) })
				if o.Panicked {
					sum.Fail("graph:iterator:"+kind+":panic", fmt.Sprintf("n=%d history %v: %s", c.N, c.H, o.Text), cc)
					continue
				}
				if what != "" {
					sum.Fail("graph:iterator:"+kind+":"+what, msg, cc)
				}
			}
			if sum.Cases%5000 == 1 {
				sum.Sample(c)
			}
		}
		return nil
	})
}
