package graphs

import (
	"fmt"
	"math"
	"math/rand"
	"sort"
	"strings"

	"gonum.org/v1/gonum/graph"
	"gonum.org/v1/gonum/graph/simple"

	"gonum.org/v1/gonum/verifharness/internal/core"
)

// tokens maps real 64-bit ids to small integers TLC can hold.
type tokens struct {
	t    map[int64]int64
	next int64
}

func (k *tokens) of(id int64) int64 {
	if id > -1000 && id < 1000 {
		return id
	}
	if t, ok := k.t[id]; ok {
		return t
	}
	k.next++
	k.t[id] = 1000 + k.next
	return 1000 + k.next
}

type obsRec struct {
	N    int64   `json:"n"`
	F    []int64 `json:"f"`
	T    []int64 `json:"t"`
	Live bool    `json:"live"`
}

type event struct {
	Op    string     `json:"op"`
	Type  string     `json:"type,omitempty"`
	U     int64      `json:"u"`
	V     int64      `json:"v"`
	W     int64      `json:"w"`
	Out   string     `json:"out,omitempty"`
	NN    int        `json:"nn"`
	NE    int        `json:"ne"`
	Obs   []obsRec   `json:"obs"`
	Nodes []int64    `json:"nodes,omitempty"`
	Edges [][3]int64 `json:"edges,omitempty"`
	// Construct events (dense families): constructor kind, the ids of the node slice in the order
	// given, the number of nodes asked for and the init weight
	Kind string  `json:"kind"`
	Ord  []int64 `json:"ord"`
	N    int     `json:"n"`
	Init int64   `json:"init"`
}

func nodeIDs(it graph.Nodes, tk *tokens) []int64 {
	out := []int64{}
	for it.Next() {
		out = append(out, tk.of(it.Node().ID()))
	}
	sort.Slice(out, func(i, j int) bool { return out[i] < out[j] })
	return out
}

// recordSimple drives the real containers through long seeded random histories
// and logs every call with its outcome and observations.
// args: family=dir-map|undir-map|dir-dense|undir-dense hist=N steps=N
func recordSimple(out *core.Out, args []string, seed int64, sum *core.Summary) error {
	family, hist, steps := "dir-map", 2, 1000
	for _, a := range args {
		switch {
		case strings.HasPrefix(a, "family="):
			family = a[7:]
		case strings.HasPrefix(a, "hist="):
			fmt.Sscan(a[5:], &hist)
		case strings.HasPrefix(a, "steps="):
			fmt.Sscan(a[6:], &steps)
		}
	}
	directed := strings.HasPrefix(family, "dir-")
	dense := strings.HasSuffix(family, "-dense")
	rng := rand.New(rand.NewSource(seed*7919 + int64(len(family))))
	for ki := range kinds {
		k := &kinds[ki]
		if k.directed != directed || (k.dense > 0) != dense {
			continue
		}
		for h := 0; h < hist; h++ {
			tk := &tokens{t: map[int64]int64{}}
			var g graph.Graph
			var univ []int64
			if dense {
				// the construction is part of the history: plain or From constructor, node slice in
				// ascending, descending or a seed-chosen order, init = absent or not; now and then a
				// slice whose ids are not contiguous from 0 is tried first (documented to panic)
				n := 3 + rng.Intn(4)
				for {
					ev := event{Op: "Construct", Type: k.name, Obs: []obsRec{}, Kind: "from", Ord: []int64{}, N: n}
					if rng.Intn(4) == 0 {
						ev.Kind = "plain"
					}
					ev.Init = int64(rng.Intn(4))
					if rng.Intn(2) == 0 {
						ev.Init = 0
					}
					if ev.Kind == "from" {
						switch rng.Intn(4) {
						case 0:
							for i := 0; i < n; i++ {
								ev.Ord = append(ev.Ord, int64(i))
							}
						case 1:
							for i := n - 1; i >= 0; i-- {
								ev.Ord = append(ev.Ord, int64(i))
							}
						default:
							for _, i := range rng.Perm(n) {
								ev.Ord = append(ev.Ord, int64(i))
							}
						}
						if rng.Intn(5) == 0 {
							// break contiguity: shift one id, duplicate one, or start below zero
							switch i := rng.Intn(n); rng.Intn(3) {
							case 0:
								ev.Ord[i] += int64(n)
							case 1:
								ev.Ord[i] = ev.Ord[(i+1)%n]
							default:
								ev.Ord[i] = -1
							}
						}
					}
					self := float64(rng.Intn(3)) - 1
					oc := core.Call(func() { g = construct(directed, ev.Kind, n, ev.Ord, float64(ev.Init), self, 0) })
					ev.Out = "ok"
					if oc.Panicked {
						ev.Out = "panic"
						g = nil
					} else {
						ev.NN = len(nodeIDs(g.Nodes(), tk))
						if eg, ok := g.(interface{ Edges() graph.Edges }); ok {
							for it := eg.Edges(); it.Next(); {
								ev.NE++
							}
						}
					}
					out.Emit(ev)
					if g != nil {
						break
					}
				}
				for i := -1; i <= n; i++ {
					univ = append(univ, int64(i))
				}
			} else {
				out.Emit(event{Op: "Reset", Type: k.name, Obs: []obsRec{}, Ord: []int64{}})
				g = k.mk()
				nsmall := 6 + rng.Intn(54) // small universes churn ids, large ones grow
				for i := 0; i < nsmall; i++ {
					univ = append(univ, int64(i))
				}
				univ = append(univ, -1, -2, math.MinInt64, math.MinInt64+1, math.MaxInt64, math.MaxInt64-1, 1<<32, 1<<40)
			}
			pick := func() int64 { return univ[rng.Intn(len(univ))] }
			for s := 0; s < steps; s++ {
				ev := event{Obs: []obsRec{}, Ord: []int64{}}
				var touched []int64
				var oc core.Outcome
				r := rng.Intn(100)
				switch {
				case !dense && r < 12:
					u := pick()
					ev.Op, ev.U = "AddNode", tk.of(u)
					oc = core.Call(func() { g.(graph.NodeAdder).AddNode(simple.Node(u)) })
					touched = []int64{u}
				case !dense && r < 24:
					var n graph.Node
					oc = core.Call(func() { n = g.(graph.NodeAdder).NewNode(); g.(graph.NodeAdder).AddNode(n) })
					ev.Op = "NewNode"
					if n != nil {
						ev.U = tk.of(n.ID())
						touched = []int64{n.ID()}
					}
				case !dense && r < 40:
					u := pick()
					ev.Op, ev.U = "RemoveNode", tk.of(u)
					oc = core.Call(func() { g.(graph.NodeRemover).RemoveNode(u) })
					touched = []int64{u}
				case r < 80:
					u, v := pick(), pick()
					w := int64(1)
					if k.weighted {
						w = int64(1 + rng.Intn(3))
						if dense && rng.Intn(6) == 0 {
							w = 0 // the absent value: removes the edge
						}
					}
					unit := dense && rng.Intn(5) == 0 // the unweighted interface of the dense types stores weight 1
					if unit {
						w = 1
					}
					ev.Op, ev.U, ev.V, ev.W = "SetEdge", tk.of(u), tk.of(v), w
					oc = core.Call(func() {
						if unit {
							g.(interface{ SetEdge(graph.Edge) }).SetEdge(simple.Edge{F: simple.Node(u), T: simple.Node(v)})
						} else if k.weighted {
							g.(interface{ SetWeightedEdge(graph.WeightedEdge) }).SetWeightedEdge(simple.WeightedEdge{F: simple.Node(u), T: simple.Node(v), W: float64(w)})
						} else {
							g.(interface{ SetEdge(graph.Edge) }).SetEdge(simple.Edge{F: simple.Node(u), T: simple.Node(v)})
						}
					})
					touched = []int64{u, v}
				default:
					u, v := pick(), pick()
					ev.Op, ev.U, ev.V = "RemoveEdge", tk.of(u), tk.of(v)
					oc = core.Call(func() { g.(graph.EdgeRemover).RemoveEdge(u, v) })
					touched = []int64{u, v}
				}
				ev.Out = "ok"
				if oc.Panicked {
					ev.Out = "panic"
				}
				ev.NN = len(nodeIDs(g.Nodes(), tk))
				if eg, ok := g.(interface{ Edges() graph.Edges }); ok {
					it := eg.Edges()
					for it.Next() {
						ev.NE++
					}
				}
				for _, n := range touched {
					o := obsRec{N: tk.of(n), Live: g.Node(n) != nil}
					o.F = nodeIDs(g.From(n), tk)
					if d, ok := g.(interface{ To(int64) graph.Nodes }); ok {
						o.T = nodeIDs(d.To(n), tk)
					} else {
						o.T = o.F
					}
					ev.Obs = append(ev.Obs, o)
				}
				out.Emit(ev)
				if s%50 == 49 || s == steps-1 {
					ck := event{Op: "Check", Obs: []obsRec{}, Nodes: nodeIDs(g.Nodes(), tk), Edges: [][3]int64{}}
					if eg, ok := g.(interface{ Edges() graph.Edges }); ok {
						it := eg.Edges()
						for it.Next() {
							e := it.Edge()
							u, v := tk.of(e.From().ID()), tk.of(e.To().ID())
							if !directed && u > v {
								u, v = v, u
							}
							w := int64(1)
							if we, ok := e.(graph.WeightedEdge); ok {
								w = int64(we.Weight())
							}
							ck.Edges = append(ck.Edges, [3]int64{u, v, w})
						}
					}
					out.Emit(map[string]any{"op": "Check", "nodes": ck.Nodes, "edges": ck.Edges})
				}
			}
			sum.Traces++
		}
	}
	return nil
}

func init() { core.RegisterRecord("graph-simple", recordSimple) }
