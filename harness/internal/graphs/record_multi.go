package graphs

import (
	"fmt"
	"math"
	"math/rand"
	"sort"
	"strings"

	"gonum.org/v1/gonum/graph"
	"gonum.org/v1/gonum/graph/multi"

	"gonum.org/v1/gonum/verifharness/internal/core"
)

type mevent struct {
	Op   string   `json:"op"`
	Type string   `json:"type,omitempty"`
	U    int64    `json:"u"`
	V    int64    `json:"v"`
	I    int64    `json:"i"`
	W    int64    `json:"w"`
	Out  string   `json:"out,omitempty"`
	NN   int      `json:"nn"`
	NL   int      `json:"nl"`
	Obs  []obsRec `json:"obs"`
	Lids []int64  `json:"lids"`
}

// recordMulti: long seeded random histories on the multigraph containers.
// args: family=dir|undir hist=N steps=N
func recordMulti(out *core.Out, args []string, seed int64, sum *core.Summary) error {
	family, hist, steps := "dir", 2, 1000
	for _, a := range args {
		switch {
		case strings.HasPrefix(a, "family="):
			family = a[7:]
		case strings.HasPrefix(a, "hist="):
			fmt.Sscan(a[5:], &hist)
		case strings.HasPrefix(a, "steps="):
			fmt.Sscan(a[6:], &steps)
		}
	}
	directed := family == "dir"
	rng := rand.New(rand.NewSource(seed*104729 + int64(len(family))))
	for ki := range mkinds {
		k := &mkinds[ki]
		if k.directed != directed {
			continue
		}
		for h := 0; h < hist; h++ {
			tk := &tokens{t: map[int64]int64{}}
			ltk := &tokens{t: map[int64]int64{}}
			out.Emit(mevent{Op: "Reset", Type: k.name, Obs: []obsRec{}, Lids: []int64{}})
			ml := newMLive(k)
			g := ml.g
			var univ []int64
			nsmall := 3 + rng.Intn(10)
			for i := 0; i < nsmall; i++ {
				univ = append(univ, int64(i))
			}
			if rng.Intn(2) == 0 {
				univ = append(univ, -1, math.MinInt64, math.MaxInt64, 1<<40)
			}
			nlid := int64(2 + rng.Intn(14))
			pick := func() int64 { return univ[rng.Intn(len(univ))] }
			pickLid := func() int64 {
				if rng.Intn(20) == 0 {
					return []int64{-1, math.MaxInt64, math.MinInt64}[rng.Intn(3)]
				}
				return rng.Int63n(nlid)
			}
			norm := func(a, b int64) (int64, int64) {
				if !directed && a > b {
					return b, a
				}
				return a, b
			}
			countLines := func() (n int, all [][4]int64) {
				all = [][4]int64{}
				nodes := graph.NodesOf(g.Nodes())
				for _, x := range nodes {
					for _, y := range nodes {
						if !directed && y.ID() < x.ID() {
							continue
						}
						it := g.Lines(x.ID(), y.ID())
						for it.Next() {
							ln := it.Line()
							w := int64(1)
							if wl, ok := ln.(graph.WeightedLine); ok {
								w = int64(wl.Weight())
							}
							a, b := norm(tk.of(x.ID()), tk.of(y.ID()))
							all = append(all, [4]int64{a, b, ltk.of(ln.ID()), w})
							n++
						}
					}
				}
				return
			}
			for s := 0; s < steps; s++ {
				ev := mevent{Obs: []obsRec{}, Lids: []int64{}}
				var touched []int64
				var oc core.Outcome
				var pu, pv int64
				havePair := false
				r := rng.Intn(100)
				switch {
				case r < 8:
					u := pick()
					ev.Op, ev.U = "AddNode", tk.of(u)
					oc = core.Call(func() { g.(graph.NodeAdder).AddNode(multi.Node(u)) })
					touched = []int64{u}
				case r < 14:
					var n graph.Node
					oc = core.Call(func() { n = g.(graph.NodeAdder).NewNode(); g.(graph.NodeAdder).AddNode(n) })
					ev.Op = "NewNode"
					if n != nil {
						ev.U = tk.of(n.ID())
						touched = []int64{n.ID()}
					}
				case r < 22:
					u := pick()
					ev.Op, ev.U = "RemoveNode", tk.of(u)
					oc = core.Call(func() { g.(graph.NodeRemover).RemoveNode(u) })
					touched = []int64{u}
				case r < 50:
					u, v, id := pick(), pick(), pickLid()
					w := int64(1)
					if k.weighted {
						w = int64(1 + rng.Intn(3))
					}
					ev.Op, ev.U, ev.V, ev.I, ev.W = "SetLine", tk.of(u), tk.of(v), ltk.of(id), w
					oc = core.Call(func() { ml.setLine(u, v, id, w) })
					touched, pu, pv, havePair = []int64{u, v}, u, v, true
				case r < 72:
					u, v := pick(), pick()
					w := int64(1)
					if k.weighted {
						w = int64(1 + rng.Intn(3))
					}
					var nl graph.Line
					oc = core.Call(func() {
						if k.weighted {
							nl = g.(graph.WeightedLineAdder).NewWeightedLine(multi.Node(u), multi.Node(v), float64(w))
						} else {
							nl = g.(graph.LineAdder).NewLine(multi.Node(u), multi.Node(v))
						}
					})
					ev.Op, ev.U, ev.V, ev.W = "NewLine", tk.of(u), tk.of(v), w
					if nl != nil {
						ev.I = ltk.of(nl.ID())
						id := nl.ID()
						oc = core.Call(func() { ml.setLine(u, v, id, w) })
					}
					touched, pu, pv, havePair = []int64{u, v}, u, v, true
				default:
					u, v, id := pick(), pick(), pickLid()
					ev.Op, ev.U, ev.V, ev.I = "RemoveLine", tk.of(u), tk.of(v), ltk.of(id)
					oc = core.Call(func() { g.(graph.LineRemover).RemoveLine(u, v, id) })
					touched, pu, pv, havePair = []int64{u, v}, u, v, true
				}
				ev.Out = "ok"
				if oc.Panicked {
					ev.Out = "panic"
				}
				ev.NN = len(nodeIDs(g.Nodes(), tk))
				ev.NL, _ = countLines()
				for _, n := range touched {
					o := obsRec{N: tk.of(n), Live: g.Node(n) != nil}
					o.F = nodeIDs(g.From(n), tk)
					if d, ok := g.(interface{ To(int64) graph.Nodes }); ok {
						o.T = nodeIDs(d.To(n), tk)
					} else {
						o.T = o.F
					}
					ev.Obs = append(ev.Obs, o)
				}
				if havePair {
					for _, id := range ml.lineIDs(pu, pv) {
						ev.Lids = append(ev.Lids, ltk.of(id))
					}
					sort.Slice(ev.Lids, func(i, j int) bool { return ev.Lids[i] < ev.Lids[j] })
				}
				out.Emit(ev)
				if s%50 == 49 || s == steps-1 {
					_, all := countLines()
					out.Emit(map[string]any{"op": "Check", "nodes": nodeIDs(g.Nodes(), tk), "lines": all})
				}
			}
			sum.Traces++
		}
	}
	return nil
}

func init() { core.RegisterRecord("graph-multi", recordMulti) }
