package dsp

// index.go is the spec->code direction for the index helpers
// (specs/dsp/FftIndex.tla): ShiftIdx / UnshiftIdx / Freq tables for every n
// and the Pad/Trim lengths are the ones TLC printed.

import (
	"encoding/json"
	"fmt"
	"math/big"

	"gonum.org/v1/gonum/dsp/fourier"

	"gonum.org/v1/gonum/verifharness/internal/core"
)

type idxAlt struct {
	Conv    string  `json:"conv"`
	Shift   []int   `json:"shift"`
	Unshift []int   `json:"unshift"`
	CFreq   []int64 `json:"cfreq"`
}

type idxCase struct {
	K      string   `json:"k"`
	N      int      `json:"n"`
	Alts   []idxAlt `json:"alts,omitempty"`
	RFreq  []int64  `json:"rfreq,omitempty"`
	Bad    []int    `json:"bad,omitempty"`
	RelExp uint     `json:"relexp,omitempty"`
	Pad2   int      `json:"pad2"`
	Trim2  int      `json:"trim2"`
	Pad4   int      `json:"pad4"`
	Trim4  int      `json:"trim4"`
}

// freqOK: |obs - num/n| <= 2^-relexp * |num/n|, decided exactly.
func freqOK(obs float64, num int64, n int, relexp uint) bool {
	want := big.NewRat(num, int64(n))
	d := new(big.Rat).SetFloat64(obs)
	if d == nil {
		return false
	}
	d.Sub(d, want)
	d.Abs(d)
	tol := new(big.Rat).Abs(want)
	tol.Quo(tol, new(big.Rat).SetInt(new(big.Int).Lsh(big.NewInt(1), relexp)))
	return d.Cmp(tol) <= 0
}

func mustPanic(sum *core.Summary, c idxCase, what string, i int, f func()) {
	o := core.Call(f)
	sum.Cases++
	if !o.Panicked {
		sum.Fail("dsp:"+what+":no-panic", fmt.Sprintf("n=%d: %s(%d) returned, the index is outside 0..n-1", c.N, what, i), c)
	} else if o.Runtime {
		sum.Fail("dsp:"+what+":runtime-panic", fmt.Sprintf("n=%d: %s(%d): %s", c.N, what, i, o.Text), c)
	}
}

func checkIndex(sum *core.Summary, c idxCase, variant string, ct *fourier.CmplxFFT, rt *fourier.FFT) {
	n := c.N
	shift, unshift := make([]int, n), make([]int, n)
	cf, rf := make([]float64, n), make([]float64, n)
	o := core.Call(func() {
		for i := 0; i < n; i++ {
			shift[i], unshift[i] = ct.ShiftIdx(i), ct.UnshiftIdx(i)
			cf[i], rf[i] = ct.Freq(i), rt.Freq(i)
		}
	})
	sum.Cases += 4 // one case = one helper's whole table for this n
	sum.Nontrivial += 4
	sum.Count("index_values_compared", 4*n)
	if o.Panicked {
		sum.Fail("dsp:index:panic", fmt.Sprintf("n=%d %s: an index helper panicked for an index inside 0..n-1: %s", n, variant, o.Text), c)
		return
	}
	for i := 0; i < n; i++ {
		if !freqOK(rf[i], c.RFreq[i], n, c.RelExp) {
			sum.Fail("dsp:FFT.Freq:value", fmt.Sprintf("n=%d %s: FFT.Freq(%d)=%v, spec %d/%d", n, variant, i, rf[i], c.RFreq[i], n), c)
			break
		}
	}
	// one convention must explain ShiftIdx, UnshiftIdx and Freq together
	why := ""
	for _, a := range c.Alts {
		ok := true
		for i := 0; i < n && ok; i++ {
			switch {
			case shift[i] != a.Shift[i]:
				ok, why = false, why+fmt.Sprintf(" [%s: ShiftIdx(%d)=%d, spec %d]", a.Conv, i, shift[i], a.Shift[i])
			case unshift[i] != a.Unshift[i]:
				ok, why = false, why+fmt.Sprintf(" [%s: UnshiftIdx(%d)=%d, spec %d]", a.Conv, i, unshift[i], a.Unshift[i])
			case !freqOK(cf[i], a.CFreq[i], n, c.RelExp):
				ok, why = false, why+fmt.Sprintf(" [%s: Freq(%d)=%v, spec %d/%d]", a.Conv, i, cf[i], a.CFreq[i], n)
			}
		}
		if ok {
			sum.Count("convention_"+a.Conv, 1)
			return
		}
	}
	sum.Fail("dsp:CmplxFFT.index:value", fmt.Sprintf("n=%d %s: no legal convention explains ShiftIdx/UnshiftIdx/Freq:%s", n, variant, why), c)
}

func seqC(n int) []complex128 {
	x := make([]complex128, n)
	for i := range x {
		x[i] = complex(float64(i+1), -float64(2*i+1))
	}
	return x
}

func checkPad(sum *core.Summary, c idxCase, name string, pad func([]complex128) []complex128,
	trim func([]complex128) (even, remains []complex128), wantPad, wantTrim int) {
	L := c.N
	x := seqC(L)
	var p []complex128
	o := core.Call(func() { p = pad(x) })
	sum.Cases++
	sig := func(k string) string { return "dsp:Pad" + name + ":" + k }
	// the same frame as the prefix of a longer buffer whose spare capacity holds other data: the
	// padding must still be zeros (a frame cut from a stream)
	if L > 0 && wantPad > L {
		buf := make([]complex128, 2*wantPad+3)
		for i := range buf {
			buf[i] = complex(1e3+float64(i), -7)
		}
		copy(buf, seqC(L))
		var q []complex128
		oq := core.Call(func() { q = pad(buf[:L]) })
		sum.Cases++
		switch {
		case oq.Panicked:
			sum.Fail(sig("panic"), fmt.Sprintf("len %d (prefix of a longer buffer): %s", L, oq.Text), c)
		case len(q) != wantPad:
			sum.Fail(sig("length"), fmt.Sprintf("len %d (prefix of a longer buffer): padded to %d, spec %d", L, len(q), wantPad), c)
		default:
			ref := seqC(L)
			for i := range q {
				var w complex128
				if i < L {
					w = ref[i]
				}
				if q[i] != w {
					sum.Fail(sig("content"), fmt.Sprintf("len %d (prefix of a longer buffer): padded[%d]=%v, want %v", L, i, q[i], w), c)
					break
				}
			}
		}
	}
	switch {
	case o.Panicked:
		sum.Fail(sig("panic"), fmt.Sprintf("len %d: %s", L, o.Text), c)
	case len(p) != wantPad:
		sum.Fail(sig("length"), fmt.Sprintf("len %d: padded to %d, spec %d", L, len(p), wantPad), c)
	default:
		ref := seqC(L)
		for i := range p {
			var w complex128
			if i < L {
				w = ref[i]
			}
			if p[i] != w {
				sum.Fail(sig("content"), fmt.Sprintf("len %d: padded[%d]=%v, want %v", L, i, p[i], w), c)
				break
			}
		}
		if wantPad == L && L > 0 && &p[0] != &x[0] {
			sum.Fail(sig("copy"), fmt.Sprintf("len %d is already a power: documented to be returned unaltered, got a copy", L), c)
		}
	}
	x = seqC(L)
	var ev, rem []complex128
	o = core.Call(func() { ev, rem = trim(x) })
	sum.Cases++
	sig = func(k string) string { return "dsp:Trim" + name + ":" + k }
	switch {
	case o.Panicked:
		sum.Fail(sig("panic"), fmt.Sprintf("len %d: %s", L, o.Text), c)
	case len(ev) != wantTrim || len(rem) != L-wantTrim:
		sum.Fail(sig("length"), fmt.Sprintf("len %d: split %d+%d, spec %d+%d", L, len(ev), len(rem), wantTrim, L-wantTrim), c)
	default:
		ref := seqC(L)
		for i := 0; i < L; i++ {
			var g complex128
			if i < wantTrim {
				g = ev[i]
			} else {
				g = rem[i-wantTrim]
			}
			if g != ref[i] {
				sum.Fail(sig("content"), fmt.Sprintf("len %d: element %d is %v, want %v", L, i, g, ref[i]), c)
				break
			}
		}
		if wantTrim > 0 && &ev[0] != &x[0] {
			sum.Fail(sig("copy"), fmt.Sprintf("len %d: the power-length part is documented to be a slice of x", L), c)
		}
	}
	if wantPad != L || wantTrim != L {
		sum.Nontrivial += 2
	}
}

func replayIndex(in *core.Lines, args []string, seed int64, sum *core.Summary) error {
	for {
		line, ok := in.Next()
		if !ok {
			break
		}
		var c idxCase
		if err := json.Unmarshal(line, &c); err != nil {
			return fmt.Errorf("line %d: %v", in.N, err)
		}
		switch c.K {
		case "cidx":
			n := c.N
			checkIndex(sum, c, "fresh", fourier.NewCmplxFFT(n), fourier.NewFFT(n))
			ct, rt := fourier.NewCmplxFFT(n+5), fourier.NewFFT(2*n+1)
			ct.Reset(n)
			rt.Reset(n)
			checkIndex(sum, c, "after Reset", ct, rt)
			for _, i := range c.Bad {
				i := i
				mustPanic(sum, c, "CmplxFFT.ShiftIdx", i, func() { ct.ShiftIdx(i) })
				mustPanic(sum, c, "CmplxFFT.UnshiftIdx", i, func() { ct.UnshiftIdx(i) })
				mustPanic(sum, c, "CmplxFFT.Freq", i, func() { ct.Freq(i) })
				mustPanic(sum, c, "FFT.Freq", i, func() { rt.Freq(i) })
			}
			if sum.Cases%50 == 0 {
				sum.Sample(map[string]any{"k": "cidx", "n": n, "shift_first": c.Alts[0].Shift[0]})
			}
		case "pad":
			checkPad(sum, c, "Radix2", fourier.PadRadix2, fourier.TrimRadix2, c.Pad2, c.Trim2)
			checkPad(sum, c, "Radix4", fourier.PadRadix4, fourier.TrimRadix4, c.Pad4, c.Trim4)
		default:
			return fmt.Errorf("line %d: unknown case kind %q", in.N, c.K)
		}
	}
	return nil
}

func init() {
	core.RegisterReplay("dsp-index", replayIndex)
}
