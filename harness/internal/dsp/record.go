// Package dsp binds the specifications in specs/dsp to gonum's dsp/fourier
// (property C17).
//
// record.go is the code->spec direction for the object-history clause: it
// drives real FFT / CmplxFFT / DCT / DST / QuarterWaveFFT objects through
// seeded histories of New / Reset / Len / transform calls (valid and
// invalid), logs every call with its outcome, and names every returned data
// vector by a 64-bit hash of its bit pattern.  Whether the history is
// acceptable is decided by TLC against FourierObjTrace.tla; nothing here
// knows what a transform should return.
package dsp

import (
	"fmt"
	"hash/fnv"
	"math"
	"math/rand"
	"strconv"
	"strings"

	"gonum.org/v1/gonum/dsp/fourier"
	"gonum.org/v1/gonum/dsp/transform"

	"gonum.org/v1/gonum/verifharness/internal/core"
)

type event struct {
	Op     string `json:"op"`
	Obj    int    `json:"obj"`
	Type   string `json:"type"`
	N      int    `json:"n"`
	Kind   string `json:"kind"`
	SL     int    `json:"sl"`
	DL     int    `json:"dl"`
	Inp    int    `json:"inp"`
	Mode   string `json:"mode"`
	Out    string `json:"out"`
	Tok    string `json:"tok"`
	RetDst bool   `json:"retdst"`
	SrcOK  bool   `json:"srcok"`
	// Dev (Hilbert.as only): largest |Re(result[i]) - input[i]| in units of 2^-52 * |input|_1, rounded up -
	// a logging-boundary quantity computed from the values the real code was given and returned; the
	// specification states the bound it must satisfy.
	Dev int `json:"dev"`
}

// result of one transform call as seen from outside
type callRes struct {
	out    core.Outcome
	tok    string
	retdst bool
	srcok  bool
	data   []float64 // the returned values (flat)
	dev    int
}

// object is one live transform object behind a uniform calling convention:
// data vectors are flat []float64 (complex values as re,im pairs).
type object interface {
	reset(n int)
	length() int
	kinds() []string
	// call runs kind with a source of sl elements (pool entry inp) and a destination
	// chosen by mode ("nil", "fresh" of dl elements, "same").
	call(kind string, src []float64, mode string, dl int) callRes
	cplxSrc(kind string) bool
}

func hashBits(v []float64) string {
	h := fnv.New64a()
	var b [8]byte
	for _, x := range v {
		u := math.Float64bits(x)
		for i := 0; i < 8; i++ {
			b[i] = byte(u >> (8 * i))
		}
		h.Write(b[:])
	}
	return fmt.Sprintf("%016x/%d", h.Sum64(), len(v))
}

func sameBits(a, b []float64) bool {
	if len(a) != len(b) {
		return false
	}
	for i := range a {
		if math.Float64bits(a[i]) != math.Float64bits(b[i]) {
			return false
		}
	}
	return true
}

func toC(v []float64) []complex128 {
	c := make([]complex128, len(v)/2)
	for i := range c {
		c[i] = complex(v[2*i], v[2*i+1])
	}
	return c
}

func fromC(c []complex128) []float64 {
	v := make([]float64, 2*len(c))
	for i, x := range c {
		v[2*i], v[2*i+1] = real(x), imag(x)
	}
	return v
}

// callSame drives a transform whose dst and src have the same element type.
func callSame[T any](f func(dst, src []T) []T, src []T, mode string, dl int, flat func([]T) []float64) callRes {
	var r callRes
	before := flat(src)
	var dst, ret []T
	switch mode {
	case "fresh":
		dst = make([]T, dl)
	case "same":
		dst = src
	}
	r.out = core.Call(func() { ret = f(dst, src) })
	if r.out.Panicked {
		return r
	}
	r.tok = hashBits(flat(ret))
	r.retdst = dst != nil && len(ret) == len(dst) && (len(ret) == 0 || &ret[0] == &dst[0])
	r.srcok = sameBits(before, flat(src))
	return r
}

// callX drives a transform between different element types (dst can never be src).
func callX[S, D any](f func(dst []D, src []S) []D, src []S, mode string, dl int,
	flatS func([]S) []float64, flatD func([]D) []float64) callRes {
	var r callRes
	before := flatS(src)
	var dst, ret []D
	if mode == "fresh" {
		dst = make([]D, dl)
	}
	r.out = core.Call(func() { ret = f(dst, src) })
	if r.out.Panicked {
		return r
	}
	r.data = flatD(ret)
	r.tok = hashBits(r.data)
	r.retdst = dst != nil && len(ret) == len(dst) && (len(ret) == 0 || &ret[0] == &dst[0])
	r.srcok = sameBits(before, flatS(src))
	return r
}

func idF(v []float64) []float64 { return append([]float64(nil), v...) }

type fftObj struct{ t *fourier.FFT }

func (o fftObj) reset(n int)           { o.t.Reset(n) }
func (o fftObj) length() int           { return o.t.Len() }
func (o fftObj) kinds() []string       { return []string{"FFT.coef", "FFT.seq"} }
func (o fftObj) cplxSrc(k string) bool { return k == "FFT.seq" }
func (o fftObj) call(kind string, src []float64, mode string, dl int) callRes {
	if kind == "FFT.coef" {
		return callX(o.t.Coefficients, src, mode, dl, idF, fromC)
	}
	return callX(o.t.Sequence, toC(src), mode, dl, fromC, idF)
}

type cfftObj struct{ t *fourier.CmplxFFT }

func (o cfftObj) reset(n int)           { o.t.Reset(n) }
func (o cfftObj) length() int           { return o.t.Len() }
func (o cfftObj) kinds() []string       { return []string{"CmplxFFT.coef", "CmplxFFT.seq"} }
func (o cfftObj) cplxSrc(k string) bool { return true }
func (o cfftObj) call(kind string, src []float64, mode string, dl int) callRes {
	if kind == "CmplxFFT.coef" {
		return callSame(o.t.Coefficients, toC(src), mode, dl, fromC)
	}
	return callSame(o.t.Sequence, toC(src), mode, dl, fromC)
}

type dctObj struct{ t *fourier.DCT }

func (o dctObj) reset(n int)           { o.t.Reset(n) }
func (o dctObj) length() int           { return o.t.Len() }
func (o dctObj) kinds() []string       { return []string{"DCT.t"} }
func (o dctObj) cplxSrc(k string) bool { return false }
func (o dctObj) call(kind string, src []float64, mode string, dl int) callRes {
	return callSame(o.t.Transform, idF(src), mode, dl, idF)
}

type dstObj struct{ t *fourier.DST }

func (o dstObj) reset(n int)           { o.t.Reset(n) }
func (o dstObj) length() int           { return o.t.Len() }
func (o dstObj) kinds() []string       { return []string{"DST.t"} }
func (o dstObj) cplxSrc(k string) bool { return false }
func (o dstObj) call(kind string, src []float64, mode string, dl int) callRes {
	return callSame(o.t.Transform, idF(src), mode, dl, idF)
}

type hilbertObj struct{ t *transform.Hilbert }

func (o hilbertObj) reset(n int)           { panic("harness: Hilbert has no Reset") }
func (o hilbertObj) length() int           { return o.t.Len() }
func (o hilbertObj) kinds() []string       { return []string{"Hilbert.as"} }
func (o hilbertObj) cplxSrc(k string) bool { return false }
func (o hilbertObj) call(kind string, src []float64, mode string, dl int) callRes {
	r := callX(o.t.AnalyticSignal, src, mode, dl, idF, fromC)
	if r.out.Panicked || len(r.data) != 2*len(src) {
		return r
	}
	l1, dev := 0.0, 0.0
	for i, x := range src {
		l1 += math.Abs(x)
		if d := math.Abs(r.data[2*i] - x); d > dev || math.IsNaN(d) {
			dev = d
		}
	}
	switch u := math.Ceil(dev / (l1 * 0x1p-52)); {
	case dev == 0:
		r.dev = 0
	case math.IsNaN(u) || u > math.MaxInt32:
		r.dev = math.MaxInt32
	default:
		r.dev = int(u)
	}
	return r
}

type qwObj struct{ t *fourier.QuarterWaveFFT }

func (o qwObj) reset(n int)           { o.t.Reset(n) }
func (o qwObj) length() int           { return o.t.Len() }
func (o qwObj) kinds() []string       { return []string{"QW.cosc", "QW.coss", "QW.sinc", "QW.sins"} }
func (o qwObj) cplxSrc(k string) bool { return false }
func (o qwObj) call(kind string, src []float64, mode string, dl int) callRes {
	var f func(dst, src []float64) []float64
	switch kind {
	case "QW.cosc":
		f = o.t.CosCoefficients
	case "QW.coss":
		f = o.t.CosSequence
	case "QW.sinc":
		f = o.t.SinCoefficients
	default:
		f = o.t.SinSequence
	}
	return callSame(f, idF(src), mode, dl, idF)
}

// newObject calls the real constructor; ok is false when it panicked.
func newObject(typ string, n int) (o object, out core.Outcome) {
	out = core.Call(func() {
		switch typ {
		case "FFT":
			o = fftObj{fourier.NewFFT(n)}
		case "CmplxFFT":
			o = cfftObj{fourier.NewCmplxFFT(n)}
		case "DCT":
			o = dctObj{fourier.NewDCT(n)}
		case "DST":
			o = dstObj{fourier.NewDST(n)}
		case "QW":
			o = qwObj{fourier.NewQuarterWaveFFT(n)}
		case "Hilbert":
			o = hilbertObj{transform.NewHilbert(n)}
		default:
			panic("harness: unknown type " + typ)
		}
	})
	return o, out
}

// poolData returns pool entry inp for (kind, element count sl): the same
// (seed, kind, sl, inp) always yields the same bits.
func poolData(seed int64, kind string, sl, inp int, cplx bool) []float64 {
	h := fnv.New64a()
	fmt.Fprintf(h, "%d/%s/%d/%d", seed, kind, sl, inp)
	rnd := rand.New(rand.NewSource(int64(h.Sum64())))
	n := sl
	if cplx {
		n *= 2
	}
	v := make([]float64, n)
	for i := range v {
		switch inp % 4 {
		case 0:
			v[i] = rnd.NormFloat64()
		case 1:
			v[i] = float64(rnd.Intn(41) - 20)
		case 2:
			v[i] = rnd.Float64()*2e3 - 1e3
		default:
			v[i] = math.Ldexp(rnd.NormFloat64(), rnd.Intn(40)-20)
		}
	}
	return v
}

var interesting = []int{1, 2, 3, 4, 5, 6, 7, 8, 9, 10, 11, 12, 13, 15, 16, 17, 18, 20, 24, 25, 27, 30, 31, 32, 33,
	36, 45, 49, 60, 64, 65, 77, 81, 97, 100, 120, 121, 125, 127, 128, 129, 143, 169, 210, 243, 255, 256, 257, 289,
	343, 360, 385, 419, 432, 480, 499, 509, 511, 512}

func pickLen(rnd *rand.Rand, maxn int) int {
	for {
		var n int
		switch rnd.Intn(3) {
		case 0:
			n = 1 + rnd.Intn(12)
		case 1:
			n = interesting[rnd.Intn(len(interesting))]
		default:
			n = 1 + rnd.Intn(maxn)
		}
		if n <= maxn {
			return n
		}
	}
}

func outStr(o core.Outcome) string {
	if o.Panicked {
		return "panic"
	}
	return "ok"
}

// recordObjects: args types=FFT,CmplxFFT,... hist=N steps=N maxn=N
func recordObjects(out *core.Out, args []string, seed int64, sum *core.Summary) error {
	types := []string{"FFT", "CmplxFFT", "DCT", "DST", "QW"}
	hist, steps, maxn := 4, 50, 512
	for _, a := range args {
		k, v, _ := strings.Cut(a, "=")
		switch k {
		case "types":
			types = strings.Split(v, ",")
		case "hist":
			hist, _ = strconv.Atoi(v)
		case "steps":
			steps, _ = strconv.Atoi(v)
		case "maxn":
			maxn, _ = strconv.Atoi(v)
		}
	}
	salt := ""
	for _, a := range args {
		if k, v, _ := strings.Cut(a, "="); k == "salt" {
			salt = v
		}
	}
	srcLen := func(kind string, n int) int {
		// number of elements the transform of an object of length n takes (plumbing: the slice
		// lengths the API documents; whether a call with other lengths must panic is the spec's decision)
		if kind == "FFT.seq" {
			return n/2 + 1
		}
		return n
	}
	dstLen := func(kind string, n int) int {
		if kind == "FFT.coef" {
			return n/2 + 1
		}
		return n
	}
	for _, typ := range types {
		hs := fnv.New64a()
		fmt.Fprintf(hs, "%d/%s/%s", seed, typ, salt)
		rnd := rand.New(rand.NewSource(int64(hs.Sum64())))
		for h := 0; h < hist; h++ {
			out.Emit(event{Op: "Clear", Type: typ})
			// a small palette of lengths makes revisits of the same (kind, n, input) likely
			pal := make([]int, 3+rnd.Intn(3))
			for i := range pal {
				pal[i] = pickLen(rnd, maxn)
			}
			if rnd.Intn(2) == 0 { // neighbours: same buffer capacity class, different tables
				pal = append(pal, pal[0]+1)
			}
			ninp := 2 + rnd.Intn(3)
			var obj object
			n0 := pal[rnd.Intn(len(pal))]
			if typ == "DCT" && n0 < 2 {
				n0 = 2
			}
			obj, o := newObject(typ, n0)
			out.Emit(event{Op: "New", Obj: 0, Type: typ, N: n0, Out: outStr(o)})
			if o.Panicked {
				sum.Fail("dsp:"+typ+":new-panicked", fmt.Sprintf("New%s(%d) panicked: %s", typ, n0, o.Text), nil)
				break
			}
			seen := map[string]int{} // coverage book-keeping only: keys already exercised in this history
			epoch := 0
			cur := n0 // the harness's own book-keeping of what it asked for (used only to choose arguments)
			for s := 0; s < steps; s++ {
				p := rnd.Intn(100)
				if typ == "Hilbert" && p >= 55 && p < 75 {
					p = 0 // no Reset method: more calls on the same object instead
				}
				switch {
				case p < 55: // valid-looking transform
					kinds := obj.kinds()
					kind := kinds[rnd.Intn(len(kinds))]
					inp := rnd.Intn(ninp)
					modes := []string{"nil", "fresh"}
					if typ != "FFT" && typ != "Hilbert" {
						modes = append(modes, "same")
					}
					mode := modes[rnd.Intn(len(modes))]
					sl, dl := srcLen(kind, cur), dstLen(kind, cur)
					src := poolData(seed, kind, sl, inp, obj.cplxSrc(kind))
					r := obj.call(kind, src, mode, dl)
					if mode == "same" {
						dl = sl
					}
					out.Emit(event{Op: "T", Obj: 0, Type: typ, Kind: kind, SL: sl, DL: dl, Inp: inp, Mode: mode,
						Out: outStr(r.out), Tok: r.tok, RetDst: r.retdst, SrcOK: r.srcok, Dev: r.dev})
					sum.Cases++
					key := fmt.Sprintf("%s/%d/%d", kind, cur, inp)
					if e, ok := seen[key]; ok && (e != epoch || typ == "Hilbert") {
						sum.Nontrivial++ // same key again after the object was Reset / replaced in between
					}
					seen[key] = epoch
					if mode == "same" {
						sum.Count("aliased_calls", 1)
					}
					if r.out.Runtime {
						sum.Fail("dsp:"+kind+":runtime-panic", fmt.Sprintf("n=%d mode=%s: %s", cur, mode, r.out.Text), nil)
					}
					// the same call on a brand-new object
					fo, o2 := newObject(typ, cur)
					out.Emit(event{Op: "New", Obj: 1, Type: typ, N: cur, Out: outStr(o2)})
					if !o2.Panicked {
						r2 := fo.call(kind, poolData(seed, kind, sl, inp, obj.cplxSrc(kind)), "nil", 0)
						out.Emit(event{Op: "T", Obj: 1, Type: typ, Kind: kind, SL: sl, DL: 0, Inp: inp, Mode: "nil",
							Out: outStr(r2.out), Tok: r2.tok, RetDst: r2.retdst, SrcOK: r2.srcok, Dev: r2.dev})
						sum.Cases++
					}
				case p < 75: // Reset, sometimes to an illegal length
					m := pal[rnd.Intn(len(pal))]
					if typ == "DCT" && rnd.Intn(8) == 0 {
						m = 1
					}
					o := core.Call(func() { obj.reset(m) })
					out.Emit(event{Op: "Reset", Obj: 0, Type: typ, N: m, Out: outStr(o)})
					if !o.Panicked {
						cur = m
					}
					epoch++
					sum.Count("resets", 1)
				case p >= 75 && p < 87: // a call with wrong lengths
					kinds := obj.kinds()
					kind := kinds[rnd.Intn(len(kinds))]
					sl, dl := srcLen(kind, cur), dstLen(kind, cur)
					mode := "nil"
					switch rnd.Intn(4) {
					case 0:
						sl = srcLen(kind, pal[rnd.Intn(len(pal))])
					case 1:
						sl += 1 - 2*rnd.Intn(2)
					case 2:
						mode = "fresh"
						dl = dstLen(kind, pal[rnd.Intn(len(pal))])
					default:
						mode = "fresh"
						dl += 1 - 2*rnd.Intn(2)
					}
					if sl < 0 {
						sl = 0
					}
					if dl < 0 {
						dl = 0
					}
					inp := rnd.Intn(ninp)
					src := poolData(seed, kind, sl, inp, obj.cplxSrc(kind))
					r := obj.call(kind, src, mode, dl)
					out.Emit(event{Op: "T", Obj: 0, Type: typ, Kind: kind, SL: sl, DL: dl, Inp: inp, Mode: mode,
						Out: outStr(r.out), Tok: r.tok, RetDst: r.retdst, SrcOK: r.srcok})
					sum.Count("odd_length_calls", 1)
					if r.out.Runtime {
						sum.Fail("dsp:"+kind+":runtime-panic", fmt.Sprintf("n=%d sl=%d dl=%d mode=%s: %s", cur, sl, dl, mode, r.out.Text), nil)
					}
				case p >= 87 && p < 95:
					out.Emit(event{Op: "Len", Obj: 0, Type: typ, N: obj.length()})
				default: // replace the object by a new one
					m := pal[rnd.Intn(len(pal))]
					no, o := newObject(typ, m)
					out.Emit(event{Op: "New", Obj: 0, Type: typ, N: m, Out: outStr(o)})
					if !o.Panicked {
						obj, cur = no, m
					}
					epoch++
				}
			}
			sum.Traces++
		}
	}
	return nil
}

func init() {
	core.RegisterRecord("dsp-objects", recordObjects)
}
