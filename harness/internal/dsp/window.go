package dsp

// window.go is the code->spec direction for dsp/window (specs/dsp/WindowTrace.tla).
//
// The specification treats the weight vector w[kind, param, n] of a window as
// an uninterpreted function that is fixed the first time it is seen (the
// window applied to a vector of ones) and states what every entry point of
// the package must then return in terms of it.  Floats cross the boundary as
// exact (sign, exponent, mantissa-high, mantissa-low) decompositions plus a
// 10^-9 fixed-point rendering; the driver performs no window mathematics.
//
// Events
//   W  a weight vector as delivered by one entry point (function, complex
//      function real/imaginary part, NewValues, Values.Transform ...)
//   X  an entry point applied to data whose elements are 0 or +-2^k: the
//      result must be the weights with signs and exponents shifted, exactly
//   P  an entry point applied to general data: the driver logs, per element,
//      how many units in the last place the result is away from the single
//      IEEE product (weight from the same entry point applied to ones) * input
//      - a logging-boundary predicate: both factors and the result are values
//      the real code produced or was given
//   Clear  new group (forget the weights learnt)

import (
	"fmt"
	"math"
	"math/rand"
	"strconv"
	"strings"

	"gonum.org/v1/gonum/dsp/window"

	"gonum.org/v1/gonum/verifharness/internal/core"
)

// fvec is a vector of float64 in exact decomposed form.
type fvec struct {
	Z []int `json:"z"` // 1: zero (sign ignored), 2: NaN or Inf, 0: finite non-zero
	S []int `json:"s"` // sign bit
	E []int `json:"e"` // exponent: value = 0.m * 2^e
	H []int `json:"h"` // upper 26 bits of the 53-bit mantissa
	L []int `json:"l"` // lower 27 bits
	D []int `json:"d"` // round(value * 10^9), clamped to +-2*10^9
}

func decompose(v []float64) fvec {
	n := len(v)
	f := fvec{make([]int, n), make([]int, n), make([]int, n), make([]int, n), make([]int, n), make([]int, n)}
	for i, x := range v {
		switch {
		case math.IsNaN(x) || math.IsInf(x, 0):
			f.Z[i] = 2
			continue
		case x == 0:
			f.Z[i] = 1
			continue
		}
		if math.Signbit(x) {
			f.S[i] = 1
		}
		m, e := math.Frexp(math.Abs(x))
		mi := uint64(math.Ldexp(m, 53)) // exact: 53-bit integer
		f.E[i] = e
		f.H[i] = int(mi >> 27)
		f.L[i] = int(mi & (1<<27 - 1))
		q := math.Round(x * 1e9)
		if q > 2e9 {
			q = 2e9
		}
		if q < -2e9 {
			q = -2e9
		}
		f.D[i] = int(q)
	}
	return f
}

type winEvent struct {
	Op    string `json:"op"`
	Kind  string `json:"kind"`
	Param int    `json:"param"`
	N     int    `json:"n"`
	Var   string `json:"var"`
	W     fvec   `json:"w"`  // W: the weights; X: the result (real part)
	WI    fvec   `json:"wi"` // X on complex data: the imaginary part of the result
	Cplx  bool   `json:"cplx"`
	Sg    []int  `json:"sg"`  // X: sign (0/1) of the input elements (real part)
	K     []int  `json:"k"`   // X: exponent k of the input elements, 1000 = the element is 0
	SgI   []int  `json:"sgi"` // X complex: imaginary part
	KI    []int  `json:"ki"`
	Ulp   int    `json:"ulp"` // P: largest distance in ulps between result and weight*input
	Out   string `json:"out"`
	Input string `json:"input"`
}

var emptyVec = fvec{[]int{}, []int{}, []int{}, []int{}, []int{}, []int{}}

func newWinEvent(op, kind string, param, n int, v string) winEvent {
	return winEvent{Op: op, Kind: kind, Param: param, N: n, Var: v, W: emptyVec, WI: emptyVec,
		Sg: []int{}, K: []int{}, SgI: []int{}, KI: []int{}, Out: "ok"}
}

// winDef is one window with its entry points.
type winDef struct {
	kind  string
	param int
	re    func([]float64) []float64
	cx    func([]complex128) []complex128
}

func winDefs() []winDef {
	d := []winDef{
		{"Rectangular", 0, window.Rectangular, window.RectangularComplex},
		{"Sine", 0, window.Sine, window.SineComplex},
		{"Lanczos", 0, window.Lanczos, window.LanczosComplex},
		{"Triangular", 0, window.Triangular, window.TriangularComplex},
		{"Hann", 0, window.Hann, window.HannComplex},
		{"BartlettHann", 0, window.BartlettHann, window.BartlettHannComplex},
		{"Hamming", 0, window.Hamming, window.HammingComplex},
		{"Blackman", 0, window.Blackman, window.BlackmanComplex},
		{"BlackmanHarris", 0, window.BlackmanHarris, window.BlackmanHarrisComplex},
		{"Nuttall", 0, window.Nuttall, window.NuttallComplex},
		{"BlackmanNuttall", 0, window.BlackmanNuttall, window.BlackmanNuttallComplex},
		{"FlatTop", 0, window.FlatTop, window.FlatTopComplex},
	}
	for _, p := range []int{30, 50, 120} { // sigma * 100
		g := window.Gaussian{Sigma: float64(p) / 100}
		d = append(d, winDef{"Gaussian", p, g.Transform, g.TransformComplex})
	}
	for _, p := range []int{0, 25, 30, 50, 70, 90, 100} { // alpha * 100
		t := window.Tukey{Alpha: float64(p) / 100}
		d = append(d, winDef{"Tukey", p, t.Transform, t.TransformComplex})
	}
	return d
}

// entry is one way of applying a window to real data or to complex data (flat re,im pairs).
type entry struct {
	name string
	cplx bool
	re   func(x []float64) []float64
	cx   func(z []complex128) []complex128
}

func entriesOf(d winDef, n int, withValues bool, sum *core.Summary) []entry {
	es := []entry{
		{"Transform", false, d.re, nil},
		{"TransformComplex", true, nil, d.cx},
	}
	if !withValues {
		return es
	}
	var vals window.Values
	o := core.Call(func() { vals = window.NewValues(d.re, n) })
	if o.Panicked {
		sum.Fail("dsp:window.NewValues:panic", fmt.Sprintf("%s/%d n=%d: %s", d.kind, d.param, n, o.Text), nil)
		return es
	}
	es = append(es,
		entry{"Values.Transform", false, func(x []float64) []float64 { return vals.Transform(x) }, nil},
		entry{"Values.TransformTo", false, func(x []float64) []float64 {
			dst := make([]float64, len(x))
			for i := range dst {
				dst[i] = math.NaN()
			}
			src := append([]float64(nil), x...)
			vals.TransformTo(dst, src)
			for i := range src { // src must not be modified: fold a modification into the result
				if math.Float64bits(src[i]) != math.Float64bits(x[i]) {
					dst[i] = math.NaN()
				}
			}
			return dst
		}, nil},
		entry{"Values.TransformComplex", true, nil, func(z []complex128) []complex128 { return vals.TransformComplex(z) }},
		entry{"Values.TransformComplexTo", true, nil, func(z []complex128) []complex128 {
			dst := make([]complex128, len(z))
			src := append([]complex128(nil), z...)
			vals.TransformComplexTo(dst, src)
			for i := range src {
				if src[i] != z[i] {
					dst[i] = complex(math.NaN(), math.NaN())
				}
			}
			return dst
		}},
	)
	return es
}

// apply runs an entry point on copies of the data; returns real and imaginary result vectors.
func (e entry) apply(re, im []float64) (r, ri []float64, o core.Outcome) {
	if !e.cplx {
		x := append([]float64(nil), re...)
		var y []float64
		o = core.Call(func() { y = e.re(x) })
		return y, nil, o
	}
	z := make([]complex128, len(re))
	for i := range z {
		z[i] = complex(re[i], im[i])
	}
	var y []complex128
	o = core.Call(func() { y = e.cx(z) })
	if o.Panicked {
		return nil, nil, o
	}
	r, ri = make([]float64, len(y)), make([]float64, len(y))
	for i, v := range y {
		r[i], ri[i] = real(v), imag(v)
	}
	return r, ri, o
}

func ulpDist(a, b float64) int {
	if math.IsNaN(a) || math.IsNaN(b) || math.IsInf(a, 0) || math.IsInf(b, 0) {
		return 1 << 30
	}
	if a == b {
		return 0
	}
	ia, ib := int64(math.Float64bits(math.Abs(a))), int64(math.Float64bits(math.Abs(b)))
	if math.Signbit(a) != math.Signbit(b) {
		ia = -ia
	}
	d := ia - ib
	if d < 0 {
		d = -d
	}
	if d > 1<<30 {
		d = 1 << 30
	}
	return int(d)
}

func pow2Data(rnd *rand.Rand, n int) (v []float64, sg, k []int) {
	v, sg, k = make([]float64, n), make([]int, n), make([]int, n)
	for i := range v {
		if rnd.Intn(9) == 0 {
			k[i] = 1000
			continue
		}
		sg[i] = rnd.Intn(2)
		k[i] = rnd.Intn(41) - 20
		v[i] = math.Ldexp(1, k[i])
		if sg[i] == 1 {
			v[i] = -v[i]
		}
	}
	return
}

// recordWindows: args kinds=A,B,... nmax=N
func recordWindows(out *core.Out, args []string, seed int64, sum *core.Summary) error {
	nmax, allValues := 64, false
	want := map[string]bool{}
	for _, a := range args {
		k, v, _ := strings.Cut(a, "=")
		switch k {
		case "kinds":
			for _, s := range strings.Split(v, ",") {
				want[s] = true
			}
		case "nmax":
			nmax, _ = strconv.Atoi(v)
		case "values":
			allValues = v == "all"
		}
	}
	rnd := rand.New(rand.NewSource(seed*104729 + 3))
	ones := func(n int) []float64 {
		v := make([]float64, n)
		for i := range v {
			v[i] = 1
		}
		return v
	}
	out.Emit(newWinEvent("Clear", "", 0, 0, ""))
	for _, d := range winDefs() {
		if len(want) > 0 && !want[d.kind] {
			continue
		}
		for n := 1; n <= nmax; n++ {
			// the Values entry points are the same code for every window: every n for three windows, a few n for the rest
			wv := allValues || n <= 3 || n == 8 || n == 33 || n == nmax ||
				(d.kind == "Hann") || (d.kind == "Tukey" && d.param == 50) || (d.kind == "Gaussian" && d.param == 50)
			for _, e := range entriesOf(d, n, wv, sum) {
				ev := func(op string) winEvent { return newWinEvent(op, d.kind, d.param, n, e.name) }
				fail := func(o core.Outcome, what string) {
					x := ev("W")
					x.Out = "panic"
					out.Emit(x)
					sum.Fail("dsp:window."+d.kind+"."+e.name+":panic", fmt.Sprintf("param=%d n=%d %s: %s", d.param, n, what, o.Text), nil)
				}
				// W: the weights, from ones (complex: 1+1i, both parts must deliver them)
				w, wi, o := e.apply(ones(n), ones(n))
				if o.Panicked {
					fail(o, "ones")
					continue
				}
				x := ev("W")
				x.W = decompose(w)
				out.Emit(x)
				if e.cplx {
					x = ev("W")
					x.Var = e.name + ".im"
					x.W = decompose(wi)
					out.Emit(x)
				}
				sum.Cases++
				// X: zero / signed power-of-two data
				re, sg, k := pow2Data(rnd, n)
				im, sgi, ki := pow2Data(rnd, n)
				r, ri, o := e.apply(re, im)
				if o.Panicked {
					fail(o, "power-of-two data")
					continue
				}
				x = ev("X")
				x.Cplx = e.cplx
				x.W, x.Sg, x.K = decompose(r), sg, k
				if e.cplx {
					x.WI, x.SgI, x.KI = decompose(ri), sgi, ki
				}
				out.Emit(x)
				sum.Cases++
				sum.Nontrivial++
				// P: general data (ramp 1..n, and random), compared with weight*input element by element
				for _, in := range []string{"ramp", "random"} {
					re, im := make([]float64, n), make([]float64, n)
					for i := range re {
						if in == "ramp" {
							re[i], im[i] = float64(i+1), float64(-2*i-1)
						} else {
							re[i], im[i] = rnd.NormFloat64()*100, rnd.Float64()*7-3
						}
					}
					r, ri, o := e.apply(re, im)
					if o.Panicked {
						fail(o, in+" data")
						continue
					}
					worst := 0
					for i := range r {
						if u := ulpDist(r[i], w[i]*re[i]); u > worst {
							worst = u
						}
						if e.cplx {
							if u := ulpDist(ri[i], w[i]*im[i]); u > worst {
								worst = u
							}
						}
					}
					x = ev("P")
					x.Cplx, x.Ulp, x.Input = e.cplx, worst, in
					out.Emit(x)
					sum.Cases++
					sum.Nontrivial++
				}
			}
		}
		sum.Traces++
	}
	return nil
}

func init() {
	core.RegisterRecord("dsp-window", recordWindows)
}
