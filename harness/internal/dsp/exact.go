package dsp

// exact.go is the spec->code direction for the exact defining sums
// (specs/dsp/ExactDft.tla).  Every case carries an integer input vector, the
// integer output vector the specification computed from the documented sum
// (with a mask where only some outputs are computable in exact arithmetic)
// and the comparison tolerance in units of 2^-52*|x|_1.  The harness builds
// the operands, calls the real transform (fresh object / dst nil, then - where
// the API documents it as safe - dst = src, then an object that was used with
// another length and data before) and compares.  It computes no transform.

import (
	"encoding/json"
	"fmt"
	"math"
	"math/big"

	"gonum.org/v1/gonum/dsp/fourier"
	"gonum.org/v1/gonum/dsp/transform"

	"gonum.org/v1/gonum/verifharness/internal/core"
)

type exactCase struct {
	K    string  `json:"k"`
	N    int     `json:"n"`
	Fam  int     `json:"fam"`
	Dir  string  `json:"dir"`
	X    []int64 `json:"x"`
	Want []int64 `json:"want"`
	Mask []int   `json:"mask"`
	L1   int64   `json:"l1"`
	TolK int64   `json:"tolk"`
	Den  int64   `json:"den,omitempty"` // want is given as numerators over den (default 1)
	Var  string  `json:"var,omitempty"` // set in failure cases: which calling variant failed
}

func floats(v []int64) []float64 {
	f := make([]float64, len(v))
	for i, x := range v {
		f[i] = float64(x)
	}
	return f
}

// variants of calling one transform kind on flat data; each returns the flat result.
type variant struct {
	name string
	run  func() []float64
}

func junkF(n int, cplx bool) []float64 {
	if cplx {
		n *= 2
	}
	v := make([]float64, n)
	for i := range v {
		v[i] = float64((i*37)%23) - 11.5
	}
	return v
}

// variantsFor builds the calling variants of kind for length n and input x (flat).
func variantsFor(kind string, n int, x []float64) ([]variant, error) {
	other := n + 3 // a different length the "used" object is dirtied with
	sameT := func(mk func(m int) (func(dst, src []float64) []float64, func(int))) []variant {
		return []variant{
			{"fresh/nil", func() []float64 { f, _ := mk(n); return f(nil, idF(x)) }},
			{"fresh/same", func() []float64 { f, _ := mk(n); s := idF(x); return f(s, s) }},
			{"used/dst", func() []float64 {
				f, reset := mk(other)
				f(nil, junkF(other, false))
				reset(n)
				return f(make([]float64, n), idF(x))
			}},
		}
	}
	switch kind {
	case "C.coef", "C.seq":
		call := func(t *fourier.CmplxFFT) func(dst, src []complex128) []complex128 {
			if kind == "C.coef" {
				return t.Coefficients
			}
			return t.Sequence
		}
		return []variant{
			{"fresh/nil", func() []float64 { return fromC(call(fourier.NewCmplxFFT(n))(nil, toC(x))) }},
			{"fresh/same", func() []float64 { s := toC(x); return fromC(call(fourier.NewCmplxFFT(n))(s, s)) }},
			{"used/dst", func() []float64 {
				t := fourier.NewCmplxFFT(other)
				call(t)(nil, toC(junkF(other, true)))
				t.Reset(n)
				return fromC(call(t)(make([]complex128, n), toC(x)))
			}},
		}, nil
	case "FFT.coef":
		return []variant{
			{"fresh/nil", func() []float64 { return fromC(fourier.NewFFT(n).Coefficients(nil, idF(x))) }},
			{"used/dst", func() []float64 {
				t := fourier.NewFFT(other)
				t.Coefficients(nil, junkF(other, false))
				t.Reset(n)
				return fromC(t.Coefficients(make([]complex128, n/2+1), idF(x)))
			}},
		}, nil
	case "FFT.seq":
		return []variant{
			{"fresh/nil", func() []float64 { return fourier.NewFFT(n).Sequence(nil, toC(x)) }},
			{"used/dst", func() []float64 {
				t := fourier.NewFFT(other)
				t.Sequence(nil, toC(junkF(other/2+1, true)))
				t.Reset(n)
				return t.Sequence(make([]float64, n), toC(x))
			}},
		}, nil
	case "DCT.t":
		return sameT(func(m int) (func(dst, src []float64) []float64, func(int)) {
			t := fourier.NewDCT(m)
			return t.Transform, t.Reset
		}), nil
	case "DST.t":
		return sameT(func(m int) (func(dst, src []float64) []float64, func(int)) {
			t := fourier.NewDST(m)
			return t.Transform, t.Reset
		}), nil
	case "QW.cosc", "QW.coss", "QW.sinc", "QW.sins":
		return sameT(func(m int) (func(dst, src []float64) []float64, func(int)) {
			t := fourier.NewQuarterWaveFFT(m)
			switch kind {
			case "QW.cosc":
				return t.CosCoefficients, t.Reset
			case "QW.coss":
				return t.CosSequence, t.Reset
			case "QW.sinc":
				return t.SinCoefficients, t.Reset
			}
			return t.SinSequence, t.Reset
		}), nil
	case "H.as":
		return []variant{
			{"fresh/nil", func() []float64 { return fromC(transform.NewHilbert(n).AnalyticSignal(nil, idF(x))) }},
			{"repeat/dst", func() []float64 { // the same object was used for other data before
				h := transform.NewHilbert(n)
				h.AnalyticSignal(nil, junkF(n, false))
				h.AnalyticSignal(make([]complex128, n), junkF(n, false))
				return fromC(h.AnalyticSignal(make([]complex128, n), idF(x)))
			}},
		}, nil
	case "R2.coef", "R2.seq", "R4.coef", "R4.seq":
		f := map[string]func([]complex128) []complex128{
			"R2.coef": fourier.CoefficientsRadix2, "R2.seq": fourier.SequenceRadix2,
			"R4.coef": fourier.CoefficientsRadix4, "R4.seq": fourier.SequenceRadix4}[kind]
		return []variant{{"inplace", func() []float64 { return fromC(f(toC(x))) }}}, nil
	}
	return nil, fmt.Errorf("unknown kind %q", kind)
}

var two52 = new(big.Rat).SetInt(new(big.Int).Lsh(big.NewInt(1), 52))

// within reports whether |obs - want| <= tol, decided exactly; ratio is |obs-want|/tol (float, for statistics).
func within(obs float64, want, den int64, tol *big.Rat, tolf float64) (bool, float64) {
	if math.IsNaN(obs) || math.IsInf(obs, 0) {
		return false, math.Inf(1)
	}
	d := math.Abs(obs - float64(want)/float64(den))
	if d <= tolf/2 {
		return true, d / tolf
	}
	r := new(big.Rat).SetFloat64(obs)
	r.Sub(r, big.NewRat(want, den))
	r.Abs(r)
	return r.Cmp(tol) <= 0, d / tolf
}

func replayExact(in *core.Lines, args []string, seed int64, sum *core.Summary) error {
	maxRatio := 0.0
	kinds := map[string]int{}
	lens := map[int]bool{}
	for {
		line, ok := in.Next()
		if !ok {
			break
		}
		var c exactCase
		if err := json.Unmarshal(line, &c); err != nil {
			return fmt.Errorf("line %d: %v", in.N, err)
		}
		if c.Den == 0 {
			c.Den = 1
		}
		cplxOut := map[string]bool{"C.coef": true, "C.seq": true, "FFT.coef": true, "H.as": true,
			"R2.coef": true, "R2.seq": true, "R4.coef": true, "R4.seq": true}[c.K]
		vars, err := variantsFor(c.K, c.N, floats(c.X))
		if err != nil {
			return err
		}
		tol := new(big.Rat).SetInt64(c.TolK)
		tol.Mul(tol, new(big.Rat).SetInt64(c.L1))
		tol.Quo(tol, two52)
		tolf, _ := tol.Float64()
		for _, v := range vars {
			if c.Var != "" && c.Var != v.name {
				continue
			}
			var got []float64
			o := core.CallTimeout(20e9, func() { got = v.run() })
			sum.Cases++
			kinds[c.K]++
			lens[c.N] = true
			cc := c
			cc.Var = v.name
			sig := func(kind string) string { return fmt.Sprintf("dsp:%s:%s", c.K, kind) }
			if o.Hung || o.Panicked {
				sum.Fail(sig("panic"), fmt.Sprintf("n=%d %s: valid call did not return normally: %s", c.N, v.name, o.Text), cc)
				continue
			}
			if len(got) != len(c.Want) {
				sum.Fail(sig("length"), fmt.Sprintf("n=%d %s: result has %d values, spec %d", c.N, v.name, len(got), len(c.Want)), cc)
				continue
			}
			nz := false
			bad := -1
			for i, w := range c.Want {
				e := i
				if cplxOut {
					e = i / 2
				}
				if len(c.Mask) == len(c.Want) { // mask per flat value
					e = i
				}
				if len(c.Mask) > 0 && c.Mask[e] == 0 {
					continue
				}
				if w != 0 {
					nz = true
				}
				okv, ratio := within(got[i], w, c.Den, tol, tolf)
				if ratio > maxRatio && okv {
					maxRatio = ratio
				}
				if !okv && bad < 0 {
					bad = i
				}
			}
			if nz {
				sum.Nontrivial++
			}
			if bad >= 0 {
				what := fmt.Sprintf("element %d", bad)
				if cplxOut {
					what = fmt.Sprintf("element %d (%s part)", bad/2, []string{"real", "imaginary"}[bad%2])
				}
				sum.Fail(sig("value"), fmt.Sprintf("n=%d fam=%d dir=%s %s: %s is %v, the defining sum gives %d/%d (tolerance %.3g)",
					c.N, c.Fam, c.Dir, v.name, what, got[bad], c.Want[bad], c.Den, tolf), cc)
				continue
			}
			if sum.Cases%997 == 1 {
				sum.Sample(map[string]any{"k": c.K, "n": c.N, "fam": c.Fam, "dir": c.Dir, "variant": v.name, "l1": c.L1})
			}
		}
	}
	sum.Extra["max_error_over_tolerance"] = maxRatio
	sum.Extra["distinct_lengths"] = len(lens)
	for k, v := range kinds {
		sum.Extra["calls_"+k] = v
	}
	return nil
}

func init() {
	core.RegisterReplay("dsp-exact", replayExact)
}
