package dsp

// winexact.go is the spec->code direction for dsp/window (specs/dsp/WindowExact.tla).
//
// The specification prints, for every window, parameter and length, every
// weight as a rational linear combination of one elementary function at
// rational points:  w[k] = sum_t coef_t/10^9 * F_t(num_t/den_t),  F in
// rat | cospi | sinpi | sincpi | exp, the absolute tolerance (units of 2^-52),
// the indices whose weight must be exactly 1.0, whether the weights must not
// decrease towards the centre, and integer input data.  This file evaluates
// the printed expression (the only mathematics: cos / sin / exp of the printed
// fraction), calls every entry point of the window in place on a slice that
// has junk beyond its length, and compares.

import (
	"encoding/json"
	"fmt"
	"math"
	"unsafe"

	"gonum.org/v1/gonum/dsp/window"

	"gonum.org/v1/gonum/verifharness/internal/core"
)

type weTerm struct {
	F    string
	Coef int
	Num  int
	Den  int
}

func (t *weTerm) UnmarshalJSON(b []byte) error {
	var raw []json.RawMessage
	if err := json.Unmarshal(b, &raw); err != nil {
		return err
	}
	if len(raw) != 4 {
		return fmt.Errorf("term %s: want 4 fields", b)
	}
	if err := json.Unmarshal(raw[0], &t.F); err != nil {
		return err
	}
	for i, p := range []*int{&t.Coef, &t.Num, &t.Den} {
		if err := json.Unmarshal(raw[i+1], p); err != nil {
			return err
		}
	}
	return nil
}

func (t weTerm) MarshalJSON() ([]byte, error) {
	return json.Marshal([]any{t.F, t.Coef, t.Num, t.Den})
}

type weIdx struct {
	T []weTerm `json:"t"`
	X int      `json:"x"` // 1: the weight is exactly 1.0
}

type weCase struct {
	Kind  string  `json:"kind"`
	Param int     `json:"param"`
	N     int     `json:"n"`
	Tol   int     `json:"tol"`
	Mono  bool    `json:"mono"`
	Idx   []weIdx `json:"idx"`
	Re    []int   `json:"re"`
	Im    []int   `json:"im"`
}

// value evaluates the printed expression of one weight.
func (ix weIdx) value() (float64, error) {
	v := 0.0
	for _, t := range ix.T {
		if t.Den <= 0 {
			return 0, fmt.Errorf("bad denominator in term %v", t)
		}
		r := float64(t.Num) / float64(t.Den)
		var f float64
		switch t.F {
		case "rat":
			f = r
		case "cospi":
			f = math.Cos(math.Pi * r)
		case "sinpi":
			f = math.Sin(math.Pi * r)
		case "sincpi":
			f = math.Sin(math.Pi*r) / (math.Pi * r)
		case "exp":
			f = math.Exp(r)
		default:
			return 0, fmt.Errorf("unknown function %q", t.F)
		}
		v += float64(t.Coef) / 1e9 * f
	}
	return v, nil
}

var weFuncs = map[string][2]any{
	"Rectangular":     {window.Rectangular, window.RectangularComplex},
	"Sine":            {window.Sine, window.SineComplex},
	"Lanczos":         {window.Lanczos, window.LanczosComplex},
	"Triangular":      {window.Triangular, window.TriangularComplex},
	"Hann":            {window.Hann, window.HannComplex},
	"BartlettHann":    {window.BartlettHann, window.BartlettHannComplex},
	"Hamming":         {window.Hamming, window.HammingComplex},
	"Blackman":        {window.Blackman, window.BlackmanComplex},
	"BlackmanHarris":  {window.BlackmanHarris, window.BlackmanHarrisComplex},
	"Nuttall":         {window.Nuttall, window.NuttallComplex},
	"BlackmanNuttall": {window.BlackmanNuttall, window.BlackmanNuttallComplex},
	"FlatTop":         {window.FlatTop, window.FlatTopComplex},
}

func weWindow(kind string, param int) (func([]float64) []float64, func([]complex128) []complex128, error) {
	switch kind {
	case "Gaussian":
		g := window.Gaussian{Sigma: float64(param) / 100}
		return g.Transform, g.TransformComplex, nil
	case "Tukey":
		t := window.Tukey{Alpha: float64(param) / 100}
		return t.Transform, t.TransformComplex, nil
	}
	f, ok := weFuncs[kind]
	if !ok {
		return nil, nil, fmt.Errorf("unknown window %q", kind)
	}
	return f[0].(func([]float64) []float64), f[1].(func([]complex128) []complex128), nil
}

const weJunk = 4

var weJunkRe = [weJunk]float64{12345.678, math.Copysign(0, -1), math.MaxFloat64, -7}

// realInPlace calls f on a slice of len(x) elements that is the prefix of a longer buffer and reports
// what is wrong with the plumbing ("" if nothing): the result must be the argument (same memory, same
// length) and the elements beyond the length must stay as they were.
func realInPlace(f func([]float64) []float64, x []float64) ([]float64, string, core.Outcome) {
	buf := make([]float64, len(x)+weJunk)
	copy(buf, x)
	copy(buf[len(x):], weJunkRe[:])
	arg := buf[:len(x)]
	var r []float64
	o := core.Call(func() { r = f(arg) })
	if o.Panicked {
		return nil, "", o
	}
	why := ""
	if len(r) != len(x) || (len(x) > 0 && unsafe.SliceData(r) != unsafe.SliceData(arg)) {
		why = fmt.Sprintf("the returned slice (len %d) is not the argument (len %d): the transformation is documented to be in place", len(r), len(x))
	}
	for i := 0; i < weJunk; i++ {
		if math.Float64bits(buf[len(x)+i]) != math.Float64bits(weJunkRe[i]) {
			why = fmt.Sprintf("element %d beyond the length of the sequence was overwritten (%v -> %v)", len(x)+i, weJunkRe[i], buf[len(x)+i])
		}
	}
	return append([]float64(nil), buf[:len(x)]...), why, o
}

func cplxInPlace(f func([]complex128) []complex128, z []complex128) ([]complex128, string, core.Outcome) {
	buf := make([]complex128, len(z)+weJunk)
	copy(buf, z)
	for i := 0; i < weJunk; i++ {
		buf[len(z)+i] = complex(weJunkRe[i], weJunkRe[weJunk-1-i])
	}
	arg := buf[:len(z)]
	var r []complex128
	o := core.Call(func() { r = f(arg) })
	if o.Panicked {
		return nil, "", o
	}
	why := ""
	if len(r) != len(z) || (len(z) > 0 && unsafe.SliceData(r) != unsafe.SliceData(arg)) {
		why = fmt.Sprintf("the returned slice (len %d) is not the argument (len %d): the transformation is documented to be in place", len(r), len(z))
	}
	for i := 0; i < weJunk; i++ {
		b := buf[len(z)+i]
		if math.Float64bits(real(b)) != math.Float64bits(weJunkRe[i]) || math.Float64bits(imag(b)) != math.Float64bits(weJunkRe[weJunk-1-i]) {
			why = fmt.Sprintf("element %d beyond the length of the sequence was overwritten (-> %v)", len(z)+i, b)
		}
	}
	return append([]complex128(nil), buf[:len(z)]...), why, o
}

func replayWinExact(in *core.Lines, args []string, seed int64, sum *core.Summary) error {
	worst := map[string]float64{}
	for {
		b, ok := in.Next()
		if !ok {
			break
		}
		var c weCase
		if err := json.Unmarshal(b, &c); err != nil {
			return fmt.Errorf("line %d: %v", in.N, err)
		}
		n := c.N
		if len(c.Idx) != n || len(c.Re) != n || len(c.Im) != n {
			return fmt.Errorf("line %d: inconsistent lengths", in.N)
		}
		re, cx, err := weWindow(c.Kind, c.Param)
		if err != nil {
			return fmt.Errorf("line %d: %v", in.N, err)
		}
		want := make([]float64, n)
		for i, ix := range c.Idx {
			if want[i], err = ix.value(); err != nil {
				return fmt.Errorf("line %d: %v", in.N, err)
			}
		}
		tol := float64(c.Tol) * 0x1p-52
		sum.Cases++
		if n > 1 && c.Kind != "Rectangular" {
			sum.Nontrivial++
		}
		if in.N%97 == 5 && len(b) < 1500 {
			sum.Sample(json.RawMessage(append([]byte(nil), b...)))
		}
		id := fmt.Sprintf("%s/%d n=%d", c.Kind, c.Param, n)
		failed := map[string]bool{}
		fail := func(entry, kind, msg string) {
			sig := "dsp:winexact." + c.Kind + "." + entry + ":" + kind
			if failed[sig] {
				return
			}
			failed[sig] = true
			sum.Fail(sig, id+" "+entry+": "+msg, &c)
		}
		// weights delivered by an entry point on a vector of ones: value, exact ones, monotonicity
		weights := func(entry string, w []float64) {
			for i, v := range w {
				d := math.Abs(v - want[i])
				if !(d <= tol) {
					fail(entry, "weight", fmt.Sprintf("weight %d is %v, the closed form gives %v (difference %.3g, tolerance %.3g)", i, v, want[i], d, tol))
					return
				}
				if u := d / 0x1p-52; u > worst[c.Kind] {
					worst[c.Kind] = u
				}
				if c.Idx[i].X == 1 && v != 1 {
					fail(entry, "not-one", fmt.Sprintf("weight %d is %v, must be exactly 1", i, v))
					return
				}
			}
			if c.Mono {
				for i := 0; i+1 < n; i++ {
					if (2*(i+1) <= n-1 && w[i] > w[i+1]) || (2*i >= n-1 && w[i] < w[i+1]) {
						fail(entry, "monotone", fmt.Sprintf("weights %d, %d = %v, %v: not monotone towards the centre", i, i+1, w[i], w[i+1]))
						return
					}
				}
			}
		}
		// result of an entry point on the printed data: element k must be data[k] * weight[k]
		product := func(entry, part string, r []float64, data []int) {
			for i, v := range r {
				x := float64(data[i])
				d := math.Abs(v - x*want[i])
				if !(d <= (math.Abs(x)+1)*tol) {
					fail(entry, "product", fmt.Sprintf("%s part of element %d is %v for input %v, the closed form gives %v", part, i, v, x, x*want[i]))
					return
				}
				if c.Idx[i].X == 1 && v != x {
					fail(entry, "not-one", fmt.Sprintf("%s part of element %d is %v for input %v, the weight must be exactly 1", part, i, v, x))
					return
				}
			}
		}
		ones := make([]float64, n)
		dre, dim := make([]float64, n), make([]float64, n)
		zones, zdata := make([]complex128, n), make([]complex128, n)
		for i := range ones {
			ones[i] = 1
			dre[i], dim[i] = float64(c.Re[i]), float64(c.Im[i])
			zones[i] = complex(1, 1)
			zdata[i] = complex(dre[i], dim[i])
		}
		split := func(z []complex128) (r, i []float64) {
			r, i = make([]float64, len(z)), make([]float64, len(z))
			for k, v := range z {
				r[k], i[k] = real(v), imag(v)
			}
			return
		}
		realEntry := func(entry string, f func([]float64) []float64) {
			for _, in := range []struct {
				name string
				x    []float64
			}{{"ones", ones}, {"data", dre}} {
				r, why, o := realInPlace(f, in.x)
				switch {
				case o.Panicked:
					fail(entry, "panic", "panicked on "+in.name+": "+o.Text)
				case why != "":
					fail(entry, "in-place", why)
				case in.name == "ones":
					weights(entry, r)
				default:
					product(entry, "real", r, c.Re)
				}
			}
		}
		cplxEntry := func(entry string, f func([]complex128) []complex128) {
			for _, in := range []struct {
				name string
				z    []complex128
			}{{"ones", zones}, {"data", zdata}} {
				z, why, o := cplxInPlace(f, in.z)
				switch {
				case o.Panicked:
					fail(entry, "panic", "panicked on "+in.name+": "+o.Text)
				case why != "":
					fail(entry, "in-place", why)
				case in.name == "ones":
					r, i := split(z)
					weights(entry, r)
					weights(entry+".im", i)
				default:
					r, i := split(z)
					product(entry, "real", r, c.Re)
					product(entry, "imaginary", i, c.Im)
				}
			}
		}
		realEntry("Transform", re)
		cplxEntry("TransformComplex", cx)
		// NewValues: the weights themselves and the four ways of applying them
		var vals window.Values
		if o := core.Call(func() { vals = window.NewValues(re, n) }); o.Panicked {
			fail("NewValues", "panic", o.Text)
			continue
		}
		if len(vals) != n {
			fail("NewValues", "length", fmt.Sprintf("NewValues(.., %d) has length %d", n, len(vals)))
			continue
		}
		weights("NewValues", append([]float64(nil), vals...))
		realEntry("Values.Transform", func(x []float64) []float64 { return vals.Transform(x) })
		cplxEntry("Values.TransformComplex", func(z []complex128) []complex128 { return vals.TransformComplex(z) })
		// TransformTo / TransformComplexTo: dst receives the result, src is left alone
		{
			src := append([]float64(nil), dre...)
			dst := make([]float64, n)
			if o := core.Call(func() { vals.TransformTo(dst, src) }); o.Panicked {
				fail("Values.TransformTo", "panic", o.Text)
			} else {
				product("Values.TransformTo", "real", dst, c.Re)
				for i := range src {
					if src[i] != dre[i] {
						fail("Values.TransformTo", "src-modified", fmt.Sprintf("src[%d] changed from %v to %v", i, dre[i], src[i]))
						break
					}
				}
			}
			zsrc := append([]complex128(nil), zdata...)
			zdst := make([]complex128, n)
			if o := core.Call(func() { vals.TransformComplexTo(zdst, zsrc) }); o.Panicked {
				fail("Values.TransformComplexTo", "panic", o.Text)
			} else {
				r, i := split(zdst)
				product("Values.TransformComplexTo", "real", r, c.Re)
				product("Values.TransformComplexTo", "imaginary", i, c.Im)
				for i := range zsrc {
					if zsrc[i] != zdata[i] {
						fail("Values.TransformComplexTo", "src-modified", fmt.Sprintf("src[%d] changed from %v to %v", i, zdata[i], zsrc[i]))
						break
					}
				}
			}
		}
		sum.Count("window_entry_point_calls", 14)
	}
	for k, u := range worst {
		sum.Count("largest_weight_error_in_units_of_2^-52:"+k, int(math.Ceil(u)))
	}
	return nil
}

func init() {
	core.RegisterReplay("dsp-winexact", replayWinExact)
}
