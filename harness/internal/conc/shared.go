package conc

// Recorder for specs/conc/SharedObjTrace.tla: concurrent use of gonum's shared
// objects (unit's dimension registry, a lazily initialised distmat.Wishart,
// stat/card's hash registry) logged as per-goroutine operation lists with
// invocation/response stamps of one global atomic counter.

import (
	"fmt"
	"hash"
	"hash/fnv"
	"math/rand"
	"os"
	"runtime"
	"strings"
	"sync"
	"sync/atomic"
	"time"

	"gonum.org/v1/gonum/mat"
	"gonum.org/v1/gonum/stat/card"
	"gonum.org/v1/gonum/stat/distmat"
	"gonum.org/v1/gonum/unit"

	"gonum.org/v1/gonum/verifharness/internal/core"
)

type sharedOp struct {
	Op  string `json:"op"`
	Arg int64  `json:"arg"`
	Ret int64  `json:"ret"`
	Pan int    `json:"pan"`
	OK  int    `json:"ok"`
	Inv int64  `json:"inv"`
	Res int64  `json:"res"`
}

type sharedRun struct {
	Name    string       `json:"name"`
	Base    int64        `json:"base"`
	Builtin [][2]int64   `json:"builtin"`
	Ops     [][]sharedOp `json:"ops"`
}

var sharedRunNo int64

// the hash type registered concurrently in the card runs
type verifHash struct{ hash.Hash64 }

func newVerifHash() hash.Hash64 { return verifHash{fnv.New64a()} }

// registryRun: g goroutines issue k operations each on unit's registry.
func registryRun(rng *rand.Rand, g, k, procs int) *sharedRun {
	run := atomic.AddInt64(&sharedRunNo, 1)
	tag := fmt.Sprintf("vf%d_%d_", os.Getpid(), run)
	// learn where this run's ids start (the registry is process global)
	base := int64(unit.NewDimension(tag+"base")) + 1
	const nsym = 4
	name := func(s int64) string {
		if s == 100 {
			return "kg" // built in, id unit.MassDim
		}
		if s == 101 {
			return tag + "never" // never registered
		}
		return fmt.Sprintf("%ss%d", tag, s)
	}
	rr := &sharedRun{Name: fmt.Sprintf("unit registry g=%d k=%d procs=%d", g, k, procs), Base: base,
		Builtin: [][2]int64{{100, int64(unit.MassDim)}}, Ops: make([][]sharedOp, g)}
	// the script of every goroutine is fixed before the run; ids to format are taken from a
	// shared list of ids whose registration has completed (so the call is legal whatever the order)
	var clock int64
	var mu sync.Mutex
	var doneIDs [][2]int64 // (id, symbol)
	seeds := make([]int64, g)
	for i := range seeds {
		seeds[i] = rng.Int63()
	}
	old := runtime.GOMAXPROCS(procs)
	var wg sync.WaitGroup
	start := make(chan struct{})
	for gi := 0; gi < g; gi++ {
		wg.Add(1)
		go func(gi int) {
			defer wg.Done()
			r := rand.New(rand.NewSource(seeds[gi]))
			<-start
			for j := 0; j < k; j++ {
				var o sharedOp
				o.OK = 1
				switch c := r.Intn(10); {
				case c < 5:
					o.Op, o.Arg = "new", int64(1+r.Intn(nsym))
					if r.Intn(8) == 0 {
						o.Arg = 100
					}
				case c < 8:
					o.Op, o.Arg = "exists", int64(1+r.Intn(nsym))
					if x := r.Intn(6); x == 0 {
						o.Arg = 100
					} else if x == 1 {
						o.Arg = 101
					}
				default:
					o.Op = "str"
					mu.Lock()
					n := len(doneIDs)
					var pick [2]int64
					if n > 0 {
						pick = doneIDs[r.Intn(n)]
					}
					mu.Unlock()
					switch x := r.Intn(5); {
					case n > 0 && x < 3:
						o.Arg = pick[0]
					case x == 3:
						o.Arg = int64(unit.MassDim)
					default:
						o.Arg = base + 100000 // no such dimension: documented panic
					}
				}
				if r.Intn(3) == 0 {
					runtime.Gosched()
				}
				o.Inv = atomic.AddInt64(&clock, 1)
				func() {
					defer func() {
						if e := recover(); e != nil {
							o.Pan = 1
						}
					}()
					switch o.Op {
					case "new":
						o.Ret = int64(unit.NewDimension(name(o.Arg)))
					case "exists":
						if unit.SymbolExists(name(o.Arg)) {
							o.Ret = 1
						}
					case "str":
						s := unit.Dimension(o.Arg).String()
						switch {
						case s == "kg":
							o.Ret = 100
						case strings.HasPrefix(s, tag+"s"):
							fmt.Sscan(s[len(tag)+1:], &o.Ret)
						default:
							o.Ret = -1 // a symbol that nobody registered under that id
							o.OK = 0
						}
					}
				}()
				o.Res = atomic.AddInt64(&clock, 1)
				if o.Op == "new" && o.Pan == 0 {
					mu.Lock()
					doneIDs = append(doneIDs, [2]int64{o.Ret, o.Arg})
					mu.Unlock()
				}
				if o.Ret < 0 {
					o.Ret = 0
					o.Op = "bad-symbol" // no clause of the specification accepts it
				}
				rr.Ops[gi] = append(rr.Ops[gi], o)
			}
		}(gi)
	}
	close(start)
	wg.Wait()
	runtime.GOMAXPROCS(old)
	return rr
}

func symHash(s mat.Symmetric) string {
	n := s.SymmetricDim()
	v := make([]float64, 0, n*n)
	for i := 0; i < n; i++ {
		for j := 0; j < n; j++ {
			v = append(v, s.At(i, j))
		}
	}
	return hashF64(v)
}

func spd(rng *rand.Rand, d int) *mat.SymDense {
	a := mat.NewDense(d, d, nil)
	for i := 0; i < d; i++ {
		for j := 0; j < d; j++ {
			a.Set(i, j, rng.NormFloat64())
		}
	}
	var s mat.SymDense
	s.SymOuterK(1, a)
	for i := 0; i < d; i++ {
		s.SetSym(i, i, s.At(i, i)+float64(d))
	}
	return &s
}

// wishartRun: one fresh Wishart shared by g goroutines whose first calls overlap; the serial
// answers come from an identical object used by one goroutine only.
func wishartRun(rng *rand.Rand, g, d, procs int) *sharedRun {
	v := spd(rng, d)
	x := spd(rng, d)
	nu := float64(d) + 2
	ref, ok := distmat.NewWishart(v, nu, nil)
	w, ok2 := distmat.NewWishart(v, nu, nil)
	if !ok || !ok2 {
		panic("harness: planted SPD matrix not accepted by NewWishart")
	}
	var rm mat.SymDense
	ref.MeanSymTo(&rm)
	wantMean := symHash(&rm)
	wantLP := ref.LogProbSym(x)
	rr := &sharedRun{Name: fmt.Sprintf("distmat.Wishart shared, first use concurrent g=%d dim=%d procs=%d", g, d, procs),
		Builtin: [][2]int64{}, Ops: make([][]sharedOp, g)}
	var clock int64
	old := runtime.GOMAXPROCS(procs)
	var wg sync.WaitGroup
	start := make(chan struct{})
	for gi := 0; gi < g; gi++ {
		wg.Add(1)
		go func(gi int) {
			defer wg.Done()
			<-start
			// stagger the first calls so that later ones begin while the first is still initialising
			time.Sleep(time.Duration(gi) * 40 * time.Microsecond)
			for j := 0; j < 2; j++ {
				o := sharedOp{Op: "pure", Arg: int64(j)}
				o.Inv = atomic.AddInt64(&clock, 1)
				func() {
					defer func() {
						if e := recover(); e != nil {
							o.Pan = 1
						}
					}()
					if (gi+j)%3 == 2 {
						if w.LogProbSym(x) == wantLP {
							o.OK = 1
						}
						return
					}
					var m mat.SymDense
					w.MeanSymTo(&m)
					if symHash(&m) == wantMean {
						o.OK = 1
					}
				}()
				o.Res = atomic.AddInt64(&clock, 1)
				rr.Ops[gi] = append(rr.Ops[gi], o)
			}
		}(gi)
	}
	close(start)
	wg.Wait()
	runtime.GOMAXPROCS(old)
	return rr
}

// cardRun: goroutines register the same hash constructor (idempotent, first wins) while others
// round-trip sketches that need the registration; every answer must be the serial one.
func cardRun(rng *rand.Rand, g, procs int) *sharedRun {
	card.RegisterHash(newVerifHash)
	mk := func(seed int64) []byte {
		h, err := card.NewHyperLogLog64(6, newVerifHash())
		if err != nil {
			panic(err)
		}
		r := rand.New(rand.NewSource(seed))
		for i := 0; i < 200; i++ {
			fmt.Fprintf(h, "item-%d", r.Intn(500))
		}
		b, err := h.MarshalBinary()
		if err != nil {
			panic(err)
		}
		var h2 card.HyperLogLog64
		if err := h2.UnmarshalBinary(b); err != nil {
			panic(err)
		}
		b2, err := h2.MarshalBinary()
		if err != nil {
			panic(err)
		}
		return append(b, b2...)
	}
	want := make([]string, g)
	sd := make([]int64, g)
	for i := range want {
		sd[i] = rng.Int63()
		want[i] = string(mk(sd[i]))
	}
	rr := &sharedRun{Name: fmt.Sprintf("stat/card registry + sketches g=%d procs=%d", g, procs), Builtin: [][2]int64{}, Ops: make([][]sharedOp, g)}
	var clock int64
	old := runtime.GOMAXPROCS(procs)
	var wg sync.WaitGroup
	for gi := 0; gi < g; gi++ {
		wg.Add(1)
		go func(gi int) {
			defer wg.Done()
			for j := 0; j < 3; j++ {
				o := sharedOp{Op: "pure", Arg: int64(j)}
				o.Inv = atomic.AddInt64(&clock, 1)
				func() {
					defer func() {
						if e := recover(); e != nil {
							o.Pan = 1
						}
					}()
					card.RegisterHash(newVerifHash)
					if string(mk(sd[gi])) == want[gi] {
						o.OK = 1
					}
				}()
				o.Res = atomic.AddInt64(&clock, 1)
				rr.Ops[gi] = append(rr.Ops[gi], o)
			}
		}(gi)
	}
	wg.Wait()
	runtime.GOMAXPROCS(old)
	return rr
}

// recordShared: args procs=1,2,4,16 runs=N notrace
func recordShared(out *core.Out, args []string, seed int64, sum *core.Summary) error {
	procs := []int{1, 2, 4, 16}
	runs, trace := 6, true
	for _, a := range args {
		switch {
		case strings.HasPrefix(a, "procs="):
			procs = nil
			for _, k := range strings.Split(a[6:], ",") {
				var v int
				fmt.Sscan(k, &v)
				procs = append(procs, v)
			}
		case strings.HasPrefix(a, "runs="):
			fmt.Sscan(a[5:], &runs)
		case a == "notrace":
			trace = false
		}
	}
	rng := rand.New(rand.NewSource(seed))
	emit := func(kind string, rr *sharedRun) {
		sum.Traces++
		sum.Count("runs_"+kind, 1)
		n, conc := 0, 0
		for _, ops := range rr.Ops {
			n += len(ops)
		}
		// a run is non-trivial when operations of different goroutines really overlapped
		for g, ops := range rr.Ops {
			for _, o := range ops {
				for h, ops2 := range rr.Ops {
					if h == g {
						continue
					}
					for _, p := range ops2 {
						if p.Inv < o.Res && o.Inv < p.Res {
							conc++
						}
					}
				}
			}
		}
		sum.Count("ops", n)
		if conc > 0 {
			sum.Count("runs_with_overlap", 1)
		}
		if trace {
			out.Emit(rr)
		}
	}
	for _, p := range procs {
		for i := 0; i < runs; i++ {
			emit("registry", registryRun(rng, 2+rng.Intn(3), 4+rng.Intn(3), p))
		}
		for i := 0; i < (runs+1)/2; i++ {
			emit("wishart", wishartRun(rng, 6, 120+40*rng.Intn(4), p))
		}
		emit("card", cardRun(rng, 4, p))
	}
	return nil
}

func init() { core.RegisterRecord("shared", recordShared) }
