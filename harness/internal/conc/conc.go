// Package conc records hook logs of the fork/join code paths named by
// property C09 (parallel Dgemm/Sgemm, quad.Fixed, fd.Jacobian, the mat
// workspace pools) for validation by specs/conc/ForkJoinTrace.tla, and drives
// the same workloads without tracer for the race-detector pass.
package conc

import (
	"crypto/sha256"
	"encoding/binary"
	"fmt"
	"math"
	"math/rand"
	"runtime"
	"strings"
	"sync"
	"sync/atomic"
	"time"

	"gonum.org/v1/gonum/blas"
	bgonum "gonum.org/v1/gonum/blas/gonum"
	"gonum.org/v1/gonum/diff/fd"
	"gonum.org/v1/gonum/integrate/quad"
	"gonum.org/v1/gonum/internal/verifhook"
	"gonum.org/v1/gonum/mat"

	"gonum.org/v1/gonum/verifharness/internal/core"
)

type rawEv struct {
	actor, ev string
	a, b, c   int64
}

// seqLog is the tracer: one global list; the position in the list is the
// global sequence number (assigned under the mutex when the event is logged).
type seqLog struct {
	mu sync.Mutex
	ev []rawEv
}

func (s *seqLog) trace(actor, ev string, a, b, c int64) {
	s.mu.Lock()
	s.ev = append(s.ev, rawEv{actor, ev, a, b, c})
	s.mu.Unlock()
}

type outEv map[string]any

type runRec struct {
	Kind     string  `json:"kind"`
	Name     string  `json:"name"`
	Cap      int     `json:"cap"`
	NK       int     `json:"nk"`
	NBlk     int     `json:"nblk"`
	N        int     `json:"n"`
	Workers  int     `json:"workers"`
	Jobs     int     `json:"jobs"`
	Input    string  `json:"input"`
	Sig      string  `json:"sig"`
	Leaked   int     `json:"leaked"`
	Calls    int64   `json:"calls"`
	ExpCalls int64   `json:"expcalls"`
	OK       int     `json:"ok"`
	Ev       []outEv `json:"ev"`
}

func blankEv(a, e string) outEv {
	return outEv{"a": a, "e": e, "i": 0, "j": 0, "k": 0, "loc": 0, "kind": 0, "buf": 0, "cap": 0}
}

func settle(base int) int {
	// A goroutine that was still winding down when base was taken (from the previous run) makes the
	// difference negative: that is not a leak. The deadline is generous because the machine may be
	// heavily loaded; it is only waited for when goroutines are really still alive.
	deadline := time.Now().Add(15 * time.Second)
	for {
		n := runtime.NumGoroutine()
		if n <= base {
			return 0
		}
		if time.Now().After(deadline) {
			return n - base
		}
		time.Sleep(time.Millisecond)
	}
}

func hashF64(x []float64) string {
	h := sha256.New()
	var b [8]byte
	for _, v := range x {
		binary.LittleEndian.PutUint64(b[:], math.Float64bits(v))
		h.Write(b[:])
	}
	return fmt.Sprintf("%x", h.Sum(nil)[:8])
}

func hashF32(x []float32) string {
	h := sha256.New()
	var b [4]byte
	for _, v := range x {
		binary.LittleEndian.PutUint32(b[:], math.Float32bits(v))
		h.Write(b[:])
	}
	return fmt.Sprintf("%x", h.Sum(nil)[:8])
}

const blockSize = 64

func blocks(d int) int { return (d + blockSize - 1) / blockSize }

type gemmShape struct{ m, n, k int }

func data64(n int, seed int64) []float64 {
	r := rand.New(rand.NewSource(seed))
	d := make([]float64, n)
	for i := range d {
		d[i] = r.NormFloat64() / 3
	}
	return d
}

// gemmRuns: every transpose arm x shapes with >= 4 blocks x GOMAXPROCS x repetitions.
func gemmRuns(out func(*runRec), trace bool, seed int64, reps int, procs []int) {
	shapes := []gemmShape{{130, 70, 65}, {65, 129, 130}, {200, 129, 1}, {129, 129, 64}}
	impl := bgonum.Implementation{}
	for _, sh := range shapes {
		for _, ta := range []blas.Transpose{blas.NoTrans, blas.Trans} {
			for _, tb := range []blas.Transpose{blas.NoTrans, blas.Trans} {
				ar, ac := sh.m, sh.k
				if ta == blas.Trans {
					ar, ac = sh.k, sh.m
				}
				br, bc := sh.k, sh.n
				if tb == blas.Trans {
					br, bc = sh.n, sh.k
				}
				lda, ldb, ldc := ac+3, bc+1, sh.n+2
				a := data64(ar*lda, seed+1)
				b := data64(br*ldb, seed+2)
				c0 := data64(sh.m*ldc, seed+3)
				a32, b32, c32 := make([]float32, len(a)), make([]float32, len(b)), make([]float32, len(c0))
				for i, v := range a {
					a32[i] = float32(v)
				}
				for i, v := range b {
					b32[i] = float32(v)
				}
				for i, v := range c0 {
					c32[i] = float32(v)
				}
				for _, prec := range []string{"D", "S"} {
					name := fmt.Sprintf("%sgemm-%c%c-%dx%dx%d", prec, ta, tb, sh.m, sh.n, sh.k)
					for _, p := range procs {
						for rep := 0; rep < reps; rep++ {
							old := runtime.GOMAXPROCS(p)
							lg := &seqLog{}
							if trace {
								verifhook.SetTracer(lg.trace)
							}
							base := runtime.NumGoroutine()
							var sig string
							if prec == "D" {
								c := append([]float64(nil), c0...)
								impl.Dgemm(ta, tb, sh.m, sh.n, sh.k, 1.25, a, lda, b, ldb, 0.5, c, ldc)
								sig = hashF64(c)
							} else {
								c := append([]float32(nil), c32...)
								impl.Sgemm(ta, tb, sh.m, sh.n, sh.k, 1.25, a32, lda, b32, ldb, 0.5, c, ldc)
								sig = hashF32(c)
							}
							leaked := settle(base)
							verifhook.SetTracer(nil)
							runtime.GOMAXPROCS(old)
							rr := &runRec{Kind: "gemm", Name: fmt.Sprintf("%s/procs=%d/rep=%d", name, p, rep), Cap: p,
								NK: blocks(sh.k), NBlk: blocks(sh.m) * blocks(sh.n), Input: name, Sig: sig, Leaked: leaked, OK: 1, Ev: []outEv{}}
							for _, e := range lg.ev {
								if !strings.HasPrefix(e.actor, "G") {
									continue
								}
								o := blankEv(e.actor, e.ev)
								switch e.ev {
								case "GStart", "GEnd":
									o["i"], o["j"] = e.a/blockSize, e.b/blockSize
								case "GStep":
									o["i"], o["j"], o["k"] = e.a/blockSize, e.b/blockSize, e.c/blockSize
								}
								rr.Ev = append(rr.Ev, o)
							}
							out(rr)
						}
					}
				}
			}
		}
	}
}

func quadRuns(out func(*runRec), trace bool, seed int64, procs []int) {
	for _, n := range []int{1, 2, 3, 5, 8, 16} {
		var serial float64
		for conc := 0; conc <= n+2; conc++ {
			for _, p := range procs {
				old := runtime.GOMAXPROCS(p)
				lg := &seqLog{}
				if trace {
					verifhook.SetTracer(lg.trace)
				}
				var calls atomic.Int64
				yr := rand.New(rand.NewSource(seed + int64(n*100+conc)))
				var ymu sync.Mutex
				f := func(x float64) float64 {
					calls.Add(1)
					ymu.Lock()
					k := yr.Intn(3)
					ymu.Unlock()
					for i := 0; i < k; i++ {
						runtime.Gosched()
					}
					return 1 + x*(2+x*(0.5-x))
				}
				base := runtime.NumGoroutine()
				// quad.Fixed must return (C09 / C18: the fork/join design always terminates). A call that
				// normally takes microseconds and has not returned after 30 s, twice in a row, is
				// logged as a run that never joined: OK = 0 and its goroutines leaked, which the trace
				// specification rejects. (Run directly, a hung call would end the recorder with the Go
				// runtime's deadlock report and leave the check undecided.)
				v := math.NaN()
				hung := core.CallTimeout(30*time.Second, func() { v = quad.Fixed(f, -1, 2, n, nil, conc) }).Hung
				if hung {
					hung = core.CallTimeout(30*time.Second, func() { v = quad.Fixed(f, -1, 2, n, nil, conc) }).Hung
					if !hung {
						// the first call was only stalled (overloaded machine) and may still be running:
						// nothing about this run is recorded
						verifhook.SetTracer(nil)
						runtime.GOMAXPROCS(old)
						continue
					}
				}
				leaked := 0
				if hung {
					v = math.NaN()
					leaked = runtime.NumGoroutine() - base
					if leaked < 1 {
						leaked = 1
					}
				} else {
					leaked = settle(base)
				}
				verifhook.SetTracer(nil)
				runtime.GOMAXPROCS(old)
				if conc == 0 {
					serial = v
				}
				w := conc
				if w > n {
					w = n
				}
				ok := 0
				// logging-boundary predicate: the concurrent sum equals the serial one to rounding
				if math.Abs(v-serial) <= float64(n+2)*1e-15*(1+math.Abs(serial)) {
					ok = 1
				}
				rr := &runRec{Kind: "quad", Name: fmt.Sprintf("quad.Fixed n=%d concurrent=%d procs=%d", n, conc, p), N: n, Workers: w,
					Leaked: leaked, Calls: calls.Load(), ExpCalls: int64(n), OK: ok, Ev: []outEv{}}
				if conc <= 0 {
					rr.Kind = "serial"
				}
				for _, e := range lg.ev {
					if !strings.HasPrefix(e.actor, "Q") {
						continue
					}
					o := blankEv(e.actor, e.ev)
					if e.ev == "QEval" {
						o["k"] = e.a
					}
					rr.Ev = append(rr.Ev, o)
				}
				out(rr)
				if hung {
					return // one run that never joins decides; every further one would cost a minute
				}
			}
		}
	}
}

func jacRuns(out func(*runRec), trace bool, seed int64, procs []int) {
	type fm struct {
		name string
		f    fd.Formula
	}
	forms := []fm{{"Forward", fd.Forward}, {"Backward", fd.Backward}, {"Central", fd.Central}}
	for _, fmv := range forms {
		for _, dims := range [][2]int{{1, 1}, {3, 2}, {2, 4}, {5, 3}} {
			m, n := dims[0], dims[1]
			x := make([]float64, n)
			for i := range x {
				x[i] = 0.5 + float64(i)
			}
			for _, p := range procs {
				old := runtime.GOMAXPROCS(p)
				var calls atomic.Int64
				yr := rand.New(rand.NewSource(seed + int64(m*10+n)))
				var ymu sync.Mutex
				f := func(y, xx []float64) {
					calls.Add(1)
					ymu.Lock()
					k := yr.Intn(3)
					ymu.Unlock()
					for i := 0; i < k; i++ {
						runtime.Gosched()
					}
					for i := range y {
						s := float64(i + 1)
						for j, v := range xx {
							s += float64(i+j+1) * v * v
						}
						y[i] = s
					}
				}
				ref := mat.NewDense(m, n, nil)
				fd.Jacobian(ref, f, x, &fd.JacobianSettings{Formula: fmv.f, Step: 1.0 / 64})
				calls.Store(0)
				lg := &seqLog{}
				if trace {
					verifhook.SetTracer(lg.trace)
				}
				base := runtime.NumGoroutine()
				dst := mat.NewDense(m, n, nil)
				fd.Jacobian(dst, f, x, &fd.JacobianSettings{Formula: fmv.f, Step: 1.0 / 64, Concurrent: true})
				leaked := settle(base)
				verifhook.SetTracer(nil)
				runtime.GOMAXPROCS(old)
				nz, origin := 0, 0
				for _, pt := range fmv.f.Stencil {
					if pt.Loc != 0 {
						nz++
					} else {
						origin = 1
					}
				}
				ok := 0
				if mat.EqualApprox(dst, ref, 1e-12) {
					ok = 1
				}
				rr := &runRec{Kind: "jac", Name: fmt.Sprintf("fd.Jacobian %s %dx%d procs=%d", fmv.name, m, n, p), Jobs: nz * n,
					Leaked: leaked, Calls: calls.Load(), ExpCalls: int64(nz*n + origin), OK: ok, Ev: []outEv{}}
				for _, e := range lg.ev {
					if !strings.HasPrefix(e.actor, "J") {
						continue
					}
					o := blankEv(e.actor, e.ev)
					switch e.ev {
					case "JEval":
						o["j"], o["loc"] = e.a, e.b+100 // keep the stencil location non-negative
					case "JEnter", "JLeave":
						o["j"] = e.a
					}
					rr.Ev = append(rr.Ev, o)
				}
				if len(rr.Ev) == 0 {
					rr.Kind = "serial" // computeWorkers chose the serial path
				}
				out(rr)
			}
		}
	}
}

// fdRuns: Gradient / Hessian / Laplacian / CrossLaplacian with Concurrent set, against their serial
// runs. These code paths carry no hooks: the run records only the end-of-call conditions (result
// bit-identical to the serial answer - dyadic steps and an integer polynomial make every stencil
// value exact, so the summation order cannot matter -, the user function called as often as in the
// serial run, no goroutine left) and they are part of the race-detector pass.
func fdRuns(out func(*runRec), seed int64, procs []int) {
	poly := func(x []float64) float64 {
		s := 3.0
		for i, v := range x {
			s += float64(i+1)*v*v + float64(2-i)*v
			if i > 0 {
				s += x[i-1] * v
			}
		}
		return s
	}
	for _, dim := range []int{1, 2, 3, 4} {
		x := make([]float64, dim)
		for i := range x {
			x[i] = float64(i) - 0.5
		}
		for _, p := range procs {
			type res struct {
				sig   string
				calls int64
			}
			// junk: the destination (Gradient's dst, Hessian's receiver) is non-empty and holds stale
			// non-zero values, as when one destination is reused for several calls
			run := func(name string, conc, junk bool) res {
				var calls atomic.Int64
				yr := rand.New(rand.NewSource(seed + int64(dim)))
				var ymu sync.Mutex
				f := func(x []float64) float64 {
					calls.Add(1)
					ymu.Lock()
					k := yr.Intn(3)
					ymu.Unlock()
					for i := 0; i < k; i++ {
						runtime.Gosched()
					}
					return poly(x)
				}
				st := &fd.Settings{Step: 1.0 / 32, Concurrent: conc}
				var vals []float64
				switch name {
				case "Gradient":
					st.Formula = fd.Central
					var dst []float64
					if junk {
						dst = make([]float64, dim)
						for i := range dst {
							dst[i] = 7.5 + float64(i)
						}
					}
					vals = fd.Gradient(dst, f, x, st)
				case "Hessian":
					h := mat.NewSymDense(dim, nil)
					if junk {
						for i := 0; i < dim; i++ {
							for j := i; j < dim; j++ {
								h.SetSym(i, j, 7.5+float64(i*dim+j))
							}
						}
					}
					fd.Hessian(h, f, x, st)
					vals = h.RawSymmetric().Data
				case "Laplacian":
					vals = []float64{fd.Laplacian(f, x, st)}
				case "CrossLaplacian":
					y := make([]float64, dim)
					for i := range y {
						y[i] = 0.25 * float64(i+1)
					}
					g := func(a, b []float64) float64 { return f(a) * (1 + b[0]) }
					vals = []float64{fd.CrossLaplacian(g, x, y, st)}
				}
				return res{hashF64(vals), calls.Load()}
			}
			for _, name := range []string{"Gradient", "Hessian", "Laplacian", "CrossLaplacian"} {
				serial := run(name, false, false)
				for _, junk := range []bool{false, true} {
					if junk && name != "Gradient" && name != "Hessian" {
						continue // no destination argument
					}
					old := runtime.GOMAXPROCS(p)
					base := runtime.NumGoroutine()
					got := run(name, true, junk)
					leaked := settle(base)
					runtime.GOMAXPROCS(old)
					ok := 0
					if got.sig == serial.sig {
						ok = 1
					}
					tag := ""
					if junk {
						tag = " dst=reused"
						// the serial path must not depend on stale destination contents either
						if sj := run(name, false, true); sj.sig != serial.sig {
							ok = 0
						}
					}
					out(&runRec{Kind: "call", Name: fmt.Sprintf("fd.%s dim=%d procs=%d%s", name, dim, p, tag), Leaked: leaked,
						Calls: got.calls, ExpCalls: serial.calls, OK: ok, Ev: []outEv{}})
				}
			}
		}
	}
}

// fdModRuns: the user function uses its argument as scratch space (it overwrites it after reading it). The serial code
// protects every evaluation by a fresh copy of x ("Copy x in case it is modified during the call"), so, with the property's
// "concurrent finite differences return the serial answer", every path must return the answer of the well-behaved
// function bit for bit (dyadic steps and an integer polynomial: every stencil value and every partial sum is exact, the
// summation order cannot matter), must leave the caller's x (and y) untouched and must call the function as often.
// n = 24 gives more stencil evaluations than workers for every GOMAXPROCS used. Runs of one routine are emitted with the
// concurrent path first and the serial path last (the Python side validates one trace per routine).
func fdModRuns(out func(*runRec), seed int64, procs []int) {
	const n = 24
	w := make([]float64, n)
	x0 := make([]float64, n)
	y0 := make([]float64, n)
	for i := range w {
		w[i] = float64(2 + i%5)
		x0[i] = 0.25*float64(i%7) - 0.5
		y0[i] = 0.25 * float64(1+i%3)
	}
	poly := func(x []float64) float64 {
		s := 3.0
		for i, v := range x {
			s += float64(i%4+1)*v*v + float64(2-i%5)*v
			if i > 0 {
				s += x[i-1] * v
			}
		}
		return s
	}
	scribble := func(x []float64) {
		for i := range x {
			x[i] = x[i]*w[i%len(w)] + 1
		}
	}
	type fm struct {
		name string
		f    fd.Formula
	}
	first := []fm{{"Forward", fd.Forward}, {"Backward", fd.Backward}, {"Central", fd.Central}}
	second := []fm{{"Forward2nd", fd.Forward2nd}, {"Backward2nd", fd.Backward2nd}, {"Central2nd", fd.Central2nd}}
	same := func(a, b []float64) bool {
		for i := range a {
			if math.Float64bits(a[i]) != math.Float64bits(b[i]) {
				return false
			}
		}
		return true
	}
	for _, routine := range []string{"Gradient", "Jacobian", "Hessian", "Laplacian", "CrossLaplacian"} {
		forms := first
		if routine == "Laplacian" {
			forms = second
		}
		// one call: returns the result, the number of calls of the user function and whether x (and y) are as before
		call := func(fmv fm, conc, mod bool) (vals []float64, calls int64, intact bool) {
			var cnt atomic.Int64
			yr := rand.New(rand.NewSource(seed + int64(len(routine))))
			var ymu sync.Mutex
			yield := func() {
				cnt.Add(1)
				ymu.Lock()
				k := yr.Intn(3)
				ymu.Unlock()
				for i := 0; i < k; i++ {
					runtime.Gosched()
				}
			}
			f := func(x []float64) float64 {
				yield()
				v := poly(x)
				if mod {
					scribble(x)
				}
				return v
			}
			x := append([]float64(nil), x0...)
			y := append([]float64(nil), y0...)
			st := &fd.Settings{Formula: fmv.f, Step: 1.0 / 32, Concurrent: conc}
			switch routine {
			case "Gradient":
				vals = fd.Gradient(nil, f, x, st)
			case "Jacobian":
				const m = 5
				g := func(dst, x []float64) {
					yield()
					for i := range dst {
						s := float64(i + 1)
						for j, v := range x {
							s += float64((i+j)%3+1) * v * v
						}
						dst[i] = s
					}
					if mod {
						scribble(x)
					}
				}
				d := mat.NewDense(m, n, nil)
				fd.Jacobian(d, g, x, &fd.JacobianSettings{Formula: fmv.f, Step: 1.0 / 32, Concurrent: conc})
				vals = d.RawMatrix().Data
			case "Hessian":
				h := mat.NewSymDense(n, nil)
				fd.Hessian(h, f, x, st)
				vals = h.RawSymmetric().Data
			case "Laplacian":
				vals = []float64{fd.Laplacian(f, x, st)}
			case "CrossLaplacian":
				g := func(a, b []float64) float64 {
					yield()
					v := poly(a) * (1 + b[0])
					if mod {
						scribble(a)
						scribble(b)
					}
					return v
				}
				vals = []float64{fd.CrossLaplacian(g, x, y, st)}
			}
			return vals, cnt.Load(), same(x, x0) && same(y, y0)
		}
		type plan struct {
			fmv  fm
			p    int
			conc bool
		}
		var plans, serialPlans []plan
		for _, fmv := range forms {
			for _, p := range procs {
				if p > 1 {
					plans = append(plans, plan{fmv, p, true})
				} else {
					serialPlans = append(serialPlans, plan{fmv, p, true}) // one worker: computeWorkers takes the serial path
				}
			}
			serialPlans = append(serialPlans, plan{fmv, 4, false})
		}
		for _, pl := range append(plans, serialPlans...) {
			ref, refCalls, _ := call(pl.fmv, false, false)
			old := runtime.GOMAXPROCS(pl.p)
			base := runtime.NumGoroutine()
			var got []float64
			var calls int64
			var intact bool
			o := core.Call(func() { got, calls, intact = call(pl.fmv, pl.conc, true) })
			leaked := settle(base)
			runtime.GOMAXPROCS(old)
			ok := 0
			if !o.Panicked && intact && len(got) == len(ref) && same(got, ref) {
				ok = 1
			}
			path := "concurrent"
			if !pl.conc || pl.p == 1 {
				path = "serial"
			}
			set := "Concurrent=false"
			if pl.conc {
				set = "Concurrent=true"
			}
			out(&runRec{Kind: "call", Name: fmt.Sprintf("fd.%s scribbling-f %s %s n=%d %s procs=%d intact=%t", routine, path, pl.fmv.name, n, set, pl.p, intact),
				Leaked: leaked, Calls: calls, ExpCalls: refCalls, OK: ok, Ev: []outEv{}})
		}
	}
}

// poolWork is one independent computation that uses the mat workspace pools
// heavily (aliased products, banded in-place products, solves).
//
// Every fourth id first factorizes, with mat.HOGSVD, integer matrices with DIFFERENT row counts (the first shorter
// than a later one: 3x2 then 5x2, 2x2 then 3x2 then 5x2; and the reverse order): Factorize borrows n x rows workspaces
// from the same pools, and what it puts back is what the other goroutines' products and solves are handed next.
// A panic (e.g. a workspace smaller than its pool promises) is part of the result string.
func poolWork(id int, iters int) (res string) {
	defer func() {
		if e := recover(); e != nil {
			res = fmt.Sprintf("panic: %v", e)
		}
	}()
	var hog []float64
	if id%4 == 0 {
		rows := [][]int{{3, 5}, {5, 3}, {2, 3, 5}, {1, 3}}[(id/4)%4]
		cols := 2
		if rows[0] == 1 {
			cols = 1
		}
		ms := make([]mat.Matrix, len(rows))
		for q, rr := range rows {
			d := mat.NewDense(rr, cols, nil)
			for i := 0; i < rr; i++ {
				for j := 0; j < cols; j++ {
					v := float64((i*(id+2)+j*3+i*j+q)%5 - 2)
					if i == j {
						v += float64(4 + q)
					}
					d.Set(i, j, v)
				}
			}
			ms[q] = d
		}
		var h mat.HOGSVD
		if h.Factorize(ms...) {
			for q := range ms {
				hog = append(hog, h.Values(nil, q)...)
			}
		}
	}
	r := rand.New(rand.NewSource(int64(id)))
	n := 3 + id%5
	a := mat.NewDense(n, n, nil)
	for i := 0; i < n; i++ {
		for j := 0; j < n; j++ {
			a.Set(i, j, r.NormFloat64())
		}
		a.Set(i, i, a.At(i, i)+float64(n))
	}
	v := mat.NewVecDense(n, nil)
	for i := 0; i < n; i++ {
		v.SetVec(i, r.NormFloat64())
	}
	b := mat.NewBandDense(n, n, 1, 1, nil)
	for i := 0; i < n; i++ {
		for j := i - 1; j <= i+1; j++ {
			if j >= 0 && j < n {
				b.SetBand(i, j, 0.1*r.NormFloat64()+0.3)
			}
		}
	}
	var m mat.Dense
	m.CloneFrom(a)
	for it := 0; it < iters; it++ {
		m.Mul(&m, a) // receiver is an operand: isolated workspace from the pool
		m.Scale(1/mat.Norm(&m, 1), &m)
		v.MulVec(a, v)          // aliased vector product
		b.MulVecTo(v, false, v) // banded in-place product
		v.ScaleVec(1/mat.Norm(v, 2), v)
		var inv mat.Dense
		if err := inv.Inverse(a); err == nil {
			m.Add(&m, &inv)
		}
		var s mat.VecDense
		if err := s.SolveVec(a, v); err == nil {
			v.AddVec(v, &s)
		}
	}
	return hashF64(append(append(append([]float64(nil), m.RawMatrix().Data...), v.RawVector().Data...), hog...))
}

func poolRuns(out func(*runRec), trace bool, seed int64, procs []int) {
	const G = 32
	serial := make([]string, G)
	for g := 0; g < G; g++ {
		serial[g] = poolWork(g, 6)
	}
	for _, p := range procs {
		old := runtime.GOMAXPROCS(p)
		lg := &seqLog{}
		if trace {
			verifhook.SetTracer(lg.trace)
		}
		base := runtime.NumGoroutine()
		got := make([]string, G)
		var wg sync.WaitGroup
		for g := 0; g < G; g++ {
			wg.Add(1)
			go func(g int) {
				defer wg.Done()
				got[g] = poolWork(g, 6)
			}(g)
		}
		wg.Wait()
		leaked := settle(base)
		verifhook.SetTracer(nil)
		runtime.GOMAXPROCS(old)
		ok := 1
		for g := range got {
			if got[g] != serial[g] || strings.HasPrefix(got[g], "panic") {
				ok = 0
			}
		}
		rr := &runRec{Kind: "pool", Name: fmt.Sprintf("32 goroutines sharing the mat pools procs=%d", p), Leaked: leaked, OK: ok, Ev: []outEv{}}
		bufs := map[int64]int{}
		for _, e := range lg.ev {
			if e.actor != "pool" {
				continue
			}
			o := blankEv("pool", e.ev)
			if _, ok := bufs[e.b]; !ok {
				bufs[e.b] = len(bufs) + 1
			}
			// e.c: the capacity of the workspace's backing slice, 0 while the hook in mat/pool.go does not log it
			o["kind"], o["buf"], o["cap"] = e.a, bufs[e.b], e.c
			rr.Ev = append(rr.Ev, o)
		}
		out(rr)
	}
}

// record: args kinds=gemm,quad,jac,pool procs=1,2,4,16 reps=N notrace
func record(out *core.Out, args []string, seed int64, sum *core.Summary) error {
	kinds := map[string]bool{"gemm": true, "quad": true, "jac": true, "pool": true, "fd": true, "fdmod": true}
	procs := []int{1, 2, 4, 16}
	reps, trace := 2, true
	for _, a := range args {
		switch {
		case strings.HasPrefix(a, "kinds="):
			kinds = map[string]bool{}
			for _, k := range strings.Split(a[6:], ",") {
				kinds[k] = true
			}
		case strings.HasPrefix(a, "procs="):
			procs = nil
			for _, k := range strings.Split(a[6:], ",") {
				var v int
				fmt.Sscan(k, &v)
				procs = append(procs, v)
			}
		case strings.HasPrefix(a, "reps="):
			fmt.Sscan(a[5:], &reps)
		case a == "notrace":
			trace = false
		}
	}
	emit := func(rr *runRec) {
		if rr.Leaked < 0 {
			rr.Leaked = 0
		}
		sum.Traces++
		sum.Count("runs_"+rr.Kind, 1)
		sum.Count("events", len(rr.Ev))
		if trace {
			out.Emit(rr)
		}
	}
	if kinds["gemm"] {
		gemmRuns(emit, trace, seed, reps, procs)
	}
	if kinds["quad"] {
		quadRuns(emit, trace, seed, procs)
	}
	if kinds["jac"] {
		jacRuns(emit, trace, seed, procs)
	}
	if kinds["pool"] {
		poolRuns(emit, trace, seed, procs)
	}
	if kinds["fd"] {
		fdRuns(emit, seed, procs)
	}
	if kinds["fdmod"] {
		fdModRuns(emit, seed, procs)
	}
	return nil
}

func init() { core.RegisterRecord("conc", record) }
