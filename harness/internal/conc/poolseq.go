package conc

import (
	"encoding/json"
	"fmt"
	"runtime"
	"sync"

	"gonum.org/v1/gonum/mat"

	"gonum.org/v1/gonum/verifharness/internal/core"
)

// spec->code for specs/conc/PoolSeq.tla: scripts of operations that borrow workspaces from the pools shared by all
// of mat. A "hog" step (mat.HOGSVD.Factorize of integer matrices with different row counts) must only not panic;
// every other step is an operation on integer matrices whose exact result the specification printed (theorem
// ProbeExact) - the comparison is bit for bit. Nothing is computed here.
//
// Every script is run (a) alone, on one goroutine with GOMAXPROCS = 1, so that the workspace an operation put back is
// the one the next request of that size class is handed, and (b) by 8 goroutines at once under GOMAXPROCS 4 and 16,
// each on its own operands ("independent operations on disjoint data ... sharing the internal workspace pools, with
// the same results as when run one at a time").

type seqStep struct {
	Op   string      `json:"op"`
	Mats [][][]int64 `json:"mats"`
	A    [][]int64   `json:"a"`
	X    [][]int64   `json:"x"`
	E    int         `json:"e"`
	Want [][]int64   `json:"want"`
}

type seqScript struct {
	K     string    `json:"k"`
	ID    int       `json:"id"`
	Mode  string    `json:"mode,omitempty"` // set on failure cases: the mode that failed
	Steps []seqStep `json:"steps"`
}

func init() { core.RegisterReplay("conc-poolseq", replayPoolSeq) }

func intDense(a [][]int64) *mat.Dense {
	d := mat.NewDense(len(a), len(a[0]), nil)
	for i := range a {
		for j, v := range a[i] {
			d.Set(i, j, float64(v))
		}
	}
	return d
}

type seqFail struct{ sig, msg string }

// runSteps executes the script once and returns the first disagreement with the specification.
func runSteps(s *seqScript) (fails []seqFail, probes int) {
	afterUnequal := false
	for i, st := range s.Steps {
		sig := fmt.Sprintf("conc:poolseq:%s", st.Op)
		var got *mat.Dense
		var err error
		var o core.Outcome
		switch st.Op {
		case "hog":
			ms := make([]mat.Matrix, len(st.Mats))
			for q, m := range st.Mats {
				ms[q] = intDense(m)
				if len(m) != len(st.Mats[0]) {
					afterUnequal = true
				}
			}
			var h mat.HOGSVD
			o = core.Call(func() { h.Factorize(ms...) })
			if o.Panicked {
				fails = append(fails, seqFail{sig + ":panic", fmt.Sprintf("step %d: HOGSVD.Factorize panicked: %s", i, o.Text)})
			}
			continue
		case "pow":
			got = new(mat.Dense)
			o = core.Call(func() { got.Pow(intDense(st.A), st.E) })
		case "mulself":
			got = intDense(st.X)
			o = core.Call(func() { got.Mul(got, intDense(st.A)) })
		case "solveself":
			got = intDense(st.X)
			o = core.Call(func() { err = got.Solve(intDense(st.A), got) })
		default:
			fails = append(fails, seqFail{sig + ":harness", "unknown step"})
			continue
		}
		if afterUnequal {
			probes++
		}
		sig = fmt.Sprintf("%s(%dx%d)", sig, len(st.Want), len(st.Want[0]))
		switch {
		case o.Panicked:
			fails = append(fails, seqFail{sig + ":panic", fmt.Sprintf("step %d panicked: %s", i, o.Text)})
			continue
		case err != nil:
			fails = append(fails, seqFail{sig + ":error", fmt.Sprintf("step %d: %v", i, err)})
			continue
		}
		r, c := got.Dims()
		if r != len(st.Want) || c != len(st.Want[0]) {
			fails = append(fails, seqFail{sig + ":dims", fmt.Sprintf("step %d: result is %dx%d", i, r, c)})
			continue
		}
	cmp:
		for a := 0; a < r; a++ {
			for b := 0; b < c; b++ {
				if got.At(a, b) != float64(st.Want[a][b]) {
					fails = append(fails, seqFail{sig + ":value", fmt.Sprintf("step %d: element (%d,%d) = %v, specification says %d", i, a, b, got.At(a, b), st.Want[a][b])})
					break cmp
				}
			}
		}
	}
	return fails, probes
}

func replayPoolSeq(in *core.Lines, args []string, seed int64, sum *core.Summary) error {
	const G, rounds = 8, 6
	for {
		b, ok := in.Next()
		if !ok {
			break
		}
		s := new(seqScript)
		if err := json.Unmarshal(b, s); err != nil {
			return fmt.Errorf("line %d: %v", in.N, err)
		}
		if s.K != "poolseq" {
			continue
		}
		report := func(mode string, fails []seqFail) {
			seen := map[string]bool{}
			for _, f := range fails {
				if sg := f.sig + ":" + mode; !seen[sg] {
					seen[sg] = true
					cs := *s
					cs.Mode = mode
					sum.Fail(sg, f.msg, &cs)
				}
			}
		}
		// (a) alone on one P, in a goroutine of its own (locked to the P for the duration)
		if s.Mode == "" || s.Mode == "alone-1P" {
			old := runtime.GOMAXPROCS(1)
			var fails []seqFail
			var probes int
			done := make(chan struct{})
			go func() {
				defer close(done)
				for r := 0; r < 3; r++ {
					f, p := runSteps(s)
					fails = append(fails, f...)
					probes += p
				}
			}()
			<-done
			runtime.GOMAXPROCS(old)
			sum.Cases += 3 * len(s.Steps)
			sum.Nontrivial += probes
			sum.Count("poolseq_alone_steps", 3*len(s.Steps))
			report("alone-1P", fails)
		}
		// (b) G goroutines at once
		for _, p := range []int{4, 16} {
			mode := fmt.Sprintf("concurrent-%dP", p)
			if s.Mode != "" && s.Mode != mode {
				continue
			}
			old := runtime.GOMAXPROCS(p)
			all := make([][]seqFail, G)
			pr := make([]int, G)
			var wg sync.WaitGroup
			for g := 0; g < G; g++ {
				wg.Add(1)
				go func(g int) {
					defer wg.Done()
					for r := 0; r < rounds; r++ {
						f, n := runSteps(s)
						all[g] = append(all[g], f...)
						pr[g] += n
						if r%2 == g%2 {
							runtime.Gosched()
						}
					}
				}(g)
			}
			wg.Wait()
			runtime.GOMAXPROCS(old)
			var fails []seqFail
			for g := range all {
				fails = append(fails, all[g]...)
				sum.Nontrivial += pr[g]
			}
			sum.Cases += G * rounds * len(s.Steps)
			sum.Count("poolseq_concurrent_steps", G*rounds*len(s.Steps))
			report(mode, fails)
		}
	}
	return nil
}
