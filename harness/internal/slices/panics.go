package slices

import (
	"fmt"

	"gonum.org/v1/gonum/cmplxs"
	"gonum.org/v1/gonum/floats"

	"gonum.org/v1/gonum/verifharness/internal/core"
)

// The documented panics (SliceExt.tla, PanicTab): the specification names the function, the
// argument lengths and whether the call must panic; the harness builds slices of those lengths
// (ascending values 1, 2, 3, descending for the "unsorted" rule) and calls.

func fseq(n int) []float64 {
	s := make([]float64, n)
	for i := range s {
		s[i] = float64(i + 1)
	}
	return s
}

func cseq(n int) []complex128 {
	s := make([]complex128, n)
	for i := range s {
		s[i] = complex(float64(i+1), 1)
	}
	return s
}

var panicCalls = map[string]func(a, b, c int, rule string){
	"floats.Add":           func(a, b, c int, _ string) { floats.Add(fseq(a), fseq(b)) },
	"floats.Sub":           func(a, b, c int, _ string) { floats.Sub(fseq(a), fseq(b)) },
	"floats.Mul":           func(a, b, c int, _ string) { floats.Mul(fseq(a), fseq(b)) },
	"floats.Div":           func(a, b, c int, _ string) { floats.Div(fseq(a), fseq(b)) },
	"floats.AddScaled":     func(a, b, c int, _ string) { floats.AddScaled(fseq(a), 2, fseq(b)) },
	"floats.CumSum":        func(a, b, c int, _ string) { floats.CumSum(fseq(a), fseq(b)) },
	"floats.CumProd":       func(a, b, c int, _ string) { floats.CumProd(fseq(a), fseq(b)) },
	"floats.ScaleTo":       func(a, b, c int, _ string) { floats.ScaleTo(fseq(a), 2, fseq(b)) },
	"floats.Dot":           func(a, b, c int, _ string) { floats.Dot(fseq(a), fseq(b)) },
	"floats.Distance":      func(a, b, c int, _ string) { floats.Distance(fseq(a), fseq(b), 2) },
	"floats.Argsort":       func(a, b, c int, _ string) { floats.Argsort(fseq(a), make([]int, b)) },
	"floats.ArgsortStable": func(a, b, c int, _ string) { floats.ArgsortStable(fseq(a), make([]int, b)) },
	"floats.AddTo":         func(a, b, c int, _ string) { floats.AddTo(fseq(a), fseq(b), fseq(c)) },
	"floats.SubTo":         func(a, b, c int, _ string) { floats.SubTo(fseq(a), fseq(b), fseq(c)) },
	"floats.MulTo":         func(a, b, c int, _ string) { floats.MulTo(fseq(a), fseq(b), fseq(c)) },
	"floats.DivTo":         func(a, b, c int, _ string) { floats.DivTo(fseq(a), fseq(b), fseq(c)) },
	"floats.AddScaledTo":   func(a, b, c int, _ string) { floats.AddScaledTo(fseq(a), fseq(b), 2, fseq(c)) },
	"floats.Max":           func(a, b, c int, _ string) { floats.Max(fseq(a)) },
	"floats.Min":           func(a, b, c int, _ string) { floats.Min(fseq(a)) },
	"floats.MaxIdx":        func(a, b, c int, _ string) { floats.MaxIdx(fseq(a)) },
	"floats.MinIdx":        func(a, b, c int, _ string) { floats.MinIdx(fseq(a)) },
	"floats.NearestIdx":    func(a, b, c int, _ string) { floats.NearestIdx(fseq(a), 2) },
	"floats.LogSumExp":     func(a, b, c int, _ string) { floats.LogSumExp(fseq(a)) },
	"floats.Span":          func(a, b, c int, _ string) { floats.Span(fseq(a), 1, 2) },
	"floats.LogSpan":       func(a, b, c int, _ string) { floats.LogSpan(fseq(a), 1, 2) },
	"floats.Within": func(a, b, c int, rule string) {
		s := fseq(a)
		if rule == "unsorted" {
			floats.Reverse(s)
		}
		floats.Within(s, 2)
	},
	"floats.NearestIdxForSpan": func(a, b, c int, _ string) { floats.NearestIdxForSpan(a, 1, 2, 1.5) },
	"cmplxs.Add":               func(a, b, c int, _ string) { cmplxs.Add(cseq(a), cseq(b)) },
	"cmplxs.Sub":               func(a, b, c int, _ string) { cmplxs.Sub(cseq(a), cseq(b)) },
	"cmplxs.Mul":               func(a, b, c int, _ string) { cmplxs.Mul(cseq(a), cseq(b)) },
	"cmplxs.MulConj":           func(a, b, c int, _ string) { cmplxs.MulConj(cseq(a), cseq(b)) },
	"cmplxs.Div":               func(a, b, c int, _ string) { cmplxs.Div(cseq(a), cseq(b)) },
	"cmplxs.AddScaled":         func(a, b, c int, _ string) { cmplxs.AddScaled(cseq(a), 2, cseq(b)) },
	"cmplxs.CumSum":            func(a, b, c int, _ string) { cmplxs.CumSum(cseq(a), cseq(b)) },
	"cmplxs.CumProd":           func(a, b, c int, _ string) { cmplxs.CumProd(cseq(a), cseq(b)) },
	"cmplxs.ScaleTo":           func(a, b, c int, _ string) { cmplxs.ScaleTo(cseq(a), 2, cseq(b)) },
	"cmplxs.ScaleRealTo":       func(a, b, c int, _ string) { cmplxs.ScaleRealTo(cseq(a), 2, cseq(b)) },
	"cmplxs.Dot":               func(a, b, c int, _ string) { cmplxs.Dot(cseq(a), cseq(b)) },
	"cmplxs.Distance":          func(a, b, c int, _ string) { cmplxs.Distance(cseq(a), cseq(b), 2) },
	"cmplxs.Abs":               func(a, b, c int, _ string) { cmplxs.Abs(fseq(a), cseq(b)) },
	"cmplxs.Real":              func(a, b, c int, _ string) { cmplxs.Real(fseq(a), cseq(b)) },
	"cmplxs.Imag":              func(a, b, c int, _ string) { cmplxs.Imag(fseq(a), cseq(b)) },
	"cmplxs.AddTo":             func(a, b, c int, _ string) { cmplxs.AddTo(cseq(a), cseq(b), cseq(c)) },
	"cmplxs.SubTo":             func(a, b, c int, _ string) { cmplxs.SubTo(cseq(a), cseq(b), cseq(c)) },
	"cmplxs.MulTo":             func(a, b, c int, _ string) { cmplxs.MulTo(cseq(a), cseq(b), cseq(c)) },
	"cmplxs.MulConjTo":         func(a, b, c int, _ string) { cmplxs.MulConjTo(cseq(a), cseq(b), cseq(c)) },
	"cmplxs.DivTo":             func(a, b, c int, _ string) { cmplxs.DivTo(cseq(a), cseq(b), cseq(c)) },
	"cmplxs.AddScaledTo":       func(a, b, c int, _ string) { cmplxs.AddScaledTo(cseq(a), cseq(b), 2, cseq(c)) },
	"cmplxs.Complex":           func(a, b, c int, _ string) { cmplxs.Complex(cseq(a), fseq(b), fseq(c)) },
	"cmplxs.MaxAbs":            func(a, b, c int, _ string) { cmplxs.MaxAbs(cseq(a)) },
	"cmplxs.MinAbs":            func(a, b, c int, _ string) { cmplxs.MinAbs(cseq(a)) },
	"cmplxs.MaxAbsIdx":         func(a, b, c int, _ string) { cmplxs.MaxAbsIdx(cseq(a)) },
	"cmplxs.MinAbsIdx":         func(a, b, c int, _ string) { cmplxs.MinAbsIdx(cseq(a)) },
	"cmplxs.NearestIdx":        func(a, b, c int, _ string) { cmplxs.NearestIdx(cseq(a), 2) },
	"cmplxs.Span":              func(a, b, c int, _ string) { cmplxs.Span(cseq(a), 1, 2) },
	"cmplxs.LogSpan":           func(a, b, c int, _ string) { cmplxs.LogSpan(cseq(a), 1, 2) },
}

func runPanics(r *runner, c *pcase) {
	name := c.G + "/panic"
	if !want(c, name, "") {
		return
	}
	call, ok := panicCalls[c.G]
	r.count(c, name)
	if !ok {
		r.fail(c, name, 0, "", "binding", "no binding for "+c.G)
		return
	}
	o := core.Call(func() { call(c.Lens[0], c.Lens[1], c.Lens[2], c.Cls[0]) })
	if o.Panicked != c.B {
		r.fail(c, name, 0, "", "contract", fmt.Sprintf("lengths %v (rule %s): panicked=%v (%s), documented: %v", c.Lens, c.Cls[0], o.Panicked, o.Text, c.B))
	}
}
