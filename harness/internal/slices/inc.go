package slices

import (
	"fmt"

	"gonum.org/v1/gonum/blas/gonum"

	"gonum.org/v1/gonum/verifharness/internal/core"
)

// strided (BLAS level 1) forms. The specification prints whole backing arrays (guard value 777
// between the addressed elements), so the storage map is the spec's, not the harness's.

type incBind[T num] struct {
	name string
	// vec: y (or x for scal) is overwritten; otherwise a scalar is returned
	call func(n int, a T, x []T, incx int, y []T, incy int) float64
}

var bl gonum.Implementation

var inc64 = map[string][]incBind[float64]{
	"Axpy": {{"blas.Daxpy", func(n int, a float64, x []float64, ix int, y []float64, iy int) float64 {
		bl.Daxpy(n, a, x, ix, y, iy)
		return 0
	}}},
	"DotInc": {{"blas.Ddot", func(n int, a float64, x []float64, ix int, y []float64, iy int) float64 {
		return bl.Ddot(n, x, ix, y, iy)
	}}},
	"ScalInc": {{"blas.Dscal", func(n int, a float64, x []float64, ix int, y []float64, iy int) float64 {
		bl.Dscal(n, a, x, ix)
		return 0
	}}},
	"AsumInc": {{"blas.Dasum", func(n int, a float64, x []float64, ix int, y []float64, iy int) float64 { return bl.Dasum(n, x, ix) }}},
	"Nrm2Inc": {{"blas.Dnrm2", func(n int, a float64, x []float64, ix int, y []float64, iy int) float64 { return bl.Dnrm2(n, x, ix) }}},
}

var inc32 = map[string][]incBind[float32]{
	"Axpy": {{"blas.Saxpy", func(n int, a float32, x []float32, ix int, y []float32, iy int) float64 {
		bl.Saxpy(n, a, x, ix, y, iy)
		return 0
	}}},
	"DotInc": {{"blas.Sdot", func(n int, a float32, x []float32, ix int, y []float32, iy int) float64 {
		return float64(bl.Sdot(n, x, ix, y, iy))
	}},
		{"blas.Dsdot", func(n int, a float32, x []float32, ix int, y []float32, iy int) float64 {
			return bl.Dsdot(n, x, ix, y, iy)
		}},
		{"blas.Sdsdot", func(n int, a float32, x []float32, ix int, y []float32, iy int) float64 {
			return float64(bl.Sdsdot(n, 0, x, ix, y, iy))
		}}},
	"ScalInc": {{"blas.Sscal", func(n int, a float32, x []float32, ix int, y []float32, iy int) float64 {
		bl.Sscal(n, a, x, ix)
		return 0
	}}},
	"AsumInc": {{"blas.Sasum", func(n int, a float32, x []float32, ix int, y []float32, iy int) float64 {
		return float64(bl.Sasum(n, x, ix))
	}}},
	"Nrm2Inc": {{"blas.Snrm2", func(n int, a float32, x []float32, ix int, y []float32, iy int) float64 {
		return float64(bl.Snrm2(n, x, ix))
	}}},
}

func runInc(r *runner, c *pcase) {
	switch c.F {
	case "Axpy", "DotInc", "ScalInc", "AsumInc", "Nrm2Inc":
	default:
		return
	}
	runIncT(r, c, inc64[c.F], c.E, 52, -1074)
	runIncT(r, c, inc32[c.F], c.E32, 23, -149)
}

func runIncT[T num](r *runner, c *pcase, binds []incBind[T], e, p, tiny int) {
	if c.F != "Nrm2Inc" {
		e = 0
	}
	for _, b := range binds {
		if !want(c, b.name, "") {
			continue
		}
		for _, off := range r.offsets(c) {
			bx := place(decvGuard[T](c.X, e), off)
			by := place(decvGuard[T](c.Y, 0), yoff(off))
			var s float64
			o := core.Call(func() { s = b.call(c.N, dec[T](c.A, 0), bx.view, c.IncX, by.view, c.IncY) })
			r.sum.Cases++
			if c.N > 0 {
				r.sum.Nontrivial++
			}
			r.sum.Count("calls:"+b.name, 1)
			if o.Panicked {
				r.fail(c, b.name, off, "", "panic", "panicked on valid arguments: "+o.Text)
				continue
			}
			bad := ""
			wx, wy := c.X, c.Y
			switch c.F {
			case "Axpy":
				wy = c.W
			case "ScalInc":
				wx = c.W
			case "DotInc", "AsumInc":
				if !same(s, c.S, 0) {
					bad = fmt.Sprintf("got %v want(spec) %d", s, c.S)
				}
			case "Nrm2Inc":
				bad = normBad(c, s, e, p, tiny)
			}
			if bad == "" {
				if i, ok := sameVecGuard(bx.view, wx, e); !ok {
					bad = fmt.Sprintf("x backing array differs from spec at %d: %s", i, show(bx.view))
				} else if i, ok := sameVecGuard(by.view, wy, 0); !ok {
					bad = fmt.Sprintf("y backing array differs from spec at %d: %s", i, show(by.view))
				} else if !bx.intact() || !by.intact() {
					bad = "wrote outside the backing arrays"
				}
			}
			if bad != "" {
				r.fail(c, b.name, off, "", "value", fmt.Sprintf("incx=%d incy=%d a=%d: %s", c.IncX, c.IncY, c.A, bad))
			}
		}
	}
}

const guardCode = 777

// guard elements are not scaled by 2^e
func decvGuard[T num](cs []int64, e int) []T {
	out := make([]T, len(cs))
	for i, v := range cs {
		if v == guardCode {
			out[i] = dec[T](v, 0)
		} else {
			out[i] = dec[T](v, e)
		}
	}
	return out
}

func sameVecGuard[T num](got []T, want []int64, e int) (int, bool) {
	if len(got) != len(want) {
		return -1, false
	}
	for i := range got {
		ee := e
		if want[i] == guardCode {
			ee = 0
		}
		if !same(got[i], want[i], ee) {
			return i, false
		}
	}
	return 0, true
}
