package slices

import "math"

// Complex families whose COMPONENTS are extended integers (SlicePrims.tla, ZCase; spec function
// names "ZC..."). They run through the bindings of the finite complex families (cplx.go, kern.go:
// cmplxs, BLAS level 1, the c128 / c64 kernels); only the comparison differs:
//
//   - a position the specification lists in "opn" (the Go product formula gives NaN+NaNi although a
//     factor is infinite; a product with the C99 Annex G recovery step returns an infinity) accepts
//     every value that is not finite in both components;
//   - families that copy a component or combine it with a REAL scalar (czBits) are compared
//     bit for bit, so the sign of a zero component is part of the expectation; the others
//     numerically per component (NaN by IsNaN, -0 = +0), as the finite complex families are;
//   - "wk" is never accepted: when a result differs from the expectation but equals wk, the
//     failure gets the kind "axpyform" instead of "value" (one named departure, one signature).
var czBits = map[string]bool{"CScaleReal": true, "CScaleRealTo": true, "CDscal": true, "CAddConst": true,
	"CReal": true, "CImag": true, "CComplex": true}

func nonFinite(v float64) bool { return math.IsNaN(v) || math.IsInf(v, 0) }

// czSameVec compares a complex vector with the specification's interleaved expectation.
func czSameVec[T cnum](c *pcase, got []T, want []int64) (int, bool) {
	if !c.CZ {
		return csameVec(got, want, 0)
	}
	if 2*len(got) != len(want) {
		return -1, false
	}
	var open map[int]bool
	if len(c.Opn) > 0 {
		open = make(map[int]bool, len(c.Opn))
		for _, p := range c.Opn {
			open[p-1] = true
		}
	}
	for i := range got {
		g := complex128(got[i])
		switch {
		case open[i]:
			if !nonFinite(real(g)) && !nonFinite(imag(g)) {
				return i, false
			}
		case czBits[c.F]:
			if !same(real(g), want[2*i], 0) || !same(imag(g), want[2*i+1], 0) {
				return i, false
			}
		default:
			if !csame(got[i], want[2*i], want[2*i+1], 0) {
				return i, false
			}
		}
	}
	return 0, true
}

// czKind names the failure: "axpyform" when the whole result equals the departure the
// specification printed in wk (compared numerically, no open positions), "value" otherwise.
func czKind[T cnum](c *pcase, got []T) string {
	if c.CZ && len(c.WK) > 0 {
		if _, ok := csameVec(got, c.WK, 0); ok {
			return "axpyform"
		}
	}
	return "value"
}

// calpha decodes the complex scalar (components may be special-value codes).
func calpha[T cnum](c *pcase) T {
	return T(complex(dec[float64](c.A, 0), dec[float64](c.AI, 0)))
}

// czIncSame compares a strided backing array; out marks the array the call writes (the open
// positions and the bitwise rule apply to it only).
func czIncSame[T cnum](c *pcase, got []T, want []int64, e int, out bool) (int, bool) {
	if !c.CZ || !out {
		return csameVec(got, want, e)
	}
	return czSameVec(c, got, want)
}
