package slices

import (
	"fmt"

	"gonum.org/v1/gonum/floats"
	"gonum.org/v1/gonum/mat"
	"gonum.org/v1/gonum/spatial/r2"
	"gonum.org/v1/gonum/spatial/r3"

	"gonum.org/v1/gonum/verifharness/internal/core"
)

func fl(c []int64) []float64 {
	out := make([]float64, len(c))
	for i, v := range c {
		out[i] = float64(v)
	}
	return out
}

func v3(c []int64) r3.Vec   { return r3.Vec{X: float64(c[0]), Y: float64(c[1]), Z: float64(c[2])} }
func v2(c []int64) r2.Vec   { return r2.Vec{X: float64(c[0]), Y: float64(c[1])} }
func a3(v r3.Vec) []float64 { return []float64{v.X, v.Y, v.Z} }
func a2(v r2.Vec) []float64 { return []float64{v.X, v.Y} }

func matVals(m mat.Matrix) []float64 {
	out := make([]float64, 0, 9)
	for i := 0; i < 3; i++ {
		for j := 0; j < 3; j++ {
			out = append(out, m.At(i, j))
		}
	}
	return out
}

// runSpatial binds the fixed-size helpers of spatial/r2 and spatial/r3 (integer data, numeric
// comparison). The 3x3 matrix results are read back both through At and through RawMatrix, so
// that the unsafe (array view) and safe builds are both compared with the specification.
func runSpatial(r *runner, c *pcase) {
	var outv, outv2 []float64
	var outs float64
	scalar := false
	name := ""
	a := float64(c.A)
	call := func(n string, f func()) core.Outcome { name = n; return core.Call(f) }
	var o core.Outcome
	switch c.F {
	case "R3Add":
		o = call("r3.Add", func() { outv = a3(r3.Add(v3(c.X), v3(c.Y))) })
	case "R3Sub":
		o = call("r3.Sub", func() { outv = a3(r3.Sub(v3(c.X), v3(c.Y))) })
	case "R3Scale":
		o = call("r3.Scale", func() { outv = a3(r3.Scale(a, v3(c.X))) })
	case "R3Dot":
		scalar = true
		o = call("r3.Dot", func() { outs = r3.Dot(v3(c.X), v3(c.Y)) })
	case "R3Cross":
		o = call("r3.Cross", func() { outv = a3(r3.Cross(v3(c.X), v3(c.Y))) })
	case "R3Norm2":
		scalar = true
		o = call("r3.Norm2", func() { outs = r3.Norm2(v3(c.X)) })
	case "R2Add":
		o = call("r2.Add", func() { outv = a2(r2.Add(v2(c.X), v2(c.Y))) })
	case "R2Sub":
		o = call("r2.Sub", func() { outv = a2(r2.Sub(v2(c.X), v2(c.Y))) })
	case "R2Scale":
		o = call("r2.Scale", func() { outv = a2(r2.Scale(a, v2(c.X))) })
	case "R2Dot":
		scalar = true
		o = call("r2.Dot", func() { outs = r2.Dot(v2(c.X), v2(c.Y)) })
	case "R2Cross":
		scalar = true
		o = call("r2.Cross", func() { outs = r2.Cross(v2(c.X), v2(c.Y)) })
	case "R2Norm2":
		scalar = true
		o = call("r2.Norm2", func() { outs = r2.Norm2(v2(c.X)) })
	case "R3MatMulVec":
		o = call("r3.Mat.MulVec", func() { outv = a3(r3.NewMat(fl(c.X)).MulVec(v3(c.Y))) })
	case "R3MatMulVecTrans":
		o = call("r3.Mat.MulVecTrans", func() { outv = a3(r3.NewMat(fl(c.X)).MulVecTrans(v3(c.Y))) })
	case "R3MatAdd", "R3MatSub", "R3MatMul":
		// operands as r3.Mat and as general mat.Matrix values
		o = call("r3.Mat."+c.F[5:], func() {
			for k := 0; k < 2; k++ {
				var A, B mat.Matrix = r3.NewMat(fl(c.X)), r3.NewMat(fl(c.Y))
				if k == 1 {
					A, B = mat.NewDense(3, 3, fl(c.X)), mat.NewDense(3, 3, fl(c.Y))
				}
				m := r3.NewMat(nil)
				switch c.F {
				case "R3MatAdd":
					m.Add(A, B)
				case "R3MatSub":
					m.Sub(A, B)
				default:
					m.Mul(A, B)
				}
				if k == 0 {
					outv = matVals(m)
				} else {
					outv2 = matVals(m)
				}
			}
		})
	case "R3MatScale":
		o = call("r3.Mat.Scale", func() {
			m := r3.NewMat(nil)
			m.Scale(a, r3.NewMat(fl(c.X)))
			outv = matVals(m)
			raw := m.RawMatrix()
			outv2 = append([]float64(nil), raw.Data...)
			if raw.Rows != 3 || raw.Cols != 3 || raw.Stride != 3 {
				outv2 = nil
			}
		})
	case "R3MatDet":
		scalar = true
		o = call("r3.Mat.Det", func() { outs = r3.NewMat(fl(c.X)).Det() })
	case "R3MatOuter":
		o = call("r3.Mat.Outer", func() {
			m := r3.NewMat(nil)
			m.Outer(a, v3(c.X), v3(c.Y))
			outv = matVals(m)
		})
	case "R3MatSkew":
		o = call("r3.Mat.Skew", func() {
			m := r3.NewMat(nil)
			m.Skew(v3(c.X))
			outv = matVals(m)
			outv2 = matVals(r3.Skew(v3(c.X)))
		})
	case "R3MatT":
		o = call("r3.Mat.T", func() { outv = matVals(r3.NewMat(fl(c.X)).T()) })
	case "R3VecRow":
		o = call("r3.Mat.VecRow", func() { outv = a3(r3.NewMat(fl(c.X)).VecRow(int(c.K))) })
	case "R3VecCol":
		o = call("r3.Mat.VecCol", func() { outv = a3(r3.NewMat(fl(c.X)).VecCol(int(c.K))) })
	default:
		return
	}
	if !want(c, name, "") {
		return
	}
	r.sum.Cases++
	r.sum.Nontrivial++
	r.sum.Count("calls:"+name, 1)
	switch {
	case o.Panicked:
		r.fail(c, name, 0, "", "panic", "panicked on valid arguments: "+o.Text)
	case scalar:
		if outs != float64(c.S) {
			r.fail(c, name, 0, "", "value", fmt.Sprintf("x=%v y=%v: got %v want(spec) %d", c.X, c.Y, outs, c.S))
		}
	default:
		if i, ok := sameVecNum(outv, c.W); !ok {
			r.fail(c, name, 0, "", "value", fmt.Sprintf("x=%v y=%v a=%d: differs at %d: got %v want(spec) %v", c.X, c.Y, c.A, i, outv, c.W))
		} else if outv2 != nil {
			if i, ok := sameVecNum(outv2, c.W); !ok {
				r.fail(c, name, 0, "", "value", fmt.Sprintf("x=%v y=%v a=%d (second form): differs at %d: got %v want(spec) %v", c.X, c.Y, c.A, i, outv2, c.W))
			}
		} else if c.F == "R3MatScale" {
			r.fail(c, name, 0, "", "value", "RawMatrix is not a 3x3 stride-3 view")
		}
	}
}

// runBool binds the boolean helpers of floats and Reverse.
func runBool(r *runner, c *pcase) {
	switch c.F {
	case "EqualSame":
		for _, off := range r.offsets(c) {
			if !want(c, "floats.Equal/Same/HasNaN", "") {
				continue
			}
			bx := place(decv[float64](c.X, 0), off)
			by := place(decv[float64](c.Y, 0), yoff(off))
			var eq, sm, hn, el bool
			o := core.Call(func() {
				eq, sm, hn = floats.Equal(bx.view, by.view), floats.Same(bx.view, by.view), floats.HasNaN(bx.view)
				el = floats.EqualLengths(bx.view, by.view, bx.view)
			})
			r.count(c, "floats.Equal/Same/HasNaN")
			bad := ""
			switch {
			case o.Panicked:
				bad = "panicked: " + o.Text
			case eq != c.B:
				bad = fmt.Sprintf("Equal=%v, spec %v", eq, c.B)
			case sm != (c.K == 1):
				bad = fmt.Sprintf("Same=%v, spec %v", sm, c.K == 1)
			case hn != (c.S == 1):
				bad = fmt.Sprintf("HasNaN=%v, spec %v", hn, c.S == 1)
			}
			if bad == "" && !el {
				bad = "EqualLengths=false on equal lengths"
			}
			if bad != "" {
				r.fail(c, "floats.Equal/Same/HasNaN", off, "", "value", bad)
			}
		}
	case "Reverse":
		for _, off := range r.offsets(c) {
			if !want(c, "floats.Reverse", "") {
				continue
			}
			bx := place(decv[float64](c.X, 0), off)
			o := core.Call(func() { floats.Reverse(bx.view) })
			r.count(c, "floats.Reverse")
			if o.Panicked {
				r.fail(c, "floats.Reverse", off, "", "panic", o.Text)
			} else if i, ok := sameVec(bx.view, c.W, 0); !ok || !bx.intact() {
				r.fail(c, "floats.Reverse", off, "", "value", fmt.Sprintf("differs at %d: %s", i, show(bx.view)))
			}
		}
	}
}
