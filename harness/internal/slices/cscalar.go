package slices

import (
	"encoding/json"
	"fmt"
	"math"
	"math/big"
	"math/cmplx"

	"gonum.org/v1/gonum/cmplxs/cscalar"
	"gonum.org/v1/gonum/floats/scalar"

	"gonum.org/v1/gonum/verifharness/internal/core"
)

// Binding of specs/slices/CScalar.tla to cmplxs/cscalar (and the number grammar of
// floats/scalar.ParseWithNA). Verdicts "T"/"F" are compared, "O" (the documentation or exact
// arithmetic leaves the answer open) is only executed.

func init() {
	core.RegisterReplay("cscalar", replayCScalar)
}

type csRat struct {
	N int64 `json:"n"`
	D int64 `json:"d"`
}

func (q csRat) val() float64 {
	if q.D == 0 {
		return 0
	}
	f, _ := new(big.Rat).SetFrac64(q.N, q.D).Float64() // the float64 nearest to the rational
	return f
}

type csNumDen struct {
	Num int64 `json:"num"`
	Den int64 `json:"den"`
}

type csCase struct {
	K string `json:"k"`
	// eq
	A    json.RawMessage `json:"a"`
	B    json.RawMessage `json:"b"`
	Ta   int64           `json:"ta"`
	Tr   int64           `json:"tr"`
	Abs  string          `json:"abs"`
	Rel  string          `json:"rel"`
	Both string          `json:"both"`
	Same bool            `json:"same"`
	// round
	Re   int64           `json:"re"`
	Im   int64           `json:"im"`
	J    uint            `json:"j"`
	Prec int             `json:"prec"`
	Even bool            `json:"even"`
	RRe  csNumDen        `json:"rre"`
	RIm  csNumDen        `json:"rim"`
	Zero bool            `json:"zero"`
	X    json.RawMessage `json:"x"`
	Cls  string          `json:"cls"`
	// parse
	S       string `json:"s"`
	Missing string `json:"missing"`
	R       struct {
		Cls string `json:"cls"`
		Re  csRat  `json:"re"`
		Im  csRat  `json:"im"`
		W   int64  `json:"w"`
	} `json:"r"`
	// set when the floats/scalar grammar is meant
	Float bool `json:"float,omitempty"`
}

// operand in quarter units (special codes unscaled)
func quarter(raw json.RawMessage) (complex128, error) {
	var p []int64
	if err := json.Unmarshal(raw, &p); err != nil || len(p) != 2 {
		return 0, fmt.Errorf("bad operand %s", raw)
	}
	f := func(c int64) float64 {
		if isSpecial(c) {
			return dec[float64](c, 0)
		}
		return float64(c) / 4
	}
	return complex(f(p[0]), f(p[1])), nil
}

func verdictBad(got bool, want string) bool {
	return (want == "T" && !got) || (want == "F" && got)
}

var specialFloat = map[string]float64{"+0": 0, "-0": math.Copysign(0, -1), "+Inf": math.Inf(1), "-Inf": math.Inf(-1),
	"NaN": math.NaN(), "0.5": 0.5, "1.5": 1.5, "2.5": 2.5}

func replayCScalar(in *core.Lines, args []string, seed int64, sum *core.Summary) error {
	float := false
	for _, a := range args {
		if a == "float" {
			float = true
		}
	}
	for {
		b, ok := in.Next()
		if !ok {
			break
		}
		var c csCase
		if err := json.Unmarshal(b, &c); err != nil {
			return fmt.Errorf("line %d: %v", in.N, err)
		}
		if float {
			c.Float = true
		}
		sum.Cases++
		if sum.Cases%1500 == 7 {
			sum.Sample(json.RawMessage(append([]byte(nil), b...)))
		}
		var err error
		o := core.Call(func() { err = cscalarCase(&c, sum) })
		if err != nil {
			return fmt.Errorf("line %d: %v", in.N, err)
		}
		if o.Panicked {
			sum.Fail("cscalar:"+c.K+":panic", o.Text, c)
		}
	}
	return nil
}

func cscalarCase(c *csCase, sum *core.Summary) error {
	fail := func(sig, msg string) { sum.Fail(sig, msg, c) }
	switch c.K {
	case "eq":
		a, err := quarter(c.A)
		if err != nil {
			return err
		}
		b, err := quarter(c.B)
		if err != nil {
			return err
		}
		ta, tr := float64(c.Ta)/4, float64(c.Tr)/4
		if c.Abs != "O" || c.Rel != "O" {
			sum.Nontrivial++
		}
		if g := cscalar.EqualWithinAbs(a, b, ta); verdictBad(g, c.Abs) {
			fail("cscalar:EqualWithinAbs", fmt.Sprintf("EqualWithinAbs(%v, %v, %v) = %v, specification %s", a, b, ta, g, c.Abs))
		}
		if g := cscalar.EqualWithinRel(a, b, tr); verdictBad(g, c.Rel) {
			fail("cscalar:EqualWithinRel", fmt.Sprintf("EqualWithinRel(%v, %v, %v) = %v, specification %s", a, b, tr, g, c.Rel))
		}
		if g := cscalar.EqualWithinAbsOrRel(a, b, ta, tr); verdictBad(g, c.Both) {
			fail("cscalar:EqualWithinAbsOrRel", fmt.Sprintf("EqualWithinAbsOrRel(%v, %v, %v, %v) = %v, specification %s", a, b, ta, tr, g, c.Both))
		}
		if g := cscalar.Same(a, b); g != c.Same {
			fail("cscalar:Same", fmt.Sprintf("Same(%v, %v) = %v, specification %v", a, b, g, c.Same))
		}
		if c.Abs == "O" || c.Rel == "O" {
			sum.Count("open_not_compared", 1)
		}
	case "round":
		den := float64(uint64(1) << c.J)
		x := complex(float64(c.Re)/den, float64(c.Im)/den) // exact: small integers over a power of two
		wre, _ := new(big.Rat).SetFrac64(c.RRe.Num, c.RRe.Den).Float64()
		wim, _ := new(big.Rat).SetFrac64(c.RIm.Num, c.RIm.Den).Float64()
		name, got := "Round", cscalar.Round(x, c.Prec)
		if c.Even {
			name, got = "RoundEven", cscalar.RoundEven(x, c.Prec)
		}
		sum.Nontrivial++
		// == : the sign of a zero component of a non-zero x is not documented
		if real(got) != wre || imag(got) != wim {
			fail("cscalar:"+name, fmt.Sprintf("%s(%v, %d) = %v, specification (%v, %v)", name, x, c.Prec, got, wre, wim))
		} else if c.Zero && (math.Signbit(real(got)) || math.Signbit(imag(got))) {
			fail("cscalar:"+name+":zero", fmt.Sprintf("%s(0, %d) = %v with a sign bit set; documented: +0", name, c.Prec, got))
		}
	case "roundspecial":
		var xs []string
		if err := json.Unmarshal(c.X, &xs); err != nil || len(xs) != 2 {
			return fmt.Errorf("bad special %s", c.X)
		}
		x := complex(specialFloat[xs[0]], specialFloat[xs[1]])
		name, got := "Round", cscalar.Round(x, c.Prec)
		if c.Even {
			name, got = "RoundEven", cscalar.RoundEven(x, c.Prec)
		}
		sum.Nontrivial++
		ok := false
		switch c.Cls {
		case "zero": // Round(+-0) = +0
			ok = got == 0 && !math.Signbit(real(got)) && !math.Signbit(imag(got))
		case "inf":
			ok = cmplx.IsInf(got)
		case "nan":
			ok = math.IsNaN(real(got)) || math.IsNaN(imag(got))
		}
		if !ok {
			fail("cscalar:"+name+":special", fmt.Sprintf("%s(%v, %d) = %v, documented class %s", name, x, c.Prec, got, c.Cls))
		}
	case "parse":
		sum.Nontrivial++
		var v complex128
		var w float64
		var err error
		name := "cscalar.ParseWithNA"
		if c.Float {
			name = "scalar.ParseWithNA"
			var f float64
			f, w, err = scalar.ParseWithNA(c.S, c.Missing)
			v = complex(f, 0)
		} else {
			v, w, err = cscalar.ParseWithNA(c.S, c.Missing)
		}
		wantErr := c.R.Cls == "err"
		if err != nil && err.Error() == "" {
			fail("cscalar:ParseWithNA:err", fmt.Sprintf("%s(%q, %q): error with an empty message", name, c.S, c.Missing))
		}
		if (err != nil) != wantErr {
			fail("cscalar:ParseWithNA:err", fmt.Sprintf("%s(%q, %q) error %v, specification error=%v", name, c.S, c.Missing, err, wantErr))
			break
		}
		if wantErr { // value and weight of a failed parse are not documented
			break
		}
		ok := false
		switch c.R.Cls {
		case "fin":
			ok = real(v) == c.R.Re.val() && imag(v) == c.R.Im.val()
		case "nan":
			ok = math.IsNaN(real(v)) || math.IsNaN(imag(v))
		case "inf":
			ok = cmplx.IsInf(v)
		case "+inf":
			ok = math.IsInf(real(v), 1)
		case "-inf":
			ok = math.IsInf(real(v), -1)
		}
		if !ok || w != float64(c.R.W) {
			fail("cscalar:ParseWithNA", fmt.Sprintf("%s(%q, %q) = %v, weight %v; specification %s (%d/%d, %d/%d), weight %d", name, c.S, c.Missing, v, w,
				c.R.Cls, c.R.Re.N, c.R.Re.D, c.R.Im.N, c.R.Im.D, c.R.W))
		}
	default:
		return fmt.Errorf("unknown kind %q", c.K)
	}
	return nil
}
