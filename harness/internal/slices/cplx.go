package slices

import (
	"fmt"
	"unsafe"

	"gonum.org/v1/gonum/cmplxs"

	"gonum.org/v1/gonum/verifharness/internal/core"
)

// complex slices: the specification prints Gaussian integers as interleaved (re, im) pairs.
// Values are compared numerically per component (the sign of a complex zero is not part of any
// documented contract).

type cnum interface{ ~complex64 | ~complex128 }

func ccanary[T cnum]() T { return T(complex(-123456.5, 7.25)) }

type cbuf[T cnum] struct {
	all  []T
	view []T
	lo   int
}

func cplace[T cnum](vals []T, off int) *cbuf[T] {
	n := len(vals)
	all := make([]T, padFront+n+padBack)
	for i := range all {
		all[i] = ccanary[T]()
	}
	sz := int(unsafe.Sizeof(all[0]))
	addr := uintptr(unsafe.Pointer(&all[0]))
	lo := 0
	for (addr+uintptr(lo*sz))%64 != 0 {
		lo++
	}
	lo += off
	copy(all[lo:], vals)
	return &cbuf[T]{all: all, view: all[lo : lo+n], lo: lo}
}

func (b *cbuf[T]) intact() bool {
	for i, v := range b.all {
		if (i < b.lo || i >= b.lo+len(b.view)) && v != ccanary[T]() {
			return false
		}
	}
	return true
}

// cdecv builds a complex slice from interleaved integers, scaled by 2^e (guards unscaled).
func cdecv[T cnum](c []int64, e int) []T {
	out := make([]T, len(c)/2)
	for i := range out {
		ee := e
		if c[2*i] == guardCode && c[2*i+1] == guardCode {
			ee = 0
		}
		out[i] = T(complex(dec[float64](c[2*i], ee), dec[float64](c[2*i+1], ee)))
	}
	return out
}

func csame[T cnum](got T, re, im int64, e int) bool {
	w := complex128(T(complex(dec[float64](re, e), dec[float64](im, e))))
	g := complex128(got)
	eq := func(a, b float64) bool { return a == b || (a != a && b != b) }
	return eq(real(g), real(w)) && eq(imag(g), imag(w))
}

func csameVec[T cnum](got []T, want []int64, e int) (int, bool) {
	if 2*len(got) != len(want) {
		return -1, false
	}
	for i := range got {
		ee := e
		if want[2*i] == guardCode && want[2*i+1] == guardCode {
			ee = 0
		}
		if !csame(got[i], want[2*i], want[2*i+1], ee) {
			return i, false
		}
	}
	return 0, true
}

type cenvT[T cnum] struct {
	x, y, dst []T
	a         T
	outv      []T
	outs      T
}

type cenv = cenvT[complex128]

type cvbindT[T cnum] struct {
	name  string
	where string
	alias []string
	call  func(e *cenvT[T])
}

type cvbind = cvbindT[complex128]

var cvec = map[string][]cvbind{
	"CAdd":         {{"cmplxs.Add", "x", nil, func(e *cenv) { cmplxs.Add(e.x, e.y) }}},
	"CAddTo":       {{"cmplxs.AddTo", "dst", []string{"x", "y"}, func(e *cenv) { e.outv = cmplxs.AddTo(e.dst, e.x, e.y) }}},
	"CSub":         {{"cmplxs.Sub", "x", nil, func(e *cenv) { cmplxs.Sub(e.x, e.y) }}},
	"CSubTo":       {{"cmplxs.SubTo", "dst", []string{"x", "y"}, func(e *cenv) { e.outv = cmplxs.SubTo(e.dst, e.x, e.y) }}},
	"CMul":         {{"cmplxs.Mul", "x", nil, func(e *cenv) { cmplxs.Mul(e.x, e.y) }}},
	"CMulTo":       {{"cmplxs.MulTo", "dst", []string{"?x", "?y"}, func(e *cenv) { e.outv = cmplxs.MulTo(e.dst, e.x, e.y) }}},
	"CMulConj":     {{"cmplxs.MulConj", "x", nil, func(e *cenv) { cmplxs.MulConj(e.x, e.y) }}},
	"CMulConjTo":   {{"cmplxs.MulConjTo", "dst", []string{"?x", "?y"}, func(e *cenv) { e.outv = cmplxs.MulConjTo(e.dst, e.x, e.y) }}},
	"CDiv":         {{"cmplxs.Div", "x", nil, func(e *cenv) { cmplxs.Div(e.x, e.y) }}},
	"CDivTo":       {{"cmplxs.DivTo", "dst", []string{"?x", "?y"}, func(e *cenv) { e.outv = cmplxs.DivTo(e.dst, e.x, e.y) }}},
	"CAddConst":    {{"cmplxs.AddConst", "x", nil, func(e *cenv) { cmplxs.AddConst(e.a, e.x) }}},
	"CScale":       {{"cmplxs.Scale", "x", nil, func(e *cenv) { cmplxs.Scale(e.a, e.x) }}},
	"CScaleTo":     {{"cmplxs.ScaleTo", "dst", []string{"?x"}, func(e *cenv) { e.outv = cmplxs.ScaleTo(e.dst, e.a, e.x) }}},
	"CScaleReal":   {{"cmplxs.ScaleReal", "x", nil, func(e *cenv) { cmplxs.ScaleReal(real(e.a), e.x) }}},
	"CScaleRealTo": {{"cmplxs.ScaleRealTo", "dst", []string{"?x"}, func(e *cenv) { e.outv = cmplxs.ScaleRealTo(e.dst, real(e.a), e.x) }}},
	"CAddScaled":   {{"cmplxs.AddScaled", "y", nil, func(e *cenv) { cmplxs.AddScaled(e.y, e.a, e.x) }}},
	"CAddScaledTo": {{"cmplxs.AddScaledTo", "dst", []string{"x", "y"}, func(e *cenv) { e.outv = cmplxs.AddScaledTo(e.dst, e.y, e.a, e.x) }}},
	"CCumSum":      {{"cmplxs.CumSum", "dst", []string{"x"}, func(e *cenv) { e.outv = cmplxs.CumSum(e.dst, e.x) }}},
	"CCumProd":     {{"cmplxs.CumProd", "dst", []string{"x"}, func(e *cenv) { e.outv = cmplxs.CumProd(e.dst, e.x) }}},
}

type csbindT[T cnum] struct {
	name string
	call func(e *cenvT[T])
}

var cscal = map[string][]csbindT[complex128]{
	"CSum":  {{"cmplxs.Sum", func(e *cenv) { e.outs = cmplxs.Sum(e.x) }}},
	"CProd": {{"cmplxs.Prod", func(e *cenv) { e.outs = cmplxs.Prod(e.x) }}},
	"CDot":  {{"cmplxs.Dot", func(e *cenv) { e.outs = cmplxs.Dot(e.x, e.y) }}},
}

// isoCall names the configurations that fault in the assembly build (out-of-bounds loop, the process
// dies): they are not executed here but one at a time in a process of their own (replay argument
// "iso", see tools/props/C08.py), where the death of the process is the observation.
//
//	c64.AxpyUnitaryTo, one element, y not 16-byte aligned: after the alignment step the remaining
//	count is 0 and the kernel enters its do-while tail loop.
func isoCall[T cnum](name string, x, y []T) bool {
	return name == "c64.AxpyUnitaryTo" && len(x) == 1 && len(y) == 1 && uintptr(unsafe.Pointer(&y[0]))%16 != 0
}

// coff maps the offset sweep 0..7 onto the elements of one 64-byte line of T
func coff[T cnum](off int) int {
	var z T
	return off % (64 / int(unsafe.Sizeof(z)))
}

func runCScal[T cnum](r *runner, c *pcase, binds []csbindT[T]) {
	for _, b := range binds {
		if !want(c, b.name, "") {
			continue
		}
		for _, off := range r.offsets(c) {
			bx := cplace(cdecv[T](c.X, 0), coff[T](off))
			by := cplace(cdecv[T](c.Y, 0), coff[T](yoff(off)))
			en := &cenvT[T]{x: bx.view, y: by.view}
			o := core.Call(func() { b.call(en) })
			r.count(c, b.name)
			bad := ""
			switch {
			case o.Panicked:
				r.fail(c, b.name, off, "", "panic", "panicked on valid arguments: "+o.Text)
				continue
			case !csame(en.outs, c.S, c.SI, 0):
				bad = fmt.Sprintf("got %v want(spec) (%d%+di)", en.outs, c.S, c.SI)
			case !bx.intact() || !by.intact():
				bad = "wrote outside the operands"
			}
			if _, ok := csameVec(bx.view, c.X, 0); !ok && bad == "" {
				bad = "input x modified"
			}
			if _, ok := csameVec(by.view, c.Y, 0); !ok && bad == "" {
				bad = "input y modified"
			}
			if bad != "" {
				r.fail(c, b.name, off, "", "value", bad)
			}
		}
	}
}

func runComplex(r *runner, c *pcase) {
	if b, ok := cvec[c.F]; ok {
		runCVecT(r, c, b)
	}
	if b, ok := cvec64[c.F]; ok {
		runCVecT(r, c, b)
	}
	if b, ok := cscal[c.F]; ok {
		runCScal(r, c, b)
	}
	if b, ok := cscal64[c.F]; ok {
		runCScal(r, c, b)
	}
	switch c.F {
	case "CReal", "CImag", "CComplex", "CMaxAbsIdx", "CMinAbsIdx", "CNorm2":
		runCMisc(r, c)
	case "CAxpy", "CDotu", "CDotc", "CScal", "CDscal", "CAsum", "CNrm2":
		runCInc(r, c)
	}
}

func (r *runner) count(c *pcase, name string) {
	r.sum.Cases++
	if c.N > 0 {
		r.sum.Nontrivial++
	}
	r.sum.Count("calls:"+name, 1)
}

func runCVecT[T cnum](r *runner, c *pcase, binds []cvbindT[T]) {
	for _, b := range binds {
		modes := []string{"fresh"}
		if b.where != "dst" {
			modes = []string{"inplace"}
		}
		for _, a := range b.alias {
			modes = append(modes, "dst="+a)
		}
		for _, mode := range modes {
			soft := len(mode) > 4 && mode[4] == '?'
			if !want(c, b.name, mode) {
				continue
			}
			for _, off := range r.offsets(c) {
				bx := cplace(cdecv[T](c.X, 0), coff[T](off))
				by := cplace(cdecv[T](c.Y, 0), coff[T](yoff(off)))
				var bd *cbuf[T]
				en := &cenvT[T]{x: bx.view, y: by.view, a: calpha[T](c)}
				var res []T
				switch {
				case b.where == "x":
					res = bx.view
				case b.where == "y":
					res = by.view
				case mode == "fresh":
					fill := make([]T, len(c.W)/2)
					for i := range fill {
						fill[i] = ccanary[T]()
					}
					bd = cplace(fill, coff[T](doff(off)))
					en.dst, res = bd.view, bd.view
				case mode[len(mode)-1] == 'x':
					en.dst, res = bx.view, bx.view
				default:
					en.dst, res = by.view, by.view
				}
				if !r.iso && isoCall(b.name, en.x, en.y) {
					r.sum.Count("deferred-to-isolated-process:"+b.name, 1)
					continue
				}
				o := core.Call(func() { b.call(en) })
				r.count(c, b.name)
				if o.Panicked {
					r.fail(c, b.name, off, mode, "panic", "panicked on valid arguments: "+o.Text)
					continue
				}
				bad := ""
				kind := "value"
				if i, ok := czSameVec(c, res, c.W); !ok {
					bad = fmt.Sprintf("result differs at %d: got %v want(spec, interleaved) %v", i, res, c.W)
					kind = czKind(c, res)
				} else if en.outv != nil && (len(en.outv) != len(res) || (len(res) > 0 && &en.outv[0] != &res[0])) {
					bad = "returned slice is not the destination"
				} else if !bx.intact() || !by.intact() || (bd != nil && !bd.intact()) {
					bad = "wrote outside the addressed elements"
				} else {
					if len(res) == 0 || len(bx.view) == 0 || &res[0] != &bx.view[0] {
						if i, ok := csameVec(bx.view, c.X, 0); !ok {
							bad = fmt.Sprintf("source x modified at %d", i)
						}
					}
					if len(res) == 0 || len(by.view) == 0 || &res[0] != &by.view[0] {
						if i, ok := csameVec(by.view, c.Y, 0); !ok {
							bad = fmt.Sprintf("source y modified at %d", i)
						}
					}
				}
				if bad != "" {
					if soft {
						k := b.name + " " + mode
						if !r.noted[k] {
							r.noted[k] = true
							r.sum.Count("undocumented-alias-differs:"+k, 1)
						}
						continue
					}
					r.fail(c, b.name, off, mode, kind, bad)
				}
			}
		}
	}
}

func runCMisc(r *runner, c *pcase) {
	name := map[string]string{"CReal": "cmplxs.Real", "CImag": "cmplxs.Imag", "CComplex": "cmplxs.Complex",
		"CMaxAbsIdx": "cmplxs.MaxAbsIdx", "CMinAbsIdx": "cmplxs.MinAbsIdx", "CNorm2": "cmplxs.Norm(2)"}[c.F]
	if !want(c, name, "") {
		return
	}
	for _, off := range r.offsets(c) {
		bad := ""
		var o core.Outcome
		switch c.F {
		case "CReal", "CImag":
			bx := cplace(cdecv[complex128](c.X, 0), off%4)
			bd := place(make([]float64, c.N), yoff(off))
			var ret []float64
			o = core.Call(func() {
				if c.F == "CReal" {
					ret = cmplxs.Real(bd.view, bx.view)
				} else {
					ret = cmplxs.Imag(bd.view, bx.view)
				}
			})
			if !o.Panicked {
				i, ok := sameVecNum(bd.view, c.W)
				if c.CZ { // components may be special values: bit for bit
					i, ok = sameVec(bd.view, c.W, 0)
				}
				if !ok {
					bad = fmt.Sprintf("differs at %d: %s", i, show(bd.view))
				} else if len(ret) != c.N || (c.N > 0 && &ret[0] != &bd.view[0]) {
					bad = "returned slice is not dst"
				} else if !bd.intact() || !bx.intact() {
					bad = "wrote outside dst"
				}
			}
		case "CComplex":
			bx := place(decv[float64](c.X, 0), off)
			by := place(decv[float64](c.Y, 0), yoff(off))
			bd := cplace(make([]complex128, c.N), doff(off)%4)
			o = core.Call(func() { cmplxs.Complex(bd.view, bx.view, by.view) })
			if !o.Panicked {
				if i, ok := czSameVec(c, bd.view, c.W); !ok {
					bad = fmt.Sprintf("differs at %d: %v", i, bd.view)
				} else if !bd.intact() || !bx.intact() || !by.intact() {
					bad = "wrote outside dst"
				}
			}
		case "CMaxAbsIdx", "CMinAbsIdx":
			bx := cplace(cdecv[complex128](c.X, 0), off%4)
			var gi int
			o = core.Call(func() {
				if c.F == "CMaxAbsIdx" {
					gi = cmplxs.MaxAbsIdx(bx.view)
				} else {
					gi = cmplxs.MinAbsIdx(bx.view)
				}
			})
			if !o.Panicked && gi != int(c.K)-1 {
				bad = fmt.Sprintf("index %d, spec %d", gi, c.K-1)
			}
		case "CNorm2":
			bx := cplace(cdecv[complex128](c.X, c.E), off%4)
			var s float64
			o = core.Call(func() { s = cmplxs.Norm(bx.view, 2) })
			if !o.Panicked {
				bad = normBad(c, s, c.E, 52, -1074)
			}
		}
		r.count(c, name)
		if o.Panicked {
			r.fail(c, name, off, "", "panic", "panicked on valid arguments: "+o.Text)
		} else if bad != "" {
			r.fail(c, name, off, "", "value", bad)
		}
	}
}

// sameVecNum compares plain integers numerically
func sameVecNum(got []float64, want []int64) (int, bool) {
	if len(got) != len(want) {
		return -1, false
	}
	for i := range got {
		if got[i] != float64(want[i]) {
			return i, false
		}
	}
	return 0, true
}

type cincBind[T cnum] struct {
	name string
	call func(n int, a T, x []T, incx int, y []T, incy int) (complex128, float64)
}

var cinc128 = map[string][]cincBind[complex128]{
	"CAxpy": {{"blas.Zaxpy", func(n int, a complex128, x []complex128, ix int, y []complex128, iy int) (complex128, float64) {
		bl.Zaxpy(n, a, x, ix, y, iy)
		return 0, 0
	}}},
	"CDotu": {{"blas.Zdotu", func(n int, a complex128, x []complex128, ix int, y []complex128, iy int) (complex128, float64) {
		return bl.Zdotu(n, x, ix, y, iy), 0
	}}},
	"CDotc": {{"blas.Zdotc", func(n int, a complex128, x []complex128, ix int, y []complex128, iy int) (complex128, float64) {
		return bl.Zdotc(n, x, ix, y, iy), 0
	}}},
	"CScal": {{"blas.Zscal", func(n int, a complex128, x []complex128, ix int, y []complex128, iy int) (complex128, float64) {
		bl.Zscal(n, a, x, ix)
		return 0, 0
	}}},
	"CDscal": {{"blas.Zdscal", func(n int, a complex128, x []complex128, ix int, y []complex128, iy int) (complex128, float64) {
		bl.Zdscal(n, real(a), x, ix)
		return 0, 0
	}}},
	"CAsum": {{"blas.Dzasum", func(n int, a complex128, x []complex128, ix int, y []complex128, iy int) (complex128, float64) {
		return 0, bl.Dzasum(n, x, ix)
	}}},
	"CNrm2": {{"blas.Dznrm2", func(n int, a complex128, x []complex128, ix int, y []complex128, iy int) (complex128, float64) {
		return 0, bl.Dznrm2(n, x, ix)
	}}},
}

var cinc64 = map[string][]cincBind[complex64]{
	"CAxpy": {{"blas.Caxpy", func(n int, a complex64, x []complex64, ix int, y []complex64, iy int) (complex128, float64) {
		bl.Caxpy(n, a, x, ix, y, iy)
		return 0, 0
	}}},
	"CDotu": {{"blas.Cdotu", func(n int, a complex64, x []complex64, ix int, y []complex64, iy int) (complex128, float64) {
		return complex128(bl.Cdotu(n, x, ix, y, iy)), 0
	}}},
	"CDotc": {{"blas.Cdotc", func(n int, a complex64, x []complex64, ix int, y []complex64, iy int) (complex128, float64) {
		return complex128(bl.Cdotc(n, x, ix, y, iy)), 0
	}}},
	"CScal": {{"blas.Cscal", func(n int, a complex64, x []complex64, ix int, y []complex64, iy int) (complex128, float64) {
		bl.Cscal(n, a, x, ix)
		return 0, 0
	}}},
	"CDscal": {{"blas.Csscal", func(n int, a complex64, x []complex64, ix int, y []complex64, iy int) (complex128, float64) {
		bl.Csscal(n, real(a), x, ix)
		return 0, 0
	}}},
	"CAsum": {{"blas.Scasum", func(n int, a complex64, x []complex64, ix int, y []complex64, iy int) (complex128, float64) {
		return 0, float64(bl.Scasum(n, x, ix))
	}}},
	"CNrm2": {{"blas.Scnrm2", func(n int, a complex64, x []complex64, ix int, y []complex64, iy int) (complex128, float64) {
		return 0, float64(bl.Scnrm2(n, x, ix))
	}}},
}

func runCInc(r *runner, c *pcase) {
	runCIncT(r, c, cinc128[c.F], c.E, 52, -1074)
	runCIncT(r, c, cinc64[c.F], c.E32, 23, -149)
}

func runCIncT[T cnum](r *runner, c *pcase, binds []cincBind[T], e, p, tiny int) {
	if c.F != "CNrm2" {
		e = 0
	}
	for _, b := range binds {
		if !want(c, b.name, "") {
			continue
		}
		for _, off := range r.offsets(c) {
			bx := cplace(cdecv[T](c.X, e), off)
			by := cplace(cdecv[T](c.Y, 0), yoff(off))
			var z complex128
			var s float64
			a := calpha[T](c)
			o := core.Call(func() { z, s = b.call(c.N, a, bx.view, c.IncX, by.view, c.IncY) })
			r.count(c, b.name)
			if o.Panicked {
				r.fail(c, b.name, off, "", "panic", "panicked on valid arguments: "+o.Text)
				continue
			}
			bad := ""
			wx, wy := c.X, c.Y
			switch c.F {
			case "CAxpy":
				wy = c.W
			case "CScal", "CDscal":
				wx = c.W
			case "CDotu", "CDotc":
				if z != complex(float64(c.S), float64(c.SI)) {
					bad = fmt.Sprintf("got %v want(spec) (%d%+di)", z, c.S, c.SI)
				}
			case "CAsum":
				if !same(s, c.S, 0) {
					bad = fmt.Sprintf("got %v want(spec) %d", s, c.S)
				}
			case "CNrm2":
				bad = normBad(c, s, e, p, tiny)
			}
			if bad == "" {
				if i, ok := czIncSame(c, bx.view, wx, e, c.F == "CScal" || c.F == "CDscal"); !ok {
					bad = fmt.Sprintf("x backing array differs from spec at %d: %v", i, bx.view)
				} else if i, ok := czIncSame(c, by.view, wy, 0, c.F == "CAxpy"); !ok {
					bad = fmt.Sprintf("y backing array differs from spec at %d: %v", i, by.view)
				} else if !bx.intact() || !by.intact() {
					bad = "wrote outside the backing arrays"
				}
			}
			if bad != "" {
				r.fail(c, b.name, off, "", "value", fmt.Sprintf("incx=%d incy=%d a=(%d%+di): %s", c.IncX, c.IncY, c.A, c.AI, bad))
			}
		}
	}
}
