package slices

import (
	"encoding/json"
	"fmt"
	"math"

	"gonum.org/v1/gonum/floats"

	"gonum.org/v1/gonum/verifharness/internal/core"
)

// the predicate named IsPos in the specification
func isPos(v float64) bool { return v > 0 }

func in1(allow []int64, got int) bool {
	for _, a := range allow {
		if int(a)-1 == got {
			return true
		}
	}
	return false
}

// runIndex binds the search / ordering helpers. Results are indices; the spec prints 1-based
// indices (0 = "none") and, where the documentation leaves a choice, the set of allowed answers.
func runIndex(r *runner, c *pcase) {
	switch c.F {
	case "MaxIdx", "MinIdx", "NearestIdx", "Within", "Find", "Count", "Argsort", "ArgsortStable",
		"Span", "SpanEnds", "SpanEndsFin", "NearestIdxForSpan":
	default:
		return
	}
	var flat []int64
	var nested [][]int64
	if c.F == "Argsort" {
		if err := json.Unmarshal(c.Allow, &nested); err != nil {
			panic(err)
		}
	} else if len(c.Allow) > 0 {
		if err := json.Unmarshal(c.Allow, &flat); err != nil {
			panic(err)
		}
	}
	for _, off := range r.offsets(c) {
		if !want(c, "floats."+c.F, "") {
			continue
		}
		bx := place(decv[float64](c.X, 0), off)
		x := bx.view
		bad := ""
		var o core.Outcome
		switch c.F {
		case "MaxIdx", "MinIdx":
			var gi int
			var gv float64
			o = core.Call(func() {
				if c.F == "MaxIdx" {
					gi, gv = floats.MaxIdx(x), floats.Max(x)
				} else {
					gi, gv = floats.MinIdx(x), floats.Min(x)
				}
			})
			if !o.Panicked {
				if !in1(flat, gi) {
					bad = fmt.Sprintf("index %d, spec allows (1-based) %v", gi, flat)
				} else if !same(gv, c.S, 0) {
					bad = fmt.Sprintf("value %v, spec %v", gv, dec[float64](c.S, 0))
				}
			}
		case "NearestIdx":
			var gi int
			o = core.Call(func() { gi = floats.NearestIdx(x, dec[float64](c.A, 0)) })
			if !o.Panicked && !in1(flat, gi) {
				bad = fmt.Sprintf("index %d for v=%v, spec allows (1-based) %v", gi, dec[float64](c.A, 0), flat)
			}
		case "Within":
			var gi int
			o = core.Call(func() { gi = floats.Within(x, dec[float64](c.A, 0)) })
			if !o.Panicked {
				if c.K == 0 && gi >= 0 {
					bad = fmt.Sprintf("index %d but no interval contains v=%v", gi, dec[float64](c.A, 0))
				} else if c.K > 0 && gi != int(c.K)-1 {
					bad = fmt.Sprintf("index %d, spec %d (v=%v)", gi, c.K-1, dec[float64](c.A, 0))
				}
			}
		case "Find":
			var got []int
			var err error
			pre := []int{-7, -7, -7}
			if off%2 == 1 {
				pre = nil
			}
			o = core.Call(func() { got, err = floats.Find(pre, isPos, x, int(c.K)) })
			if !o.Panicked {
				if len(got) != len(c.IW) {
					bad = fmt.Sprintf("found %v, spec (1-based) %v", got, c.IW)
				} else {
					for i := range got {
						if got[i] != int(c.IW[i])-1 {
							bad = fmt.Sprintf("found %v, spec (1-based) %v", got, c.IW)
						}
					}
				}
				if bad == "" && (err != nil) != c.B {
					bad = fmt.Sprintf("error=%v, spec says error=%v (k=%d)", err, c.B, c.K)
				}
			}
		case "Count":
			var n int
			o = core.Call(func() { n = floats.Count(isPos, x) })
			if !o.Panicked && n != int(c.K) {
				bad = fmt.Sprintf("count %d, spec %d", n, c.K)
			}
		case "Argsort", "ArgsortStable":
			inds := make([]int, len(x))
			for i := range inds {
				inds[i] = -5
			}
			o = core.Call(func() {
				if c.F == "Argsort" {
					floats.Argsort(x, inds)
				} else {
					floats.ArgsortStable(x, inds)
				}
			})
			if !o.Panicked {
				if i, ok := sameVec(x, c.W, 0); !ok {
					bad = fmt.Sprintf("sorted values differ at %d: %s", i, show(x))
				} else if c.F == "ArgsortStable" {
					for i := range inds {
						if inds[i] != int(c.IW[i])-1 {
							bad = fmt.Sprintf("inds %v, spec (1-based) %v", inds, c.IW)
							break
						}
					}
				} else {
					seen := map[int]bool{}
					for i := range inds {
						if !in1(nested[i], inds[i]) || seen[inds[i]] {
							bad = fmt.Sprintf("inds %v: position %d not among the spec's allowed (1-based) %v or repeated", inds, i, nested[i])
							break
						}
						seen[inds[i]] = true
					}
				}
			}
		case "Span":
			bd := place(make([]float64, c.N), off)
			var ret []float64
			o = core.Call(func() { ret = floats.Span(bd.view, dec[float64](c.A, 0), dec[float64](c.K, 0)) })
			if !o.Panicked {
				if i, ok := sameVec(bd.view, c.W, 0); !ok {
					bad = fmt.Sprintf("differs at %d: %s", i, show(bd.view))
				} else if len(ret) != c.N || &ret[0] != &bd.view[0] {
					bad = "returned slice is not dst"
				} else if !bd.intact() {
					bad = "wrote outside dst"
				}
			}
		case "SpanEnds", "SpanEndsFin":
			bd := place(make([]float64, c.N), off)
			o = core.Call(func() { floats.Span(bd.view, dec[float64](c.X[0], 0), dec[float64](c.X[1], 0)) })
			if !o.Panicked {
				if !same(bd.view[0], c.X[0], 0) || !same(bd.view[c.N-1], c.X[1], 0) {
					bad = fmt.Sprintf("n=%d endpoints %v, %v; documented: first element l=%v, final element u=%v", c.N, bd.view[0], bd.view[c.N-1], dec[float64](c.X[0], 0), dec[float64](c.X[1], 0))
				} else if !bd.intact() {
					bad = "wrote outside dst"
				}
			}
		case "NearestIdxForSpan":
			var gi int
			o = core.Call(func() {
				gi = floats.NearestIdxForSpan(c.N, dec[float64](c.A, 0), dec[float64](c.K, 0), dec[float64](c.S, 0))
			})
			if !o.Panicked && !in1(flat, gi) {
				bad = fmt.Sprintf("index %d for n=%d l=%d u=%d v=%d, spec allows (1-based) %v", gi, c.N, c.A, c.K, c.S, flat)
			}
		}
		r.sum.Cases++
		r.sum.Nontrivial++
		r.sum.Count("calls:floats."+c.F, 1)
		if o.Panicked {
			r.fail(c, "floats."+c.F, off, "", "panic", "panicked on valid arguments: "+o.Text)
			continue
		}
		if bad == "" && !bx.intact() {
			bad = "wrote outside the operand"
		}
		if bad == "" && c.F != "Argsort" && c.F != "ArgsortStable" {
			if i, ok := sameVec(x, c.X, 0); !ok {
				bad = fmt.Sprintf("input modified at %d", i)
			}
		}
		if bad != "" {
			r.fail(c, "floats."+c.F, off, "", "value", bad)
		}
	}
	_ = math.Pi
}
