package slices

import (
	"gonum.org/v1/gonum/internal/asm/c128"
	"gonum.org/v1/gonum/internal/asm/c64"
	"gonum.org/v1/gonum/internal/asm/f32"
	"gonum.org/v1/gonum/internal/asm/f64"
)

// Kernels of internal/asm that no exported function of gonum calls (or calls only in one
// precision) are bound directly to the spec families whose scalar loop is their documentation:
// the kernel's doc comment IS the loop SlicePrims.tla states for the family. The harness module
// lives under the gonum.org/v1/gonum/ path prefix, so the internal packages are importable.

// float32 unit-stride families
var vec32 = map[string][]vbind[float32]{
	"ScaleTo": {{"f32.ScalUnitaryTo", "dst", []string{"?x"}, func(e *env[float32]) { f32.ScalUnitaryTo(e.dst, e.a, e.x) }}},
	"AddScaledTo": {{"f32.AxpyUnitaryTo", "dst", []string{"?x", "?y"}, func(e *env[float32]) {
		f32.AxpyUnitaryTo(e.dst, e.a, e.x, e.y)
	}}},
	"AddScaled": {{"f32.AxpyUnitary", "y", nil, func(e *env[float32]) { f32.AxpyUnitary(e.a, e.x, e.y) }}},
	"Scale":     {{"f32.ScalUnitary", "x", nil, func(e *env[float32]) { f32.ScalUnitary(e.a, e.x) }}},
}

var sc32 = map[string][]sbind[float32]{
	"Sum": {{"f32.Sum", func(e *env[float32]) { e.outs = float64(f32.Sum(e.x)) }}},
	"Dot": {{"f32.DotUnitary", func(e *env[float32]) { e.outs = float64(f32.DotUnitary(e.x, e.y)) }},
		{"f32.DdotUnitary", func(e *env[float32]) { e.outs = f32.DdotUnitary(e.x, e.y) }}},
}

var nrm32 = map[string][]sbind[float32]{
	"Norm2": {{"f32.L2NormUnitary", func(e *env[float32]) { e.outs = float64(f32.L2NormUnitary(e.x)) }}},
	"Dist2": {{"f32.L2DistanceUnitary", func(e *env[float32]) { e.outs = float64(f32.L2DistanceUnitary(e.x, e.y)) }}},
}

// complex64 unit-stride families (the complex128 ones are in cplx.go)
type cenv64 = cenvT[complex64]

var cvec64 = map[string][]cvbindT[complex64]{
	"CAdd":         {{"c64.Add", "x", nil, func(e *cenv64) { c64.Add(e.x, e.y) }}},
	"CAddConst":    {{"c64.AddConst", "x", nil, func(e *cenv64) { c64.AddConst(e.a, e.x) }}},
	"CCumSum":      {{"c64.CumSum", "dst", []string{"x"}, func(e *cenv64) { e.outv = c64.CumSum(e.dst, e.x) }}},
	"CCumProd":     {{"c64.CumProd", "dst", []string{"x"}, func(e *cenv64) { e.outv = c64.CumProd(e.dst, e.x) }}},
	"CDiv":         {{"c64.Div", "x", nil, func(e *cenv64) { c64.Div(e.x, e.y) }}},
	"CDivTo":       {{"c64.DivTo", "dst", []string{"?x", "?y"}, func(e *cenv64) { e.outv = c64.DivTo(e.dst, e.x, e.y) }}},
	"CScale":       {{"c64.ScalUnitary", "x", nil, func(e *cenv64) { c64.ScalUnitary(e.a, e.x) }}},
	"CScaleTo":     {{"c64.ScalUnitaryTo", "dst", []string{"?x"}, func(e *cenv64) { c64.ScalUnitaryTo(e.dst, e.a, e.x) }}},
	"CScaleReal":   {{"c64.SscalUnitary", "x", nil, func(e *cenv64) { c64.SscalUnitary(real(e.a), e.x) }}},
	"CAddScaled":   {{"c64.AxpyUnitary", "y", nil, func(e *cenv64) { c64.AxpyUnitary(e.a, e.x, e.y) }}},
	"CAddScaledTo": {{"c64.AxpyUnitaryTo", "dst", []string{"?x", "?y"}, func(e *cenv64) { c64.AxpyUnitaryTo(e.dst, e.a, e.x, e.y) }}},
}

var cscal64 = map[string][]csbindT[complex64]{
	"CSum": {{"c64.Sum", func(e *cenv64) { e.outs = c64.Sum(e.x) }}},
	"CDot": {{"c64.DotUnitary", func(e *cenv64) { e.outs = c64.DotUnitary(e.x, e.y) }},
		{"c64.DotcUnitary", func(e *cenv64) { e.outs = c64.DotcUnitary(e.x, e.y) }}},
}

func init() {
	// float64 kernels behind no exported function
	vec64["Add"] = append(vec64["Add"], vbind[float64]{"f64.Add", "x", nil, func(e *env[float64]) { f64.Add(e.x, e.y) }})
	sc64["Norm1"] = append(sc64["Norm1"], sbind[float64]{"f64.L1Norm", func(e *env[float64]) { e.outs = f64.L1Norm(e.x) }})
	// L1Dist(s, t) = sum |t[i] - s[i]| ; the family states Norm1(y - x)
	sc64["Dist1"] = append(sc64["Dist1"], sbind[float64]{"f64.L1Dist", func(e *env[float64]) { e.outs = f64.L1Dist(e.x, e.y) }})
	sc64["KLinfDist"] = []sbind[float64]{{"f64.LinfDist", func(e *env[float64]) { e.outs = f64.LinfDist(e.x, e.y) }}}
	inc64["AsumInc"] = append(inc64["AsumInc"], incBind[float64]{"f64.L1NormInc", func(n int, a float64, x []float64, ix int, y []float64, iy int) float64 {
		return f64.L1NormInc(x, n, ix)
	}})
	// complex128 kernels
	cvec["CAdd"] = append(cvec["CAdd"], cvbind{"c128.Add", "x", nil, func(e *cenv) { c128.Add(e.x, e.y) }})
	cvec["CCumSum"] = append(cvec["CCumSum"], cvbind{"c128.CumSum", "dst", []string{"x"}, func(e *cenv) { e.outv = c128.CumSum(e.dst, e.x) }})
	cvec["CCumProd"] = append(cvec["CCumProd"], cvbind{"c128.CumProd", "dst", []string{"x"}, func(e *cenv) { e.outv = c128.CumProd(e.dst, e.x) }})
	cvec["CScaleReal"] = append(cvec["CScaleReal"], cvbind{"c128.DscalUnitary", "x", nil, func(e *cenv) { c128.DscalUnitary(real(e.a), e.x) }})
	cinc128["CDscal"] = append(cinc128["CDscal"], cincBind[complex128]{"c128.DscalInc", func(n int, a complex128, x []complex128, ix int, y []complex128, iy int) (complex128, float64) {
		c128.DscalInc(real(a), x, uintptr(n), uintptr(ix))
		return 0, 0
	}})
	cinc64["CDscal"] = append(cinc64["CDscal"], cincBind[complex64]{"c64.SscalInc", func(n int, a complex64, x []complex64, ix int, y []complex64, iy int) (complex128, float64) {
		c64.SscalInc(real(a), x, uintptr(n), uintptr(ix))
		return 0, 0
	}})
}

// runCNorm2Kern binds the unit-stride complex 2-norm family to the kernels (the exported
// cmplxs.Norm(2) is bound in cplx.go; the complex64 kernel has no exported caller).
func runCNorm2Kern(r *runner, c *pcase) {
	if c.F != "CNorm2" {
		return
	}
	r.each(c, "c128.L2NormUnitary", func(off int) (string, string) {
		bx := cplace(cdecv[complex128](c.X, c.E), coff[complex128](off))
		return "", normBad(c, c128.L2NormUnitary(bx.view), c.E, 52, -1074)
	})
	r.each(c, "c64.L2NormUnitary", func(off int) (string, string) {
		bx := cplace(cdecv[complex64](c.X, c.E32), coff[complex64](off))
		return "", normBad(c, float64(c64.L2NormUnitary(bx.view)), c.E32, 23, -149)
	})
}
