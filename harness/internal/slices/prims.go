// Package slices binds specs/slices/SlicePrims.tla to gonum's slice
// primitives (floats and the f64/f32 kernels reached through floats and BLAS
// level 1). It contains no arithmetic of its own: operands and expected
// results are the integers (and special-value codes) the specification
// printed; this package only places them in memory (start offset / alignment
// sweep, guard elements), calls gonum and compares.
package slices

import (
	"encoding/json"
	"fmt"
	"math"
	"math/big"
	"strings"
	"unsafe"

	"gonum.org/v1/gonum/blas/gonum"
	"gonum.org/v1/gonum/floats"

	"gonum.org/v1/gonum/verifharness/internal/core"
)

// special-value codes of SlicePrims.tla
const (
	cNaN   = 1000000001
	cPInf  = 1000000002
	cNInf  = 1000000003
	cNZero = 1000000004
	cKeep  = 1000000009 // "no alternative value"
)

// altOK reports whether got equals the alternative value the spec also accepts (if any).
func altOK(c *pcase, got float64) bool {
	return c.Alt != nil && *c.Alt != cKeep && same(got, *c.Alt, 0)
}

type pcase struct {
	F     string          `json:"f"`
	N     int             `json:"n"`
	V     int             `json:"v"`
	X     []int64         `json:"x"`
	Y     []int64         `json:"y"`
	A     int64           `json:"a"`
	AI    int64           `json:"ai"`
	SI    int64           `json:"si"`
	K     int64           `json:"k"`
	W     []int64         `json:"w"`
	S     int64           `json:"s"`
	IW    []int64         `json:"iw"`
	Allow json.RawMessage `json:"allow"`
	E     int             `json:"e"`
	E32   int             `json:"e32"`
	Tol   int64           `json:"tol"`
	Alt   *int64          `json:"alt,omitempty"` // second accepted scalar (cKeep = none)
	IncX  int             `json:"incx"`
	IncY  int             `json:"incy"`
	B     bool            `json:"b"`
	Skip  bool            `json:"skip"`
	// fields of the SliceExt.tla families
	Open bool     `json:"open,omitempty"` // the documentation leaves the answer open
	Ex   []int    `json:"ex,omitempty"`   // per-element exponents
	BB   []bool   `json:"bb,omitempty"`   // several boolean answers
	M    int64    `json:"m,omitempty"`    // a magnitude bound
	Lens []int    `json:"lens,omitempty"` // argument lengths
	G    string   `json:"g,omitempty"`    // sub-function / kind
	IncD int      `json:"incd,omitempty"` // destination increment
	Offs []int    `json:"offs,omitempty"` // start indices ix, iy, idst
	Cls  []string `json:"cls,omitempty"`  // value classes
	// complex families whose components are extended integers (prefix Z, see cplxz.go)
	Opn []int   `json:"opn,omitempty"` // positions whose value the specification leaves open
	WK  []int64 `json:"wk,omitempty"`  // NOT accepted: the value of one named departure (own signature)
	CZ  bool    `json:"cz,omitempty"`  // set by the harness when it strips the prefix Z
	// set when a failure case is replayed alone
	Only string `json:"only,omitempty"` // binding name
	Off  *int   `json:"off,omitempty"`
	Mode string `json:"mode,omitempty"`
}

type num interface{ ~float32 | ~float64 }

// dec turns a spec value (integer or special code), scaled by 2^e, into a float.
func dec[T num](c int64, e int) T {
	switch c {
	case cNaN:
		return T(math.NaN())
	case cPInf:
		return T(math.Inf(1))
	case cNInf:
		return T(math.Inf(-1))
	case cNZero:
		return T(math.Copysign(0, -1))
	}
	return T(math.Ldexp(float64(c), e))
}

// same reports whether got is the value the spec names: NaN by IsNaN, everything else by
// bits (so that the sign of zero is compared).
func same[T num](got T, want int64, e int) bool {
	w := dec[T](want, e)
	if want == cNaN {
		return got != got
	}
	return math.Float64bits(float64(got)) == math.Float64bits(float64(w))
}

func show[T num](v []T) string {
	var b strings.Builder
	b.WriteByte('[')
	for i, x := range v {
		if i > 0 {
			b.WriteByte(' ')
		}
		fmt.Fprintf(&b, "%v", x)
	}
	b.WriteByte(']')
	return b.String()
}

// ---- operand placement ---------------------------------------------------

const (
	padFront = 24 // room to reach a 64-byte boundary plus the start offset
	padBack  = 9
)

func canary[T num]() T { return T(-123456.5) }

// buf is a backing array with a view of n elements starting `off` elements
// after a 64-byte boundary; everything outside the view holds the canary.
type buf[T num] struct {
	all  []T
	view []T
	lo   int
}

func place[T num](vals []T, off int) *buf[T] {
	n := len(vals)
	all := make([]T, padFront+n+padBack)
	for i := range all {
		all[i] = canary[T]()
	}
	sz := int(unsafe.Sizeof(all[0]))
	addr := uintptr(unsafe.Pointer(&all[0]))
	lo := 0
	for (addr+uintptr(lo*sz))%64 != 0 {
		lo++
	}
	lo += off
	copy(all[lo:], vals)
	return &buf[T]{all: all, view: all[lo : lo+n], lo: lo}
}

// intact reports whether every element outside the view still holds the canary.
func (b *buf[T]) intact() bool {
	for i, v := range b.all {
		if (i < b.lo || i >= b.lo+len(b.view)) && v != canary[T]() {
			return false
		}
	}
	return true
}

func decv[T num](c []int64, e int) []T {
	out := make([]T, len(c))
	for i, v := range c {
		out[i] = dec[T](v, e)
	}
	return out
}

const zeroSignOnly = "(differs only in the sign of zero)"

// zeroSignNote returns the zeroSignOnly marker when got and want agree everywhere except for
// the sign of zeros (such disagreements get their own failure signature).
func zeroSignNote[T num](got []T, want []int64, e int) string {
	if len(got) != len(want) {
		return ""
	}
	for i := range got {
		if same(got[i], want[i], e) {
			continue
		}
		if got[i] == 0 && (want[i] == 0 || want[i] == cNZero) {
			continue
		}
		return ""
	}
	return " " + zeroSignOnly
}

func sameVec[T num](got []T, want []int64, e int) (int, bool) {
	if len(got) != len(want) {
		return -1, false
	}
	for i := range got {
		if !same(got[i], want[i], e) {
			return i, false
		}
	}
	return 0, true
}

// ---- bindings --------------------------------------------------------------

// env is what one call sees: operands already placed.
type env[T num] struct {
	c    *pcase
	x, y []T
	dst  []T // destination of a ...To form (fresh, or aliasing x or y)
	a    T
	ai   int64
	bl   gonum.Implementation
	outv []T     // vector result
	outs float64 // scalar result
}

// vector-valued bindings. where: which operand receives the result
// ("x", "y" in place; "dst" for ...To forms). alias: the alias modes exercised for "dst" forms;
// a mode prefixed with '?' is not documented by gonum: a disagreement there is only noted.
type vbind[T num] struct {
	name  string
	where string
	alias []string
	call  func(e *env[T])
}

var vec64 = map[string][]vbind[float64]{
	"Add":      {{"floats.Add", "x", nil, func(e *env[float64]) { floats.Add(e.x, e.y) }}},
	"AddTo":    {{"floats.AddTo", "dst", []string{"x", "y"}, func(e *env[float64]) { e.outv = floats.AddTo(e.dst, e.x, e.y) }}},
	"Sub":      {{"floats.Sub", "x", nil, func(e *env[float64]) { floats.Sub(e.x, e.y) }}},
	"SubTo":    {{"floats.SubTo", "dst", []string{"x", "y"}, func(e *env[float64]) { e.outv = floats.SubTo(e.dst, e.x, e.y) }}},
	"Mul":      {{"floats.Mul", "x", nil, func(e *env[float64]) { floats.Mul(e.x, e.y) }}},
	"MulTo":    {{"floats.MulTo", "dst", []string{"?x", "?y"}, func(e *env[float64]) { e.outv = floats.MulTo(e.dst, e.x, e.y) }}},
	"Div":      {{"floats.Div", "x", nil, func(e *env[float64]) { floats.Div(e.x, e.y) }}},
	"DivTo":    {{"floats.DivTo", "dst", []string{"?x", "?y"}, func(e *env[float64]) { e.outv = floats.DivTo(e.dst, e.x, e.y) }}},
	"AddConst": {{"floats.AddConst", "x", nil, func(e *env[float64]) { floats.AddConst(e.a, e.x) }}},
	"Scale":    {{"floats.Scale", "x", nil, func(e *env[float64]) { floats.Scale(e.a, e.x) }}},
	"ScaleTo":  {{"floats.ScaleTo", "dst", []string{"?x"}, func(e *env[float64]) { e.outv = floats.ScaleTo(e.dst, e.a, e.x) }}},
	// spec: y + a*x with dst = y
	"AddScaled":   {{"floats.AddScaled", "y", nil, func(e *env[float64]) { floats.AddScaled(e.y, e.a, e.x) }}},
	"AddScaledTo": {{"floats.AddScaledTo", "dst", []string{"x", "y"}, func(e *env[float64]) { e.outv = floats.AddScaledTo(e.dst, e.y, e.a, e.x) }}},
	"CumSum":      {{"floats.CumSum", "dst", []string{"x"}, func(e *env[float64]) { e.outv = floats.CumSum(e.dst, e.x) }}},
	"CumProd":     {{"floats.CumProd", "dst", []string{"x"}, func(e *env[float64]) { e.outv = floats.CumProd(e.dst, e.x) }}},
}

// scalar-valued bindings
type sbind[T num] struct {
	name string
	call func(e *env[T])
}

var sc64 = map[string][]sbind[float64]{
	"Sum":     {{"floats.Sum", func(e *env[float64]) { e.outs = floats.Sum(e.x) }}},
	"Prod":    {{"floats.Prod", func(e *env[float64]) { e.outs = floats.Prod(e.x) }}},
	"Dot":     {{"floats.Dot", func(e *env[float64]) { e.outs = floats.Dot(e.x, e.y) }}, {"blas.Ddot/inc1", func(e *env[float64]) { e.outs = e.bl.Ddot(len(e.x), e.x, 1, e.y, 1) }}},
	"Norm1":   {{"floats.Norm(1)", func(e *env[float64]) { e.outs = floats.Norm(e.x, 1) }}},
	"Dist1":   {{"floats.Distance(1)", func(e *env[float64]) { e.outs = floats.Distance(e.x, e.y, 1) }}},
	"NormInf": {{"floats.Norm(Inf)", func(e *env[float64]) { e.outs = floats.Norm(e.x, math.Inf(1)) }}},
	"DistInf": {{"floats.Distance(Inf)", func(e *env[float64]) { e.outs = floats.Distance(e.x, e.y, math.Inf(1)) }}},
}

// Euclidean norms: compared with the exact value r*2^e to the spec's rounding bound
var nrm64 = map[string][]sbind[float64]{
	"Norm2": {{"floats.Norm(2)", func(e *env[float64]) { e.outs = floats.Norm(e.x, 2) }},
		{"blas.Dnrm2/inc1", func(e *env[float64]) { e.outs = e.bl.Dnrm2(len(e.x), e.x, 1) }}},
	"Dist2": {{"floats.Distance(2)", func(e *env[float64]) { e.outs = floats.Distance(e.x, e.y, 2) }}},
}

// ---- driver ------------------------------------------------------------------

type runner struct {
	sum   *core.Summary
	offs  []int
	noted map[string]bool
	iso   bool // this process executes calls that may kill it (see isoCall)
}

func (r *runner) fail(c *pcase, bind string, off int, mode, kind, msg string) {
	if kind == "value" && strings.Contains(msg, zeroSignOnly) {
		kind = "zerosign"
	}
	cc := *c
	cc.Only, cc.Off, cc.Mode = bind, &off, mode
	r.sum.Fail("slices:"+bind+":"+kind, fmt.Sprintf("%s n=%d v=%d off=%d mode=%s: %s", c.F, c.N, c.V, off, mode, msg), cc)
}

func (r *runner) offsets(c *pcase) []int {
	if c.Off != nil {
		return []int{*c.Off}
	}
	return r.offs
}

func want(c *pcase, bind, mode string) bool {
	return (c.Only == "" || c.Only == bind) && (c.Mode == "" || c.Mode == mode)
}

// yoff derives a different start offset for the second operand and the destination
func yoff(off int) int { return (off*3 + 1) % 8 }
func doff(off int) int { return (off*5 + 2) % 8 }

func runVec[T num](r *runner, c *pcase, binds []vbind[T], e int) {
	for _, b := range binds {
		modes := []string{"fresh"}
		if b.where != "dst" {
			modes = []string{"inplace"}
		}
		for _, a := range b.alias {
			modes = append(modes, "dst="+a)
		}
		for _, mode := range modes {
			soft := strings.HasPrefix(mode, "dst=?")
			if !want(c, b.name, mode) {
				continue
			}
			for _, off := range r.offsets(c) {
				bx := place(decv[T](c.X, e), off)
				by := place(decv[T](c.Y, e), yoff(off))
				var bd *buf[T]
				en := &env[T]{c: c, x: bx.view, y: by.view, a: dec[T](c.A, 0), ai: c.A}
				var res []T
				switch {
				case b.where == "x":
					res = bx.view
				case b.where == "y":
					res = by.view
				case mode == "fresh":
					fill := make([]T, len(c.W))
					for i := range fill {
						fill[i] = canary[T]()
					}
					bd = place(fill, doff(off))
					en.dst, res = bd.view, bd.view
				case strings.HasSuffix(mode, "x"):
					en.dst, res = bx.view, bx.view
				default:
					en.dst, res = by.view, by.view
				}
				o := core.Call(func() { b.call(en) })
				r.sum.Cases++
				if c.N > 0 {
					r.sum.Nontrivial++
				}
				r.sum.Count("calls:"+b.name, 1)
				if o.Panicked {
					r.fail(c, b.name, off, mode, "panic", "panicked on valid arguments: "+o.Text)
					continue
				}
				bad := ""
				if i, ok := sameVec(res, c.W, e); !ok {
					bad = fmt.Sprintf("result differs at %d: got %s want(spec) %v%s", i, show(res), c.W, zeroSignNote(res, c.W, e))
				} else if en.outv != nil && (len(en.outv) != len(res) || (len(res) > 0 && &en.outv[0] != &res[0])) {
					bad = "returned slice is not the destination"
				} else if !bx.intact() || !by.intact() || (bd != nil && !bd.intact()) {
					bad = "wrote outside the addressed elements"
				} else {
					// sources that are not the destination must be unchanged
					if len(res) == 0 || len(bx.view) == 0 || &res[0] != &bx.view[0] {
						if i, ok := sameVec(bx.view, c.X, e); !ok {
							bad = fmt.Sprintf("source x modified at %d", i)
						}
					}
					if len(res) == 0 || len(by.view) == 0 || &res[0] != &by.view[0] {
						if i, ok := sameVec(by.view, c.Y, e); !ok {
							bad = fmt.Sprintf("source y modified at %d", i)
						}
					}
				}
				if bad != "" {
					if soft {
						k := b.name + " " + mode
						if !r.noted[k] {
							r.noted[k] = true
							r.sum.Count("undocumented-alias-differs:"+k, 1)
						}
						continue
					}
					r.fail(c, b.name, off, mode, "value", bad)
				}
			}
		}
	}
}

func runScalar[T num](r *runner, c *pcase, binds []sbind[T], e int, cmp func(en *env[T]) string) {
	for _, b := range binds {
		if !want(c, b.name, "") {
			continue
		}
		for _, off := range r.offsets(c) {
			bx := place(decv[T](c.X, e), off)
			by := place(decv[T](c.Y, e), yoff(off))
			en := &env[T]{c: c, x: bx.view, y: by.view, a: dec[T](c.A, 0), ai: c.A}
			o := core.Call(func() { b.call(en) })
			r.sum.Cases++
			if c.N > 0 {
				r.sum.Nontrivial++
			}
			r.sum.Count("calls:"+b.name, 1)
			if o.Panicked {
				r.fail(c, b.name, off, "", "panic", "panicked on valid arguments: "+o.Text)
				continue
			}
			bad := cmp(en)
			if bad == "" {
				if !bx.intact() || !by.intact() {
					bad = "wrote outside the operands"
				} else if i, ok := sameVec(bx.view, c.X, e); !ok {
					bad = fmt.Sprintf("input x modified at %d", i)
				} else if i, ok := sameVec(by.view, c.Y, e); !ok {
					bad = fmt.Sprintf("input y modified at %d", i)
				}
			}
			if bad != "" {
				r.fail(c, b.name, off, "", "value", bad)
			}
		}
	}
}

func exactScalar[T num](c *pcase) func(en *env[T]) string {
	return func(en *env[T]) string {
		if !same(en.outs, c.S, 0) && !altOK(c, en.outs) {
			return fmt.Sprintf("got %v want(spec) %v%s", en.outs, dec[float64](c.S, 0), zeroSignNote([]float64{en.outs}, []int64{c.S}, 0))
		}
		return ""
	}
}

// withinBound: |got - r*2^e| <= tol * 2^-p * r*2^e + tiny, evaluated in exact rational arithmetic
// from the integers the spec printed (p = 52 for float64, 23 for float32; tiny = smallest subnormal).
func withinBound(got float64, r int64, e int, tol int64, p int, tinyExp int) bool {
	if math.IsNaN(got) || math.IsInf(got, 0) {
		return false
	}
	g := new(big.Rat)
	if g.SetFloat64(got) == nil {
		return false
	}
	pow := func(k int) *big.Rat {
		z := new(big.Rat).SetInt(new(big.Int).Lsh(big.NewInt(1), uint(abs(k))))
		if k < 0 {
			z.Inv(z)
		}
		return z
	}
	exact := new(big.Rat).Mul(new(big.Rat).SetInt64(r), pow(e))
	bound := new(big.Rat).Mul(exact, new(big.Rat).Mul(new(big.Rat).SetInt64(tol), pow(-p)))
	bound.Add(bound, pow(tinyExp))
	d := new(big.Rat).Sub(g, exact)
	d.Abs(d)
	return d.Cmp(bound) <= 0
}

func abs(k int) int {
	if k < 0 {
		return -k
	}
	return k
}

// normBad compares a Euclidean norm with the spec: NaN / +Inf classes exactly (or the spec's
// alternative), finite values r*2^e within the rounding bound.
func normBad(c *pcase, got float64, e, p, tiny int) string {
	switch c.S {
	case cNaN, cPInf:
		if !same(got, c.S, 0) && !altOK(c, got) {
			return fmt.Sprintf("got %v want(spec) %v", got, dec[float64](c.S, 0))
		}
		return ""
	}
	if !withinBound(got, c.S, e, c.Tol, p, tiny) {
		return fmt.Sprintf("got %v, exact norm is %d*2^%d, outside %d*2^-%d relative bound", got, c.S, e, c.Tol, p)
	}
	return ""
}

func normCmp[T num](c *pcase, e, p, tiny int) func(en *env[T]) string {
	return func(en *env[T]) string {
		return normBad(c, en.outs, e, p, tiny)
	}
}

func init() {
	core.RegisterReplay("slices", replay)
}

func replay(in *core.Lines, args []string, seed int64, sum *core.Summary) error {
	r := &runner{sum: sum, offs: []int{0, 1, 2, 3, 4, 5, 6, 7}, noted: map[string]bool{}}
	for _, a := range args {
		if a == "offs=few" {
			r.offs = []int{0, 1, 3}
		}
		if a == "iso" {
			r.iso = true
		}
	}
	for {
		line, ok := in.Next()
		if !ok {
			break
		}
		var c pcase
		if err := json.Unmarshal(line, &c); err != nil {
			return fmt.Errorf("line %d: %v", in.N, err)
		}
		if c.Skip {
			continue
		}
		// the "pairs of specials" families (suffix P) use the bindings of the base function
		c.F = strings.TrimSuffix(c.F, "P")
		// component special values in complex slices (prefix Z): the bindings of the base family,
		// compared by the rules of cplxz.go
		if strings.HasPrefix(c.F, "ZC") {
			c.F, c.CZ = strings.TrimPrefix(c.F, "Z"), true
		}
		before := sum.Cases
		if b, ok := vec64[c.F]; ok {
			runVec(r, &c, b, 0)
		}
		if b, ok := sc64[c.F]; ok {
			runScalar(r, &c, b, 0, exactScalar[float64](&c))
		}
		if b, ok := nrm64[c.F]; ok {
			runScalar(r, &c, b, c.E, normCmp[float64](&c, c.E, 52, -1074))
		}
		if b, ok := vec32[c.F]; ok {
			runVec(r, &c, b, 0)
		}
		if b, ok := sc32[c.F]; ok {
			runScalar(r, &c, b, 0, exactScalar[float32](&c))
		}
		if b, ok := nrm32[c.F]; ok {
			runScalar(r, &c, b, c.E32, normCmp[float32](&c, c.E32, 23, -149))
		}
		runExt(r, &c)
		runCNorm2Kern(r, &c)
		runIndex(r, &c)
		runInc(r, &c)
		runComplex(r, &c)
		runSpatial(r, &c)
		runBool(r, &c)
		if sum.Cases == before {
			return fmt.Errorf("line %d: no binding for spec function %q", in.N, c.F)
		}
		if sum.Cases-before > 0 && len(sum.Samples) < 3 && c.N == 5 {
			sum.Sample(json.RawMessage(append([]byte(nil), line...)))
		}
	}
	return nil
}
