package slices

import (
	"encoding/json"
	"fmt"
	"math"
	"math/big"
	"math/cmplx"

	"gonum.org/v1/gonum/cmplxs"
	"gonum.org/v1/gonum/floats"
	"gonum.org/v1/gonum/internal/asm/c128"
	"gonum.org/v1/gonum/internal/asm/c64"
	"gonum.org/v1/gonum/internal/asm/f32"
	"gonum.org/v1/gonum/internal/asm/f64"
	"gonum.org/v1/gonum/internal/cmplx64"
	"gonum.org/v1/gonum/internal/math32"

	"gonum.org/v1/gonum/verifharness/internal/core"
)

// Bindings of the SliceExt.tla families. As everywhere in this package the expected values
// are the specification's; where it prints an exact value together with a bound (moduli,
// general-L norms, log-space forms) the comparison |got - exact| <= tol * 2^-p * |scale| is
// evaluated in rational arithmetic from the printed integers.

// the predicates named in the specification
func cIsPosRe(z complex128) bool { return real(z) > 0 }                    // CIsPosRe
func cReEq(a, b complex128) bool { return real(a) == real(b) }             // CReEq
func fAbsEq(a, b float64) bool   { return math.Abs(a) == math.Abs(b) }     // FAbsEq
func isSpecial(code int64) bool  { return code >= cNaN && code <= cNZero } // a special-value code
func pow2(k int) *big.Rat        { return new(big.Rat).SetFrac(pow2i(k), pow2i(-k)) }
func ratOf(f float64) *big.Rat   { r := new(big.Rat); r.SetFloat64(f); return r }
func finite(f float64) bool      { return !math.IsNaN(f) && !math.IsInf(f, 0) }
func pow2i(k int) *big.Int {
	if k <= 0 {
		return big.NewInt(1)
	}
	return new(big.Int).Lsh(big.NewInt(1), uint(k))
}

// near reports |got - want*2^e| <= tol * 2^-p * |scale*2^e| + 2^tiny.
func near(got float64, want int64, e int, tol int64, p int, scale int64, tiny int) bool {
	if !finite(got) {
		return false
	}
	if e > -1000 && e < 1000 && got == math.Ldexp(float64(want), e) { // the exact value itself
		return true
	}
	exact := new(big.Rat).Mul(new(big.Rat).SetInt64(want), pow2(e))
	bound := new(big.Rat).Mul(new(big.Rat).SetInt64(scale), pow2(e))
	bound.Abs(bound)
	bound.Mul(bound, new(big.Rat).Mul(new(big.Rat).SetInt64(tol), pow2(-p)))
	bound.Add(bound, pow2(tiny))
	d := new(big.Rat).Sub(ratOf(got), exact)
	return d.Abs(d).Cmp(bound) <= 0
}

// valOK: a special code is matched exactly (or the alternative), a number within the bound.
func valOK(c *pcase, got float64, want int64, tol int64) bool {
	if isSpecial(want) {
		return same(got, want, 0) || altOK(c, got)
	}
	return near(got, want, 0, tol, 52, want, -1074) || altOK(c, got)
}

func flatAllow(c *pcase) []int64 {
	var flat []int64
	if len(c.Allow) > 0 {
		if err := json.Unmarshal(c.Allow, &flat); err != nil {
			panic(err)
		}
	}
	return flat
}

func nestedAllow(c *pcase) [][]int64 {
	var nested [][]int64
	if err := json.Unmarshal(c.Allow, &nested); err != nil {
		panic(err)
	}
	return nested
}

func cval(re, im int64) complex128 { return complex(dec[float64](re, 0), dec[float64](im, 0)) }

// classOK: does got belong to the class the specification names for a documented endpoint?
func classOK(got complex128, cls string, re, im int64) bool {
	switch cls {
	case "nan":
		return math.IsNaN(real(got)) || math.IsNaN(imag(got))
	case "inf":
		return cmplx.IsInf(got)
	}
	return csame(got, re, im, 0)
}

// each runs body once per start offset for one binding; body returns (kind, message) of a failure.
func (r *runner) each(c *pcase, name string, body func(off int) (string, string)) {
	if !want(c, name, "") {
		return
	}
	offs := r.offsets(c)
	if len(offs) > 2 && (c.F == "LogSpan" || c.F == "CLogSpan") { // plain Go loops around log / exp: two alignments
		offs = []int{offs[0], offs[len(offs)/2]}
	}
	for _, off := range offs {
		var kind, msg string
		o := core.Call(func() { kind, msg = body(off) })
		r.count(c, name)
		if o.Panicked {
			r.fail(c, name, off, "", "panic", "panicked on valid arguments: "+o.Text)
		} else if msg != "" {
			if kind == "" {
				kind = "value"
			}
			r.fail(c, name, off, "", kind, msg)
		}
	}
}

// once is each for families without operands in memory (one call, offset 0).
func (r *runner) once(c *pcase, name string, body func() (string, string)) {
	if !want(c, name, "") {
		return
	}
	var kind, msg string
	o := core.Call(func() { kind, msg = body() })
	r.count(c, name)
	if o.Panicked {
		r.fail(c, name, 0, "", "panic", "panicked on valid arguments: "+o.Text)
	} else if msg != "" {
		if kind == "" {
			kind = "value"
		}
		r.fail(c, name, 0, "", kind, msg)
	}
}

func runExt(r *runner, c *pcase) {
	switch c.F {
	case "CAbs":
		r.each(c, "cmplxs.Abs", func(off int) (string, string) {
			bx := cplace(cdecv[complex128](c.X, 0), coff[complex128](off))
			fill := make([]float64, c.N)
			for i := range fill {
				fill[i] = canary[float64]()
			}
			bd := place(fill, yoff(off))
			cmplxs.Abs(bd.view, bx.view)
			for i, g := range bd.view {
				if !valOK(c, g, c.W[i], c.Tol) {
					return "", fmt.Sprintf("element %d: got %v, modulus of (%v) is (spec) %v", i, g, bx.view[i], dec[float64](c.W[i], 0))
				}
			}
			if _, ok := csameVec(bx.view, c.X, 0); !ok || !bx.intact() || !bd.intact() {
				return "", "source modified or wrote outside dst"
			}
			return "", ""
		})
	case "CCount":
		r.each(c, "cmplxs.Count", func(off int) (string, string) {
			bx := cplace(cdecv[complex128](c.X, 0), coff[complex128](off))
			if n := cmplxs.Count(cIsPosRe, bx.view); n != int(c.K) {
				return "", fmt.Sprintf("count %d, spec %d", n, c.K)
			}
			return "", ""
		})
	case "CFind":
		r.each(c, "cmplxs.Find", func(off int) (string, string) {
			bx := cplace(cdecv[complex128](c.X, 0), coff[complex128](off))
			pre := []int{-7, -7, -7}
			if off%2 == 1 {
				pre = nil
			}
			got, err := cmplxs.Find(pre, cIsPosRe, bx.view, int(c.K))
			if len(got) != len(c.IW) {
				return "", fmt.Sprintf("found %v, spec (1-based) %v", got, c.IW)
			}
			for i := range got {
				if got[i] != int(c.IW[i])-1 {
					return "", fmt.Sprintf("found %v, spec (1-based) %v", got, c.IW)
				}
			}
			if (err != nil) != c.B {
				return "", fmt.Sprintf("error=%v, spec says error=%v (k=%d)", err, c.B, c.K)
			}
			return "", ""
		})
	case "CDist1", "CDistInf", "CDistL3", "CNorm1", "CNormInf", "CNormL3":
		L := map[string]float64{"CDist1": 1, "CNorm1": 1, "CDistInf": math.Inf(1), "CNormInf": math.Inf(1), "CDistL3": 3, "CNormL3": 3}[c.F]
		name := fmt.Sprintf("cmplxs.Distance(%v)", L)
		if c.F[1] == 'N' {
			name = fmt.Sprintf("cmplxs.Norm(%v)", L)
		}
		r.each(c, name, func(off int) (string, string) {
			bx := cplace(cdecv[complex128](c.X, 0), coff[complex128](off))
			by := cplace(cdecv[complex128](c.Y, 0), coff[complex128](yoff(off)))
			var got float64
			if c.F[1] == 'N' {
				got = cmplxs.Norm(bx.view, L)
			} else {
				got = cmplxs.Distance(bx.view, by.view, L)
			}
			if !valOK(c, got, c.S, c.Tol) {
				return "", fmt.Sprintf("got %v, exact value (spec) %v, bound %d*2^-52", got, dec[float64](c.S, 0), c.Tol)
			}
			if _, ok := csameVec(bx.view, c.X, 0); !ok || !bx.intact() || !by.intact() {
				return "", "operand modified"
			}
			return "", ""
		})
	case "CDist2":
		type b2 struct {
			name string
			c64  bool
			call func(x, y []complex128, x32, y32 []complex64) float64
		}
		for _, b := range []b2{
			{"cmplxs.Distance(2)", false, func(x, y []complex128, _, _ []complex64) float64 { return cmplxs.Distance(x, y, 2) }},
			{"c128.L2DistanceUnitary", false, func(x, y []complex128, _, _ []complex64) float64 { return c128.L2DistanceUnitary(x, y) }},
			{"c64.L2DistanceUnitary", true, func(_, _ []complex128, x, y []complex64) float64 { return float64(c64.L2DistanceUnitary(x, y)) }},
		} {
			b := b
			r.each(c, b.name, func(off int) (string, string) {
				if b.c64 {
					bx := cplace(cdecv[complex64](c.X, c.E32), coff[complex64](off))
					by := cplace(cdecv[complex64](c.Y, c.E32), coff[complex64](yoff(off)))
					return "", normBad(c, b.call(nil, nil, bx.view, by.view), c.E32, 23, -149)
				}
				bx := cplace(cdecv[complex128](c.X, c.E), coff[complex128](off))
				by := cplace(cdecv[complex128](c.Y, c.E), coff[complex128](yoff(off)))
				return "", normBad(c, b.call(bx.view, by.view, nil, nil), c.E, 52, -1074)
			})
		}
	case "CEqualSame":
		r.each(c, "cmplxs.Equal/Same/HasNaN/EqualFunc/EqualLengths", func(off int) (string, string) {
			bx := cplace(cdecv[complex128](c.X, 0), coff[complex128](off))
			by := cplace(cdecv[complex128](c.Y, 0), coff[complex128](yoff(off)))
			got := []bool{cmplxs.Equal(bx.view, by.view), cmplxs.Same(bx.view, by.view), cmplxs.HasNaN(bx.view), cmplxs.EqualFunc(bx.view, by.view, cReEq)}
			for i, nm := range []string{"Equal", "Same", "HasNaN", "EqualFunc(real parts equal)"} {
				if got[i] != c.BB[i] {
					return "", fmt.Sprintf("%s = %v, spec %v", nm, got[i], c.BB[i])
				}
			}
			if el := cmplxs.EqualLengths(bx.view, by.view, bx.view); el != (c.K == 1) {
				return "", fmt.Sprintf("EqualLengths = %v on lengths %d, %d, %d", el, len(bx.view), len(by.view), len(bx.view))
			}
			return "", ""
		})
	case "CEqualApprox":
		r.each(c, "cmplxs.EqualApprox", func(off int) (string, string) {
			bx := cplace(cdecv[complex128](c.X, 0), coff[complex128](off))
			by := cplace(cdecv[complex128](c.Y, 0), coff[complex128](yoff(off)))
			got := cmplxs.EqualApprox(bx.view, by.view, float64(c.A)/4)
			if c.Open {
				r.sum.Count("open_not_compared", 1)
				return "", ""
			}
			if got != c.B {
				return "", fmt.Sprintf("EqualApprox(tol=%v) = %v, spec %v", float64(c.A)/4, got, c.B)
			}
			return "", ""
		})
	case "CReverse":
		r.each(c, "cmplxs.Reverse", func(off int) (string, string) {
			bx := cplace(cdecv[complex128](c.X, 0), coff[complex128](off))
			cmplxs.Reverse(bx.view)
			if i, ok := csameVec(bx.view, c.W, 0); !ok || !bx.intact() {
				return "", fmt.Sprintf("differs at %d: %v", i, bx.view)
			}
			return "", ""
		})
	case "CSpan", "CSpanEnds", "CSpanEndsFin":
		r.each(c, "cmplxs."+c.F[1:], func(off int) (string, string) {
			fill := make([]complex128, c.N)
			for i := range fill {
				fill[i] = ccanary[complex128]()
			}
			bd := cplace(fill, coff[complex128](off))
			l, u := cval(c.X[0], c.X[1]), cval(c.X[2], c.X[3])
			ret := cmplxs.Span(bd.view, l, u)
			switch c.F {
			case "CSpan":
				if i, ok := csameVec(bd.view, c.W, 0); !ok {
					return "", fmt.Sprintf("Span(%d, %v, %v) differs from l + i*step at %d: %v", c.N, l, u, i, bd.view)
				}
			case "CSpanEnds":
				if !classOK(bd.view[0], c.Cls[0], c.X[0], c.X[1]) || !classOK(bd.view[c.N-1], c.Cls[1], c.X[2], c.X[3]) {
					return "", fmt.Sprintf("n=%d endpoints %v, %v; documented: first element l=%v, final element u=%v", c.N, bd.view[0], bd.view[c.N-1], l, u)
				}
			default:
				if !csame(bd.view[0], c.X[0], c.X[1], 0) || !csame(bd.view[c.N-1], c.X[2], c.X[3], 0) {
					return "", fmt.Sprintf("n=%d endpoints %v, %v; documented: first element l=%v, final element u=%v", c.N, bd.view[0], bd.view[c.N-1], l, u)
				}
			}
			if len(ret) != c.N || &ret[0] != &bd.view[0] {
				return "", "returned slice is not dst"
			}
			if !bd.intact() {
				return "", "wrote outside dst"
			}
			return "", ""
		})
	case "CLogSpan", "LogSpan":
		// l = 2^ex[0], u = 2^ex[n-1]; element i is 2^ex[i] within tol*2^-52; the endpoints are l and u
		n := c.N
		l, u := math.Ldexp(1, c.Ex[0]), math.Ldexp(1, c.Ex[n-1])
		name := "floats.LogSpan"
		if c.F == "CLogSpan" {
			name = "cmplxs.LogSpan"
		}
		r.each(c, name, func(off int) (string, string) {
			re := make([]float64, n)
			im := make([]float64, n)
			if c.F == "LogSpan" {
				bd := place(make([]float64, n), off)
				ret := floats.LogSpan(bd.view, l, u)
				if len(ret) != n || &ret[0] != &bd.view[0] || !bd.intact() {
					return "", "returned slice is not dst / wrote outside dst"
				}
				copy(re, bd.view)
			} else {
				bd := cplace(make([]complex128, n), coff[complex128](off))
				ret := cmplxs.LogSpan(bd.view, complex(l, 0), complex(u, 0))
				if len(ret) != n || &ret[0] != &bd.view[0] || !bd.intact() {
					return "", "returned slice is not dst / wrote outside dst"
				}
				for i, z := range bd.view {
					re[i], im[i] = real(z), imag(z)
				}
			}
			for i := range re {
				if !near(re[i], 1, c.Ex[i], c.Tol, 52, 1, -1074) || !near(im[i], 0, c.Ex[i], c.Tol, 52, 1, -1074) {
					return "", fmt.Sprintf("LogSpan(%d, 2^%d, 2^%d)[%d] = (%v, %v), equally spaced in log space is 2^%d (bound %d*2^-52)", n, c.Ex[0], c.Ex[n-1], i, re[i], im[i], c.Ex[i], c.Tol)
				}
			}
			if re[0] != l || re[n-1] != u || im[0] != 0 || im[n-1] != 0 {
				return "endpoint", fmt.Sprintf("LogSpan(%d, %v, %v): first element %v, final element %v; documented: the first element will be l and the final element u", n, l, u, re[0], re[n-1])
			}
			return "", ""
		})
	case "CLogSpanZ", "LogSpanZ":
		n := c.N
		allow := nestedAllow(c)
		l, u := float64(c.A), float64(c.K)
		name := "floats.LogSpanZ"
		if c.F == "CLogSpanZ" {
			name = "cmplxs.LogSpanZ"
		}
		r.each(c, name, func(off int) (string, string) {
			re := make([]float64, n)
			im := make([]float64, n)
			if c.F == "LogSpanZ" {
				bd := place(make([]float64, n), off)
				floats.LogSpan(bd.view, l, u)
				copy(re, bd.view)
			} else {
				bd := cplace(make([]complex128, n), coff[complex128](off))
				cmplxs.LogSpan(bd.view, complex(l, 0), complex(u, 0))
				for i, z := range bd.view {
					re[i], im[i] = real(z), imag(z)
				}
			}
			for i := range re {
				ok := false
				for _, a := range allow[i] {
					if same(re[i], a, 0) && (im[i] == 0 || a == cNaN) || (re[i] == 0 && a == 0 && im[i] == 0) {
						ok = true
					}
				}
				if !ok {
					kind := "value"
					if (i == 0 || i == n-1) && finite(re[i]) && re[i] != 0 && im[i] == 0 {
						kind = "endpoint"
					}
					return kind, fmt.Sprintf("LogSpan(%d, %v, %v)[%d] = (%v, %v); the documentation (NaNs if l or u negative, zeros if l or u zero, first element l, final element u) allows %v", n, l, u, i, re[i], im[i], decv[float64](allow[i], 0))
				}
			}
			return "", ""
		})
	case "CMaxAbsV", "CMinAbsV":
		allow := flatAllow(c)
		nm := "cmplxs.MaxAbs/MaxAbsIdx"
		if c.F == "CMinAbsV" {
			nm = "cmplxs.MinAbs/MinAbsIdx"
		}
		r.each(c, nm, func(off int) (string, string) {
			bx := cplace(cdecv[complex128](c.X, 0), coff[complex128](off))
			var gi int
			var gv complex128
			if c.F == "CMaxAbsV" {
				gi, gv = cmplxs.MaxAbsIdx(bx.view), cmplxs.MaxAbs(bx.view)
			} else {
				gi, gv = cmplxs.MinAbsIdx(bx.view), cmplxs.MinAbs(bx.view)
			}
			if !in1(allow, gi) {
				return "", fmt.Sprintf("index %d, spec allows (1-based) %v", gi, allow)
			}
			ok := false
			for _, a := range allow {
				if csame(gv, c.X[2*(a-1)], c.X[2*(a-1)+1], 0) {
					ok = true
				}
			}
			if !ok {
				return "", fmt.Sprintf("value %v is not the element at an allowed index (1-based) %v", gv, allow)
			}
			return "", ""
		})
	case "CNearestIdx":
		allow := flatAllow(c)
		r.each(c, "cmplxs.NearestIdx", func(off int) (string, string) {
			bx := cplace(cdecv[complex128](c.X, 0), coff[complex128](off))
			if gi := cmplxs.NearestIdx(bx.view, cval(c.A, c.AI)); !in1(allow, gi) {
				return "", fmt.Sprintf("index %d for v=%v, spec allows (1-based) %v", gi, cval(c.A, c.AI), allow)
			}
			return "", ""
		})
	case "EqualApprox":
		r.each(c, "floats.EqualApprox/EqualFunc", func(off int) (string, string) {
			bx := place(decv[float64](c.X, 0), off)
			by := place(decv[float64](c.Y, 0), yoff(off))
			if got := floats.EqualApprox(bx.view, by.view, float64(c.A)/4); got != c.B {
				return "", fmt.Sprintf("EqualApprox(tol=%v) = %v, spec %v", float64(c.A)/4, got, c.B)
			}
			if got := floats.EqualFunc(bx.view, by.view, fAbsEq); got != c.BB[0] {
				return "", fmt.Sprintf("EqualFunc(|a| == |b|) = %v, spec %v", got, c.BB[0])
			}
			if c.K == 0 { // the second slice is one shorter: nothing is equal to it
				if floats.Equal(bx.view, by.view) || floats.Same(bx.view, by.view) || floats.EqualLengths(bx.view, by.view) {
					return "", "Equal / Same / EqualLengths true on slices of different lengths"
				}
			}
			return "", ""
		})
	case "LogSumExp":
		r.each(c, "floats.LogSumExp", func(off int) (string, string) {
			bx := place(decv[float64](c.X, 0), off)
			got := floats.LogSumExp(bx.view)
			switch c.G {
			case "shift":
				by := place(decv[float64](c.Y, 0), yoff(off))
				got2 := floats.LogSumExp(by.view)
				if !finite(got) || !finite(got2) {
					return "", fmt.Sprintf("LogSumExp = %v, %v on finite data", got, got2)
				}
				d := new(big.Rat).Sub(ratOf(got2), ratOf(got))
				d.Sub(d, new(big.Rat).SetInt64(c.A))
				bound := new(big.Rat).Mul(new(big.Rat).SetInt64(c.Tol*c.M), pow2(-52))
				if d.Abs(d).Cmp(bound) > 0 {
					return "", fmt.Sprintf("LogSumExp(x+%d) - LogSumExp(x) = %v - %v, must be %d within %d*2^-52*%d", c.A, got2, got, c.A, c.Tol, c.M)
				}
			case "value":
				if !near(got, c.S, 0, c.Tol, 52, c.S, -1074) {
					return "", fmt.Sprintf("got %v, exact value (spec) %d", got, c.S)
				}
			default:
				if !same(got, c.S, 0) && !altOK(c, got) {
					return "", fmt.Sprintf("got %v, spec %v", got, dec[float64](c.S, 0))
				}
			}
			if i, ok := sameVec(bx.view, c.X, 0); !ok || !bx.intact() {
				return "", fmt.Sprintf("input modified at %d", i)
			}
			return "", ""
		})
	case "SumComp":
		r.each(c, "floats.SumCompensated", func(off int) (string, string) {
			xs := make([]float64, len(c.X))
			for i, m := range c.X {
				xs[i] = math.Ldexp(float64(m), c.Ex[i])
			}
			bx := place(xs, off)
			got := floats.SumCompensated(bx.view)
			if !finite(got) {
				return "", fmt.Sprintf("got %v on finite data", got)
			}
			d := new(big.Rat).Sub(ratOf(got), new(big.Rat).SetInt64(c.S))
			d.Abs(d)
			if c.M == 0 && d.Sign() != 0 {
				return "", fmt.Sprintf("got %v, every partial sum is exact: the sum is (spec) %d", got, c.S)
			}
			if c.M > 0 && d.Cmp(new(big.Rat).SetInt64(c.M)) >= 0 {
				return "", fmt.Sprintf("got %v, exact sum (spec) %d: the error is not smaller than the error %d of the plain sum ('greater accuracy than Sum')", got, c.S, c.M)
			}
			return "", ""
		})
	case "NormL3", "DistL3":
		nm := "floats.Norm(3)"
		if c.F == "DistL3" {
			nm = "floats.Distance(3)"
		}
		r.each(c, nm, func(off int) (string, string) {
			bx := place(decv[float64](c.X, 0), off)
			by := place(decv[float64](c.Y, 0), yoff(off))
			var got float64
			if c.F == "NormL3" {
				got = floats.Norm(bx.view, float64(c.A))
			} else {
				got = floats.Distance(bx.view, by.view, float64(c.A))
			}
			if !near(got, c.S, 0, c.Tol, 52, c.S, -1074) {
				return "", fmt.Sprintf("got %v, exact value (spec) %d, bound %d*2^-52", got, c.S, c.Tol)
			}
			return "", ""
		})
	case "NISpanInf", "NISpan2":
		allow := flatAllow(c)
		n := c.N
		if c.F == "NISpan2" {
			n = 2
		}
		r.once(c, "floats.NearestIdxForSpan", func() (string, string) {
			l, u, v := dec[float64](c.A, 0), dec[float64](c.K, 0), dec[float64](c.S, 0)
			if gi := floats.NearestIdxForSpan(n, l, u, v); !in1(allow, gi) {
				return "", fmt.Sprintf("index %d for n=%d l=%v u=%v v=%v, spec allows (1-based) %v", gi, n, l, u, v, allow)
			}
			return "", ""
		})
	case "EqualLens":
		r.once(c, "EqualLengths", func() (string, string) {
			var fs [][]float64
			var cs [][]complex128
			for _, l := range c.Lens {
				fs = append(fs, make([]float64, l))
				cs = append(cs, make([]complex128, l))
			}
			if got := floats.EqualLengths(fs...); got != c.B {
				return "", fmt.Sprintf("floats.EqualLengths on lengths %v = %v, spec %v", c.Lens, got, c.B)
			}
			if got := cmplxs.EqualLengths(cs...); got != c.B {
				return "", fmt.Sprintf("cmplxs.EqualLengths on lengths %v = %v, spec %v", c.Lens, got, c.B)
			}
			return "", ""
		})
	case "Panics":
		runPanics(r, c)
	case "KScalIncTo":
		runScalIncTo(r, c, "f64.ScalIncTo", func(dst []float64, id int, a float64, x []float64, n, ix int) {
			f64.ScalIncTo(dst, uintptr(id), a, x, uintptr(n), uintptr(ix))
		})
		runScalIncTo(r, c, "f32.ScalIncTo", func(dst []float32, id int, a float32, x []float32, n, ix int) {
			f32.ScalIncTo(dst, uintptr(id), a, x, uintptr(n), uintptr(ix))
		})
	case "KAxpyIncTo":
		runAxpyIncTo(r, c, "f64.AxpyIncTo", func(dst []float64, id, od int, a float64, x, y []float64, n, ix, iy, ox, oy int) {
			f64.AxpyIncTo(dst, uintptr(id), uintptr(od), a, x, y, uintptr(n), uintptr(ix), uintptr(iy), uintptr(ox), uintptr(oy))
		})
		runAxpyIncTo(r, c, "f32.AxpyIncTo", func(dst []float32, id, od int, a float32, x, y []float32, n, ix, iy, ox, oy int) {
			f32.AxpyIncTo(dst, uintptr(id), uintptr(od), a, x, y, uintptr(n), uintptr(ix), uintptr(iy), uintptr(ox), uintptr(oy))
		})
	case "KCScalIncTo":
		runCScalIncTo(r, c, "c128.ScalIncTo", func(dst []complex128, id int, a complex128, x []complex128, n, ix int) {
			c128.ScalIncTo(dst, uintptr(id), a, x, uintptr(n), uintptr(ix))
		})
		runCScalIncTo(r, c, "c64.ScalIncTo", func(dst []complex64, id int, a complex64, x []complex64, n, ix int) {
			c64.ScalIncTo(dst, uintptr(id), a, x, uintptr(n), uintptr(ix))
		})
	case "KCAxpyIncTo":
		runCAxpyIncTo(r, c, "c128.AxpyIncTo", func(dst []complex128, id, od int, a complex128, x, y []complex128, n, ix, iy, ox, oy int) {
			c128.AxpyIncTo(dst, uintptr(id), uintptr(od), a, x, y, uintptr(n), uintptr(ix), uintptr(iy), uintptr(ox), uintptr(oy))
		})
		runCAxpyIncTo(r, c, "c64.AxpyIncTo", func(dst []complex64, id, od int, a complex64, x, y []complex64, n, ix, iy, ox, oy int) {
			c64.AxpyIncTo(dst, uintptr(id), uintptr(od), a, x, y, uintptr(n), uintptr(ix), uintptr(iy), uintptr(ox), uintptr(oy))
		})
	case "M32":
		runM32(r, c)
	}
}

// ---- strided ...To kernels ---------------------------------------------------------------------

func runScalIncTo[T num](r *runner, c *pcase, name string, call func(dst []T, id int, a T, x []T, n, ix int)) {
	r.each(c, name, func(off int) (string, string) {
		bx := place(decvGuard[T](c.X, 0), off)
		bd := place(decvGuard[T](c.Y, 0), doff(off))
		call(bd.view, c.IncD, dec[T](c.A, 0), bx.view, c.N, c.IncX)
		if i, ok := sameVecGuard(bd.view, c.W, 0); !ok {
			return "", fmt.Sprintf("incx=%d incdst=%d a=%v: dst backing array differs from spec at %d: %s", c.IncX, c.IncD, dec[T](c.A, 0), i, show(bd.view))
		}
		if i, ok := sameVecGuard(bx.view, c.X, 0); !ok || !bx.intact() || !bd.intact() {
			return "", fmt.Sprintf("x modified at %d or wrote outside the backing arrays", i)
		}
		return "", ""
	})
}

func runAxpyIncTo[T num](r *runner, c *pcase, name string, call func(dst []T, id, od int, a T, x, y []T, n, ix, iy, ox, oy int)) {
	r.each(c, name, func(off int) (string, string) {
		bx := place(decvGuard[T](c.X, 0), off)
		by := place(decvGuard[T](c.Y, 0), yoff(off))
		init := make([]T, len(c.W))
		for i := range init {
			init[i] = dec[T](guardCode, 0)
		}
		bd := place(init, doff(off))
		call(bd.view, c.IncD, c.Offs[2], dec[T](c.A, 0), bx.view, by.view, c.N, c.IncX, c.IncY, c.Offs[0], c.Offs[1])
		if i, ok := sameVecGuard(bd.view, c.W, 0); !ok {
			return "", fmt.Sprintf("inc=(%d,%d,%d) start=%v a=%v: dst backing array differs from spec at %d: %s", c.IncX, c.IncY, c.IncD, c.Offs, dec[T](c.A, 0), i, show(bd.view))
		}
		if _, ok := sameVecGuard(bx.view, c.X, 0); !ok {
			return "", "x modified"
		}
		if _, ok := sameVecGuard(by.view, c.Y, 0); !ok {
			return "", "y modified"
		}
		if !bx.intact() || !by.intact() || !bd.intact() {
			return "", "wrote outside the backing arrays"
		}
		return "", ""
	})
}

func runCScalIncTo[T cnum](r *runner, c *pcase, name string, call func(dst []T, id int, a T, x []T, n, ix int)) {
	r.each(c, name, func(off int) (string, string) {
		bx := cplace(cdecv[T](c.X, 0), coff[T](off))
		bd := cplace(cdecv[T](c.Y, 0), coff[T](doff(off)))
		call(bd.view, c.IncD, T(complex(float64(c.A), float64(c.AI))), bx.view, c.N, c.IncX)
		if i, ok := csameVec(bd.view, c.W, 0); !ok {
			return "", fmt.Sprintf("incx=%d incdst=%d a=(%d%+di): dst backing array differs from spec at %d: %v", c.IncX, c.IncD, c.A, c.AI, i, bd.view)
		}
		if _, ok := csameVec(bx.view, c.X, 0); !ok || !bx.intact() || !bd.intact() {
			return "", "x modified or wrote outside the backing arrays"
		}
		return "", ""
	})
}

func runCAxpyIncTo[T cnum](r *runner, c *pcase, name string, call func(dst []T, id, od int, a T, x, y []T, n, ix, iy, ox, oy int)) {
	r.each(c, name, func(off int) (string, string) {
		bx := cplace(cdecv[T](c.X, 0), coff[T](off))
		by := cplace(cdecv[T](c.Y, 0), coff[T](yoff(off)))
		init := make([]T, len(c.W)/2)
		for i := range init {
			init[i] = T(complex(float64(guardCode), float64(guardCode)))
		}
		bd := cplace(init, coff[T](doff(off)))
		call(bd.view, c.IncD, c.Offs[2], T(complex(float64(c.A), float64(c.AI))), bx.view, by.view, c.N, c.IncX, c.IncY, c.Offs[0], c.Offs[1])
		if i, ok := csameVec(bd.view, c.W, 0); !ok {
			return "", fmt.Sprintf("inc=(%d,%d,%d) start=%v a=(%d%+di): dst backing array differs from spec at %d: %v", c.IncX, c.IncY, c.IncD, c.Offs, c.A, c.AI, i, bd.view)
		}
		if _, ok := csameVec(bx.view, c.X, 0); !ok {
			return "", "x modified"
		}
		if _, ok := csameVec(by.view, c.Y, 0); !ok {
			return "", "y modified"
		}
		if !bx.intact() || !by.intact() || !bd.intact() {
			return "", "wrote outside the backing arrays"
		}
		return "", ""
	})
}

// ---- internal/math32, internal/cmplx64 -----------------------------------------------------------

func runM32(r *runner, c *pcase) {
	x := decv[float32](c.X, 0)
	r.once(c, c.G, func() (string, string) {
		bad := func(got any) (string, string) {
			return "", fmt.Sprintf("%s(%v) = %v, spec %v / %v / %v", c.G, x, got, dec[float64](c.S, 0), c.B, decv[float64](c.W, 0))
		}
		switch c.G {
		case "math32.Copysign":
			if g := math32.Copysign(x[0], x[1]); !same(g, c.S, 0) {
				return bad(g)
			}
		case "math32.Max":
			if g := math32.Max(x[0], x[1]); !same(g, c.S, 0) {
				return bad(g)
			}
		case "math32.Min":
			if g := math32.Min(x[0], x[1]); !same(g, c.S, 0) {
				return bad(g)
			}
		case "math32.Signbit":
			if g := math32.Signbit(x[0]); g != c.B {
				return bad(g)
			}
		case "math32.Hypot", "cmplx64.Abs":
			g := math32.Hypot(x[0], x[1])
			if c.G == "cmplx64.Abs" {
				g = cmplx64.Abs(complex(x[0], x[1]))
			}
			if isSpecial(c.S) && !same(g, c.S, 0) || !isSpecial(c.S) && !near(float64(g), c.S, 0, c.Tol, 23, c.S, -149) {
				return bad(g)
			}
		case "cmplx64.IsInf":
			if g := cmplx64.IsInf(complex(x[0], x[1])); g != c.B {
				return bad(g)
			}
		case "cmplx64.IsNaN":
			if g := cmplx64.IsNaN(complex(x[0], x[1])); g != c.B {
				return bad(g)
			}
		case "cmplx64.Inf":
			if g := cmplx64.Inf(); !same(real(g), c.W[0], 0) || !same(imag(g), c.W[1], 0) {
				return bad(g)
			}
		case "cmplx64.NaN":
			if g := cmplx64.NaN(); !same(real(g), c.W[0], 0) || !same(imag(g), c.W[1], 0) {
				return bad(g)
			}
		case "cmplx64.Sqrt":
			g := cmplx64.Sqrt(complex(x[0], x[1]))
			if !near(float64(real(g)), c.W[0], 0, c.Tol, 23, c.M, -149) || !near(float64(imag(g)), c.W[1], 0, c.Tol, 23, c.M, -149) {
				return bad(g)
			}
		default:
			return "", "no binding for " + c.G
		}
		return "", ""
	})
}
