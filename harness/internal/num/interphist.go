package num

import (
	"bufio"
	"encoding/json"
	"fmt"
	"math"
	"os"
	"strconv"
	"strings"

	"gonum.org/v1/gonum/interp"

	"gonum.org/v1/gonum/verifharness/internal/core"
)

// InterpHist.tla: histories of Fit calls on ONE predictor value.  A step is either a good Fit with the
// complete Interp.tla case of its data (exact answers at the knots, inside every piece, and at earlier
// knots / midpoints that lie inside the new range) or a failing call (arguments the documentation
// excludes, or the underdetermined not-a-knot problem) after which nothing is promised until the next
// good Fit.  spec->code (replay kind "interphist"): after every good step the one object must give the
// specification's answers for that step's data.  code->spec (record area "num-interphist"): the answers
// of the refitted object and of fresh objects at points OUTSIDE the knots, where the documentation fixes
// no value, are written out for InterpHistTrace.tla (state = data of the last good Fit; an answer is a
// function of state and query point).
type ihStep struct {
	Bad  string          `json:"bad"` // "ok" or why the call fails
	X    []int64         `json:"x"`
	Y    []int64         `json:"y"`
	Dydx []int64         `json:"dydx"`
	Ox   []Q             `json:"ox"` // query points outside the knot range
	Case json.RawMessage `json:"case"`
}

type ihCase struct {
	Kind  string   `json:"kind"`
	M     string   `json:"m"`
	H     int      `json:"h"`
	Dv    int      `json:"dv"`
	Steps []ihStep `json:"steps"`
}

// failingFit makes a call that the specification lists as failing; what it did is only counted
// (whether the documented panics happen is the business of the contract table of GaussHermite.tla).
func failingFit(st *ihStep, fit func(xs, ys, ds []float64) error, count func(string)) {
	var err error
	o := core.CallTimeout(20e9, func() { err = fit(fl(st.X), fl(st.Y), fl(st.Dydx)) })
	switch {
	case o.Hung:
		count("failing_step_hung")
	case o.Panicked:
		count("failing_step_panicked")
	case err != nil:
		count("failing_step_returned_error")
	default:
		count("failing_step_accepted")
	}
}

func ihHandler(line []byte, sum *core.Summary) error {
	var h ihCase
	if err := json.Unmarshal(line, &h); err != nil {
		return err
	}
	name := "interp." + ipNames[h.M]
	p, fit := newInterp(h.M)
	if p == nil {
		return fmt.Errorf("unknown interpolator %q", h.M)
	}
	sum.Cases++
	good := 0
	for k := range h.Steps {
		st := &h.Steps[k]
		if st.Bad != "ok" {
			failingFit(st, fit, func(s string) { sum.Count("history_"+s, 1) })
			continue
		}
		var c ipCase
		if err := json.Unmarshal(st.Case, &c); err != nil {
			return err
		}
		sum.Count("history_good_steps", 1)
		tag := ":history"
		if good == 0 {
			tag = ":history-first-fit" // first good Fit of the object (a fresh object unless a failing call came first)
		}
		good++
		if !fitGood(&c, fit, name, tag, h, sum) {
			return nil
		}
		if !checkQueries(p, &c, name, tag, h, sum) {
			return nil
		}
	}
	if good >= 2 {
		sum.Nontrivial++
	}
	return nil
}

func init() {
	handlers["interphist"] = ihHandler
	core.RegisterRecord("num-interphist", recordInterpHist)
}

// ---- code->spec --------------------------------------------------------------------------------

type ihEvent struct {
	Ev   string  `json:"ev"` // reset | fit | predict
	Obj  int     `json:"obj"`
	M    string  `json:"m"`
	X    []int64 `json:"x"`
	Y    []int64 `json:"y"`
	Dydx []int64 `json:"dydx"`
	Ok   bool    `json:"ok"`
	Qx   []int64 `json:"qx"` // <<num, den>>
	V    string  `json:"v"`  // bits of the float64 Predict returned (hex), "panic"
	D    string  `json:"d"`  // PredictDerivative likewise, "none" if the type has no derivative
	Hist int     `json:"hist"`
}

func bits(f float64) string { return strconv.FormatUint(math.Float64bits(f), 16) }

func nz(s []int64) []int64 {
	if s == nil {
		return []int64{}
	}
	return s
}

// recordInterpHist: args cases=<ndjson file printed by InterpHist.tla>.
// Per history: the history object (obj 0) goes through all steps; after every good step it answers the
// step's outside points; then, for every good step, a FRESH object (obj k) is fitted with that step's
// data and answers the same points.
func recordInterpHist(out *core.Out, args []string, seed int64, sum *core.Summary) error {
	path := ""
	for _, a := range args {
		if strings.HasPrefix(a, "cases=") {
			path = a[len("cases="):]
		}
	}
	f, err := os.Open(path)
	if err != nil {
		return err
	}
	defer f.Close()
	sc := bufio.NewScanner(f)
	sc.Buffer(make([]byte, 1<<20), 1<<28)
	nh := 0
	for sc.Scan() {
		if len(sc.Bytes()) == 0 {
			continue
		}
		var h ihCase
		if err := json.Unmarshal(sc.Bytes(), &h); err != nil {
			return err
		}
		if h.Kind != "interphist" {
			continue
		}
		nh++
		name := "interp." + ipNames[h.M]
		out.Emit(ihEvent{Ev: "reset", M: h.M, X: []int64{}, Y: []int64{}, Dydx: []int64{}, Qx: []int64{0, 1}, Ok: true, Hist: nh})
		ask := func(obj int, p interp.Predictor, st *ihStep) {
			dp, hasD := p.(interp.DerivativePredictor)
			for _, q := range st.Ox {
				x := q.F()
				e := ihEvent{Ev: "predict", Obj: obj, M: h.M, X: []int64{}, Y: []int64{}, Dydx: []int64{}, Ok: true, Qx: []int64{q[0], q[1]}, D: "none", Hist: nh}
				var v, d float64
				o := core.Call(func() {
					v = p.Predict(x)
					if hasD {
						d = dp.PredictDerivative(x)
					}
				})
				if o.Panicked {
					e.V, e.D = "panic", "panic"
					sum.Fail("num:"+name+":history:panic-outside-knots",
						fmt.Sprintf("Predict / PredictDerivative(%v) panicked after a successful Fit on knots %v (object %d of history %d/%d: 0 = refitted, else fresh): %s",
							x, st.X, obj, h.H, h.Dv, o.Text), h)
				} else {
					e.V = bits(v)
					if hasD {
						e.D = bits(d)
					}
				}
				out.Emit(e)
				sum.Events++
			}
		}
		do := func(obj int, p interp.Predictor, fit func(xs, ys, ds []float64) error, st *ihStep) bool {
			var ferr error
			o := core.CallTimeout(20e9, func() { ferr = fit(fl(st.X), fl(st.Y), fl(st.Dydx)) })
			ok := !o.Hung && !o.Panicked && ferr == nil
			out.Emit(ihEvent{Ev: "fit", Obj: obj, M: h.M, X: nz(st.X), Y: nz(st.Y), Dydx: nz(st.Dydx), Ok: ok, Qx: []int64{0, 1}, Hist: nh})
			sum.Events++
			return ok
		}
		p0, fit0 := newInterp(h.M)
		if p0 == nil {
			return fmt.Errorf("unknown interpolator %q", h.M)
		}
		for k := range h.Steps {
			st := &h.Steps[k]
			ok := do(0, p0, fit0, st)
			if st.Bad == "ok" && ok {
				ask(0, p0, st)
			}
			// (a good step that fails is reported by the replay of the same file)
		}
		for k := range h.Steps {
			st := &h.Steps[k]
			if st.Bad != "ok" {
				continue
			}
			p, fit := newInterp(h.M)
			if do(k+1, p, fit, st) {
				ask(k+1, p, st)
			}
		}
		sum.Traces++
	}
	return sc.Err()
}
