package num

import (
	"encoding/json"
	"fmt"
	"math/big"

	"gonum.org/v1/gonum/interp"

	"gonum.org/v1/gonum/verifharness/internal/core"
)

// Interp.tla cases: integer knots and data, queries at knots and dyadic interior points.
type ipCase struct {
	Kind string  `json:"kind"`
	M    string  `json:"m"`
	N    int     `json:"n"`
	Dv   int     `json:"dv"`
	X    []int64 `json:"x"`
	Y    []int64 `json:"y"`
	Dydx []int64 `json:"dydx"`
	Tolu int64   `json:"tolu"`
	Ymax int64   `json:"ymax"`
	Qx   []Q     `json:"qx"`
	Qv   []Q     `json:"qv"`
	Qd   []Q     `json:"qd"`
	Qmv  []Q     `json:"qmv"`
	Qmd  []Q     `json:"qmd"`
	Qk   []bool  `json:"qk"`
}

var ipNames = map[string]string{"const": "PiecewiseConstant", "linear": "PiecewiseLinear", "pwcubic": "PiecewiseCubic",
	"akima": "AkimaSpline", "fb": "FritschButland", "natural": "NaturalCubic", "clamped": "ClampedCubic", "notaknot": "NotAKnotCubic"}

func ipHandler(line []byte, sum *core.Summary) error {
	var c ipCase
	if err := json.Unmarshal(line, &c); err != nil {
		return err
	}
	name := "interp." + ipNames[c.M]
	xs, ys, ds := fl(c.X), fl(c.Y), fl(c.Dydx)
	var p interp.Predictor
	var fitErr error
	o := core.CallTimeout(20e9, func() {
		switch c.M {
		case "const":
			q := &interp.PiecewiseConstant{}
			fitErr = q.Fit(xs, ys)
			p = q
		case "linear":
			q := &interp.PiecewiseLinear{}
			fitErr = q.Fit(xs, ys)
			p = q
		case "pwcubic":
			q := &interp.PiecewiseCubic{}
			q.FitWithDerivatives(xs, ys, ds)
			p = q
		case "akima":
			q := &interp.AkimaSpline{}
			fitErr = q.Fit(xs, ys)
			p = q
		case "fb":
			q := &interp.FritschButland{}
			fitErr = q.Fit(xs, ys)
			p = q
		case "natural":
			q := &interp.NaturalCubic{}
			fitErr = q.Fit(xs, ys)
			p = q
		case "clamped":
			q := &interp.ClampedCubic{}
			fitErr = q.Fit(xs, ys)
			p = q
		case "notaknot":
			q := &interp.NotAKnotCubic{}
			fitErr = q.Fit(xs, ys)
			p = q
		}
	})
	if !o.Panicked && !o.Hung && p == nil {
		return fmt.Errorf("unknown interpolator %q", c.M)
	}
	sum.Cases++
	if c.N >= 3 {
		sum.Nontrivial++
	}
	switch {
	case o.Hung:
		sum.Fail("num:"+name+":hang", o.Text, c)
		return nil
	case o.Panicked:
		sum.Fail("num:"+name+":panic", "Fit panicked on valid data: "+o.Text, c)
		return nil
	case fitErr != nil:
		sum.Fail("num:"+name+":fit-error", "Fit returned an error on a well-posed problem: "+fitErr.Error(), c)
		return nil
	}
	dp, hasD := p.(interp.DerivativePredictor)
	unit := mulInt(pow2(-52), c.Tolu)
	ym := big.NewRat(c.Ymax, 1)
	for i := range c.Qx {
		x := c.Qx[i].F()
		var v, d float64
		o := core.Call(func() {
			v = p.Predict(x)
			if hasD {
				d = dp.PredictDerivative(x)
			}
		})
		sum.Count("queries", 1)
		if o.Panicked {
			sum.Fail("num:"+name+":panic", fmt.Sprintf("Predict(%v) panicked: %s", x, o.Text), c)
			return nil
		}
		tolv := new(big.Rat).Mul(unit, new(big.Rat).Add(c.Qmv[i].Rat(), ym))
		if !within(v, c.Qv[i].Rat(), tolv) {
			kind := "value"
			if c.Qk[i] {
				kind = "knot-value"
			}
			sum.Fail("num:"+name+":"+kind, fmt.Sprintf("Predict(%v) = %v, the interpolant's exact value is %s (allowance %s); knots %v data %v",
				x, v, c.Qv[i].Rat().RatString(), tolv.FloatString(18), c.X, c.Y), c)
			return nil
		}
		if c.Tolu > 0 {
			noteRatio(name, errRatio(v, c.Qv[i].Rat(), tolv))
		}
		if hasD {
			told := new(big.Rat).Mul(unit, new(big.Rat).Add(c.Qmd[i].Rat(), ym))
			if !within(d, c.Qd[i].Rat(), told) {
				sum.Fail("num:"+name+":derivative", fmt.Sprintf("PredictDerivative(%v) = %v, exact %s (allowance %s); knots %v data %v",
					x, d, c.Qd[i].Rat().RatString(), told.FloatString(18), c.X, c.Y), c)
				return nil
			}
			noteRatio(name+":derivative", errRatio(d, c.Qd[i].Rat(), told))
		}
	}
	if c.N == 4 && c.Dv == 1 {
		sum.Sample(map[string]any{"routine": name, "x": c.X, "y": c.Y, "query": c.Qx[len(c.Qx)-1], "spec_value": c.Qv[len(c.Qv)-1], "got": p.Predict(c.Qx[len(c.Qx)-1].F())})
	}
	return nil
}

func init() { handlers["interp"] = ipHandler }
