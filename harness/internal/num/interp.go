package num

import (
	"encoding/json"
	"fmt"
	"math/big"

	"gonum.org/v1/gonum/interp"

	"gonum.org/v1/gonum/verifharness/internal/core"
)

// Interp.tla cases: integer knots and data, queries at knots and dyadic interior points.
type ipCase struct {
	Kind string  `json:"kind"`
	M    string  `json:"m"`
	N    int     `json:"n"`
	Dv   int     `json:"dv"`
	X    []int64 `json:"x"`
	Y    []int64 `json:"y"`
	Dydx []int64 `json:"dydx"`
	Tolu int64   `json:"tolu"`
	Ymax int64   `json:"ymax"`
	Qx   []Q     `json:"qx"`
	Qv   []Q     `json:"qv"`
	Qd   []Q     `json:"qd"`
	Qmv  []Q     `json:"qmv"`
	Qmd  []Q     `json:"qmd"`
	Qk   []bool  `json:"qk"`
}

var ipNames = map[string]string{"const": "PiecewiseConstant", "linear": "PiecewiseLinear", "pwcubic": "PiecewiseCubic",
	"akima": "AkimaSpline", "fb": "FritschButland", "natural": "NaturalCubic", "clamped": "ClampedCubic", "notaknot": "NotAKnotCubic"}

// newInterp returns a zero value of the interpolant type named m and its fitting call
// (Fit, or FitWithDerivatives for PiecewiseCubic); nil for an unknown name.
func newInterp(m string) (interp.Predictor, func(xs, ys, ds []float64) error) {
	switch m {
	case "const":
		q := &interp.PiecewiseConstant{}
		return q, func(xs, ys, _ []float64) error { return q.Fit(xs, ys) }
	case "linear":
		q := &interp.PiecewiseLinear{}
		return q, func(xs, ys, _ []float64) error { return q.Fit(xs, ys) }
	case "pwcubic":
		q := &interp.PiecewiseCubic{}
		return q, func(xs, ys, ds []float64) error { q.FitWithDerivatives(xs, ys, ds); return nil }
	case "akima":
		q := &interp.AkimaSpline{}
		return q, func(xs, ys, _ []float64) error { return q.Fit(xs, ys) }
	case "fb":
		q := &interp.FritschButland{}
		return q, func(xs, ys, _ []float64) error { return q.Fit(xs, ys) }
	case "natural":
		q := &interp.NaturalCubic{}
		return q, func(xs, ys, _ []float64) error { return q.Fit(xs, ys) }
	case "clamped":
		q := &interp.ClampedCubic{}
		return q, func(xs, ys, _ []float64) error { return q.Fit(xs, ys) }
	case "notaknot":
		q := &interp.NotAKnotCubic{}
		return q, func(xs, ys, _ []float64) error { return q.Fit(xs, ys) }
	}
	return nil, nil
}

// fitGood makes the fitting call of a well-posed case; it reports a hang, a panic or an error return.
// tag is appended to the routine name in signatures (":history" for refits), whole is the replayable case.
func fitGood(c *ipCase, fit func(xs, ys, ds []float64) error, name, tag string, whole any, sum *core.Summary) bool {
	xs, ys, ds := fl(c.X), fl(c.Y), fl(c.Dydx)
	var fitErr error
	o := core.CallTimeout(20e9, func() { fitErr = fit(xs, ys, ds) })
	switch {
	case o.Hung:
		sum.Fail("num:"+name+tag+":hang", o.Text, whole)
		return false
	case o.Panicked:
		sum.Fail("num:"+name+tag+":panic", fmt.Sprintf("Fit panicked on valid data (knots %v data %v): %s", c.X, c.Y, o.Text), whole)
		return false
	case fitErr != nil:
		sum.Fail("num:"+name+tag+":fit-error", fmt.Sprintf("Fit returned an error on a well-posed problem (knots %v data %v): %s", c.X, c.Y, fitErr.Error()), whole)
		return false
	}
	return true
}

// checkQueries compares Predict / PredictDerivative of a fitted p with the exact values of the case.
func checkQueries(p interp.Predictor, c *ipCase, name, tag string, whole any, sum *core.Summary) bool {
	dp, hasD := p.(interp.DerivativePredictor)
	unit := mulInt(pow2(-52), c.Tolu)
	ym := big.NewRat(c.Ymax, 1)
	for i := range c.Qx {
		x := c.Qx[i].F()
		var v, d float64
		o := core.Call(func() {
			v = p.Predict(x)
			if hasD {
				d = dp.PredictDerivative(x)
			}
		})
		sum.Count("queries", 1)
		if o.Panicked {
			sum.Fail("num:"+name+tag+":panic", fmt.Sprintf("Predict(%v) panicked: %s; knots %v data %v", x, o.Text, c.X, c.Y), whole)
			return false
		}
		tolv := new(big.Rat).Mul(unit, new(big.Rat).Add(c.Qmv[i].Rat(), ym))
		if !within(v, c.Qv[i].Rat(), tolv) {
			kind := "value"
			if c.Qk[i] {
				kind = "knot-value"
			}
			sum.Fail("num:"+name+tag+":"+kind, fmt.Sprintf("Predict(%v) = %v, the interpolant's exact value is %s (allowance %s); knots %v data %v",
				x, v, c.Qv[i].Rat().RatString(), tolv.FloatString(18), c.X, c.Y), whole)
			return false
		}
		if c.Tolu > 0 {
			noteRatio(name, errRatio(v, c.Qv[i].Rat(), tolv))
		}
		if hasD {
			told := new(big.Rat).Mul(unit, new(big.Rat).Add(c.Qmd[i].Rat(), ym))
			if !within(d, c.Qd[i].Rat(), told) {
				sum.Fail("num:"+name+tag+":derivative", fmt.Sprintf("PredictDerivative(%v) = %v, exact %s (allowance %s); knots %v data %v",
					x, d, c.Qd[i].Rat().RatString(), told.FloatString(18), c.X, c.Y), whole)
				return false
			}
			noteRatio(name+":derivative", errRatio(d, c.Qd[i].Rat(), told))
		}
	}
	return true
}

func ipHandler(line []byte, sum *core.Summary) error {
	var c ipCase
	if err := json.Unmarshal(line, &c); err != nil {
		return err
	}
	name := "interp." + ipNames[c.M]
	p, fit := newInterp(c.M)
	if p == nil {
		return fmt.Errorf("unknown interpolator %q", c.M)
	}
	sum.Cases++
	if c.N >= 3 {
		sum.Nontrivial++
	}
	if !fitGood(&c, fit, name, "", c, sum) {
		return nil
	}
	if !checkQueries(p, &c, name, "", c, sum) {
		return nil
	}
	if c.N == 4 && c.Dv == 1 {
		sum.Sample(map[string]any{"routine": name, "x": c.X, "y": c.Y, "query": c.Qx[len(c.Qx)-1], "spec_value": c.Qv[len(c.Qv)-1], "got": p.Predict(c.Qx[len(c.Qx)-1].F())})
	}
	return nil
}

func init() { handlers["interp"] = ipHandler }
