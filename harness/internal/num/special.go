package num

import (
	"encoding/json"
	"fmt"
	"math"
	"math/big"
	"strings"

	"gonum.org/v1/gonum/num/dual"
	"gonum.org/v1/gonum/num/dualcmplx"
	"gonum.org/v1/gonum/num/dualquat"
	"gonum.org/v1/gonum/num/hyperdual"

	"gonum.org/v1/gonum/verifharness/internal/core"
)

// DualFun.tla special-value tables: arguments and expected results are printed as tokens
// ("nan", "inf", "-inf", "0", "-0", "z", "pi", "pi/2", "-pi/2", "N", "anyinf", "any" or a rational "n/d").

// tokFloat decodes an argument token.
func tokFloat(t string) (float64, error) {
	switch t {
	case "nan":
		return math.NaN(), nil
	case "inf":
		return math.Inf(1), nil
	case "-inf":
		return math.Inf(-1), nil
	case "0":
		return 0, nil
	case "-0":
		return math.Copysign(0, -1), nil
	}
	r, ok := new(big.Rat).SetString(t)
	if !ok {
		return 0, fmt.Errorf("bad token %q", t)
	}
	f, _ := r.Float64()
	return f, nil
}

// tokMatch reports whether got is the value a result token names; in is the incoming dual part ("N").
func tokMatch(t string, got, in float64) (bool, error) {
	switch t {
	case "any":
		return true, nil
	case "nan":
		return math.IsNaN(got), nil
	case "inf":
		return math.IsInf(got, 1), nil
	case "-inf":
		return math.IsInf(got, -1), nil
	case "anyinf":
		return math.IsInf(got, 0), nil
	case "0":
		return got == 0 && !math.Signbit(got), nil
	case "-0":
		return got == 0 && math.Signbit(got), nil
	case "z":
		return got == 0, nil
	case "N":
		return got == in, nil
	case "pi":
		return got == math.Pi, nil
	case "pi/2":
		return got == math.Pi/2, nil
	case "-pi/2":
		return got == -math.Pi/2, nil
	}
	w, err := tokFloat(t)
	if err != nil {
		return false, err
	}
	return got == w, nil
}

type dspecCase struct {
	Kind string `json:"kind"`
	T    string `json:"t"`
	F    string `json:"f"`
	X    string `json:"x"`
	P    string `json:"p"`
	E    string `json:"e"`
	D    string `json:"d"`
}

func dspecHandler(line []byte, sum *core.Summary) error {
	var c dspecCase
	if err := json.Unmarshal(line, &c); err != nil {
		return err
	}
	x, err := tokFloat(c.X)
	if err != nil {
		return err
	}
	var p float64
	if c.F == "PowReal" {
		if p, err = tokFloat(c.P); err != nil {
			return err
		}
	}
	pkg := map[string]string{"dual": "dual", "hyper": "hyperdual"}[c.T]
	if pkg == "" {
		return fmt.Errorf("unknown type %q", c.T)
	}
	var in, got []float64
	known := true
	o := core.Call(func() {
		if c.T == "dual" {
			in = []float64{x, 2}
			a := mkD(in)
			if c.F == "PowReal" {
				got = unD(dual.PowReal(a, p))
			} else if fn := dualFuns[c.F]; fn != nil {
				got = unD(fn(a))
			} else {
				known = false
			}
			return
		}
		in = []float64{x, 2, 3, 0}
		a := mkH(in)
		if c.F == "PowReal" {
			got = unH(hyperdual.PowReal(a, p))
		} else if fn := hyperFuns[c.F]; fn != nil {
			got = unH(fn(a))
		} else {
			known = false
		}
	})
	if !known {
		return fmt.Errorf("unknown function %s.%s", c.T, c.F)
	}
	sum.Cases++
	sum.Nontrivial++
	name := pkg + "." + c.F
	if o.Panicked {
		failOnce(sum, "num:"+name+":special:panic", o.Text, c)
		return nil
	}
	arg := c.X
	if c.F == "PowReal" {
		arg += ", " + c.P
	}
	if ok, err := tokMatch(c.E, got[0], in[0]); err != nil {
		return err
	} else if !ok {
		failOnce(sum, "num:"+name+":special:Real", fmt.Sprintf("%s(%s) = %v, the documented real part is %s", name, arg, got, c.E), c)
		return nil
	}
	nd := 1
	if c.T == "hyper" {
		nd = 2 // the first-order parts e1, e2
	}
	for i := 1; i <= nd; i++ {
		if ok, err := tokMatch(c.D, got[i], in[i]); err != nil {
			return err
		} else if !ok {
			failOnce(sum, "num:"+name+":special:"+dfComp[c.T][i], fmt.Sprintf("%s(%s with dual parts %v) = %v, the documented %s is %s", name, arg, in[1:], got, dfComp[c.T][i], c.D), c)
			return nil
		}
	}
	return nil
}

type lspecCase struct {
	Kind string   `json:"kind"`
	T    string   `json:"t"`
	F    string   `json:"f"`
	X    []string `json:"x"`
	P    string   `json:"p"`
	Er   string   `json:"er"`
	Ed   string   `json:"ed"`
	Xc   string   `json:"xc"`
	Dc   string   `json:"dc"`
}

// partClass checks a quaternion / complex part (component slice) against a class name.
func partClass(cls string, got, in []float64) bool {
	anyInf, anyNaN := false, false
	for _, v := range got {
		anyInf = anyInf || math.IsInf(v, 0)
		anyNaN = anyNaN || math.IsNaN(v)
	}
	switch cls {
	case "any":
		return true
	case "inf":
		return anyInf
	case "nan":
		return anyNaN && !anyInf
	case "one", "zero":
		for i, v := range got {
			w := 0.0
			if cls == "one" && i == 0 {
				w = 1
			}
			if v != w {
				return false
			}
		}
		return true
	case "same":
		for i, v := range got {
			if v != in[i] {
				return false
			}
		}
		return true
	}
	return false
}

func lspecHandler(line []byte, sum *core.Summary) error {
	var c lspecCase
	if err := json.Unmarshal(line, &c); err != nil {
		return err
	}
	in := make([]float64, len(c.X))
	for i, t := range c.X {
		v, err := tokFloat(t)
		if err != nil {
			return err
		}
		in[i] = v
	}
	p, err := tokFloat(c.P)
	if err != nil {
		return err
	}
	var got []float64
	var name string
	o := core.Call(func() {
		switch c.T + "." + c.F {
		case "dquat.PowReal":
			name = "dualquat.PowReal"
			got = unDQ(dualquat.PowReal(mkDQ(in), p))
		case "dcmplx.PowReal":
			name = "dualcmplx.PowReal"
			got = unDC(dualcmplx.PowReal(mkDC(in), p))
		case "dquat.Log":
			name = "dualquat.Log"
			got = unDQ(dualquat.Log(mkDQ(in)))
		case "dcmplx.Log":
			name = "dualcmplx.Log"
			got = unDC(dualcmplx.Log(mkDC(in)))
		}
	})
	if name == "" {
		return fmt.Errorf("unknown special-value routine %s.%s", c.T, c.F)
	}
	sum.Cases++
	sum.Nontrivial++
	desc := fmt.Sprintf("%s(leading part %s (%s), dual part %s, %s)", name, c.Xc, strings.Join(c.X[:len(c.X)/2], ","), c.Dc, c.P)
	if o.Panicked {
		failOnce(sum, "num:"+name+":special:panic", desc+": "+o.Text, c)
		return nil
	}
	h := len(got) / 2
	if !partClass(c.Er, got[:h], in[:h]) {
		failOnce(sum, "num:"+name+":special:Real", fmt.Sprintf("%s = %v: the documented leading part is %s", desc, got, c.Er), c)
		return nil
	}
	if !partClass(c.Ed, got[h:], in[h:]) {
		failOnce(sum, "num:"+name+":special:Dual", fmt.Sprintf("%s = %v: the documented dual part is %s", desc, got, c.Ed), c)
	}
	return nil
}

func init() {
	handlers["dspec"] = dspecHandler
	handlers["lspec"] = lspecHandler
}
