package num

import (
	"encoding/json"
	"fmt"
	"sync"

	"gonum.org/v1/gonum/diff/fd"
	"gonum.org/v1/gonum/mat"

	"gonum.org/v1/gonum/verifharness/internal/core"
)

// FiniteDiff.tla cases: the integrand is an integer-coefficient polynomial given as terms
// [c, e1, ..., en]; on the dyadic points used its float evaluation is exact.
type fdCase struct {
	Kind    string    `json:"kind"`
	R       string    `json:"r"`
	F       string    `json:"f"`
	D       int       `json:"d"`
	K       int       `json:"k"`
	P       int       `json:"p"`
	Known   *bool     `json:"known,omitempty"` // set when a failure is replayed alone
	Conc    *bool     `json:"conc,omitempty"`
	Reuse   *bool     `json:"reuse,omitempty"` // the destination is non-empty and holds stale non-zero values
	X       []Q       `json:"x"`
	H       Q         `json:"h"`
	Terms   [][]int64 `json:"terms"`
	Terms2  [][]int64 `json:"terms2"`
	Origin  Q         `json:"origin"`
	Origin2 Q         `json:"origin2"`
	E       [][]Q     `json:"e"`
	Exact   bool      `json:"exact"`
}

var fdFormulas = map[string]fd.Formula{
	"Forward": fd.Forward, "Backward": fd.Backward, "Central": fd.Central,
	"Forward2nd": fd.Forward2nd, "Backward2nd": fd.Backward2nd, "Central2nd": fd.Central2nd,
}

// polyEval evaluates sum c * prod x_i^e_i (monomials by repeated multiplication).
func polyEval(terms [][]int64, x []float64) float64 {
	s := 0.0
	for _, t := range terms {
		v := float64(t[0])
		for i, e := range t[1:] {
			for k := int64(0); k < e; k++ {
				v *= x[i]
			}
		}
		s += v
	}
	return s
}

func fdHandler(line []byte, sum *core.Summary) error {
	var c fdCase
	if err := json.Unmarshal(line, &c); err != nil {
		return err
	}
	for _, known := range []bool{false, true} {
		for _, conc := range []bool{false, true} {
			if (c.Known != nil && *c.Known != known) || (c.Conc != nil && *c.Conc != conc) {
				continue
			}
			for _, reuse := range []bool{false, true} {
				if c.Reuse != nil && *c.Reuse != reuse {
					continue
				}
				if reuse && c.R != "Gradient" && c.R != "Jacobian" && c.R != "Hessian" {
					continue // no destination argument
				}
				one := c
				k, cc, ru := known, conc, reuse
				one.Known, one.Conc, one.Reuse = &k, &cc, &ru
				if err := fdOne(one, known, conc, reuse, sum); err != nil {
					return err
				}
			}
		}
	}
	return nil
}

func fdOne(c fdCase, known, conc, reuse bool, sum *core.Summary) error {
	x := make([]float64, len(c.X))
	for i, q := range c.X {
		x[i] = q.F()
	}
	x0 := append([]float64(nil), x...)
	h := c.H.F()
	formula, ok := fdFormulas[c.F]
	if !ok {
		return fmt.Errorf("unknown formula %q", c.F)
	}
	var mu sync.Mutex
	calls, originCalls := 0, 0
	note := func(p []float64, q []float64) {
		mu.Lock()
		calls++
		same := true
		for i := range p {
			if p[i] != x0[i] {
				same = false
			}
		}
		for i := range q {
			if q[i] != x0[len(p)+i] {
				same = false
			}
		}
		if same {
			originCalls++
		}
		mu.Unlock()
	}
	f := func(p []float64) float64 { note(p, nil); return polyEval(c.Terms, p) }
	set := &fd.Settings{Formula: formula, Step: h, OriginKnown: known, Concurrent: conc}
	if known {
		set.OriginValue = c.Origin.F()
	}
	name := "fd." + c.R
	var got [][]float64
	o := core.CallTimeout(20e9, func() {
		switch c.R {
		case "Derivative":
			g := fd.Derivative(func(t float64) float64 { return f([]float64{t}) }, x[0], set)
			got = [][]float64{{g}}
		case "Gradient":
			var gdst []float64
			if reuse {
				gdst = make([]float64, len(x))
				for i := range gdst {
					gdst[i] = 7.5 + float64(i)
				}
			}
			got = [][]float64{fd.Gradient(gdst, f, x, set)}
		case "Jacobian":
			js := &fd.JacobianSettings{Formula: formula, Step: h, Concurrent: conc}
			if known {
				js.OriginValue = []float64{c.Origin.F(), c.Origin2.F()}
			}
			dst := mat.NewDense(2, len(x), nil)
			if reuse {
				for i := 0; i < 2; i++ {
					for j := range x {
						dst.Set(i, j, 7.5+float64(i*len(x)+j))
					}
				}
			}
			fd.Jacobian(dst, func(y, p []float64) {
				note(p, nil)
				y[0] = polyEval(c.Terms, p)
				y[1] = polyEval(c.Terms2, p)
			}, x, js)
			got = [][]float64{mat.Row(nil, 0, dst), mat.Row(nil, 1, dst)}
		case "Hessian":
			var dst mat.SymDense
			if reuse {
				dst = *mat.NewSymDense(len(x), nil)
				for i := range x {
					for j := i; j < len(x); j++ {
						dst.SetSym(i, j, 7.5+float64(i*len(x)+j))
					}
				}
			}
			fd.Hessian(&dst, f, x, set)
			n := dst.SymmetricDim()
			for i := 0; i < n; i++ {
				row := make([]float64, n)
				for j := range row {
					row[j] = dst.At(i, j)
				}
				got = append(got, row)
			}
		case "Laplacian":
			got = [][]float64{{fd.Laplacian(f, x, set)}}
		case "CrossLaplacian":
			d := len(x) / 2
			g := fd.CrossLaplacian(func(p, q []float64) float64 {
				note(p, q)
				return polyEval(c.Terms, append(append([]float64(nil), p...), q...))
			}, x[:d], x[d:], set)
			got = [][]float64{{g}}
		}
	})
	sum.Cases++
	if len(c.Terms) > 1 {
		sum.Nontrivial++
	}
	if c.Exact {
		sum.Count("cases_in_exactness_class:"+c.R, 1)
	}
	if o.Hung {
		sum.Fail("num:"+name+":hang", o.Text, c)
		return nil
	}
	if o.Panicked {
		sum.Fail("num:"+name+":panic", "unexpected panic: "+o.Text, c)
		return nil
	}
	if len(got) != len(c.E) {
		sum.Fail("num:"+name+":shape", fmt.Sprintf("result has %d rows, the specification %d", len(got), len(c.E)), c)
		return nil
	}
	for i := range c.E {
		if len(got[i]) != len(c.E[i]) {
			sum.Fail("num:"+name+":shape", fmt.Sprintf("row %d has %d entries, the specification %d", i, len(got[i]), len(c.E[i])), c)
			return nil
		}
		for j := range c.E[i] {
			if want := c.E[i][j].F(); !(got[i][j] == want) {
				sum.Fail("num:"+name+":value", fmt.Sprintf("entry (%d,%d): got %v, the stencil's exact value is %v (formula %s, step 2^-%d, OriginKnown=%v, Concurrent=%v, reused destination=%v)",
					i, j, got[i][j], want, c.F, c.K, known, conc, reuse), c)
				return nil
			}
		}
	}
	for i := range x {
		if x[i] != x0[i] {
			sum.Fail("num:"+name+":mutated-input", "x was modified", c)
			return nil
		}
	}
	// not a verdict (the documentation does not promise a number of calls): evaluations of f at the
	// origin although OriginKnown was set are only counted
	if known && originCalls > 0 && c.F != "Central" { // Central has no origin slot (x-h+h is a stencil point)
		sum.Count("drift:origin_evaluated_despite_OriginKnown:"+c.R+map[bool]string{true: ":concurrent", false: ":serial"}[conc], 1)
	}
	sum.Count("f_evaluations", calls)
	if c.D == 2 && c.P == 2 {
		sum.Sample(map[string]any{"routine": name, "formula": c.F, "x": c.X, "h": c.H, "terms": c.Terms, "spec_value": c.E, "got": got})
	}
	return nil
}

func init() { handlers["fd"] = fdHandler }
