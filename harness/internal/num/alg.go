package num

import (
	"encoding/json"
	"fmt"
	"math/big"

	"gonum.org/v1/gonum/num/dual"
	"gonum.org/v1/gonum/num/dualcmplx"
	"gonum.org/v1/gonum/num/dualquat"
	"gonum.org/v1/gonum/num/hyperdual"
	"gonum.org/v1/gonum/num/quat"

	"gonum.org/v1/gonum/verifharness/internal/core"
)

// DualAlgebra.tla cases. Elements are component vectors in the order of gonum's struct fields.
type algCase struct {
	Kind string  `json:"kind"`
	T    string  `json:"t"`
	Op   string  `json:"op"`
	X    []int64 `json:"x"`
	Y    []int64 `json:"y"`
	S    Q       `json:"s"`
	E    []Q     `json:"e"`
	Tolu int64   `json:"tolu"`
	Mag  Q       `json:"mag"`
	Note string  `json:"note"`
}

func fl(v []int64) []float64 {
	r := make([]float64, len(v))
	for i, a := range v {
		r[i] = float64(a)
	}
	return r
}

func mkQuat(v []float64) quat.Number { return quat.Number{Real: v[0], Imag: v[1], Jmag: v[2], Kmag: v[3]} }
func unQuat(q quat.Number) []float64 { return []float64{q.Real, q.Imag, q.Jmag, q.Kmag} }
func mkDQ(v []float64) dualquat.Number {
	return dualquat.Number{Real: mkQuat(v[:4]), Dual: mkQuat(v[4:])}
}
func unDQ(d dualquat.Number) []float64 { return append(unQuat(d.Real), unQuat(d.Dual)...) }
func mkDC(v []float64) dualcmplx.Number {
	return dualcmplx.Number{Real: complex(v[0], v[1]), Dual: complex(v[2], v[3])}
}
func unDC(d dualcmplx.Number) []float64 {
	return []float64{real(d.Real), imag(d.Real), real(d.Dual), imag(d.Dual)}
}
func mkH(v []float64) hyperdual.Number {
	return hyperdual.Number{Real: v[0], E1mag: v[1], E2mag: v[2], E1E2mag: v[3]}
}
func unH(d hyperdual.Number) []float64 { return []float64{d.Real, d.E1mag, d.E2mag, d.E1E2mag} }
func mkD(v []float64) dual.Number    { return dual.Number{Real: v[0], Emag: v[1]} }
func unD(d dual.Number) []float64    { return []float64{d.Real, d.Emag} }

// algCall dispatches one operation to gonum; ok=false when the (type, op) pair is unknown.
func algCall(c *algCase) (got []float64, ok bool) {
	x, y, s := fl(c.X), fl(c.Y), c.S.F()
	ok = true
	switch c.T {
	case "dual":
		switch c.Op {
		case "Add":
			got = unD(dual.Add(mkD(x), mkD(y)))
		case "Sub":
			got = unD(dual.Sub(mkD(x), mkD(y)))
		case "Mul":
			got = unD(dual.Mul(mkD(x), mkD(y)))
		case "Scale":
			got = unD(dual.Scale(s, mkD(x)))
		case "Inv":
			got = unD(dual.Inv(mkD(x)))
		case "Abs":
			got = unD(dual.Abs(mkD(x)))
		case "PowReal":
			got = unD(dual.PowReal(mkD(x), s))
		default:
			ok = false
		}
	case "hyper":
		switch c.Op {
		case "Add":
			got = unH(hyperdual.Add(mkH(x), mkH(y)))
		case "Sub":
			got = unH(hyperdual.Sub(mkH(x), mkH(y)))
		case "Mul":
			got = unH(hyperdual.Mul(mkH(x), mkH(y)))
		case "Scale":
			got = unH(hyperdual.Scale(s, mkH(x)))
		case "Inv":
			got = unH(hyperdual.Inv(mkH(x)))
		case "Abs":
			got = unH(hyperdual.Abs(mkH(x)))
		case "PowReal":
			got = unH(hyperdual.PowReal(mkH(x), s))
		default:
			ok = false
		}
	case "quat":
		switch c.Op {
		case "Add":
			got = unQuat(quat.Add(mkQuat(x), mkQuat(y)))
		case "Sub":
			got = unQuat(quat.Sub(mkQuat(x), mkQuat(y)))
		case "Mul":
			got = unQuat(quat.Mul(mkQuat(x), mkQuat(y)))
		case "Scale":
			got = unQuat(quat.Scale(s, mkQuat(x)))
		case "Conj":
			got = unQuat(quat.Conj(mkQuat(x)))
		case "Inv":
			got = unQuat(quat.Inv(mkQuat(x)))
		case "AbsQ":
			got = []float64{quat.Abs(mkQuat(x))}
		default:
			ok = false
		}
	case "dquat":
		switch c.Op {
		case "Add":
			got = unDQ(dualquat.Add(mkDQ(x), mkDQ(y)))
		case "Sub":
			got = unDQ(dualquat.Sub(mkDQ(x), mkDQ(y)))
		case "Mul":
			got = unDQ(dualquat.Mul(mkDQ(x), mkDQ(y)))
		case "Scale":
			got = unDQ(dualquat.Scale(s, mkDQ(x)))
		case "Conj":
			got = unDQ(dualquat.Conj(mkDQ(x)))
		case "ConjDual":
			got = unDQ(dualquat.ConjDual(mkDQ(x)))
		case "ConjQuat":
			got = unDQ(dualquat.ConjQuat(mkDQ(x)))
		case "Inv":
			got = unDQ(dualquat.Inv(mkDQ(x)))
		case "PowReal":
			got = unDQ(dualquat.PowReal(mkDQ(x), s))
		case "SqrtSq":
			r := dualquat.Sqrt(mkDQ(x))
			got = unDQ(dualquat.Mul(r, r))
		case "AbsDQ":
			got = unD(dualquat.Abs(mkDQ(x)))
		default:
			ok = false
		}
	case "dcmplx":
		switch c.Op {
		case "Add":
			got = unDC(dualcmplx.Add(mkDC(x), mkDC(y)))
		case "Sub":
			got = unDC(dualcmplx.Sub(mkDC(x), mkDC(y)))
		case "Mul":
			got = unDC(dualcmplx.Mul(mkDC(x), mkDC(y)))
		case "Scale":
			got = unDC(dualcmplx.Scale(s, mkDC(x)))
		case "Conj":
			got = unDC(dualcmplx.Conj(mkDC(x)))
		case "Inv":
			got = unDC(dualcmplx.Inv(mkDC(x)))
		case "PowReal":
			got = unDC(dualcmplx.PowReal(mkDC(x), s))
		case "SqrtSq":
			r := dualcmplx.Sqrt(mkDC(x))
			got = unDC(dualcmplx.Mul(r, r))
		case "AbsDC":
			got = []float64{dualcmplx.Abs(mkDC(x))}
		default:
			ok = false
		}
	default:
		ok = false
	}
	return got, ok
}

var algPkg = map[string]string{"dual": "dual", "hyper": "hyperdual", "quat": "quat", "dquat": "dualquat", "dcmplx": "dualcmplx"}

func algHandler(line []byte, sum *core.Summary) error {
	var c algCase
	if err := json.Unmarshal(line, &c); err != nil {
		return err
	}
	if c.Op != "Add" && c.Op != "Sub" && c.Op != "Mul" {
		c.Y = make([]int64, len(c.X))
	}
	var got []float64
	var known bool
	o := core.Call(func() { got, known = algCall(&c) })
	if !o.Panicked && !known {
		return fmt.Errorf("unknown operation %s.%s", c.T, c.Op)
	}
	op := c.Op
	switch op {
	case "AbsQ", "AbsDQ", "AbsDC":
		op = "Abs"
	case "SqrtSq":
		op = "Sqrt(x)^2"
	}
	name := algPkg[c.T] + "." + op
	sum.Cases++
	nz := 0
	for _, v := range c.X {
		if v != 0 {
			nz++
		}
	}
	if nz >= 2 {
		sum.Nontrivial++
	}
	if o.Panicked {
		sum.Fail("num:"+name+":panic", o.Text, c)
		return nil
	}
	if len(got) != len(c.E) {
		return fmt.Errorf("%s: %d components, the specification has %d", name, len(got), len(c.E))
	}
	tol := new(big.Rat).Mul(mulInt(pow2(-52), c.Tolu), c.Mag.Rat())
	for i := range c.E {
		want := c.E[i].Rat()
		if !within(got[i], want, tol) {
			failOnce(sum, "num:"+name+":"+c.Note, fmt.Sprintf("component %d: got %v, exact %s (allowance %s); x=%v y=%v s=%v", i, got[i], want.RatString(), tol.FloatString(20), c.X, c.Y, c.S), c)
			return nil
		}
		if c.Tolu > 0 {
			noteRatio(name, errRatio(got[i], want, tol))
		}
	}
	if nz >= 3 && c.Op == "Mul" {
		sum.Sample(map[string]any{"routine": name, "x": c.X, "y": c.Y, "spec_value": c.E, "got": got})
	}
	return nil
}

func init() { handlers["alg"] = algHandler }
