package num

import (
	"encoding/json"
	"fmt"
	"math/big"

	"gonum.org/v1/gonum/num/dual"
	"gonum.org/v1/gonum/num/dualcmplx"
	"gonum.org/v1/gonum/num/dualquat"
	"gonum.org/v1/gonum/num/hyperdual"
	"gonum.org/v1/gonum/num/quat"

	"gonum.org/v1/gonum/verifharness/internal/core"
)

// DualFun.tla cases: elementary functions of dual and hyperdual numbers. The dual parts are compared
// with the spec's exact rationals (mode abs) or with the spec's polynomial relation evaluated on the
// real part gonum returned and on a companion value (mode rel).
type dfTerm struct {
	C Q   `json:"c"`
	I int `json:"i"`
	J int `json:"j"`
}

type dfCase struct {
	Kind    string     `json:"kind"`
	Mode    string     `json:"mode"`
	T       string     `json:"t"`
	F       string     `json:"f"`
	X       []Q        `json:"x"`
	Y       []Q        `json:"y"`
	P       Q          `json:"p"`
	E       []Q        `json:"e"`
	CmpReal bool       `json:"cmpreal"`
	Mag     []Q        `json:"mag"`
	Comp    string     `json:"comp"`
	Inv     []int64    `json:"inv"`
	Terms   [][]dfTerm `json:"terms"`
	Tolu    int64      `json:"tolu"`
	Note    string     `json:"note"`
	Cmp     []bool     `json:"cmp"`  // optional per-component mask (abs mode)
	Fidx    int        `json:"fidx"` // rel mode: index of the returned component used as F (default 0)
	Outs    []int      `json:"outs"` // rel mode: output components of the term lists (default 1, 2, ...)
}

var dualFuns = map[string]func(dual.Number) dual.Number{
	"Inv": dual.Inv, "Log": dual.Log, "Sqrt": dual.Sqrt, "Exp": dual.Exp, "Sin": dual.Sin, "Cos": dual.Cos, "Tan": dual.Tan,
	"Asin": dual.Asin, "Acos": dual.Acos, "Atan": dual.Atan, "Sinh": dual.Sinh, "Cosh": dual.Cosh, "Tanh": dual.Tanh,
	"Asinh": dual.Asinh, "Acosh": dual.Acosh, "Atanh": dual.Atanh,
}

var hyperFuns = map[string]func(hyperdual.Number) hyperdual.Number{
	"Inv": hyperdual.Inv, "Log": hyperdual.Log, "Sqrt": hyperdual.Sqrt, "Exp": hyperdual.Exp, "Sin": hyperdual.Sin, "Cos": hyperdual.Cos,
	"Tan": hyperdual.Tan, "Asin": hyperdual.Asin, "Acos": hyperdual.Acos, "Atan": hyperdual.Atan, "Sinh": hyperdual.Sinh,
	"Cosh": hyperdual.Cosh, "Tanh": hyperdual.Tanh, "Asinh": hyperdual.Asinh, "Acosh": hyperdual.Acosh, "Atanh": hyperdual.Atanh,
}

// nearest converts a spec rational to the nearest float64 (arguments such as 3/5 are rounded on input;
// the specification's allowance accounts for it).
func nearest(q Q) float64 { f, _ := q.Rat().Float64(); return f }

func nearestAll(v []Q) []float64 {
	r := make([]float64, len(v))
	for i, q := range v {
		r[i] = nearest(q)
	}
	return r
}

// dfApply evaluates the named function / composition through gonum. ok=false: unknown name.
func dfApply(t, f string, x, y []float64, p float64) (got []float64, ok bool) {
	ok = true
	switch t {
	case "dquat":
		a := mkDQ(x)
		switch f {
		case "Log":
			got = unDQ(dualquat.Log(a))
		case "Exp":
			got = unDQ(dualquat.Exp(a))
		case "Sqrt":
			got = unDQ(dualquat.Sqrt(a))
		case "PowInt":
			got = unDQ(dualquat.PowReal(a, p))
		case "PowNum":
			got = unDQ(dualquat.Pow(a, dualquat.Number{Real: quat.Number{Real: p}}))
		default:
			ok = false
		}
		return got, ok
	case "dcmplx":
		a := mkDC(x)
		switch f {
		case "Log":
			got = unDC(dualcmplx.Log(a))
		case "Exp":
			got = unDC(dualcmplx.Exp(a))
		case "Sqrt":
			got = unDC(dualcmplx.Sqrt(a))
		case "PowInt":
			got = unDC(dualcmplx.PowReal(a, p))
		case "PowNum":
			got = unDC(dualcmplx.Pow(a, dualcmplx.Number{Real: complex(p, 0)}))
		default:
			ok = false
		}
		return got, ok
	}
	if t == "dual" {
		a := mkD(x)
		switch f {
		case "PowInt", "PowHalf":
			got = unD(dual.PowReal(a, p))
		case "SqrtSq":
			s := dual.Sqrt(a)
			got = unD(dual.Mul(s, s))
		case "ExpLog":
			got = unD(dual.Exp(dual.Log(a)))
		case "PowNum2":
			got = unD(dual.Pow(a, dual.Number{Real: p}))
		case "LogMul":
			got = unD(dual.Log(dual.Mul(a, mkD(y))))
		default:
			fn := dualFuns[f]
			if fn == nil {
				return nil, false
			}
			got = unD(fn(a))
		}
		return got, true
	}
	a := mkH(x)
	switch f {
	case "PowInt", "PowHalf":
		got = unH(hyperdual.PowReal(a, p))
	case "SqrtSq":
		s := hyperdual.Sqrt(a)
		got = unH(hyperdual.Mul(s, s))
	case "ExpLog":
		got = unH(hyperdual.Exp(hyperdual.Log(a)))
	case "PowNum2":
		got = unH(hyperdual.Pow(a, hyperdual.Number{Real: p}))
	case "LogMul":
		got = unH(hyperdual.Log(hyperdual.Mul(a, mkH(y))))
	default:
		fn := hyperFuns[f]
		if fn == nil {
			return nil, false
		}
		got = unH(fn(a))
	}
	return got, true
}

// realOf returns the real part of the named function at the real argument x.
func realOf(t, f string, x float64) (float64, bool) {
	if t == "dual" {
		fn := dualFuns[f]
		if fn == nil {
			return 0, false
		}
		return fn(dual.Number{Real: x}).Real, true
	}
	fn := hyperFuns[f]
	if fn == nil {
		return 0, false
	}
	return fn(hyperdual.Number{Real: x}).Real, true
}

var dfComp = map[string][]string{"dual": {"Real", "Emag"}, "hyper": {"Real", "E1mag", "E2mag", "E1E2mag"},
	"dquat":  {"Real.Real", "Real.Imag", "Real.Jmag", "Real.Kmag", "Dual.Real", "Dual.Imag", "Dual.Jmag", "Dual.Kmag"},
	"dcmplx": {"real(Real)", "imag(Real)", "real(Dual)", "imag(Dual)"}}

func dfName(c *dfCase) string {
	pkg := map[string]string{"dual": "dual", "hyper": "hyperdual", "dquat": "dualquat", "dcmplx": "dualcmplx"}[c.T]
	switch c.F {
	case "PowInt", "PowHalf":
		return pkg + ".PowReal"
	case "SqrtSq":
		return pkg + ".Sqrt(a)^2"
	case "ExpLog":
		return pkg + ".Exp(Log(a))"
	case "PowNum2":
		return pkg + ".Pow(a,2)"
	case "PowNum":
		return pkg + ".Pow(a,n)"
	case "LogMul":
		return pkg + ".Log(a*b)"
	}
	return pkg + "." + c.F
}

func dfHandler(line []byte, sum *core.Summary) error {
	var c dfCase
	if err := json.Unmarshal(line, &c); err != nil {
		return err
	}
	if dfComp[c.T] == nil {
		return fmt.Errorf("unknown type %q", c.T)
	}
	if c.P[1] == 0 {
		c.P = Q{0, 1}
	}
	x, y, p := nearestAll(c.X), nearestAll(c.Y), nearest(c.P)
	for i := 1; i < len(c.X); i++ { // dual parts are exact dyadics by construction
		_ = c.X[i].F()
	}
	name := dfName(&c)
	names := dfComp[c.T]
	var got []float64
	var known bool
	o := core.Call(func() { got, known = dfApply(c.T, c.F, x, y, p) })
	if !o.Panicked && !known {
		return fmt.Errorf("unknown function %s.%s", c.T, c.F)
	}
	sum.Cases++
	sum.Nontrivial++
	if o.Panicked {
		sum.Fail("num:"+name+":panic", o.Text, c)
		return nil
	}
	unit := mulInt(pow2(-52), c.Tolu)
	switch c.Mode {
	case "abs":
		for i := range c.E {
			if (c.Cmp == nil && i == 0 && !c.CmpReal) || (c.Cmp != nil && !c.Cmp[i]) {
				continue
			}
			want := c.E[i].Rat()
			tol := new(big.Rat).Mul(unit, c.Mag[i].Rat())
			if !within(got[i], want, tol) {
				sum.Fail("num:"+name+":"+c.Note+":"+names[i], fmt.Sprintf("%s of %s%v (p=%v y=%v): got %v, exact %s (allowance %s)",
					names[i], name, x, p, y, got[i], want.RatString(), tol.FloatString(20)), c)
				continue // every wrong component is reported under its own signature
			}
			noteRatio(name, errRatio(got[i], want, tol))
		}
		if c.F == "LogMul" { // real part: Log(a*b) = Log a + Log b
			la, _ := realOf(c.T, "Log", x[0])
			lb, _ := realOf(c.T, "Log", y[0])
			want := new(big.Rat).Add(ratOf(la), ratOf(lb))
			m := new(big.Rat).Add(new(big.Rat).Abs(ratOf(la)), new(big.Rat).Abs(ratOf(lb)))
			m.Add(m, big.NewRat(1, 1))
			if tol := new(big.Rat).Mul(unit, m); !within(got[0], want, tol) {
				sum.Fail("num:"+name+":"+c.Note+":Real", fmt.Sprintf("Real of Log(a*b) = %v, Log a + Log b = %v + %v", got[0], la, lb), c)
				return nil
			}
		}
	case "rel":
		F := ratOf(got[c.Fidx])
		if F == nil {
			sum.Fail("num:"+name+":"+c.Note+":Real", fmt.Sprintf("real part %v at %v", got[0], x), c)
			return nil
		}
		G := new(big.Rat)
		if c.Comp != "" {
			g, ok := realOf(c.T, c.Comp, x[0])
			if !ok || ratOf(g) == nil {
				return fmt.Errorf("companion %s unavailable", c.Comp)
			}
			G = ratOf(g)
		}
		pw := func(b *big.Rat, k int) *big.Rat {
			r := big.NewRat(1, 1)
			for ; k > 0; k-- {
				r.Mul(r, b)
			}
			return r
		}
		if len(c.Inv) == 2 && (c.Inv[0] != 0 || c.Inv[1] != 0) { // first integral  sF F^2 + sG G^2 = 1
			l := new(big.Rat).Add(mulInt(pw(F, 2), c.Inv[0]), mulInt(pw(G, 2), c.Inv[1]))
			m := new(big.Rat).Add(pw(F, 2), pw(G, 2))
			lf, _ := l.Float64()
			if tol := new(big.Rat).Mul(unit, m); !within(lf, big.NewRat(1, 1), tol) {
				sum.Fail("num:"+name+":"+c.Note+":first-integral", fmt.Sprintf("%d*F^2 + %d*G^2 = %v != 1 (F=%v, G=%v from %s)", c.Inv[0], c.Inv[1], lf, got[0], G, c.Comp), c)
				return nil
			}
		}
		for k, terms := range c.Terms {
			out := k + 1
			if c.Outs != nil {
				out = c.Outs[k]
			}
			want, mag := new(big.Rat), new(big.Rat)
			for _, t := range terms {
				v := new(big.Rat).Mul(t.C.Rat(), new(big.Rat).Mul(pw(F, t.I), pw(G, t.J)))
				want.Add(want, v)
				mag.Add(mag, v.Abs(v))
			}
			tol := new(big.Rat).Mul(unit, mag)
			if !within(got[out], want, tol) {
				wf, _ := want.Float64()
				sum.Fail("num:"+name+":"+c.Note+":"+names[out], fmt.Sprintf("%s of %s%v: got %v, the chain rule on the returned F=%v (G=%v) gives %v",
					names[out], name, x, got[out], got[c.Fidx], G.FloatString(17), wf), c)
				continue
			}
			noteRatio(name, errRatio(got[out], want, tol))
		}
	default:
		return fmt.Errorf("unknown mode %q", c.Mode)
	}
	if c.T == "hyper" && c.Note == "value" && (c.F == "Log" || c.F == "Sin") {
		sum.Sample(map[string]any{"routine": name, "x": c.X, "spec": map[string]any{"e": c.E, "terms": c.Terms}, "got": got})
	}
	return nil
}

func init() { handlers["dfun"] = dfHandler }
