package num

import (
	"encoding/json"
	"fmt"
	"math/big"

	"gonum.org/v1/gonum/integrate"
	"gonum.org/v1/gonum/integrate/quad"

	"gonum.org/v1/gonum/verifharness/internal/core"
)

// ---- sampled-data rules (Quadrature.tla: trap, simp, romb) ----

type ncRow struct {
	Poly  []int64 `json:"poly"`
	Deg   int     `json:"deg"`
	F     []int64 `json:"f"`
	E     Q       `json:"e"`
	Exact bool    `json:"exact"`
	Mag   Q       `json:"mag"`
}

type ncCase struct {
	Kind string  `json:"kind"`
	N    int     `json:"n"`
	V    int     `json:"v"`
	X    []Q     `json:"x"`
	Dx   Q       `json:"dx"`
	Tolu int64   `json:"tolu"`
	Rows []ncRow `json:"rows"`
}

func ncHandler(line []byte, sum *core.Summary) error {
	var c ncCase
	if err := json.Unmarshal(line, &c); err != nil {
		return err
	}
	name := map[string]string{"trap": "integrate.Trapezoidal", "simp": "integrate.Simpsons", "romb": "integrate.Romberg"}[c.Kind]
	x := make([]float64, len(c.X))
	for i, q := range c.X {
		x[i] = q.F()
	}
	dx := c.Dx.F()
	for _, r := range c.Rows {
		f := make([]float64, len(r.F))
		for i, v := range r.F {
			f[i] = float64(v)
		}
		var got float64
		xs := append([]float64(nil), x...)
		o := core.Call(func() {
			switch c.Kind {
			case "trap":
				got = integrate.Trapezoidal(xs, f)
			case "simp":
				got = integrate.Simpsons(xs, f)
			case "romb":
				got = integrate.Romberg(f, dx)
			}
		})
		sum.Cases++
		if r.Deg >= 1 {
			sum.Nontrivial++
		}
		if r.Exact {
			sum.Count("rows_in_exactness_class:"+c.Kind, 1)
		}
		one := c
		one.Rows = []ncRow{r}
		if o.Panicked {
			sum.Fail("num:"+name+":panic", "unexpected panic on a valid grid: "+o.Text, one)
			continue
		}
		want := r.E.Rat()
		tol := new(big.Rat).Mul(mulInt(pow2(-52), c.Tolu), r.Mag.Rat())
		if !within(got, want, tol) {
			sum.Fail("num:"+name+":value", fmt.Sprintf("got %v, the rule's exact value is %s (allowance %s)", got, want.RatString(), tol.RatString()), one)
			continue
		}
		if c.Tolu > 0 {
			noteRatio(name, errRatio(got, want, tol))
		}
		for i := range xs {
			if xs[i] != x[i] {
				sum.Fail("num:"+name+":mutated-input", "x was modified", one)
				break
			}
		}
		sum.Sample(map[string]any{"routine": name, "x": c.X, "f": r.F, "spec_value": r.E, "got": got})
	}
	return nil
}

// ---- Gauss-Legendre (Quadrature.tla: gls, glm) ----

type glCase struct {
	Kind    string  `json:"kind"`
	N       int     `json:"n"`
	A       int64   `json:"a"`
	B       int64   `json:"b"`
	SumW    Q       `json:"sumw"`
	Centre2 Q       `json:"centre2"`
	Scale   int64   `json:"scale"`
	Tolu    int64   `json:"tolu"`
	Tolc    int64   `json:"tolc"`
	Mpow    int64   `json:"mpow"`
	Ks      []int   `json:"ks"`
	Es      []Q     `json:"es"`
	Mode    string  `json:"mode,omitempty"` // set when a failure is replayed alone
}

// bulkOnly hides FixedLocationSingle so that quad.Fixed takes the FixedLocations path.
type bulkOnly struct{ l quad.Legendre }

func (b bulkOnly) FixedLocations(x, w []float64, min, max float64) { b.l.FixedLocations(x, w, min, max) }

func glsHandler(line []byte, sum *core.Summary) error {
	var c glCase
	if err := json.Unmarshal(line, &c); err != nil {
		return err
	}
	a, b := float64(c.A), float64(c.B)
	n := c.N
	for _, mode := range []string{"FixedLocations", "FixedLocationSingle"} {
		if c.Mode != "" && c.Mode != mode {
			continue
		}
		x := make([]float64, n)
		w := make([]float64, n)
		o := core.Call(func() {
			if mode == "FixedLocations" {
				quad.Legendre{}.FixedLocations(x, w, a, b)
			} else {
				for k := 0; k < n; k++ {
					x[k], w[k] = quad.Legendre{}.FixedLocationSingle(n, k, a, b)
				}
			}
		})
		sum.Cases++
		sum.Nontrivial++
		one := c
		one.Mode = mode
		name := "quad.Legendre." + mode
		if o.Panicked {
			sum.Fail("num:"+name+":panic", o.Text, one)
			continue
		}
		tol := mulInt(mulInt(pow2(-53), c.Tolu), c.Scale)
		bad := ""
		sw := new(big.Rat)
		for i := 0; i < n && bad == ""; i++ {
			switch {
			case !(x[i] > a && x[i] < b):
				bad = fmt.Sprintf("node %d = %v not strictly inside (%v,%v)", i, x[i], a, b)
			case i > 0 && !(x[i] != x[i-1] && (x[i] > x[i-1]) == (x[1] > x[0])):
				// the documentation does not fix the direction: strictly monotone either way
				bad = fmt.Sprintf("nodes not strictly monotone at %d: %v, %v", i, x[i-1], x[i])
			case !(w[i] > 0):
				bad = fmt.Sprintf("weight %d = %v not positive", i, w[i])
			}
			if bad != "" {
				break
			}
			sw.Add(sw, ratOf(w[i]))
			j := n - 1 - i
			// mirror images about (a+b)/2 with equal weights
			pair := new(big.Rat).Add(ratOf(x[i]), ratOf(x[j]))
			pf, _ := pair.Float64()
			if !within(pf, c.Centre2.Rat(), tol) {
				bad = fmt.Sprintf("nodes %d and %d are not mirror images: %v + %v != %s", i, j, x[i], x[j], c.Centre2.Rat().RatString())
			}
			dw := new(big.Rat).Sub(ratOf(w[i]), ratOf(w[j]))
			df, _ := dw.Float64()
			if !within(df, new(big.Rat), tol) {
				bad = fmt.Sprintf("weights %d and %d differ: %v, %v", i, j, w[i], w[j])
			}
		}
		if bad == "" {
			sf, _ := sw.Float64()
			d := new(big.Rat).Sub(sw, c.SumW.Rat())
			d.Abs(d)
			if d.Cmp(tol) > 0 {
				bad = fmt.Sprintf("weights sum to %v, the interval measures %s", sf, c.SumW.Rat().RatString())
			} else {
				r, _ := new(big.Rat).Quo(d, tol).Float64()
				noteRatio(name+":sumw", r)
			}
		}
		if bad != "" {
			sig := "num:" + name + ":structure"
			if n == 26 && (w[0] == 0 || w[25] == 0) {
				// isolated finding: the tabulated weight row for n = 26 has its last literal split in two
				sig = "num:quad.Legendre:n26-end-weight-zero"
			}
			sum.Fail(sig, bad, one)
			continue
		}
		if n <= 3 {
			sum.Sample(map[string]any{"routine": name, "n": n, "a": c.A, "b": c.B, "nodes": x, "weights": w})
		}
	}
	return nil
}

func glmHandler(line []byte, sum *core.Summary) error {
	var c glCase
	if err := json.Unmarshal(line, &c); err != nil {
		return err
	}
	a, b := float64(c.A), float64(c.B)
	for idx, k := range c.Ks {
		k := k
		f := func(x float64) float64 { // the integrand handed to gonum: x^k by repeated multiplication
			p := 1.0
			for i := 0; i < k; i++ {
				p *= x
			}
			return p
		}
		// allowance (tolc*(n+k+4)) * 2^-53 * (b-a) * mpow^k
		tol := mulInt(mulInt(pow2(-53), c.Tolc*int64(c.N+k+4)), c.B-c.A)
		mp := new(big.Rat).SetInt(new(big.Int).Exp(big.NewInt(c.Mpow), big.NewInt(int64(k)), nil))
		tol.Mul(tol, mp)
		want := c.Es[idx].Rat()
		for _, mode := range []string{"single", "bulk", "concurrent"} {
			if c.Mode != "" && c.Mode != mode {
				continue
			}
			var got float64
			o := core.Call(func() {
				switch mode {
				case "single":
					got = quad.Fixed(f, a, b, c.N, quad.Legendre{}, 0)
				case "bulk":
					got = quad.Fixed(f, a, b, c.N, bulkOnly{}, 0)
				case "concurrent":
					got = quad.Fixed(f, a, b, c.N, quad.Legendre{}, 3)
				}
			})
			sum.Cases++
			sum.Nontrivial++
			one := c
			one.Ks, one.Es, one.Mode = []int{k}, []Q{c.Es[idx]}, mode
			if o.Panicked {
				sum.Fail("num:quad.Fixed(Legendre):panic", o.Text, one)
				continue
			}
			if !within(got, want, tol) {
				sig := "num:quad.Fixed(Legendre):moment"
				if c.N == 26 {
					sig += "-n26" // consequence of the isolated n = 26 weight-table finding
				}
				sum.Fail(sig,
					fmt.Sprintf("n=%d [%d,%d] integral of x^%d: got %v, exact %s (allowance %s) [%s]", c.N, c.A, c.B, k, got, want.RatString(), tol.FloatString(25), mode), one)
				continue
			}
			noteRatio("quad.Fixed(Legendre):moment", errRatio(got, want, tol))
			if c.N <= 2 && k <= 1 {
				sum.Sample(map[string]any{"routine": "quad.Fixed(Legendre)", "n": c.N, "a": c.A, "b": c.B, "k": k, "spec_value": c.Es[idx], "got": got})
			}
		}
	}
	return nil
}

func init() {
	handlers["trap"] = ncHandler
	handlers["simp"] = ncHandler
	handlers["romb"] = ncHandler
	handlers["gls"] = glsHandler
	handlers["glm"] = glmHandler
}
