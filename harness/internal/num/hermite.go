package num

import (
	"encoding/json"
	"fmt"
	"math"
	"math/big"
	"strconv"

	"gonum.org/v1/gonum/integrate"
	"gonum.org/v1/gonum/integrate/quad"
	"gonum.org/v1/gonum/interp"

	"gonum.org/v1/gonum/verifharness/internal/core"
)

// GaussHermite.tla cases. The specification prints every expected value as a rational multiple of
// sqrt(pi) (a list of rational factors); sqrtPi below is the ONE constant this file contributes.
var sqrtPi = new(big.Rat).SetFloat64(math.Sqrt(math.Pi))

type ghRow struct {
	K    int  `json:"k"`
	Zero bool `json:"zero"`
	Fac  []Q  `json:"fac"`
	Sp   bool `json:"sp"`
}

type ghCase struct {
	Kind   string  `json:"kind"`
	N      int     `json:"n"`
	Cls    string  `json:"cls"`
	Bound2 int64   `json:"bound2"`
	Xscale int64   `json:"xscale"`
	Wpos   bool    `json:"wpos"`
	Tolu   int64   `json:"tolu"`
	Ntole  int     `json:"ntole"`
	Rows   []ghRow `json:"rows"`
	Tolus  []int64 `json:"tolus"`
	Mode   string  `json:"mode,omitempty"`
}

func prodQ(f []Q) *big.Rat {
	r := big.NewRat(1, 1)
	for _, q := range f {
		r.Mul(r, q.Rat())
	}
	return r
}

func ghsHandler(line []byte, sum *core.Summary) error {
	var c ghCase
	if err := json.Unmarshal(line, &c); err != nil {
		return err
	}
	n := c.N
	x := make([]float64, n)
	w := make([]float64, n)
	o := core.CallTimeout(60e9, func() { quad.Hermite{}.FixedLocations(x, w, math.Inf(-1), math.Inf(1)) })
	sum.Cases++
	sum.Nontrivial++
	name := "quad.Hermite.FixedLocations"
	if o.Panicked || o.Hung {
		failOnce(sum, "num:"+name+":panic", o.Text, c)
		return nil
	}
	unit := mulInt(pow2(-c.Ntole), c.Tolu)
	tolx := mulInt(unit, c.Xscale)
	tolw := mulInt(unit, 2) // weights are below sqrt(pi) < 2
	bad := ""
	sw := new(big.Rat)
	for i := 0; i < n && bad == ""; i++ {
		xr := ratOf(x[i])
		wr := ratOf(w[i])
		switch {
		case xr == nil || wr == nil:
			bad = fmt.Sprintf("node/weight %d is not finite: %v, %v", i, x[i], w[i])
		case new(big.Rat).Mul(xr, xr).Cmp(big.NewRat(c.Bound2, 1)) >= 0:
			bad = fmt.Sprintf("node %d = %v outside (-sqrt(%d), sqrt(%d))", i, x[i], c.Bound2, c.Bound2)
		case i > 0 && !(x[i] != x[i-1] && (x[i] > x[i-1]) == (x[1] > x[0])):
			bad = fmt.Sprintf("nodes not strictly monotone at %d: %v, %v", i, x[i-1], x[i])
		case w[i] < 0 || (c.Wpos && !(w[i] > 0)):
			bad = fmt.Sprintf("weight %d = %v", i, w[i])
		}
		if bad != "" {
			break
		}
		sw.Add(sw, wr)
		j := n - 1 - i
		pair := new(big.Rat).Add(xr, ratOf(x[j]))
		if pair.Abs(pair).Cmp(tolx) > 0 {
			bad = fmt.Sprintf("nodes %d and %d are not mirror images about 0: %v, %v", i, j, x[i], x[j])
		}
		dw := new(big.Rat).Sub(wr, ratOf(w[j]))
		if dw.Abs(dw).Cmp(tolw) > 0 {
			bad = fmt.Sprintf("weights %d and %d differ: %v, %v", i, j, w[i], w[j])
		}
	}
	if bad == "" {
		d := new(big.Rat).Sub(sw, sqrtPi)
		d.Abs(d)
		if d.Cmp(tolw) > 0 {
			sf, _ := sw.Float64()
			bad = fmt.Sprintf("weights sum to %v, not sqrt(pi)", sf)
		} else {
			r, _ := new(big.Rat).Quo(d, tolw).Float64()
			noteRatio(name+":sumw", r)
		}
	}
	if bad != "" {
		failOnce(sum, "num:"+name+":structure:"+c.Cls, fmt.Sprintf("n=%d: %s", n, bad), c)
		return nil
	}
	if n <= 3 {
		sum.Sample(map[string]any{"routine": name, "n": n, "nodes": x, "weights": w})
	}
	return nil
}

func ghmHandler(line []byte, sum *core.Summary) error {
	var c ghCase
	if err := json.Unmarshal(line, &c); err != nil {
		return err
	}
	for idx, r := range c.Rows {
		k := r.K
		f := func(x float64) float64 { // the integrand handed to gonum: x^k by repeated multiplication
			p := 1.0
			for i := 0; i < k; i++ {
				p *= x
			}
			return p
		}
		mag := prodQ(r.Fac)
		if r.Sp {
			mag.Mul(mag, sqrtPi)
		}
		want := new(big.Rat)
		if !r.Zero {
			want.Set(mag)
		}
		mag.Abs(mag)
		if mag.Sign() == 0 { // the rule's value at k = 2n for n = 1 is 0: allowance on the scale of M(2)
			mag.Set(sqrtPi)
		}
		tol := new(big.Rat).Mul(mulInt(pow2(-c.Ntole), c.Tolus[idx]), mag)
		for _, mode := range []string{"serial", "concurrent"} {
			if c.Mode != "" && c.Mode != mode {
				continue
			}
			var got float64
			o := core.CallTimeout(60e9, func() {
				conc := 0
				if mode == "concurrent" {
					conc = 3
				}
				got = quad.Fixed(f, math.Inf(-1), math.Inf(1), c.N, quad.Hermite{}, conc)
			})
			sum.Cases++
			sum.Nontrivial++
			one := c
			one.Rows, one.Tolus, one.Mode = []ghRow{r}, []int64{c.Tolus[idx]}, mode
			if o.Panicked || o.Hung {
				failOnce(sum, "num:quad.Fixed(Hermite):panic", o.Text, one)
				continue
			}
			if !within(got, want, tol) {
				kind := "moment"
				if k == 2*c.N {
					kind = "first-inexact-moment"
				}
				wf, _ := want.Float64()
				failOnce(sum, "num:quad.Fixed(Hermite):"+kind+":"+c.Cls, fmt.Sprintf("n=%d integral of x^%d e^(-x^2): got %v, exact %v (allowance %s) [%s]",
					c.N, k, got, wf, tol.FloatString(25), mode), one)
				continue
			}
			cls := "quad.Fixed(Hermite):moment n<=200"
			if c.N > 200 {
				cls = "quad.Fixed(Hermite):moment n>200"
			}
			noteRatio(cls, errRatio(got, want, tol))
			if c.N == 2 && k == 2 {
				sum.Sample(map[string]any{"routine": "quad.Fixed(Hermite)", "n": c.N, "k": k, "spec_factors_times_sqrt_pi": r.Fac, "got": got})
			}
		}
	}
	return nil
}

// ---- default rule on (semi-)infinite ranges ----

type ginfCase struct {
	Kind  string `json:"kind"`
	Fam   string `json:"fam"`
	M     int    `json:"m"`
	A     int64  `json:"a"`
	Side  string `json:"side"`
	N     int    `json:"n"`
	E     Q      `json:"e"`
	Ntole int    `json:"ntole"`
}

func ginfHandler(line []byte, sum *core.Summary) error {
	var c ginfCase
	if err := json.Unmarshal(line, &c); err != nil {
		return err
	}
	a := float64(c.A)
	ipow := func(b float64, k int) float64 {
		p := 1.0
		for i := 0; i < k; i++ {
			p *= b
		}
		return p
	}
	var f func(float64) float64
	switch c.Fam {
	case "rat": // (x-a)^m / (1+x-a)^(m+2), mirrored for the lower half line
		f = func(x float64) float64 {
			s := x - a
			if c.Side == "down" {
				s = a - x
			}
			return ipow(s, c.M) / ipow(1+s, c.M+2)
		}
	case "isq": // (1+x^2)^(-3/2)
		f = func(x float64) float64 { v := 1 + x*x; return 1 / (v * math.Sqrt(v)) }
	default:
		return fmt.Errorf("unknown integrand family %q", c.Fam)
	}
	lo, hi := a, math.Inf(1)
	switch c.Side {
	case "down":
		lo, hi = math.Inf(-1), a
	case "both":
		lo = math.Inf(-1)
	}
	var got float64
	o := core.CallTimeout(60e9, func() { got = quad.Fixed(f, lo, hi, c.N, nil, 0) })
	sum.Cases++
	sum.Nontrivial++
	if o.Panicked || o.Hung {
		failOnce(sum, "num:quad.Fixed(default):panic", o.Text, c)
		return nil
	}
	want := c.E.Rat()
	tol := new(big.Rat).Mul(pow2(-c.Ntole), new(big.Rat).Abs(want))
	if !within(got, want, tol) {
		failOnce(sum, "num:quad.Fixed(default):"+c.Side, fmt.Sprintf("%s m=%d over [%v,%v] with n=%d: got %v, exact %s (allowance %s)",
			c.Fam, c.M, lo, hi, c.N, got, want.RatString(), tol.FloatString(12)), c)
		return nil
	}
	noteRatio(fmt.Sprintf("quad.Fixed(default) n=%d", c.N), errRatio(got, want, tol))
	return nil
}

// ---- argument contracts ----

type ctrCase struct {
	Kind   string `json:"kind"`
	R      string `json:"r"`
	Nx     int    `json:"nx"`
	Nf     int    `json:"nf"`
	Ord    string `json:"ord"`
	Dx     int64  `json:"dx"`
	Lo     string `json:"lo"`
	Hi     string `json:"hi"`
	Expect string `json:"expect"`
}

func ctrBound(s string) (float64, error) {
	switch s {
	case "-inf":
		return math.Inf(-1), nil
	case "inf":
		return math.Inf(1), nil
	}
	return strconv.ParseFloat(s, 64)
}

// ctrSeq builds n abscissae in the named order.
func ctrSeq(n int, ord string) []float64 {
	if n < 0 { // quad.Fixed: nx is the number of nodes, not a slice length
		n = 0
	}
	x := make([]float64, n)
	for i := range x {
		switch ord {
		case "inc":
			x[i] = float64(i)
		case "dec":
			x[i] = float64(n - i)
		default: // flat: one repeated abscissa in the middle of an increasing sequence
			x[i] = float64(i)
			if i == n-1 {
				x[i] = x[i-1]
			}
		}
	}
	return x
}

func ctrHandler(line []byte, sum *core.Summary) error {
	var c ctrCase
	if err := json.Unmarshal(line, &c); err != nil {
		return err
	}
	lo, err := ctrBound(c.Lo)
	if err != nil {
		return err
	}
	hi, err := ctrBound(c.Hi)
	if err != nil {
		return err
	}
	xs := ctrSeq(c.Nx, c.Ord)
	fs := make([]float64, c.Nf)
	for i := range fs {
		fs[i] = float64(i%3) - 1
	}
	var val float64
	known := true
	call := func() {
		switch c.R {
		case "integrate.Trapezoidal":
			val = integrate.Trapezoidal(xs, fs)
		case "integrate.Simpsons":
			val = integrate.Simpsons(xs, fs)
		case "integrate.Romberg":
			val = integrate.Romberg(fs, float64(c.Dx))
		case "PiecewiseConstant":
			_ = new(interp.PiecewiseConstant).Fit(xs, fs)
		case "PiecewiseLinear":
			_ = new(interp.PiecewiseLinear).Fit(xs, fs)
		case "PiecewiseCubic":
			new(interp.PiecewiseCubic).FitWithDerivatives(xs, fs, make([]float64, c.Nf))
		case "AkimaSpline":
			_ = new(interp.AkimaSpline).Fit(xs, fs)
		case "FritschButland":
			_ = new(interp.FritschButland).Fit(xs, fs)
		case "NaturalCubic":
			_ = new(interp.NaturalCubic).Fit(xs, fs)
		case "ClampedCubic":
			_ = new(interp.ClampedCubic).Fit(xs, fs)
		case "NotAKnotCubic":
			_ = new(interp.NotAKnotCubic).Fit(xs, fs)
		case "quad.Fixed":
			val = quad.Fixed(func(x float64) float64 { return 1 + x }, lo, hi, c.Nx, quad.Legendre{}, 0)
		case "quad.Legendre.FixedLocations":
			quad.Legendre{}.FixedLocations(make([]float64, c.Nx), make([]float64, c.Nf), lo, hi)
		case "quad.Legendre.FixedLocationSingle":
			quad.Legendre{}.FixedLocationSingle(c.Nx, 0, lo, hi)
		case "quad.Hermite.FixedLocations":
			quad.Hermite{}.FixedLocations(make([]float64, c.Nx), make([]float64, c.Nf), lo, hi)
		default:
			known = false
		}
	}
	o := core.CallTimeout(20e9, call)
	if !known {
		return fmt.Errorf("unknown routine %q", c.R)
	}
	name := c.R
	if c.R[0] >= 'A' && c.R[0] <= 'Z' {
		name = "interp." + c.R + ".Fit"
	}
	sum.Cases++
	if c.Expect == "panic" {
		sum.Nontrivial++
	}
	sum.Count("contract:"+c.Expect, 1)
	desc := fmt.Sprintf("%s with len(x)=%d len(f)=%d order=%s dx=%d bounds=[%s,%s]", name, c.Nx, c.Nf, c.Ord, c.Dx, c.Lo, c.Hi)
	switch {
	case o.Hung:
		failOnce(sum, "num:contract:"+name+":hang", desc, c)
	case c.Expect == "panic" && !o.Panicked:
		failOnce(sum, "num:contract:"+name+":accepted-invalid", desc+": returned, the documentation requires a panic", c)
	case c.Expect == "panic" && o.Runtime:
		// the documentation promises a panic, not which one: an index-out-of-range fault instead of an
		// argument check is counted (evidence), not judged
		sum.Count("contract:runtime-error-instead-of-argument-panic", 1)
	case c.Expect != "panic" && o.Panicked:
		failOnce(sum, "num:contract:"+name+":rejected-valid", desc+": panicked on valid arguments: "+o.Text, c)
	case c.Expect == "zero" && val != 0:
		failOnce(sum, "num:contract:"+name+":empty-interval", fmt.Sprintf("%s: integral over an empty interval = %v", desc, val), c)
	}
	return nil
}

// Constant and Function predictors of package interp.
type predCase struct {
	Kind  string `json:"kind"`
	Which string `json:"which"`
	A     Q      `json:"a"`
	B     Q      `json:"b"`
	X     Q      `json:"x"`
	E     Q      `json:"e"`
}

func predHandler(line []byte, sum *core.Summary) error {
	var c predCase
	if err := json.Unmarshal(line, &c); err != nil {
		return err
	}
	a, b, x := c.A.F(), c.B.F(), c.X.F()
	var p interp.Predictor
	switch c.Which {
	case "Constant":
		p = interp.Constant(b)
	case "Function":
		p = interp.Function(func(t float64) float64 { return a*t + b })
	default:
		return fmt.Errorf("unknown predictor %q", c.Which)
	}
	var got float64
	o := core.Call(func() { got = p.Predict(x) })
	sum.Cases++
	name := "interp." + c.Which + ".Predict"
	if o.Panicked {
		failOnce(sum, "num:"+name+":panic", o.Text, c)
		return nil
	}
	if !within(got, c.E.Rat(), new(big.Rat)) {
		failOnce(sum, "num:"+name+":value", fmt.Sprintf("Predict(%v) = %v, exact %s", x, got, c.E.Rat().RatString()), c)
	}
	return nil
}

func init() {
	handlers["pred"] = predHandler
	handlers["ghs"] = ghsHandler
	handlers["ghm"] = ghmHandler
	handlers["ginf"] = ginfHandler
	handlers["ctr"] = ctrHandler
}
