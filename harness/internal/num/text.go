package num

import (
	"encoding/json"
	"fmt"
	"math"
	"strings"

	"gonum.org/v1/gonum/num/quat"

	"gonum.org/v1/gonum/verifharness/internal/core"
)

// NumText.tla cases: texts are sequences of one-character strings; three multi-character tokens stand
// for the non-ASCII unit symbols (the specification module is ASCII).
var textTokens = map[string]string{"<eps>": "ϵ", "<1>": "₁", "<2>": "₂"}

type ntComp struct {
	Cls string `json:"cls"`
	R   Q      `json:"r"`
}

type ntCase struct {
	Kind  string     `json:"kind"`
	Op    string     `json:"op"` // format | names | parse | reject | round
	T     string     `json:"t"`
	X     []ntComp   `json:"x"`
	Fmt   []string   `json:"fmt"`
	Text  []string   `json:"text"`
	Names [][]string `json:"names"`
	Tag   string     `json:"tag"`
}

func joinText(cs []string) string {
	var b strings.Builder
	for _, c := range cs {
		if t, ok := textTokens[c]; ok {
			b.WriteString(t)
		} else {
			b.WriteString(c)
		}
	}
	return b.String()
}

// float converts a component; Format operands must be exactly representable, Parse expectations are the
// correctly rounded value of the decimal numeral (strconv's contract).
func (c ntComp) float(exact bool) float64 {
	switch c.Cls {
	case "inf":
		return math.Inf(1)
	case "-inf":
		return math.Inf(-1)
	case "nan":
		return math.NaN()
	}
	if exact {
		return c.R.F()
	}
	return nearest(c.R)
}

// ntValue builds the gonum value of the named type from its components.
func ntValue(t string, x []ntComp, exact bool) (any, error) {
	v := make([]float64, len(x))
	for i, c := range x {
		v[i] = c.float(exact)
	}
	want := map[string]int{"quat": 4, "dual": 2, "hyper": 4, "dquat": 8, "dcmplx": 4}[t]
	if want == 0 || want != len(v) {
		return nil, fmt.Errorf("type %q with %d components", t, len(v))
	}
	switch t {
	case "quat":
		return mkQuat(v), nil
	case "dual":
		return mkD(v), nil
	case "hyper":
		return mkH(v), nil
	case "dquat":
		return mkDQ(v), nil
	}
	return mkDC(v), nil
}

func sameFloat(a, b float64) bool {
	return a == b || (math.IsNaN(a) && math.IsNaN(b))
}

func ntHandler(line []byte, sum *core.Summary) error {
	var c ntCase
	if err := json.Unmarshal(line, &c); err != nil {
		return err
	}
	pkg := algPkg[c.T]
	sum.Cases++
	sum.Nontrivial++
	switch c.Op {
	case "format", "names":
		val, err := ntValue(c.T, c.X, true)
		if err != nil {
			return err
		}
		f := joinText(c.Fmt)
		var got string
		if o := core.Call(func() { got = fmt.Sprintf(f, val) }); o.Panicked {
			failOnce(sum, "num:"+pkg+".Format:panic", fmt.Sprintf("Sprintf(%q, %#v): %s", f, val, o.Text), c)
			return nil
		}
		if c.Op == "format" {
			if want := joinText(c.Text); got != want {
				verb := f[len(f)-1:]
				failOnce(sum, "num:"+pkg+".Format:%"+verb, fmt.Sprintf("Sprintf(%q) of %s%v = %q, the specification's text is %q", f, c.T, c.X, got, want), c)
				return nil
			}
			if c.T == "quat" && f == "%v" {
				sum.Sample(map[string]any{"routine": "quat.Number.Format", "format": f, "x": c.X, "spec_text": joinText(c.Text), "got": got})
			}
			return nil
		}
		rest := got
		for _, n := range c.Names {
			name := joinText(n) + ":"
			k := strings.Index(rest, name)
			if k < 0 {
				failOnce(sum, "num:"+pkg+".Format:%+v", fmt.Sprintf("Sprintf(%q) = %q: field name %q missing or out of order", f, got, name), c)
				return nil
			}
			rest = rest[k+len(name):]
		}
	case "parse", "reject", "round":
		var text string
		var want quat.Number
		if c.Op != "reject" {
			val, err := ntValue("quat", c.X, c.Op == "round")
			if err != nil {
				return err
			}
			want = val.(quat.Number)
		}
		if c.Op == "round" {
			f := joinText(c.Fmt)
			if o := core.Call(func() { text = fmt.Sprintf(f, want) }); o.Panicked {
				failOnce(sum, "num:quat.Format:panic", o.Text, c)
				return nil
			}
		} else {
			text = joinText(c.Text)
		}
		var got quat.Number
		var err error
		if o := core.Call(func() { got, err = quat.Parse(text) }); o.Panicked {
			failOnce(sum, "num:quat.Parse:panic", fmt.Sprintf("Parse(%q): %s", text, o.Text), c)
			return nil
		}
		if c.Op == "reject" {
			if err == nil {
				failOnce(sum, "num:quat.Parse:accepted-malformed", fmt.Sprintf("Parse(%q) = %v without an error; the string is not of the documented format", text, got), c)
				return nil
			}
			var msg string
			if o := core.Call(func() { msg = err.Error() }); o.Panicked || msg == "" {
				failOnce(sum, "num:quat.Parse:error-text", fmt.Sprintf("Parse(%q): the returned error has no message (%s)", text, o.Text), c)
			}
			return nil
		}
		sig := "num:quat.Parse:value"
		if c.Tag != "" {
			sig += ":" + c.Tag
		}
		if c.Op == "round" {
			sig = "num:quat.Parse(Format):round-trip"
		}
		if err != nil {
			failOnce(sum, sig, fmt.Sprintf("Parse(%q) failed: %v; the string denotes %v", text, err, want), c)
			return nil
		}
		if !sameFloat(got.Real, want.Real) || !sameFloat(got.Imag, want.Imag) || !sameFloat(got.Jmag, want.Jmag) || !sameFloat(got.Kmag, want.Kmag) {
			failOnce(sum, sig, fmt.Sprintf("Parse(%q) = %v, the string denotes %v", text, got, want), c)
			return nil
		}
		if c.Op == "parse" {
			sum.Sample(map[string]any{"routine": "quat.Parse", "text": text, "spec_value": c.X, "got": fmt.Sprint(got)})
		}
	default:
		return fmt.Errorf("unknown text operation %q", c.Op)
	}
	return nil
}

func init() { handlers["ntext"] = ntHandler }
