package num

import (
	"encoding/json"
	"fmt"
	"math"
	"math/big"
	"strings"
	"time"

	"gonum.org/v1/gonum/num/quat"

	"gonum.org/v1/gonum/verifharness/internal/core"
)

// QuatFun.tla cases: every check is an expression tree over gonum's quaternion functions together with
// the exact value the specification says the tree has. This file interprets the tree; it knows no identity.
type qfCheck struct {
	ID   string          `json:"id"`
	E    json.RawMessage `json:"e"`
	K    string          `json:"k"` // rat | pm | ratnan | comps | isinf | notinf | isnan | notnan | abs
	V    []Q             `json:"v"`
	T    []string        `json:"t"`
	Tolu int64           `json:"tolu"`
}

type qfCase struct {
	Kind   string    `json:"kind"`
	Q      []Q       `json:"q"`
	Checks []qfCheck `json:"checks"`
}

var quatFuns = map[string]func(quat.Number) quat.Number{
	"Exp": quat.Exp, "Log": quat.Log, "Sqrt": quat.Sqrt, "Inv": quat.Inv, "Conj": quat.Conj,
	"Sin": quat.Sin, "Cos": quat.Cos, "Tan": quat.Tan, "Sinh": quat.Sinh, "Cosh": quat.Cosh, "Tanh": quat.Tanh,
	"Asin": quat.Asin, "Acos": quat.Acos, "Atan": quat.Atan, "Asinh": quat.Asinh, "Acosh": quat.Acosh, "Atanh": quat.Atanh,
}

type harnessErr struct{ msg string }

func hbad(format string, a ...any) { panic(harnessErr{fmt.Sprintf(format, a...)}) }

// spToken is the float64 of a component class printed by the specification.
func spToken(t string) float64 {
	switch t {
	case "inf":
		return math.Inf(1)
	case "-inf":
		return math.Inf(-1)
	case "nan":
		return math.NaN()
	case "0":
		return 0
	case "-0":
		return math.Copysign(0, -1)
	case "1":
		return 1
	case "-1":
		return -1
	}
	hbad("unknown component class %q", t)
	return 0
}

// qeval evaluates an expression tree; scale is raised to the largest finite modulus among the leaves and
// the intermediate values (the magnitude against which the rounding allowance is measured).
func qeval(raw json.RawMessage, scale *float64) quat.Number {
	var n []json.RawMessage
	if err := json.Unmarshal(raw, &n); err != nil || len(n) == 0 {
		hbad("malformed expression %s", raw)
	}
	var op string
	if err := json.Unmarshal(n[0], &op); err != nil {
		hbad("malformed expression head %s", n[0])
	}
	note := func(v quat.Number) quat.Number {
		m := math.Sqrt(v.Real*v.Real + v.Imag*v.Imag + v.Jmag*v.Jmag + v.Kmag*v.Kmag)
		if !math.IsNaN(m) && !math.IsInf(m, 0) && m > *scale {
			*scale = m
		}
		return v
	}
	rat := func(r json.RawMessage) float64 {
		var q Q
		if err := json.Unmarshal(r, &q); err != nil {
			hbad("malformed rational %s", r)
		}
		return nearest(q)
	}
	str := func(r json.RawMessage) string {
		var s string
		if err := json.Unmarshal(r, &s); err != nil {
			hbad("malformed name %s", r)
		}
		return s
	}
	switch op {
	case "q":
		var c []Q
		if err := json.Unmarshal(n[1], &c); err != nil || len(c) != 4 {
			hbad("malformed quaternion literal %s", raw)
		}
		return note(quat.Number{Real: nearest(c[0]), Imag: nearest(c[1]), Jmag: nearest(c[2]), Kmag: nearest(c[3])})
	case "sp":
		var t []string
		if err := json.Unmarshal(n[1], &t); err != nil || len(t) != 4 {
			hbad("malformed special literal %s", raw)
		}
		return quat.Number{Real: spToken(t[0]), Imag: spToken(t[1]), Jmag: spToken(t[2]), Kmag: spToken(t[3])}
	case "inf":
		return quat.Inf()
	case "nan":
		return quat.NaN()
	case "f":
		f := quatFuns[str(n[1])]
		if f == nil {
			hbad("unknown function %s", n[1])
		}
		return note(f(qeval(n[2], scale)))
	case "powr":
		return note(quat.PowReal(qeval(n[1], scale), rat(n[2])))
	case "pow":
		return note(quat.Pow(qeval(n[1], scale), qeval(n[2], scale)))
	case "mul":
		return note(quat.Mul(qeval(n[1], scale), qeval(n[2], scale)))
	case "add":
		return note(quat.Add(qeval(n[1], scale), qeval(n[2], scale)))
	case "sub":
		return note(quat.Sub(qeval(n[1], scale), qeval(n[2], scale)))
	case "scale":
		return note(quat.Scale(rat(n[1]), qeval(n[2], scale)))
	}
	hbad("unknown expression node %q", op)
	return quat.Number{}
}

func compOK(tok string, x float64) bool {
	switch tok {
	case "any":
		return true
	case "fin":
		return !math.IsNaN(x) && !math.IsInf(x, 0)
	case "inf":
		return math.IsInf(x, 1)
	case "-inf":
		return math.IsInf(x, -1)
	case "nan":
		return math.IsNaN(x)
	case "0", "-0":
		return x == 0
	case "1":
		return x == 1
	case "-1":
		return x == -1
	}
	hbad("unknown component class %q", tok)
	return false
}

func exprText(raw json.RawMessage) string {
	s := strings.ReplaceAll(string(raw), "\"", "")
	if len(s) > 200 {
		s = s[:200] + "..."
	}
	return s
}

// verdict returns ok, a message, and |error|/allowance for the evidence.
func (c *qfCheck) verdict() (bool, string, float64) {
	scale := 1.0
	var got quat.Number
	o := core.CallTimeout(20*time.Second, func() { got = qeval(c.E, &scale) })
	if o.Hung {
		return false, "did not return within 20s", 0
	}
	if o.Panicked {
		if e, isHarness := o.Val.(harnessErr); isHarness {
			panic(e)
		}
		return false, "panicked: " + o.Text, 0
	}
	g := unQuat(got)
	switch c.K {
	case "comps":
		for i, t := range c.T {
			if !compOK(t, g[i]) {
				return false, fmt.Sprintf("= %v, the documentation says components (%s)", got, strings.Join(c.T, ", ")), 0
			}
		}
		return true, "", 0
	case "isinf", "notinf":
		if quat.IsInf(got) != (c.K == "isinf") {
			return false, fmt.Sprintf("IsInf(%v) = %v", got, quat.IsInf(got)), 0
		}
		return true, "", 0
	case "isnan", "notnan":
		if quat.IsNaN(got) != (c.K == "isnan") {
			return false, fmt.Sprintf("IsNaN(%v) = %v", got, quat.IsNaN(got)), 0
		}
		return true, "", 0
	case "abs":
		var a float64
		if o := core.Call(func() { a = quat.Abs(got) }); o.Panicked {
			return false, "Abs panicked: " + o.Text, 0
		}
		if !compOK(c.T[0], a) {
			return false, fmt.Sprintf("Abs(%v) = %v, want %s", got, a, c.T[0]), 0
		}
		return true, "", 0
	case "rat", "pm", "ratnan":
	default:
		hbad("unknown check kind %q", c.K)
	}
	if c.K == "ratnan" && quat.IsNaN(got) {
		return true, "", 0
	}
	tol := new(big.Rat).Mul(mulInt(pow2(-52), c.Tolu), new(big.Rat).SetFloat64(scale))
	try := func(sign int64) (bool, float64) {
		worst := 0.0
		for i := range g {
			want := mulInt(c.V[i].Rat(), sign)
			if !within(g[i], want, tol) {
				return false, 0
			}
			if r := errRatio(g[i], want, tol); r > worst && !math.IsInf(r, 0) {
				worst = r
			}
		}
		return true, worst
	}
	ok, r := try(1)
	if !ok && c.K == "pm" {
		ok, r = try(-1)
	}
	if !ok {
		want := make([]string, 4)
		for i := range want {
			want[i] = c.V[i].Rat().RatString()
		}
		pm := ""
		if c.K == "pm" {
			pm = "+-"
		}
		return false, fmt.Sprintf("= %v, exact value %s(%s) (allowance %s per component, scale %.3g)", got, pm, strings.Join(want, ", "), tol.FloatString(20), scale), 0
	}
	return true, "", r
}

func qfHandler(line []byte, sum *core.Summary) (herr error) {
	var c qfCase
	if err := json.Unmarshal(line, &c); err != nil {
		return err
	}
	if len(c.Checks) == 0 {
		return nil
	}
	defer func() {
		// a malformed table is a failure of the machinery, never a verdict on gonum
		if r := recover(); r != nil {
			if e, ok := r.(harnessErr); ok {
				herr = fmt.Errorf("%s", e.msg)
				return
			}
			panic(r)
		}
	}()
	for i := range c.Checks {
		ck := &c.Checks[i]
		sum.Cases++
		sum.Nontrivial++
		ok, msg, ratio := ck.verdict()
		group := ck.ID
		if k := strings.LastIndex(group, ":"); k >= 0 {
			group = group[k+1:]
		}
		if !ok {
			failOnce(sum, "num:quat."+ck.ID, fmt.Sprintf("%s %s", exprText(ck.E), msg), qfCase{Kind: c.Kind, Q: c.Q, Checks: []qfCheck{*ck}})
			continue
		}
		if ck.Tolu > 0 {
			noteRatio("quat:"+group, ratio)
		}
		if ck.ID == "Sin:definition" || ck.ID == "Sqrt:exact-square" {
			sum.Sample(map[string]any{"routine": "quat", "check": ck.ID, "expression": json.RawMessage(ck.E), "spec_value": ck.V})
		}
	}
	return nil
}

func init() { handlers["qfun"] = qfHandler }
