// Package num binds the C18 specifications (specs/num: Quadrature, FiniteDiff,
// DualAlgebra, Interp) to gonum's integrate, integrate/quad, diff/fd, interp
// and num/* packages. It contains no numerical method of its own: operands
// and expected values are the exact rationals the specification printed; this
// package converts them to floats (checking that the conversion is exact),
// calls gonum and compares in math/big.Rat against the spec's value and the
// spec's rounding allowance.
package num

import (
	"encoding/json"
	"fmt"
	"math"
	"math/big"

	"gonum.org/v1/gonum/verifharness/internal/core"
)

// Q is a rational <<num, den>> printed by the specification.
type Q [2]int64

func (q Q) Rat() *big.Rat {
	if q[1] == 0 {
		panic("spec rational with zero denominator")
	}
	return big.NewRat(q[0], q[1])
}

// F converts a spec rational to a float64; the specification only emits operands that are
// exactly representable, anything else is a harness/spec error (never a verdict).
func (q Q) F() float64 {
	f, exact := q.Rat().Float64()
	if !exact {
		panic(fmt.Sprintf("harness: spec operand %d/%d is not exactly representable", q[0], q[1]))
	}
	return f
}

func ratOf(f float64) *big.Rat {
	if math.IsNaN(f) || math.IsInf(f, 0) {
		return nil
	}
	return new(big.Rat).SetFloat64(f)
}

// within reports |got - want| <= tol (tol >= 0); a NaN/Inf got is never within.
func within(got float64, want, tol *big.Rat) bool {
	g := ratOf(got)
	if g == nil {
		return false
	}
	d := new(big.Rat).Sub(g, want)
	d.Abs(d)
	return d.Cmp(tol) <= 0
}

// errRatio returns |got-want|/tol as a float for the evidence (0 if tol = 0 and exact).
func errRatio(got float64, want, tol *big.Rat) float64 {
	g := ratOf(got)
	if g == nil {
		return math.Inf(1)
	}
	d := new(big.Rat).Sub(g, want)
	d.Abs(d)
	if d.Sign() == 0 {
		return 0
	}
	if tol.Sign() == 0 {
		return math.Inf(1)
	}
	r, _ := new(big.Rat).Quo(d, tol).Float64()
	return r
}

// pow2 returns 2^e as a rational.
func pow2(e int) *big.Rat {
	if e >= 0 {
		return new(big.Rat).SetInt(new(big.Int).Lsh(big.NewInt(1), uint(e)))
	}
	return new(big.Rat).SetFrac(big.NewInt(1), new(big.Int).Lsh(big.NewInt(1), uint(-e)))
}

func mulInt(r *big.Rat, k int64) *big.Rat { return new(big.Rat).Mul(r, big.NewRat(k, 1)) }

type kindOnly struct {
	Kind string `json:"kind"`
}

type handler func(line []byte, sum *core.Summary) error

var handlers = map[string]handler{}

// maxRatio tracks the largest observed |error|/allowance per routine (evidence only).
var maxRatio = map[string]float64{}

// failOnce reports a disagreement under its signature once per process; further cases with the same
// signature are only counted (tools/check keeps a bounded number of violations per run, and every
// distinct signature has to stay visible).
var failedSigs = map[string]bool{}

func failOnce(sum *core.Summary, sig, msg string, c any) {
	if failedSigs[sig] {
		sum.Count("further_failures:"+sig, 1)
		return
	}
	failedSigs[sig] = true
	sum.Fail(sig, msg, c)
}

func noteRatio(name string, r float64) {
	if r > maxRatio[name] {
		maxRatio[name] = r
	}
}

func init() {
	core.RegisterReplay("num", func(in *core.Lines, args []string, seed int64, sum *core.Summary) error {
		for {
			line, ok := in.Next()
			if !ok {
				break
			}
			var k kindOnly
			if err := json.Unmarshal(line, &k); err != nil {
				return fmt.Errorf("line %d: %v", in.N, err)
			}
			h := handlers[k.Kind]
			if h == nil {
				return fmt.Errorf("line %d: unknown case kind %q", in.N, k.Kind)
			}
			if err := h(append([]byte(nil), line...), sum); err != nil {
				return fmt.Errorf("line %d: %v", in.N, err)
			}
		}
		for k, v := range maxRatio {
			sum.Extra["max_err_over_allowance:"+k] = math.Round(v*1000) / 1000
		}
		return nil
	})
}
