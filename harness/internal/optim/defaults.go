package optim

// What optimize.Minimize does around the Method (recorded for specs/optimize/MinimizeTrace.tla):
//   - method == nil: "an appropriate default is chosen based on the properties of the other arguments
//     (dimension, gradient-free or gradient-based, etc.)" for every combination of Problem fields;
//     no proxy can be put around a method the harness never sees, so these runs come without the
//     method's own log (the acceptor lets the method move silently, see MinimizeTrace.tla);
//   - Settings.InitValues (F; F and gradient; F, gradient and Hessian);
//   - an objective that is NaN / +Inf at the start point, a gradient with a NaN / Inf component there
//     (ErrFunc, ErrGrad), an objective that falls to -Inf (FunctionNegativeInfinity), a gradient that
//     lies about the slope (the line search has to give up: Failure and the Linesearcher's error),
//     Settings.GradientThreshold, a Converger of the caller;
//   - calls Minimize has to refuse: Recorder.Init fails, Problem.Status fails when first asked, the
//     InitIteration Record fails (no Result, that error), Method.Uses rejects the Problem (documented panic).

import (
	"fmt"
	"math"
	"math/rand"
	"strings"

	"gonum.org/v1/gonum/mat"
	"gonum.org/v1/gonum/optimize"

	"gonum.org/v1/gonum/verifharness/internal/core"
)

// hostile builds the objectives of this file. All of them are functions of x alone (the same x gives
// the same bits), so that F = f(X) can be judged.
//
//	nan0 / inf0      the planted quadratic, but NaN / +Inf at the start point itself
//	gnan0:i / ginf0:i / gninf0:i  the planted quadratic whose gradient has a NaN / +Inf / -Inf component i at the start point
//	cliff            f(x) = x[0] + sum_{i>0} x[i]^2 for x[0] >= -4, -Inf beyond
//	liar             the planted quadratic with the gradient negated (every "descent" direction climbs)
func hostile(kind string, dim int, calls *callCounts, yield func(), obs observer) (optimize.Problem, []float64) {
	init0 := []float64{3, -2, 1.5, -0.5, 2}[:dim]
	none := observer{func([]float64) {}, func(_, _ []float64) {}}
	q, _ := quadratic(dim, new(callCounts), func() {}, none)
	atInit := func(x []float64) bool {
		for i := range x {
			if math.Float64bits(x[i]) != math.Float64bits(init0[i]) {
				return false
			}
		}
		return true
	}
	name, idx := kind, 0
	if i := strings.IndexByte(kind, ':'); i >= 0 {
		name = kind[:i]
		fmt.Sscan(kind[i+1:], &idx)
	}
	f := func(x []float64) float64 {
		switch name {
		case "nan0":
			if atInit(x) {
				return math.NaN()
			}
		case "inf0":
			if atInit(x) {
				return math.Inf(1)
			}
		case "cliff":
			if x[0] < -4 {
				return math.Inf(-1)
			}
			v := x[0]
			for _, t := range x[1:] {
				v += t * t
			}
			return v
		}
		return q.Func(x)
	}
	g := func(grad, x []float64) {
		switch name {
		case "cliff":
			grad[0] = 1
			for i := 1; i < len(x); i++ {
				grad[i] = 2 * x[i]
			}
			return
		}
		q.Grad(grad, x)
		switch name {
		case "liar":
			for i := range grad {
				grad[i] = -grad[i]
			}
		case "gnan0", "ginf0", "gninf0":
			if atInit(x) {
				grad[idx] = map[string]float64{"gnan0": math.NaN(), "ginf0": math.Inf(1), "gninf0": math.Inf(-1)}[name]
			}
		}
	}
	p := optimize.Problem{
		Func: func(x []float64) float64 {
			calls.f.Add(1)
			obs.f(x)
			yield()
			return f(x)
		},
		Grad: func(grad, x []float64) {
			calls.g.Add(1)
			yield()
			g(grad, x)
			obs.g(x, grad)
		},
		Hess: func(h *mat.SymDense, x []float64) {
			calls.h.Add(1)
			yield()
			if name == "cliff" {
				for i := 0; i < len(x); i++ {
					for j := i; j < len(x); j++ {
						v := 0.0
						if i == j && i > 0 {
							v = 2
						}
						h.SetSym(i, j, v)
					}
				}
				return
			}
			q.Hess(h, x)
		},
	}
	return p, init0
}

func defaultScenarios(seed int64, thorough bool) []scenario {
	rng := rand.New(rand.NewSource(seed + 4711))
	var out []scenario
	add := func(s scenario) {
		if s.Dim == 0 {
			s.Dim = 2 + rng.Intn(2)
		}
		out = append(out, s)
	}
	nilMethod := func() optimize.Method { return nil }
	// ---- method == nil x what the Problem offers x termination cause x Concurrent
	for _, has := range []struct {
		name string
		g, h bool
	}{{"F", false, false}, {"FG", true, false}, {"FGH", true, true}} {
		for _, c := range []int{0, 1, 3} {
			base := scenario{Method: nilMethod, DefM: true, NeedGrad: has.g, NeedHess: has.h, Concurrent: c, Local: true}
			sc := func(name string, f func(*scenario)) {
				s := base
				s.Name = fmt.Sprintf("default(%s)/c%d/%s", has.name, c, name)
				f(&s)
				add(s)
			}
			sc("flimit", func(s *scenario) { s.FLimit = 1 + rng.Intn(9) })
			sc("ilimit", func(s *scenario) { s.ILimit = 1 + rng.Intn(4); s.FLimit = 90 })
			sc("recerr", func(s *scenario) { s.RecErrAt = 1 + rng.Intn(8); s.FLimit = 90 })
			sc("probstatus", func(s *scenario) { s.StatusAt = 1 + rng.Intn(8); s.FLimit = 90 })
			sc("converge", func(s *scenario) { s.FLimit = 90 })
			sc("converger", func(s *scenario) { s.ConvAt = 1 + rng.Intn(3); s.FLimit = 90 })
			sc("valley", func(s *scenario) { s.Prob = "P2"; s.FLimit = 90 })
			if has.g {
				sc("glimit", func(s *scenario) { s.GLimit = 1 + rng.Intn(5); s.FLimit = 90 })
				sc("gthr-loose", func(s *scenario) { s.GThr = 1e3; s.FLimit = 90 })
				sc("gthr", func(s *scenario) { s.GThr = 1e-3; s.FLimit = 90 })
			}
			sc("initF", func(s *scenario) { s.IV = 1; s.FLimit = 90 })
			sc("runtime", func(s *scenario) { s.RL = true; s.FLimit = 90 })
			sc("runtime/ilimit", func(s *scenario) { s.RL = true; s.ILimit = 1 + rng.Intn(2); s.FLimit = 90 })
			sc("nan0", func(s *scenario) { s.Prob = "X:nan0"; s.FLimit = 90 })
			sc("inf0", func(s *scenario) { s.Prob = "X:inf0"; s.FLimit = 90 })
			if has.g {
				sc("gnan0", func(s *scenario) { s.Prob = fmt.Sprintf("X:gnan0:%d", rng.Intn(2)); s.FLimit = 90 })
				sc("liar", func(s *scenario) { s.Prob = "X:liar"; s.FLimit = 2000 })
			}
			sc("cliff", func(s *scenario) { s.Prob = "X:cliff"; s.FLimit = 90 })
			sc("recinit", func(s *scenario) { s.Abort = "recinit" })
			sc("status0", func(s *scenario) { s.Abort = "status0" })
			sc("recfirst", func(s *scenario) { s.Abort = "recfirst" })
		}
	}
	// ---- explicit methods (with the proxy): InitValues, hostile start points, thresholds, refused calls
	type m struct {
		name       string
		mk         func() optimize.Method
		grad, hess bool
		local      bool
	}
	methods := []m{
		{"GradientDescent", func() optimize.Method { return &optimize.GradientDescent{} }, true, false, true},
		{"BFGS", func() optimize.Method { return &optimize.BFGS{} }, true, false, true},
		{"LBFGS", func() optimize.Method { return &optimize.LBFGS{} }, true, false, true},
		{"CG", func() optimize.Method { return &optimize.CG{} }, true, false, true},
		{"Newton", func() optimize.Method { return &optimize.Newton{} }, true, true, true},
		{"NelderMead", func() optimize.Method { return &optimize.NelderMead{} }, false, false, true},
	}
	src := rand.NewSource(seed + 99)
	for _, gm := range []m{
		{"CmaEsChol", func() optimize.Method { return &optimize.CmaEsChol{Src: rand.New(src)} }, false, false, false},
		{"ListSearch", func() optimize.Method {
			return &optimize.ListSearch{Locs: mat.NewDense(7, 2, []float64{3, 3, 0, 1, -1, 0, 2, -2, 1, 1, -3, 4, 0, 0})}
		}, false, false, false},
	} {
		for _, iv := range []int{1, 3} {
			gm, iv := gm, iv
			add(scenario{Name: fmt.Sprintf("%s/c0/init%d+", gm.name, iv), Method: gm.mk, Dim: 2, IV: iv, KeepAll: iv != 1, FLimit: 40, Concurrent: 0})
		}
	}
	// global methods that declare MethodDone themselves (Statuser), and the runtime limit under them
	add(scenario{Name: "CmaEsChol/c1/stoplogdet", Method: func() optimize.Method { return &optimize.CmaEsChol{StopLogDet: 1e6, Src: rand.New(src)} },
		Dim: 2, FLimit: 200, Concurrent: 1})
	add(scenario{Name: "CmaEsChol/c1/runtime", Method: func() optimize.Method { return &optimize.CmaEsChol{Src: rand.New(src)} },
		Dim: 2, FLimit: 200, Concurrent: 1, RL: true})
	add(scenario{Name: "ListSearch/c1/complete", Method: func() optimize.Method {
		return &optimize.ListSearch{Locs: mat.NewDense(5, 2, []float64{3, 3, 0, 1, -1, 0, 2, -2, 1, 1})}
	}, Dim: 2, Concurrent: 1})
	add(scenario{Name: "ListSearch/c1/runtime", Method: func() optimize.Method {
		return &optimize.ListSearch{Locs: mat.NewDense(5, 2, []float64{3, 3, 0, 1, -1, 0, 2, -2, 1, 1})}
	}, Dim: 2, Concurrent: 1, RL: true})
	for _, me := range methods {
		for _, c := range []int{0, 2} {
			base := scenario{Method: me.mk, NeedGrad: me.grad, NeedHess: me.hess, Concurrent: c, Local: me.local}
			sc := func(name string, f func(*scenario)) {
				s := base
				s.Name = fmt.Sprintf("%s/c%d/%s", me.name, c, name)
				f(&s)
				add(s)
			}
			for _, iv := range []int{1, 3, 7} {
				if iv&2 != 0 && !me.grad || iv&4 != 0 && !me.hess {
					// values the Problem cannot compute itself are handed in as well (the Problem keeps all its fields)
					sc(fmt.Sprintf("init%d+", iv), func(s *scenario) { s.IV = iv; s.KeepAll = true; s.FLimit = 70 })
					continue
				}
				sc(fmt.Sprintf("init%d", iv), func(s *scenario) { s.IV = iv; s.FLimit = 70 })
				sc(fmt.Sprintf("init%d/ilimit", iv), func(s *scenario) { s.IV = iv; s.ILimit = 1 + rng.Intn(3) })
				sc(fmt.Sprintf("init%d/flimit", iv), func(s *scenario) { s.IV = iv; s.FLimit = 1 + rng.Intn(4) })
			}
			sc("runtime", func(s *scenario) { s.RL = true; s.FLimit = 70 })
			sc("nan0", func(s *scenario) { s.Prob = "X:nan0"; s.FLimit = 70 })
			sc("inf0", func(s *scenario) { s.Prob = "X:inf0"; s.FLimit = 70 })
			sc("inf0/initF", func(s *scenario) { s.Prob = "X:inf0"; s.IV = 1; s.FLimit = 70 })
			sc("nan0/flimit1", func(s *scenario) { s.Prob = "X:nan0"; s.FLimit = 1 })
			if me.grad {
				for _, k := range []string{"gnan0", "ginf0", "gninf0"} {
					sc(k, func(s *scenario) { s.Dim = 3; s.Prob = fmt.Sprintf("X:%s:%d", k, rng.Intn(3)); s.FLimit = 70 })
				}
				sc("gthr-loose", func(s *scenario) { s.GThr = 1e3; s.FLimit = 70 })
				sc("gthr", func(s *scenario) { s.GThr = 1e-2; s.FLimit = 70 })
				if me.name != "CG" { // CG's default Linesearcher is MoreThuente: known findings C19-LS1 (non-finite values)
					sc("liar", func(s *scenario) { s.Prob = "X:liar"; s.FLimit = 2000 })
					sc("cliff", func(s *scenario) { s.Prob = "X:cliff"; s.FLimit = 70 })
				}
				sc("uses/nograd", func(s *scenario) { s.Abort = "uses"; s.DropG = true })
			} else {
				sc("cliff", func(s *scenario) { s.Prob = "X:cliff"; s.FLimit = 70 })
			}
			if me.hess {
				sc("uses/nohess", func(s *scenario) { s.Abort = "uses"; s.DropH = true })
			}
			sc("recinit", func(s *scenario) { s.Abort = "recinit" })
			sc("status0", func(s *scenario) { s.Abort = "status0" })
			sc("recfirst", func(s *scenario) { s.Abort = "recfirst" })
			sc("recpost", func(s *scenario) { s.FLimit = 1; s.RecErrAt = 1 + rng.Intn(3) })
		}
	}
	return out
}

// ivUnused: a gradient handed in as InitValues to a method that never asks for one
func ivUnused(sc scenario) bool { return sc.IV&2 != 0 && !sc.NeedGrad }

// recordDefaults: args nt=K (emit only the runs that used K workers), part=main | ivunused
func recordDefaults(out *core.Out, args []string, seed int64, sum *core.Summary) error {
	nt, thorough := 0, false
	part := "main"
	for _, a := range args {
		if strings.HasPrefix(a, "part=") {
			part = a[5:]
		}
		if strings.HasPrefix(a, "nt=") {
			fmt.Sscan(a[3:], &nt)
		}
		if a == "thorough" {
			thorough = true
		}
	}
	reps := 1
	if thorough {
		reps = 4
	}
	for rep := 0; rep < reps; rep++ {
		for _, sc := range defaultScenarios(seed+int64(1000*rep), thorough) {
			if ivUnused(sc) != (part == "ivunused") {
				continue
			}
			rr := runScenario(sc, seed+int64(rep), sum)
			if rr == nil {
				continue
			}
			if rr.Abort != "none" {
				rr.NT = 1 // no worker was ever started; the run is judged without the model
			}
			if nt != 0 && rr.NT != nt {
				continue
			}
			out.Emit(rr)
			sum.Traces++
			sum.Count("runs with method == nil", rr.DefM)
			if rr.Abort != "none" {
				sum.Count("calls Minimize had to refuse ("+rr.Abort+")", 1)
			}
			if rr.IV != 0 {
				sum.Count("runs with Settings.InitValues", 1)
			}
			r := rr.Result
			sum.Count("status "+fmt.Sprint(r["status_x"])+" / error "+fmt.Sprint(r["errkind"]), 1)
		}
	}
	return nil
}
