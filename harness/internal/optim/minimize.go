// Package optim records real executions of optimize.Minimize (hook events of
// the distributor, workers and stats loop, plus a recording proxy around the
// real Method and counting wrappers around the user callbacks) for validation
// by specs/optimize/MinimizeTrace.tla (properties C09 and C19).
package optim

import (
	"errors"
	"fmt"
	"math"
	"math/rand"
	"runtime"
	"sort"
	"strings"
	"sync"
	"sync/atomic"
	"time"

	"gonum.org/v1/gonum/internal/verifhook"
	"gonum.org/v1/gonum/mat"
	"gonum.org/v1/gonum/optimize"
	"gonum.org/v1/gonum/stat/distmv"

	"gonum.org/v1/gonum/verifharness/internal/core"
)

type rawEv struct {
	actor, ev string
	a, b, c   int64
}

// collector is the tracer installed into the hooks: one log per actor, in
// that actor's program order. The mutex only protects the map; no order
// between actors is recorded or used.
type collector struct {
	mu   sync.Mutex
	logs map[string][]rawEv
}

func (c *collector) trace(actor, ev string, a, b, x int64) {
	c.mu.Lock()
	c.logs[actor] = append(c.logs[actor], rawEv{actor, ev, a, b, x})
	c.mu.Unlock()
}

// opName names an Operation; for an evaluation it also tells which of Func, Grad, Hess it includes.
func opName(op optimize.Operation) (name string, f, g, h int) {
	const (
		fn = optimize.FuncEvaluation
		gr = optimize.GradEvaluation
		he = optimize.HessEvaluation
	)
	bit := func(m optimize.Operation) int {
		if op&m != 0 {
			return 1
		}
		return 0
	}
	switch {
	case op == optimize.NoOperation:
		return "noop", 0, 0, 0
	case op == optimize.InitIteration:
		return "init", 0, 0, 0
	case op == optimize.PostIteration:
		return "post", 0, 0, 0
	case op == optimize.MajorIteration:
		return "major", 0, 0, 0
	case op == optimize.MethodDone:
		return "mdone", 0, 0, 0
	case op&^(fn|gr|he) == 0:
		return "eval", bit(fn), bit(gr), bit(he)
	case op == he<<1:
		return "sigdone", 0, 0, 0
	}
	return fmt.Sprintf("op%d", int(op)), 0, 0, 0
}

func statusName(s optimize.Status) string {
	switch s {
	case optimize.NotTerminated:
		return "none"
	case optimize.FunctionEvaluationLimit:
		return "flimit"
	case optimize.GradientEvaluationLimit:
		return "glimit"
	case optimize.HessianEvaluationLimit:
		return "hlimit"
	case optimize.IterationLimit:
		return "ilimit"
	case optimize.RuntimeLimit:
		return "rlimit"
	case optimize.MethodConverge:
		return "mconv"
	case optimize.Failure:
		return "fail"
	case optimize.Success:
		return "probstatus" // only the driver's Problem.Status returns Success
	}
	return "converged"
}

// proxy records the real Method's channel traffic. Together with the real
// Method it forms the "Method" the protocol model talks about.
type proxy struct {
	optimize.Method
	col *collector
}

func (p *proxy) Status() (optimize.Status, error) {
	if s, ok := p.Method.(optimize.Statuser); ok {
		return s.Status()
	}
	return optimize.NotTerminated, nil
}

func (p *proxy) Run(operations chan<- optimize.Task, results <-chan optimize.Task, tasks []optimize.Task) {
	n := len(tasks)
	innerOps := make(chan optimize.Task, n)
	innerRes := make(chan optimize.Task, n)
	done := make(chan struct{})
	for _, t := range tasks {
		p.col.trace("M0", "MInit", 0, verifhook.Ptr(t.Location), 0)
	}
	go func() {
		for t := range results {
			p.col.trace("MR", "MRecv", int64(t.Op), verifhook.Ptr(t.Location), 0)
			innerRes <- t
		}
		p.col.trace("MR", "MResClosed", 0, 0, 0)
		close(innerRes)
	}()
	go func() {
		for t := range innerOps {
			operations <- t
			p.col.trace("MO", "MSend", int64(t.Op), verifhook.Ptr(t.Location), 0)
		}
		close(operations)
		p.col.trace("MO", "MClose", 0, 0, 0)
		close(done)
	}()
	p.Method.Run(innerOps, innerRes, tasks)
	<-done
}

type scenario struct {
	Name       string
	Method     func() optimize.Method
	NeedGrad   bool
	NeedHess   bool
	Concurrent int
	FLimit     int
	GLimit     int // Settings.GradEvaluations
	HLimit     int // Settings.HessEvaluations
	ILimit     int
	RecErrAt   int // Recorder returns an error at this Record call (0: never)
	StatusAt   int // Problem.Status terminates at this call (0: never)
	ConvAt     int // the Converger reports FunctionConvergence at this Converged call (0: default converger)
	Dim        int
	Local      bool

	// histories that use ONE Method value for several Minimize calls (reuse.go)
	M    optimize.Method // the value to use (nil: a fresh one from Method())
	Prob string          // "" / "P1": the planted quadratic; "P2": the narrow valley
	Obj  int             // identity of the Method value
	Seq  int             // 1 + number of earlier Minimize calls made with it

	// defaults.go: what Minimize does around the method
	DefM    bool    // Minimize is called with method == nil (no Method proxy: the method's log is missing)
	IV      int     // Settings.InitValues: bit 0 F, bit 1 Gradient, bit 2 Hessian are handed in (0: nil)
	Abort   string  // "" | "recinit" (Recorder.Init fails) | "status0" (Problem.Status fails when first asked) | "recfirst" (the InitIteration Record fails) | "uses" (Method.Uses rejects the Problem)
	GThr    float64 // Settings.GradientThreshold
	DropG   bool    // the Problem offers no Grad although NeedGrad (Abort "uses")
	DropH   bool    // the Problem offers no Hess although NeedHess (Abort "uses")
	KeepAll bool    // the Problem offers Grad and Hess whatever the method needs
	RL      bool    // Settings.Runtime = 1ns: elapsed at every major iteration
}

// convAt is a Converger that reports convergence at a chosen call.
type convAt struct{ n, at int }

func (c *convAt) Init(int) { c.n = 0 }
func (c *convAt) Converged(*optimize.Location) optimize.Status {
	c.n++
	if c.n >= c.at {
		return optimize.FunctionConvergence
	}
	return optimize.NotTerminated
}

type recorder struct {
	n, errAt int
	initErr  bool
	failed   string // "none" | "recinit" | "init" | "mid" | "post": the call that returned the error
}

var errRecorder = errors.New("recorder: injected failure")

func (r *recorder) Init() error {
	if r.initErr {
		r.failed = "recinit"
		return errRecorder
	}
	return nil
}
func (r *recorder) Record(_ *optimize.Location, op optimize.Operation, _ *optimize.Stats) error {
	r.n++
	if r.errAt > 0 && r.n == r.errAt {
		switch op {
		case optimize.InitIteration:
			r.failed = "init"
		case optimize.PostIteration:
			r.failed = "post"
		default:
			r.failed = "mid"
		}
		return errRecorder
	}
	return nil
}

type outEv map[string]any

type runRec struct {
	Name   string             `json:"name"`
	Obj    int                `json:"obj"`
	Seq    int                `json:"seq"`
	NT     int                `json:"nt"`
	FL     int                `json:"fl"`
	GL     int                `json:"gl"`
	HL     int                `json:"hl"`
	IL     int                `json:"il"`
	DefM   int                `json:"defm"`  // 1: Minimize chose the method (method == nil), the logs MO / MR are missing
	HasG   int                `json:"hasg"`  // the Problem offers Grad
	HasH   int                `json:"hash"`  // the Problem offers Hess
	IV     int                `json:"iv"`    // InitValues handed in (bit 0 F, bit 1 gradient, bit 2 Hessian)
	Abort  string             `json:"abort"` // "none" or the reason why Minimize has to refuse the call
	RL     int                `json:"rl"`    // 1: Settings.Runtime is one nanosecond
	Logs   map[string][]outEv `json:"logs"`
	Result map[string]any     `json:"result"`
}

// callCounts counts the callbacks really made.
type callCounts struct{ f, g, h atomic.Int64 }

// observer is told every (x, value) pair the objective produced.
type observer struct {
	f func(x []float64)
	g func(x, grad []float64)
}

// planted quadratic f(x) = 1/2 (x-x*)^T A (x-x*) with integer SPD A and integer x*
func quadratic(dim int, calls *callCounts, yield func(), obs observer) (optimize.Problem, []float64) {
	A := mat.NewSymDense(dim, nil)
	for i := 0; i < dim; i++ {
		for j := i; j < dim; j++ {
			v := 0.0
			if i == j {
				v = float64(4 + i)
			} else if j == i+1 {
				v = 1
			}
			A.SetSym(i, j, v)
		}
	}
	xs := make([]float64, dim)
	for i := range xs {
		xs[i] = float64(i - 1)
	}
	d := func(x []float64) *mat.VecDense {
		v := mat.NewVecDense(dim, nil)
		for i := range x {
			v.SetVec(i, x[i]-xs[i])
		}
		return v
	}
	p := optimize.Problem{
		Func: func(x []float64) float64 {
			calls.f.Add(1)
			obs.f(x)
			yield()
			v := d(x)
			var av mat.VecDense
			av.MulVec(A, v)
			return 0.5 * mat.Dot(v, &av)
		},
		Grad: func(g, x []float64) {
			calls.g.Add(1)
			yield()
			v := d(x)
			var av mat.VecDense
			av.MulVec(A, v)
			for i := range g {
				g[i] = av.AtVec(i)
			}
			obs.g(x, g)
		},
		Hess: func(h *mat.SymDense, x []float64) {
			calls.h.Add(1)
			yield()
			h.CopySym(A)
		},
	}
	return p, xs
}

// narrow valley f(x) = sum_i d_i x_i^2 with d = (1, 1000, 10, ...): the first trial step of a
// gradient method from the start point overshoots the valley, so that a line search has to back off
func valley(dim int, calls *callCounts, yield func(), obs observer) optimize.Problem {
	dd := []float64{1, 1000, 10, 100, 3}[:dim]
	return optimize.Problem{
		Func: func(x []float64) float64 {
			calls.f.Add(1)
			obs.f(x)
			yield()
			var f float64
			for i, v := range x {
				f += dd[i] * v * v
			}
			return f
		},
		Grad: func(g, x []float64) {
			calls.g.Add(1)
			yield()
			for i, v := range x {
				g[i] = 2 * dd[i] * v
			}
			obs.g(x, g)
		},
		Hess: func(h *mat.SymDense, x []float64) {
			calls.h.Add(1)
			yield()
			for i := range x {
				for j := i; j < len(x); j++ {
					if i == j {
						h.SetSym(i, i, 2*dd[i])
					} else {
						h.SetSym(i, j, 0)
					}
				}
			}
		},
	}
}

// problem builds the objective of a scenario and its start point.
func problem(kind string, dim int, calls *callCounts, yield func(), obs observer) (optimize.Problem, []float64) {
	if kind == "P2" {
		return valley(dim, calls, yield, obs), []float64{1, 0.001, 0.5, -0.25, 2}[:dim]
	}
	if strings.HasPrefix(kind, "X:") {
		return hostile(kind[2:], dim, calls, yield, obs)
	}
	p, _ := quadratic(dim, calls, yield, obs)
	return p, []float64{3, -2, 1.5, -0.5, 2}[:dim]
}

func scenarios(seed int64, thorough bool) []scenario {
	rng := rand.New(rand.NewSource(seed))
	type m struct {
		name       string
		mk         func() optimize.Method
		grad, hess bool
	}
	src := rand.NewSource(seed + 99)
	methods := []m{
		{"GradientDescent", func() optimize.Method { return &optimize.GradientDescent{} }, true, false},
		{"BFGS", func() optimize.Method { return &optimize.BFGS{} }, true, false},
		{"LBFGS", func() optimize.Method { return &optimize.LBFGS{} }, true, false},
		{"CG", func() optimize.Method { return &optimize.CG{} }, true, false},
		{"Newton", func() optimize.Method { return &optimize.Newton{} }, true, true},
		{"NelderMead", func() optimize.Method { return &optimize.NelderMead{} }, false, false},
		{"CmaEsChol", func() optimize.Method { return &optimize.CmaEsChol{Src: rand.New(src)} }, false, false},
		{"GuessAndCheck", func() optimize.Method {
			n, _ := distmv.NewNormal([]float64{0, 0}, mat.NewSymDense(2, []float64{4, 0, 0, 4}), rand.New(src))
			return &optimize.GuessAndCheck{Rander: n}
		}, false, false},
		{"ListSearch", func() optimize.Method {
			return &optimize.ListSearch{Locs: mat.NewDense(7, 2, []float64{3, 3, 0, 1, -1, 0, 2, -2, 1, 1, -3, 4, 0, 0})}
		}, false, false},
	}
	var out []scenario
	concs := []int{0, 1, 2, 3, 4}
	for _, me := range methods {
		for _, c := range concs {
			// every termination cause, with seed-chosen small limits
			sc := func(name string, f func(*scenario)) {
				local := me.name != "CmaEsChol" && me.name != "GuessAndCheck" && me.name != "ListSearch"
				s := scenario{Name: fmt.Sprintf("%s/c%d/%s", me.name, c, name), Method: me.mk, NeedGrad: me.grad, NeedHess: me.hess, Concurrent: c, Dim: 2, Local: local}
				f(&s)
				out = append(out, s)
			}
			sc("flimit", func(s *scenario) { s.FLimit = 1 + rng.Intn(9) })
			sc("ilimit", func(s *scenario) { s.ILimit = 1 + rng.Intn(4); s.FLimit = 400 })
			sc("recerr", func(s *scenario) { s.RecErrAt = 2 + rng.Intn(8); s.FLimit = 400 })
			sc("probstatus", func(s *scenario) { s.StatusAt = 1 + rng.Intn(8); s.FLimit = 400 })
			if thorough || c <= 2 {
				sc("converge", func(s *scenario) { s.FLimit = 300 })
			}
		}
	}
	return out
}

func settle(base int) int {
	// A goroutine that was still winding down when base was taken (from the previous run) makes the
	// difference negative: that is not a leak. The deadline is generous because the machine may be
	// heavily loaded; it is only waited for when goroutines are really still alive.
	deadline := time.Now().Add(15 * time.Second)
	for {
		n := runtime.NumGoroutine()
		if n <= base {
			return 0
		}
		if time.Now().After(deadline) {
			return n - base
		}
		time.Sleep(2 * time.Millisecond)
	}
}

// noTrace: run the workloads without installing the tracer (race-detector pass: the tracer's
// mutex would add synchronisation that could hide races)
var noTrace bool

func runScenario(sc scenario, seed int64, sum *core.Summary) *runRec {
	col := &collector{logs: map[string][]rawEv{}}
	if !noTrace {
		verifhook.SetTracer(col.trace)
		defer verifhook.SetTracer(nil)
	}
	var calls callCounts
	yrng := rand.New(rand.NewSource(seed))
	var ymu sync.Mutex
	yield := func() {
		ymu.Lock()
		k := yrng.Intn(4)
		ymu.Unlock()
		for i := 0; i < k; i++ {
			runtime.Gosched()
		}
	}
	var smu sync.Mutex
	evaluated := map[string]bool{}
	gradAt := map[string]string{} // the gradient the objective returned at each point it was asked for
	xkey := func(x []float64) string {
		var b strings.Builder
		for _, v := range x {
			fmt.Fprintf(&b, "%x,", math.Float64bits(v))
		}
		return b.String()
	}
	p, init0 := problem(sc.Prob, sc.Dim, &calls, yield, observer{
		f: func(x []float64) {
			smu.Lock()
			evaluated[xkey(x)] = true
			smu.Unlock()
		},
		g: func(x, g []float64) {
			smu.Lock()
			gradAt[xkey(x)] = xkey(g)
			smu.Unlock()
		}})
	pure, _ := problem(sc.Prob, sc.Dim, new(callCounts), func() {}, observer{func([]float64) {}, func(_, _ []float64) {}})
	if !sc.NeedGrad && !sc.KeepAll || sc.DropG {
		p.Grad = nil
	}
	if !sc.NeedHess && !sc.KeepAll || sc.DropH {
		p.Hess = nil
	}
	var statusErr = errors.New("problem status: injected failure")
	if sc.StatusAt > 0 || sc.Abort == "status0" {
		var n atomic.Int64
		p.Status = func() (optimize.Status, error) {
			k := n.Add(1)
			if sc.Abort == "status0" && k == 1 {
				return optimize.Failure, statusErr
			}
			if sc.StatusAt > 0 && k >= int64(sc.StatusAt)+1 { // the first call is made by checkOptimization
				return optimize.Success, nil
			}
			return optimize.NotTerminated, nil
		}
	}
	settings := &optimize.Settings{Concurrent: sc.Concurrent, FuncEvaluations: sc.FLimit, GradEvaluations: sc.GLimit,
		HessEvaluations: sc.HLimit, MajorIterations: sc.ILimit, GradientThreshold: sc.GThr}
	if sc.RL {
		settings.Runtime = time.Nanosecond
	}
	rec := &recorder{failed: "none"}
	if sc.RecErrAt > 0 {
		rec.errAt = sc.RecErrAt + 1 // the first Record is InitIteration
		settings.Recorder = rec
	}
	switch sc.Abort {
	case "recinit":
		rec.initErr = true
		settings.Recorder = rec
	case "recfirst":
		rec.errAt = 1
		settings.Recorder = rec
	}
	if sc.ConvAt > 0 {
		settings.Converger = &convAt{at: sc.ConvAt}
	}
	// the value (and derivatives) of the objective at the start point, evaluated at the start point: what the
	// caller of Minimize knows and hands in as Settings.InitValues
	initF := pure.Func(init0)
	if sc.IV != 0 {
		iv := &optimize.Location{F: initF}
		smu.Lock()
		evaluated[xkey(init0)] = true
		smu.Unlock()
		if sc.IV&2 != 0 {
			iv.Gradient = make([]float64, sc.Dim)
			pure.Grad(iv.Gradient, init0)
			smu.Lock()
			gradAt[xkey(init0)] = xkey(iv.Gradient)
			smu.Unlock()
		}
		if sc.IV&4 != 0 {
			iv.Hessian = mat.NewSymDense(sc.Dim, nil)
			pure.Hess(iv.Hessian, init0)
		}
		settings.InitValues = iv
	}
	base := runtime.NumGoroutine()
	var res *optimize.Result
	var err error
	m := sc.M
	if m == nil && !sc.DefM {
		m = sc.Method()
	}
	var px optimize.Method // stays nil when Minimize is to choose the method
	if !sc.DefM {
		px = &proxy{Method: m, col: col}
	}
	out := core.CallTimeout(20*time.Second, func() {
		res, err = optimize.Minimize(p, append([]float64(nil), init0...), settings, px)
	})
	if out.Hung {
		sum.Fail("minimize:"+strings.Split(sc.Name, "/")[0]+":hang", "Minimize did not return within 20s: "+sc.Name, map[string]any{"scenario": sc.Name})
		return nil
	}
	if out.Panicked && sc.Abort != "uses" {
		sum.Fail("minimize:"+strings.Split(sc.Name, "/")[0]+":panic", sc.Name+": "+out.Text, map[string]any{"scenario": sc.Name})
		return nil
	}
	_ = err
	leaked := settle(base)
	// all goroutines of the run have finished; taking the collector's lock once more orders their
	// last log writes before the reads below
	col.mu.Lock()
	defer col.mu.Unlock()

	// renumber tokens (Location identities) and worker actors
	tok := map[int64]int{0: 0}
	tokOf := func(p int64) int {
		if t, ok := tok[p]; ok {
			return t
		}
		tok[p] = len(tok)
		return tok[p]
	}
	for _, e := range col.logs["M0"] {
		tokOf(e.b)
	}
	var wnames []string
	for a := range col.logs {
		if strings.HasPrefix(a, "W#") {
			wnames = append(wnames, a)
		}
	}
	sort.Slice(wnames, func(i, j int) bool {
		var x, y int
		fmt.Sscanf(wnames[i], "W#%d", &x)
		fmt.Sscanf(wnames[j], "W#%d", &y)
		return x < y
	})
	seq := sc.Seq
	if seq == 0 {
		seq = 1
	}
	b2i := func(b bool) int {
		if b {
			return 1
		}
		return 0
	}
	abort := sc.Abort
	if abort == "" {
		abort = "none"
	}
	rr := &runRec{Name: sc.Name, Obj: sc.Obj, Seq: seq, NT: len(wnames), FL: sc.FLimit, GL: sc.GLimit, HL: sc.HLimit, IL: sc.ILimit,
		DefM: b2i(sc.DefM), HasG: b2i(p.Grad != nil), HasH: b2i(p.Hess != nil), IV: sc.IV, Abort: abort, RL: b2i(sc.RL),
		Logs: map[string][]outEv{}}
	conv := func(e rawEv) outEv {
		o := outEv{"e": e.ev, "op": "none", "tok": 0, "f": 0, "g": 0, "h": 0, "status": "none", "nf": 0, "ni": 0}
		switch e.ev {
		case "SProc":
			o["status"], o["nf"], o["ni"] = statusName(optimize.Status(e.a)), e.b, e.c
		case "SPost":
			o["status"] = statusName(optimize.Status(e.a))
		case "SExit":
			o["nf"], o["ni"] = e.a, e.b
		case "MResClosed", "MClose", "DDone", "DExit", "WClosed", "WSentDone", "SCloseResults":
		default:
			name, f, g, h := opName(optimize.Operation(e.a))
			o["op"], o["f"], o["g"], o["h"], o["tok"] = name, f, g, h, tokOf(e.b)
		}
		return o
	}
	for a, evs := range col.logs {
		name := a
		if !(a == "MO" || a == "MR" || a == "D" || a == "S" || strings.HasPrefix(a, "W#")) {
			continue // events of other hook families (mat pools, gemm) are not part of this protocol
		}
		for i, w := range wnames {
			if a == w {
				name = fmt.Sprintf("W%d", i+1)
			}
		}
		l := make([]outEv, 0, len(evs))
		for _, e := range evs {
			l = append(l, conv(e))
		}
		rr.Logs[name] = l
	}
	for _, must := range []string{"MO", "MR", "D", "S"} {
		if rr.Logs[must] == nil {
			rr.Logs[must] = []outEv{}
		}
	}
	// logging-boundary predicates named by the property, computed from values the real code
	// produced (never recomputed optima): F = f(X) bit for bit, X was evaluated, F <= f(init)
	// what kind of error Minimize returned (identities of the values involved, no text)
	errkind := "none"
	errgradOK := 0
	var ef optimize.ErrFunc
	var eg optimize.ErrGrad
	switch {
	case err == nil:
	case errors.Is(err, errRecorder):
		errkind = "recorder"
	case errors.Is(err, statusErr):
		errkind = "probstatus"
	case errors.As(err, &ef):
		errkind = "errfunc"
		// "The error state may be either +Inf or NaN": the value reported is the invalid value of the objective
		if !(math.Float64bits(float64(ef)) == math.Float64bits(initF) || math.IsNaN(float64(ef)) && math.IsNaN(initF)) {
			errkind = "errfunc-othervalue"
		}
	case errors.As(err, &eg):
		errkind = "errgrad"
		// "Index is the position at which the invalid gradient was found", "Grad is the invalid gradient value"
		g0 := make([]float64, sc.Dim)
		if pure.Grad != nil {
			pure.Grad(g0, init0)
			if eg.Index >= 0 && eg.Index < len(g0) && (math.IsNaN(g0[eg.Index]) || math.IsInf(g0[eg.Index], 0)) &&
				(math.Float64bits(eg.Grad) == math.Float64bits(g0[eg.Index]) || math.IsNaN(eg.Grad) && math.IsNaN(g0[eg.Index])) {
				errgradOK = 1
			}
		}
	case errors.Is(err, optimize.ErrLinesearcherFailure), errors.Is(err, optimize.ErrNonDescentDirection),
		errors.Is(err, optimize.ErrNoProgress), errors.Is(err, optimize.ErrLinesearcherBound):
		errkind = "linesearch"
	default:
		errkind = "other"
	}
	// the objective at the start point as the run saw it
	initf := "ok"
	if math.IsNaN(initF) {
		initf = "nan"
	} else if math.IsInf(initF, 1) {
		initf = "pinf"
	}
	initg := 0
	if p.Grad != nil && pure.Grad != nil && initf == "ok" {
		g0 := make([]float64, sc.Dim)
		pure.Grad(g0, init0)
		for _, v := range g0 {
			if math.IsNaN(v) || math.IsInf(v, 0) {
				initg = 1
			}
		}
	}
	if res == nil {
		// Minimize refused the call (error before the run, or the documented panic)
		rr.Result = map[string]any{
			"nilres": 1, "panicked": b2i(out.Panicked), "errkind": errkind, "recfail": rec.failed,
			"nf": 0, "ni": 0, "ng": 0, "nh": 0, "calls": calls.f.Load(), "calls_g": calls.g.Load(), "calls_h": calls.h.Load(),
			"status": "none", "status_x": "none", "goroutines": leaked, "fx_ok": 0, "x_eval": 0, "noworse": 0, "local": b2i(sc.Local),
			"finf": 0, "has_grad": 0, "grad_ok": 0, "initf": initf, "initg": initg, "errgrad_ok": errgradOK, "f_neginf": 0, "gthr_ok": 0,
		}
		return rr
	}
	// "the reported gradient is the gradient at the reported X": the objective wrapper remembered the
	// gradient it returned for each point of THIS run
	gradOK := res.Gradient != nil && gradAt[xkey(res.X)] == xkey(res.Gradient)
	// GradientThreshold: "the infinity norm of the gradient is less than this value" (Settings), the methods'
	// own GradStopThreshold "is defaulted to 1e-12" (every method here is used with its zero value)
	gthrOK := 0
	if res.Gradient != nil {
		norm := 0.0
		for _, v := range res.Gradient {
			norm = math.Max(norm, math.Abs(v))
		}
		if norm < math.Max(sc.GThr, 1e-12) {
			gthrOK = 1
		}
	}
	var statusX string
	if o := core.Call(func() { statusX = res.Status.String() }); o.Panicked {
		statusX = "panic"
	}
	rr.Result = map[string]any{
		"nf": res.Stats.FuncEvaluations, "ni": res.Stats.MajorIterations, "calls": calls.f.Load(),
		"ng": res.Stats.GradEvaluations, "nh": res.Stats.HessEvaluations,
		"calls_g": calls.g.Load(), "calls_h": calls.h.Load(),
		"status": statusName(res.Status), "goroutines": leaked,
		"fx_ok":    b2i(math.Float64bits(pure.Func(res.X)) == math.Float64bits(res.F)),
		"x_eval":   b2i(evaluated[xkey(res.X)]),
		"noworse":  b2i(res.F <= pure.Func(init0)),
		"local":    b2i(sc.Local),
		"finf":     b2i(math.IsInf(res.F, 1)),
		"has_grad": b2i(res.Gradient != nil),
		"grad_ok":  b2i(gradOK),
		"nilres":   0, "panicked": 0, "errkind": errkind, "recfail": rec.failed, "status_x": statusX,
		"initf": initf, "initg": initg, "errgrad_ok": errgradOK,
		"f_neginf": b2i(math.IsInf(res.F, -1)), "gthr_ok": gthrOK,
	}
	return rr
}

// recordMinimize: args nt=K (emit only runs that used K workers), thorough
func recordMinimize(out *core.Out, args []string, seed int64, sum *core.Summary) error {
	nt, thorough := 0, false
	for _, a := range args {
		if a == "reuse" {
			return recordReuse(out, args, seed, sum)
		}
		if a == "defaults" {
			return recordDefaults(out, args, seed, sum)
		}
		if strings.HasPrefix(a, "nt=") {
			fmt.Sscan(a[3:], &nt)
		}
		if a == "thorough" {
			thorough = true
		}
		if a == "notrace" {
			noTrace = true
		}
	}
	byNT := map[int]int{}
	for _, sc := range scenarios(seed, thorough) {
		want := sc.Concurrent
		if want == 0 {
			want = 1
		}
		if nt != 0 && want < nt {
			continue // cannot produce nt workers; skip the run altogether
		}
		rr := runScenario(sc, seed, sum)
		if rr == nil {
			continue
		}
		byNT[rr.NT]++
		if !noTrace && (nt == 0 || rr.NT == nt) {
			out.Emit(rr)
			sum.Traces++
		}
	}
	for k, v := range byNT {
		sum.Count(fmt.Sprintf("runs_with_%d_workers", k), v)
	}
	return nil
}

func init() { core.RegisterRecord("minimize", recordMinimize) }
