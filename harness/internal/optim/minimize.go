// Package optim records real executions of optimize.Minimize (hook events of
// the distributor, workers and stats loop, plus a recording proxy around the
// real Method and counting wrappers around the user callbacks) for validation
// by specs/optimize/MinimizeTrace.tla (properties C09 and C19).
package optim

import (
	"errors"
	"fmt"
	"math"
	"math/rand"
	"runtime"
	"sort"
	"strings"
	"sync"
	"sync/atomic"
	"time"

	"gonum.org/v1/gonum/internal/verifhook"
	"gonum.org/v1/gonum/mat"
	"gonum.org/v1/gonum/optimize"
	"gonum.org/v1/gonum/stat/distmv"

	"gonum.org/v1/gonum/verifharness/internal/core"
)

type rawEv struct {
	actor, ev string
	a, b, c   int64
}

// collector is the tracer installed into the hooks: one log per actor, in
// that actor's program order. The mutex only protects the map; no order
// between actors is recorded or used.
type collector struct {
	mu   sync.Mutex
	logs map[string][]rawEv
}

func (c *collector) trace(actor, ev string, a, b, x int64) {
	c.mu.Lock()
	c.logs[actor] = append(c.logs[actor], rawEv{actor, ev, a, b, x})
	c.mu.Unlock()
}

func opName(op optimize.Operation) (string, int) {
	const (
		fn = optimize.FuncEvaluation
		gr = optimize.GradEvaluation
		he = optimize.HessEvaluation
	)
	switch {
	case op == optimize.NoOperation:
		return "noop", 0
	case op == optimize.InitIteration:
		return "init", 0
	case op == optimize.PostIteration:
		return "post", 0
	case op == optimize.MajorIteration:
		return "major", 0
	case op == optimize.MethodDone:
		return "mdone", 0
	case op&^(fn|gr|he) == 0:
		f := 0
		if op&fn != 0 {
			f = 1
		}
		return "eval", f
	case op == he<<1:
		return "sigdone", 0
	}
	return fmt.Sprintf("op%d", int(op)), 0
}

func statusName(s optimize.Status) string {
	switch s {
	case optimize.NotTerminated:
		return "none"
	case optimize.FunctionEvaluationLimit:
		return "flimit"
	case optimize.IterationLimit:
		return "ilimit"
	case optimize.MethodConverge:
		return "mconv"
	case optimize.Failure:
		return "fail"
	case optimize.Success:
		return "probstatus" // only the driver's Problem.Status returns Success
	}
	return "converged"
}

// proxy records the real Method's channel traffic. Together with the real
// Method it forms the "Method" the protocol model talks about.
type proxy struct {
	optimize.Method
	col *collector
}

func (p *proxy) Status() (optimize.Status, error) {
	if s, ok := p.Method.(optimize.Statuser); ok {
		return s.Status()
	}
	return optimize.NotTerminated, nil
}

func (p *proxy) Run(operations chan<- optimize.Task, results <-chan optimize.Task, tasks []optimize.Task) {
	n := len(tasks)
	innerOps := make(chan optimize.Task, n)
	innerRes := make(chan optimize.Task, n)
	done := make(chan struct{})
	for _, t := range tasks {
		p.col.trace("M0", "MInit", 0, verifhook.Ptr(t.Location), 0)
	}
	go func() {
		for t := range results {
			p.col.trace("MR", "MRecv", int64(t.Op), verifhook.Ptr(t.Location), 0)
			innerRes <- t
		}
		p.col.trace("MR", "MResClosed", 0, 0, 0)
		close(innerRes)
	}()
	go func() {
		for t := range innerOps {
			operations <- t
			p.col.trace("MO", "MSend", int64(t.Op), verifhook.Ptr(t.Location), 0)
		}
		close(operations)
		p.col.trace("MO", "MClose", 0, 0, 0)
		close(done)
	}()
	p.Method.Run(innerOps, innerRes, tasks)
	<-done
}

type scenario struct {
	Name       string
	Method     func() optimize.Method
	NeedGrad   bool
	NeedHess   bool
	Concurrent int
	FLimit     int
	ILimit     int
	RecErrAt   int // Recorder returns an error at this Record call (0: never)
	StatusAt   int // Problem.Status terminates at this call (0: never)
	Dim        int
	Local      bool
}

type recorder struct {
	n, errAt int
}

func (r *recorder) Init() error { return nil }
func (r *recorder) Record(*optimize.Location, optimize.Operation, *optimize.Stats) error {
	r.n++
	if r.errAt > 0 && r.n == r.errAt {
		return errors.New("recorder: injected failure")
	}
	return nil
}

type outEv map[string]any

type runRec struct {
	Name   string             `json:"name"`
	NT     int                `json:"nt"`
	FL     int                `json:"fl"`
	IL     int                `json:"il"`
	Logs   map[string][]outEv `json:"logs"`
	Result map[string]any     `json:"result"`
}

// planted quadratic f(x) = 1/2 (x-x*)^T A (x-x*) with integer SPD A and integer x*
func quadratic(dim int, calls *atomic.Int64, yield func(), seen func([]float64)) (optimize.Problem, []float64) {
	A := mat.NewSymDense(dim, nil)
	for i := 0; i < dim; i++ {
		for j := i; j < dim; j++ {
			v := 0.0
			if i == j {
				v = float64(4 + i)
			} else if j == i+1 {
				v = 1
			}
			A.SetSym(i, j, v)
		}
	}
	xs := make([]float64, dim)
	for i := range xs {
		xs[i] = float64(i - 1)
	}
	d := func(x []float64) *mat.VecDense {
		v := mat.NewVecDense(dim, nil)
		for i := range x {
			v.SetVec(i, x[i]-xs[i])
		}
		return v
	}
	p := optimize.Problem{
		Func: func(x []float64) float64 {
			calls.Add(1)
			seen(x)
			yield()
			v := d(x)
			var av mat.VecDense
			av.MulVec(A, v)
			return 0.5 * mat.Dot(v, &av)
		},
		Grad: func(g, x []float64) {
			yield()
			v := d(x)
			var av mat.VecDense
			av.MulVec(A, v)
			for i := range g {
				g[i] = av.AtVec(i)
			}
		},
		Hess: func(h *mat.SymDense, x []float64) {
			yield()
			h.CopySym(A)
		},
	}
	return p, xs
}

func scenarios(seed int64, thorough bool) []scenario {
	rng := rand.New(rand.NewSource(seed))
	type m struct {
		name       string
		mk         func() optimize.Method
		grad, hess bool
	}
	src := rand.NewSource(seed + 99)
	methods := []m{
		{"GradientDescent", func() optimize.Method { return &optimize.GradientDescent{} }, true, false},
		{"BFGS", func() optimize.Method { return &optimize.BFGS{} }, true, false},
		{"LBFGS", func() optimize.Method { return &optimize.LBFGS{} }, true, false},
		{"CG", func() optimize.Method { return &optimize.CG{} }, true, false},
		{"Newton", func() optimize.Method { return &optimize.Newton{} }, true, true},
		{"NelderMead", func() optimize.Method { return &optimize.NelderMead{} }, false, false},
		{"CmaEsChol", func() optimize.Method { return &optimize.CmaEsChol{Src: rand.New(src)} }, false, false},
		{"GuessAndCheck", func() optimize.Method {
			n, _ := distmv.NewNormal([]float64{0, 0}, mat.NewSymDense(2, []float64{4, 0, 0, 4}), rand.New(src))
			return &optimize.GuessAndCheck{Rander: n}
		}, false, false},
		{"ListSearch", func() optimize.Method {
			return &optimize.ListSearch{Locs: mat.NewDense(7, 2, []float64{3, 3, 0, 1, -1, 0, 2, -2, 1, 1, -3, 4, 0, 0})}
		}, false, false},
	}
	var out []scenario
	concs := []int{0, 1, 2, 3, 4}
	for _, me := range methods {
		for _, c := range concs {
			// every termination cause, with seed-chosen small limits
			sc := func(name string, f func(*scenario)) {
				local := me.name != "CmaEsChol" && me.name != "GuessAndCheck" && me.name != "ListSearch"
				s := scenario{Name: fmt.Sprintf("%s/c%d/%s", me.name, c, name), Method: me.mk, NeedGrad: me.grad, NeedHess: me.hess, Concurrent: c, Dim: 2, Local: local}
				f(&s)
				out = append(out, s)
			}
			sc("flimit", func(s *scenario) { s.FLimit = 1 + rng.Intn(9) })
			sc("ilimit", func(s *scenario) { s.ILimit = 1 + rng.Intn(4); s.FLimit = 400 })
			sc("recerr", func(s *scenario) { s.RecErrAt = 2 + rng.Intn(8); s.FLimit = 400 })
			sc("probstatus", func(s *scenario) { s.StatusAt = 1 + rng.Intn(8); s.FLimit = 400 })
			if thorough || c <= 2 {
				sc("converge", func(s *scenario) { s.FLimit = 300 })
			}
		}
	}
	return out
}

func settle(base int) int {
	deadline := time.Now().Add(3 * time.Second)
	for {
		n := runtime.NumGoroutine()
		if n <= base || time.Now().After(deadline) {
			return n - base
		}
		time.Sleep(2 * time.Millisecond)
	}
}

// noTrace: run the workloads without installing the tracer (race-detector pass: the tracer's
// mutex would add synchronisation that could hide races)
var noTrace bool

func runScenario(sc scenario, seed int64, sum *core.Summary) *runRec {
	col := &collector{logs: map[string][]rawEv{}}
	if !noTrace {
		verifhook.SetTracer(col.trace)
		defer verifhook.SetTracer(nil)
	}
	var calls atomic.Int64
	yrng := rand.New(rand.NewSource(seed))
	var ymu sync.Mutex
	yield := func() {
		ymu.Lock()
		k := yrng.Intn(4)
		ymu.Unlock()
		for i := 0; i < k; i++ {
			runtime.Gosched()
		}
	}
	var smu sync.Mutex
	evaluated := map[string]bool{}
	xkey := func(x []float64) string {
		var b strings.Builder
		for _, v := range x {
			fmt.Fprintf(&b, "%x,", math.Float64bits(v))
		}
		return b.String()
	}
	p, _ := quadratic(sc.Dim, &calls, yield, func(x []float64) {
		smu.Lock()
		evaluated[xkey(x)] = true
		smu.Unlock()
	})
	pure, _ := quadratic(sc.Dim, new(atomic.Int64), func() {}, func([]float64) {})
	if !sc.NeedGrad {
		p.Grad = nil
	}
	if !sc.NeedHess {
		p.Hess = nil
	}
	if sc.StatusAt > 0 {
		var n atomic.Int64
		p.Status = func() (optimize.Status, error) {
			if n.Add(1) >= int64(sc.StatusAt)+1 { // the first call is made by checkOptimization
				return optimize.Success, nil
			}
			return optimize.NotTerminated, nil
		}
	}
	settings := &optimize.Settings{Concurrent: sc.Concurrent, FuncEvaluations: sc.FLimit, MajorIterations: sc.ILimit}
	if sc.RecErrAt > 0 {
		settings.Recorder = &recorder{errAt: sc.RecErrAt + 1} // the first Record is InitIteration
	}
	base := runtime.NumGoroutine()
	var res *optimize.Result
	var err error
	px := &proxy{Method: sc.Method(), col: col}
	out := core.CallTimeout(20*time.Second, func() {
		res, err = optimize.Minimize(p, []float64{3, -2}, settings, px)
	})
	if out.Hung {
		sum.Fail("minimize:"+strings.Split(sc.Name, "/")[0]+":hang", "Minimize did not return within 20s: "+sc.Name, map[string]any{"scenario": sc.Name})
		return nil
	}
	if out.Panicked {
		sum.Fail("minimize:"+strings.Split(sc.Name, "/")[0]+":panic", sc.Name+": "+out.Text, map[string]any{"scenario": sc.Name})
		return nil
	}
	_ = err
	leaked := settle(base)
	// all goroutines of the run have finished; taking the collector's lock once more orders their
	// last log writes before the reads below
	col.mu.Lock()
	defer col.mu.Unlock()

	// renumber tokens (Location identities) and worker actors
	tok := map[int64]int{0: 0}
	tokOf := func(p int64) int {
		if t, ok := tok[p]; ok {
			return t
		}
		tok[p] = len(tok)
		return tok[p]
	}
	for _, e := range col.logs["M0"] {
		tokOf(e.b)
	}
	var wnames []string
	for a := range col.logs {
		if strings.HasPrefix(a, "W#") {
			wnames = append(wnames, a)
		}
	}
	sort.Slice(wnames, func(i, j int) bool {
		var x, y int
		fmt.Sscanf(wnames[i], "W#%d", &x)
		fmt.Sscanf(wnames[j], "W#%d", &y)
		return x < y
	})
	rr := &runRec{Name: sc.Name, NT: len(wnames), FL: sc.FLimit, IL: sc.ILimit, Logs: map[string][]outEv{}}
	conv := func(e rawEv) outEv {
		o := outEv{"e": e.ev, "op": "none", "tok": 0, "f": 0, "status": "none", "nf": 0, "ni": 0}
		switch e.ev {
		case "SProc":
			o["status"], o["nf"], o["ni"] = statusName(optimize.Status(e.a)), e.b, e.c
		case "SPost":
			o["status"] = statusName(optimize.Status(e.a))
		case "SExit":
			o["nf"], o["ni"] = e.a, e.b
		case "MResClosed", "MClose", "DDone", "DExit", "WClosed", "WSentDone", "SCloseResults":
		default:
			name, f := opName(optimize.Operation(e.a))
			o["op"], o["f"], o["tok"] = name, f, tokOf(e.b)
		}
		return o
	}
	for a, evs := range col.logs {
		name := a
		if !(a == "MO" || a == "MR" || a == "D" || a == "S" || strings.HasPrefix(a, "W#")) {
			continue // events of other hook families (mat pools, gemm) are not part of this protocol
		}
		for i, w := range wnames {
			if a == w {
				name = fmt.Sprintf("W%d", i+1)
			}
		}
		l := make([]outEv, 0, len(evs))
		for _, e := range evs {
			l = append(l, conv(e))
		}
		rr.Logs[name] = l
	}
	for _, must := range []string{"MO", "MR", "D", "S"} {
		if rr.Logs[must] == nil {
			rr.Logs[must] = []outEv{}
		}
	}
	// logging-boundary predicates named by the property, computed from values the real code
	// produced (never recomputed optima): F = f(X) bit for bit, X was evaluated, F <= f(init)
	b2i := func(b bool) int {
		if b {
			return 1
		}
		return 0
	}
	init0 := []float64{3, -2}
	rr.Result = map[string]any{
		"nf": res.Stats.FuncEvaluations, "ni": res.Stats.MajorIterations, "calls": calls.Load(),
		"status": statusName(res.Status), "goroutines": leaked,
		"fx_ok":   b2i(math.Float64bits(pure.Func(res.X)) == math.Float64bits(res.F)),
		"x_eval":  b2i(evaluated[xkey(res.X)]),
		"noworse": b2i(res.F <= pure.Func(init0)),
		"local":   b2i(sc.Local),
		"finf":    b2i(math.IsInf(res.F, 1)),
	}
	return rr
}

// recordMinimize: args nt=K (emit only runs that used K workers), thorough
func recordMinimize(out *core.Out, args []string, seed int64, sum *core.Summary) error {
	nt, thorough := 0, false
	for _, a := range args {
		if strings.HasPrefix(a, "nt=") {
			fmt.Sscan(a[3:], &nt)
		}
		if a == "thorough" {
			thorough = true
		}
		if a == "notrace" {
			noTrace = true
		}
	}
	byNT := map[int]int{}
	for _, sc := range scenarios(seed, thorough) {
		want := sc.Concurrent
		if want == 0 {
			want = 1
		}
		if nt != 0 && want < nt {
			continue // cannot produce nt workers; skip the run altogether
		}
		rr := runScenario(sc, seed, sum)
		if rr == nil {
			continue
		}
		byNT[rr.NT]++
		if !noTrace && (nt == 0 || rr.NT == nt) {
			out.Emit(rr)
			sum.Traces++
		}
	}
	for k, v := range byNT {
		sum.Count(fmt.Sprintf("runs_with_%d_workers", k), v)
	}
	return nil
}

func init() { core.RegisterRecord("minimize", recordMinimize) }
