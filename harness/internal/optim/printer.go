package optim

// optimize.Printer as a Recorder (specs/optimize/Printer.tla, PrinterTrace.tla).
//   replay  "optim-printer": TLC-generated histories of Init / Record calls made on a real Printer that
//           writes into a buffer; what each call printed and returned is compared with the history.
//   record  "optim-printer": real Minimize runs with a probe around a real Printer; the probe logs every
//           call crossing the Recorder interface with the lines it printed; TLC judges the log.
// Of a printed line only two facts are extracted: does it start with an integer (a value line) and how
// many blank-separated fields it has. Blank lines are skipped.

import (
	"bytes"
	"encoding/json"
	"errors"
	"fmt"
	"math"
	"math/rand"
	"os"
	"strconv"
	"strings"
	"time"

	"gonum.org/v1/gonum/mat"
	"gonum.org/v1/gonum/optimize"

	"gonum.org/v1/gonum/verifharness/internal/core"
)

var errWriter = errors.New("harness writer: refused")

type failWriter struct {
	buf  bytes.Buffer
	fail bool
}

func (w *failWriter) Write(p []byte) (int, error) {
	if w.fail {
		return 0, errWriter
	}
	return w.buf.Write(p)
}

type printedLine struct {
	Kind string `json:"kind"`
	Cols int    `json:"cols"`
}

func classifyLines(b []byte) []printedLine {
	out := []printedLine{}
	for _, ln := range strings.Split(string(b), "\n") {
		f := strings.Fields(ln)
		if len(f) == 0 {
			continue
		}
		kind := "head"
		if _, err := strconv.Atoi(f[0]); err == nil {
			kind = "vals"
		}
		out = append(out, printedLine{kind, len(f)})
	}
	return out
}

// tick returns after the clock has advanced ("ValueInterval has elapsed" with ValueInterval = 0)
func tick() {
	t0 := time.Now()
	for !time.Now().After(t0) {
	}
}

var recOps = map[string]optimize.Operation{
	"init": optimize.InitIteration, "major": optimize.MajorIteration, "post": optimize.PostIteration,
	"eval": optimize.FuncEvaluation | optimize.GradEvaluation, "noop": optimize.NoOperation, "mdone": optimize.MethodDone,
}

type printerEv struct {
	K     string        `json:"k"`
	Op    string        `json:"op"`
	G     int           `json:"g"`
	Hs    int           `json:"hs"`
	Ret   string        `json:"ret"`
	Lines []printedLine `json:"lines"`
}

type printerCase struct {
	K     string      `json:"k"`
	Hint  int         `json:"hint"`
	Armed int         `json:"armed"`
	Ev    []printerEv `json:"ev"`
}

var checkedStdout bool

func replayPrinter(in *core.Lines, args []string, seed int64, sum *core.Summary) error {
	for {
		b, ok := in.Next()
		if !ok {
			break
		}
		var c printerCase
		if err := json.Unmarshal(b, &c); err != nil {
			return fmt.Errorf("line %d: %v", in.N, err)
		}
		keep := json.RawMessage(append([]byte(nil), b...))
		w := &failWriter{}
		var p *optimize.Printer
		if in.N%2 == 0 {
			p = optimize.NewPrinter()
			if !checkedStdout {
				checkedStdout = true
				if p == nil || p.Writer != os.Stdout {
					sum.Fail("optim-printer:newprinter", "NewPrinter does not write to os.Stdout by default", keep)
				}
			}
			p.Writer, p.HeadingInterval, p.ValueInterval = w, c.Hint, 0
		} else {
			p = &optimize.Printer{Writer: w, HeadingInterval: c.Hint}
		}
		nrec := 0
		bad := false
		printed := 0
		for i, e := range c.Ev {
			if e.K == "Init" {
				if o := core.Call(func() { _ = p.Init() }); o.Panicked {
					sum.Fail("optim-printer:panic", "Init: "+o.Text, keep)
					bad = true
				}
				continue
			}
			nrec++
			if c.Armed > 0 && nrec >= c.Armed {
				w.fail = true
			}
			loc := &optimize.Location{X: []float64{1, 2}, F: 1.5 + float64(i)}
			if e.G == 1 {
				loc.Gradient = []float64{0.25, -3}
			}
			if e.Hs == 1 {
				loc.Hessian = mat.NewSymDense(2, []float64{2, 0, 0, 2})
			}
			stats := &optimize.Stats{MajorIterations: i, FuncEvaluations: 2 * i, GradEvaluations: i + 1, HessEvaluations: i, Runtime: time.Duration(i) * time.Millisecond}
			before := w.buf.Len()
			var err error
			tick()
			if o := core.Call(func() { err = p.Record(loc, recOps[e.Op], stats) }); o.Panicked {
				sum.Fail("optim-printer:panic", fmt.Sprintf("call %d Record(%s): %s", i, e.Op, o.Text), keep)
				bad = true
				break
			}
			got := classifyLines(w.buf.Bytes()[before:])
			printed += len(got)
			if (err != nil) != (e.Ret == "err") {
				sum.Fail("optim-printer:ret", fmt.Sprintf("call %d Record(%s) returned %v, specification: %s", i, e.Op, err, e.Ret), keep)
				bad = true
			}
			if fmt.Sprint(got) != fmt.Sprint(e.Lines) {
				sum.Fail("optim-printer:lines", fmt.Sprintf("HeadingInterval %d, call %d Record(%s, gradient %d, hessian %d) printed %v, specification: %v",
					c.Hint, i, e.Op, e.G, e.Hs, got, e.Lines), keep)
				bad = true
			}
			if bad {
				break
			}
		}
		sum.Cases++
		if printed >= 3 {
			sum.Nontrivial++
		}
	}
	return nil
}

// ---- R3: a real Printer inside real Minimize runs ------------------------------------------------

type printerProbe struct {
	p     *optimize.Printer
	w     *failWriter
	armAt int
	nrec  int
	evs   []map[string]any
}

func (r *printerProbe) Init() error {
	r.evs = append(r.evs, map[string]any{"k": "Init"})
	return r.p.Init()
}

func (r *printerProbe) Record(loc *optimize.Location, op optimize.Operation, st *optimize.Stats) error {
	r.nrec++
	if r.armAt > 0 && r.nrec >= r.armAt {
		r.w.fail = true
	}
	name, _, _, _ := opName(op)
	b2i := func(b bool) int {
		if b {
			return 1
		}
		return 0
	}
	before := r.w.buf.Len()
	tick()
	err := r.p.Record(loc, op, st)
	ret := "nil"
	if err != nil {
		ret = "err"
	}
	r.evs = append(r.evs, map[string]any{"k": "Record", "op": name, "g": b2i(loc.Gradient != nil), "hs": b2i(loc.Hessian != nil),
		"ret": ret, "lines": classifyLines(r.w.buf.Bytes()[before:])})
	return err
}

func recordPrinter(out *core.Out, args []string, seed int64, sum *core.Summary) error {
	thorough := false
	for _, a := range args {
		if a == "thorough" {
			thorough = true
		}
	}
	rng := rand.New(rand.NewSource(seed))
	type meth struct {
		name string
		mk   func() optimize.Method
		g, h bool
	}
	methods := []meth{
		{"default/F", func() optimize.Method { return nil }, false, false},
		{"default/FG", func() optimize.Method { return nil }, true, false},
		{"default/FGH", func() optimize.Method { return nil }, true, true},
		{"Newton", func() optimize.Method { return &optimize.Newton{} }, true, true},
		{"BFGS", func() optimize.Method { return &optimize.BFGS{} }, true, false},
		{"NelderMead", func() optimize.Method { return &optimize.NelderMead{} }, false, false},
	}
	type stop struct {
		name   string
		il, fl int
	}
	stops := []stop{{"f1", 0, 1}, {"f2", 0, 2}, {"i1", 1, 0}, {"i2", 2, 0}, {"i3", 3, 0}, {"i5", 5, 0}, {"i8", 8, 0}, {"i31", 31, 0}, {"i64", 64, 0}, {"conv", 0, 0}}
	if thorough {
		for k := 4; k <= 70; k += 3 {
			stops = append(stops, stop{fmt.Sprintf("i%d", k), k, 0})
		}
	}
	hints := []int{-1, 0, 1, 2, 5} // -1: the interval NewPrinter sets
	runs := 0
	for _, me := range methods {
		for _, st := range stops {
			for _, hint := range hints {
				if hint != -1 && hint != 2 && rng.Intn(3) != 0 {
					continue
				}
				armed := 0
				if rng.Intn(4) == 0 {
					armed = []int{1, 2, 3, 4, 7, 12}[rng.Intn(6)]
				}
				w := &failWriter{}
				var p *optimize.Printer
				if hint == -1 {
					p = optimize.NewPrinter()
					p.Writer, p.ValueInterval = w, 0
				} else {
					p = &optimize.Printer{Writer: w, HeadingInterval: hint}
				}
				probe := &printerProbe{p: p, w: w, armAt: armed}
				var calls callCounts
				obs := observer{func([]float64) {}, func(_, _ []float64) {}}
				// an ill-conditioned valley keeps the methods busy for many iterations
				prob := valley(3, &calls, func() {}, obs)
				if st.il <= 8 && st.il+st.fl > 0 && rng.Intn(2) == 0 {
					prob, _ = quadratic(3, &calls, func() {}, obs)
				}
				if !me.g {
					prob.Grad = nil
				}
				if !me.h {
					prob.Hess = nil
				}
				settings := &optimize.Settings{Recorder: probe, MajorIterations: st.il, FuncEvaluations: st.fl, Concurrent: rng.Intn(2)}
				if st.il >= 31 {
					settings.Converger = optimize.NeverTerminate{}
				}
				var res *optimize.Result
				var err error
				o := core.CallTimeout(20*time.Second, func() {
					res, err = optimize.Minimize(prob, []float64{1, 0.001, 0.5}, settings, me.mk())
				})
				name := fmt.Sprintf("%s/%s/h%d/armed%d", me.name, st.name, hint, armed)
				if o.Hung || o.Panicked {
					sum.Fail("optim-printer:minimize:"+map[bool]string{true: "hang", false: "panic"}[o.Hung], name+": "+o.Text, map[string]any{"scenario": name})
					continue
				}
				out.Emit(map[string]any{"k": "run", "name": name, "hint": p.HeadingInterval, "armed": armed})
				majors := 0
				for _, e := range probe.evs {
					out.Emit(e)
					if e["op"] == "major" {
						majors++
					}
				}
				r := map[string]any{"k": "result", "status": "nil", "err": "none", "nilres": 1}
				if res != nil {
					r["status"], r["nilres"] = statusName(res.Status), 0
				}
				if err != nil {
					r["err"] = "other"
					if errors.Is(err, errWriter) {
						r["err"] = "writer"
					}
				}
				out.Emit(r)
				sum.Traces++
				sum.Events += len(probe.evs) + 2
				runs++
				sum.Count("Record calls", probe.nrec)
				sum.Count(fmt.Sprintf("runs with %s major iterations recorded", bucket(majors)), 1)
				if err != nil && errors.Is(err, errWriter) {
					sum.Count("runs ended by the writer's error", 1)
				}
			}
		}
	}
	_ = math.Inf
	return nil
}

func bucket(n int) string {
	switch {
	case n == 0:
		return "0"
	case n <= 3:
		return "1-3"
	case n <= 29:
		return "4-29"
	}
	return "30+"
}

func init() {
	core.RegisterReplay("optim-printer", replayPrinter)
	core.RegisterRecord("optim-printer", recordPrinter)
}
