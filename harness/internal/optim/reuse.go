package optim

// Histories that use ONE Method value for several consecutive optimize.Minimize calls.
//
// A Method value keeps memory between runs (LinesearchMethod inside GradientDescent / CG / BFGS /
// LBFGS / Newton, the simplex of NelderMead, the population of CmaEsChol, the best point of
// GuessAndCheck / ListSearch); Method.Init has to bring all of it back to the state of a fresh
// value.  The first run of a history is stopped by one budget at a small count - so that it ends
// at every place of the method's cycle, including "the evaluation completing an accepted step
// is still outstanding" -, by a Recorder error or by a Converger; the same value is then used on
// the same problem again and on another one (another dimension where the method can be
// re-initialised with one).  Every run is recorded exactly like the single runs of minimize.go
// and judged by specs/optimize/MinimizeTrace.tla: a run with seq > 1 is reached by the model's
// ReInit step and must be explained from the state of Init, its Result coherent on its own.

import (
	"fmt"
	"math/rand"

	"gonum.org/v1/gonum/mat"
	"gonum.org/v1/gonum/optimize"
	"gonum.org/v1/gonum/stat/distmv"

	"gonum.org/v1/gonum/verifharness/internal/core"
)

type runSpec struct {
	tag              string
	prob             string
	dim              int
	fl, gl, hl, il   int
	recErrAt, convAt int
}

type history struct {
	name       string
	mk         func() optimize.Method
	grad, hess bool
	local      bool
	conc       int
	runs       []runSpec
}

type reuseMethod struct {
	name       string
	mk         func(src rand.Source) optimize.Method
	grad, hess bool
	local      bool
	anyDim     bool // can be re-initialised with another dimension
}

func reuseMethods() []reuseMethod {
	cg := func(name string, v func() optimize.CGVariant) reuseMethod {
		return reuseMethod{"CG-" + name, func(rand.Source) optimize.Method { return &optimize.CG{Variant: v()} }, true, false, true, true}
	}
	return []reuseMethod{
		{"GradientDescent", func(rand.Source) optimize.Method { return &optimize.GradientDescent{} }, true, false, true, true},
		cg("FletcherReeves", func() optimize.CGVariant { return &optimize.FletcherReeves{} }),
		cg("PolakRibierePolyak", func() optimize.CGVariant { return &optimize.PolakRibierePolyak{} }),
		cg("HestenesStiefel", func() optimize.CGVariant { return &optimize.HestenesStiefel{} }),
		cg("DaiYuan", func() optimize.CGVariant { return &optimize.DaiYuan{} }),
		cg("HagerZhang", func() optimize.CGVariant { return &optimize.HagerZhang{} }),
		{"BFGS", func(rand.Source) optimize.Method { return &optimize.BFGS{} }, true, false, true, true},
		{"LBFGS", func(rand.Source) optimize.Method { return &optimize.LBFGS{} }, true, false, true, true},
		{"Newton", func(rand.Source) optimize.Method { return &optimize.Newton{} }, true, true, true, true},
		{"NelderMead", func(rand.Source) optimize.Method { return &optimize.NelderMead{} }, false, false, true, true},
		{"CmaEsChol", func(src rand.Source) optimize.Method { return &optimize.CmaEsChol{Src: rand.New(src)} }, false, false, false, true},
		{"GuessAndCheck", func(src rand.Source) optimize.Method {
			n, _ := distmv.NewNormal([]float64{0, 0}, mat.NewSymDense(2, []float64{4, 0, 0, 4}), rand.New(src))
			return &optimize.GuessAndCheck{Rander: n}
		}, false, false, false, false},
		{"ListSearch", func(rand.Source) optimize.Method {
			return &optimize.ListSearch{Locs: mat.NewDense(7, 2, []float64{3, 3, 0, 1, -1, 0, 2, -2, 1, 1, -3, 4, 0, 0})}
		}, false, false, false, false},
	}
}

// looseCap bounds the runs that have no small budget of their own
const looseCap = 150

// firstBudgets: every kind of budget at every small count
func firstBudgets(me reuseMethod, small bool) []runSpec {
	var out []runSpec
	add := func(r runSpec) {
		r.prob, r.dim = "P1", 2
		if r.fl == 0 {
			r.fl = looseCap
		}
		out = append(out, r)
	}
	fs, is, gs, hs := 12, 4, 6, 4
	if small {
		fs, is, gs, hs = 8, 2, 0, 0
	}
	for k := 1; k <= fs; k++ {
		if small && (k == 4 || k == 6 || k == 7) {
			continue
		}
		add(runSpec{tag: fmt.Sprintf("F%d", k), fl: k})
	}
	for k := 0; k <= is; k++ {
		add(runSpec{tag: fmt.Sprintf("I%d", k), il: k}) // I0: no iteration limit at all
	}
	if me.grad {
		for k := 1; k <= gs; k++ {
			add(runSpec{tag: fmt.Sprintf("G%d", k), gl: k})
		}
	}
	if me.hess {
		for k := 1; k <= hs; k++ {
			add(runSpec{tag: fmt.Sprintf("H%d", k), hl: k})
		}
	}
	add(runSpec{tag: "conv1", convAt: 1})
	if !small {
		add(runSpec{tag: "conv2", convAt: 2})
		add(runSpec{tag: "conv3", convAt: 3})
		add(runSpec{tag: "recerr2", recErrAt: 2})
		add(runSpec{tag: "recerr5", recErrAt: 5})
	}
	return out
}

// laterBudget: no budget (only the loose cap) or another, seed-chosen one
func laterBudget(rng *rand.Rand, me reuseMethod) runSpec {
	r := runSpec{fl: looseCap}
	switch rng.Intn(6) {
	case 0:
		r.tag = "loose"
	case 1:
		r.fl = 2 + rng.Intn(20)
		r.tag = fmt.Sprintf("F%d", r.fl)
	case 2:
		r.il = 1 + rng.Intn(5)
		r.tag = fmt.Sprintf("I%d", r.il)
	case 3:
		r.il = 6 + rng.Intn(5)
		r.tag = fmt.Sprintf("I%d", r.il)
	case 4:
		if me.grad {
			r.gl = 1 + rng.Intn(8)
			r.tag = fmt.Sprintf("G%d", r.gl)
		} else {
			r.fl = 3 + rng.Intn(30)
			r.tag = fmt.Sprintf("F%d", r.fl)
		}
	case 5:
		if me.hess {
			r.hl = 1 + rng.Intn(4)
			r.tag = fmt.Sprintf("H%d", r.hl)
		} else {
			r.convAt = 2 + rng.Intn(4)
			r.tag = fmt.Sprintf("conv%d", r.convAt)
		}
	}
	return r
}

func reuseHistories(seed int64, thorough bool, nt int) []history {
	rng := rand.New(rand.NewSource(seed*104729 + 17))
	var out []history
	for _, me := range reuseMethods() {
		concs := []int{0}
		if !me.local {
			concs = []int{0, 2}
		}
		for _, conc := range concs {
			want := 1
			if conc > 1 {
				want = conc
			}
			small := conc > 1 && !thorough
			seconds := []string{"P1", "P2"}
			if thorough {
				seconds = []string{"P1", "P2", "P1", "P2"} // two seed-chosen continuations of each kind
			}
			for _, first := range firstBudgets(me, small) {
				for _, second := range seconds {
					me := me
					src := rand.NewSource(seed + int64(len(out))*31 + 5)
					h := history{mk: func() optimize.Method { return me.mk(src) }, grad: me.grad, hess: me.hess, local: me.local, conc: conc}
					h.runs = append(h.runs, first)
					r2 := laterBudget(rng, me)
					r2.prob, r2.dim = second, 2
					if second == "P2" && me.anyDim {
						r2.dim = 3
					}
					h.runs = append(h.runs, r2)
					if rng.Intn(3) == 0 {
						r3 := laterBudget(rng, me)
						r3.prob, r3.dim = "P1", 2
						if me.anyDim && rng.Intn(2) == 0 {
							r3.dim = 3
						}
						h.runs = append(h.runs, r3)
					}
					h.name = fmt.Sprintf("reuse/%s/c%d", me.name, conc)
					for _, r := range h.runs {
						h.name += fmt.Sprintf("/%s%s.%d", r.tag, r.prob, r.dim)
					}
					if nt == 0 || nt == want {
						out = append(out, h)
					}
				}
			}
		}
	}
	return out
}

// recordReuse: args nt=K (histories whose runs use K workers), thorough, shard=i/n
func recordReuse(out *core.Out, args []string, seed int64, sum *core.Summary) error {
	nt, thorough, shard, nshards := 1, false, 0, 1
	for _, a := range args {
		fmt.Sscanf(a, "nt=%d", &nt)
		fmt.Sscanf(a, "shard=%d/%d", &shard, &nshards)
		if a == "thorough" {
			thorough = true
		}
	}
	for i, h := range reuseHistories(seed, thorough, nt) {
		if i%nshards != shard {
			continue
		}
		m := h.mk()
		var recs []*runRec
		ok := true
		for k, r := range h.runs {
			sc := scenario{Name: h.name + fmt.Sprintf("#%d", k+1), NeedGrad: h.grad, NeedHess: h.hess, Concurrent: h.conc,
				FLimit: r.fl, GLimit: r.gl, HLimit: r.hl, ILimit: r.il, RecErrAt: r.recErrAt, ConvAt: r.convAt,
				Dim: r.dim, Local: h.local, M: m, Prob: r.prob, Obj: i + 1, Seq: k + 1}
			rr := runScenario(sc, seed+int64(i), sum)
			if rr == nil { // hang or panic: reported by runScenario; the value is not used any further
				ok = false
				break
			}
			recs = append(recs, rr)
			sum.Count("reuse runs stopped by "+rr.Result["status"].(string), 1)
		}
		for _, rr := range recs {
			if rr.NT != nt {
				ok = false
			}
		}
		if !ok && len(recs) > 0 && recs[0].NT != nt {
			sum.Count("reuse histories not emitted (unexpected number of workers)", 1)
			continue
		}
		for _, rr := range recs {
			if rr.NT != nt {
				break
			}
			out.Emit(rr)
			sum.Traces++
			if rr.Seq > 1 {
				sum.Count("runs made with a used Method value", 1)
			}
		}
		sum.Count("reuse histories", 1)
	}
	return nil
}
