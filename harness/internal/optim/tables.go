package optim

// Replay of specs/optimize/OptimTables.tla: the Status registry (String / Early / Err / NewStatus), the
// Armijo / Wolfe predicates, ErrFunc / ErrGrad messages and Operation names. The expected answers are
// the specification's; this file only builds the arguments, makes the calls and compares.

import (
	"encoding/json"
	"errors"
	"fmt"
	"math"
	"regexp"
	"strconv"
	"strings"
	"sync"

	"gonum.org/v1/gonum/optimize"

	"gonum.org/v1/gonum/verifharness/internal/core"
)

var builtinStatus = map[string]optimize.Status{
	"NotTerminated":            optimize.NotTerminated,
	"Success":                  optimize.Success,
	"FunctionThreshold":        optimize.FunctionThreshold,
	"FunctionConvergence":      optimize.FunctionConvergence,
	"GradientThreshold":        optimize.GradientThreshold,
	"StepConvergence":          optimize.StepConvergence,
	"FunctionNegativeInfinity": optimize.FunctionNegativeInfinity,
	"MethodConverge":           optimize.MethodConverge,
	"Failure":                  optimize.Failure,
	"IterationLimit":           optimize.IterationLimit,
	"RuntimeLimit":             optimize.RuntimeLimit,
	"FunctionEvaluationLimit":  optimize.FunctionEvaluationLimit,
	"GradientEvaluationLimit":  optimize.GradientEvaluationLimit,
	"HessianEvaluationLimit":   optimize.HessianEvaluationLimit,
}

type tableRow struct {
	ID    string `json:"id"`
	User  int    `json:"user"`
	Str   string `json:"str"`
	Early int    `json:"early"`
	Err   string `json:"err"`
}

type regStep struct {
	Name    string     `json:"name"`
	Early   int        `json:"early"`
	HasErr  int        `json:"haserr"`
	Returns string     `json:"returns"`
	Table   []tableRow `json:"table"`
}

type tablesCase struct {
	K string `json:"k"`
	// registry
	Steps []regStep `json:"steps,omitempty"`
	// wolfe (units of 1/8)
	Co, Cg, Io, Ig, St, De, Cu int
	Armijo, Strong, Weak       bool
	// text
	Kind     string   `json:"kind,omitempty"`
	Idx      int      `json:"idx"`
	Mentions int      `json:"mentions"`
	Ops      []string `json:"ops,omitempty"`
}

// everIssued holds every Status value NewStatus has returned in this process: a new one must differ
// from all of them and from the constants ("a unique Status variable").
var everIssued = map[optimize.Status]bool{}

// lane runs functions on one of n long-lived goroutines, one call at a time (NewStatus is documented
// as not thread safe: the goroutines take turns, they never overlap).
type lane struct {
	work []chan func()
	wg   sync.WaitGroup
	next int
}

func newLanes(n int) *lane {
	l := &lane{}
	for i := 0; i < n; i++ {
		ch := make(chan func())
		l.work = append(l.work, ch)
		l.wg.Add(1)
		go func() {
			defer l.wg.Done()
			for f := range ch {
				f()
			}
		}()
	}
	return l
}

func (l *lane) do(f func()) {
	if l == nil {
		f()
		return
	}
	done := make(chan struct{})
	l.work[l.next%len(l.work)] <- func() { defer close(done); f() }
	l.next++
	<-done
}

func (l *lane) close() {
	if l == nil {
		return
	}
	for _, ch := range l.work {
		close(ch)
	}
	l.wg.Wait()
}

func replayRegistry(c *tablesCase, raw json.RawMessage, ln *lane, sum *core.Summary) {
	fail := func(kind, msg string) {
		sum.Fail("optim-tables:status:"+kind, msg, json.RawMessage(append([]byte(nil), raw...)))
	}
	user := map[string]optimize.Status{}
	own := map[string]error{}
	for si, st := range c.Steps {
		var e error
		if st.HasErr == 1 {
			e = fmt.Errorf("registered error %d of this history", si)
		}
		var got optimize.Status
		o := core.Call(func() { ln.do(func() { got = optimize.NewStatus(st.Name, st.Early == 1, e) }) })
		if o.Panicked {
			fail("newstatus-panic", fmt.Sprintf("step %d: NewStatus(%q, %v, err) panicked: %s", si+1, st.Name, st.Early == 1, o.Text))
			return
		}
		for _, b := range builtinStatus {
			if got == b {
				fail("not-unique", fmt.Sprintf("step %d: NewStatus returned %d, the value of a package constant", si+1, int(got)))
				return
			}
		}
		if everIssued[got] {
			fail("not-unique", fmt.Sprintf("step %d: NewStatus returned %d, a value it has returned before", si+1, int(got)))
			return
		}
		everIssued[got] = true
		user[st.Returns] = got
		own[st.Returns] = e
		// the complete table of answers after this step
		seenStr := map[string]string{}
		for _, row := range st.Table {
			var s optimize.Status
			if row.User == 0 {
				var ok bool
				if s, ok = builtinStatus[row.ID]; !ok {
					fail("harness", "unknown constant "+row.ID)
					return
				}
			} else {
				s = user[row.ID]
			}
			var str string
			var early bool
			var err error
			o := core.Call(func() { ln.do(func() { str, early, err = s.String(), s.Early(), s.Err() }) })
			if o.Panicked {
				fail("query-panic", fmt.Sprintf("step %d: String/Early/Err of %s panicked: %s", si+1, row.ID, o.Text))
				return
			}
			sum.Cases++
			if row.User == 0 {
				if str == "" {
					fail("string", fmt.Sprintf("step %d: %s.String() is empty", si+1, row.ID))
				}
				if other, dup := seenStr[str]; dup {
					fail("string", fmt.Sprintf("step %d: constants %s and %s have the same String %q", si+1, row.ID, other, str))
				}
				seenStr[str] = row.ID
			} else if str != row.Str {
				fail("string", fmt.Sprintf("step %d: status registered as %q answers String() = %q", si+1, row.Str, str))
			}
			if row.Early != 2 && early != (row.Early == 1) {
				fail("early", fmt.Sprintf("step %d: %s.Early() = %v, specification: %v", si+1, row.ID, early, row.Early == 1))
			}
			switch row.Err {
			case "nil":
				if err != nil {
					fail("err", fmt.Sprintf("step %d: %s.Err() = %v, specification: nil", si+1, row.ID, err))
				}
			case "some":
				if err == nil || err.Error() == "" {
					fail("err", fmt.Sprintf("step %d: %s.Err() = %v, specification: a non-nil error", si+1, row.ID, err))
				}
			case "own":
				if err == nil || !errors.Is(err, own[row.ID]) {
					fail("err", fmt.Sprintf("step %d: %s.Err() = %v, specification: the error registered with it (%v)", si+1, row.ID, err, own[row.ID]))
				}
			case "own-or-nil":
				if err != nil && !errors.Is(err, own[row.ID]) {
					fail("err", fmt.Sprintf("step %d: %s.Err() = %v, specification: the error registered with it (%v) or nil", si+1, row.ID, err, own[row.ID]))
				}
			}
		}
	}
	sum.Nontrivial++
}

func replayWolfe(c *tablesCase, raw json.RawMessage, sum *core.Summary) {
	v := func(n int) float64 { return float64(n) / 8 }
	co, cg, io, ig, st, de, cu := v(c.Co), v(c.Cg), v(c.Io), v(c.Ig), v(c.St), v(c.De), v(c.Cu)
	var a, s, w bool
	o := core.Call(func() {
		a = optimize.ArmijoConditionMet(co, io, ig, st, de)
		s = optimize.StrongWolfeConditionsMet(co, cg, io, ig, st, de, cu)
		w = optimize.WeakWolfeConditionsMet(co, cg, io, ig, st, de, cu)
	})
	sum.Cases++
	if c.Armijo != c.Strong || c.Armijo != c.Weak {
		sum.Nontrivial++
	}
	keep := json.RawMessage(append([]byte(nil), raw...))
	if o.Panicked {
		sum.Fail("optim-tables:wolfe:panic", o.Text, keep)
		return
	}
	args := fmt.Sprintf("currObj=%g currGrad=%g initObj=%g initGrad=%g step=%g decrease=%g curvature=%g", co, cg, io, ig, st, de, cu)
	if a != c.Armijo {
		sum.Fail("optim-tables:wolfe:armijo", fmt.Sprintf("ArmijoConditionMet = %v, specification %v (%s)", a, c.Armijo, args), keep)
	}
	if s != c.Strong {
		sum.Fail("optim-tables:wolfe:strong", fmt.Sprintf("StrongWolfeConditionsMet = %v, specification %v (%s)", s, c.Strong, args), keep)
	}
	if w != c.Weak {
		sum.Fail("optim-tables:wolfe:weak", fmt.Sprintf("WeakWolfeConditionsMet = %v, specification %v (%s)", w, c.Weak, args), keep)
	}
}

var decimalRun = regexp.MustCompile(`[0-9]+`)

func replayText(c *tablesCase, raw json.RawMessage, sum *core.Summary) {
	keep := json.RawMessage(append([]byte(nil), raw...))
	val := map[string]float64{"pinf": math.Inf(1), "ninf": math.Inf(-1), "nan": math.NaN()}
	sum.Cases++
	sum.Nontrivial++
	switch c.K {
	case "errgrad", "errfunc":
		var msg string
		o := core.Call(func() {
			var e error
			if c.K == "errgrad" {
				e = optimize.ErrGrad{Grad: val[c.Kind], Index: c.Idx}
			} else {
				e = optimize.ErrFunc(val[c.Kind])
			}
			msg = e.Error()
		})
		if o.Panicked {
			sum.Fail("optim-tables:text:panic", c.K+" "+c.Kind+": "+o.Text, keep)
			return
		}
		if strings.TrimSpace(msg) == "" {
			sum.Fail("optim-tables:text:empty", c.K+" "+c.Kind+": empty message", keep)
		}
		if c.Mentions >= 0 {
			found := false
			for _, d := range decimalRun.FindAllString(msg, -1) {
				if n, err := strconv.Atoi(d); err == nil && n == c.Mentions {
					found = true
				}
			}
			if !found {
				sum.Fail("optim-tables:text:index", fmt.Sprintf("ErrGrad{Index: %d}.Error() = %q does not mention the index", c.Idx, msg), keep)
			}
		}
	case "opnames":
		bit := map[string]optimize.Operation{"Func": optimize.FuncEvaluation, "Grad": optimize.GradEvaluation, "Hess": optimize.HessEvaluation,
			"FuncEvaluation": optimize.FuncEvaluation, "GradEvaluation": optimize.GradEvaluation, "HessEvaluation": optimize.HessEvaluation,
			"NoOperation": optimize.NoOperation, "InitIteration": optimize.InitIteration, "MajorIteration": optimize.MajorIteration,
			"PostIteration": optimize.PostIteration, "MethodDone": optimize.MethodDone}
		seen := map[string]string{}
		for _, name := range c.Ops {
			var op optimize.Operation
			for _, part := range strings.Split(name, "|") {
				b, ok := bit[part]
				if !ok {
					sum.Fail("optim-tables:harness", "unknown operation "+part, keep)
					return
				}
				op |= b
			}
			var s string
			if o := core.Call(func() { s = op.String() }); o.Panicked {
				sum.Fail("optim-tables:text:panic", "Operation.String of "+name+": "+o.Text, keep)
				return
			}
			if s == "" {
				sum.Fail("optim-tables:text:empty", "Operation.String of "+name+" is empty", keep)
			}
			if other, dup := seen[s]; dup {
				sum.Fail("optim-tables:text:opnames", fmt.Sprintf("operations %s and %s have the same name %q", name, other, s), keep)
			}
			seen[s] = name
		}
	}
}

// replayTables: args goroutines=N (registry histories: the calls are made by N goroutines taking turns)
func replayTables(in *core.Lines, args []string, seed int64, sum *core.Summary) error {
	var ln *lane
	for _, a := range args {
		if strings.HasPrefix(a, "goroutines=") {
			n, _ := strconv.Atoi(a[len("goroutines="):])
			if n > 1 {
				ln = newLanes(n)
			}
		}
	}
	defer ln.close()
	for {
		b, ok := in.Next()
		if !ok {
			break
		}
		var c tablesCase
		if err := json.Unmarshal(b, &c); err != nil {
			return fmt.Errorf("line %d: %v", in.N, err)
		}
		switch c.K {
		case "registry":
			replayRegistry(&c, b, ln, sum)
		case "wolfe":
			replayWolfe(&c, b, sum)
		default:
			replayText(&c, b, sum)
		}
	}
	return nil
}

func init() { core.RegisterReplay("optim-tables", replayTables) }
