package stat

// Family "call" (specs/stat/DescriptiveExtGen.tla): every line holds calls of
// package stat with their arguments as exact numbers n/d*2^e and what the
// specification says about each call (a value in units of 1, ln 2 or pi, +Inf,
// "panics", "does not panic").  The driver builds the float64 operands
// (verifying that they are exact), calls gonum and compares.  The only
// arithmetic here is decoding the specification's numbers with math/big,
// multiplying by the constants math.Ln2 / math.Pi the specification leaves
// symbolic, and the tolerance test.

import (
	"encoding/json"
	"fmt"
	"math"
	"math/big"

	gstat "gonum.org/v1/gonum/stat"

	"gonum.org/v1/gonum/verifharness/internal/core"
)

// num is n/d * 2^e.
type num [3]int64

func (q num) rat() *big.Rat { return factor(q[:]) }

// float converts to float64 and aborts the run if the value is not exactly
// representable (the specification only emits representable operands).
func (q num) float() float64 {
	r := q.rat()
	f, exact := r.Float64()
	if !exact {
		panic(operandError(fmt.Sprintf("%d/%d*2^%d is not a float64", q[0], q[1], q[2])))
	}
	return f
}

func prodRat(fs []num) *big.Rat {
	p := big.NewRat(1, 1)
	for _, f := range fs {
		p.Mul(p, f.rat())
	}
	return p
}

type specSlice struct {
	Nil bool  `json:"nil"`
	V   []num `json:"v"`
}

type specCall struct {
	F    string      `json:"f"`
	Sl   []specSlice `json:"sl"`
	Sc   []num       `json:"sc"`
	Perm bool        `json:"perm"`
	Out  string      `json:"out"`
	Alts []ev        `json:"alts"`
	Unit string      `json:"unit"`
	Tol  []num       `json:"tol"`
}

// cargs are the float64 arguments of one call.
type cargs struct {
	sl [][]float64
	sc []float64
}

func (a *cargs) s(i int) []float64 { return a.sl[i] }
func (a *cargs) x(i int) float64   { return a.sc[i] }

// b reads a slice as booleans (odd value = true); nil stays nil.
func (a *cargs) b(i int) []bool {
	if a.sl[i] == nil {
		return nil
	}
	o := make([]bool, len(a.sl[i]))
	for j, v := range a.sl[i] {
		o[j] = int64(v)%2 != 0
	}
	return o
}

func one(v float64) []float64 { return []float64{v} }

// statFuncs binds the function names used by the specification to package stat.
// The slices and scalars are passed in the order of the Go signature.
var statFuncs = map[string]func(a *cargs) []float64{
	"Mean":            func(a *cargs) []float64 { return one(gstat.Mean(a.s(0), a.s(1))) },
	"Variance":        func(a *cargs) []float64 { return one(gstat.Variance(a.s(0), a.s(1))) },
	"PopVariance":     func(a *cargs) []float64 { return one(gstat.PopVariance(a.s(0), a.s(1))) },
	"MeanVariance":    func(a *cargs) []float64 { m, v := gstat.MeanVariance(a.s(0), a.s(1)); return []float64{m, v} },
	"PopMeanVariance": func(a *cargs) []float64 { m, v := gstat.PopMeanVariance(a.s(0), a.s(1)); return []float64{m, v} },
	"Moment":          func(a *cargs) []float64 { return one(gstat.Moment(a.x(0), a.s(0), a.s(1))) },
	"MomentAbout":     func(a *cargs) []float64 { return one(gstat.MomentAbout(a.x(0), a.s(0), a.x(1), a.s(1))) },
	"Skew":            func(a *cargs) []float64 { return one(gstat.Skew(a.s(0), a.s(1))) },
	"ExKurtosis":      func(a *cargs) []float64 { return one(gstat.ExKurtosis(a.s(0), a.s(1))) },
	"GeometricMean":   func(a *cargs) []float64 { return one(gstat.GeometricMean(a.s(0), a.s(1))) },
	"HarmonicMean":    func(a *cargs) []float64 { return one(gstat.HarmonicMean(a.s(0), a.s(1))) },
	"Mode":            func(a *cargs) []float64 { v, c := gstat.Mode(a.s(0), a.s(1)); return []float64{v, c} },
	"SortWeighted":    func(a *cargs) []float64 { gstat.SortWeighted(a.s(0), a.s(1)); return nil },
	"SortWeightedLabeled": func(a *cargs) []float64 {
		gstat.SortWeightedLabeled(a.s(0), a.b(1), a.s(2))
		return nil
	},
	"Quantile": func(a *cargs) []float64 {
		return one(gstat.Quantile(a.x(0), gstat.CumulantKind(int(a.x(1))), a.s(0), a.s(1)))
	},
	"CDF": func(a *cargs) []float64 {
		return one(gstat.CDF(a.x(0), gstat.CumulantKind(int(a.x(1))), a.s(0), a.s(1)))
	},
	"TOC":         func(a *cargs) []float64 { _, ntp, _ := gstat.TOC(a.b(0), a.s(1)); return ntp },
	"ROC":         func(a *cargs) []float64 { tpr, _, _ := gstat.ROC(a.s(0), a.s(1), a.b(2), a.s(3)); return tpr },
	"Covariance":  func(a *cargs) []float64 { return one(gstat.Covariance(a.s(0), a.s(1), a.s(2))) },
	"Correlation": func(a *cargs) []float64 { return one(gstat.Correlation(a.s(0), a.s(1), a.s(2))) },
	"Kendall":     func(a *cargs) []float64 { return one(gstat.Kendall(a.s(0), a.s(1), a.s(2))) },
	"LinearRegression": func(a *cargs) []float64 {
		al, be := gstat.LinearRegression(a.s(0), a.s(1), a.s(2), a.x(0) != 0)
		return []float64{al, be}
	},
	"RSquared":       func(a *cargs) []float64 { return one(gstat.RSquared(a.s(0), a.s(1), a.s(2), a.x(0), a.x(1))) },
	"RSquaredFrom":   func(a *cargs) []float64 { return one(gstat.RSquaredFrom(a.s(0), a.s(1), a.s(2))) },
	"RNoughtSquared": func(a *cargs) []float64 { return one(gstat.RNoughtSquared(a.s(0), a.s(1), a.s(2), a.x(0))) },
	"BivariateMoment": func(a *cargs) []float64 {
		return one(gstat.BivariateMoment(a.x(0), a.x(1), a.s(0), a.s(1), a.s(2)))
	},
	"KolmogorovSmirnov": func(a *cargs) []float64 { return one(gstat.KolmogorovSmirnov(a.s(0), a.s(1), a.s(2), a.s(3))) },
	"Histogram":         func(a *cargs) []float64 { return gstat.Histogram(a.s(0), a.s(1), a.s(2), a.s(3)) },
	"ChiSquare":         func(a *cargs) []float64 { return one(gstat.ChiSquare(a.s(0), a.s(1))) },
	"Bhattacharyya":     func(a *cargs) []float64 { return one(gstat.Bhattacharyya(a.s(0), a.s(1))) },
	"Hellinger":         func(a *cargs) []float64 { return one(gstat.Hellinger(a.s(0), a.s(1))) },
	"CrossEntropy":      func(a *cargs) []float64 { return one(gstat.CrossEntropy(a.s(0), a.s(1))) },
	"KullbackLeibler":   func(a *cargs) []float64 { return one(gstat.KullbackLeibler(a.s(0), a.s(1))) },
	"JensenShannon":     func(a *cargs) []float64 { return one(gstat.JensenShannon(a.s(0), a.s(1))) },
	"Entropy":           func(a *cargs) []float64 { return one(gstat.Entropy(a.s(0))) },
	"StdErr":            func(a *cargs) []float64 { return one(gstat.StdErr(a.x(0), a.x(1))) },
	"StdScore":          func(a *cargs) []float64 { return one(gstat.StdScore(a.x(0), a.x(1), a.x(2))) },
	// the entries of the first slice are quarter turns: k stands for the angle k * pi/2
	"CircularMean": func(a *cargs) []float64 {
		ang := make([]float64, len(a.s(0)))
		for i, k := range a.s(0) {
			ang[i] = k * (math.Pi / 2)
		}
		return one(gstat.CircularMean(ang, a.s(1)))
	},
}

// unitRat is the constant the specification leaves symbolic.
func unitRat(u string) *big.Rat {
	switch u {
	case "ln2":
		return new(big.Rat).SetFloat64(math.Ln2)
	case "pi":
		return new(big.Rat).SetFloat64(math.Pi)
	}
	return big.NewRat(1, 1)
}

// evRat decodes an ev into a rational: exactly for root 1, through the nearest
// float64 of the correctly rounded square root for root 2.
func evRat(e ev) (*big.Rat, bool) {
	v := e.inner()
	if e.Root == 1 {
		return v.Mul(v, big.NewRat(int64(e.Sg), 1)), true
	}
	if v.Sign() < 0 {
		return nil, false
	}
	f, _ := v.Float64()
	return new(big.Rat).SetFloat64(float64(e.Sg) * math.Sqrt(f)), true
}

func (c *checker) specCall(raw json.RawMessage, grp string) {
	var k specCall
	if err := json.Unmarshal(raw, &k); err != nil {
		panic(operandError("call: " + err.Error()))
	}
	fn, ok := statFuncs[k.F]
	if !ok {
		c.fail("stat:harness:unknown-function", "unknown function "+k.F)
		return
	}
	a := &cargs{}
	n := -1
	same := true
	for _, s := range k.Sl {
		if s.Nil {
			a.sl = append(a.sl, nil)
			continue
		}
		f := make([]float64, len(s.V))
		for i, q := range s.V {
			f[i] = q.float()
		}
		a.sl = append(a.sl, f)
		if n >= 0 && n != len(f) {
			same = false
		}
		n = len(f)
	}
	for _, q := range k.Sc {
		a.sc = append(a.sc, q.float())
	}
	if k.Perm && same && n > 1 {
		// one permutation applied to all slices (the specification's theorems say the value does not change)
		p := permFor(c.seed, raw, n, 7)
		for i := range a.sl {
			a.sl[i] = permute(a.sl[i], p)
		}
	}
	ctx := fmt.Sprintf("%s(slices=%v scalars=%v)", k.F, a.sl, a.sc)
	// shape of the call for the signature of a contract row: slice lengths ("-" = nil) and scalars
	shape := ""
	for i, s := range a.sl {
		if i > 0 {
			shape += ","
		}
		if s == nil {
			shape += "-"
		} else {
			shape += fmt.Sprint(len(s))
		}
	}
	if len(a.sc) > 0 {
		shape += fmt.Sprintf("|%v", a.sc)
	}
	failCase := func(sig, msg string) {
		one, _ := json.Marshal(map[string]any{"fam": "call", "grp": grp, "nt": true, "calls": []json.RawMessage{raw}})
		c.sum.Fail(sig, msg, json.RawMessage(one))
	}
	var res []float64
	o := core.Call(func() { res = fn(a) })
	if oe, isOp := o.Val.(operandError); isOp {
		panic(oe)
	}
	c.sum.Count("values", 1)
	switch k.Out {
	case "panic":
		if !o.Panicked {
			failCase("stat:"+k.F+":no-panic:"+shape, fmt.Sprintf("%s: the documented requirements are violated but the call returned %v", ctx, res))
		}
		return
	case "nopanic":
		if o.Panicked {
			failCase("stat:"+k.F+":panic", ctx+": in-domain call panicked: "+o.Text)
		}
		return
	}
	if o.Panicked {
		failCase("stat:"+k.F+":panic", ctx+": in-domain call panicked: "+o.Text)
		return
	}
	got := res[0]
	if k.Out == "posinf" {
		if !math.IsInf(got, 1) {
			failCase("stat:"+k.F+":value", fmt.Sprintf("%s: got %.17g, specification says +Inf", ctx, got))
		}
		return
	}
	unit := unitRat(k.Unit)
	lim := prodRat(k.Tol)
	lim.Mul(lim, unit)
	for _, alt := range k.Alts {
		if want, ok := evRat(alt); ok && within(got, want.Mul(want, unit), lim) {
			return
		}
	}
	lf, _ := lim.Float64()
	failCase("stat:"+k.F+":value", fmt.Sprintf("%s: got %.17g, specification says %s [unit %s] (tolerance %.3g)", ctx, got, altsString(k.Alts), k.Unit, lf))
}

type callLine struct {
	Grp   string            `json:"grp"`
	Nt    bool              `json:"nt"`
	Calls []json.RawMessage `json:"calls"`
}

func (c *checker) callFam(k *callLine) {
	for _, raw := range k.Calls {
		c.specCall(raw, k.Grp)
	}
	c.sum.Count("grp_"+k.Grp, 1)
}
