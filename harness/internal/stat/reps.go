package stat

// Representations of one abstract matrix (property C04's idea applied to the functions of
// package stat that take a mat.Matrix / mat.Vector / a matrix destination).
//
// The specification (Descriptive.tla, Multivariate.tla) states every expected value for an
// ABSTRACT data matrix: a function from (row, column) to a number.  gonum receives that matrix
// through the mat.Matrix interface, so the value must be the same for every Go value that
// represents it.  This file builds, for the rows the specification printed,
//
//	dense      a compact *mat.Dense (what the harness always passed before)
//	view       a window of a larger junk-filled *mat.Dense, stride > columns, offset 0
//	view-off   the same with row and column offsets
//	transpose  x.T() of a compact *mat.Dense holding the transposed data (a mat.Transpose)
//	view-T     x.T() of a window (of the transposed data) of a larger junk-filled matrix
//	opaque     a user type with nothing but Dims / At / T
//
// and the corresponding destinations (empty, pre-sized with stale content, a window of a larger
// junk-filled destination).  The expected values are untouched: they are the specification's.
// After a call the operand must still hold its values and every junk cell outside a window
// must be bit-for-bit what it was (intact).  There is no arithmetic here.

import (
	"fmt"
	"math"

	"gonum.org/v1/gonum/mat"
)

// junk returns recognisable filler values: large (a wrong read ruins a moment), distinct,
// exactly representable.
func junk(k int) float64 { return 4096 + 17*float64(k) + 0.25 }

type repMat struct {
	name   string
	m      mat.Matrix
	intact func() string // "" or what was modified
}

// onlyMatrix exposes nothing but the mat.Matrix interface.
type onlyMatrix struct{ rows [][]float64 }

func (o onlyMatrix) Dims() (int, int)    { return len(o.rows), len(o.rows[0]) }
func (o onlyMatrix) At(i, j int) float64 { return o.rows[i][j] }
func (o onlyMatrix) T() mat.Matrix       { return mat.Transpose{Matrix: o} }

// window builds a (r0+n+1) x (c0+d+2) junk-filled parent and returns its n x d window at
// (r0, c0) holding vals, together with the intactness check of parent and window.
func window(vals [][]float64, r0, c0 int) (*mat.Dense, func() string) {
	n, d := len(vals), len(vals[0])
	pr, pc := r0+n+1, c0+d+2
	parent := mat.NewDense(pr, pc, nil)
	for i := 0; i < pr; i++ {
		for j := 0; j < pc; j++ {
			parent.Set(i, j, junk(i*pc+j))
		}
	}
	for i := range vals {
		for j, v := range vals[i] {
			parent.Set(r0+i, c0+j, v)
		}
	}
	before := append([]float64(nil), parent.RawMatrix().Data...)
	w := parent.Slice(r0, r0+n, c0, c0+d).(*mat.Dense)
	return w, func() string {
		for k, v := range parent.RawMatrix().Data {
			if math.Float64bits(v) != math.Float64bits(before[k]) {
				i, j := k/pc, k%pc
				if i >= r0 && i < r0+n && j >= c0 && j < c0+d {
					return fmt.Sprintf("input element (%d,%d) was modified", i-r0, j-c0)
				}
				return fmt.Sprintf("element (%d,%d) of the parent matrix, outside the window, was modified", i, j)
			}
		}
		return ""
	}
}

func transposed(vals [][]float64) [][]float64 {
	n, d := len(vals), len(vals[0])
	t := make([][]float64, d)
	for j := range t {
		t[j] = make([]float64, n)
		for i := range vals {
			t[j][i] = vals[i][j]
		}
	}
	return t
}

func compact(vals [][]float64) (*mat.Dense, func() string) {
	n, d := len(vals), len(vals[0])
	m := mat.NewDense(n, d, nil)
	for i := range vals {
		for j, v := range vals[i] {
			m.Set(i, j, v)
		}
	}
	before := append([]float64(nil), m.RawMatrix().Data...)
	return m, func() string {
		for k, v := range m.RawMatrix().Data {
			if math.Float64bits(v) != math.Float64bits(before[k]) {
				return fmt.Sprintf("input element %d (row major) was modified", k)
			}
		}
		return ""
	}
}

// matReps returns every representation of the matrix with the given rows (at least 1 x 1).
// salt varies the window offsets.
func matReps(vals [][]float64, salt int) []repMat {
	if salt < 0 {
		salt = -salt
	}
	var out []repMat
	m, ok := compact(vals)
	out = append(out, repMat{"dense", m, ok})
	w, ok := window(vals, 0, 0)
	out = append(out, repMat{"view", w, ok})
	w, ok = window(vals, 1+salt%2, 1+(salt/2)%3)
	out = append(out, repMat{"view-off", w, ok})
	t, ok := compact(transposed(vals))
	out = append(out, repMat{"transpose", t.T(), ok})
	w, ok = window(transposed(vals), (salt/3)%2, 1+salt%2)
	out = append(out, repMat{"view-T", w.T(), ok})
	cp := make([][]float64, len(vals))
	for i := range vals {
		cp[i] = append([]float64(nil), vals[i]...)
	}
	out = append(out, repMat{"opaque", onlyMatrix{cp}, func() string {
		for i := range vals {
			for j := range vals[i] {
				if math.Float64bits(cp[i][j]) != math.Float64bits(vals[i][j]) {
					return fmt.Sprintf("input element (%d,%d) was modified", i, j)
				}
			}
		}
		return ""
	}})
	return out
}

func rowsOf(rows [][]int64) [][]float64 {
	out := make([][]float64, len(rows))
	for i := range rows {
		out[i] = floats(rows[i])
	}
	return out
}

// repSfx is appended to a failure signature for every representation but the compact one.
func repSfx(name string) string {
	if name == "dense" || name == "" {
		return ""
	}
	return ":rep=" + name
}

// ---- vectors ------------------------------------------------------------------

type repVec struct {
	name   string
	v      mat.Vector
	intact func() string
}

// onlyVector exposes nothing but the mat.Vector interface.
type onlyVector struct{ v []float64 }

func (o onlyVector) Dims() (int, int)    { return len(o.v), 1 }
func (o onlyVector) At(i, j int) float64 { return o.v[i] }
func (o onlyVector) T() mat.Matrix       { return mat.Transpose{Matrix: o} }
func (o onlyVector) AtVec(i int) float64 { return o.v[i] }
func (o onlyVector) Len() int            { return len(o.v) }

// vecReps: a compact VecDense, a column of a junk-filled matrix (increment = stride > 1, offset),
// a row of one (increment 1, offset), a user type.
func vecReps(vals []float64) []repVec {
	n := len(vals)
	col := make([][]float64, n)
	for i, v := range vals {
		col[i] = []float64{v}
	}
	var out []repVec
	cv := append([]float64(nil), vals...)
	out = append(out, repVec{"vecdense", mat.NewVecDense(n, cv), func() string {
		for i := range vals {
			if math.Float64bits(cv[i]) != math.Float64bits(vals[i]) {
				return fmt.Sprintf("input element %d was modified", i)
			}
		}
		return ""
	}})
	w, ok := window(col, 1, 1)
	out = append(out, repVec{"colview", w.ColView(0), ok})
	w, ok = window([][]float64{vals}, 1, 2)
	out = append(out, repVec{"rowview", w.RowView(0), ok})
	ov := append([]float64(nil), vals...)
	out = append(out, repVec{"opaque", onlyVector{ov}, func() string {
		for i := range vals {
			if math.Float64bits(ov[i]) != math.Float64bits(vals[i]) {
				return fmt.Sprintf("input element %d was modified", i)
			}
		}
		return ""
	}})
	return out
}

// ---- symmetric operands and destinations ------------------------------------------

// onlySymmetric exposes nothing but the mat.Symmetric interface.
type onlySymmetric struct{ onlyMatrix }

func (o onlySymmetric) SymmetricDim() int { return len(o.rows) }

type repSym struct {
	name string
	s    mat.Symmetric
}

// symReps: a compact SymDense, a window of a larger junk-filled SymDense (stride > n), a user type.
func symReps(vals [][]float64) []repSym {
	n := len(vals)
	c := mat.NewSymDense(n, nil)
	big := mat.NewSymDense(n+3, nil)
	for i := 0; i < n+3; i++ {
		for j := i; j < n+3; j++ {
			big.SetSym(i, j, junk(i*(n+3)+j))
		}
	}
	for i := 0; i < n; i++ {
		for j := i; j < n; j++ {
			c.SetSym(i, j, vals[i][j])
			big.SetSym(1+i, 1+j, vals[i][j])
		}
	}
	return []repSym{{"symdense", c}, {"symview", big.SliceSym(1, 1+n)}, {"opaque", onlySymmetric{onlyMatrix{vals}}}}
}

// symDst is a destination for an m x m symmetric result.
type symDst struct {
	name   string
	dst    *mat.SymDense
	intact func() string
}

// symDsts: empty, pre-sized with stale content, a window of a larger junk-filled SymDense.
func symDsts(m int) []symDst {
	none := func() string { return "" }
	stale := mat.NewSymDense(m, nil)
	for i := 0; i < m; i++ {
		for j := i; j < m; j++ {
			stale.SetSym(i, j, 7) // stale content must be overwritten
		}
	}
	p := m + 3
	big := mat.NewSymDense(p, nil)
	for i := 0; i < p; i++ {
		for j := i; j < p; j++ {
			big.SetSym(i, j, junk(i*p+j))
		}
	}
	return []symDst{{"empty", &mat.SymDense{}, none}, {"presized", stale, none},
		{"view", big.SliceSym(2, 2+m).(*mat.SymDense), func() string {
			for i := 0; i < p; i++ {
				for j := i; j < p; j++ {
					if i >= 2 && i < 2+m && j >= 2 && j < 2+m {
						continue
					}
					if math.Float64bits(big.At(i, j)) != math.Float64bits(junk(i*p+j)) {
						return fmt.Sprintf("element (%d,%d) of the parent of the destination, outside the window, was modified", i, j)
					}
				}
			}
			return ""
		}}}
}

// denseDstView is an r x c window of a larger junk-filled matrix, as a destination.
func denseDstView(r, c int) (*mat.Dense, func() string) {
	fill := make([][]float64, r)
	for i := range fill {
		fill[i] = make([]float64, c)
		for j := range fill[i] {
			fill[i][j] = 7 // stale content must be overwritten
		}
	}
	pr, pc := 1+r+1, 2+c+2
	parent := mat.NewDense(pr, pc, nil)
	for i := 0; i < pr; i++ {
		for j := 0; j < pc; j++ {
			parent.Set(i, j, junk(i*pc+j))
		}
	}
	w := parent.Slice(1, 1+r, 2, 2+c).(*mat.Dense)
	for i := range fill {
		for j, v := range fill[i] {
			w.Set(i, j, v)
		}
	}
	return w, func() string {
		for i := 0; i < pr; i++ {
			for j := 0; j < pc; j++ {
				if i >= 1 && i < 1+r && j >= 2 && j < 2+c {
					continue
				}
				if math.Float64bits(parent.At(i, j)) != math.Float64bits(junk(i*pc+j)) {
					return fmt.Sprintf("element (%d,%d) of the parent of the destination, outside the window, was modified", i, j)
				}
			}
		}
		return ""
	}
}
