package stat

import (
	"encoding/json"
	"fmt"
	"math"
	"sort"
	"strings"

	"gonum.org/v1/gonum/mat"
	gstat "gonum.org/v1/gonum/stat"

	"gonum.org/v1/gonum/verifharness/internal/core"
)

// ---- family "bi" ------------------------------------------------------------

type biCase struct {
	T    *affT   `json:"t"`
	U    *affT   `json:"u"`
	X    []int64 `json:"x"`
	Y    []int64 `json:"y"`
	W    []int64 `json:"w"`
	Nilw bool    `json:"nilw"`
	Res  []res   `json:"res"`
}

func (c *checker) bi(k *biCase) {
	p := permFor(c.seed, c.line, len(k.X), 1)
	x := permute(k.T.apply(k.X), p)
	y := permute(k.U.apply(k.Y), p)
	w := permute(weights(k.W, k.Nilw), p)
	ctx := fmt.Sprintf("x=%v y=%v w=%v", x, y, w)
	if k.T != nil {
		ctx = fmt.Sprintf("x=%s y=%s (small sample x=%v y=%v) w=%v", k.T.show(x), k.U.show(y), k.X, k.Y, w)
	}
	undef := 0
	for _, r := range k.Res {
		if len(r.Alts) == 0 {
			undef++
			continue
		}
		switch r.F {
		case "Covariance":
			c.call(r.F, func() { c.value(r.F, r.F, gstat.Covariance(x, y, w), r, ctx) })
		case "Correlation":
			c.call(r.F, func() { c.value(r.F, r.F, gstat.Correlation(x, y, w), r, ctx) })
		case "LinearRegression.alpha":
			c.call("LinearRegression", func() {
				a, _ := gstat.LinearRegression(x, y, w, false)
				c.value("LinearRegression", "alpha", a, r, ctx)
			})
		case "LinearRegression.beta":
			c.call("LinearRegression", func() { _, b := gstat.LinearRegression(x, y, w, false); c.value("LinearRegression", "beta", b, r, ctx) })
		case "LinearRegression.origin":
			c.call("LinearRegression", func() {
				a, b := gstat.LinearRegression(x, y, w, true)
				c.value("LinearRegression", "origin beta", b, r, ctx)
				if a != 0 {
					c.fail("stat:LinearRegression:value", fmt.Sprintf("origin=true returned alpha=%v, not 0: %s", a, ctx))
				}
			})
		case "RSquared":
			c.call(r.F, func() { c.value(r.F, r.F, gstat.RSquared(x, y, w, float64(r.A[0]), float64(r.A[1])), r, ctx) })
		case "RSquaredFrom":
			c.call(r.F, func() { c.value(r.F, r.F, gstat.RSquaredFrom(x, y, w), r, ctx) })
		case "RNoughtSquared":
			c.call(r.F, func() { c.value(r.F, r.F, gstat.RNoughtSquared(x, y, w, float64(r.A[0])), r, ctx) })
		case "BivariateMoment":
			c.call(r.F, func() { c.value(r.F, r.F, gstat.BivariateMoment(float64(r.A[0]), float64(r.A[1]), x, y, w), r, ctx) })
		case "Kendall":
			c.call(r.F, func() { c.value(r.F, r.F, gstat.Kendall(x, y, w), r, ctx) })
		default:
			c.fail("stat:harness:unknown-quantity", "unknown quantity "+r.F)
		}
	}
	c.sum.Count("outside_domain_not_checked", undef)
}

// ---- family "mat" -----------------------------------------------------------

type matCase struct {
	Cols [][]int64 `json:"cols"`
	W    []int64   `json:"w"`
	Nilw bool      `json:"nilw"`
	Sc   int64     `json:"sc"`
	Cov  [][]ev    `json:"cov"`
	Corr [][]ev    `json:"corr"`
}

func (c *checker) mat(k *matCase) {
	n, m := len(k.Cols[0]), len(k.Cols)
	p := permFor(c.seed, c.line, n, 2)
	rows := make([][]float64, n)
	for i := range rows {
		rows[i] = make([]float64, m)
	}
	for j, col := range k.Cols {
		cp := permute(floats(col), p)
		for i := range cp {
			rows[i][j] = cp[i]
		}
	}
	w := permute(weights(k.W, k.Nilw), p)
	// the data matrix is an abstract matrix: every representation of it (reps.go) must give the
	// values the specification printed; destinations: empty / pre-sized stale / window of a larger matrix
	for ri, rp := range matReps(rows, p[0]+n+m) {
		ctx := fmt.Sprintf("cols=%v w=%v perm=%v data as %s", k.Cols, w, p, rp.name)
		sfx := repSfx(rp.name)
		check := func(name string, want [][]ev, sc int64, f func(dst *mat.SymDense)) {
			if len(want) == 0 {
				c.sum.Count("outside_domain_not_checked", 1)
				return
			}
			for di, d := range symDsts(m) {
				// the compact representation meets every destination, the others two of the three
				if ri > 0 && di == ri%3 {
					continue
				}
				dst := d.dst
				c.sum.Count("matrix_calls:"+rp.name+"/dst="+d.name, 1)
				if !c.call(name, func() { f(dst) }) {
					return
				}
				if r, _ := dst.Dims(); r != m {
					c.fail("stat:"+name+":shape"+sfx, fmt.Sprintf("%s: result is %dx%d, want %dx%d: %s", name, r, r, m, m, ctx))
					return
				}
				for i := 0; i < m; i++ {
					for j := 0; j < m; j++ {
						c.sum.Count("values", 1)
						got := dst.At(i, j)
						if !want[i][j].matches(got, sc) {
							c.fail("stat:"+name+":value"+sfx, fmt.Sprintf("%s[%d][%d] %s, destination %s: got %.17g, specification (pairwise scalar definition) says %s",
								name, i, j, ctx, d.name, got, want[i][j].String()))
						}
						if got != dst.At(j, i) {
							c.fail("stat:"+name+":symmetry"+sfx, fmt.Sprintf("%s[%d][%d] != [%d][%d]: %s", name, i, j, j, i, ctx))
						}
					}
				}
				if bad := rp.intact(); bad != "" {
					c.fail("stat:"+name+":input-modified"+sfx, fmt.Sprintf("%s %s: %s", name, ctx, bad))
				}
				if bad := d.intact(); bad != "" {
					c.fail("stat:"+name+":wrote-outside-dst"+sfx, fmt.Sprintf("%s %s, destination %s: %s", name, ctx, d.name, bad))
				}
			}
		}
		data := rp.m
		check("CovarianceMatrix", k.Cov, k.Sc, func(dst *mat.SymDense) { gstat.CovarianceMatrix(dst, data, w) })
		check("CorrelationMatrix", k.Corr, 16, func(dst *mat.SymDense) { gstat.CorrelationMatrix(dst, data, w) })
	}
}

// ---- family "roc" -----------------------------------------------------------

type rocCase struct {
	Y      []int64 `json:"y"`
	Cl     []bool  `json:"cl"`
	W      []int64 `json:"w"`
	Nilw   bool    `json:"nilw"`
	Nilcut bool    `json:"nilcut"`
	Cut2   []int64 `json:"cut2"`
	Thr2   []int64 `json:"thr2"`
	Alts   []struct {
		Tpr [][2]int64 `json:"tpr"`
		Fpr [][2]int64 `json:"fpr"`
	} `json:"alts"`
	Tocmin []int64 `json:"tocmin"`
	Tocntp []int64 `json:"tocntp"`
	Tocmax []int64 `json:"tocmax"`
}

const inf2 = 1000000

func half(v []int64) []float64 {
	f := make([]float64, len(v))
	for i, a := range v {
		if a == inf2 {
			f[i] = math.Inf(1)
		} else {
			f[i] = float64(a) / 2
		}
	}
	return f
}

func (c *checker) roc(k *rocCase) {
	y := floats(k.Y)
	w := weights(k.W, k.Nilw)
	var cut []float64
	if !k.Nilcut {
		cut = half(k.Cut2)
	}
	// "If cutoffs is nil or empty, all possible cutoffs are calculated": nil, an empty slice, and an
	// empty slice with room for the cutoffs (which the function may use as storage) are the same request
	cutVariants := [][]float64{cut}
	if k.Nilcut {
		cutVariants = append(cutVariants, []float64{}, make([]float64, 0, len(y)+1))
	}
	for vi, cutv := range cutVariants {
		cut := cutv
		cutCopy := append([]float64(nil), cut...)
		ctx := fmt.Sprintf("cutoffs=%v (variant %d, cap %d) y=%v classes=%v w=%v", cut, vi, cap(cut), y, k.Cl, w)
		c.call("ROC", func() {
			tpr, fpr, thr := gstat.ROC(cut, y, k.Cl, w)
			c.sum.Count("values", 1)
			want := half(k.Thr2)
			if len(tpr) != len(want) || len(fpr) != len(want) || len(thr) != len(want) {
				c.fail("stat:ROC:length", fmt.Sprintf("ROC %s: lengths tpr=%d fpr=%d thresh=%d, specification says %d", ctx, len(tpr), len(fpr), len(thr), len(want)))
				return
			}
			for i := range want {
				if thr[i] != want[i] {
					c.fail("stat:ROC:thresh", fmt.Sprintf("ROC %s: thresh=%v, specification says %v", ctx, thr, want))
					return
				}
			}
			for i := range cut {
				if cut[i] != cutCopy[i] {
					c.fail("stat:ROC:cutoffs-mutated", fmt.Sprintf("ROC mutated the provided cutoffs: %s -> %v", ctx, cut))
					return
				}
			}
			ok := false
			for _, a := range k.Alts {
				good := true
				for i := range want {
					if !near(tpr[i], rat(a.Tpr[i]), 1) || !near(fpr[i], rat(a.Fpr[i]), 1) {
						good = false
						break
					}
				}
				ok = ok || good
			}
			if !ok {
				c.fail("stat:ROC:value", fmt.Sprintf("ROC %s: tpr=%v fpr=%v thresh=%v, specification says one of %+v", ctx, tpr, fpr, thr, k.Alts))
			}
		})
	}
	if k.Nilcut {
		c.call("TOC", func() {
			mn, ntp, mx := gstat.TOC(k.Cl, w)
			c.sum.Count("values", 1)
			eq := func(got []float64, want []int64) bool {
				if len(got) != len(want) {
					return false
				}
				for i := range got {
					if got[i] != float64(want[i]) {
						return false
					}
				}
				return true
			}
			if !eq(mn, k.Tocmin) || !eq(ntp, k.Tocntp) || !eq(mx, k.Tocmax) {
				c.fail("stat:TOC:value", fmt.Sprintf("TOC classes=%v w=%v: got min=%v ntp=%v max=%v, specification says min=%v ntp=%v max=%v",
					k.Cl, w, mn, ntp, mx, k.Tocmin, k.Tocntp, k.Tocmax))
			}
		})
	}
}

// ---- family "sort" ----------------------------------------------------------

type sortCase struct {
	X       []int64    `json:"x"`
	W       []int64    `json:"w"`
	L       []int64    `json:"l"`
	Nilw    bool       `json:"nilw"`
	Nill    bool       `json:"nill"`
	Sx      []int64    `json:"sx"`
	Triples [][3]int64 `json:"triples"`
}

func (c *checker) sortFam(k *sortCase) {
	x := floats(k.X)
	w := weights(k.W, k.Nilw)
	var l []bool
	if !k.Nill {
		l = make([]bool, len(k.L))
		for i, v := range k.L {
			l[i] = v == 1
		}
	}
	ctx := fmt.Sprintf("x=%v w=%v labels=%v", k.X, w, l)
	run := func(name string, f func()) {
		if !c.call(name, f) {
			return
		}
		c.sum.Count("values", 1)
		got := make([][3]int64, len(x))
		for i := range x {
			got[i][0] = int64(x[i])
			if w != nil {
				got[i][1] = int64(w[i])
			}
			if l != nil && l[i] {
				got[i][2] = 1
			}
			if x[i] != float64(k.Sx[i]) {
				c.fail("stat:"+name+":order", fmt.Sprintf("%s %s: x after the call %v, specification says %v", name, ctx, x, k.Sx))
				return
			}
		}
		// set comparison of the (x, weight tag, label) triples: the order among ties is free
		key := func(t [][3]int64) string {
			s := append([][3]int64(nil), t...)
			sort.Slice(s, func(i, j int) bool {
				for q := 0; q < 3; q++ {
					if s[i][q] != s[j][q] {
						return s[i][q] < s[j][q]
					}
				}
				return false
			})
			return fmt.Sprint(s)
		}
		if key(got) != key(k.Triples) {
			c.fail("stat:"+name+":pairing", fmt.Sprintf("%s %s: (x, w, label) triples after the call %v, specification says %v", name, ctx, got, k.Triples))
		}
	}
	if k.Nill {
		x0, w0 := append([]float64(nil), x...), append([]float64(nil), w...)
		run("SortWeighted", func() { gstat.SortWeighted(x, w) })
		copy(x, x0)
		copy(w, w0)
	}
	run("SortWeightedLabeled", func() { gstat.SortWeightedLabeled(x, l, w) })
}

// ---- family "chi" -----------------------------------------------------------

type chiCase struct {
	Ob  []int64  `json:"ob"`
	Ex  []int64  `json:"ex"`
	Chi [2]int64 `json:"chi"`
	Sc  int64    `json:"sc"`
}

func (c *checker) chi(k *chiCase) {
	ob, ex := floats(k.Ob), floats(k.Ex)
	c.call("ChiSquare", func() {
		got := gstat.ChiSquare(ob, ex)
		c.sum.Count("values", 1)
		if !near(got, rat(k.Chi), k.Sc) {
			c.fail("stat:ChiSquare:value", fmt.Sprintf("ChiSquare obs=%v exp=%v: got %.17g, specification says %s", ob, ex, got, rat(k.Chi).RatString()))
		}
	})
}

// ---- family "dom" -----------------------------------------------------------

type domCase struct {
	F     string   `json:"f"`
	X     []int64  `json:"x"`
	W     []int64  `json:"w"`
	Nilw  bool     `json:"nilw"`
	D     []int64  `json:"d"`
	P8    int64    `json:"p8"`
	Out   string   `json:"out"`
	V     [2]int64 `json:"v"`
	Count []int64  `json:"count"`
}

func (c *checker) dom(k *domCase) {
	x, w := floats(k.X), weights(k.W, k.Nilw)
	if !k.Nilw && w == nil {
		w = []float64{}
	}
	ctx := fmt.Sprintf("%s x=%v w=%v d=%v p=%d/8", k.F, x, w, k.D, k.P8)
	var got float64
	var cnt []float64
	var o core.Outcome
	switch k.F {
	case "QuantileEmp":
		o = core.Call(func() { got = gstat.Quantile(float64(k.P8)/8, gstat.Empirical, x, w) })
	case "QuantileLin":
		o = core.Call(func() { got = gstat.Quantile(float64(k.P8)/8, gstat.LinInterp, x, w) })
	case "CDF":
		o = core.Call(func() { got = gstat.CDF(float64(k.P8), gstat.Empirical, x, w) })
	case "KS.xempty":
		o = core.Call(func() { got = gstat.KolmogorovSmirnov(nil, nil, x, w) })
	case "KS.yempty":
		o = core.Call(func() { got = gstat.KolmogorovSmirnov(x, w, []float64{}, nil) })
	case "Histogram":
		o = core.Call(func() { cnt = gstat.Histogram(nil, floats(k.D), x, w) })
	default:
		c.fail("stat:harness:unknown-quantity", "unknown dom row "+k.F)
		return
	}
	c.sum.Count("values", 1)
	name := strings.SplitN(k.F, ".", 2)[0]
	switch {
	case o.Runtime:
		c.fail("stat:"+name+":runtime-panic", ctx+": runtime error "+o.Text)
	case k.Out == "panic" && !o.Panicked:
		c.fail("stat:"+name+":no-panic", fmt.Sprintf("%s: the documentation says this panics, but it returned %v %v", ctx, got, cnt))
	case k.Out != "panic" && o.Panicked:
		c.fail("stat:"+name+":panic", ctx+": in-domain call panicked: "+o.Text)
	case k.Out == "value" && !near(got, rat(k.V), 1):
		c.fail("stat:"+name+":value", fmt.Sprintf("%s: got %v, specification says %s", ctx, got, rat(k.V).RatString()))
	case k.Out == "count":
		ok := len(cnt) == len(k.Count)
		for i := 0; ok && i < len(cnt); i++ {
			ok = cnt[i] == float64(k.Count[i])
		}
		if !ok {
			c.fail("stat:Histogram:count", fmt.Sprintf("%s: got %v, specification says %v", ctx, cnt, k.Count))
		}
	}
}

// more dispatches the families added after the core ones; it reports false for
// an unknown family.
func (c *checker) more(fam string, nontrivial *bool, err *error) bool {
	switch fam {
	case "bi", "affbi":
		var k biCase
		if *err = json.Unmarshal(c.line, &k); *err == nil {
			c.bi(&k)
			*nontrivial = distinct(k.X) > 1 && distinct(k.Y) > 1
		}
	case "mat":
		var k matCase
		if *err = json.Unmarshal(c.line, &k); *err == nil {
			c.mat(&k)
			*nontrivial = len(k.Cov) > 0
		}
	case "roc":
		var k rocCase
		if *err = json.Unmarshal(c.line, &k); *err == nil {
			c.roc(&k)
			*nontrivial = distinct(k.Y) > 1
		}
	case "sort":
		var k sortCase
		if *err = json.Unmarshal(c.line, &k); *err == nil {
			c.sortFam(&k)
			*nontrivial = fmt.Sprint(k.X) != fmt.Sprint(k.Sx)
		}
	case "chi":
		var k chiCase
		if *err = json.Unmarshal(c.line, &k); *err == nil {
			c.chi(&k)
			*nontrivial = k.Chi[0] != 0
		}
	case "affmat":
		var k affMatCase
		if *err = json.Unmarshal(c.line, &k); *err == nil {
			c.affMat(&k)
			*nontrivial = len(k.Cov) > 0
		}
	case "afford":
		var k affOrdCase
		if *err = json.Unmarshal(c.line, &k); *err == nil {
			c.affOrd(&k)
			*nontrivial = distinct(k.X) > 1
		}
	case "dom":
		var k domCase
		if *err = json.Unmarshal(c.line, &k); *err == nil {
			c.dom(&k)
		}
	default:
		// families of DescriptiveExtGen.tla and MultivariateGen.tla
		return c.multivariate(fam, nontrivial, err)
	}
	return true
}

var _ = core.Call
