package stat

// more dispatches the families added after the core ones; it reports false for
// an unknown family.
func (c *checker) more(fam string, nontrivial *bool, err *error) bool {
	return false
}
