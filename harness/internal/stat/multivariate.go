package stat

// Families "pca", "cca", "marg" (specs/stat/MultivariateGen.tla): histories of
// analyses on one stat.PC / stat.CC receiver.  Every step holds the integer
// data matrices, the weights and the result the definitions IsPCA / IsCCA of
// Multivariate.tla accepted (variances, correlations, vectors as exact
// rationals, back-transformed vectors as signed square roots of rationals),
// which components are determined up to sign, the tolerances, and the
// decision table for the destination arguments.  The driver builds the
// operands, calls gonum and compares; a vector is compared up to sign.

import (
	"encoding/json"
	"fmt"
	"math/big"

	"gonum.org/v1/gonum/mat"
	gstat "gonum.org/v1/gonum/stat"

	"gonum.org/v1/gonum/verifharness/internal/core"
)

type vecRecv struct {
	Len int    `json:"len"`
	Out string `json:"out"`
}

type matRecv struct {
	R   int    `json:"r"`
	C   int    `json:"c"`
	Out string `json:"out"`
}

func dense(rows [][]int64) *mat.Dense {
	n, d := len(rows), len(rows[0])
	m := mat.NewDense(n, d, nil)
	for i, r := range rows {
		for j, v := range r {
			m.Set(i, j, float64(v))
		}
	}
	return m
}

func (r vecRecv) build() []float64 {
	if r.Len < 0 {
		return nil
	}
	d := make([]float64, r.Len)
	for i := range d {
		d[i] = 7 // stale content must be overwritten
	}
	return d
}

func (r matRecv) build() *mat.Dense {
	if r.R == 0 {
		return &mat.Dense{}
	}
	d := mat.NewDense(r.R, r.C, nil)
	for i := 0; i < r.R; i++ {
		for j := 0; j < r.C; j++ {
			d.Set(i, j, 7)
		}
	}
	return d
}

// outcome checks the panic / no-panic row of a destination; it reports whether
// the values should be compared.
func (c *checker) outcome(name, sfx, ctx, want string, o core.Outcome) bool {
	c.sum.Count("values", 1)
	switch {
	case want == "panic" && !o.Panicked:
		c.fail("stat:"+name+":no-panic"+sfx, ctx+": the documentation says this destination panics, but the call returned")
	case want == "ok" && o.Panicked:
		c.fail("stat:"+name+":panic"+sfx, ctx+": in-domain call panicked: "+o.Text)
	case want == "ok":
		return true
	}
	return false
}

// colMatch reports whether column j of got equals the expected column up to
// sign: exact rationals (want) or evs (wantEv).
func colMatch(got *mat.Dense, j int, want [][][2]int64, wantEv [][]ev, lim *big.Rat) bool {
	rows, _ := got.Dims()
	for _, s := range []int64{1, -1} {
		ok := true
		for i := 0; i < rows && ok; i++ {
			var w *big.Rat
			if want != nil {
				w = rat(want[i][j])
			} else {
				var valid bool
				if w, valid = evRat(wantEv[i][j]); !valid {
					return false
				}
			}
			w = new(big.Rat).Mul(w, big.NewRat(s, 1))
			ok = within(got.At(i, j), w, lim)
		}
		if ok {
			return true
		}
	}
	return false
}

func showCol(want [][][2]int64, wantEv [][]ev, j int) string {
	s := "["
	for i := range max(len(want), len(wantEv)) {
		if i > 0 {
			s += " "
		}
		if want != nil {
			s += rat(want[i][j]).RatString()
		} else {
			s += wantEv[i][j].String()
		}
	}
	return s + "]"
}

// ---- family "pca" -------------------------------------------------------------

type pcaStep struct {
	X      [][]int64    `json:"X"`
	W      []int64      `json:"w"`
	Nilw   bool         `json:"nilw"`
	N      int          `json:"n"`
	D      int          `json:"d"`
	K      int          `json:"k"`
	Lam    [][2]int64   `json:"lam"`
	V      [][][2]int64 `json:"V"`
	Uniq   []bool       `json:"uniq"`
	Tolvar []num        `json:"tolvar"`
	Tolvec []num        `json:"tolvec"`
	Vrecv  []vecRecv    `json:"vrecv"`
	Mrecv  []matRecv    `json:"mrecv"`
	Tag    string       `json:"tag"`
	Wtag   string       `json:"wtag"`
}

type pcaLine struct {
	Steps []pcaStep `json:"steps"`
}

func (c *checker) pca(k *pcaLine) (nontrivial bool) {
	var pc gstat.PC // one receiver for the whole history
	prev := ""
	for si, st := range k.Steps {
		sfx := ""
		if si > 0 {
			// the accessors must return the result of the last analysis, whatever the receiver held before
			sfx = fmt.Sprintf(":reused(prev=%s,now=%s)", prev, st.Wtag)
		}
		prev = st.Wtag
		x := dense(st.X)
		w := weights(st.W, st.Nilw)
		ctx := fmt.Sprintf("step %d [%s] PrincipalComponents(X=%v, weights=%v)", si, st.Tag, st.X, w)
		var ok bool
		o := core.Call(func() { ok = pc.PrincipalComponents(x, w) })
		c.sum.Count("values", 1)
		if o.Panicked {
			c.fail("stat:PC.PrincipalComponents:panic"+sfx, ctx+": in-domain call panicked: "+o.Text)
			return
		}
		if !ok {
			c.fail("stat:PC.PrincipalComponents:not-ok"+sfx, ctx+": returned false")
			return
		}
		limVar, limVec := prodRat(st.Tolvar), prodRat(st.Tolvec)
		for _, r := range st.Vrecv {
			dst := r.build()
			var got []float64
			o := core.Call(func() { got = pc.VarsTo(dst) })
			rctx := fmt.Sprintf("%s; VarsTo(dst of length %d)", ctx, r.Len)
			if !c.outcome("PC.VarsTo", sfx, rctx, r.Out, o) {
				continue
			}
			if len(got) != st.K {
				c.fail("stat:PC.VarsTo:length"+sfx, fmt.Sprintf("%s: %d variances, specification says min(n, d) = %d", rctx, len(got), st.K))
				continue
			}
			if dst != nil && len(dst) > 0 && &got[0] != &dst[0] {
				c.fail("stat:PC.VarsTo:dst-not-used"+sfx, rctx+": the result is not stored in the provided slice")
			}
			for i, v := range got {
				if !within(v, rat(st.Lam[i]), limVar) {
					c.fail("stat:PC.VarsTo:value"+sfx, fmt.Sprintf("%s: variances %v, specification says %v", rctx, got, st.Lam))
					break
				}
			}
		}
		for _, r := range st.Mrecv {
			dst := r.build()
			o := core.Call(func() { pc.VectorsTo(dst) })
			rctx := fmt.Sprintf("%s; VectorsTo(%dx%d destination)", ctx, r.R, r.C)
			if !c.outcome("PC.VectorsTo", sfx, rctx, r.Out, o) {
				continue
			}
			if gr, gc := dst.Dims(); gr != st.D || gc != st.K {
				c.fail("stat:PC.VectorsTo:shape"+sfx, fmt.Sprintf("%s: result is %dx%d, specification says %dx%d", rctx, gr, gc, st.D, st.K))
				continue
			}
			for j := 0; j < st.K; j++ {
				if !st.Uniq[j] {
					c.sum.Count("nonunique_vectors_not_compared", 1)
					continue
				}
				nontrivial = true
				if !colMatch(dst, j, st.V, nil, limVec) {
					c.fail("stat:PC.VectorsTo:value"+sfx, fmt.Sprintf("%s: component %d is %v, specification says +-%s",
						rctx, j, mat.Col(nil, j, dst), showCol(st.V, nil, j)))
				}
			}
		}
	}
	return nontrivial
}

// ---- family "cca" -------------------------------------------------------------

type ccaStep struct {
	X       [][]int64    `json:"X"`
	Y       [][]int64    `json:"Y"`
	W       []int64      `json:"w"`
	Nilw    bool         `json:"nilw"`
	N       int          `json:"n"`
	P       int          `json:"p"`
	Q       int          `json:"q"`
	D       [][2]int64   `json:"D"`
	L       [][][2]int64 `json:"L"`
	R       [][][2]int64 `json:"R"`
	LB      [][]ev       `json:"LB"`
	RB      [][]ev       `json:"RB"`
	UniqL   []bool       `json:"uniqL"`
	UniqR   []bool       `json:"uniqR"`
	Tolcorr []num        `json:"tolcorr"`
	Tolvec  []num        `json:"tolvec"`
	Tolback []num        `json:"tolback"`
	Crecv   []vecRecv    `json:"crecv"`
	Lrecv   []matRecv    `json:"lrecv"`
	Rrecv   []matRecv    `json:"rrecv"`
	Tag     string       `json:"tag"`
	Wtag    string       `json:"wtag"`
}

type ccaLine struct {
	Steps []ccaStep `json:"steps"`
}

func (c *checker) cca(k *ccaLine) (nontrivial bool) {
	var cc gstat.CC
	for si, st := range k.Steps {
		sfx := ""
		if si > 0 {
			sfx = ":reused"
		}
		x, y := dense(st.X), dense(st.Y)
		w := weights(st.W, st.Nilw)
		ctx := fmt.Sprintf("step %d [%s] CanonicalCorrelations(X=%v, Y=%v, weights=%v)", si, st.Tag, st.X, st.Y, w)
		var err error
		o := core.Call(func() { err = cc.CanonicalCorrelations(x, y, w) })
		c.sum.Count("values", 1)
		if o.Panicked {
			c.fail("stat:CC.CanonicalCorrelations:panic"+sfx, ctx+": in-domain call panicked: "+o.Text)
			return
		}
		if err != nil {
			c.fail("stat:CC.CanonicalCorrelations:error"+sfx, ctx+": returned "+err.Error())
			return
		}
		limCorr, limVec, limBack := prodRat(st.Tolcorr), prodRat(st.Tolvec), prodRat(st.Tolback)
		for _, r := range st.Crecv {
			dst := r.build()
			var got []float64
			o := core.Call(func() { got = cc.CorrsTo(dst) })
			rctx := fmt.Sprintf("%s; CorrsTo(dst of length %d)", ctx, r.Len)
			if !c.outcome("CC.CorrsTo", sfx, rctx, r.Out, o) {
				continue
			}
			if len(got) != st.Q {
				c.fail("stat:CC.CorrsTo:length"+sfx, fmt.Sprintf("%s: %d correlations, specification says %d", rctx, len(got), st.Q))
				continue
			}
			if dst != nil && len(dst) > 0 && &got[0] != &dst[0] {
				c.fail("stat:CC.CorrsTo:dst-not-used"+sfx, rctx+": the result is not stored in the provided slice")
			}
			for i, v := range got {
				if !within(v, rat(st.D[i]), limCorr) {
					c.fail("stat:CC.CorrsTo:value"+sfx, fmt.Sprintf("%s: correlations %v, specification says %v", rctx, got, st.D))
					break
				}
			}
		}
		vectors := func(name string, recv []matRecv, rows int, uniq []bool, sph [][][2]int64, back [][]ev, f func(dst *mat.Dense, sphered bool)) {
			for _, sphered := range []bool{true, false} {
				for _, r := range recv {
					dst := r.build()
					o := core.Call(func() { f(dst, sphered) })
					rctx := fmt.Sprintf("%s; %s(%dx%d destination, spheredSpace=%v)", ctx, name, r.R, r.C, sphered)
					if !c.outcome("CC."+name, sfx, rctx, r.Out, o) {
						continue
					}
					if gr, gc := dst.Dims(); gr != rows || gc != st.Q {
						c.fail("stat:CC."+name+":shape"+sfx, fmt.Sprintf("%s: result is %dx%d, specification says %dx%d", rctx, gr, gc, rows, st.Q))
						continue
					}
					for j := 0; j < st.Q; j++ {
						if !uniq[j] {
							c.sum.Count("nonunique_vectors_not_compared", 1)
							continue
						}
						nontrivial = true
						if sphered {
							if !colMatch(dst, j, sph, nil, limVec) {
								c.fail("stat:CC."+name+":sphered"+sfx, fmt.Sprintf("%s: vector %d is %v, specification says +-%s",
									rctx, j, mat.Col(nil, j, dst), showCol(sph, nil, j)))
							}
						} else if !colMatch(dst, j, nil, back, limBack) {
							// the signature names the weighting: with weights the back-transformation depends on the
							// normalisation of the weighted sample covariance (sum(w) - 1 as everywhere in package stat)
							c.fail("stat:CC."+name+":backtransformed:"+st.Wtag+sfx, fmt.Sprintf("%s: vector %d is %v, specification says +-%s",
								rctx, j, mat.Col(nil, j, dst), showCol(nil, back, j)))
						}
					}
				}
			}
		}
		vectors("LeftTo", st.Lrecv, st.P, st.UniqL, st.L, st.LB, func(dst *mat.Dense, s bool) { cc.LeftTo(dst, s) })
		vectors("RightTo", st.Rrecv, st.Q, st.UniqR, st.R, st.RB, func(dst *mat.Dense, s bool) { cc.RightTo(dst, s) })
	}
	return nontrivial
}

// ---- family "marg": documented panics of the matrix functions -------------------

type margRow struct {
	F    string    `json:"f"`
	X    [][]int64 `json:"X"`
	Y    [][]int64 `json:"Y"`
	W    []int64   `json:"w"`
	Nilw bool      `json:"nilw"`
	Dr   int       `json:"dr"`
	Out  string    `json:"out"`
}

func (c *checker) marg(k *margRow) {
	x, y := dense(k.X), dense(k.Y)
	w := weights(k.W, k.Nilw)
	ctx := fmt.Sprintf("%s(X=%v, Y=%v, weights=%v, destination %dx%d)", k.F, k.X, k.Y, w, k.Dr, k.Dr)
	var dst *mat.SymDense
	if k.Dr > 0 {
		dst = mat.NewSymDense(k.Dr, nil)
	} else {
		dst = &mat.SymDense{}
	}
	var o core.Outcome
	switch k.F {
	case "CovarianceMatrix":
		o = core.Call(func() { gstat.CovarianceMatrix(dst, x, w) })
	case "CorrelationMatrix":
		o = core.Call(func() { gstat.CorrelationMatrix(dst, x, w) })
	case "PrincipalComponents":
		o = core.Call(func() { var pc gstat.PC; pc.PrincipalComponents(x, w) })
	case "CanonicalCorrelations":
		o = core.Call(func() { var cc gstat.CC; cc.CanonicalCorrelations(x, y, w) })
	case "PC.VarsTo.zero":
		o = core.Call(func() { var pc gstat.PC; pc.VarsTo(nil) })
	case "PC.VectorsTo.zero":
		o = core.Call(func() { var pc gstat.PC; pc.VectorsTo(&mat.Dense{}) })
	case "CC.CorrsTo.zero":
		o = core.Call(func() { var cc gstat.CC; cc.CorrsTo(nil) })
	case "CC.LeftTo.zero":
		o = core.Call(func() { var cc gstat.CC; cc.LeftTo(&mat.Dense{}, true) })
	case "CC.RightTo.zero":
		o = core.Call(func() { var cc gstat.CC; cc.RightTo(&mat.Dense{}, true) })
	default:
		c.fail("stat:harness:unknown-function", "unknown marg row "+k.F)
		return
	}
	c.outcome(k.F, "", ctx, k.Out, o)
}

// ---- family "maha": Mahalanobis distance for an exact SPD matrix ------------------

type mahaCase struct {
	S    [][]int64 `json:"S"`
	X    []int64   `json:"x"`
	Y    []int64   `json:"y"`
	Alts []ev      `json:"alts"`
	Tol  []num     `json:"tol"`
}

func (c *checker) maha(k *mahaCase) {
	n := len(k.S)
	sym := mat.NewSymDense(n, nil)
	for i := range k.S {
		for j := i; j < n; j++ {
			sym.SetSym(i, j, float64(k.S[i][j]))
		}
	}
	// operand construction: the function takes the Cholesky factorization of the matrix
	var chol mat.Cholesky
	if ok := chol.Factorize(sym); !ok {
		panic(operandError(fmt.Sprintf("mat.Cholesky.Factorize rejected the positive definite matrix %v", k.S)))
	}
	x, y := mat.NewVecDense(n, floats(k.X)), mat.NewVecDense(n, floats(k.Y))
	ctx := fmt.Sprintf("Mahalanobis(x=%v, y=%v, chol(%v))", k.X, k.Y, k.S)
	c.call("Mahalanobis", func() {
		got := gstat.Mahalanobis(x, y, &chol)
		c.sum.Count("values", 1)
		lim := prodRat(k.Tol)
		for _, a := range k.Alts {
			if want, ok := evRat(a); ok && within(got, want, lim) {
				return
			}
		}
		c.fail("stat:Mahalanobis:value", fmt.Sprintf("%s: got %.17g, specification says %s", ctx, got, altsString(k.Alts)))
	})
}

// multivariate dispatches the families of MultivariateGen.tla; it reports false
// for an unknown family.
func (c *checker) multivariate(fam string, nontrivial *bool, err *error) bool {
	switch fam {
	case "pca":
		var k pcaLine
		if *err = json.Unmarshal(c.line, &k); *err == nil {
			*nontrivial = c.pca(&k)
		}
	case "cca":
		var k ccaLine
		if *err = json.Unmarshal(c.line, &k); *err == nil {
			*nontrivial = c.cca(&k)
		}
	case "marg":
		var k margRow
		if *err = json.Unmarshal(c.line, &k); *err == nil {
			c.marg(&k)
		}
	case "maha":
		var k mahaCase
		if *err = json.Unmarshal(c.line, &k); *err == nil {
			c.maha(&k)
			*nontrivial = fmt.Sprint(k.X) != fmt.Sprint(k.Y)
		}
	case "call":
		var k callLine
		if *err = json.Unmarshal(c.line, &k); *err == nil {
			c.callFam(&k)
			*nontrivial = k.Nt
		}
	default:
		return false
	}
	return true
}
