package stat

// Families "pca", "cca", "marg" (specs/stat/MultivariateGen.tla): histories of
// analyses on one stat.PC / stat.CC receiver.  Every step holds the integer
// data matrices, the weights and the result the definitions IsPCA / IsCCA of
// Multivariate.tla accepted (variances, correlations, vectors as exact
// rationals, back-transformed vectors as signed square roots of rationals),
// which components are determined up to sign, the tolerances, and the
// decision table for the destination arguments.  The driver builds the
// operands, calls gonum and compares; a vector is compared up to sign.

import (
	"encoding/json"
	"fmt"
	"math/big"

	"gonum.org/v1/gonum/mat"
	gstat "gonum.org/v1/gonum/stat"

	"gonum.org/v1/gonum/verifharness/internal/core"
)

type vecRecv struct {
	Len int    `json:"len"`
	Out string `json:"out"`
}

type matRecv struct {
	R    int    `json:"r"`
	C    int    `json:"c"`
	Out  string `json:"out"`
	View bool   `json:"-"` // added by the harness: the same row with a window of a larger matrix as destination
}

// withViews repeats every accepted pre-sized destination of the specification's decision table as
// a window of a larger junk-filled matrix (same dimensions, same expected outcome).
func withViews(rows []matRecv) []matRecv {
	out := append([]matRecv(nil), rows...)
	for _, r := range rows {
		if r.R > 0 && r.C > 0 && r.Out == "ok" {
			r.View = true
			out = append(out, r)
		}
	}
	return out
}

func (r matRecv) viewNote() string {
	if r.View {
		return ", a window of a larger matrix"
	}
	return ""
}

// buildDst returns the destination and the check that nothing outside it was written.
func (r matRecv) buildDst() (*mat.Dense, func() string) {
	if r.View {
		return denseDstView(r.R, r.C)
	}
	return r.build(), func() string { return "" }
}

func dense(rows [][]int64) *mat.Dense {
	n, d := len(rows), len(rows[0])
	m := mat.NewDense(n, d, nil)
	for i, r := range rows {
		for j, v := range r {
			m.Set(i, j, float64(v))
		}
	}
	return m
}

func (r vecRecv) build() []float64 {
	if r.Len < 0 {
		return nil
	}
	d := make([]float64, r.Len)
	for i := range d {
		d[i] = 7 // stale content must be overwritten
	}
	return d
}

func (r matRecv) build() *mat.Dense {
	if r.R == 0 {
		return &mat.Dense{}
	}
	d := mat.NewDense(r.R, r.C, nil)
	for i := 0; i < r.R; i++ {
		for j := 0; j < r.C; j++ {
			d.Set(i, j, 7)
		}
	}
	return d
}

// outcome checks the panic / no-panic row of a destination; it reports whether
// the values should be compared.
func (c *checker) outcome(name, sfx, ctx, want string, o core.Outcome) bool {
	c.sum.Count("values", 1)
	switch {
	case want == "panic" && !o.Panicked:
		c.fail("stat:"+name+":no-panic"+sfx, ctx+": the documentation says this destination panics, but the call returned")
	case want == "ok" && o.Panicked:
		c.fail("stat:"+name+":panic"+sfx, ctx+": in-domain call panicked: "+o.Text)
	case want == "ok":
		return true
	}
	return false
}

// colMatch reports whether column j of got equals the expected column up to
// sign: exact rationals (want) or evs (wantEv).
func colMatch(got *mat.Dense, j int, want [][][2]int64, wantEv [][]ev, lim *big.Rat) bool {
	rows, _ := got.Dims()
	for _, s := range []int64{1, -1} {
		ok := true
		for i := 0; i < rows && ok; i++ {
			var w *big.Rat
			if want != nil {
				w = rat(want[i][j])
			} else {
				var valid bool
				if w, valid = evRat(wantEv[i][j]); !valid {
					return false
				}
			}
			w = new(big.Rat).Mul(w, big.NewRat(s, 1))
			ok = within(got.At(i, j), w, lim)
		}
		if ok {
			return true
		}
	}
	return false
}

func showCol(want [][][2]int64, wantEv [][]ev, j int) string {
	s := "["
	for i := range max(len(want), len(wantEv)) {
		if i > 0 {
			s += " "
		}
		if want != nil {
			s += rat(want[i][j]).RatString()
		} else {
			s += wantEv[i][j].String()
		}
	}
	return s + "]"
}

// ---- family "pca" -------------------------------------------------------------

type pcaStep struct {
	X      [][]int64    `json:"X"`
	W      []int64      `json:"w"`
	Nilw   bool         `json:"nilw"`
	N      int          `json:"n"`
	D      int          `json:"d"`
	K      int          `json:"k"`
	Lam    [][2]int64   `json:"lam"`
	V      [][][2]int64 `json:"V"`
	Uniq   []bool       `json:"uniq"`
	Tolvar []num        `json:"tolvar"`
	Tolvec []num        `json:"tolvec"`
	Vrecv  []vecRecv    `json:"vrecv"`
	Mrecv  []matRecv    `json:"mrecv"`
	Tag    string       `json:"tag"`
	Wtag   string       `json:"wtag"`
}

type pcaLine struct {
	Steps []pcaStep `json:"steps"`
}

func (c *checker) pca(k *pcaLine) (nontrivial bool) {
	// The data matrix is an abstract matrix: the whole history is run once per representation
	// (reps.go); within a history the representation advances with the step, so that a receiver
	// also meets a different representation of the next data matrix.
	for r := 0; r < nReps; r++ {
		if c.pcaHistory(k, r) {
			nontrivial = true
		}
	}
	return nontrivial
}

var nReps = len(matReps([][]float64{{0}}, 0))

func (c *checker) pcaHistory(k *pcaLine, r0 int) (nontrivial bool) {
	var pc gstat.PC // one receiver for the whole history
	prev := ""
	for si, st := range k.Steps {
		rp := matReps(rowsOf(st.X), r0+si+st.N)[(r0+si)%nReps]
		sfx := repSfx(rp.name)
		if si > 0 {
			// the accessors must return the result of the last analysis, whatever the receiver held before
			sfx += fmt.Sprintf(":reused(prev=%s,now=%s)", prev, st.Wtag)
		}
		prev = st.Wtag
		x := rp.m
		w := weights(st.W, st.Nilw)
		ctx := fmt.Sprintf("step %d [%s] PrincipalComponents(X=%v as %s, weights=%v)", si, st.Tag, st.X, rp.name, w)
		c.sum.Count("matrix_calls:"+rp.name, 1)
		var ok bool
		o := core.Call(func() { ok = pc.PrincipalComponents(x, w) })
		c.sum.Count("values", 1)
		if o.Panicked {
			c.fail("stat:PC.PrincipalComponents:panic"+sfx, ctx+": in-domain call panicked: "+o.Text)
			return
		}
		if !ok {
			c.fail("stat:PC.PrincipalComponents:not-ok"+sfx, ctx+": returned false")
			return
		}
		if bad := rp.intact(); bad != "" {
			c.fail("stat:PC.PrincipalComponents:input-modified"+sfx, ctx+": "+bad)
		}
		limVar, limVec := prodRat(st.Tolvar), prodRat(st.Tolvec)
		for _, r := range st.Vrecv {
			dst := r.build()
			var got []float64
			o := core.Call(func() { got = pc.VarsTo(dst) })
			rctx := fmt.Sprintf("%s; VarsTo(dst of length %d)", ctx, r.Len)
			if !c.outcome("PC.VarsTo", sfx, rctx, r.Out, o) {
				continue
			}
			if len(got) != st.K {
				c.fail("stat:PC.VarsTo:length"+sfx, fmt.Sprintf("%s: %d variances, specification says min(n, d) = %d", rctx, len(got), st.K))
				continue
			}
			if dst != nil && len(dst) > 0 && &got[0] != &dst[0] {
				c.fail("stat:PC.VarsTo:dst-not-used"+sfx, rctx+": the result is not stored in the provided slice")
			}
			for i, v := range got {
				if !within(v, rat(st.Lam[i]), limVar) {
					c.fail("stat:PC.VarsTo:value"+sfx, fmt.Sprintf("%s: variances %v, specification says %v", rctx, got, st.Lam))
					break
				}
			}
		}
		for _, r := range withViews(st.Mrecv) {
			dst, dstIntact := r.buildDst()
			o := core.Call(func() { pc.VectorsTo(dst) })
			rctx := fmt.Sprintf("%s; VectorsTo(%dx%d destination%s)", ctx, r.R, r.C, r.viewNote())
			if !c.outcome("PC.VectorsTo", sfx, rctx, r.Out, o) {
				continue
			}
			if bad := dstIntact(); bad != "" {
				c.fail("stat:PC.VectorsTo:wrote-outside-dst"+sfx, rctx+": "+bad)
			}
			if gr, gc := dst.Dims(); gr != st.D || gc != st.K {
				c.fail("stat:PC.VectorsTo:shape"+sfx, fmt.Sprintf("%s: result is %dx%d, specification says %dx%d", rctx, gr, gc, st.D, st.K))
				continue
			}
			for j := 0; j < st.K; j++ {
				if !st.Uniq[j] {
					c.sum.Count("nonunique_vectors_not_compared", 1)
					continue
				}
				nontrivial = true
				if !colMatch(dst, j, st.V, nil, limVec) {
					c.fail("stat:PC.VectorsTo:value"+sfx, fmt.Sprintf("%s: component %d is %v, specification says +-%s",
						rctx, j, mat.Col(nil, j, dst), showCol(st.V, nil, j)))
				}
			}
		}
	}
	return nontrivial
}

// ---- family "cca" -------------------------------------------------------------

type ccaStep struct {
	X       [][]int64    `json:"X"`
	Y       [][]int64    `json:"Y"`
	W       []int64      `json:"w"`
	Nilw    bool         `json:"nilw"`
	N       int          `json:"n"`
	P       int          `json:"p"`
	Q       int          `json:"q"`
	D       [][2]int64   `json:"D"`
	L       [][][2]int64 `json:"L"`
	R       [][][2]int64 `json:"R"`
	LB      [][]ev       `json:"LB"`
	RB      [][]ev       `json:"RB"`
	UniqL   []bool       `json:"uniqL"`
	UniqR   []bool       `json:"uniqR"`
	Tolcorr []num        `json:"tolcorr"`
	Tolvec  []num        `json:"tolvec"`
	Tolback []num        `json:"tolback"`
	Crecv   []vecRecv    `json:"crecv"`
	Lrecv   []matRecv    `json:"lrecv"`
	Rrecv   []matRecv    `json:"rrecv"`
	Tag     string       `json:"tag"`
	Wtag    string       `json:"wtag"`
}

type ccaLine struct {
	Steps []ccaStep `json:"steps"`
}

func (c *checker) cca(k *ccaLine) (nontrivial bool) {
	// as pca: one history per representation of x; y runs through the representations at another pace
	for r := 0; r < nReps; r++ {
		if c.ccaHistory(k, r) {
			nontrivial = true
		}
	}
	return nontrivial
}

func (c *checker) ccaHistory(k *ccaLine, r0 int) (nontrivial bool) {
	var cc gstat.CC
	for si, st := range k.Steps {
		rx := matReps(rowsOf(st.X), r0+si+st.N)[(r0+si)%nReps]
		ry := matReps(rowsOf(st.Y), r0+st.P)[(2*r0+si+1)%nReps]
		sfx, usfx := "", "" // usfx: without the representation (signature of known finding C10-K1)
		if rx.name != "dense" || ry.name != "dense" {
			sfx = ":rep=" + rx.name + "," + ry.name
		}
		if si > 0 {
			sfx += ":reused"
			usfx = ":reused"
		}
		x, y := rx.m, ry.m
		w := weights(st.W, st.Nilw)
		ctx := fmt.Sprintf("step %d [%s] CanonicalCorrelations(X=%v as %s, Y=%v as %s, weights=%v)", si, st.Tag, st.X, rx.name, st.Y, ry.name, w)
		c.sum.Count("matrix_calls:"+rx.name, 1)
		c.sum.Count("matrix_calls:"+ry.name, 1)
		var err error
		o := core.Call(func() { err = cc.CanonicalCorrelations(x, y, w) })
		c.sum.Count("values", 1)
		if o.Panicked {
			c.fail("stat:CC.CanonicalCorrelations:panic"+sfx, ctx+": in-domain call panicked: "+o.Text)
			return
		}
		if err != nil {
			c.fail("stat:CC.CanonicalCorrelations:error"+sfx, ctx+": returned "+err.Error())
			return
		}
		if bad := rx.intact() + ry.intact(); bad != "" {
			c.fail("stat:CC.CanonicalCorrelations:input-modified"+sfx, ctx+": "+bad)
		}
		limCorr, limVec, limBack := prodRat(st.Tolcorr), prodRat(st.Tolvec), prodRat(st.Tolback)
		for _, r := range st.Crecv {
			dst := r.build()
			var got []float64
			o := core.Call(func() { got = cc.CorrsTo(dst) })
			rctx := fmt.Sprintf("%s; CorrsTo(dst of length %d)", ctx, r.Len)
			if !c.outcome("CC.CorrsTo", sfx, rctx, r.Out, o) {
				continue
			}
			if len(got) != st.Q {
				c.fail("stat:CC.CorrsTo:length"+sfx, fmt.Sprintf("%s: %d correlations, specification says %d", rctx, len(got), st.Q))
				continue
			}
			if dst != nil && len(dst) > 0 && &got[0] != &dst[0] {
				c.fail("stat:CC.CorrsTo:dst-not-used"+sfx, rctx+": the result is not stored in the provided slice")
			}
			for i, v := range got {
				if !within(v, rat(st.D[i]), limCorr) {
					c.fail("stat:CC.CorrsTo:value"+sfx, fmt.Sprintf("%s: correlations %v, specification says %v", rctx, got, st.D))
					break
				}
			}
		}
		vectors := func(name string, recv []matRecv, rows int, uniq []bool, sph [][][2]int64, back [][]ev, f func(dst *mat.Dense, sphered bool)) {
			for _, sphered := range []bool{true, false} {
				for _, r := range withViews(recv) {
					dst, dstIntact := r.buildDst()
					o := core.Call(func() { f(dst, sphered) })
					rctx := fmt.Sprintf("%s; %s(%dx%d destination%s, spheredSpace=%v)", ctx, name, r.R, r.C, r.viewNote(), sphered)
					if !c.outcome("CC."+name, sfx, rctx, r.Out, o) {
						continue
					}
					if bad := dstIntact(); bad != "" {
						c.fail("stat:CC."+name+":wrote-outside-dst"+sfx, rctx+": "+bad)
					}
					if gr, gc := dst.Dims(); gr != rows || gc != st.Q {
						c.fail("stat:CC."+name+":shape"+sfx, fmt.Sprintf("%s: result is %dx%d, specification says %dx%d", rctx, gr, gc, rows, st.Q))
						continue
					}
					for j := 0; j < st.Q; j++ {
						if !uniq[j] {
							c.sum.Count("nonunique_vectors_not_compared", 1)
							continue
						}
						nontrivial = true
						if sphered {
							if !colMatch(dst, j, sph, nil, limVec) {
								c.fail("stat:CC."+name+":sphered"+sfx, fmt.Sprintf("%s: vector %d is %v, specification says +-%s",
									rctx, j, mat.Col(nil, j, dst), showCol(sph, nil, j)))
							}
						} else if !colMatch(dst, j, nil, back, limBack) {
							// the signature names the weighting: with weights the back-transformation depends on the
							// normalisation of the weighted sample covariance (sum(w) - 1 as everywhere in package stat)
							c.fail("stat:CC."+name+":backtransformed:"+st.Wtag+usfx, fmt.Sprintf("%s: vector %d is %v, specification says +-%s",
								rctx, j, mat.Col(nil, j, dst), showCol(nil, back, j)))
						}
					}
				}
			}
		}
		vectors("LeftTo", st.Lrecv, st.P, st.UniqL, st.L, st.LB, func(dst *mat.Dense, s bool) { cc.LeftTo(dst, s) })
		vectors("RightTo", st.Rrecv, st.Q, st.UniqR, st.R, st.RB, func(dst *mat.Dense, s bool) { cc.RightTo(dst, s) })
	}
	return nontrivial
}

// ---- family "marg": documented panics of the matrix functions -------------------

type margRow struct {
	F    string    `json:"f"`
	X    [][]int64 `json:"X"`
	Y    [][]int64 `json:"Y"`
	W    []int64   `json:"w"`
	Nilw bool      `json:"nilw"`
	Dr   int       `json:"dr"`
	Out  string    `json:"out"`
}

func (c *checker) marg(k *margRow) {
	// the contract does not depend on the representation of the data either
	for r := 0; r < nReps; r++ {
		c.margRep(k, r)
	}
}

func (c *checker) margRep(k *margRow, r int) {
	rx, ry := matReps(rowsOf(k.X), r)[r], matReps(rowsOf(k.Y), r+1)[(r+2)%nReps]
	x, y := rx.m, ry.m
	w := weights(k.W, k.Nilw)
	ctx := fmt.Sprintf("%s(X=%v as %s, Y=%v as %s, weights=%v, destination %dx%d)", k.F, k.X, rx.name, k.Y, ry.name, w, k.Dr, k.Dr)
	var dst *mat.SymDense
	if k.Dr > 0 {
		dst = mat.NewSymDense(k.Dr, nil)
	} else {
		dst = &mat.SymDense{}
	}
	var o core.Outcome
	switch k.F {
	case "CovarianceMatrix":
		o = core.Call(func() { gstat.CovarianceMatrix(dst, x, w) })
	case "CorrelationMatrix":
		o = core.Call(func() { gstat.CorrelationMatrix(dst, x, w) })
	case "PrincipalComponents":
		o = core.Call(func() { var pc gstat.PC; pc.PrincipalComponents(x, w) })
	case "CanonicalCorrelations":
		o = core.Call(func() { var cc gstat.CC; cc.CanonicalCorrelations(x, y, w) })
	case "PC.VarsTo.zero":
		o = core.Call(func() { var pc gstat.PC; pc.VarsTo(nil) })
	case "PC.VectorsTo.zero":
		o = core.Call(func() { var pc gstat.PC; pc.VectorsTo(&mat.Dense{}) })
	case "CC.CorrsTo.zero":
		o = core.Call(func() { var cc gstat.CC; cc.CorrsTo(nil) })
	case "CC.LeftTo.zero":
		o = core.Call(func() { var cc gstat.CC; cc.LeftTo(&mat.Dense{}, true) })
	case "CC.RightTo.zero":
		o = core.Call(func() { var cc gstat.CC; cc.RightTo(&mat.Dense{}, true) })
	default:
		c.fail("stat:harness:unknown-function", "unknown marg row "+k.F)
		return
	}
	c.outcome(k.F, repSfx(rx.name), ctx, k.Out, o)
}

// ---- family "maha": Mahalanobis distance for an exact SPD matrix ------------------

type mahaCase struct {
	S    [][]int64 `json:"S"`
	X    []int64   `json:"x"`
	Y    []int64   `json:"y"`
	Alts []ev      `json:"alts"`
	Tol  []num     `json:"tol"`
}

func (c *checker) maha(k *mahaCase) {
	// x and y are abstract vectors, Sigma an abstract symmetric matrix: every pairing of the vector
	// representations (reps.go) with, in turn, each representation of Sigma handed to Factorize
	syms := symReps(rowsOf(k.S))
	nx := len(vecReps(floats(k.X)))
	for i := 0; i < nx; i++ {
		for j := 0; j < nx; j++ {
			c.mahaRep(k, i, j, syms[(i+2*j)%len(syms)])
		}
	}
}

func (c *checker) mahaRep(k *mahaCase, ix, iy int, sym repSym) {
	// operand construction: the function takes the Cholesky factorization of the matrix
	var chol mat.Cholesky
	if ok := chol.Factorize(sym.s); !ok {
		panic(operandError(fmt.Sprintf("mat.Cholesky.Factorize rejected the positive definite matrix %v (as %s)", k.S, sym.name)))
	}
	rx, ry := vecReps(floats(k.X))[ix], vecReps(floats(k.Y))[iy]
	x, y := rx.v, ry.v
	sfx := ""
	if ix != 0 || iy != 0 || sym.name != "symdense" {
		sfx = ":rep=" + rx.name + "," + ry.name + "," + sym.name
	}
	ctx := fmt.Sprintf("Mahalanobis(x=%v as %s, y=%v as %s, chol(%v as %s))", k.X, rx.name, k.Y, ry.name, k.S, sym.name)
	c.sum.Count("vector_calls:"+rx.name+","+ry.name, 1)
	c.call("Mahalanobis", func() {
		got := gstat.Mahalanobis(x, y, &chol)
		c.sum.Count("values", 1)
		if bad := rx.intact() + ry.intact(); bad != "" {
			c.fail("stat:Mahalanobis:input-modified"+sfx, ctx+": "+bad)
		}
		lim := prodRat(k.Tol)
		for _, a := range k.Alts {
			if want, ok := evRat(a); ok && within(got, want, lim) {
				return
			}
		}
		c.fail("stat:Mahalanobis:value"+sfx, fmt.Sprintf("%s: got %.17g, specification says %s", ctx, got, altsString(k.Alts)))
	})
}

// multivariate dispatches the families of MultivariateGen.tla; it reports false
// for an unknown family.
func (c *checker) multivariate(fam string, nontrivial *bool, err *error) bool {
	switch fam {
	case "pca":
		var k pcaLine
		if *err = json.Unmarshal(c.line, &k); *err == nil {
			*nontrivial = c.pca(&k)
		}
	case "cca":
		var k ccaLine
		if *err = json.Unmarshal(c.line, &k); *err == nil {
			*nontrivial = c.cca(&k)
		}
	case "marg":
		var k margRow
		if *err = json.Unmarshal(c.line, &k); *err == nil {
			c.marg(&k)
		}
	case "maha":
		var k mahaCase
		if *err = json.Unmarshal(c.line, &k); *err == nil {
			c.maha(&k)
			*nontrivial = fmt.Sprint(k.X) != fmt.Sprint(k.Y)
		}
	case "call":
		var k callLine
		if *err = json.Unmarshal(c.line, &k); *err == nil {
			c.callFam(&k)
			*nontrivial = k.Nt
		}
	default:
		return false
	}
	return true
}
