package stat

import (
	"fmt"
	"math"
	"math/big"

	"gonum.org/v1/gonum/mat"
	gstat "gonum.org/v1/gonum/stat"
)

// affT is the exact dyadic affine map v -> 2^s v + 2^k c chosen by the
// specification (DescriptiveAff.tla).  A nil map is the identity.
type affT struct {
	S int64 `json:"s"`
	K int64 `json:"k"`
	C int64 `json:"c"`
}

// one maps a single value and panics if the result is not exactly
// representable: the specification only emits representable maps, so a rounded
// operand is a defect of the machinery, never of gonum.
func (t *affT) one(v int64) float64 {
	if t == nil {
		return float64(v)
	}
	f := math.Ldexp(float64(v), int(t.S)) + math.Ldexp(float64(t.C), int(t.K))
	exact := new(big.Rat).Add(factor([]int64{v, 1, t.S}), factor([]int64{t.C, 1, t.K}))
	if new(big.Rat).SetFloat64(f).Cmp(exact) != 0 {
		panic(operandError(fmt.Sprintf("2^%d*%d + 2^%d*%d is not a float64", t.S, v, t.K, t.C)))
	}
	return f
}

type operandError string

func (t *affT) apply(v []int64) []float64 {
	o := make([]float64, len(v))
	for i, a := range v {
		o[i] = t.one(a)
	}
	return o
}

// show prints mapped data as offset + small part.
func (t *affT) show(x []float64) string {
	if t == nil {
		return fmt.Sprint(x)
	}
	return fmt.Sprintf("2^%d*v+2^%d*%d=%v", t.S, t.K, t.C, x)
}

// ---- family "affmat" ----------------------------------------------------------

type affMatCase struct {
	T       *affT     `json:"t"`
	Cols    [][]int64 `json:"cols"`
	W       []int64   `json:"w"`
	Nilw    bool      `json:"nilw"`
	Cov     [][]ev    `json:"cov"`
	Covtol  ev        `json:"covtol"`
	Corr    [][]ev    `json:"corr"`
	Corrtol [][]ev    `json:"corrtol"`
}

func (c *checker) affMat(k *affMatCase) {
	n, m := len(k.Cols[0]), len(k.Cols)
	p := permFor(c.seed, c.line, n, 2)
	rows := make([][]float64, n)
	for i := range rows {
		rows[i] = make([]float64, m)
	}
	for j, col := range k.Cols {
		cp := permute(k.T.apply(col), p)
		for i := range cp {
			rows[i][j] = cp[i]
		}
	}
	w := permute(weights(k.W, k.Nilw), p)
	// the compact representation and one other (reps.go), drawn by the case
	reps := matReps(rows, p[0]+n)
	pick := 1 + int(permFor(c.seed, c.line, len(reps)-1, 5)[0])
	for _, rp := range []repMat{reps[0], reps[pick]} {
		ctx := fmt.Sprintf("columns 2^%d*v+2^%d*%d of %v, w=%v perm=%v data as %s", k.T.S, k.T.K, k.T.C, k.Cols, w, p, rp.name)
		sfx := repSfx(rp.name)
		check := func(name string, want [][]ev, lim func(i, j int) *big.Rat, f func(dst *mat.SymDense)) {
			if len(want) == 0 {
				c.sum.Count("outside_domain_not_checked", 1)
				return
			}
			var dst mat.SymDense
			c.sum.Count("matrix_calls:"+rp.name+"/dst=empty", 1)
			if !c.call(name, func() { f(&dst) }) {
				return
			}
			for i := 0; i < m; i++ {
				for j := 0; j < m; j++ {
					c.sum.Count("values", 1)
					got := dst.At(i, j)
					l := lim(i, j)
					if !want[i][j].matchesTol(got, l) {
						lf, _ := l.Float64()
						c.fail("stat:"+name+":value"+sfx, fmt.Sprintf("%s[%d][%d] %s: got %.17g, specification (pairwise scalar definition, affine equivariance) says %s (tolerance %.3g)",
							name, i, j, ctx, got, want[i][j].String(), lf))
					}
				}
			}
			if bad := rp.intact(); bad != "" {
				c.fail("stat:"+name+":input-modified"+sfx, fmt.Sprintf("%s %s: %s", name, ctx, bad))
			}
		}
		covlim := k.Covtol.inner()
		data := rp.m
		check("CovarianceMatrix", k.Cov, func(i, j int) *big.Rat { return covlim }, func(dst *mat.SymDense) { gstat.CovarianceMatrix(dst, data, w) })
		check("CorrelationMatrix", k.Corr, func(i, j int) *big.Rat { return k.Corrtol[i][j].inner() }, func(dst *mat.SymDense) { gstat.CorrelationMatrix(dst, data, w) })
	}
}

// ---- family "afford" ----------------------------------------------------------

type affOrdCase struct {
	T     *affT     `json:"t"`
	X     []int64   `json:"x"`
	W     []int64   `json:"w"`
	Nilw  bool      `json:"nilw"`
	Pgrid int64     `json:"pgrid"`
	Qe    [][]int64 `json:"qe"`
	Ql    []ev      `json:"ql"`
	Qltol ev        `json:"qltol"`
	Cdf   []struct {
		Q int64    `json:"q"`
		V [2]int64 `json:"v"`
	} `json:"cdf"`
	Hist []struct {
		D     []int64 `json:"d"`
		Count []int64 `json:"count"`
	} `json:"hist"`
}

func (c *checker) affOrd(k *affOrdCase) {
	x := k.T.apply(k.X)
	w := weights(k.W, k.Nilw)
	ctx := fmt.Sprintf("x=%s (small sample %v) w=%v", k.T.show(x), k.X, w)
	qllim := k.Qltol.inner()
	for j := range k.Qe {
		p := float64(j) / float64(k.Pgrid)
		c.call("Quantile", func() {
			got := gstat.Quantile(p, gstat.Empirical, x, w)
			c.sum.Count("values", 1)
			ok := false
			for _, v := range k.Qe[j] {
				if k.T.one(v) == got {
					ok = true
				}
			}
			if !ok {
				c.fail("stat:Quantile:empirical", fmt.Sprintf("Quantile(p=%v, Empirical) %s: got %.17g, specification says the image of %v", p, ctx, got, k.Qe[j]))
			}
		})
		c.call("Quantile", func() {
			got := gstat.Quantile(p, gstat.LinInterp, x, w)
			c.sum.Count("values", 1)
			if !k.Ql[j].matchesTol(got, qllim) {
				c.fail("stat:Quantile:lininterp", fmt.Sprintf("Quantile(p=%v, LinInterp) %s: got %.17g, specification says %s", p, ctx, got, k.Ql[j].String()))
			}
		})
	}
	for _, pr := range k.Cdf {
		q := k.T.one(pr.Q)
		c.call("CDF", func() {
			got := gstat.CDF(q, gstat.Empirical, x, w)
			c.sum.Count("values", 1)
			if !near(got, rat(pr.V), 1) {
				c.fail("stat:CDF:value", fmt.Sprintf("CDF(q=image of %d, Empirical) %s: got %.17g, specification says %s", pr.Q, ctx, got, rat(pr.V).RatString()))
			}
		})
	}
	for _, h := range k.Hist {
		d := k.T.apply(h.D)
		c.call("Histogram", func() {
			got := gstat.Histogram(nil, d, x, w)
			c.sum.Count("values", 1)
			ok := len(got) == len(h.Count)
			for i := 0; ok && i < len(got); i++ {
				ok = got[i] == float64(h.Count[i])
			}
			if !ok {
				c.fail("stat:Histogram:count", fmt.Sprintf("Histogram dividers=image of %v %s: got %v, specification says %v", h.D, ctx, got, h.Count))
			}
		})
	}
}
