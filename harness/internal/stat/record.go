package stat

import (
	"fmt"
	"math"
	"math/rand"
	"sort"
	"strconv"
	"strings"

	gstat "gonum.org/v1/gonum/stat"

	"gonum.org/v1/gonum/verifharness/internal/core"
)

// code->spec: seeded weighted integer samples of up to maxn entries (sizes TLC
// cannot enumerate) are run through gonum; the results that are integers, data
// values, or rationals with a known denominator are logged as integers and
// TLC recomputes them from the logged sample with the definitions of
// Descriptive.tla (DescriptiveTrace.tla).  Nothing is judged here: a result
// that cannot be written as an integer numerator over the known denominator
// is logged with ok=false and rejected by the trace specification.

type traceEv struct {
	Op   string  `json:"op"`
	X    []int64 `json:"x"`
	W    []int64 `json:"w"`
	Nilw bool    `json:"nilw"`
	OK   bool    `json:"ok"`   // every scaled result below was an integer (to 1e-6)
	Note string  `json:"note"` // which one was not
	// Quantile(k/16, Empirical), k = 0..16
	Qe []int64 `json:"qe"`
	// CDF(q, Empirical) * W for the probes cq2/2
	Cq2 []int64 `json:"cq2"`
	Cn  []int64 `json:"cn"`
	// Mean * W and PopVariance * W^2
	MeanW int64 `json:"meanw"`
	PvW2  int64 `json:"pvw2"`
	// Mode
	ModeV int64 `json:"modev"`
	ModeC int64 `json:"modec"`
	// Histogram(nil, hd, x, w)
	Hd []int64 `json:"hd"`
	Hc []int64 `json:"hc"`
	// TOC(cl, w)
	Cl     []int64 `json:"cl"`
	TocMin []int64 `json:"tocmin"`
	TocNtp []int64 `json:"tocntp"`
	TocMax []int64 `json:"tocmax"`
	// KolmogorovSmirnov(x, w, y, wy) * (W * Wy)
	Y    []int64 `json:"y"`
	Wy   []int64 `json:"wy"`
	Nily bool    `json:"nily"`
	Ksn  int64   `json:"ksn"`
	// SortWeighted on a shuffled copy: the rearranged data and weights
	Ux []int64 `json:"ux"`
	Uw []int64 `json:"uw"`
	Sx []int64 `json:"sx"`
	Sw []int64 `json:"sw"`
}

func ints(f []float64) []int64 {
	o := make([]int64, len(f))
	for i, v := range f {
		o[i] = int64(v)
	}
	return o
}

func genSample(r *rand.Rand, maxn int, zeroW bool) (x, w []int64, nilw bool) {
	n := 1 + r.Intn(maxn)
	if r.Intn(4) == 0 {
		n = 1 + r.Intn(6)
	}
	span := 1 + r.Intn(4) // few distinct values: many ties
	x = make([]int64, n)
	for i := range x {
		x[i] = int64(r.Intn(2*span+1) - span)
		if x[i] > 3 {
			x[i] = 3
		}
		if x[i] < -3 {
			x[i] = -3
		}
	}
	sort.Slice(x, func(i, j int) bool { return x[i] < x[j] })
	w = make([]int64, n)
	nilw = r.Intn(3) == 0
	tot := int64(0)
	for i := range w {
		if nilw {
			w[i] = 1
		} else if zeroW {
			w[i] = int64(r.Intn(4))
		} else {
			w[i] = int64(1 + r.Intn(3))
		}
		tot += w[i]
	}
	if tot == 0 {
		w[r.Intn(n)] = 2
	}
	return
}

func record(out *core.Out, args []string, seed int64, sum *core.Summary) error {
	samples, maxn := 16, 200
	for _, a := range args {
		if v, ok := strings.CutPrefix(a, "samples="); ok {
			samples, _ = strconv.Atoi(v)
		}
		if v, ok := strings.CutPrefix(a, "maxn="); ok {
			maxn, _ = strconv.Atoi(v)
		}
	}
	r := rand.New(rand.NewSource(seed*7919 + 17))
	for s := 0; s < samples; s++ {
		xi, wi, nilw := genSample(r, maxn, true)
		yi, wyi, nily := genSample(r, maxn, true)
		ev := traceEv{Op: "sample", X: xi, W: wi, Nilw: nilw, Y: yi, Wy: wyi, Nily: nily, OK: true}
		x, w := floats(xi), weights(wi, nilw)
		y, wy := floats(yi), weights(wyi, nily)
		var W, Wy int64
		for _, v := range wi {
			W += v
		}
		for _, v := range wyi {
			Wy += v
		}
		scaled := func(name string, v float64, den int64) int64 {
			t := v * float64(den)
			n := math.Round(t)
			if math.IsNaN(t) || math.Abs(t-n) > 1e-6 {
				ev.OK = false
				ev.Note += fmt.Sprintf("%s=%v is not k/%d; ", name, v, den)
			}
			return int64(n)
		}
		o := core.Call(func() {
			for k := 0; k <= 16; k++ {
				ev.Qe = append(ev.Qe, int64(gstat.Quantile(float64(k)/16, gstat.Empirical, x, w)))
			}
			for q2 := 2*xi[0] - 3; q2 <= 2*xi[len(xi)-1]+3; q2++ {
				ev.Cq2 = append(ev.Cq2, q2)
				ev.Cn = append(ev.Cn, scaled("CDF", gstat.CDF(float64(q2)/2, gstat.Empirical, x, w), W))
			}
			ev.MeanW = scaled("Mean", gstat.Mean(x, w), W)
			ev.PvW2 = scaled("PopVariance", gstat.PopVariance(x, w), W*W)
			mv, mc := gstat.Mode(x, w)
			ev.ModeV, ev.ModeC = int64(mv), int64(mc)
			// dividers: sorted integers covering the data
			nd := 2 + r.Intn(5)
			hd := make([]int64, nd)
			for i := range hd {
				hd[i] = int64(r.Intn(9) - 4)
			}
			sort.Slice(hd, func(i, j int) bool { return hd[i] < hd[j] })
			if hd[0] > xi[0] {
				hd[0] = xi[0]
			}
			if hd[nd-1] <= xi[len(xi)-1] {
				hd[nd-1] = xi[len(xi)-1] + 1
			}
			ev.Hd = hd
			ev.Hc = ints(gstat.Histogram(nil, floats(hd), x, w))
			cl := make([]bool, len(xi))
			ev.Cl = make([]int64, len(xi))
			for i := range cl {
				cl[i] = r.Intn(2) == 1
				if cl[i] {
					ev.Cl[i] = 1
				}
			}
			mn, ntp, mx := gstat.TOC(cl, w)
			ev.TocMin, ev.TocNtp, ev.TocMax = ints(mn), ints(ntp), ints(mx)
			ev.Ksn = scaled("KolmogorovSmirnov", gstat.KolmogorovSmirnov(x, w, y, wy), W*Wy)
			// SortWeighted on a shuffled copy with explicit weights
			p := r.Perm(len(xi))
			ux, uw := permute(floats(xi), p), permute(floats(wi), p)
			ev.Ux, ev.Uw = ints(ux), ints(uw)
			gstat.SortWeighted(ux, uw)
			ev.Sx, ev.Sw = ints(ux), ints(uw)
		})
		if o.Panicked {
			sum.Fail("stat:record:panic", "in-domain call panicked while recording: "+o.Text, ev)
			continue
		}
		out.Emit(ev)
		sum.Traces++
		sum.Count("entries", len(xi)+len(yi))
	}
	return nil
}

func init() {
	core.RegisterRecord("stat", record)
}
