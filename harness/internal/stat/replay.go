// Package stat binds specs/stat/Descriptive.tla to gonum's stat package.
//
// spec->code: every line of the ndjson file was printed by TLC from
// DescriptiveGen.tla and holds a weighted integer sample together with the
// expected value of each statistic, as an exact rational (or the square root
// of one).  The driver builds the float64 operands, calls gonum and compares
// with what the specification printed.  It contains no statistics of its own:
// the only arithmetic is decoding the specification's number format with
// math/big and the tolerance test.
package stat

import (
	"encoding/json"
	"fmt"
	"hash/fnv"
	"math"
	"math/big"
	"math/rand"
	"sort"

	gstat "gonum.org/v1/gonum/stat"

	"gonum.org/v1/gonum/verifharness/internal/core"
)

// tol is the relative tolerance c*n*eps with c = 2^16 and n = 8 (the largest
// sample replayed spec->code has 8 entries): 2^16 * 8 * 2^-52 = 2^-33.  It is
// multiplied by the magnitude scale "sc" the specification prints with each
// quantity (a power of the largest |data value|).
var tol = new(big.Rat).SetFrac(big.NewInt(1), new(big.Int).Lsh(big.NewInt(1), 33))

// ev is the specification's number format:
// value = sg * (sum_t prod_f terms[t][f]) ^ (1/root), factors are rationals [n, d].
// A factor is [n, d] or [n, d, e] = n/d * 2^e (the affine families).
type ev struct {
	Sg    int         `json:"sg"`
	Root  int         `json:"root"`
	Terms [][][]int64 `json:"terms"`
}

func factor(f []int64) *big.Rat {
	r := big.NewRat(f[0], f[1])
	if len(f) > 2 && f[2] != 0 {
		e := f[2]
		p := new(big.Int).Lsh(big.NewInt(1), uint(abs64(e)))
		if e > 0 {
			r.Mul(r, new(big.Rat).SetInt(p))
		} else {
			r.Quo(r, new(big.Rat).SetInt(p))
		}
	}
	return r
}

func abs64(a int64) int64 {
	if a < 0 {
		return -a
	}
	return a
}

func (e ev) inner() *big.Rat {
	s := new(big.Rat)
	for _, t := range e.Terms {
		p := big.NewRat(1, 1)
		for _, f := range t {
			p.Mul(p, factor(f))
		}
		s.Add(s, p)
	}
	return s
}

func (e ev) String() string {
	v := e.inner()
	f, _ := v.Float64()
	if e.Root == 2 {
		return fmt.Sprintf("%d*sqrt(%s)~%.17g", e.Sg, v.RatString(), float64(e.Sg)*math.Sqrt(f))
	}
	return fmt.Sprintf("%s~%.17g", v.RatString(), f)
}

func rat(q [2]int64) *big.Rat { return big.NewRat(q[0], q[1]) }

// near reports |got - want| <= tol*sc for an exact rational want.
func near(got float64, want *big.Rat, sc int64) bool {
	return within(got, want, new(big.Rat).Mul(tol, big.NewRat(sc, 1)))
}

// within reports |got - want| <= lim.
func within(got float64, want, lim *big.Rat) bool {
	if math.IsNaN(got) || math.IsInf(got, 0) {
		return false
	}
	g := new(big.Rat).SetFloat64(got)
	d := g.Sub(g, want)
	d.Abs(d)
	return d.Cmp(lim) <= 0
}

// matchesTol is matches with an explicit absolute tolerance printed by the specification.
func (e ev) matchesTol(got float64, lim *big.Rat) bool {
	v := e.inner()
	if e.Root == 1 {
		return within(got, v, lim)
	}
	if v.Sign() < 0 {
		return false
	}
	f, _ := v.Float64()
	return within(got, new(big.Rat).SetFloat64(float64(e.Sg)*math.Sqrt(f)), lim)
}

// matches reports whether got equals the ev within tol*sc.
func (e ev) matches(got float64, sc int64) bool {
	if sc < 1 {
		sc = 1
	}
	v := e.inner()
	if e.Root == 1 {
		return near(got, v, sc)
	}
	// sg * sqrt(v): v is converted to the nearest float64 and math.Sqrt is
	// correctly rounded, so the decoded value is within 1 ulp of the real one.
	if v.Sign() < 0 {
		return false
	}
	f, _ := v.Float64()
	want := new(big.Rat).SetFloat64(float64(e.Sg) * math.Sqrt(f))
	return near(got, want, sc)
}

func anyMatch(alts []ev, got float64, sc int64) bool {
	for _, a := range alts {
		if a.matches(got, sc) {
			return true
		}
	}
	return false
}

func altsString(alts []ev) string {
	s := ""
	for i, a := range alts {
		if i > 0 {
			s += " | "
		}
		s += a.String()
	}
	return s
}

type res struct {
	F    string  `json:"f"`
	A    []int64 `json:"a"`
	Alts []ev    `json:"alts"`
	Sc   int64   `json:"sc"`
	Tol  *ev     `json:"tol"` // affine families: absolute tolerance stated by the specification
}

func floats(v []int64) []float64 {
	f := make([]float64, len(v))
	for i, a := range v {
		f[i] = float64(a)
	}
	return f
}

func weights(w []int64, nilw bool) []float64 {
	if nilw {
		return nil
	}
	return floats(w)
}

// permFor returns a permutation of 0..n-1 determined by the seed and the bytes
// of the case, so that a case replayed alone sees the same permutation.
func permFor(seed int64, line []byte, n int, salt int64) []int {
	h := fnv.New64a()
	h.Write(line)
	r := rand.New(rand.NewSource(seed ^ int64(h.Sum64()) ^ salt))
	return r.Perm(n)
}

func permute(v []float64, p []int) []float64 {
	if v == nil {
		return nil
	}
	o := make([]float64, len(v))
	for i, j := range p {
		o[i] = v[j]
	}
	return o
}

type checker struct {
	sum  *core.Summary
	line []byte
	seed int64
}

func (c *checker) fail(sig, msg string) {
	c.sum.Fail(sig, msg, json.RawMessage(append([]byte(nil), c.line...)))
}

// call runs f under recover; a panic on an in-domain input is a failure.
func (c *checker) call(name string, f func()) bool {
	o := core.Call(f)
	if oe, ok := o.Val.(operandError); ok {
		panic(oe) // the operand builder failed, not gonum: abort the run (exit 2)
	}
	if o.Panicked {
		c.fail("stat:"+name+":panic", "in-domain call panicked: "+o.Text)
		return false
	}
	return true
}

// margin records, per quantity, the largest observed |got - expected| / tolerance of the affine
// families (reported in the evidence so that the slack of the stated tolerances is visible).
func (c *checker) margin(name string, got float64, a ev, lim *big.Rat) {
	if lim.Sign() == 0 {
		return
	}
	v := a.inner()
	if a.Root == 2 {
		f, _ := v.Float64()
		v = new(big.Rat).SetFloat64(float64(a.Sg) * math.Sqrt(f))
	}
	d := new(big.Rat).SetFloat64(got)
	d.Sub(d, v)
	d.Abs(d)
	r, _ := d.Quo(d, lim).Float64()
	key := "max_err_over_tol_" + name
	if c.sum.Extra == nil {
		c.sum.Extra = map[string]any{}
	}
	if old, _ := c.sum.Extra[key].(float64); r > old {
		c.sum.Extra[key] = r
	}
}

// value compares one float result with the expectation.
func (c *checker) value(name, variant string, got float64, r res, ctx string) {
	c.sum.Count("values", 1)
	if len(r.Alts) == 0 {
		return
	}
	if r.Tol != nil {
		lim := r.Tol.inner()
		for _, a := range r.Alts {
			if a.matchesTol(got, lim) {
				c.margin(name, got, a, lim)
				return
			}
		}
		lf, _ := lim.Float64()
		c.fail("stat:"+name+":value", fmt.Sprintf("%s%v %s: got %.17g, specification says %s (tolerance %.3g)",
			variant, r.A, ctx, got, altsString(r.Alts), lf))
		return
	}
	if !anyMatch(r.Alts, got, r.Sc) {
		c.fail("stat:"+name+":value", fmt.Sprintf("%s%v %s: got %.17g, specification says %s (tolerance 2^-33*%d)",
			variant, r.A, ctx, got, altsString(r.Alts), r.Sc))
	}
}

// ---- family "uni" -----------------------------------------------------------

type uniCase struct {
	T      *affT   `json:"t"`
	X      []int64 `json:"x"`
	W      []int64 `json:"w"`
	Nilw   bool    `json:"nilw"`
	Res    []res   `json:"res"`
	Modes  []int64 `json:"modes"`
	Mcount int64   `json:"mcount"`
}

func (c *checker) uni(k *uniCase) {
	// joint permutation of data and weights: the specification's definitions are
	// permutation invariant (theorem PermInvariant, checked by TLC), so the
	// expected values printed for the sorted sample apply.
	p := permFor(c.seed, c.line, len(k.X), 0)
	x := permute(k.T.apply(k.X), p)
	w := permute(weights(k.W, k.Nilw), p)
	ctx := fmt.Sprintf("x=%v w=%v", x, w)
	if k.T != nil {
		ctx = fmt.Sprintf("x=%s (small sample %v) w=%v", k.T.show(x), k.X, w)
	}
	undef := 0
	for _, r := range k.Res {
		if len(r.Alts) == 0 {
			undef++
			continue
		}
		switch r.F {
		case "Mean":
			c.call("Mean", func() { c.value("Mean", "Mean", gstat.Mean(x, w), r, ctx) })
			c.call("PopMeanVariance", func() { m, _ := gstat.PopMeanVariance(x, w); c.value("Mean", "PopMeanVariance[0]", m, r, ctx) })
			c.call("PopMeanStdDev", func() { m, _ := gstat.PopMeanStdDev(x, w); c.value("Mean", "PopMeanStdDev[0]", m, r, ctx) })
			c.call("MeanVariance", func() { m, _ := gstat.MeanVariance(x, w); c.value("Mean", "MeanVariance[0]", m, r, ctx) })
			c.call("MeanStdDev", func() { m, _ := gstat.MeanStdDev(x, w); c.value("Mean", "MeanStdDev[0]", m, r, ctx) })
		case "PopVariance":
			c.call("PopVariance", func() { c.value("PopVariance", "PopVariance", gstat.PopVariance(x, w), r, ctx) })
			c.call("PopMeanVariance", func() { _, v := gstat.PopMeanVariance(x, w); c.value("PopVariance", "PopMeanVariance[1]", v, r, ctx) })
		case "PopStdDev":
			c.call("PopStdDev", func() { c.value("PopStdDev", "PopStdDev", gstat.PopStdDev(x, w), r, ctx) })
			c.call("PopMeanStdDev", func() { _, v := gstat.PopMeanStdDev(x, w); c.value("PopStdDev", "PopMeanStdDev[1]", v, r, ctx) })
		case "Variance":
			c.call("Variance", func() { c.value("Variance", "Variance", gstat.Variance(x, w), r, ctx) })
			c.call("MeanVariance", func() { _, v := gstat.MeanVariance(x, w); c.value("Variance", "MeanVariance[1]", v, r, ctx) })
		case "StdDev":
			c.call("StdDev", func() { c.value("StdDev", "StdDev", gstat.StdDev(x, w), r, ctx) })
			c.call("MeanStdDev", func() { _, v := gstat.MeanStdDev(x, w); c.value("StdDev", "MeanStdDev[1]", v, r, ctx) })
		case "Moment":
			c.call("Moment", func() { c.value("Moment", "Moment", gstat.Moment(float64(r.A[0]), x, w), r, ctx) })
		case "MomentAbout":
			c.call("MomentAbout", func() {
				c.value("MomentAbout", "MomentAbout", gstat.MomentAbout(float64(r.A[0]), x, k.T.apply(r.A[1:2])[0], w), r, ctx)
			})
		case "Skew":
			c.call("Skew", func() { c.value("Skew", "Skew", gstat.Skew(x, w), r, ctx) })
		case "ExKurtosis":
			c.call("ExKurtosis", func() { c.value("ExKurtosis", "ExKurtosis", gstat.ExKurtosis(x, w), r, ctx) })
		default:
			c.fail("stat:harness:unknown-quantity", "unknown quantity "+r.F)
		}
	}
	c.sum.Count("outside_domain_not_checked", undef)
	if k.T != nil {
		return
	}
	// Mode: any value of maximal weight is legal; the count is exact (integer weights).
	c.call("Mode", func() {
		v, cnt := gstat.Mode(x, w)
		c.sum.Count("values", 1)
		ok := false
		for _, m := range k.Modes {
			if float64(m) == v {
				ok = true
			}
		}
		if !ok || cnt != float64(k.Mcount) {
			c.fail("stat:Mode:value", fmt.Sprintf("Mode %s: got (%v, %v), specification says value in %v with count %d", ctx, v, cnt, k.Modes, k.Mcount))
		}
	})
}

// ---- family "ord" -----------------------------------------------------------

type ordCase struct {
	X     []int64    `json:"x"`
	W     []int64    `json:"w"`
	Nilw  bool       `json:"nilw"`
	Pgrid int64      `json:"pgrid"`
	Sc    int64      `json:"sc"`
	Qe    [][]int64  `json:"qe"`
	Ql    [][2]int64 `json:"ql"`
	Cdf   []struct {
		Q2 int64    `json:"q2"`
		V  [2]int64 `json:"v"`
	} `json:"cdf"`
}

func (c *checker) ord(k *ordCase) {
	x := floats(k.X)
	w := weights(k.W, k.Nilw)
	ctx := fmt.Sprintf("x=%v w=%v", x, w)
	for j := range k.Qe {
		p := float64(j) / float64(k.Pgrid) // exact: Pgrid is a power of two
		c.call("Quantile", func() {
			got := gstat.Quantile(p, gstat.Empirical, x, w)
			c.sum.Count("values", 1)
			ok := false
			for _, v := range k.Qe[j] {
				if float64(v) == got {
					ok = true
				}
			}
			if !ok {
				c.fail("stat:Quantile:empirical", fmt.Sprintf("Quantile(p=%v, Empirical) %s: got %v, specification says %v", p, ctx, got, k.Qe[j]))
			}
		})
		c.call("Quantile", func() {
			got := gstat.Quantile(p, gstat.LinInterp, x, w)
			c.sum.Count("values", 1)
			if !near(got, rat(k.Ql[j]), k.Sc) {
				c.fail("stat:Quantile:lininterp", fmt.Sprintf("Quantile(p=%v, LinInterp) %s: got %.17g, specification says %s", p, ctx, got, rat(k.Ql[j]).RatString()))
			}
		})
	}
	for _, pr := range k.Cdf {
		q := float64(pr.Q2) / 2
		c.call("CDF", func() {
			got := gstat.CDF(q, gstat.Empirical, x, w)
			c.sum.Count("values", 1)
			if !near(got, rat(pr.V), 1) {
				c.fail("stat:CDF:value", fmt.Sprintf("CDF(q=%v, Empirical) %s: got %.17g, specification says %s", q, ctx, got, rat(pr.V).RatString()))
			}
		})
	}
}

// ---- family "hist" ----------------------------------------------------------

type histCase struct {
	X     []int64 `json:"x"`
	W     []int64 `json:"w"`
	Nilw  bool    `json:"nilw"`
	D     []int64 `json:"d"`
	Out   string  `json:"out"`
	Count []int64 `json:"count"`
	Total int64   `json:"total"`
}

func (c *checker) hist(k *histCase) {
	x := floats(k.X)
	w := weights(k.W, k.Nilw)
	d := floats(k.D)
	ctx := fmt.Sprintf("dividers=%v x=%v w=%v", d, x, w)
	for variant := 0; variant < 2; variant++ {
		var count []float64
		if variant == 1 {
			count = make([]float64, len(d)-1)
			for i := range count {
				count[i] = 7 // stale content must be overwritten
			}
		}
		var got []float64
		o := core.Call(func() { got = gstat.Histogram(count, d, x, w) })
		c.sum.Count("values", 1)
		switch {
		case o.Runtime:
			c.fail("stat:Histogram:runtime-panic", fmt.Sprintf("Histogram %s: runtime error %s", ctx, o.Text))
		case k.Out == "panic" && !o.Panicked:
			c.fail("stat:Histogram:no-panic", fmt.Sprintf("Histogram %s: inputs violate the documented conditions but the call returned %v", ctx, got))
		case k.Out == "ok" && o.Panicked:
			c.fail("stat:Histogram:panic", fmt.Sprintf("Histogram %s: in-domain call panicked: %s", ctx, o.Text))
		case k.Out == "ok":
			ok := len(got) == len(k.Count)
			for i := 0; ok && i < len(got); i++ {
				ok = got[i] == float64(k.Count[i])
			}
			if !ok {
				c.fail("stat:Histogram:count", fmt.Sprintf("Histogram %s: got %v, specification says %v", ctx, got, k.Count))
			}
			if variant == 1 && len(got) > 0 && &got[0] != &count[0] {
				c.fail("stat:Histogram:count-not-reused", "Histogram did not store into the provided count slice: "+ctx)
			}
		}
	}
}

// ---- family "ks" ------------------------------------------------------------

type ksCase struct {
	X    []int64  `json:"x"`
	Wx   []int64  `json:"wx"`
	Nilx bool     `json:"nilx"`
	Y    []int64  `json:"y"`
	Wy   []int64  `json:"wy"`
	Nily bool     `json:"nily"`
	Ks   [2]int64 `json:"ks"`
}

func (c *checker) ks(k *ksCase) {
	x, y := floats(k.X), floats(k.Y)
	wx, wy := weights(k.Wx, k.Nilx), weights(k.Wy, k.Nily)
	c.call("KolmogorovSmirnov", func() {
		got := gstat.KolmogorovSmirnov(x, wx, y, wy)
		c.sum.Count("values", 1)
		if !near(got, rat(k.Ks), 1) {
			c.fail("stat:KolmogorovSmirnov:value", fmt.Sprintf("KolmogorovSmirnov x=%v wx=%v y=%v wy=%v: got %.17g, specification says %s",
				x, wx, y, wy, got, rat(k.Ks).RatString()))
		}
	})
}

// ---- driver -----------------------------------------------------------------

func replay(in *core.Lines, args []string, seed int64, sum *core.Summary) error {
	for {
		line, ok := in.Next()
		if !ok {
			break
		}
		var head struct {
			Fam string `json:"fam"`
		}
		if err := json.Unmarshal(line, &head); err != nil {
			return fmt.Errorf("line %d: %v", in.N, err)
		}
		c := &checker{sum: sum, line: line, seed: seed}
		before := len(sum.Failures)
		var err error
		nontrivial := true
		switch head.Fam {
		case "uni", "affuni":
			var k uniCase
			if err = json.Unmarshal(line, &k); err == nil {
				c.uni(&k)
				nontrivial = distinct(k.X) > 1
			}
		case "ord":
			var k ordCase
			if err = json.Unmarshal(line, &k); err == nil {
				c.ord(&k)
				nontrivial = distinct(k.X) > 1
			}
		case "hist":
			var k histCase
			if err = json.Unmarshal(line, &k); err == nil {
				c.hist(&k)
				nontrivial = k.Out == "panic" || len(k.X) > 1
			}
		case "ks":
			var k ksCase
			if err = json.Unmarshal(line, &k); err == nil {
				c.ks(&k)
				nontrivial = k.Ks[0] != 0
			}
		default:
			if !c.more(head.Fam, &nontrivial, &err) {
				return fmt.Errorf("line %d: unknown family %q", in.N, head.Fam)
			}
		}
		if err != nil {
			return fmt.Errorf("line %d: %v", in.N, err)
		}
		sum.Cases++
		if nontrivial {
			sum.Nontrivial++
		}
		sum.Count("fam_"+head.Fam, 1)
		if len(sum.Failures) == before && sum.Cases%997 == 1 {
			sum.Sample(json.RawMessage(append([]byte(nil), line...)))
		}
	}
	return nil
}

func distinct(v []int64) int {
	s := append([]int64(nil), v...)
	sort.Slice(s, func(i, j int) bool { return s[i] < s[j] })
	n := 0
	for i := range s {
		if i == 0 || s[i] != s[i-1] {
			n++
		}
	}
	return n
}

func init() {
	core.RegisterReplay("stat", replay)
}
