package spatial

import (
	"math"
	"math/rand/v2"

	"gonum.org/v1/gonum/spatial/kdtree"
	"gonum.org/v1/gonum/spatial/vptree"

	"gonum.org/v1/gonum/verifharness/internal/core"
)

func init() {
	core.RegisterRecord("spatial-trace", recordIndexTrace)
}

type tNode struct {
	HasBox bool    `json:"hasbox"`
	Lo     []int   `json:"lo"`
	Hi     []int   `json:"hi"`
	Sub    [][]int `json:"sub"`
}

type tEvent struct {
	Ev       string  `json:"ev"`
	Pts      [][]int `json:"pts"`
	P        []int   `json:"p"`
	Bounding bool    `json:"bounding"`
	Bounded  bool    `json:"bounded"`
	Cb       bool    `json:"cb"` // build: the collection is a kdtree.Bounder
	Ee       bool    `json:"ee"` // build, insert: the elements are kdtree.Extenders
	Len      int     `json:"len"`
	Impl     string  `json:"impl"`
	Kind     string  `json:"kind"`
	Q        []int   `json:"q"`
	K        int     `json:"k"`
	R        int     `json:"r"`
	Res      any     `json:"res"` // [][]int for query, bool for contains
	Cd       []int   `json:"cd"`
	Nodes    []tNode `json:"nodes"`
	Lo       []int   `json:"lo"`      // dobounded: the closed query box
	Hi       []int   `json:"hi"`      //
	Stopped  bool    `json:"stopped"` // dobounded: the value DoBounded returned
}

func blank(ev string) tEvent {
	return tEvent{Ev: ev, Pts: [][]int{}, P: []int{}, Q: []int{}, Res: [][]int{}, Cd: []int{}, Nodes: []tNode{}, Lo: []int{}, Hi: []int{}}
}

// traceFar: the trace being recorded uses the far coordinate codes of SpatialIndex.tla (Far = TRUE; one
// recording per process).  The log then holds CODES: a coordinate code a stands for a (|a| <= 8),
// sgn(a)(|a|-8) 2^500 (9..15), sgn(a)(|a|-16) 2^600 (17..23); a squared distance v, v 2^1000 or +Inf is
// logged as v, 4096 + v, 8192.  The functions below only translate between codes and float64 values.
var traceFar bool

var traceCoder = coder{far: []int{0, 500, 600}, db: 4096}

func toInts(f []float64) []int {
	r := make([]int, len(f))
	for i, v := range f {
		if traceFar {
			r[i] = coordCode(v)
		} else {
			r[i] = int(v)
		}
	}
	return r
}

// coordCode is the inverse of coder.coord on the values that have a code.
func coordCode(v float64) int {
	a, sg := math.Abs(v), 1
	if v < 0 {
		sg = -1
	}
	if a <= 8 && a == math.Trunc(a) {
		return int(v)
	}
	for lev, base := range []int{0, 8, 16} {
		if lev == 0 {
			continue
		}
		m := math.Ldexp(a, -traceCoder.far[lev])
		if m == math.Trunc(m) && m >= 1 && m <= 7 {
			return sg * (base + int(m))
		}
	}
	panic("harness: a coordinate without a far code came back from the tree")
}

func toFloats(c []int) []float64 { return []float64(toPoint(c)) }

func toPoint(c []int) kdtree.Point {
	p := make(kdtree.Point, len(c))
	for i, v := range c {
		if traceFar {
			p[i] = traceCoder.coord(int64(v))
		} else {
			p[i] = float64(v)
		}
	}
	return p
}

// exactInt converts a distance reported by kdtree to an integer; a value that
// is not an exact small integer is logged as -1 (no lattice distance is negative).
// With far codes: v < 4096 -> v, v 2^1000 -> 4096 + v, +Inf -> 8192, anything else -1.
func exactInt(d float64) int {
	if traceFar {
		db := float64(traceCoder.db)
		switch {
		case math.IsInf(d, 1):
			return int(2 * traceCoder.db)
		case d >= 0 && d < db && d == math.Trunc(d):
			return int(d)
		}
		m := math.Ldexp(d, -2*traceCoder.far[1])
		if m == math.Trunc(m) && m >= 1 && m < db {
			return int(traceCoder.db) + int(m)
		}
		return -1
	}
	if d != math.Trunc(d) || d < 0 || d > 1e9 {
		return -1
	}
	return int(d)
}

// radius2 decodes a logged squared radius.
func radius2(r2 int) float64 {
	if traceFar {
		return traceCoder.dist2(int64(r2))
	}
	return float64(r2)
}

// recordIndexTrace: args runs=N maxn=N queries=N
// Seeded random histories on integer lattices (stored points on even
// coordinates, so that queries can lie between them; small ranges force
// duplicates and ties): bulk construction, insertions, and after each phase
// queries answered by the live k-d tree and by a vp-tree built from the same bag.
// The k-d trees are built over kdtree.Points and over the user types of index.go
// (Extender or plain Comparable elements, collections that are or are not
// Bounders); the vp-tree over vptree.Point or the user type vpt.
func recordIndexTrace(out *core.Out, args []string, seed int64, sum *core.Summary) error {
	am := argMap(args)
	runs := atoi(am["runs"], 6)
	maxn := atoi(am["maxn"], 2000)
	nq := atoi(am["queries"], 12)
	boxOnly := am["boxes"] == "only" // only build / insert / dobounded events (kdtree.DoBounded), else none of the latter
	// far=1: far coordinate codes (SpatialIndex.tla, Far = TRUE).  Runs alternate between "all coordinates finite
	// multiples of 1 and 2^500" (every distance finite: the vp-tree takes part) and "some coordinates +-2^600"
	// (squared distances overflow to +Inf: k-d tree only, the vp-tree's documentation excludes such point sets).
	traceFar = am["far"] == "1"
	rng := rand.New(rand.NewPCG(uint64(seed), 77+uint64(len(am["salt"]))*1000+uint64(atoi(am["runs"], 0))))
	if am["salt"] == "b" {
		rng = rand.New(rand.NewPCG(uint64(seed)+0x9e3779b9, 78))
	}
	kinds := []string{"kd-points", "kd-plain", "kd-custom", "kd-plain-nb", "kd-ext-nb"}
	koff := rng.IntN(len(kinds))
	for run := 0; run < runs; run++ {
		kk := kdKinds[kinds[(run+koff)%len(kinds)]]
		vk := vpKinds[[]string{"vp", "vp-custom"}[(run+koff)%2]]
		sum.Count("runs_"+kinds[(run+koff)%len(kinds)], 1)
		dim := 1 + run%6
		span := []int{2, 4, 15, 40}[rng.IntN(4)] // coordinates 0,2,..,2*span
		maxLev := 1 + run%2
		if traceFar {
			span = []int{1, 2, 3}[rng.IntN(3)] // level 0 coordinates 0,2,..,2*span <= 6, queries -1..7
		}
		// one coordinate code of a far level (1: +-1..3 times 2^500, 2: +-1..2 times 2^600)
		farCoord := func() int {
			sg := 1 - 2*rng.IntN(2)
			if maxLev == 2 && rng.IntN(3) == 0 {
				return sg * (17 + rng.IntN(2))
			}
			return sg * (9 + rng.IntN(3))
		}
		sizes := []int{0, 1, 2, 7, 60, 400, maxn}
		nb := sizes[rng.IntN(len(sizes))]
		if run == 0 {
			nb = maxn
		}
		ni := []int{0, 3, 40, 150}[rng.IntN(4)]
		if nb >= 400 && ni > 40 {
			ni = 40
		}
		if kk.cb && !kk.ee && nb == 0 {
			nb = 7
		}
		randPt := func() []int {
			p := make([]int, dim)
			for i := range p {
				p[i] = 2 * rng.IntN(span+1)
				if traceFar && rng.IntN(3) == 0 {
					p[i] = farCoord()
				}
			}
			return p
		}
		var bag [][]int
		out.Emit(blank("reset"))
		pts := make([][]int, nb)
		fp := make([][]float64, nb)
		for i := range pts {
			pts[i] = randPt()
			fp[i] = toFloats(pts[i])
		}
		bag = append(bag, pts...)
		bb := rng.IntN(2) == 0
		if kk.cb && !kk.ee && nb > 0 {
			// plain Comparables in a Bounder collection: mostly the history that leaves
			// volumes behind (bulk construction with volumes, then insertions)
			bb = rng.IntN(4) != 0
			if ni == 0 {
				ni = 40
			}
			if bb {
				sum.Count("histories_leaving_stale_volumes", 1)
			}
		}
		ev := blank("build")
		ev.Pts = pts
		if pts == nil {
			ev.Pts = [][]int{}
		}
		ev.Bounding, ev.Cb, ev.Ee = bb, kk.cb, kk.ee
		t := kdtree.New(kk.list(fp), bb)
		ev.Len = t.Len()
		ev.Bounded = t.Root != nil && t.Root.Bounding != nil
		out.Emit(ev)
		queries := func() {
			if boxOnly {
				boxQueries(out, sum, rng, kk, t, bag, dim, span, nq)
				return
			}
			// a vp-tree of the same bag
			withVp := !traceFar || maxLev == 1
			var vt *vptree.Tree
			if withVp {
				vs := make([]vptree.Comparable, len(bag))
				for i, p := range bag {
					vs[i] = vk.point(toFloats(p), i)
				}
				var err error
				vt, err = vptree.New(vs, []int{0, 3, 10}[rng.IntN(3)], rand.NewPCG(uint64(seed), uint64(run)))
				if err != nil {
					sum.Fail("spatial:vptree.New:error", err.Error(), nil)
					return
				}
			}
			for i := 0; i < nq; i++ {
				var q []int
				switch rng.IntN(4) {
				case 0: // on a stored point
					if len(bag) > 0 {
						q = append([]int(nil), bag[rng.IntN(len(bag))]...)
					} else {
						q = randPt()
					}
				case 1: // between lattice points / just outside
					q = make([]int, dim)
					for j := range q {
						q[j] = rng.IntN(2*span+3) - 1
					}
				case 2: // far
					q = make([]int, dim)
					for j := range q {
						q[j] = []int{-300, 500}[rng.IntN(2)]
						if traceFar {
							q[j] = farCoord()
						}
					}
					q[rng.IntN(dim)] = rng.IntN(2*span + 1)
				default:
					q = randPt()
				}
				qp := kk.point(toFloats(q), -1)
				k := []int{1, 2, 3, 10, 50}[rng.IntN(5)]
				r2 := []int{0, 1, 4, 5, 8, 16, 36}[rng.IntN(7)]
				if traceFar && rng.IntN(2) == 0 {
					// 2^1000, 4 2^1000, 5 2^1000, 9 2^1000, +Inf
					r2 = []int{4096 + 1, 4096 + 4, 4096 + 5, 4096 + 9, 8192}[rng.IntN(5)]
				}
				// kdtree
				{
					e := blank("query")
					e.Impl, e.Kind, e.Q = "kd", "nearest", q
					p, d := t.Nearest(qp)
					if p != nil {
						e.Res = [][]int{toInts(kk.coords(p))}
						e.Cd = []int{exactInt(d)}
					}
					out.Emit(e)
					e = blank("query")
					e.Impl, e.Kind, e.Q, e.K = "kd", "knn", q, k
					nk := kdtree.NewNKeeper(k)
					t.NearestSet(nk, qp)
					e.Res, e.Cd = kdRes(kk, nk.Heap)
					out.Emit(e)
					e = blank("query")
					e.Impl, e.Kind, e.Q, e.R = "kd", "within", q, r2
					dk := kdtree.NewDistKeeper(radius2(r2))
					t.NearestSet(dk, qp)
					e.Res, e.Cd = kdRes(kk, dk.Heap)
					out.Emit(e)
					c := blank("contains")
					c.Q = q
					c.Res = t.Contains(qp)
					out.Emit(c)
				}
				// vptree (distances are Euclidean there; only the returned points are logged)
				if withVp {
					vq := vk.point(toFloats(q), -1)
					e := blank("query")
					e.Impl, e.Kind, e.Q = "vp", "nearest", q
					p, _ := vt.Nearest(vq)
					if p != nil {
						e.Res = [][]int{toInts(vk.coords(p))}
					}
					out.Emit(e)
					e = blank("query")
					e.Impl, e.Kind, e.Q, e.K = "vp", "knn", q, k
					nk := vptree.NewNKeeper(k)
					vt.NearestSet(nk, vq)
					e.Res = vpRes(vk, nk.Heap)
					out.Emit(e)
					if isSquare(r2 % 4096) {
						// integer radius: exact in floating point (the inexact-radius
						// boundary behaviour of vptree is judged in the spec->code direction)
						e = blank("query")
						e.Impl, e.Kind, e.Q, e.R = "vp", "within", q, r2
						dk := vptree.NewDistKeeper(math.Sqrt(radius2(r2)))
						vt.NearestSet(dk, vq)
						e.Res = vpRes(vk, dk.Heap)
						out.Emit(e)
					}
				}
				sum.Count("queries", 7)
			}
			if len(bag) <= 300 {
				e := blank("tree")
				e.Nodes = dumpTree(kk, t.Root)
				out.Emit(e)
				sum.Count("tree_dumps", 1)
			}
		}
		queries()
		for i := 0; i < ni; i++ {
			p := randPt()
			if rng.IntN(5) == 0 && len(bag) > 0 {
				p = append([]int(nil), bag[rng.IntN(len(bag))]...) // duplicate
			}
			ib := rng.IntN(2) == 0
			e := blank("insert")
			e.P, e.Bounding, e.Ee = p, ib, kk.ee
			t.Insert(kk.point(toFloats(p), 1000+i), ib)
			bag = append(bag, p)
			e.Len = t.Len()
			e.Bounded = t.Root != nil && t.Root.Bounding != nil
			out.Emit(e)
			if i%16 == 15 || i == ni-1 {
				queries()
			}
		}
		sum.Traces++
	}
	return nil
}

// boxQueries logs what kdtree.DoBounded visits for nq closed boxes whose faces lie on
// stored coordinates (ties on the splitting planes), between and outside them.
func boxQueries(out *core.Out, sum *core.Summary, rng *rand.Rand, kk *kdKind, t *kdtree.Tree, bag [][]int, dim, span, nq int) {
	for i := 0; i < nq; i++ {
		lo, hi := make([]int, dim), make([]int, dim)
		for j := range lo {
			a, b := rng.IntN(2*span+3)-1, rng.IntN(2*span+3)-1
			if len(bag) > 0 && rng.IntN(2) == 0 {
				a = bag[rng.IntN(len(bag))][j]
			}
			if len(bag) > 0 && rng.IntN(2) == 0 {
				b = bag[rng.IntN(len(bag))][j]
			}
			if rng.IntN(6) == 0 {
				a, b = -1, 2*span+1
			}
			if a > b {
				a, b = b, a
			}
			lo[j], hi[j] = a, b
		}
		e := blank("dobounded")
		e.Lo, e.Hi = lo, hi
		res := [][]int{}
		e.Stopped = t.DoBounded(&kdtree.Bounding{Min: kk.point(toFloats(lo), -2), Max: kk.point(toFloats(hi), -3)}, func(c kdtree.Comparable, _ *kdtree.Bounding, _ int) bool {
			res = append(res, toInts(kk.coords(c)))
			return false
		})
		e.Res = res
		out.Emit(e)
		sum.Count("box_queries", 1)
	}
}

func isSquare(n int) bool {
	for m := 0; m*m <= n; m++ {
		if m*m == n {
			return true
		}
	}
	return false
}

func kdRes(kk *kdKind, h kdtree.Heap) ([][]int, []int) {
	res, cd := [][]int{}, []int{}
	for _, e := range h {
		if e.Comparable == nil {
			res = append(res, []int{})
			cd = append(cd, -1)
			continue
		}
		res = append(res, toInts(kk.coords(e.Comparable)))
		cd = append(cd, exactInt(e.Dist))
	}
	return res, cd
}

func vpRes(vk *vpKind, h vptree.Heap) [][]int {
	res := [][]int{}
	for _, e := range h {
		if e.Comparable == nil {
			res = append(res, []int{})
			continue
		}
		res = append(res, toInts(vk.coords(e.Comparable)))
	}
	return res
}

// dumpTree lists every node (root first) with its bounding box and the points
// of its subtree.
func dumpTree(kk *kdKind, n *kdtree.Node) []tNode {
	var nodes []tNode
	var walk func(n *kdtree.Node) [][]int
	walk = func(n *kdtree.Node) [][]int {
		if n == nil {
			return nil
		}
		idx := len(nodes)
		nodes = append(nodes, tNode{Lo: []int{}, Hi: []int{}})
		sub := [][]int{toInts(kk.coords(n.Point))}
		sub = append(sub, walk(n.Left)...)
		sub = append(sub, walk(n.Right)...)
		nd := tNode{Lo: []int{}, Hi: []int{}, Sub: sub}
		if n.Bounding != nil {
			nd.HasBox = true
			nd.Lo = toInts(kk.coords(n.Bounding.Min))
			nd.Hi = toInts(kk.coords(n.Bounding.Max))
		}
		nodes[idx] = nd
		return sub
	}
	walk(n)
	if nodes == nil {
		nodes = []tNode{}
	}
	return nodes
}
