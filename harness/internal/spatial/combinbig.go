package spatial

import (
	"encoding/json"
	"fmt"
	"math"

	"gonum.org/v1/gonum/stat/combin"

	"gonum.org/v1/gonum/verifharness/internal/core"
)

func init() {
	core.RegisterReplay("combin-big", replayCombinBig)
}

// Records printed by CombinBig.tla. Values beyond 32 bits are sequences of
// base-2^15 digits, least significant first (the module's own arithmetic);
// decoding them is the only thing this file does with numbers.

type bigCase struct {
	Why string `json:"why"`
	P   []int  `json:"p"`
	Idx []int  `json:"idx"`
}

type bigBinomEntry struct {
	Fits bool  `json:"fits"`
	Safe bool  `json:"safe"`
	V    []int `json:"v"`
}

type genCase struct {
	Why string `json:"why,omitempty"`
	N2  int    `json:"n2"` // twice the argument
	K2  int    `json:"k2"`
}

type bigRec struct {
	K     string          `json:"k"` // bigbinom | bignperm | bigperm | bigcomb | bigcart | genbinom
	N     int             `json:"n"`
	KK    int             `json:"kk"`
	Count []int           `json:"count"`
	Row   json.RawMessage `json:"row,omitempty"`
	Cases json.RawMessage `json:"cases,omitempty"`
	Dims  []int           `json:"dims,omitempty"`
	First [][]int         `json:"first,omitempty"`
	Bad   json.RawMessage `json:"bad,omitempty"`
}

// digits decodes a digit sequence into a non-negative int64.
func digits(d []int) (int, error) {
	var v uint64
	if len(d) > 5 {
		return 0, fmt.Errorf("digit sequence %v does not fit 63 bits", d)
	}
	for i, x := range d {
		if x < 0 || x >= 1<<15 {
			return 0, fmt.Errorf("bad digit in %v", d)
		}
		v |= uint64(x) << (15 * uint(i))
	}
	if v > math.MaxInt64 || len(d) == 5 && d[4] > 7 {
		return 0, fmt.Errorf("digit sequence %v does not fit 63 bits", d)
	}
	return int(v), nil
}

type bigCk struct {
	sum *core.Summary
	r   *bigRec
}

// fail reports a failure; the replayable case is the record restricted to the
// objects involved (cases may be nil: the whole record).
func (c *bigCk) fail(fn, kind, msg string, cases any) {
	r := *c.r
	if cases != nil {
		b, _ := json.Marshal(cases)
		r.Cases = b
	}
	c.sum.Fail("combin:"+fn+":"+kind, msg, &r)
}

func (c *bigCk) val(fn string, cases any, f func()) bool {
	o := core.Call(f)
	if o.Panicked {
		c.fail(fn, "panic", fmt.Sprintf("%s panicked on arguments inside its documented domain: %s (record %s n=%d k=%d dims=%v)", fn, o.Text, c.r.K, c.r.N, c.r.KK, c.r.Dims), cases)
		return false
	}
	return true
}

func (c *bigCk) mustPanic(fn, why, what string, f func() any) {
	var got any
	o := core.Call(func() { got = f() })
	if !o.Panicked {
		c.fail(fn, "no-panic-"+why, fmt.Sprintf("%s(%s) returned %v; the argument is outside the documented domain (%s) and a panic is documented", fn, what, got, why), []bigCase{})
	} else if o.Runtime {
		c.sum.Count("note_runtime_error_instead_of_documented_panic:"+fn, 1)
	}
}

func replayCombinBig(in *core.Lines, args []string, seed int64, sum *core.Summary) error {
	for {
		b, ok := in.Next()
		if !ok {
			break
		}
		var r bigRec
		if err := json.Unmarshal(b, &r); err != nil {
			return fmt.Errorf("line %d: %v", in.N, err)
		}
		c := &bigCk{sum: sum, r: &r}
		sum.Cases++
		if in.N%17 == 3 && len(b) < 1200 {
			sum.Sample(json.RawMessage(append([]byte(nil), b...)))
		}
		var err error
		switch r.K {
		case "bigbinom":
			err = c.binom()
		case "bignperm":
			err = c.nperm()
		case "bigperm":
			err = c.index("perm")
		case "bigcomb":
			err = c.index("comb")
		case "bigcart":
			err = c.cart()
		case "genbinom":
			err = c.genbinom()
		default:
			err = fmt.Errorf("unknown record kind %q", r.K)
		}
		if err != nil {
			return fmt.Errorf("line %d: %v", in.N, err)
		}
	}
	return nil
}

func (c *bigCk) binom() error {
	var row []bigBinomEntry
	if err := json.Unmarshal(c.r.Row, &row); err != nil {
		return err
	}
	n := c.r.N
	big := false
	for k, e := range row {
		if !e.Fits {
			continue
		}
		want, err := digits(e.V)
		if err != nil {
			return err
		}
		if want > math.MaxInt32 {
			big = true
		}
		var got int
		o := core.Call(func() { got = combin.Binomial(n, k) })
		switch {
		case e.Safe && o.Panicked:
			c.fail("Binomial", "panic", fmt.Sprintf("Binomial(%d,%d) panicked: %s", n, k, o.Text), nil)
		case e.Safe && got != want:
			c.fail("Binomial", "value", fmt.Sprintf("Binomial(%d,%d) = %d, spec (Pascal's rule on digit sequences) says %d", n, k, got, want), nil)
		case !e.Safe && (o.Panicked || got != want):
			// documented: "No check is made for overflow"; the value fits an int but the
			// products of the multiplicative recurrence do not
			c.sum.Count("note_binomial_fits_int64_but_differs_intermediate_overflow", 1)
		}
		c.sum.Count("big_binomials", 1)
	}
	if big {
		c.sum.Nontrivial++
	}
	return nil
}

func (c *bigCk) nperm() error {
	var row [][]int
	if err := json.Unmarshal(c.r.Row, &row); err != nil {
		return err
	}
	n := c.r.N
	big := false
	for k, d := range row {
		want, err := digits(d)
		if err != nil {
			return err
		}
		if want > math.MaxInt32 {
			big = true
		}
		var got int
		if c.val("NumPermutations", nil, func() { got = combin.NumPermutations(n, k) }) && got != want {
			c.fail("NumPermutations", "value", fmt.Sprintf("NumPermutations(%d,%d) = %d, spec says %d", n, k, got, want), nil)
		}
		c.sum.Count("big_numpermutations", 1)
	}
	if big {
		c.sum.Nontrivial++
	}
	return nil
}

// index: PermutationIndex / IndexToPermutation (what = "perm") or
// CombinationIndex / IndexToCombination (what = "comb") on chosen objects.
func (c *bigCk) index(what string) error {
	var cases []bigCase
	if err := json.Unmarshal(c.r.Cases, &cases); err != nil {
		return err
	}
	n, k := c.r.N, c.r.KK
	count, err := digits(c.r.Count)
	if err != nil {
		return err
	}
	if count > math.MaxInt32 {
		c.sum.Nontrivial++
	}
	cntName, toIdx, toObj := "NumPermutations", "PermutationIndex", "IndexToPermutation"
	cntF, idxF, objF := combin.NumPermutations, combin.PermutationIndex, combin.IndexToPermutation
	if what == "comb" {
		cntName, toIdx, toObj = "Binomial", "CombinationIndex", "IndexToCombination"
		cntF, idxF, objF = combin.Binomial, combin.CombinationIndex, combin.IndexToCombination
	}
	var cnt int
	if c.val(cntName, []bigCase{}, func() { cnt = cntF(n, k) }) && cnt != count {
		c.fail(cntName, "value", fmt.Sprintf("%s(%d,%d) = %d, spec says %d", cntName, n, k, cnt, count), []bigCase{})
	}
	byIdx := map[int][]int{}
	dst := make([]int, k)
	for _, cs := range cases {
		want, err := digits(cs.Idx)
		if err != nil {
			return err
		}
		byIdx[want] = cs.P
		one := []bigCase{cs}
		var idx int
		if c.val(toIdx, one, func() { idx = idxF(append([]int(nil), cs.P...), n, k) }) && idx != want {
			c.fail(toIdx, "value", fmt.Sprintf("%s(%v,%d,%d) = %d, spec says %d (%s)", toIdx, cs.P, n, k, idx, want, cs.Why), one)
		}
		var got, got2 []int
		if c.val(toObj, one, func() { got = objF(nil, want, n, k); got2 = objF(dst, want, n, k) }) {
			if !eqInts(got, cs.P) || !eqInts(got2, cs.P) {
				c.fail(toObj, "value", fmt.Sprintf("%s(%d,%d,%d) = %v / %v, spec says %v (%s)", toObj, want, n, k, got, got2, cs.P, cs.Why), one)
			}
		}
		c.sum.Count("big_index_checks", 2)
	}
	// the generators hand out the objects of index 0, 1, 2, ... (the spec printed the first ones)
	var first [][]int
	if what == "perm" {
		c.val("PermutationGenerator", []bigCase{}, func() {
			g := combin.NewPermutationGenerator(n, k)
			for s := 0; s < 3 && s < count && g.Next(); s++ {
				first = append(first, g.Permutation(nil))
			}
		})
	} else {
		c.val("CombinationGenerator", []bigCase{}, func() {
			g := combin.NewCombinationGenerator(n, k)
			for s := 0; s < 3 && s < count && g.Next(); s++ {
				first = append(first, g.Combination(nil))
			}
		})
	}
	for s := 0; s < 3 && s < count; s++ {
		want, ok := byIdx[s]
		if !ok {
			continue
		}
		if s >= len(first) {
			c.fail(cntName+"Generator", "ends-early", fmt.Sprintf("generator(%d,%d): Next() = false after %d of %d objects", n, k, len(first), count), []bigCase{})
			break
		}
		if !eqInts(first[s], want) {
			c.fail(what+"-generator", "sequence", fmt.Sprintf("generator(%d,%d): object %d is %v, spec says %v", n, k, s, first[s], want), []bigCase{})
		}
		c.sum.Count("big_generator_steps", 1)
	}
	// just outside the domain of the index map: documented panics
	c.mustPanic(toObj, "idx-eq-count", fmt.Sprintf("idx=%d,n=%d,k=%d", count, n, k), func() any { return objF(nil, count, n, k) })
	c.mustPanic(toObj, "idx-negative", fmt.Sprintf("idx=-1,n=%d,k=%d", n, k), func() any { return objF(nil, -1, n, k) })
	return nil
}

func (c *bigCk) cart() error {
	var cases []bigCase
	if err := json.Unmarshal(c.r.Cases, &cases); err != nil {
		return err
	}
	var bad []badArg
	if len(c.r.Bad) > 0 {
		if err := json.Unmarshal(c.r.Bad, &bad); err != nil {
			return err
		}
	}
	dims := c.r.Dims
	count, err := digits(c.r.Count)
	if err != nil {
		return err
	}
	if count > math.MaxInt32 {
		c.sum.Nontrivial++
	}
	var cnt int
	if c.val("Card", []bigCase{}, func() { cnt = combin.Card(append([]int(nil), dims...)) }) && cnt != count {
		c.fail("Card", "value", fmt.Sprintf("Card(%v) = %d, spec says %d", dims, cnt, count), []bigCase{})
	}
	dst := make([]int, len(dims))
	for _, cs := range cases {
		want, err := digits(cs.Idx)
		if err != nil {
			return err
		}
		one := []bigCase{cs}
		var idx int
		if c.val("IdxFor", one, func() { idx = combin.IdxFor(append([]int(nil), cs.P...), dims) }) && idx != want {
			c.fail("IdxFor", "value", fmt.Sprintf("IdxFor(%v,%v) = %d, spec says %d (%s)", cs.P, dims, idx, want, cs.Why), one)
		}
		var got, got2 []int
		if c.val("SubFor", one, func() { got = combin.SubFor(nil, want, dims); got2 = combin.SubFor(dst, want, dims) }) {
			if !eqInts(got, cs.P) || !eqInts(got2, cs.P) {
				c.fail("SubFor", "value", fmt.Sprintf("SubFor(%d,%v) = %v / %v, spec says %v (%s)", want, dims, got, got2, cs.P, cs.Why), one)
			}
		}
		c.sum.Count("big_index_checks", 2)
	}
	var first [][]int
	ended := false
	if c.val("CartesianGenerator", []bigCase{}, func() {
		g := combin.NewCartesianGenerator(append([]int(nil), dims...))
		for s := 0; s < len(c.r.First); s++ {
			if !g.Next() {
				ended = true
				break
			}
			first = append(first, g.Product(nil))
		}
	}) {
		if ended {
			c.fail("CartesianGenerator", "ends-early", fmt.Sprintf("generator(%v): Next() = false after %d of %d products", dims, len(first), count), []bigCase{})
		}
		for s := range first {
			if !eqInts(first[s], c.r.First[s]) {
				c.fail("CartesianGenerator", "sequence", fmt.Sprintf("generator(%v): product %d is %v, spec says %v", dims, s, first[s], c.r.First[s]), []bigCase{})
				break
			}
			c.sum.Count("big_generator_steps", 1)
		}
	}
	c.mustPanic("SubFor", "idx-eq-count", fmt.Sprintf("idx=%d,dims=%v", count, dims), func() any { return combin.SubFor(nil, count, dims) })
	c.mustPanic("SubFor", "idx-negative", fmt.Sprintf("idx=-1,dims=%v", dims), func() any { return combin.SubFor(nil, -1, dims) })
	for _, b := range bad {
		c.mustPanic("IdxFor", b.Why, fmt.Sprintf("sub=%v,dims=%v", b.C, dims), func() any { return combin.IdxFor(append([]int(nil), b.C...), dims) })
	}
	return nil
}

func (c *bigCk) genbinom() error {
	var cases, bad []genCase
	if err := json.Unmarshal(c.r.Cases, &cases); err != nil {
		return err
	}
	if err := json.Unmarshal(c.r.Bad, &bad); err != nil {
		return err
	}
	c.sum.Nontrivial++
	for _, g := range cases {
		n, k := float64(g.N2)/2, float64(g.K2)/2
		var lg, v float64
		if c.val("LogGeneralizedBinomial", nil, func() { lg = combin.LogGeneralizedBinomial(n, k); v = combin.GeneralizedBinomial(n, k) }) {
			if lg != 0 {
				c.fail("LogGeneralizedBinomial", "value", fmt.Sprintf("LogGeneralizedBinomial(%v,%v) = %v, spec: Gamma(n+1)/(Gamma(1) Gamma(n+1)) = 1, logarithm 0", n, k, lg), nil)
			}
			if v != 1 {
				c.fail("GeneralizedBinomial", "value", fmt.Sprintf("GeneralizedBinomial(%v,%v) = %v, spec: 1", n, k, v), nil)
			}
		}
		c.sum.Count("generalized_binomials", 2)
	}
	for _, g := range bad {
		n, k := float64(g.N2)/2, float64(g.K2)/2
		c.mustPanic("LogGeneralizedBinomial", g.Why, fmt.Sprintf("n=%v,k=%v", n, k), func() any { return combin.LogGeneralizedBinomial(n, k) })
		c.mustPanic("GeneralizedBinomial", g.Why, fmt.Sprintf("n=%v,k=%v", n, k), func() any { return combin.GeneralizedBinomial(n, k) })
	}
	return nil
}
