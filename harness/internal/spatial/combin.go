package spatial

import (
	"encoding/json"
	"fmt"

	"gonum.org/v1/gonum/stat/combin"

	"gonum.org/v1/gonum/verifharness/internal/core"
)

func init() {
	core.RegisterReplay("combin", replayCombin)
}

// combRec is one record printed by Combin.tla: an enumeration in the
// documented order, its size, and arguments outside the domain of the maps.
type combRec struct {
	K      string  `json:"k"` // binom | comb | perm | cart
	N      int     `json:"n"`
	KK     int     `json:"kk"`
	Row    []int   `json:"row"`
	Count  int     `json:"count"`
	List   [][]int `json:"list"`
	Bad    []badArg `json:"bad"`
	BadIdx []badArg `json:"badidx"`
	Dims   []int   `json:"dims"`
	// Only restricts the record to one check (failure replay); informational.
	Note string `json:"note,omitempty"`
}

// badArg is an argument outside the documented domain, with the spec's reason.
type badArg struct {
	Why string `json:"why"`
	C   []int  `json:"c"`
	I   int    `json:"i"`
}

func eqInts(a, b []int) bool {
	if len(a) != len(b) {
		return false
	}
	for i := range a {
		if a[i] != b[i] {
			return false
		}
	}
	return true
}

func eqLists(a, b [][]int) bool {
	if len(a) != len(b) {
		return false
	}
	for i := range a {
		if !eqInts(a[i], b[i]) {
			return false
		}
	}
	return true
}

func short(l [][]int) string {
	if len(l) > 12 {
		return fmt.Sprintf("%v ... (%d items)", l[:12], len(l))
	}
	return fmt.Sprint(l)
}

type combCk struct {
	sum *core.Summary
	r   *combRec
}

func (c *combCk) fail(fn, kind, msg string) {
	c.sum.Fail("combin:"+fn+":"+kind, msg, c.r)
}

// val runs f (which must not panic) and reports a panic as a failure.
func (c *combCk) val(fn string, f func()) bool {
	o := core.Call(f)
	if o.Panicked {
		c.fail(fn, "panic", fmt.Sprintf("%s panicked on arguments inside its documented domain: %s (record %s n=%d k=%d dims=%v)", fn, o.Text, c.r.K, c.r.N, c.r.KK, c.r.Dims))
		return false
	}
	return true
}

// mustPanic runs f on arguments outside the documented domain.
func (c *combCk) mustPanic(fn, why, what string, f func() any) {
	var got any
	o := core.Call(func() { got = f() })
	if !o.Panicked {
		c.fail(fn, "no-panic-"+why, fmt.Sprintf("%s(%s) returned %v; the argument is outside the documented domain (%s) and a panic is documented", fn, what, got, why))
	} else if o.Runtime {
		c.sum.Count("note_runtime_error_instead_of_documented_panic:"+fn, 1)
	}
}

func replayCombin(in *core.Lines, args []string, seed int64, sum *core.Summary) error {
	for {
		b, ok := in.Next()
		if !ok {
			break
		}
		var r combRec
		if err := json.Unmarshal(b, &r); err != nil {
			return fmt.Errorf("line %d: %v", in.N, err)
		}
		c := &combCk{sum: sum, r: &r}
		sum.Cases++
		if r.Count > 1 || len(r.Row) > 2 {
			sum.Nontrivial++
		}
		if in.N%37 == 3 && len(b) < 1500 {
			sum.Sample(json.RawMessage(append([]byte(nil), b...)))
		}
		switch r.K {
		case "binom":
			for k, want := range r.Row {
				var got int
				if c.val("Binomial", func() { got = combin.Binomial(r.N, k) }) && got != want {
					c.fail("Binomial", "value", fmt.Sprintf("Binomial(%d,%d) = %d, spec (Pascal) says %d", r.N, k, got, want))
				}
			}
			sum.Count("binomials", len(r.Row))
		case "comb":
			c.comb()
		case "perm":
			c.perm()
		case "cart":
			c.cart()
		default:
			return fmt.Errorf("line %d: unknown record kind %q", in.N, r.K)
		}
	}
	return nil
}

func (c *combCk) comb() {
	r, n, k := c.r, c.r.N, c.r.KK
	var cnt int
	if c.val("Binomial", func() { cnt = combin.Binomial(n, k) }) && cnt != r.Count {
		c.fail("Binomial", "value", fmt.Sprintf("Binomial(%d,%d) = %d, spec says %d", n, k, cnt, r.Count))
	}
	var all [][]int
	if c.val("Combinations", func() { all = combin.Combinations(n, k) }) && !eqLists(all, r.List) {
		c.fail("Combinations", "value", fmt.Sprintf("Combinations(%d,%d) = %s, spec says %s", n, k, short(all), short(r.List)))
	}
	// generator
	var gen [][]int
	var extra [2]bool
	if c.val("CombinationGenerator", func() {
		g := combin.NewCombinationGenerator(n, k)
		for g.Next() {
			gen = append(gen, g.Combination(nil))
			if len(gen) > len(r.List)+2 {
				break
			}
		}
		extra[0], extra[1] = g.Next(), g.Next()
	}) {
		if !eqLists(gen, r.List) {
			c.fail("CombinationGenerator", "sequence", fmt.Sprintf("generator(%d,%d) yields %s, spec says %s", n, k, short(gen), short(r.List)))
		}
		if extra[0] || extra[1] {
			c.fail("CombinationGenerator", "next-after-end", fmt.Sprintf("generator(%d,%d): Next() = true after the end", n, k))
		}
	}
	// index maps: mutually inverse, in the order of the enumeration
	dst := make([]int, k)
	for i, want := range r.List {
		var got, got2 []int
		if c.val("IndexToCombination", func() { got = combin.IndexToCombination(nil, i, n, k); got2 = combin.IndexToCombination(dst, i, n, k) }) {
			if !eqInts(got, want) || !eqInts(got2, want) {
				c.fail("IndexToCombination", "value", fmt.Sprintf("IndexToCombination(%d,%d,%d) = %v / %v, spec says %v", i, n, k, got, got2, want))
			}
		}
		var idx int
		if c.val("CombinationIndex", func() { idx = combin.CombinationIndex(append([]int(nil), want...), n, k) }) && idx != i {
			c.fail("CombinationIndex", "value", fmt.Sprintf("CombinationIndex(%v,%d,%d) = %d, spec says %d", want, n, k, idx, i))
		}
	}
	for _, bi := range r.BadIdx {
		c.mustPanic("IndexToCombination", bi.Why, fmt.Sprintf("idx=%d,n=%d,k=%d", bi.I, n, k), func() any { return combin.IndexToCombination(nil, bi.I, n, k) })
	}
	for _, bad := range r.Bad {
		c.mustPanic("CombinationIndex", bad.Why, fmt.Sprintf("comb=%v,n=%d,k=%d", bad.C, n, k), func() any { return combin.CombinationIndex(append([]int(nil), bad.C...), n, k) })
	}
	c.sum.Count("combinations", len(r.List))
}

func (c *combCk) perm() {
	r, n, k := c.r, c.r.N, c.r.KK
	var cnt int
	if c.val("NumPermutations", func() { cnt = combin.NumPermutations(n, k) }) && cnt != r.Count {
		c.fail("NumPermutations", "value", fmt.Sprintf("NumPermutations(%d,%d) = %d, spec says %d", n, k, cnt, r.Count))
	}
	var all [][]int
	if c.val("Permutations", func() { all = combin.Permutations(n, k) }) && !eqLists(all, r.List) {
		c.fail("Permutations", "value", fmt.Sprintf("Permutations(%d,%d) = %s, spec says %s", n, k, short(all), short(r.List)))
	}
	var gen [][]int
	var extra [2]bool
	if c.val("PermutationGenerator", func() {
		g := combin.NewPermutationGenerator(n, k)
		for g.Next() {
			gen = append(gen, g.Permutation(nil))
			if len(gen) > len(r.List)+2 {
				break
			}
		}
		extra[0], extra[1] = g.Next(), g.Next()
	}) {
		if !eqLists(gen, r.List) {
			c.fail("PermutationGenerator", "sequence", fmt.Sprintf("generator(%d,%d) yields %s, spec says %s", n, k, short(gen), short(r.List)))
		}
		if extra[0] || extra[1] {
			c.fail("PermutationGenerator", "next-after-end", fmt.Sprintf("generator(%d,%d): Next() = true after the end", n, k))
		}
	}
	dst := make([]int, k)
	for i, want := range r.List {
		var got, got2 []int
		if c.val("IndexToPermutation", func() { got = combin.IndexToPermutation(nil, i, n, k); got2 = combin.IndexToPermutation(dst, i, n, k) }) {
			if !eqInts(got, want) || !eqInts(got2, want) {
				c.fail("IndexToPermutation", "value", fmt.Sprintf("IndexToPermutation(%d,%d,%d) = %v / %v, spec says %v", i, n, k, got, got2, want))
			}
		}
		var idx int
		if c.val("PermutationIndex", func() { idx = combin.PermutationIndex(append([]int(nil), want...), n, k) }) && idx != i {
			c.fail("PermutationIndex", "value", fmt.Sprintf("PermutationIndex(%v,%d,%d) = %d, spec says %d", want, n, k, idx, i))
		}
	}
	for _, bi := range r.BadIdx {
		c.mustPanic("IndexToPermutation", bi.Why, fmt.Sprintf("idx=%d,n=%d,k=%d", bi.I, n, k), func() any { return combin.IndexToPermutation(nil, bi.I, n, k) })
	}
	c.sum.Count("permutations", len(r.List))
}

func (c *combCk) cart() {
	r, dims := c.r, c.r.Dims
	var cnt int
	if c.val("Card", func() { cnt = combin.Card(dims) }) && cnt != r.Count {
		c.fail("Card", "value", fmt.Sprintf("Card(%v) = %d, spec says %d", dims, cnt, r.Count))
	}
	var all [][]int
	if c.val("Cartesian", func() { all = combin.Cartesian(append([]int(nil), dims...)) }) && !eqLists(all, r.List) {
		c.fail("Cartesian", "value", fmt.Sprintf("Cartesian(%v) = %s, spec says %s", dims, short(all), short(r.List)))
	}
	var gen [][]int
	var extra [2]bool
	if c.val("CartesianGenerator", func() {
		g := combin.NewCartesianGenerator(append([]int(nil), dims...))
		for g.Next() {
			gen = append(gen, g.Product(nil))
			if len(gen) > len(r.List)+2 {
				break
			}
		}
		extra[0], extra[1] = g.Next(), g.Next()
	}) {
		if !eqLists(gen, r.List) {
			c.fail("CartesianGenerator", "sequence", fmt.Sprintf("generator(%v) yields %s, spec says %s", dims, short(gen), short(r.List)))
		}
		if extra[0] || extra[1] {
			c.fail("CartesianGenerator", "next-after-end", fmt.Sprintf("generator(%v): Next() = true after the end", dims))
		}
	}
	dst := make([]int, len(dims))
	for i, want := range r.List {
		var got, got2 []int
		if c.val("SubFor", func() { got = combin.SubFor(nil, i, dims); got2 = combin.SubFor(dst, i, dims) }) {
			if !eqInts(got, want) || !eqInts(got2, want) {
				c.fail("SubFor", "value", fmt.Sprintf("SubFor(%d,%v) = %v / %v, spec says %v", i, dims, got, got2, want))
			}
		}
		var idx int
		if c.val("IdxFor", func() { idx = combin.IdxFor(append([]int(nil), want...), dims) }) && idx != i {
			c.fail("IdxFor", "value", fmt.Sprintf("IdxFor(%v,%v) = %d, spec says %d", want, dims, idx, i))
		}
	}
	for _, bi := range r.BadIdx {
		c.mustPanic("SubFor", bi.Why, fmt.Sprintf("idx=%d,dims=%v", bi.I, dims), func() any { return combin.SubFor(nil, bi.I, dims) })
	}
	for _, bad := range r.Bad {
		c.mustPanic("IdxFor", bad.Why, fmt.Sprintf("sub=%v,dims=%v", bad.C, dims), func() any { return combin.IdxFor(append([]int(nil), bad.C...), dims) })
	}
	c.sum.Count("cartesian_rows", len(r.List))
}
