package spatial

import (
	"encoding/json"
	"fmt"
	"math"
	"math/rand/v2"
	"strconv"
	"strings"

	"gonum.org/v1/gonum/spatial/barneshut"
	"gonum.org/v1/gonum/spatial/r2"
	"gonum.org/v1/gonum/spatial/r3"

	"gonum.org/v1/gonum/verifharness/internal/core"
)

// Histories of one barneshut.Plane / barneshut.Volume object (BarnesHutHist.tla).
//
//	replay "barneshut-hist"  spec->code: every history printed by TLC is run on a real
//	                         object, every logged answer is compared exactly;
//	record "barneshut-trace" code->spec: seeded long histories on larger lattices are run
//	                         and what the object answered is logged for BarnesHutHistTrace.tla.
//
// Nothing is computed here: the force law is the user supplied argument of ForceOn (an
// operand of the call), expected vectors come from the specification.

func init() {
	core.RegisterReplay("barneshut-hist", replayBHHist)
	core.RegisterRecord("barneshut-trace", recordBHTrace)
}

// ---------------------------------------------------------------- particles

type ider interface{ ident() int }

// pointer particles (altered in place or replaced), value particles (replaced)
type hp2 struct {
	id      int
	x, y, m float64
}

func (p *hp2) Coord2() r2.Vec { return r2.Vec{X: p.x, Y: p.y} }
func (p *hp2) Mass() float64  { return p.m }
func (p *hp2) ident() int     { return p.id }

type hv2 struct {
	id      int
	x, y, m float64
}

func (p hv2) Coord2() r2.Vec { return r2.Vec{X: p.x, Y: p.y} }
func (p hv2) Mass() float64  { return p.m }
func (p hv2) ident() int     { return p.id }

type hp3 struct {
	id         int
	x, y, z, m float64
}

func (p *hp3) Coord3() r3.Vec { return r3.Vec{X: p.x, Y: p.y, Z: p.z} }
func (p *hp3) Mass() float64  { return p.m }
func (p *hp3) ident() int     { return p.id }

type hv3 struct {
	id         int
	x, y, z, m float64
}

func (p hv3) Coord3() r3.Vec { return r3.Vec{X: p.x, Y: p.y, Z: p.z} }
func (p hv3) Mass() float64  { return p.m }
func (p hv3) ident() int     { return p.id }

// how the slice and its elements are altered
const (
	modeInPlace = iota // pointer particles, fields written in place
	modeReplace        // pointer particles, element replaced by a new object
	modeValue          // value particles, element replaced
	nModes
)

var modeNames = [nModes]string{"ptr-inplace", "ptr-replace", "value"}

// what the force law saw during one ForceOn call
type bhObs struct {
	calls int // calls of the force law
	agg   int // calls with p2 == nil (aggregate mass centre)
	badP1 int // calls whose p1 is not the particle given to ForceOn
}

// bhSys is one real object under a history.
type bhSys interface {
	literal(id0 int, xs [][]float64, ms []float64)          // &Plane{Particles: ..}, no Reset
	construct(id0 int, xs [][]float64, ms []float64) error  // NewPlane / NewVolume
	reset() error                                           // Reset
	move(i int, x []float64)                                // alter element i (0-based)
	mass(i int, m float64)                                  //
	app(id int, x []float64, m float64)                     // append without Reset
	remove(i int)                                           // shrink without Reset
	n() int                                                 // len(Particles)
	member(i int, theta float64) ([]float64, bhObs)         // ForceOn(Particles[i], theta)
	probe(x []float64, m, theta float64) ([]float64, bhObs) // ForceOn(external particle, theta)
}

// ---- 2-D

type sys2 struct {
	pl   *barneshut.Plane
	mode int
}

func (s *sys2) mk(id int, x []float64, m float64) barneshut.Particle2 {
	if s.mode == modeValue {
		return hv2{id, x[0], x[1], m}
	}
	return &hp2{id, x[0], x[1], m}
}
func (s *sys2) list(id0 int, xs [][]float64, ms []float64) []barneshut.Particle2 {
	ps := make([]barneshut.Particle2, len(xs))
	for i := range xs {
		ps[i] = s.mk(id0+i, xs[i], ms[i])
	}
	return ps
}
func (s *sys2) literal(id0 int, xs [][]float64, ms []float64) {
	s.pl = &barneshut.Plane{Particles: s.list(id0, xs, ms)}
}
func (s *sys2) construct(id0 int, xs [][]float64, ms []float64) error {
	pl, err := barneshut.NewPlane(s.list(id0, xs, ms))
	if err == nil {
		s.pl = pl
	}
	return err
}
func (s *sys2) reset() error { return s.pl.Reset() }
func (s *sys2) n() int       { return len(s.pl.Particles) }
func (s *sys2) move(i int, x []float64) {
	switch s.mode {
	case modeInPlace:
		p := s.pl.Particles[i].(*hp2)
		p.x, p.y = x[0], x[1]
	case modeReplace:
		p := s.pl.Particles[i].(*hp2)
		s.pl.Particles[i] = &hp2{p.id, x[0], x[1], p.m}
	default:
		p := s.pl.Particles[i].(hv2)
		s.pl.Particles[i] = hv2{p.id, x[0], x[1], p.m}
	}
}
func (s *sys2) mass(i int, m float64) {
	switch s.mode {
	case modeInPlace:
		s.pl.Particles[i].(*hp2).m = m
	case modeReplace:
		p := s.pl.Particles[i].(*hp2)
		s.pl.Particles[i] = &hp2{p.id, p.x, p.y, m}
	default:
		p := s.pl.Particles[i].(hv2)
		s.pl.Particles[i] = hv2{p.id, p.x, p.y, m}
	}
}
func (s *sys2) app(id int, x []float64, m float64) {
	s.pl.Particles = append(s.pl.Particles, s.mk(id, x, m))
}
func (s *sys2) remove(i int) {
	if i == 0 && s.mode != modeInPlace {
		s.pl.Particles = s.pl.Particles[1:]
		return
	}
	s.pl.Particles = append(s.pl.Particles[:i], s.pl.Particles[i+1:]...)
}
func (s *sys2) force(t barneshut.Particle2, theta float64) ([]float64, bhObs) {
	var o bhObs
	f := s.pl.ForceOn(t, theta, func(p1, p2 barneshut.Particle2, m1, m2 float64, v r2.Vec) r2.Vec {
		o.calls++
		if p1 != t {
			o.badP1++
		}
		if p2 == nil {
			o.agg++
		} else if p1.(ider).ident() == p2.(ider).ident() {
			return r2.Vec{}
		}
		c := m1 * m2
		n2 := v.X*v.X + v.Y*v.Y + 1
		return r2.Vec{X: c * (n2*v.X + 1), Y: c * (n2*v.Y + 2)}
	})
	return []float64{f.X, f.Y}, o
}
func (s *sys2) member(i int, theta float64) ([]float64, bhObs) {
	return s.force(s.pl.Particles[i], theta)
}
func (s *sys2) probe(x []float64, m, theta float64) ([]float64, bhObs) {
	return s.force(s.mk(0, x, m), theta)
}

// ---- 3-D

type sys3 struct {
	vl   *barneshut.Volume
	mode int
}

func (s *sys3) mk(id int, x []float64, m float64) barneshut.Particle3 {
	if s.mode == modeValue {
		return hv3{id, x[0], x[1], x[2], m}
	}
	return &hp3{id, x[0], x[1], x[2], m}
}
func (s *sys3) list(id0 int, xs [][]float64, ms []float64) []barneshut.Particle3 {
	ps := make([]barneshut.Particle3, len(xs))
	for i := range xs {
		ps[i] = s.mk(id0+i, xs[i], ms[i])
	}
	return ps
}
func (s *sys3) literal(id0 int, xs [][]float64, ms []float64) {
	s.vl = &barneshut.Volume{Particles: s.list(id0, xs, ms)}
}
func (s *sys3) construct(id0 int, xs [][]float64, ms []float64) error {
	vl, err := barneshut.NewVolume(s.list(id0, xs, ms))
	if err == nil {
		s.vl = vl
	}
	return err
}
func (s *sys3) reset() error { return s.vl.Reset() }
func (s *sys3) n() int       { return len(s.vl.Particles) }
func (s *sys3) move(i int, x []float64) {
	switch s.mode {
	case modeInPlace:
		p := s.vl.Particles[i].(*hp3)
		p.x, p.y, p.z = x[0], x[1], x[2]
	case modeReplace:
		p := s.vl.Particles[i].(*hp3)
		s.vl.Particles[i] = &hp3{p.id, x[0], x[1], x[2], p.m}
	default:
		p := s.vl.Particles[i].(hv3)
		s.vl.Particles[i] = hv3{p.id, x[0], x[1], x[2], p.m}
	}
}
func (s *sys3) mass(i int, m float64) {
	switch s.mode {
	case modeInPlace:
		s.vl.Particles[i].(*hp3).m = m
	case modeReplace:
		p := s.vl.Particles[i].(*hp3)
		s.vl.Particles[i] = &hp3{p.id, p.x, p.y, p.z, m}
	default:
		p := s.vl.Particles[i].(hv3)
		s.vl.Particles[i] = hv3{p.id, p.x, p.y, p.z, m}
	}
}
func (s *sys3) app(id int, x []float64, m float64) {
	s.vl.Particles = append(s.vl.Particles, s.mk(id, x, m))
}
func (s *sys3) remove(i int) {
	if i == 0 && s.mode != modeInPlace {
		s.vl.Particles = s.vl.Particles[1:]
		return
	}
	s.vl.Particles = append(s.vl.Particles[:i], s.vl.Particles[i+1:]...)
}
func (s *sys3) force(t barneshut.Particle3, theta float64) ([]float64, bhObs) {
	var o bhObs
	f := s.vl.ForceOn(t, theta, func(p1, p2 barneshut.Particle3, m1, m2 float64, v r3.Vec) r3.Vec {
		o.calls++
		if p1 != t {
			o.badP1++
		}
		if p2 == nil {
			o.agg++
		} else if p1.(ider).ident() == p2.(ider).ident() {
			return r3.Vec{}
		}
		c := m1 * m2
		n2 := v.X*v.X + v.Y*v.Y + v.Z*v.Z + 1
		return r3.Vec{X: c * (n2*v.X + 1), Y: c * (n2*v.Y + 2), Z: c * (n2*v.Z + 3)}
	})
	return []float64{f.X, f.Y, f.Z}, o
}
func (s *sys3) member(i int, theta float64) ([]float64, bhObs) {
	return s.force(s.vl.Particles[i], theta)
}
func (s *sys3) probe(x []float64, m, theta float64) ([]float64, bhObs) {
	return s.force(s.mk(0, x, m), theta)
}

func newBHSys(dim, mode int) bhSys {
	if dim == 2 {
		return &sys2{mode: mode}
	}
	return &sys3{mode: mode}
}

func typeName(dim int) string {
	if dim == 2 {
		return "Plane"
	}
	return "Volume"
}

func floats(x []int64) []float64 {
	r := make([]float64, len(x))
	for i, v := range x {
		r[i] = float64(v)
	}
	return r
}

// ---------------------------------------------------------------- replay (spec->code)

type bhhPart struct {
	X []int64 `json:"x"`
	M int64   `json:"m"`
}

type bhhEntry struct {
	Op     string    `json:"op"`
	I      int       `json:"i"` // 1-based
	X      []int64   `json:"x"`
	M      int64     `json:"m"`
	N      int       `json:"n"`
	Tree   string    `json:"tree"`
	Err    string    `json:"err"` // "nil" | "any" | "-"
	Tiny   bool      `json:"tiny"`
	Own    [][]int64 `json:"own"`
	Probes [][]int64 `json:"probes"`
}

type bhhCase struct {
	K      string     `json:"k"`
	Dim    int        `json:"dim"`
	Tl     int        `json:"tl"`
	Pm     int64      `json:"pm"`
	Probes [][]int64  `json:"probes"`
	Init   []bhhPart  `json:"init"`
	Hist   []bhhEntry `json:"hist"`
}

func sameVec(f []float64, want []int64) bool {
	if len(f) != len(want) {
		return false
	}
	for i := range f {
		if f[i] != float64(want[i]) {
			return false
		}
	}
	return true
}

// replayBHHist: args modes=0,1,2
func replayBHHist(in *core.Lines, args []string, seed int64, sum *core.Summary) error {
	am := argMap(args)
	var modes []int
	for _, s := range strings.Split(am["modes"], ",") {
		if v, err := strconv.Atoi(s); err == nil && v >= 0 && v < nModes {
			modes = append(modes, v)
		}
	}
	if len(modes) == 0 {
		modes = []int{modeInPlace, modeReplace, modeValue}
	}
	for {
		b, ok := in.Next()
		if !ok {
			break
		}
		var c bhhCase
		if err := json.Unmarshal(b, &c); err != nil {
			return fmt.Errorf("line %d: %v", in.N, err)
		}
		if c.K != "bhh" {
			continue
		}
		if (c.Dim != 2 && c.Dim != 3) || len(c.Hist) == 0 || c.Hist[0].Op != "lit" {
			return fmt.Errorf("line %d: malformed history", in.N)
		}
		sum.Cases++
		for _, e := range c.Hist {
			if e.Tree == "stale" || e.Tree == "unknown" {
				sum.Nontrivial++
				break
			}
		}
		if in.N%2999 == 11 {
			sum.Sample(json.RawMessage(append([]byte(nil), b...)))
		}
		for _, mode := range modes {
			runBHHist(&c, mode, false, sum)
			if len(c.Hist) > 1 && c.Hist[1].Op == "reset" {
				runBHHist(&c, mode, true, sum)
			}
		}
	}
	return nil
}

// runBHHist replays one history on one real object. ctor: the object is made by
// NewPlane / NewVolume (= literal + Reset) when the history begins with a Reset.
func runBHHist(c *bhhCase, mode int, ctor bool, sum *core.Summary) {
	tn := typeName(c.Dim)
	variant := modeNames[mode]
	if ctor {
		variant += ",constructor"
	}
	fail := func(kind, msg string) {
		sum.Fail("spatial:barneshut."+tn+".history:"+kind, fmt.Sprintf("[%s] %s", variant, msg), c)
	}
	tiny := math.Ldexp(1, -c.Tl)
	xs := make([][]float64, len(c.Init))
	ms := make([]float64, len(c.Init))
	for i, p := range c.Init {
		xs[i], ms[i] = floats(p.X), float64(p.M)
	}
	sys := newBHSys(c.Dim, mode)
	start := 0
	if ctor {
		var err error
		if o := core.Call(func() { err = sys.construct(1, xs, ms) }); o.Panicked {
			fail("panic", "New"+tn+": "+o.Text)
			return
		}
		if err != nil {
			if c.Hist[1].Err == "nil" {
				fail("reset-error", fmt.Sprintf("New%s(%v) = %v: the particles are at distinct small lattice positions", tn, c.Init, err))
				return
			}
			sum.Count("constructor_errors_coincident", 1)
			return // the literal variant replays this history
		}
		start = 1
	} else {
		sys.literal(1, xs, ms)
	}
	nid := len(c.Init) + 1
	for k := start; k < len(c.Hist); k++ {
		e := &c.Hist[k]
		where := fmt.Sprintf("step %d (%s i=%d x=%v m=%d) of init=%v", k, e.Op, e.I, e.X, e.M, c.Init)
		if !(ctor && k == 1) {
			var err error
			o := core.Call(func() {
				switch e.Op {
				case "lit":
				case "reset":
					err = sys.reset()
				case "move":
					sys.move(e.I-1, floats(e.X))
				case "mass":
					sys.mass(e.I-1, float64(e.M))
				case "append":
					sys.app(nid, floats(e.X), float64(e.M))
					nid++
				case "remove":
					sys.remove(e.I - 1)
				}
			})
			if o.Panicked {
				fail("panic", where+": "+o.Text)
				return
			}
			if e.Op == "reset" {
				sum.Count("resets", 1)
				if err != nil {
					sum.Count("reset_errors", 1)
					if e.Err == "nil" {
						fail("reset-error", fmt.Sprintf("%s: Reset() = %v although all particles are at distinct small lattice positions", where, err))
						return
					}
				}
			}
		}
		if sys.n() != e.N || len(e.Own) != e.N {
			fail("harness-len", fmt.Sprintf("%s: len(Particles) = %d, spec %d", where, sys.n(), e.N))
			return
		}
		thetas := []float64{0}
		if e.Tiny {
			thetas = append(thetas, tiny)
		}
		for _, th := range thetas {
			kind := "theta0"
			if th != 0 {
				kind = "theta-tiny"
				if e.Tree == "none" {
					kind = "theta-tiny-unbuilt"
				}
			}
			check := func(what string, want []int64, call func() ([]float64, bhObs)) {
				var f []float64
				var obs bhObs
				if o := core.Call(func() { f, obs = call() }); o.Panicked {
					fail("panic", fmt.Sprintf("%s: ForceOn(%s, theta=%g): %s", where, what, th, o.Text))
					return
				}
				sum.Count("forces_"+kind, 1)
				if !sameVec(f, want) {
					fail("value-"+kind, fmt.Sprintf("%s: %s.ForceOn(%s, theta=%g) = %v, the direct sum over the current slice is %v (tree: %s)", where, tn, what, th, f, want, e.Tree))
				}
				if obs.agg != 0 {
					fail("aggregate-"+kind, fmt.Sprintf("%s: ForceOn(%s, theta=%g) called the force law %d times with p2 == nil although no cell can be an aggregate", where, what, th, obs.agg))
				}
				if obs.badP1 != 0 {
					fail("p1-"+kind, fmt.Sprintf("%s: ForceOn(%s, theta=%g) called the force law %d times with p1 != the query particle", where, what, th, obs.badP1))
				}
			}
			for i := 0; i < e.N; i++ {
				check(fmt.Sprintf("Particles[%d]", i), e.Own[i], func() ([]float64, bhObs) { return sys.member(i, th) })
			}
			for j, q := range c.Probes {
				check(fmt.Sprintf("external %v m=%d", q, c.Pm), e.Probes[j], func() ([]float64, bhObs) { return sys.probe(floats(q), float64(c.Pm), th) })
			}
		}
	}
	sum.Count("histories_run_"+modeNames[mode], 1)
}

// ---------------------------------------------------------------- record (code->spec)

type bhtEvent struct {
	Ev    string    `json:"ev"` // new | reset | move | mass | append | remove | force
	Ps    []bhhPart `json:"ps"` // new: the slice the object is made from
	I     int       `json:"i"`  // 1-based index (mutations)
	ID    int       `json:"id"` // append: identity given to the particle; force: 0 = external particle
	X     []int64   `json:"x"`
	M     int64     `json:"m"`
	N     int       `json:"n"`     // len(Particles) after the event
	Err   bool      `json:"err"`   // reset: an error was returned
	Th    int       `json:"th"`    // force: 0 = theta 0, 1 = theta 2^-tl
	F     []int64   `json:"f"`     // force: the returned vector
	Exact bool      `json:"exact"` // force: every component is an integer of magnitude < 2^30
	Agg   int       `json:"agg"`   // force: calls of the law with p2 == nil
	Bad   int       `json:"bad"`   // force: calls of the law with p1 != query particle
}

// recordBHTrace: args dim=2|3 runs=N ops=N maxn=N range=R tl=K salt=s
// Seeded histories on the lattice [-R, R]^dim (small R: coincident particles happen).
// The driver only keeps the book the events need (positions, masses, identities).
func recordBHTrace(out *core.Out, args []string, seed int64, sum *core.Summary) error {
	am := argMap(args)
	dim := atoi(am["dim"], 2)
	runs := atoi(am["runs"], 10)
	nops := atoi(am["ops"], 40)
	maxn := atoi(am["maxn"], 10)
	rg := atoi(am["range"], 4)
	tl := atoi(am["tl"], 12)
	tiny := math.Ldexp(1, -tl)
	rng := rand.New(rand.NewPCG(uint64(seed), 4242+uint64(dim)*131+uint64(len(am["salt"]))*977+uint64(runs)))
	zero := make([]int64, dim)
	blank := func(ev string) bhtEvent {
		return bhtEvent{Ev: ev, Ps: []bhhPart{}, X: zero, F: zero}
	}
	type rec struct {
		id int
		x  []int64
		m  int64
	}
	for run := 0; run < runs; run++ {
		mode := rng.IntN(nModes)
		r := int64(rg) // lattice radius of this run: the full range, or a small one (coincident particles)
		if rng.IntN(2) == 0 {
			r = int64(1 + rng.IntN(rg))
		}
		pos := func() []int64 {
			x := make([]int64, dim)
			for i := range x {
				x[i] = rng.Int64N(2*r+1) - r
			}
			return x
		}
		sys := newBHSys(dim, mode)
		var book []rec
		n0 := rng.IntN(maxn/2 + 1)
		ev := blank("new")
		xs, ms := make([][]float64, n0), make([]float64, n0)
		for i := 0; i < n0; i++ {
			p := rec{i + 1, pos(), 1 + rng.Int64N(3)}
			book = append(book, p)
			ev.Ps = append(ev.Ps, bhhPart{p.x, p.m})
			xs[i], ms[i] = floats(p.x), float64(p.m)
		}
		nid := n0 + 1
		ev.N = n0
		out.Emit(ev)
		// status known to the driver: may a tiny-theta query be asked?
		askTiny := true // never built, or just rebuilt without error
		built := false  // was Reset ever called on the object?
		builtByCtor := false
		if rng.IntN(2) == 0 {
			if err := sys.construct(1, xs, ms); err == nil {
				builtByCtor = true
			}
		}
		if builtByCtor {
			built = true
			e := blank("reset")
			e.N = sys.n()
			out.Emit(e)
		} else {
			sys.literal(1, xs, ms)
		}
		query := func() {
			ths := []int{0}
			if askTiny {
				ths = append(ths, 1)
			}
			for _, th := range ths {
				theta := 0.0
				if th == 1 {
					theta = tiny
				}
				emit := func(id int, x []int64, m int64, f []float64, o bhObs) {
					e := blank("force")
					e.ID, e.X, e.M, e.N, e.Th, e.Agg, e.Bad = id, x, m, sys.n(), th, o.agg, o.badP1
					e.Exact = true
					e.F = make([]int64, dim)
					for i, v := range f {
						if v != math.Trunc(v) || math.Abs(v) >= 1<<30 {
							e.Exact = false
							e.F = zero
							break
						}
						e.F[i] = int64(v)
					}
					out.Emit(e)
					sum.Count("forces", 1)
				}
				for i, p := range book {
					f, o := sys.member(i, theta)
					emit(p.id, p.x, p.m, f, o)
				}
				for k := 0; k < 3; k++ {
					var x []int64
					switch {
					case k == 0 && len(book) > 0:
						x = book[rng.IntN(len(book))].x // coincident with a member
					case k == 1:
						x = pos()
					default:
						x = pos()
						x[rng.IntN(dim)] = r + 1 + rng.Int64N(3) // outside the lattice of the run
					}
					m := 1 + rng.Int64N(3)
					f, o := sys.probe(floats(x), float64(m), theta)
					emit(0, x, m, f, o)
				}
			}
		}
		query()
		for op := 0; op < nops; op++ {
			k := rng.IntN(100)
			n := len(book)
			switch {
			case k < 22:
				e := blank("reset")
				err := sys.reset()
				e.Err = err != nil
				e.N = sys.n()
				out.Emit(e)
				built = true
				askTiny = err == nil
				sum.Count("resets", 1)
				if err != nil {
					sum.Count("reset_errors", 1)
				}
			case k < 50 && n > 0:
				i := rng.IntN(n)
				x := pos()
				sys.move(i, floats(x))
				book[i].x = x
				e := blank("move")
				e.I, e.X, e.M, e.N = i+1, x, book[i].m, sys.n()
				out.Emit(e)
				askTiny = !built
			case k < 60 && n > 0:
				i := rng.IntN(n)
				m := 1 + rng.Int64N(3)
				sys.mass(i, float64(m))
				book[i].m = m
				e := blank("mass")
				e.I, e.X, e.M, e.N = i+1, book[i].x, m, sys.n()
				out.Emit(e)
				askTiny = !built
			case k < 82 && n < maxn || n == 0:
				p := rec{nid, pos(), 1 + rng.Int64N(3)}
				sys.app(p.id, floats(p.x), float64(p.m))
				book = append(book, p)
				nid++
				e := blank("append")
				e.I, e.ID, e.X, e.M, e.N = len(book), p.id, p.x, p.m, sys.n()
				out.Emit(e)
				askTiny = !built
			default:
				i := rng.IntN(n)
				if rng.IntN(3) == 0 {
					i = n - 1
				}
				sys.remove(i)
				e := blank("remove")
				e.I, e.X, e.M = i+1, book[i].x, book[i].m
				book = append(book[:i], book[i+1:]...)
				e.N = sys.n()
				out.Emit(e)
				askTiny = !built
			}
			query()
		}
		sum.Traces++
		sum.Count("histories_"+modeNames[mode], 1)
	}
	return nil
}
