// Package spatial binds specs/spatial/*.tla to gonum's spatial indexes
// (spatial/kdtree, spatial/vptree, spatial/barneshut), space filling curves
// (spatial/curve) and combinatorial enumerations (stat/combin).
//
// The package holds no oracle: every expected value is read from what TLC
// printed for the specification (spec->code), or the observed values are
// written out for TLC to judge (code->spec).
package spatial

import (
	"encoding/json"
	"fmt"
	"math"
	"math/rand/v2"
	"runtime"
	"runtime/debug"
	"sort"
	"strconv"
	"strings"
	"sync"

	"gonum.org/v1/gonum/spatial/kdtree"
	"gonum.org/v1/gonum/spatial/vptree"

	"gonum.org/v1/gonum/verifharness/internal/core"
)

func init() {
	core.RegisterReplay("spatial-index", replayIndex)
}

// ---- records emitted by SpatialIndex.tla ---------------------------------

// boundedRec: the spec's mode of the tree ("empty" "on" "off" "stale", SpatialIndex.tla Mode)
// for a collection that is (cb) or is not a Bounder, elements that are (ee) or are not
// Extenders, and the bounding flags passed to New (bb) and to every Insert (ib).
type boundedRec struct {
	Cb bool   `json:"cb"`
	Ee bool   `json:"ee"`
	Bb bool   `json:"bb"`
	Ib bool   `json:"ib"`
	V  string `json:"v"`
}

type queryRec struct {
	Q      []int64   `json:"q"`
	Ds     []int64   `json:"ds"`     // squared distance to every stored point (built ++ ins order)
	Near   []int64   `json:"near"`   // [] or [min]
	Knn    [][]int64 `json:"knn"`    // aligned with ks
	Within [][]int64 `json:"within"` // aligned with rs
	Inbox  bool      `json:"inbox"`
	Exact  bool      `json:"exact"` // spec: all distances the query can meet are integers
	Qfin   bool      `json:"qfin"`  // spec: the query is finitely distant from every stored point
}

// only restricts a case to one variant; it is set in failure cases so that a
// failing variant can be replayed alone.
type only struct {
	Impl string `json:"impl"`
	Bb   bool   `json:"bb"`
	Ib   bool   `json:"ib"`
	Rep  int    `json:"rep"`
	Eff  int    `json:"eff"`
}

// boxRec: the spec's answer to the box query [lo, hi] (closed): the stored points inside.
type boxRec struct {
	Lo  []int64   `json:"lo"`
	Hi  []int64   `json:"hi"`
	Pts [][]int64 `json:"pts"`
}

type histCase struct {
	K       string       `json:"k"`
	Dim     int          `json:"dim"`
	Built   [][]int64    `json:"built"`
	Ins     [][]int64    `json:"ins"`
	N       int          `json:"n"`
	Bounded []boundedRec `json:"bounded"`
	Box     [][]int64    `json:"box"`
	Ks      []int64      `json:"ks"`
	Rs      []int64      `json:"rs"`
	Rsq     []bool       `json:"rsq"` // spec: rs[i] is a perfect square
	Boxes   []boxRec     `json:"boxes"`
	Qs      []queryRec   `json:"qs"`
	// far coordinates (SpatialIndex.tla, Far = TRUE): binary exponents of the level units, radix of the
	// distance codes, and whether the stored points are pairwise finitely distant; empty / 0 on the lattice
	Far  []int `json:"far,omitempty"`
	Db   int64 `json:"db,omitempty"`
	Pfin bool  `json:"pfin"`
	Only *only `json:"only,omitempty"`
}

// coder decodes what the specification printed into the float64 operands it denotes.  On the plain
// lattice a coordinate / squared distance is the printed integer.  With far coordinates
// (SpatialIndex.tla "far coordinates") a coordinate a denotes a (|a| <= 8), sgn(a)(|a|-8) 2^far[1]
// (9 <= |a| <= 15) or sgn(a)(|a|-16) 2^far[2] (17 <= |a| <= 23), and a distance code d denotes
// (d mod db) 2^(2 far[d div db]), which is +Inf for the top level.  Pure decoding: no geometry here.
type coder struct {
	far []int
	db  int64
}

func (co coder) coord(a int64) float64 {
	if len(co.far) == 0 {
		return float64(a)
	}
	m, sg := a, 1.0
	if a < 0 {
		m, sg = -a, -1.0
	}
	switch {
	case m <= 8:
		return float64(a)
	case m <= 15:
		return sg * math.Ldexp(float64(m-8), co.far[1])
	case m >= 17 && m <= 23:
		return sg * math.Ldexp(float64(m-16), co.far[2])
	}
	panic(fmt.Sprintf("harness: %d is not a far coordinate code", a))
}

func (co coder) fl(c []int64) []float64 {
	r := make([]float64, len(c))
	for i, v := range c {
		r[i] = co.coord(v)
	}
	return r
}

// dist2 decodes a squared distance (Ldexp overflows to +Inf for the top level by itself).
func (co coder) dist2(d int64) float64 {
	if len(co.far) == 0 {
		return float64(d)
	}
	lev := d / co.db
	if lev >= int64(len(co.far))-1 {
		return math.Inf(1)
	}
	return math.Ldexp(float64(d%co.db), 2*co.far[lev])
}

func key(c []float64) string {
	var b strings.Builder
	for _, v := range c {
		b.WriteString(strconv.FormatFloat(v, 'g', -1, 64))
		b.WriteByte(',')
	}
	return b.String()
}

func fl(c []int64) []float64 {
	r := make([]float64, len(c))
	for i, v := range c {
		r[i] = float64(v)
	}
	return r
}

// ---- a second, hand written implementation of the kdtree interfaces -------
// (user code in the sense of the kdtree documentation: it exercises the
// generic paths of the tree instead of the kdtree.Points fast paths, uses a
// sort based median pivot that leaves elements equal to the pivot on both
// sides, and carries an identity so that duplicates are distinct values)

type cpt struct {
	v  []float64
	id int
}

func (p *cpt) Compare(c kdtree.Comparable, d kdtree.Dim) float64 { return p.v[d] - c.(*cpt).v[d] }
func (p *cpt) Dims() int                                          { return len(p.v) }
func (p *cpt) Distance(c kdtree.Comparable) float64 {
	q := c.(*cpt)
	var s float64
	for i, x := range p.v {
		s += (x - q.v[i]) * (x - q.v[i])
	}
	return s
}
func (p *cpt) Extend(b *kdtree.Bounding) *kdtree.Bounding {
	if b == nil {
		return &kdtree.Bounding{Min: &cpt{v: append([]float64(nil), p.v...), id: -1}, Max: &cpt{v: append([]float64(nil), p.v...), id: -1}}
	}
	lo, hi := b.Min.(*cpt), b.Max.(*cpt)
	for i, x := range p.v {
		lo.v[i] = math.Min(lo.v[i], x)
		hi.v[i] = math.Max(hi.v[i], x)
	}
	return b
}

type cpts []*cpt

func (l cpts) Index(i int) kdtree.Comparable { return l[i] }
func (l cpts) Len() int                      { return len(l) }
func (l cpts) Slice(s, e int) kdtree.Interface {
	return l[s:e]
}
func (l cpts) Pivot(d kdtree.Dim) int {
	sort.SliceStable(l, func(i, j int) bool { return l[i].v[d] < l[j].v[d] })
	return len(l) / 2
}
func (l cpts) Bounds() *kdtree.Bounding {
	if len(l) == 0 {
		return nil
	}
	var b *kdtree.Bounding
	for _, p := range l {
		b = p.Extend(b)
	}
	return b
}

// cptsNB: the same Extender elements in a collection that is NOT a Bounder.
type cptsNB []*cpt

func (l cptsNB) Index(i int) kdtree.Comparable { return l[i] }
func (l cptsNB) Len() int                      { return len(l) }
func (l cptsNB) Slice(s, e int) kdtree.Interface {
	return l[s:e]
}
func (l cptsNB) Pivot(d kdtree.Dim) int { return cpts(l).Pivot(d) }

// ---- user types that can do less ---------------------------------------------
// ppt implements kdtree.Comparable and nothing else: it is NOT an Extender, so
// Tree.Insert cannot update bounding volumes for it.

type ppt struct {
	v  []float64
	id int
}

func (p *ppt) Compare(c kdtree.Comparable, d kdtree.Dim) float64 { return p.v[d] - c.(*ppt).v[d] }
func (p *ppt) Dims() int                                          { return len(p.v) }
func (p *ppt) Distance(c kdtree.Comparable) float64 {
	q := c.(*ppt)
	var s float64
	for i, x := range p.v {
		s += (x - q.v[i]) * (x - q.v[i])
	}
	return s
}

// ppts is a collection of ppt that is a Bounder (bulk construction can record
// volumes); its pivot is the last of the elements equal to the median, so that
// everything to the right is strictly greater.
type ppts []*ppt

func (l ppts) Index(i int) kdtree.Comparable { return l[i] }
func (l ppts) Len() int                      { return len(l) }
func (l ppts) Slice(s, e int) kdtree.Interface {
	return l[s:e]
}
func (l ppts) Pivot(d kdtree.Dim) int {
	sort.SliceStable(l, func(i, j int) bool { return l[i].v[d] < l[j].v[d] })
	piv := len(l) / 2
	for piv+1 < len(l) && l[piv+1].v[d] == l[piv].v[d] {
		piv++
	}
	return piv
}
func (l ppts) Bounds() *kdtree.Bounding {
	if len(l) == 0 {
		return nil
	}
	lo := &ppt{v: append([]float64(nil), l[0].v...), id: -1}
	hi := &ppt{v: append([]float64(nil), l[0].v...), id: -1}
	for _, p := range l[1:] {
		for i, x := range p.v {
			lo.v[i] = math.Min(lo.v[i], x)
			hi.v[i] = math.Max(hi.v[i], x)
		}
	}
	return &kdtree.Bounding{Min: lo, Max: hi}
}

// pptsNB: ppt elements in a collection that is not a Bounder either.
type pptsNB []*ppt

func (l pptsNB) Index(i int) kdtree.Comparable { return l[i] }
func (l pptsNB) Len() int                      { return len(l) }
func (l pptsNB) Slice(s, e int) kdtree.Interface {
	return l[s:e]
}
func (l pptsNB) Pivot(d kdtree.Dim) int { return ppts(l).Pivot(d) }

func mkCpts(pts [][]float64) []*cpt {
	l := make([]*cpt, len(pts))
	for i, p := range pts {
		l[i] = &cpt{v: append([]float64(nil), p...), id: i}
	}
	return l
}

func mkPpts(pts [][]float64) []*ppt {
	l := make([]*ppt, len(pts))
	for i, p := range pts {
		l[i] = &ppt{v: append([]float64(nil), p...), id: i}
	}
	return l
}

// vpt is a user type for the vantage point tree (vptree.Comparable has one method).
type vpt struct {
	v  []float64
	id int
}

func (p *vpt) Distance(c vptree.Comparable) float64 {
	q := c.(*vpt)
	var s float64
	for i, x := range p.v {
		s += (x - q.v[i]) * (x - q.v[i])
	}
	return math.Sqrt(s)
}

// ---- adaptors -----------------------------------------------------------

type kdKind struct {
	name   string
	cb, ee bool // the collection is a Bounder / the elements are Extenders
	point  func(c []float64, id int) kdtree.Comparable
	list   func(pts [][]float64) kdtree.Interface
	coords func(c kdtree.Comparable) []float64
}

var kdKinds = map[string]*kdKind{
	"kd-points": {
		name: "kdtree.Points", cb: true, ee: true,
		point: func(c []float64, id int) kdtree.Comparable { return kdtree.Point(append([]float64(nil), c...)) },
		list: func(pts [][]float64) kdtree.Interface {
			l := make(kdtree.Points, len(pts))
			for i, p := range pts {
				l[i] = kdtree.Point(append([]float64(nil), p...))
			}
			return l
		},
		coords: func(c kdtree.Comparable) []float64 { return []float64(c.(kdtree.Point)) },
	},
	"kd-custom": {
		name: "kdtree(custom Extender, Bounder collection)", cb: true, ee: true,
		point:  func(c []float64, id int) kdtree.Comparable { return &cpt{v: append([]float64(nil), c...), id: id} },
		list:   func(pts [][]float64) kdtree.Interface { return cpts(mkCpts(pts)) },
		coords: func(c kdtree.Comparable) []float64 { return c.(*cpt).v },
	},
	"kd-ext-nb": {
		name: "kdtree(custom Extender, collection not a Bounder)", cb: false, ee: true,
		point:  func(c []float64, id int) kdtree.Comparable { return &cpt{v: append([]float64(nil), c...), id: id} },
		list:   func(pts [][]float64) kdtree.Interface { return cptsNB(mkCpts(pts)) },
		coords: func(c kdtree.Comparable) []float64 { return c.(*cpt).v },
	},
	"kd-plain": {
		name: "kdtree(Comparable that is not an Extender, Bounder collection)", cb: true, ee: false,
		point:  func(c []float64, id int) kdtree.Comparable { return &ppt{v: append([]float64(nil), c...), id: id} },
		list:   func(pts [][]float64) kdtree.Interface { return ppts(mkPpts(pts)) },
		coords: func(c kdtree.Comparable) []float64 { return c.(*ppt).v },
	},
	"kd-plain-nb": {
		name: "kdtree(Comparable that is not an Extender, collection not a Bounder)", cb: false, ee: false,
		point:  func(c []float64, id int) kdtree.Comparable { return &ppt{v: append([]float64(nil), c...), id: id} },
		list:   func(pts [][]float64) kdtree.Interface { return pptsNB(mkPpts(pts)) },
		coords: func(c kdtree.Comparable) []float64 { return c.(*ppt).v },
	},
}

// checker compares answers of one live tree with one spec record.
type checker struct {
	sum   *lockedSum
	c     *histCase
	o     only
	impl  string
	count map[string]int // stored multiplicity per coordinate key
	all   [][]int64      // built ++ ins
	sqrt  bool           // distances are Euclidean (vptree) instead of squared (kdtree)
	co    coder          // decoding of the spec's coordinates and distances
	fails int
}

func (ck *checker) fl(c []int64) []float64 { return ck.co.fl(c) }

func (ck *checker) fail(routine, kind, msg string) {
	ck.fails++
	cc := *ck.c
	o := ck.o
	cc.Only = &o
	if len(ck.co.far) > 0 {
		msg += fmt.Sprintf(" {far coordinates: a code a is the coordinate a (|a|<=8), +-(|a|-8)*2^%d (9..15), +-(|a|-16)*2^%d (17..23); a spec distance d is d itself below %d, (d-%d)*2^%d below %d, and +Inf at %d}",
			ck.co.far[1], ck.co.far[2], ck.co.db, ck.co.db, 2*ck.co.far[1], 2*ck.co.db, 2*ck.co.db)
	}
	ck.sum.Fail("spatial:"+ck.impl+"."+routine+":"+kind, fmt.Sprintf("%s [impl=%s bb=%v ib=%v rep=%d eff=%d built=%v ins=%v]", msg, o.Impl, o.Bb, o.Ib, o.Rep, o.Eff, ck.c.Built, ck.c.Ins), &cc)
}

// dist converts a spec distance (exact squared integer) to the float the
// implementation reports: the integer itself for kdtree, its correctly rounded
// square root for vptree.
func (ck *checker) dist(d2 int64) float64 {
	if ck.sqrt {
		return math.Sqrt(ck.co.dist2(d2))
	}
	return ck.co.dist2(d2)
}

type cd struct {
	c []float64 // nil: a nil Comparable was returned
	d float64
}

// checkSet compares a returned (point, distance) list with the spec's sorted
// distance multiset want, the per point distances ds and the stored multiset.
func (ck *checker) checkSet(routine string, q *queryRec, got []cd, want []int64, label string, param int64, r2 int64, rExact bool) {
	if !ck.mismatch(q, got, want) {
		return
	}
	// something differs: classify it (slow path)
	what := fmt.Sprintf("%s%d", label, param)
	before := ck.fails
	defer func() {
		if ck.fails == before {
			ck.fail(routine, "mismatch", fmt.Sprintf("%s q=%v: got %v, spec says (squared) %v", what, q.Q, got, want))
		}
	}()
	if ck.c.N == 0 && len(want) == 0 && len(got) == 1 && got[0].c == nil {
		// documented: "If a sentinel ComparableDist with a nil Comparable is used by the
		// Keeper to mark the maximum distance, NearestSet will remove it before returning."
		ck.fail("NearestSet", "sentinel-left-on-empty-tree", fmt.Sprintf("%s q=%v: empty tree: the keeper still holds its nil-Comparable sentinel (Dist=%v) after NearestSet; spec: empty result", what, q.Q, got[0].d))
		return
	}
	if r2 >= 0 && len(got) < len(want) {
		// within-radius: is the answer exactly the spec's answer minus points that lie
		// exactly ON the sphere (squared distance = r2)?  Then the closed ball lost its boundary.
		boundary := true
		for i, w := range want {
			if i < len(got) && got[i].d != ck.dist(w) || i >= len(got) && w != r2 {
				boundary = false
			}
		}
		if boundary {
			// The spec says whether every distance involved is an integer (exact in floating
			// point). Only when an irrational square root takes part can a one-ulp rounding of
			// the triangle-inequality prune explain the loss.
			kind := "boundary-point-lost-inexact"
			if !ck.sqrt || q.Exact && rExact { // (kdtree works on squared integers: always exact)
				kind = "boundary-point-lost"
			}
			ck.fail(routine, kind, fmt.Sprintf("%s q=%v: got distances %v, spec says (squared) %v: %d stored point(s) at exactly the query radius are missing", what, q.Q, dists(got), want, len(want)-len(got)))
			return
		}
	}
	if len(got) != len(want) {
		ck.fail(routine, "count", fmt.Sprintf("%s q=%v: got %d results %v, spec says %d: %v", what, q.Q, len(got), dists(got), len(want), want))
		return
	}
	for i := range got {
		if got[i].d != ck.dist(want[i]) {
			ck.fail(routine, "distances", fmt.Sprintf("%s q=%v: got distances %v, spec says (squared) %v", what, q.Q, dists(got), want))
			return
		}
	}
	// every returned point is a stored point, not returned more often than it
	// is stored, and carries the distance the spec gives for that point
	exp := map[string]int64{}
	all := append(append([][]int64{}, ck.c.Built...), ck.c.Ins...)
	for i, p := range all {
		exp[key(ck.fl(p))] = q.Ds[i]
	}
	seen := map[string]int{}
	for _, g := range got {
		if g.c == nil {
			ck.fail(routine, "nil-point", fmt.Sprintf("%s q=%v: nil Comparable among the results", what, q.Q))
			return
		}
		k := key(g.c)
		d2, ok := exp[k]
		if !ok {
			ck.fail(routine, "foreign-point", fmt.Sprintf("%s q=%v: returned point %v is not stored", what, q.Q, g.c))
			return
		}
		if g.d != ck.dist(d2) {
			ck.fail(routine, "point-distance", fmt.Sprintf("%s q=%v: point %v reported at %v, spec says squared distance %d", what, q.Q, g.c, g.d, d2))
			return
		}
		seen[k]++
		if seen[k] > ck.count[k] {
			ck.fail(routine, "multiplicity", fmt.Sprintf("%s q=%v: point %v returned %d times, stored %d times", what, q.Q, g.c, seen[k], ck.count[k]))
			return
		}
	}
}

// mismatch is the allocation-free fast path of checkSet: does anything differ?
func (ck *checker) mismatch(q *queryRec, got []cd, want []int64) bool {
	if len(got) != len(want) {
		return true
	}
	for i := range got {
		if got[i].c == nil || got[i].d != ck.dist(want[i]) {
			return true
		}
	}
	// point identity: every returned point stored, with the spec's distance, within multiplicity
	for i := range got {
		found := false
		n := 0
		for j := range ck.all {
			if ck.eqCoord(ck.all[j], got[i].c) {
				if got[i].d != ck.dist(q.Ds[j]) {
					return true
				}
				found = true
				n++
			}
		}
		if !found {
			return true
		}
		m := 0
		for j := range got {
			if got[j].c != nil && eqF(got[j].c, got[i].c) {
				m++
			}
		}
		if m > n {
			return true
		}
	}
	return false
}

func (ck *checker) eqCoord(a []int64, b []float64) bool {
	if len(a) != len(b) {
		return false
	}
	for i := range a {
		if ck.co.coord(a[i]) != b[i] {
			return false
		}
	}
	return true
}

func eqF(a, b []float64) bool {
	if len(a) != len(b) {
		return false
	}
	for i := range a {
		if a[i] != b[i] {
			return false
		}
	}
	return true
}

func dists(g []cd) []float64 {
	r := make([]float64, len(g))
	for i := range g {
		r[i] = g[i].d
	}
	return r
}

func (ck *checker) call(routine string, f func()) bool {
	o := core.Call(f)
	if o.Panicked {
		ck.fail(routine, "panic", "panic: "+o.Text)
		return false
	}
	return true
}

// expectMode: the spec's mode of the tree for this variant's user types and flags.
func (ck *checker) expectMode(kk *kdKind) string {
	for _, b := range ck.c.Bounded {
		if b.Cb == kk.cb && b.Ee == kk.ee && b.Bb == ck.o.Bb && b.Ib == ck.o.Ib {
			return b.V
		}
	}
	return "?"
}

// checkVolumes walks the exported Node fields: every stored volume must contain every
// point of its subtree (SpatialIndex.tla VolumeOK: lo <= p <= hi in every coordinate).
// It returns the number of stored volumes and of those that lost a point.
func checkVolumes(kk *kdKind, root *kdtree.Node) (boxes, lost int, what string) {
	var walk func(n *kdtree.Node) [][]float64
	walk = func(n *kdtree.Node) [][]float64 {
		if n == nil {
			return nil
		}
		sub := [][]float64{kk.coords(n.Point)}
		sub = append(sub, walk(n.Left)...)
		sub = append(sub, walk(n.Right)...)
		if n.Bounding != nil {
			boxes++
			lo, hi := kk.coords(n.Bounding.Min), kk.coords(n.Bounding.Max)
			out := false
			for _, p := range sub {
				for d := range p {
					if p[d] < lo[d] || hi[d] < p[d] {
						out = true
						if what == "" {
							what = fmt.Sprintf("node %v stores the volume [%v %v]; its subtree holds %v", kk.coords(n.Point), lo, hi, p)
						}
					}
				}
			}
			if out {
				lost++
			}
		}
		return sub
	}
	walk(root)
	return boxes, lost, what
}

// ---- kdtree -----------------------------------------------------------------

func (ck *checker) runKd(kk *kdKind, rng *rand.Rand) {
	c := ck.c
	built := make([][]float64, len(c.Built))
	for i, p := range c.Built {
		built[i] = ck.fl(p)
	}
	rng.Shuffle(len(built), func(i, j int) { built[i], built[j] = built[j], built[i] })
	var t *kdtree.Tree
	if !ck.call("New", func() { t = kdtree.New(kk.list(built), ck.o.Bb) }) {
		return
	}
	for i, p := range c.Ins {
		if !ck.call("Insert", func() { t.Insert(kk.point(ck.fl(p), 1000+i), ck.o.Ib) }) {
			return
		}
	}
	if t.Len() != c.N {
		ck.fail("Len", "value", fmt.Sprintf("Len() = %d, spec says %d", t.Len(), c.N))
	}
	mode := ck.expectMode(kk)
	gotB := t.Root != nil && t.Root.Bounding != nil
	// "on": bounded; "off" / "empty": no volumes; "stale" (a plain Comparable was inserted into a
	// bounded tree, the documentation says only that the volumes are not updated): the tree may
	// stop presenting itself as bounded, or keep volumes that are still right.
	wantB := mode == "on" || mode == "stale" && gotB
	if mode == "?" {
		ck.fail("Insert", "bounding-mode", "the spec record has no mode for this variant")
	} else if mode != "stale" && gotB != wantB {
		ck.fail("Insert", "bounding-mode", fmt.Sprintf("root bounding recorded = %v, spec says mode %q", gotB, mode))
	}
	if mode == "stale" {
		if gotB {
			ck.sum.Count("stale_tree_keeps_root_volume", 1)
		} else {
			ck.sum.Count("stale_tree_drops_root_volume", 1)
		}
	}
	if nbox, lost, what := checkVolumes(kk, t.Root); wantB && lost > 0 {
		ck.fail("Bounding", "volume-loses-subtree-point", fmt.Sprintf("bounded tree (mode %q): %d of %d stored volumes do not contain their subtree: %s", mode, lost, nbox, what))
	} else if !wantB && nbox > 0 {
		if mode == "stale" {
			// leftovers below a root that no longer claims bounds: allowed, counted
			ck.sum.Count("drift_leftover_volumes_in_unbounded_stale_tree", nbox)
			ck.sum.Count("drift_leftover_volumes_that_lost_a_point", lost)
		} else {
			ck.fail("Bounding", "volume-in-unbounded-tree", fmt.Sprintf("mode %q: %d nodes store a volume although none was ever asked for / possible", mode, nbox))
		}
	}
	if gotB && len(c.Box) == 2 {
		lo, hi := kk.coords(t.Root.Bounding.Min), kk.coords(t.Root.Bounding.Max)
		for d := range lo {
			if lo[d] > ck.co.coord(c.Box[0][d]) || hi[d] < ck.co.coord(c.Box[1][d]) {
				ck.fail("Bounding", "root-box-too-small", fmt.Sprintf("root box [%v %v] does not contain the spec's box %v", lo, hi, c.Box))
				break
			}
			if lo[d] != ck.co.coord(c.Box[0][d]) || hi[d] != ck.co.coord(c.Box[1][d]) {
				ck.sum.Count("drift_root_box_not_minimal", 1)
			}
		}
	}
	// traversal: exactly the stored multiset
	visited := map[string]int{}
	nv := 0
	withBox := 0
	if ck.call("Do", func() {
		t.Do(func(p kdtree.Comparable, b *kdtree.Bounding, depth int) bool {
			visited[key(kk.coords(p))]++
			nv++
			if b != nil {
				withBox++
			}
			return false
		})
	}) {
		if nv != c.N || !sameCount(visited, ck.count) {
			ck.fail("Do", "multiset", fmt.Sprintf("Do visited %v, stored %v", visited, ck.count))
		}
		if wantB && withBox != nv {
			ck.fail("Do", "missing-node-box", fmt.Sprintf("bounded tree: %d of %d visited nodes carry a bounding box", withBox, nv))
		}
	}
	// DoBounded: "performs fn on all values stored in the tree that are within the specified
	// bound" (the closed box of Bounding.Contains); a nil bound is a Do; the result says
	// whether fn interrupted the traversal.
	for bi := range c.Boxes {
		bx := &c.Boxes[bi]
		want := map[string]int{}
		for _, p := range bx.Pts {
			want[key(ck.fl(p))]++
		}
		got := map[string]int{}
		ng := 0
		var stopped bool
		bound := &kdtree.Bounding{Min: kk.point(ck.fl(bx.Lo), -2), Max: kk.point(ck.fl(bx.Hi), -3)}
		if ck.call("DoBounded", func() {
			stopped = t.DoBounded(bound, func(p kdtree.Comparable, _ *kdtree.Bounding, _ int) bool {
				got[key(kk.coords(p))]++
				ng++
				return false
			})
		}) {
			if ng != len(bx.Pts) || !sameCount(got, want) {
				ck.fail("DoBounded", "multiset", fmt.Sprintf("box [%v %v]: DoBounded visited %v, the stored points inside the closed box are %v", bx.Lo, bx.Hi, got, bx.Pts))
			}
			if stopped {
				ck.fail("DoBounded", "interrupted", fmt.Sprintf("box [%v %v]: DoBounded returned true although fn never returned true", bx.Lo, bx.Hi))
			}
		}
		// interruption: fn stops at the first point
		first := 0
		if ck.call("DoBounded", func() {
			stopped = t.DoBounded(bound, func(kdtree.Comparable, *kdtree.Bounding, int) bool { first++; return true })
		}) {
			if len(bx.Pts) > 0 && ng > 0 && (!stopped || first != 1) {
				ck.fail("DoBounded", "interrupt", fmt.Sprintf("box [%v %v]: fn returning true was called %d times, DoBounded returned %v", bx.Lo, bx.Hi, first, stopped))
			}
			if ng == 0 && (stopped || first != 0) {
				ck.fail("DoBounded", "interrupt", fmt.Sprintf("box [%v %v]: no point visited before, now fn called %d times, DoBounded returned %v", bx.Lo, bx.Hi, first, stopped))
			}
		}
		ck.sum.Count("box_queries", 1)
	}
	if len(c.Boxes) > 0 {
		nn := 0
		if ck.call("DoBounded", func() {
			t.DoBounded(nil, func(kdtree.Comparable, *kdtree.Bounding, int) bool { nn++; return false })
		}) && nn != c.N {
			ck.fail("DoBounded", "nil-bound", fmt.Sprintf("DoBounded(nil) visited %d of %d stored points (documented: same as Do)", nn, c.N))
		}
	}
	for qi := range c.Qs {
		q := &c.Qs[qi]
		qp := kk.point(ck.fl(q.Q), -1)
		// Nearest
		var np kdtree.Comparable
		var nd float64
		if ck.call("Nearest", func() { np, nd = t.Nearest(qp) }) {
			if len(q.Near) == 0 {
				if np != nil || !math.IsInf(nd, 1) {
					ck.fail("Nearest", "empty", fmt.Sprintf("empty tree: Nearest returned (%v, %v), documented (nil, +Inf)", np, nd))
				}
			} else if np == nil {
				ck.fail("Nearest", "nil-point", fmt.Sprintf("q=%v: Nearest returned nil point, distance %v; spec says %v", q.Q, nd, q.Near))
			} else {
				ck.checkSet("Nearest", q, []cd{{kk.coords(np), nd}}, q.Near, "Nearest", 0, -1, false)
			}
		}
		// k nearest
		for i, k := range c.Ks {
			var keep *kdtree.NKeeper
			if ck.call("NearestSet", func() { keep = kdtree.NewNKeeper(int(k)); t.NearestSet(keep, qp) }) {
				got := make([]cd, 0, len(keep.Heap))
				for _, e := range keep.Heap {
					if e.Comparable == nil {
						got = append(got, cd{nil, e.Dist})
					} else {
						got = append(got, cd{kk.coords(e.Comparable), e.Dist})
					}
				}
				ck.checkSet("NearestSet(NKeeper)", q, got, q.Knn[i], "k=", k, -1, false)
			}
		}
		// within radius (closed ball)
		for i, r := range c.Rs {
			var keep *kdtree.DistKeeper
			if ck.call("NearestSet", func() { keep = kdtree.NewDistKeeper(ck.dist(r)); t.NearestSet(keep, qp) }) {
				got := make([]cd, 0, len(keep.Heap))
				for _, e := range keep.Heap {
					if e.Comparable == nil {
						got = append(got, cd{nil, e.Dist})
					} else {
						got = append(got, cd{kk.coords(e.Comparable), e.Dist})
					}
				}
				ck.checkSet("NearestSet(DistKeeper)", q, got, q.Within[i], "r2=", r, r, i < len(c.Rsq) && c.Rsq[i])
			}
		}
		// Contains: without recorded bounds always true (documented); with
		// bounds every stored point and everything inside the spec's box is
		// contained; outside the minimal box the answer is only noted.
		var in bool
		if ck.callAs("Contains", c.N == 0, func() { in = t.Contains(qp) }) {
			switch {
			case !wantB && !in:
				ck.fail("Contains", "unbounded-false", fmt.Sprintf("q=%v: Contains = false on a tree without bounds (documented: true)", q.Q))
			case wantB && q.Inbox && !in:
				ck.fail("Contains", "inside-false", fmt.Sprintf("q=%v: Contains = false, spec: inside the box %v of the stored points", q.Q, c.Box))
			case wantB && !q.Inbox && in && gotB:
				ck.sum.Count("drift_contains_outside_minimal_box", 1)
			}
		}
	}
}

// callAs is call with a distinct failure kind for the empty tree.
func (ck *checker) callAs(routine string, empty bool, f func()) bool {
	o := core.Call(f)
	if o.Panicked {
		kind := "panic"
		if empty {
			kind = "panic-empty-tree"
		}
		ck.fail(routine, kind, "panic: "+o.Text)
		return false
	}
	return true
}

func sameCount(a, b map[string]int) bool {
	if len(a) != len(b) {
		return false
	}
	for k, v := range a {
		if b[k] != v {
			return false
		}
	}
	return true
}

// ---- vptree -----------------------------------------------------------------

type vpKind struct {
	point  func(c []float64, id int) vptree.Comparable
	coords func(c vptree.Comparable) []float64
}

var vpKinds = map[string]*vpKind{
	"vp": {
		point:  func(c []float64, id int) vptree.Comparable { return vptree.Point(c) },
		coords: func(c vptree.Comparable) []float64 { return []float64(c.(vptree.Point)) },
	},
	"vp-custom": {
		point:  func(c []float64, id int) vptree.Comparable { return &vpt{v: c, id: id} },
		coords: func(c vptree.Comparable) []float64 { return c.(*vpt).v },
	},
}

func (ck *checker) runVp(vk *vpKind, effort int, src rand.Source) {
	c := ck.c
	all := append(append([][]int64{}, c.Built...), c.Ins...)
	pts := make([]vptree.Comparable, len(all))
	for i, p := range all {
		pts[i] = vk.point(ck.fl(p), i)
	}
	var t *vptree.Tree
	var err error
	if !ck.call("New", func() { t, err = vptree.New(pts, effort, src) }) {
		return
	}
	if len(c.Far) > 0 && !c.Pfin {
		// vptree.New: "Points in p must not be infinitely distant."  The specification says that two
		// stored points of this history are: an excluded input (an error or a tree, nothing is judged)
		if err != nil {
			ck.sum.Count("vptree_infinitely_distant_points_rejected_by_New", 1)
		} else {
			ck.sum.Count("vptree_infinitely_distant_points_accepted_by_New_not_judged", 1)
		}
		return
	}
	if err != nil || t == nil {
		ck.fail("New", "error", fmt.Sprintf("New returned error %v on finite points", err))
		return
	}
	if t.Len() != c.N {
		ck.fail("Len", "value", fmt.Sprintf("Len() = %d, spec says %d", t.Len(), c.N))
	}
	visited := map[string]int{}
	nv := 0
	if ck.call("Do", func() {
		t.Do(func(p vptree.Comparable, depth int) bool {
			visited[key(vk.coords(p))]++
			nv++
			return false
		})
	}) {
		if nv != c.N || !sameCount(visited, ck.count) {
			ck.fail("Do", "multiset", fmt.Sprintf("Do visited %v, stored %v", visited, ck.count))
		}
	}
	conv := func(h vptree.Heap) []cd {
		got := make([]cd, 0, len(h))
		for _, e := range h {
			if e.Comparable == nil {
				got = append(got, cd{nil, e.Dist})
			} else {
				got = append(got, cd{vk.coords(e.Comparable), e.Dist})
			}
		}
		return got
	}
	for qi := range c.Qs {
		q := &c.Qs[qi]
		if len(c.Far) > 0 && !q.Qfin {
			// the query is infinitely distant from a stored point: the triangle inequality prunes of a
			// vantage point tree have no meaning there (Inf - Inf) and the documentation is silent
			ck.sum.Count("vptree_queries_infinitely_distant_not_judged", 1)
			continue
		}
		qp := vk.point(ck.fl(q.Q), -1)
		var np vptree.Comparable
		var nd float64
		if ck.call("Nearest", func() { np, nd = t.Nearest(qp) }) {
			if len(q.Near) == 0 {
				if np != nil || !math.IsInf(nd, 1) {
					ck.fail("Nearest", "empty", fmt.Sprintf("empty tree: Nearest returned (%v, %v), documented (nil, +Inf)", np, nd))
				}
			} else if np == nil {
				ck.fail("Nearest", "nil-point", fmt.Sprintf("q=%v: Nearest returned nil point, distance %v; spec says %v", q.Q, nd, q.Near))
			} else {
				ck.checkSet("Nearest", q, []cd{{vk.coords(np), nd}}, q.Near, "Nearest", 0, -1, false)
			}
		}
		for i, k := range c.Ks {
			var keep *vptree.NKeeper
			if ck.call("NearestSet", func() { keep = vptree.NewNKeeper(int(k)); t.NearestSet(keep, qp) }) {
				ck.checkSet("NearestSet(NKeeper)", q, conv(keep.Heap), q.Knn[i], "k=", k, -1, false)
			}
		}
		for i, r := range c.Rs {
			var keep *vptree.DistKeeper
			if ck.call("NearestSet", func() { keep = vptree.NewDistKeeper(ck.dist(r)); t.NearestSet(keep, qp) }) {
				ck.checkSet("NearestSet(DistKeeper)", q, conv(keep.Heap), q.Within[i], "r2=", r, r, i < len(c.Rsq) && c.Rsq[i])
			}
		}
	}
}

// ---- driver -----------------------------------------------------------------

func argMap(args []string) map[string]string {
	m := map[string]string{}
	for _, a := range args {
		if i := strings.IndexByte(a, '='); i > 0 {
			m[a[:i]] = a[i+1:]
		}
	}
	return m
}

func atoi(s string, def int) int {
	if v, err := strconv.Atoi(s); err == nil {
		return v
	}
	return def
}

// replayIndex: args impls=kd-points,kd-custom,kd-ext-nb,kd-plain,kd-plain-nb,vp,vp-custom reps=N
// One spec record (a history with the answers of all its queries) is replayed
// on every implementation, every bounding mode combination (kdtree), every
// effort (vptree) and reps shuffles / random constructions. Records are
// independent and are replayed by a pool of workers.
func replayIndex(in *core.Lines, args []string, seed int64, sum *core.Summary) error {
	am := argMap(args)
	impls := strings.Split(am["impls"], ",")
	if am["impls"] == "" {
		impls = []string{"kd-points", "kd-custom", "vp"}
	}
	reps := atoi(am["reps"], 2)
	efforts := []int{0, 2, 7}
	type job struct {
		line []byte
		n    int
	}
	var mu sync.Mutex
	lsum := &lockedSum{mu: &mu, s: sum}
	variants := 0
	var firstErr error
	work := func(j job) {
		var c histCase
		if err := json.Unmarshal(j.line, &c); err != nil || (c.K == "h" && len(c.Built)+len(c.Ins) != c.N) {
			mu.Lock()
			if firstErr == nil {
				firstErr = fmt.Errorf("line %d: bad record (%v)", j.n, err)
			}
			mu.Unlock()
			return
		}
		if c.K != "h" {
			return
		}
		all := append(append([][]int64{}, c.Built...), c.Ins...)
		count := map[string]int{}
		co := coder{far: c.Far, db: c.Db}
		for _, p := range c.Built {
			count[key(co.fl(p))]++
		}
		for _, p := range c.Ins {
			count[key(co.fl(p))]++
		}
		mu.Lock()
		sum.Cases++
		// non-trivial: at least two stored points (pruning and keeper logic matter)
		if c.N >= 2 {
			sum.Nontrivial++
		}
		if j.n%997 == 1 {
			sum.Sample(json.RawMessage(j.line))
		}
		mu.Unlock()
		nv := 0
		run := func(o only) {
			ck := &checker{sum: lsum, c: &c, o: o, impl: o.Impl, count: count, all: all, co: co}
			rng := rand.New(rand.NewPCG(uint64(seed), uint64(o.Rep)*7919+uint64(j.n)))
			nv++
			switch o.Impl {
			case "vp", "vp-custom":
				ck.impl = "vptree"
				ck.sqrt = true
				ck.runVp(vpKinds[o.Impl], o.Eff, rand.NewPCG(uint64(seed)+uint64(o.Rep), uint64(j.n)))
			default:
				kk := kdKinds[o.Impl]
				if kk == nil {
					return
				}
				ck.impl = "kdtree"
				ck.runKd(kk, rng)
			}
		}
		if c.Only != nil {
			// confirmation of one failing variant: construction is randomised
			// inside gonum (global source), so repeat it
			for r := 0; r < 64; r++ {
				o := *c.Only
				o.Rep = c.Only.Rep + r
				run(o)
			}
		} else {
			for _, impl := range impls {
				for rep := 0; rep < reps; rep++ {
					if impl == "vp" || impl == "vp-custom" {
						if len(c.Ins) > 0 && len(c.Built) > 0 {
							// vptree has no Insert: the bag built ++ ins is also
							// reached by a history with built = {} (same multiset)
							continue
						}
						for _, e := range efforts {
							run(only{Impl: impl, Rep: rep, Eff: e})
						}
						continue
					}
					for _, bb := range []bool{false, true} {
						for _, ib := range []bool{false, true} {
							if len(c.Ins) == 0 && ib {
								continue
							}
							if len(c.Built) == 0 && bb && rep > 0 {
								continue
							}
							run(only{Impl: impl, Bb: bb, Ib: ib, Rep: rep})
						}
					}
				}
			}
		}
		mu.Lock()
		variants += nv
		mu.Unlock()
	}
	debug.SetGCPercent(800)
	nw := runtime.GOMAXPROCS(0)
	if nw > 12 {
		nw = 12
	}
	ch := make(chan job, 4*nw)
	var wg sync.WaitGroup
	for w := 0; w < nw; w++ {
		wg.Add(1)
		go func() {
			defer wg.Done()
			for j := range ch {
				work(j)
			}
		}()
	}
	for {
		b, ok := in.Next()
		if !ok {
			break
		}
		ch <- job{append([]byte(nil), b...), in.N}
	}
	close(ch)
	wg.Wait()
	sum.Count("variants", variants)
	return firstErr
}

// lockedSum serialises the workers' access to the shared summary.
type lockedSum struct {
	mu *sync.Mutex
	s  *core.Summary
}

func (l *lockedSum) Fail(sig, msg string, c any) { l.mu.Lock(); l.s.Fail(sig, msg, c); l.mu.Unlock() }
func (l *lockedSum) Count(name string, n int)    { l.mu.Lock(); l.s.Count(name, n); l.mu.Unlock() }
