package spatial

import (
	"errors"
	"math/rand/v2"
	"strings"

	"gonum.org/v1/gonum/spatial/curve"

	"gonum.org/v1/gonum/verifharness/internal/core"
)

func init() {
	core.RegisterRecord("hilbert", recordHilbert)
}

type spaceFilling interface {
	Dims() []int
	Len() int
	Pos(v []int) int
	Coord(dst []int, pos int) []int
}

func newHilbert(d, o int) (spaceFilling, error) {
	switch d {
	case 2:
		return curve.NewHilbert2D(o)
	case 3:
		return curve.NewHilbert3D(o)
	default:
		return curve.NewHilbert4D(o)
	}
}

// limbs writes a non-negative int as three little-endian base-2^30 digits
// (TLC integers are 32 bits wide).
func limbs(p int) [3]int {
	u := uint64(p)
	return [3]int{int(u & (1<<30 - 1)), int(u >> 30 & (1<<30 - 1)), int(u >> 60)}
}

type hEvent struct {
	Ev   string  `json:"ev"`
	D    int     `json:"d,omitempty"`
	O    int     `json:"o"`
	Out  string  `json:"out,omitempty"`
	Dims []int   `json:"dims"`
	Len  *[3]int `json:"len,omitempty"`
	Full bool    `json:"full"`
	N    int     `json:"n"`
	P    *[3]int `json:"p,omitempty"`
	C    []int   `json:"c,omitempty"`
	Back *[3]int `json:"back,omitempty"`
}

// recordHilbert: args full=d:o,d:o,...  win=d:o,...  winlen=N  news=1
// Dumps, for each listed curve, Coord(p) and Pos(Coord(p)) for a run of
// consecutive positions p (the whole curve for "full", seeded windows plus
// both ends of the curve for "win"), and constructor outcomes.
func recordHilbert(out *core.Out, args []string, seed int64, sum *core.Summary) error {
	am := argMap(args)
	rng := rand.New(rand.NewPCG(uint64(seed), 20))
	pair := func(s string) (int, int) {
		i := strings.IndexByte(s, ':')
		return atoi(s[:i], 2), atoi(s[i+1:], 1)
	}
	table := func(d, o int, start, n int, full bool) {
		h, err := newHilbert(d, o)
		if err != nil {
			out.Emit(hEvent{Ev: "new", D: d, O: o, Out: "error-on-legal-order", Dims: []int{}})
			return
		}
		l := limbs(h.Len())
		ev := hEvent{Ev: "curve", D: d, O: o, Len: &l, Full: full, N: n}
		if o <= 30 {
			ev.Dims = h.Dims()
		} else {
			// 2^31 does not fit a TLC integer: Dims() of the order-31 curve is not judged
			ev.Dims = []int{}
		}
		out.Emit(ev)
		// Coord "writes the spatial coordinates of pos to dst": every other point goes into ONE
		// reused destination that still holds the previous point (the table the specification
		// judges must be the same whichever way the destination was provided)
		reused := make([]int, d)
		for p := start; p < start+n; p++ {
			var c []int
			if (p-start)%2 == 1 {
				c = append([]int(nil), h.Coord(reused, p)...)
			} else {
				c = h.Coord(nil, p)
				copy(reused, c)
			}
			back := h.Pos(append([]int(nil), c...))
			pl, bl := limbs(p), limbs(back)
			if back < 0 {
				bl = [3]int{-1, -1, -1}
			}
			out.Emit(hEvent{Ev: "pt", P: &pl, C: c, Back: &bl, Dims: []int{}})
		}
		out.Emit(hEvent{Ev: "end", Dims: []int{}})
		sum.Traces++
		sum.Count("points", n)
	}
	if am["news"] != "" {
		for d := 2; d <= 4; d++ {
			for _, o := range []int{-1, 0, 1, 63/d - 1, 63 / d, 63/d + 1, 64 / d, 64/d + 1, 40, 64} {
				_, err := newHilbert(d, o)
				outc := "ok"
				switch {
				case errors.Is(err, curve.ErrUnderflow):
					outc = "underflow"
				case errors.Is(err, curve.ErrOverflow):
					outc = "overflow"
				case err != nil:
					outc = "other-error"
				}
				out.Emit(hEvent{Ev: "new", D: d, O: o, Out: outc, Dims: []int{}})
				sum.Count("constructor_calls", 1)
			}
		}
	}
	for _, s := range strings.Split(am["full"], ",") {
		if s == "" {
			continue
		}
		d, o := pair(s)
		table(d, o, 0, 1<<(d*o), true)
	}
	wl := atoi(am["winlen"], 256)
	for _, s := range strings.Split(am["win"], ",") {
		if s == "" {
			continue
		}
		d, o := pair(s)
		total := 1 << (d * o)
		table(d, o, 0, wl, false)
		table(d, o, total-wl, wl, false)
		for i := 0; i < 3; i++ {
			table(d, o, rng.IntN(total-wl), wl, false)
		}
		// a window across a high-order digit boundary
		table(d, o, total/2-wl/2, wl, false)
	}
	return nil
}
