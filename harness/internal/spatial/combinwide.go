package spatial

import (
	"encoding/json"
	"fmt"

	"gonum.org/v1/gonum/stat/combin"

	"gonum.org/v1/gonum/verifharness/internal/core"
)

func init() {
	core.RegisterReplay("combin-wide", replayCombinWide)
}

// Records printed by CombinWide.tla: the index maps of combinations and
// permutations over wide ground sets (n up to 1000, k <= 3), in the record
// shape of CombinBig.tla plus the arguments for which a panic is documented
// and the last objects of the generators' sequences.  Everything compared is
// what the specification printed; this file only calls stat/combin.

type wideRec struct {
	bigRec
	Tail [][]int `json:"tail,omitempty"` // objects of index count-1, count-2, count-3 when the generator is walked
}

func (w *wideRec) fail(sum *core.Summary, fn, kind, msg string) {
	r := *w
	r.Cases = json.RawMessage("[]")
	sum.Fail("combin:"+fn+":"+kind, msg, &r)
}

func replayCombinWide(in *core.Lines, args []string, seed int64, sum *core.Summary) error {
	for {
		b, ok := in.Next()
		if !ok {
			break
		}
		var r wideRec
		if err := json.Unmarshal(b, &r); err != nil {
			return fmt.Errorf("line %d: %v", in.N, err)
		}
		c := &bigCk{sum: sum, r: &r.bigRec}
		sum.Cases++
		if in.N%7 == 3 && len(b) < 1500 {
			sum.Sample(json.RawMessage(append([]byte(nil), b...)))
		}
		var err error
		switch r.K {
		case "widecomb":
			err = r.wide(c, "comb")
		case "wideperm":
			err = r.wide(c, "perm")
		case "bigcart":
			if len(r.Dims) > 0 && r.Dims[0] > 64 {
				sum.Nontrivial++
			}
			err = c.cart()
		default:
			err = fmt.Errorf("unknown record kind %q", r.K)
		}
		if err != nil {
			return fmt.Errorf("line %d: %v", in.N, err)
		}
	}
	return nil
}

func (r *wideRec) wide(c *bigCk, what string) error {
	sum := c.sum
	n, k := r.N, r.KK
	if n > 64 {
		sum.Nontrivial++
	}
	if len(r.Cases) == 0 {
		r.Cases = json.RawMessage("[]")
	}
	// both directions of the index map on the printed objects, the count, the first objects of the
	// generator, index = count and index = -1 must panic
	if err := c.index(what); err != nil {
		return err
	}
	count, err := digits(r.Count)
	if err != nil {
		return err
	}
	toIdx, idxF := "PermutationIndex", combin.PermutationIndex
	if what == "comb" {
		toIdx, idxF = "CombinationIndex", combin.CombinationIndex
	}
	// arguments outside the documented domain
	var bad []badArg
	if len(r.Bad) > 0 {
		if err := json.Unmarshal(r.Bad, &bad); err != nil {
			return err
		}
	}
	for _, b := range bad {
		var got int
		o := core.Call(func() { got = idxF(append([]int(nil), b.C...), n, k) })
		if !o.Panicked {
			r.fail(sum, toIdx, "no-panic-"+b.Why, fmt.Sprintf("%s(%v,%d,%d) returned %d; the argument is outside the documented domain (%s) and a panic is documented", toIdx, b.C, n, k, got, b.Why))
		} else if o.Runtime {
			sum.Count("note_runtime_error_instead_of_documented_panic:"+toIdx, 1)
		}
		sum.Count("wide_bad_arguments", 1)
	}
	// the whole sequence of the generator: exactly count objects, the last ones as printed
	if len(r.Tail) > 0 {
		var last [][]int
		steps := 0
		o := core.Call(func() {
			keep := func(x []int) {
				last = append(last, x)
				if len(last) > len(r.Tail) {
					last = last[1:]
				}
			}
			if what == "perm" {
				g := combin.NewPermutationGenerator(n, k)
				for steps <= count+1 && g.Next() {
					steps++
					keep(g.Permutation(nil))
				}
			} else {
				g := combin.NewCombinationGenerator(n, k)
				for steps <= count+1 && g.Next() {
					steps++
					keep(g.Combination(nil))
				}
			}
		})
		switch {
		case o.Panicked:
			r.fail(sum, what+"-generator", "panic", fmt.Sprintf("generator(%d,%d) panicked after %d objects: %s", n, k, steps, o.Text))
		case steps != count:
			r.fail(sum, what+"-generator", "length", fmt.Sprintf("generator(%d,%d) produced %d objects (stopped counting at count+2), spec says %d", n, k, steps, count))
		default:
			for i, want := range r.Tail { // Tail[0] has index count-1
				got := last[len(last)-1-i]
				if !eqInts(got, want) {
					r.fail(sum, what+"-generator", "tail", fmt.Sprintf("generator(%d,%d): object %d is %v, spec says %v", n, k, count-1-i, got, want))
					break
				}
			}
		}
		sum.Count("wide_generator_walks", 1)
	}
	return nil
}
