package spatial

import (
	"encoding/json"
	"fmt"

	"gonum.org/v1/gonum/spatial/barneshut"
	"gonum.org/v1/gonum/spatial/r2"
	"gonum.org/v1/gonum/spatial/r3"

	"gonum.org/v1/gonum/verifharness/internal/core"
)

func init() {
	core.RegisterReplay("barneshut", replayBH)
}

type bhPart struct {
	X []int64 `json:"x"`
	M int64   `json:"m"`
	F []int64 `json:"f,omitempty"` // probes: the spec's force on this particle
}

type bhCase struct {
	K      string    `json:"k"`
	Dim    int       `json:"dim"`
	Ps     []bhPart  `json:"ps"`
	Own    [][]int64 `json:"own"` // spec: force on ps[i]
	Probes []bhPart  `json:"probes"`
}

type part2 struct {
	x, y, m float64
}

func (p part2) Coord2() r2.Vec { return r2.Vec{X: p.x, Y: p.y} }
func (p part2) Mass() float64  { return p.m }

type part3 struct {
	x, y, z, m float64
}

func (p part3) Coord3() r3.Vec { return r3.Vec{X: p.x, Y: p.y, Z: p.z} }
func (p part3) Mass() float64  { return p.m }

// The force law of BarnesHut.tla, F = m1 m2 |v|^2 v. It is the user supplied
// argument of ForceOn (an operand of the call, like a Comparable), not an oracle:
// the expected sums come from the specification.
func law2(_, _ barneshut.Particle2, m1, m2 float64, v r2.Vec) r2.Vec {
	return r2.Scale(m1*m2*(v.X*v.X+v.Y*v.Y), v)
}
func law3(_, _ barneshut.Particle3, m1, m2 float64, v r3.Vec) r3.Vec {
	return r3.Scale(m1*m2*(v.X*v.X+v.Y*v.Y+v.Z*v.Z), v)
}

func replayBH(in *core.Lines, args []string, seed int64, sum *core.Summary) error {
	for {
		b, ok := in.Next()
		if !ok {
			break
		}
		var c bhCase
		if err := json.Unmarshal(b, &c); err != nil {
			return fmt.Errorf("line %d: %v", in.N, err)
		}
		if c.K != "bh" {
			continue
		}
		sum.Cases++
		if len(c.Ps) >= 2 {
			sum.Nontrivial++
		}
		if in.N%499 == 7 {
			sum.Sample(json.RawMessage(append([]byte(nil), b...)))
		}
		fail := func(kind, msg string) { sum.Fail("spatial:barneshut.ForceOn:"+kind, msg, &c) }
		targets := append([]bhPart{}, c.Probes...)
		for i, p := range c.Ps {
			targets = append(targets, bhPart{X: p.X, M: p.M, F: c.Own[i]})
		}
		switch c.Dim {
		case 2:
			ps := make([]barneshut.Particle2, len(c.Ps))
			for i, p := range c.Ps {
				ps[i] = part2{float64(p.X[0]), float64(p.X[1]), float64(p.M)}
			}
			planes := []*barneshut.Plane{{Particles: ps}} // documented: no Reset needed for theta = 0
			var built *barneshut.Plane
			var err error
			if o := core.Call(func() { built, err = barneshut.NewPlane(ps) }); o.Panicked {
				fail("panic-NewPlane", o.Text)
			} else if err == nil {
				planes = append(planes, built)
			} else {
				sum.Count("newplane_errors_coincident_particles", 1)
			}
			for pi, pl := range planes {
				for _, t := range targets {
					var f r2.Vec
					if o := core.Call(func() { f = pl.ForceOn(part2{float64(t.X[0]), float64(t.X[1]), float64(t.M)}, 0, law2) }); o.Panicked {
						fail("panic", o.Text)
						continue
					}
					if f.X != float64(t.F[0]) || f.Y != float64(t.F[1]) {
						fail("value", fmt.Sprintf("Plane(variant %d).ForceOn(%v m=%d, theta=0) = %v, spec's direct sum %v; particles %v", pi, t.X, t.M, f, t.F, c.Ps))
					}
					sum.Count("forces", 1)
				}
			}
		case 3:
			ps := make([]barneshut.Particle3, len(c.Ps))
			for i, p := range c.Ps {
				ps[i] = part3{float64(p.X[0]), float64(p.X[1]), float64(p.X[2]), float64(p.M)}
			}
			vols := []*barneshut.Volume{{Particles: ps}}
			var built *barneshut.Volume
			var err error
			if o := core.Call(func() { built, err = barneshut.NewVolume(ps) }); o.Panicked {
				fail("panic-NewVolume", o.Text)
			} else if err == nil {
				vols = append(vols, built)
			} else {
				sum.Count("newvolume_errors_coincident_particles", 1)
			}
			for vi, vl := range vols {
				for _, t := range targets {
					var f r3.Vec
					if o := core.Call(func() {
						f = vl.ForceOn(part3{float64(t.X[0]), float64(t.X[1]), float64(t.X[2]), float64(t.M)}, 0, law3)
					}); o.Panicked {
						fail("panic", o.Text)
						continue
					}
					if f.X != float64(t.F[0]) || f.Y != float64(t.F[1]) || f.Z != float64(t.F[2]) {
						fail("value", fmt.Sprintf("Volume(variant %d).ForceOn(%v m=%d, theta=0) = %v, spec's direct sum %v; particles %v", vi, t.X, t.M, f, t.F, c.Ps))
					}
					sum.Count("forces", 1)
				}
			}
		}
	}
	return nil
}
