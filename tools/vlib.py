#!/usr/bin/env python3
"""Shared machinery for /verif checks.

A check for one property is a python module tools/props/<ID>.py with a
function run(ctx).  ctx (class Ctx below) offers:

  ctx.build(tags)                   -> harness binary built from /repo's working tree
  ctx.tlc(spec, cfg, ...)           -> R1 model-checking run (states / distinct / coverage)
  ctx.gen(spec, cfg, ...)           -> R2 generator run: TLC prints JSON cases, returns ndjson path
  ctx.replay(bin, area, cases, ...) -> spec->code: replay generated cases in the real code
  ctx.record(bin, area, out, ...)   -> code->spec: run seeded drivers, write ndjson trace
  ctx.validate(spec, cfg, trace)    -> R3 trace validation by TLC
  ctx.violation(...) / ctx.finish() -> verdict discipline, known findings, evidence file

Exit codes: 0 property held on everything explored; 1 VIOLATION (confirmed
against the real code); 2 machinery could not decide (never a violation).
"""
import hashlib
import itertools
import json
import os
import re
import shutil
import subprocess
import sys
import threading
import time

VERIF = os.path.dirname(os.path.dirname(os.path.abspath(__file__)))
REPO = os.environ.get("VERIF_REPO", "/repo")
SPECS = os.path.join(VERIF, "specs")
HARNESS = os.path.join(VERIF, "harness")
CACHE = os.path.join(VERIF, ".cache")
JAR = "/opt/veriftools/tla/tla2tools.jar:/opt/veriftools/tla/CommunityModules-deps.jar"
NCPU = os.cpu_count() or 4

GOENV = dict(os.environ, GOFLAGS="-mod=mod", GOPROXY="off", GOSUMDB="off",
             GOTOOLCHAIN="local", CGO_ENABLED=os.environ.get("CGO_ENABLED", "1"))


class Undecided(Exception):
    """The machinery failed (TLC crash, timeout, build failure). Exit 2."""


def sh(cmd, timeout, cwd=None, env=None, stdin=None, stdout=subprocess.PIPE):
    t0 = time.time()
    try:
        p = subprocess.run(cmd, cwd=cwd, env=env, stdin=stdin, stdout=stdout,
                           stderr=subprocess.STDOUT, timeout=timeout)
    except subprocess.TimeoutExpired as e:
        raise Undecided("timeout after %ss: %s" % (timeout, " ".join(cmd)[:200]))
    return p.returncode, (p.stdout.decode("utf-8", "replace") if p.stdout else ""), time.time() - t0


def sha(*parts):
    h = hashlib.sha256()
    for p in parts:
        h.update(p if isinstance(p, bytes) else str(p).encode())
        h.update(b"\0")
    return h.hexdigest()[:24]


class Ctx:
    def __init__(self, pid, tier, seed, replay=None):
        self.id = pid
        self.tier = tier
        self.seed = seed
        self.replay_path = replay
        self.t0 = time.time()
        self.work = os.path.join(VERIF, ".work", "%s-%d" % (pid, os.getpid()))
        shutil.rmtree(self.work, ignore_errors=True)
        os.makedirs(self.work)
        os.makedirs(CACHE, exist_ok=True)
        self.states = 0
        self.transitions = 0
        self.traces = 0          # replayed spec behaviours + accepted recorded traces
        self.cases = 0
        self.nontrivial = 0
        self.samples = []
        self.stages = []         # per-stage detail for evidence
        self.violations = []     # confirmed, not-known violations
        self.known_hits = []
        self.assumptions = []
        self.notes = []
        self.binaries = {}
        self.known = load_known(pid)
        self.exhaustive = None
        self._ctr = itertools.count()
        self._lock = threading.Lock()

    def parallel(self, thunks, width=4):
        """Run independent stages concurrently (each thunk calls ctx methods). Exceptions propagate."""
        from concurrent.futures import ThreadPoolExecutor
        with ThreadPoolExecutor(max_workers=width) as ex:
            futs = [ex.submit(t) for t in thunks]
            return [f.result() for f in futs]

    # ------------------------------------------------------------------ build
    def build(self, tags=""):
        """Build the harness against /repo's current working tree."""
        key = tags
        if key in self.binaries:
            return self.binaries[key]
        out = os.path.join(self.work, "harness-" + (re.sub(r"\W+", "_", tags) or "default"))
        alltags = ("verif " + tags).strip()
        race = []
        if "race" in tags.split():
            alltags = " ".join(t for t in alltags.split() if t != "race")
            race = ["-race"]
        self._sync_gosum()
        modfile = []
        if os.path.abspath(REPO) != "/repo":
            # VERIF_REPO points at a scratch copy of the repository (seedtest): build against it through an
            # alternate go.mod so that /repo itself is never touched
            mf = os.path.join(self.work, "alt.mod")
            text = open(os.path.join(HARNESS, "go.mod")).read().replace("=> /repo", "=> " + os.path.abspath(REPO))
            # builds of several variants run in parallel: never let one of them see a half-written file
            for path, data in ((mf, text), (os.path.join(self.work, "alt.sum"), open(os.path.join(REPO, "go.sum")).read())):
                if not os.path.exists(path) or open(path).read() != data:
                    tmp = "%s.%d.%d.tmp" % (path, os.getpid(), threading.get_ident())
                    open(tmp, "w").write(data)
                    os.replace(tmp, path)
            modfile = ["-modfile=" + mf]
        cover = []
        if os.environ.get("VERIF_COVER") and not race:
            # developer aid (tools/coverage): which gonum code do the replays / recorders execute at all?
            # (GOCOVERDIR must be exported by the caller; the harness processes inherit it)
            cover = ["-cover", "-coverpkg=gonum.org/v1/gonum/..."]
        cmd = ["go", "build"] + modfile + race + cover + ["-tags", alltags, "-o", out, "./cmd/harness"]
        rc, o, dt = sh(cmd, 900, cwd=HARNESS, env=GOENV)
        if rc != 0:
            raise Undecided("harness build failed (tags=%s):\n%s" % (alltags, o[-3000:]))
        self.binaries[key] = out
        return out

    def _sync_gosum(self):
        src = os.path.join(REPO, "go.sum")
        dst = os.path.join(HARNESS, "go.sum")
        try:
            if not os.path.exists(dst) or open(src, "rb").read() != open(dst, "rb").read():
                shutil.copy(src, dst)
        except OSError:
            pass

    # ------------------------------------------------------------------- TLC
    def _cfg(self, cfg, subst):
        """Instantiate a cfg template (@NAME@ placeholders) into the work dir."""
        text = open(cfg).read()
        for k, v in (subst or {}).items():
            text = text.replace("@%s@" % k, str(v))
        if re.search(r"@[A-Z_]+@", text):
            raise Undecided("unsubstituted placeholder in %s: %s" % (cfg, re.findall(r"@[A-Z_]+@", text)))
        return text

    def _run_tlc(self, spec, cfgtext, workers, timeout, extra=(), javaopts=(), outfile=None, copy=()):
        """Run TLC in a private scratch dir. Returns (rc, output text or path, seconds)."""
        specdir = os.path.dirname(spec)
        run = os.path.join(self.work, "tlc-%d" % next(self._ctr))
        os.makedirs(run)
        # copy the spec dir and lib so TLC litter stays in scratch
        for d in (specdir, os.path.join(SPECS, "lib")):
            if not os.path.isdir(d):
                continue
            for f in os.listdir(d):
                if f.endswith(".tla"):
                    shutil.copy(os.path.join(d, f), run)
        for f in copy:
            shutil.copy(f, run)
        mod = os.path.basename(spec)[:-4]
        with open(os.path.join(run, mod + ".cfg"), "w") as fh:
            fh.write(cfgtext)
        heap = os.environ.get("VERIF_TLC_HEAP", "6g")     # several TLC processes run side by side
        cmd = ["java", "-XX:+UseParallelGC", "-Xss256m", "-Xmx" + heap] + list(javaopts) + ["-cp", JAR, "tlc2.TLC",
               "-metadir", os.path.join(run, "md"), "-workers", str(workers),
               "-config", mod + ".cfg"] + list(extra) + [mod + ".tla"]
        if outfile:
            with open(outfile, "wb") as fh:
                rc, _, dt = sh(cmd, timeout, cwd=run, stdout=fh)
            out = outfile
        else:
            rc, out, dt = sh(cmd, timeout, cwd=run)
        shutil.rmtree(os.path.join(run, "md"), ignore_errors=True)
        return rc, out, dt, run

    @staticmethod
    def _stats(text):
        m = re.findall(r"(\d+) states generated, (\d+) distinct states found", text)
        if not m:
            return 0, 0
        g, d = m[-1]
        return int(g), int(d)

    def tlc(self, spec, cfg, subst=None, workers=None, timeout=1200, name=None, coverage=False,
            extra=(), expect_fail=False):
        """R1: model-check a spec. Any TLC error is Undecided (the spec is our own artefact:
        a failing design invariant is a spec bug or a modelling finding, handled by the caller
        through expect_fail)."""
        spec = os.path.join(SPECS, spec)
        cfgtext = self._cfg(os.path.join(SPECS, cfg), subst)
        ex = list(extra)
        if coverage:
            ex += ["-coverage", "1"]
        rc, out, dt, run = self._run_tlc(spec, cfgtext, workers or NCPU, timeout, ex)
        gen, dist = self._stats(out)
        ok = rc == 0 and "Model checking completed. No error has been found." in out
        st = {"stage": name or ("tlc:" + cfg), "kind": "R1-model", "ok": ok, "generated": gen,
              "distinct": dist, "seconds": round(dt, 1)}
        if coverage:
            zero = re.findall(r"<(\w+) line (\d+), col \d+ to line \d+, col \d+ of module (\w+)>: 0:0", out)
            st["actions_never_taken"] = ["%s@%s:%s" % (a, m, l) for a, l, m in zero]
        self.stages.append(st)
        shutil.rmtree(run, ignore_errors=True)
        if expect_fail:
            st["expected_to_fail"] = True
            # the verdict lines first: a long counterexample (its length varies between multi-worker
            # runs) must not push "Invariant X is violated" out of what the callers inspect
            verdict = [l for l in out.splitlines() if "violated" in l or l.startswith("Error:")]
            st["output_tail"] = ("\n".join(verdict)[:1500] + "\n" + out[-1500:]).strip()
            return st
        if not ok:
            raise Undecided("TLC run %s did not complete cleanly:\n%s" % (cfg, out[-4000:]))
        self.states += dist
        self.transitions += gen
        return st

    def gen(self, spec, cfg, subst=None, timeout=1800, name=None, cache=True, extra=(), workers=1):
        """R2: run a generator spec (single worker; JSON lines printed with PrintT(ToJson(..)))
        and return the path of an ndjson file with the emitted cases."""
        spec_p = os.path.join(SPECS, spec)
        cfgtext = self._cfg(os.path.join(SPECS, cfg), subst)
        specdir = os.path.dirname(spec_p)
        h = sha(cfgtext, *[open(os.path.join(d, f), "rb").read()
                           for d in (specdir, os.path.join(SPECS, "lib")) if os.path.isdir(d)
                           for f in sorted(os.listdir(d)) if f.endswith(".tla")], *extra)
        base = os.path.join(CACHE, "%s-%s" % (os.path.basename(spec)[:-4], h))
        nd, meta = base + ".ndjson", base + ".meta.json"
        if cache and os.path.exists(nd) and os.path.exists(meta):
            m = json.load(open(meta))
            cached = True
        else:
            raw = os.path.join(self.work, "gen-%s.out" % h)
            rc, _, dt, run = self._run_tlc(spec_p, cfgtext, workers, timeout, extra, outfile=raw)
            n = 0
            tail = []
            with open(raw, "r", errors="replace") as fi, open(nd + ".tmp", "w") as fo:
                for line in fi:
                    if line.startswith('"{') or line.startswith('"['):
                        try:
                            fo.write(json.loads(line) + "\n")
                            n += 1
                        except ValueError:
                            raise Undecided("unparsable generator line: " + line[:200])
                    else:
                        tail.append(line)
                        if len(tail) > 60:
                            tail.pop(0)
            text = "".join(tail)
            g, d = self._stats(text)
            ok = rc == 0 and ("No error has been found" in text or "Finished computing initial states" in text)
            shutil.rmtree(run, ignore_errors=True)
            os.remove(raw)
            if not ok or n == 0:
                os.remove(nd + ".tmp")
                raise Undecided("generator %s failed (rc=%s, %d lines):\n%s" % (cfg, rc, n, text[-3000:]))
            os.replace(nd + ".tmp", nd)
            m = {"lines": n, "generated": g, "distinct": d, "seconds": round(dt, 1)}
            json.dump(m, open(meta, "w"))
            cached = False
        self.states += m["distinct"]
        self.transitions += m["generated"]
        self.stages.append({"stage": name or ("gen:" + cfg), "kind": "R2-generator", "lines": m["lines"],
                            "generated": m["generated"], "distinct": m["distinct"],
                            "seconds": m["seconds"], "cached": cached})
        return nd

    # -------------------------------------------------------------- harness
    def replay(self, binary, area, cases, args=(), timeout=1800, name=None, env=None, confirm=True):
        """spec->code. The harness prints one JSON summary object on its last stdout line:
        {cases, nontrivial, failures:[{sig, msg, case}], samples:[...], extra:{...}}"""
        cmd = [binary, "replay", area, "-in", cases, "-seed", str(self.seed)] + list(args)
        e = dict(GOENV)
        e.update(env or {})
        rc, out, dt = sh(cmd, timeout, env=e)
        summ = self._summary(out, rc, cmd)
        st = {"stage": name or ("replay:%s" % area), "kind": "spec->code", "cases": summ.get("cases", 0),
              "nontrivial": summ.get("nontrivial", 0), "failures": len(summ.get("failures", [])),
              "seconds": round(dt, 1), "binary": os.path.basename(binary)}
        st.update({k: v for k, v in summ.get("extra", {}).items()})
        self.stages.append(st)
        self.cases += summ.get("cases", 0)
        self.nontrivial += summ.get("nontrivial", 0)
        self.traces += summ.get("cases", 0)
        for s in summ.get("samples", [])[:2]:
            if len(self.samples) < 8:
                self.samples.append(s)
        for f in summ.get("failures", []):
            self._handle_failure(f, binary, area, args, confirm, e)
        return summ

    def record(self, binary, area, out, args=(), timeout=1800, name=None, env=None):
        """code->spec: run a seeded driver in the real code, producing an ndjson trace file."""
        cmd = [binary, "record", area, "-out", out, "-seed", str(self.seed)] + list(args)
        e = dict(GOENV)
        e.update(env or {})
        rc, o, dt = sh(cmd, timeout, env=e)
        summ = self._summary(o, rc, cmd)
        st = {"stage": name or ("record:%s" % area), "kind": "code->spec/record",
              "events": summ.get("events", 0), "traces": summ.get("traces", 0), "seconds": round(dt, 1)}
        st.update({k: v for k, v in summ.get("extra", {}).items()})
        self.stages.append(st)
        for f in summ.get("failures", []):
            self._handle_failure(f, binary, area, args, False, e)
        return summ

    def _summary(self, out, rc, cmd):
        lines = [l for l in out.strip().split("\n") if l.startswith("{")]
        if rc != 0 or not lines:
            raise Undecided("harness died rc=%s: %s\n%s" % (rc, " ".join(cmd)[:300], out[-3000:]))
        try:
            return json.loads(lines[-1])
        except ValueError:
            raise Undecided("harness summary unparsable:\n" + out[-2000:])

    def _handle_failure(self, f, binary, area, args, confirm, env):
        sig = f.get("sig", "")
        if confirm and "case" in f:
            # re-execute the single case alone in a fresh process
            one = os.path.join(self.work, "one-%d.ndjson" % next(self._ctr))
            with open(one, "w") as fh:
                for c in f.get("prelude", []):
                    fh.write(json.dumps(c) + "\n")
                fh.write(json.dumps(f["case"]) + "\n")
            rc, out, _ = sh([binary, "replay", area, "-in", one, "-seed", str(self.seed)] + list(args), 600, env=env)
            try:
                s2 = self._summary(out, rc, ["confirm"])
            except Undecided:
                s2 = {"failures": [{"sig": "harness-died"}]}
            if not s2.get("failures"):
                self.notes.append("unconfirmed failure dropped (did not reproduce alone): %s" % sig)
                self.unconfirmed = getattr(self, "unconfirmed", 0) + 1
                return
        self.violation(sig, f.get("msg", ""), {"area": area, "args": list(args), "failure": f})

    def validate(self, spec, cfg, trace, subst=None, timeout=1800, name=None, dfs=False, workers=1,
                 accept_re=r"TRACE-ACCEPTED (\d+)"):
        """R3: TLC validates a recorded ndjson trace file against a trace spec.
        The trace spec prints 'TRACE-ACCEPTED <n>' from its POSTCONDITION when the whole file was
        consumed; otherwise it prints 'TRACE-REJECTED <line>' and TLC reports the failure."""
        spec_p = os.path.join(SPECS, spec)
        cfgtext = self._cfg(os.path.join(SPECS, cfg), subst)
        tdir = os.path.join(self.work, "tr-%d" % next(self._ctr))
        os.makedirs(tdir)
        tmp = os.path.join(tdir, "trace.ndjson")
        shutil.copy(trace, tmp)
        jo = ["-Dtlc2.tool.queue.IStateQueue=StateDeque"] if dfs else []
        rc, out, dt, run = self._run_tlc(spec_p, cfgtext, workers, timeout, javaopts=jo, copy=[tmp])
        gen, dist = self._stats(out)
        m = re.search(accept_re, out)
        accepted = rc == 0 and m is not None and "No error has been found" in out
        rej = re.search(r"TRACE-REJECTED[^\n]*", out)
        st = {"stage": name or ("validate:" + cfg), "kind": "code->spec/validate", "accepted": accepted,
              "generated": gen, "distinct": dist, "seconds": round(dt, 1)}
        if m:
            st["events_consumed"] = int(m.group(1))
        self.stages.append(st)
        shutil.rmtree(run, ignore_errors=True)
        if accepted:
            self.states += dist
            self.transitions += gen
            return True, st
        if rej is None:
            # a rejection is only ever reported through the trace spec's own TRACE-REJECTED line (or an
            # invariant of the spec violated by the real history); anything else is the machinery failing
            if "is violated" not in out:
                raise Undecided("trace validation run failed for infrastructure reasons:\n" + out[-4000:])
        st["detail"] = (rej.group(0) if rej else "") + " | " + out[-1200:]
        return False, st

    # -------------------------------------------------------------- verdicts
    def violation(self, sig, msg, replay_obj):
        for k in self.known:
            if k.get("status") == "known" and re.search(k["match"], sig):
                if k["id"] not in [h["id"] for h in self.known_hits]:
                    self.known_hits.append(k)
                return
        d = os.path.join(VERIF, "replays", self.id)
        os.makedirs(d, exist_ok=True)
        path = os.path.join(d, "%s-%s.json" % (self.tier, sha(sig, json.dumps(replay_obj, sort_keys=True))[:10]))
        with open(path, "w") as fh:
            json.dump({"property": self.id, "sig": sig, "msg": msg, "seed": self.seed,
                       "rerun": "tools/check %s --replay %s" % (self.id, path), "data": replay_obj}, fh, indent=1)
        if len(self.violations) < 25:
            self.violations.append((sig, msg, path))

    def finish(self, level="model_checking", rule="", exhaustive=None, extra_cov=None):
        wall = time.time() - self.t0
        cov = {
            "states": max(self.states, 0), "transitions": max(self.transitions, 0),
            "traces_validated_against_impl": self.traces,
            "samples": self.samples[:8] or ["(none)"],
            "evaluations": self.cases, "distinct_nontrivial": self.nontrivial,
            "rule": rule, "stages": self.stages,
        }
        if exhaustive is not None:
            cov["exhaustive"] = exhaustive
        if extra_cov:
            cov.update(extra_cov)
        if self.notes:
            cov["notes"] = self.notes[:40]
        cov["known_findings_hit"] = [k["id"] for k in self.known_hits]
        ev = {"property_id": self.id, "tier": self.tier, "seed": self.seed, "level": level,
              "coverage": cov, "assumptions": self.assumptions, "wall_s": round(wall, 1),
              "violations": len(self.violations)}
        if not self.replay_path:
            # VERIF_EVIDENCE_DIR: runs against a scratch copy of gonum (tools/seedtest) must not
            # overwrite the evidence of the real tree
            evdir = os.environ.get("VERIF_EVIDENCE_DIR") or os.path.join(VERIF, "evidence")
            os.makedirs(evdir, exist_ok=True)
            with open(os.path.join(evdir, self.id + ".json"), "w") as fh:
                json.dump(ev, fh, indent=1)
        for k in self.known_hits:
            print("KNOWN-FINDING: property=%s %s" % (self.id, k["what"]))
        for sig, msg, path in self.violations:
            print("VIOLATION property=%s replay=%s" % (self.id, path))
            print("  " + sig + " :: " + msg[:1500])
        shutil.rmtree(self.work, ignore_errors=True)
        print("%s %s tier=%s seed=%d states=%d transitions=%d impl_cases=%d wall=%.0fs" % (
            self.id, "VIOLATED" if self.violations else "ok", self.tier, self.seed, self.states,
            self.transitions, self.traces, wall))
        return 1 if self.violations else 0


def load_known(pid):
    p = os.path.join(VERIF, "known_findings.json")
    if not os.path.exists(p):
        return []
    return [k for k in json.load(open(p)).get("findings", []) if k.get("property") == pid]


def main(argv):
    import argparse
    import importlib.util
    ap = argparse.ArgumentParser()
    ap.add_argument("id")
    ap.add_argument("--tier", default=os.environ.get("VERIF_TIER", "quick"))
    ap.add_argument("--replay")
    a = ap.parse_args(argv)
    seed = int(os.environ.get("VERIF_SEED", "1") or 1)
    tier = a.tier if a.tier in ("quick", "thorough") else "quick"
    modp = os.path.join(VERIF, "tools", "props", a.id + ".py")
    if not os.path.exists(modp):
        print("no check for", a.id)
        return 2
    spec = importlib.util.spec_from_file_location("prop_" + a.id, modp)
    mod = importlib.util.module_from_spec(spec)
    spec.loader.exec_module(mod)
    ctx = Ctx(a.id, tier, seed, a.replay)
    try:
        if a.replay:
            return mod.replay(ctx, a.replay)
        return mod.run(ctx)
    except Exception as e:
        # Undecided (possibly the class of a second import of this module by a property file) and
        # any unexpected failure of the machinery itself: never a violation, exit 2
        if type(e).__name__ != "Undecided":
            import traceback
            traceback.print_exc()
        print("UNDECIDED %s: %s" % (a.id, e))
        if ctx.violations and not a.replay:
            # a later stage failed for infrastructure reasons, but confirmed violations were already
            # found: report them (the evidence file records the undecided stage)
            ctx.notes.append("a later stage was undecided: %s" % str(e)[:500])
            return ctx.finish(rule="(run aborted by an undecided stage after violations were found)")
        shutil.rmtree(ctx.work, ignore_errors=True)
        return 2


if __name__ == "__main__":
    sys.exit(main(sys.argv[1:]))
