"""X02 - specification growth: the small stateful data structures and traversals of gonum's graph packages.

 Traverse.tla       what traverse.BreadthFirst / DepthFirst promise for ONE Walk / WalkAll, as clauses over the
                    log of callbacks (Visit, until, Traverse, before / after / during), the returned node and the
                    Visited answers; only what every legal neighbour order satisfies.
 TraverseImpl.tla   R1: implementation-shaped models of the two walkers (queue + depth counters, stack with
                    duplicates, WalkAll loop) with the neighbour order left nondeterministic; TLC proves that every
                    behaviour satisfies all clauses of Traverse.tla on every small graph, and refutes five seeded
                    design errors (non-vacuity).
 TraverseGen.tla    R2 generator of walk scenarios (every small graph x scripted until x scripted Traverse).
 TraverseTrace.tla  R3: the walker as a state machine (visited set, clean flag); the harness records real histories
                    (new / Walk / continued Walk / Reset and reuse on another graph / WalkAll, nil callbacks) and TLC
                    accepts or rejects them.
 Linear.tla         graph/internal/linear NodeStack / NodeQueue as sequences; every history of Depth operations.
 LinearImpl.tla     R1: the head / data / capacity layout of NodeQueue refines the FIFO for every growth policy.
 SetAlgebra.tla     graph/internal/set (Ints[T], Nodes) as a register machine over a heap of sets: sharing of one
                    set by two registers, nil maps, fresh results of Clone / Union / Intersection, allowed stored values.
 GraphOps.tla       graph.Copy / CopyWeighted between every pair of concrete container kinds (empty, disjoint and
                    colliding destinations), graph.Complement (From, Edge, HasEdgeBetween, its node iterator's Len),
                    ReversedEdge / ReversedLine of the edge and line value types.
 OrderKeys.tla      internal/order on keys from the whole int64 range (ranks into a table of 64-bit values in limbs).

graph/internal/set and graph/internal/linear are internal to gonum.org/v1/gonum/graph, so the harness (module
gonum.org/v1/gonum/verifharness) may not import them. The check therefore builds its own harness binary with
`go build -overlay`: the one-file package harness/internal/misc/graphint/graphint.go.txt (type aliases only) is
presented to the compiler as <gonum>/graph/verifx02/graphint.go. Nothing is written into the repository; the Go
files that need it carry the build tag x02shim, so every other check's harness build is unaffected.
"""
import json
import os
import shutil

HERE = os.path.dirname(os.path.abspath(__file__))
VERIF = os.path.dirname(os.path.dirname(HERE))


def load_local_known(ctx):
    p = os.path.join(HERE, "X02.findings.json")
    if os.path.exists(p):
        have = {k.get("id") for k in ctx.known}
        for k in json.load(open(p)).get("findings", []):
            if k.get("id") not in have:
                ctx.known.append(k)


def build_shim(ctx, tags=""):
    """ctx.build with the overlay package and the tag x02shim."""
    import vlib
    key = "x02shim " + tags
    if key in ctx.binaries:
        return ctx.binaries[key]
    repo = os.path.abspath(vlib.REPO)
    ov = os.path.join(ctx.work, "overlay.json")
    with open(ov, "w") as fh:
        json.dump({"Replace": {os.path.join(repo, "graph", "verifx02", "graphint.go"):
                               os.path.join(vlib.HARNESS, "internal", "misc", "graphint", "graphint.go.txt")}}, fh)
    out = os.path.join(ctx.work, "harness-x02-" + (tags or "default"))
    ctx._sync_gosum()
    modfile = []
    if repo != "/repo":
        mf = os.path.join(ctx.work, "alt-x02.mod")
        text = open(os.path.join(vlib.HARNESS, "go.mod")).read().replace("=> /repo", "=> " + repo)
        open(mf, "w").write(text)
        shutil.copy(os.path.join(repo, "go.sum"), os.path.join(ctx.work, "alt-x02.sum"))
        modfile = ["-modfile=" + mf]
    cmd = ["go", "build"] + modfile + ["-overlay", ov, "-tags", ("verif x02shim " + tags).strip(), "-o", out, "./cmd/harness"]
    rc, o, dt = vlib.sh(cmd, 900, cwd=vlib.HARNESS, env=vlib.GOENV)
    if rc != 0:
        raise vlib.Undecided("harness build with the graph/internal overlay failed (tags=%s):\n%s" % (tags, o[-3000:]))
    ctx.binaries[key] = out
    return out


def keep_trace(ctx, tr, name, st, spec):
    keep = os.path.join(VERIF, "replays", "X02")
    os.makedirs(keep, exist_ok=True)
    dst = os.path.abspath(os.path.join(keep, "%s-seed%d.ndjson" % (name, ctx.seed)))
    shutil.copy(tr, dst)
    ctx.violation("misc-traverse:trace-rejected:%s" % name, st.get("detail", "")[:900], {"trace": dst, "spec": spec, "cfg": {}})


# ------------------------------------------------------------------------------------- traversal
def must_fail(ctx, st, what):
    """A seeded design error must end in an invariant violation (the counterexample printed by TLC is longer than the
    kept tail, so the check is: states were explored, the run failed, and not with an evaluation / parse error)."""
    tail = st.get("output_tail", "")
    bad = any(w in tail for w in ("was evaluating", "Exception", "Parse", "Unknown operator", "semantic error"))
    if st.get("ok") or st.get("distinct", 0) == 0 or bad or ("is violated" not in tail and "states generated" not in tail):
        import vlib
        raise vlib.Undecided("vacuous: TLC did not refute the seeded design error '%s':\n%s" % (what, st.get("output_tail", "")[-600:]))


def traverse_r1(ctx):
    thorough = ctx.tier == "thorough"
    spec, cfg = "misc/TraverseImpl.tla", "misc/TraverseImpl.cfg"

    def run(n, directed, alg, mode, scope, mutant=0, workers=3):
        sub = dict(N=n, DIRECTED="TRUE" if directed else "FALSE", ALG=alg, MODE=mode, SCOPE=scope, MUTANT=mutant)
        name = "R1 TraverseImpl %s %s %s N=%d scope=%s" % (alg, mode, "digraphs" if directed else "undirected", n, scope)
        if mutant:
            st = ctx.tlc(spec, cfg, subst=sub, workers=workers, name=name + " MUTANT %d (must be refuted)" % mutant, expect_fail=True)
            must_fail(ctx, st, "mutant %d" % mutant)
        else:
            ctx.tlc(spec, cfg, subst=sub, workers=workers, name=name)

    jobs = []
    for alg in ("bfs", "dfs"):
        jobs += [lambda a=alg: run(3, True, a, "walk", "full"),
                 lambda a=alg: run(4 if thorough else 3, False, a, "walk", "full", workers=6 if thorough else 3),
                 lambda a=alg: run(4, False, a, "all", "full" if thorough else "plain"),
                 lambda a=alg: run(3, False, a, "all", "full"),
                 lambda a=alg: run(3, False, a, "all", "flags"),
                 lambda a=alg: run(3, True, a, "walk", "flags")]
        if thorough:
            jobs += [lambda a=alg: run(4, True, a, "walk", "plain", workers=4),
                     lambda a=alg: run(4, False, a, "all", "flags", workers=4)]
    # the seeded design errors; 1 and 3 need four nodes (a path of three edges / a claw with one more edge), which the
    # undirected 4-node graphs already contain
    jobs += [lambda: run(4, False, "bfs", "walk", "plain", 1), lambda: run(3, True, "bfs", "walk", "full", 2),
             lambda: run(4, False, "dfs", "walk", "plain", 3), lambda: run(3, True, "dfs", "walk", "full", 4),
             lambda: run(3, False, "bfs", "all", "plain", 5), lambda: run(3, False, "dfs", "all", "plain", 5)]
    ctx.parallel(jobs, width=5)
    if thorough:
        ctx.parallel([lambda a=alg: run(4, True, a, "walk", "mid", workers=6) for alg in ("bfs", "dfs")], width=2)


def traverse_r3(ctx, hb):
    thorough = ctx.tier == "thorough"
    salt = ctx.seed % 1000

    def gen(directed, nmin, nmax, maxt, shard, nshards):
        return ctx.gen("misc/TraverseGen.tla", "misc/TraverseGen.cfg",
                       subst=dict(DIRECTED="TRUE" if directed else "FALSE", NMIN=nmin, NMAX=nmax, MAXT=maxt, SALT=salt,
                                  SHARD=shard, NSHARDS=nshards),
                       name="R2 gen walk scenarios %s n=%d..%d |T|<=%d shard %d/%d" % ("digraphs" if directed else "undirected", nmin, nmax, maxt, shard, nshards))

    def one(tag, directed, nmin, nmax, maxt, shard=0, nshards=1, parts=1):
        cases = gen(directed, nmin, nmax, maxt, shard, nshards)
        for p in range(parts):
            tr = os.path.join(ctx.work, "walks-%s-%d.ndjson" % (tag, p))
            summ = ctx.record(hb, "misc-traverse", tr, ["cases=" + cases, "shard=%d" % p, "nshards=%d" % parts],
                              name="R3 record walks %s part %d/%d" % (tag, p + 1, parts))
            ok, st = ctx.validate("misc/TraverseTrace.tla", "misc/TraverseTrace.cfg", tr,
                                  name="R3 validate walks %s part %d/%d" % (tag, p + 1, parts), timeout=2400)
            if ok:
                ctx.traces += summ.get("traces", 0)
                ctx.cases += summ.get("traces", 0)
                ctx.nontrivial += summ.get("nontrivial", 0)
            else:
                keep_trace(ctx, tr, "walks-%s-%d" % (tag, p), st, "misc/TraverseTrace.tla")

    jobs = [lambda: one("dir3", True, 1, 3, 3), lambda: one("und4", False, 0, 4, 4)]
    if thorough:
        jobs += [lambda s=s: one("dir4-%d" % s, True, 4, 4, 4, s, 17, parts=4) for s in range(17)]
        jobs += [lambda s=s: one("und5-%d" % s, False, 5, 5, 2, s, 5) for s in range(5)]
    else:
        s = ctx.seed % 61          # one of 61 shards of the 4-node digraphs (67 graphs), all of them in the thorough tier
        jobs += [lambda: one("dir4-%d" % s, True, 4, 4, 2, s, 61)]
    ctx.parallel(jobs, width=4)


# ------------------------------------------------------------------------------ stack and queue
def linear_part(ctx, hb):
    thorough = ctx.tier == "thorough"
    ctx.tlc("misc/LinearImpl.tla", "misc/LinearImpl.cfg", subst=dict(DEPTH=12 if thorough else 10, MAXCAP=8, MUTANT=0), workers=2,
            name="R1 LinearImpl: NodeQueue layout refines the FIFO for every growth policy")
    st = ctx.tlc("misc/LinearImpl.tla", "misc/LinearImpl.cfg", subst=dict(DEPTH=8, MAXCAP=6, MUTANT=1), workers=2,
                 name="R1 LinearImpl MUTANT 1 (compaction keeps head; must be refuted)", expect_fail=True)
    must_fail(ctx, st, "NodeQueue compaction keeps head")

    def one(kind, depth):
        cases = ctx.gen("misc/Linear.tla", "misc/Linear.cfg", subst=dict(KIND=kind, DEPTH=depth, EMIT="TRUE"),
                        name="R1+R2 gen %s histories of %d operations (LenOK, ConservationOK)" % (kind, depth))
        ctx.replay(hb, "misc-linear", cases, name="R2 replay %s histories depth %d" % (kind, depth))
    ctx.parallel([lambda: one("stack", 13 if thorough else 11), lambda: one("queue", 10 if thorough else 8)], width=2)


# ----------------------------------------------------------------------------------------- sets
def set_part(ctx, bins):
    depth = 4 if ctx.tier == "thorough" else 3

    def one(fam):
        cases = ctx.gen("misc/SetAlgebra.tla", "misc/SetAlgebra.cfg", subst=dict(FAM=fam, DEPTH=depth, EMIT="TRUE"),
                        name="R1+R2 gen set machine family %s (Fresh, Sharing; Laws, ImplLemma as ASSUME)" % fam)
        for bn, bp in bins:
            ctx.replay(bp, "misc-set", cases, name="R2 replay sets %s [%s]" % (fam, bn))
    ctx.parallel([lambda f=f: one(f) for f in ("binop", "clone", "hist")], width=3)


# ------------------------------------------------------- graph.Copy, graph.Complement, reversals, sort keys
def graphops_part(ctx, hb):
    def one(mode, maxn):
        cases = ctx.gen("misc/GraphOps.tla", "misc/GraphOps.cfg", subst=dict(MODE=mode, MAXN=maxn),
                        name="R1+R2 gen graph helpers %s, source graphs <= %d nodes (Laws as ASSUME)" % (mode, maxn))
        ctx.replay(hb, "misc-graphops", cases, name="R2 replay graph helpers %s" % mode)
    big = ctx.tier == "thorough"
    ctx.parallel([lambda: one("copy", 3), lambda: one("compl", 4 if big else 3), lambda: one("rev", 0)], width=3)


def orderkeys_part(ctx, hb):
    jobs = [("ids", 1, 4, 5), ("values", 2, 3, 3), ("lines", 3, 2, 3)]
    if ctx.tier == "thorough":
        jobs = [("ids", 1, 4, 10), ("values", 2, 3, 3), ("values", 1, 4, 5), ("lines", 3, 2, 3)]

    def one(mode, ml, mn, nr):
        cases = ctx.gen("misc/OrderKeys.tla", "misc/OrderKeys.cfg", subst=dict(MODE=mode, MAXLEN=ml, MAXN=mn, NRANKS=nr),
                        name="R1+R2 gen sort keys %s len<=%d n<=%d over %d extreme int64 values (TableLemma, ResultOK)" % (mode, ml, mn, nr))
        ctx.replay(hb, "misc-orderkeys", cases, name="R2 replay sort keys %s len<=%d n<=%d ranks=%d" % (mode, ml, mn, nr))
    ctx.parallel([lambda j=j: one(*j) for j in jobs], width=3)


def run(ctx):
    load_local_known(ctx)
    hb = build_shim(ctx, "")
    bins = [("default", hb), ("safe", build_shim(ctx, "safe"))]
    ctx.parallel([lambda: traverse_r1(ctx), lambda: traverse_r3(ctx, hb), lambda: linear_part(ctx, hb),
                  lambda: set_part(ctx, bins), lambda: (graphops_part(ctx, hb), orderkeys_part(ctx, hb))], width=5)
    ctx.assumptions += [
        "TLC/SANY and the CommunityModules Json module are trusted",
        "the harness's operand builders (graphs in gonum containers and in 'ordered' wrappers whose From / Nodes iterate in "
        "a seeded permutation), the binding model id <-> real id and the logging callbacks are trusted",
        "graph/internal/set and graph/internal/linear are reached through a one-file alias package placed under "
        "<gonum>/graph/ with `go build -overlay` (nothing is written into the repository)",
        "traverse: the walker is only used the documented way - Walk on a walker that no earlier Walk left unfinished "
        "(Reset after an early exit) and from a node that is not yet visited; what happens otherwise is not specified by gonum",
    ]
    return ctx.finish(
        rule="traverse: one case = one recorded Walk / WalkAll call of a real walker accepted by TLC (non-trivial = more "
             "than two callbacks); linear: one history of push/pop or enqueue/dequeue/reset calls (non-trivial = something "
             "was removed); sets: one program of the register machine run on every set type that has its operations "
             "(non-trivial = at least one call); graph helpers: one enumerated source / destination pair, graph or edge value "
             "run on every container kind (non-trivial = there is an edge or a promised panic); sort keys: one input list "
             "(non-trivial = not already sorted).",
        exhaustive=True)


def replay(ctx, path):
    load_local_known(ctx)
    d = json.load(open(path))["data"]
    if "trace" in d:
        ok, st = ctx.validate(d["spec"], d["spec"].replace(".tla", ".cfg"), d["trace"], subst=d.get("cfg") or {})
        print("trace accepted" if ok else "trace rejected: " + st.get("detail", "")[:800])
        if not ok:
            print("VIOLATION property=X02 replay=%s" % path)
        return 0 if ok else 1
    one = os.path.join(ctx.work, "one.ndjson")
    with open(one, "w") as fh:
        fh.write(json.dumps(d["failure"]["case"]) + "\n")
    ctx.replay(build_shim(ctx, ""), d["area"], one, d["args"], confirm=False)
    return ctx.finish()
