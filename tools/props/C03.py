"""C03 - eigenvalue, Schur, singular value and generalized routines satisfy their identities.

R1  TLC checks on the bounded case space the identities that make the printed spectra exact
    (orthogonality of the planted factors, A*Q0 = Q0*D, A*V0 = U0*S, S*S^-1 = I, A*S = S*B,
    sortedness / multiset equality of the ordered lists, eigenvector and gap correctness).
R2  spec->code: PlantedSpectral.tla prints exactly representable matrices with their exact spectrum
    in the documented order, exact vectors of simple values, exact gaps and the factors of the
    property's tolerance (Weyl; Bauer-Fike with kappa(S)); the harness replays them through
    lapack/gonum.Implementation, lapack64 and mat under job / ld / lwork / block-size variation
    (lwork in {minimum, optimum, optimum+1, optimum+ld*n, 2*optimum+7, huge}, ld in {n, n+1, n+3}).
R2g generalized routines (Dgghrd, Dggsvp3, Dggsvd3, Dtgsja), the WEAKER binding: their factors are
    not unique, so GenPred.tla states the documented identity as a predicate over exact rationals,
    GenSpectralLemmas.tla has TLC check it on exactly known decompositions and mutations, and the
    harness evaluates the same formulas exactly on gonum's output for the integer instances of
    GenSpectral.tla (exact ranks and structure preconditions come from the specification).
R2k kernels bound directly (KernelSpectral.tla / KernelSpectralLemmas.tla): Dlag2 on planted 2x2 pencils A = B*S*D*S^-1
    (real and complex pairs, power-of-two scalings of A and B; the documented meaning of the five results is the
    predicate Lag2Accept with a Bauer-Fike tolerance) and Dlasq6 on planted qd windows on which every quotient is exact
    (definition: the rhombus rules; expected bit for bit, both ping-pong halves, windows inside a longer array);
    Dlasr (all 12 side x pivot x direct variants, exact quarter-turn rotations), Dlarfx (exact reflectors of every order
    1..12 from both sides) and Dlaqr1 (first column of the double-shift product, up to the unspecified scalar).
"""
import os

SMALL = {"sym": {"quick": 8, "thorough": 10}, "svd": {"quick": 6, "thorough": 8}, "gev": {"quick": 8, "thorough": 10}}
# shapes beyond the exhaustive small range (m*1000+n): they cross the block size 32 of the reductions,
# the mnthr = 1.6*min(m,n) paths of Dgesvd and the small-matrix / multishift crossover nmin = 75 of Dhseqr
BIG = {
    "sym": {"quick": [(16, 16), (17, 17), (20, 20), (33, 33), (65, 65), (76, 76)],
            "thorough": [(n, n) for n in (16, 17, 20, 33, 64, 65, 74, 75, 76, 80, 100, 128, 150)]},
    "svd": {"quick": [(40, 20), (20, 40), (33, 33), (70, 30), (30, 70), (17, 16), (64, 65), (100, 40)],
            "thorough": [(40, 20), (20, 40), (33, 33), (70, 30), (30, 70), (17, 16), (16, 17), (64, 65), (65, 64),
                         (100, 40), (40, 100), (80, 80), (128, 75), (150, 90), (90, 150)]},
    "gev": {"quick": [(17, 17), (20, 20), (33, 33), (76, 76)],
            "thorough": [(n, n) for n in (16, 17, 20, 33, 64, 65, 74, 75, 76, 80, 100, 128, 150)]},
}
LEMMA = {"quick": 5, "thorough": 7}
FAMS = ("sym", "svd", "gev")
# condensed-form families (CondensedSpectral.tla): (Small, Big) per tier; Big = extra sizes n
COND = {
    "tri": {"quick": (9, [20, 41]), "thorough": (12, [20, 41, 80])},
    "bid": {"quick": (9, [20, 41]), "thorough": (12, [20, 41, 80])},
    "lanv2": {"quick": (2, []), "thorough": (3, [])},
    "trexc": {"quick": (6, []), "thorough": (8, [])},
    "bal": {"quick": (7, []), "thorough": (9, [])},
}
COND_LEMMA = {"tri": {"quick": 7, "thorough": 9}, "bid": {"quick": 7, "thorough": 9}, "lanv2": {"quick": 2, "thorough": 3},
              "trexc": {"quick": 5, "thorough": 6}, "bal": {"quick": 5, "thorough": 6}}
# block size / crossover forced through the verifhook.Ilaenv override (ispec 1 and 3)
FORCED = {"quick": [(2, 0), (3, 2)], "thorough": [(1, 0), (2, 0), (3, 0), (4, 0), (2, 2), (3, 2), (5, 0)]}


# generalized routines (GenSpectral.tla / GenPred.tla): (Small, Vars) per tier
GEN = {
    "gghrd": {"quick": (5, 6), "thorough": (6, 12)},
    "ggsvd": {"quick": (4, 8), "thorough": (5, 16)},
    "tgsja": {"quick": (4, 2), "thorough": (5, 3)},
}


# kernels (KernelSpectral.tla): all families (lag2, lasq6, lasr, larfx, laqr1) in one TLC run; Small per tier
# (lag2: >= 7 = every scaling of every pencil; lasq6: largest window; lasr: matrices up to min(Small, 5))
KERN = {"kall": {"quick": 6, "thorough": 7}}


GEN_LEMMA = {
    "gghrd": {"quick": (4, 6), "thorough": (6, 6)},
    "ggsvd": {"quick": (4, 8), "thorough": (5, 8)},
    "tgsja": {"quick": (3, 2), "thorough": (5, 1)},
}


def gen_subst(fam, tier, seed, table=None):
    small, nvars = (table or GEN)[fam][tier]
    return dict(FAM=fam, SMALL=small, VARS=nvars, SEED=seed)


def enc(shapes):
    return "{" + ", ".join(str(m * 1000 + n) for m, n in shapes) + "}"


def run(ctx):
    thorough = ctx.tier == "thorough"
    builds = [("default", ""), ("noasm", "noasm")]
    if thorough:
        builds.append(("safe", "safe"))
    bins = {n: ctx.build(t) for n, t in builds}

    # ---- R1: the identities behind the planted spectra ------------------------------------------
    r1 = ([(lambda fam=fam: ctx.tlc("spectral/PlantedSpectralLemmas.tla", "spectral/PlantedSpectralLemmas.cfg",
                                            name="R1 PlantedSpectralLemmas %s" % fam,
                                            subst=dict(FAM=fam, SMALL=LEMMA[ctx.tier], BIG="{}", SEED=ctx.seed), workers=2))
                  for fam in FAMS] +
                 [(lambda fam=fam: ctx.tlc("spectral/CondensedSpectralLemmas.tla", "spectral/CondensedSpectralLemmas.cfg",
                                            name="R1 CondensedSpectralLemmas %s" % fam,
                                            subst=dict(FAM=fam, SMALL=COND_LEMMA[fam][ctx.tier], BIG="{}", SEED=ctx.seed), workers=2))
                  for fam in COND] +
                 [(lambda fam=fam: ctx.tlc("spectral/GenSpectralLemmas.tla", "spectral/GenSpectralLemmas.cfg",
                                            name="R1 GenSpectralLemmas %s" % fam,
                                            subst=gen_subst(fam, ctx.tier, ctx.seed, GEN_LEMMA), workers=2))
                  for fam in GEN] +
                 [(lambda fam=fam: ctx.tlc("spectral/KernelSpectralLemmas.tla", "spectral/KernelSpectralLemmas.cfg",
                                            name="R1 KernelSpectralLemmas (lag2 lasq6 lasr larfx laqr1)",
                                            subst=dict(FAM=fam, SMALL=KERN[fam][ctx.tier], BIG="{}", SEED=ctx.seed), workers=2))
                  for fam in KERN])

    # ---- R2: planted instances replayed into gonum --------------------------------------------------
    def one(fam):
        cases = ctx.gen("spectral/PlantedSpectral.tla", "spectral/PlantedSpectral.cfg", name="R2 gen planted %s" % fam,
                        subst=dict(FAM=fam, SMALL=SMALL[fam][ctx.tier], BIG=enc(BIG[fam][ctx.tier]), SEED=ctx.seed))
        # the replays of one family are independent of each other: a nested pool
        jobs = [(lambda bn=bn: ctx.replay(bins[bn], "spectral", cases, [], name="R2 replay %s [%s]" % (fam, bn)))
                for bn, _ in builds]
        # the same instances with the block size / crossover of the reductions (Dsytrd, Dorgtr, Dgebrd,
        # Dorgbr, Dgehrd, Dorghr, Dgeqrf, ...) forced small: blocked code runs on every small shape
        jobs += [(lambda nb=nb, nx=nx: ctx.replay(bins["default"], "spectral", cases, ["nb=%d" % nb, "nx=%d" % nx],
                                                  name="R2 replay %s nb=%d nx=%d [default]" % (fam, nb, nx)))
                 for nb, nx in FORCED[ctx.tier]]
        ctx.parallel(jobs, width=4 if fam == "svd" else 2)

    def cond(fam):
        small, big = COND[fam][ctx.tier]
        cases = ctx.gen("spectral/CondensedSpectral.tla", "spectral/CondensedSpectral.cfg", name="R2 gen condensed %s" % fam,
                        subst=dict(FAM=fam, SMALL=small, BIG="{" + ", ".join(map(str, big)) + "}", SEED=ctx.seed))
        for bn, _ in builds:
            ctx.replay(bins[bn], "spectral", cases, [], name="R2 replay %s [%s]" % (fam, bn))

    def general(fam):
        cases = ctx.gen("spectral/GenSpectral.tla", "spectral/GenSpectral.cfg", name="R2g gen generalized %s" % fam,
                        subst=gen_subst(fam, ctx.tier, ctx.seed))
        for bn, _ in builds:
            ctx.replay(bins[bn], "spectral", cases, [], name="R2g replay %s [%s]" % (fam, bn))
    def kernel(fam):
        cases = ctx.gen("spectral/KernelSpectral.tla", "spectral/KernelSpectral.cfg", name="R2k gen kernels (lag2 lasq6 lasr larfx laqr1)",
                        subst=dict(FAM=fam, SMALL=KERN[fam][ctx.tier], BIG="{}", SEED=ctx.seed))
        for bn, _ in builds:
            ctx.replay(bins[bn], "spectral", cases, [], name="R2k replay kernels [%s]" % bn)
    # R1 and R2 stages are independent: one pool, the long generators first
    ctx.parallel([(lambda fam=fam: one(fam)) for fam in ("svd", "gev", "sym")] + r1
                 + [(lambda fam=fam: general(fam)) for fam in GEN]
                 + [(lambda fam=fam: cond(fam)) for fam in COND]
                 + [(lambda fam=fam: kernel(fam)) for fam in KERN], width=7)

    ctx.assumptions += [
        "TLC/SANY and the CommunityModules Json module are trusted",
        "the harness's operand builders (scaled integer -> float64, exact multiplication by 2^+-500, row-major layout, "
        "canaries), the sign / complex-scalar bookkeeping of vectors (the documented freedom, read off the computed "
        "vector at the largest expected component) and the math/big.Rat comparison are trusted",
        "tolerances are the property's: values c*n*eps*|A| with c = 30 (Weyl; times kappa(S) for the non-symmetric "
        "family, Bauer-Fike), vectors 4*tol/gap + 30*n*eps (non-symmetric: one more factor kappa(S)); the largest observed "
        "error/tolerance ratios are recorded in the stage details (max_err_over_tol_*)",
        "block sizes: default Ilaenv, and nb/nx forced through the verif-tagged verifhook.Ilaenv override; the override "
        "changes which path runs, never what is expected",
        "generalized routines and the all-vector identities of the planted families (weaker binding): the acceptance "
        "predicates are stated in GenPred.tla and evaluated by the harness's mirror functions (genpred.go) in exact dyadic "
        "arithmetic (math/big.Int mantissa * 2^e, cross-checked against math/big.Rat by a unit test); that the mirror is a "
        "faithful transcription is trusted, TLC checks the predicates only on exactly known decompositions and mutations",
        "Dlag2: the tolerance 30 * 2 * eps * |M| * kappa_1(S) * kappa_1(B) * 2^(ea-eb) (Bauer-Fike on B^-1*A = S*D*S^-1) is the "
        "specification's; the largest accepted deviation / tolerance is recorded (lag2_max_dev_over_tol); Lag2Accept is evaluated by "
        "the harness's mirror (kern.go, math/big.Rat). Dlasq6: expected bit for bit because KernelSpectralLemmas shows every value "
        "to be a dyadic number with at most 31 + 30 significant bits. Dlasr / Dlarfx: integer data, exact rotations / reflectors, "
        "expected exactly. Dlaqr1: Laqr1Accept (direction only, 30*eps on the 2x2 minors) evaluated by the harness's mirror",
        "Dggsvp3 / Dggsvd3: for the integer instances (entries -3..3, dimensions <= 5) the numerical rank with the documented "
        "tola / tolb is the exact rank (checked against a tree in which Dgeqp3 really pivots: every instance passes)",
    ]
    return ctx.finish(
        rule="one case = one call of a gonum routine (one routine x job x ld x lwork variant, or one workspace query, or "
             "one composition such as Dsytrd+Dorgtr+Dsteqr) on one spec-generated instance, every output compared with "
             "the specification's values or judged by the specification's acceptance predicate; non-trivial = the instance "
             "has min(m,n) >= 2 (svd) / n >= 3 (sym, gev, Dtrevc3) / ihi-ilo >= 2 (Dgghrd) / min(m,p,n) >= 2 (Dggsvp3, "
             "Dggsvd3) / l >= 2 and m-k >= 2 (Dtgsja); Dlag2, Dlaqr1: every call; Dlasq6: windows of at least 4 entries; Dlasr: at least two rotations; Dlarfx: order >= 2",
        exhaustive=False)


def replay(ctx, path):
    import json
    d = json.load(open(path))["data"]
    one = os.path.join(ctx.work, "one.ndjson")
    with open(one, "w") as fh:
        fh.write(json.dumps(d["failure"]["case"]) + "\n")
    ctx.replay(ctx.build(""), d["area"], one, d["args"], confirm=False)
    return ctx.finish()
