"""C17 - Fourier-family transforms (partial claim: object histories, index helpers, exact cases).

R1  FourierObj.tla: every history within a small bound; the lazy 'one function F explains all
    answers' mechanism equals history independence stated on the raw call log; panics change nothing.
R3  code->spec: seeded histories of New / Reset / Len / transform calls (valid and invalid lengths,
    dst nil / fresh / same-as-src) on real FFT, CmplxFFT, DCT, DST, QuarterWaveFFT objects over lengths
    1..512, every transform mirrored on a brand-new object; results are named by hashes of their bit
    patterns and TLC accepts the log iff it is a behaviour of FourierObj (FourierObjTrace.tla).
R2  spec->code: index helpers (FftIndex.tla) and the defining sums wherever every trigonometric
    factor is rational (ExactDft.tla) - expected values are the integers TLC printed.
"""
import json
import os
import shutil

SPECDIR = os.path.join(os.path.dirname(__file__), "..", "..", "specs", "dsp")
TYPES = ["FFT", "CmplxFFT", "DCT", "DST", "QW"]


def have(spec):
    return os.path.exists(os.path.join(SPECDIR, spec))


def histories(ctx, b, bn, hist, steps):
    def one(typ):
        tr = os.path.join(ctx.work, "objtrace-%s-%s.ndjson" % (typ, bn))
        summ = ctx.record(b, "dsp-objects", tr, ["types=" + typ, "hist=%d" % hist, "steps=%d" % steps, "maxn=512"],
                          name="R3 record %s histories [%s]" % (typ, bn))
        ok, st = ctx.validate("dsp/FourierObjTrace.tla", "dsp/FourierObjTrace.cfg", tr,
                              name="R3 validate %s histories [%s]" % (typ, bn))
        with ctx._lock:
            if ok:
                ctx.traces += summ.get("traces", 0)
                ctx.cases += summ.get("cases", 0)
                ctx.nontrivial += summ.get("nontrivial", 0)
            else:
                keep = os.path.join(ctx.work, "..", "..", "replays", "C17")
                os.makedirs(keep, exist_ok=True)
                dst = os.path.abspath(os.path.join(keep, "objtrace-%s-%s-seed%d.ndjson" % (typ, bn, ctx.seed)))
                shutil.copy(tr, dst)
                ctx.violation("dsp:history-rejected:%s:%s" % (typ, bn), st.get("detail", "")[:700],
                              {"trace": dst, "type": typ, "build": bn, "spec": "dsp/FourierObjTrace.tla"})
    ctx.parallel([lambda t=t: one(t) for t in TYPES], width=5)


def run(ctx):
    th = ctx.tier == "thorough"
    builds = [("default", ""), ("bounds", "bounds")]
    bins = {n: ctx.build(t) for n, t in builds}

    # ---- R1 ---------------------------------------------------------------
    ctx.tlc("dsp/FourierObj.tla", "dsp/FourierObj_model.cfg", workers=4, coverage=True,
            name="R1 FourierObj: 2 objects, FFT+DCT, lengths 1..3, 2 tokens, 3 transforms",
            subst=dict(OBJS="{0,1}", TYPES='{"FFT","DCT"}', LENS="{1,2,3}", INPUTS="{0}", TOKENS='{"a","b"}',
                       MAXSTEPS=3))
    if th:
        ctx.tlc("dsp/FourierObj.tla", "dsp/FourierObj_model.cfg", workers=4,
                name="R1 FourierObj: 1 object, CmplxFFT+QW, lengths 1..2, 2 inputs, 4 transforms",
                subst=dict(OBJS="{0}", TYPES='{"CmplxFFT","QW"}', LENS="{1,2}", INPUTS="{0,1}", TOKENS='{"a","b"}',
                           MAXSTEPS=4), timeout=1500)

    # ---- R3: object histories ---------------------------------------------
    for bn, _ in builds:
        histories(ctx, bins[bn], bn, 40 if th else 10, 50)

    ctx.assumptions += [
        "TLC/SANY and the CommunityModules Json module are trusted",
        "results are identified by a 64-bit FNV-1a hash of their IEEE bit patterns (a collision could hide a difference)",
        "the harness's slice plumbing (dst nil / fresh / same, pointer comparison for 'dst is returned', bit comparison "
        "for 'src unchanged') is trusted",
    ]
    return ctx.finish(
        rule="R3: one case = one successful transform call of a recorded history (incl. its mirror on a brand-new "
             "object); non-trivial = the same (kind, n, input) had already been answered in this history before the "
             "object was Reset or replaced in between; one trace = one 50-operation history of one object.",
        exhaustive=False)


def replay(ctx, path):
    d = json.load(open(path))["data"]
    if "trace" in d:
        ok, st = ctx.validate(d["spec"], d["spec"].replace(".tla", ".cfg"), d["trace"])
        print("trace accepted" if ok else "trace rejected: " + st.get("detail", "")[:800])
        if not ok:
            print("VIOLATION property=C17 replay=%s" % path)
        return 0 if ok else 1
    one = os.path.join(ctx.work, "one.ndjson")
    with open(one, "w") as fh:
        fh.write(json.dumps(d["failure"]["case"]) + "\n")
    tags = "safe" if "[safe]" in json.dumps(d) else ""
    ctx.replay(ctx.build(tags), d["area"], one, d["args"], confirm=False)
    return ctx.finish()
