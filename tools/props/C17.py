"""C17 - Fourier-family transforms (partial claim: object histories, index helpers, exact cases).

R1  FourierObj.tla: every history within a small bound; the lazy 'one function F explains all
    answers' mechanism equals history independence stated on the raw call log; panics change nothing.
R3  code->spec: seeded histories of New / Reset / Len / transform calls (valid and invalid lengths,
    dst nil / fresh / same-as-src) on real FFT, CmplxFFT, DCT, DST, QuarterWaveFFT objects over lengths
    1..512, every transform mirrored on a brand-new object; results are named by hashes of their bit
    patterns and TLC accepts the log iff it is a behaviour of FourierObj (FourierObjTrace.tla).
R3' code->spec: dsp/transform Hilbert histories in the same trace specification (plus the real-part predicate);
    dsp/window: weights as an uninterpreted function fixed at first occurrence (WindowTrace.tla).
R2' spec->code: every weight of every window at every index of every length (odd and even) as an exact expression
    over rational points (WindowExact.tla); all entry points in place on slices with junk beyond their length.
R2  spec->code: index helpers (FftIndex.tla) and the defining sums wherever every trigonometric
    factor is rational (ExactDft.tla) - expected values are the integers TLC printed.
"""
import json
import os
import shutil

SPECDIR = os.path.join(os.path.dirname(__file__), "..", "..", "specs", "dsp")
TYPES = ["FFT", "CmplxFFT", "DCT", "DST", "QW", "Hilbert"]


def have(spec):
    return os.path.exists(os.path.join(SPECDIR, spec))


def histories(ctx, b, bn, hist, steps, maxn=512):
    def one(typ):
        tr = os.path.join(ctx.work, "objtrace-%s-%s-%d.ndjson" % (typ, bn, maxn))
        summ = ctx.record(b, "dsp-objects", tr, ["types=" + typ, "hist=%d" % hist, "steps=%d" % steps, "maxn=%d" % maxn, "salt=%s%d" % (bn, maxn)],
                          name="R3 record %s histories n<=%d [%s]" % (typ, maxn, bn))
        ok, st = ctx.validate("dsp/FourierObjTrace.tla", "dsp/FourierObjTrace.cfg", tr,
                              name="R3 validate %s histories n<=%d [%s]" % (typ, maxn, bn))
        with ctx._lock:
            if ok:
                ctx.traces += summ.get("traces", 0)
                ctx.cases += summ.get("cases", 0)
                ctx.nontrivial += summ.get("nontrivial", 0)
            else:
                keep = os.path.join(ctx.work, "..", "..", "replays", "C17")
                os.makedirs(keep, exist_ok=True)
                dst = os.path.abspath(os.path.join(keep, "objtrace-%s-%s-%d-seed%d.ndjson" % (typ, bn, maxn, ctx.seed)))
                shutil.copy(tr, dst)
                ctx.violation("dsp:history-rejected:%s:%s" % (typ, bn), st.get("detail", "")[:700],
                              {"trace": dst, "type": typ, "build": bn, "spec": "dsp/FourierObjTrace.tla"})
    return [lambda t=t: one(t) for t in TYPES]   # (width of ctx.parallel bounds the concurrency)


WIN_SHARDS = [
    ("Rectangular,Hann,Tukey", "Rectangular+Hann+Tukey"),
    ("Sine,Lanczos,Triangular,BartlettHann,Hamming", "Sine..Hamming"),
    ("Blackman,BlackmanHarris,Nuttall,BlackmanNuttall", "Blackman family"),
    ("FlatTop,Gaussian", "FlatTop+Gaussian"),
]


def windows(ctx, b, bn, th):
    """code->spec for dsp/window: weights as an uninterpreted function (WindowTrace.tla).  The trace specification
    consumes the whole log and reports the set of violated clauses as signatures."""
    import re

    def one(kinds, label):
        tr = os.path.join(ctx.work, "wintrace-%s-%s.ndjson" % (label.replace(" ", "_").replace("+", "_"), bn))
        summ = ctx.record(b, "dsp-window", tr, ["kinds=" + kinds, "nmax=64", "values=" + ("all" if th else "some")],
                          name="R3 record windows %s n<=64 [%s]" % (label, bn))
        ok, st = ctx.validate("dsp/WindowTrace.tla", "dsp/WindowTrace.cfg", tr, subst=dict(MULULPS=0),
                              name="R3 validate windows %s [%s]" % (label, bn))
        with ctx._lock:
            ctx.cases += summ.get("cases", 0)
            ctx.nontrivial += summ.get("nontrivial", 0)
            if ok:
                ctx.traces += summ.get("traces", 0)
                return
            sigs = sorted(set(re.findall(r'dsp:window\.[A-Za-z0-9_.]*:[a-z0-9-]+', st.get("detail", ""))))
            keep = os.path.join(ctx.work, "..", "..", "replays", "C17")
            os.makedirs(keep, exist_ok=True)
            dst = os.path.abspath(os.path.join(keep, "wintrace-%s-%s-seed%d.ndjson" % (label.replace(" ", "_").replace("+", "_"), bn, ctx.seed)))
            shutil.copy(tr, dst)
            for sg in sigs or ["dsp:window:trace-stuck"]:
                ctx.violation(sg, "window clause violated (clauses and reasons: specs/dsp/WindowTrace.tla); all signatures "
                              "of this trace: " + ", ".join(sigs),
                              {"trace": dst, "build": bn, "spec": "dsp/WindowTrace.tla", "cfg": dict(MULULPS=0), "sig": sg})
            st["signatures"] = sigs
    return [lambda a=a: one(*a) for a in WIN_SHARDS]


def windows_exact(ctx, bins, builds, th):
    """spec->code for dsp/window (WindowExact.tla): every weight as a rational combination of cos / sin / sinc / exp at
    rational points, every length 1..NHi."""
    # (ranges of about equal numbers of weights; each generator run stays below ~20 s in the quick tier)
    ranges = [(1, 80), (81, 114), (115, 140), (141, 160)] if th else [(1, 34), (35, 48)]

    def one(kinds, label, lo, hi):
        cases = ctx.gen("dsp/WindowExact.tla", "dsp/WindowExact.cfg", name="R1+R2 gen exact windows %s n=%d..%d" % (label, lo, hi),
                        subst=dict(NLO=lo, NHI=hi, KINDS=tlaset(kinds.split(",")), SEED=ctx.seed % 1000, EMIT="TRUE"), timeout=1500)
        for bn, _ in builds:
            ctx.replay(bins[bn], "dsp-winexact", cases, [], name="R2 replay exact windows %s n=%d..%d [%s]" % (label, lo, hi, bn))
    return [lambda a=a, r=r: one(a[0], a[1], r[0], r[1]) for a in WIN_SHARDS for r in ranges]


ALLK = ["C.coef", "C.seq", "FFT.coef", "FFT.seq", "DCT.t", "DST.t", "QW.cosc", "QW.coss", "QW.sinc", "QW.sins"]
RADK = ["R2.coef", "R2.seq", "R4.coef", "R4.seq"]


def tlaset(xs):
    return "{" + ",".join('"%s"' % x if isinstance(x, str) else str(x) for x in xs) + "}"


def exact_stages(ctx, bins, builds, th):
    """(name, kinds, nlo, nhi, fams): family 0 = all exactly computable impulse positions at once (+ the dense
    inverse case), 1..4 = single positions, 5,6 = seed-chosen impulse position with masked outputs, 7..12 = dense
    data for n <= 4, 20 = weighted combs of every step dividing n."""
    allf = list(range(13)) + [20]
    shards = []
    # every length up to 512, cost grows with n: ranges of about equal total length
    for lo, hi in ((1, 256), (257, 362), (363, 443), (444, 512)):
        shards.append(("all kinds n=%d..%d fam %s" % (lo, hi, "0-12,20" if th else "0,20"), ALLK, lo, hi,
                       allf if th else [0, 20]))
    if not th:
        shards.append(("all kinds n=1..40 fam 1-12", ALLK, 1, 40, allf[1:13]))
        w = 41 + (ctx.seed * 53) % 440          # a seed-chosen window of lengths gets the other families too
        shards.append(("all kinds n=%d..%d fam 1-6 (seed window)" % (w, w + 23), ALLK, w, w + 23, [1, 2, 3, 4, 5, 6]))
    shards.append(("radix-2/4 n=1..%d" % (4096 if th else 1024), RADK, 1, 4096 if th else 1024, allf))
    # analytic signal: constant, real part = input (any data), n in {1,2,4} fully
    shards.append(("Hilbert n=1..512", ["H.as"], 1, 512, [30, 31, 33]))
    # lengths beyond 512 are sampled: seed-chosen n up to 10^4 (quick: 3 lengths up to 4096)
    import random
    rnd = random.Random(ctx.seed * 1009 + 7)
    big = sorted(set(rnd.randint(513, 10000) for _ in range(32))) if th else sorted(set(rnd.randint(513, 4096) for _ in range(3)))
    for n in big:
        shards.append(("all kinds n=%d fam 0,20,30,31 (sampled length)" % n, ALLK + ["H.as"], n, n, [0, 20, 30, 31]))

    def one(name, kinds, lo, hi, fams):
        cases = ctx.gen("dsp/ExactDft.tla", "dsp/ExactDft.cfg", name="R1+R2 gen exact sums " + name, timeout=1700,
                        subst=dict(KINDS=tlaset(kinds), NLO=lo, NHI=hi, SEED=ctx.seed, FAMS=tlaset(fams), EMIT="TRUE"))
        for bn, _ in builds:
            ctx.replay(bins[bn], "dsp-exact", cases, [], name="R2 replay exact sums %s [%s]" % (name, bn))
    return [lambda a=a: one(*a) for a in shards]


def run(ctx):
    th = ctx.tier == "thorough"
    builds = [("default", ""), ("bounds", "bounds")]
    bins = {n: ctx.build(t) for n, t in builds}

    thunks = []
    # ---- R1 ---------------------------------------------------------------
    thunks.append(lambda: ctx.tlc(
        "dsp/FourierObj.tla", "dsp/FourierObj_model.cfg", workers=4, coverage=True,
        name="R1 FourierObj: 2 objects, FFT+DCT, lengths 1..3, 2 tokens, 3 transforms",
        subst=dict(OBJS="{0,1}", TYPES='{"FFT","DCT"}', LENS="{1,2,3}", INPUTS="{0}", TOKENS='{"a","b"}', MAXSTEPS=3)))
    if th:
        thunks.append(lambda: ctx.tlc(
            "dsp/FourierObj.tla", "dsp/FourierObj_model.cfg", workers=4,
            name="R1 FourierObj: 1 object, CmplxFFT+QW, lengths 1..2, 2 inputs, 3 transforms",
            subst=dict(OBJS="{0}", TYPES='{"CmplxFFT","QW"}', LENS="{1,2}", INPUTS="{0,1}", TOKENS='{"a","b"}',
                       MAXSTEPS=3), timeout=1500))

    # ---- R1+R2: exact defining sums (the long generator runs start first) ----
    thunks = exact_stages(ctx, bins, builds, th) + thunks

    # ---- R3: object histories ---------------------------------------------
    for bn, _ in builds:
        thunks += histories(ctx, bins[bn], bn, 250 if th else 12, 50)
    thunks += histories(ctx, bins["default"], "default", 60 if th else 3, 50, maxn=10000)

    # ---- R3: window functions ------------------------------------------------
    thunks += windows(ctx, bins["default"], "default", th)
    if th:
        thunks += windows(ctx, bins["bounds"], "bounds", th)
    thunks += windows_exact(ctx, bins, builds, th)

    # ---- R1+R2: index helpers ----------------------------------------------
    def index():
        nhi = 1100 if th else 600
        idx = ctx.gen("dsp/FftIndex.tla", "dsp/FftIndex.cfg", name="R1+R2 gen index helpers n<=%d" % nhi,
                      subst=dict(NLO=0, NHI=nhi, RANKMAX=48 if th else 32, EMIT="TRUE"))
        for bn, _ in builds:
            ctx.replay(bins[bn], "dsp-index", idx, [], name="R2 replay index helpers [%s]" % bn)
    thunks.append(index)
    ctx.parallel(thunks, width=5 if th else 6)

    ctx.assumptions += [
        "TLC/SANY and the CommunityModules Json module are trusted",
        "results are identified by a 64-bit FNV-1a hash of their IEEE bit patterns (a collision could hide a difference)",
        "the harness's slice plumbing (dst nil / fresh / same, pointer comparison for 'dst is returned', bit comparison "
        "for 'src unchanged') and its big.Rat tolerance comparison are trusted",
        "exact vectors: the documented sums are taken from the FFTPACK definitions (1-based) the package translates; "
        "dense inputs rely on the inversion theorems, which TLC checks only where the dense sum is itself computable "
        "(n <= 12 with rational angles)",
        "exact vectors are compared within (1024*n + 8*G^2)*2^-52*|x|_1, G = largest prime factor of n-1, n, n+1 (rounding behaviour of FFTPACK's general-radix pass, measured)",
        "exact windows: the harness evaluates the printed expression sum coef/10^9 * F(num/den), F in cos(pi x), sin(pi x), "
        "sin(pi x)/(pi x), exp, with Go's math package (trusted to a few ulps); tolerance 256*2^-52 absolute per unit of input "
        "(largest error measured on the unchanged library: 3*2^-52)",
    ]
    return ctx.finish(
        rule="R3: one case = one successful transform call of a recorded history (incl. its mirror on a brand-new "
             "object); non-trivial = the same (kind, n, input) had already been answered in this history before the "
             "object was Reset or replaced in between; one trace = one 50-operation history of one object. "
             "R2 exact sums: one case = one call of a transform (one calling variant) on one TLC-printed integer "
             "vector, all unmasked outputs compared; non-trivial = some expected output is non-zero. R2 exact windows: one "
             "case = one (window, parameter, length) with all its weights, 14 entry-point calls; non-trivial = length >= 2 "
             "and not Rectangular. R2 index: one "
             "case = one helper's whole table for one n (or one must-panic call, or one Pad/Trim call).",
        exhaustive=False)


def replay(ctx, path):
    d = json.load(open(path))["data"]
    if "trace" in d:
        ok, st = ctx.validate(d["spec"], d["spec"].replace(".tla", ".cfg"), d["trace"], subst=d.get("cfg", {}))
        print("trace accepted" if ok else "trace rejected: " + st.get("detail", "")[:800])
        if not ok:
            print("VIOLATION property=C17 replay=%s" % path)
        return 0 if ok else 1
    one = os.path.join(ctx.work, "one.ndjson")
    with open(one, "w") as fh:
        fh.write(json.dumps(d["failure"]["case"]) + "\n")
    tags = "safe" if "[safe]" in json.dumps(d) else ""
    ctx.replay(ctx.build(tags), d["area"], one, d["args"], confirm=False)
    return ctx.finish()
