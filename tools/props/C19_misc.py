"""C19, the parts of package optimize around a Minimize run that no method executes by itself:

specs/optimize/OptimTables.tla   Status as a registry (String / Early / Err / NewStatus), the Armijo / strong Wolfe /
                                 weak Wolfe predicates on an exact dyadic grid, ErrFunc / ErrGrad messages, Operation names
specs/optimize/Printer.tla       optimize.Printer as a Recorder: the heading / value line state machine
specs/optimize/PrinterTrace.tla  acceptor for what a real Printer printed inside real Minimize runs, with the documented
                                 Recorder protocol (InitIteration first, PostIteration last) and "a Record error is the error of the run"

R1  TLC: invariants of the registry (unique identities, no earlier row ever changes), of the Wolfe grid (exact edges,
    strong => weak under the documented normal conditions, both => Armijo) and of the Printer machine (HeadingRule and
    OneValueLine: the machine equals the documented rule stated over the whole history).
R2  every history / grid point is replayed into the real functions (NewStatus from one goroutine and from eight
    goroutines taking turns - the documentation says NewStatus is not thread safe, so the calls never overlap).
R3  Printer inside real Minimize runs (method == nil and explicit methods, 0 .. 64 major iterations, NewPrinter's
    heading interval and others, writers that start to fail).

run_misc(ctx) performs the stages and does not call ctx.finish (the caller does).
"""
import os
import shutil

MISC_RULE = ("status registry: one case = one history of NewStatus calls with the whole table of String / Early / Err answers after "
             "every call; Wolfe: one case = one grid point (non-trivial: the three predicates do not all agree); Printer: one case = "
             "one history of Init / Record calls (non-trivial: at least three lines printed), one trace = one real Minimize run with a "
             "Printer as Recorder")


# Genuine defect of gonum found by the stage "defaults / ivunused" of tools/props/_minimize.py (r3_defaults).  It is NOT
# suppressed here: suppression is the business of known_findings.json; this is the entry proposed for it.
PROPOSED_KNOWN = [
    {"id": "C19-IV1", "status": "known",
     "match": r"^minimize:trace-rejected:defaults:ivunused$",
     "what": "optimize.Minimize with Settings.InitValues.Gradient (the true gradient at the initial X) and a method that never asks "
             "for gradients (NelderMead, CmaEsChol, ListSearch, GuessAndCheck) reports that initial gradient as Result.Gradient at a "
             "different Result.X: getInitLocation (optimize/minimize.go) puts InitValues.Gradient into the Location of tasks[0], the "
             "gradient-free methods overwrite only Location.X and F and announce it as MajorIteration ('the fields of Location must "
             "be valid and consistent'), performMajorIteration copies the stale Gradient into optLoc. Location documents 'Gradient "
             "holds the first-order partial derivatives of the function at X'. E.g. f(x) = (x0-1)^2 + x1^2, Grad given, "
             "Minimize(p, [3 3], &Settings{InitValues: &Location{F: 13, Gradient: [4 6]}}, &NelderMead{}) returns X = [1 -3e-20], "
             "F = 1e-39, Gradient = [4 6], Status FunctionConvergence."},
]


def run_misc(ctx):
    th = ctx.tier == "thorough"
    b = ctx.build("")
    T = "optimize/OptimTables.tla", "optimize/OptimTables.cfg"
    P = "optimize/Printer.tla", "optimize/Printer.cfg"
    thunks = []

    def registry():
        cases = ctx.gen(*T, subst=dict(MODE="registry", MAXREG=4 if th else 3), name="R1+R2 gen Status registry histories")
        ctx.replay(b, "optim-tables", cases, ["goroutines=1"], name="R2 replay Status registry, one goroutine")
        ctx.replay(b, "optim-tables", cases, ["goroutines=8"], name="R2 replay Status registry, eight goroutines taking turns")

    def wolfe():
        cases = ctx.gen(*T, subst=dict(MODE="wolfe", MAXREG=0), name="R1+R2 gen Armijo / Wolfe grid")
        ctx.replay(b, "optim-tables", cases, [], name="R2 replay Armijo / strong Wolfe / weak Wolfe predicates")
        cases = ctx.gen(*T, subst=dict(MODE="text", MAXREG=0), name="R2 gen ErrFunc / ErrGrad / Operation names")
        ctx.replay(b, "optim-tables", cases, [], name="R2 replay ErrFunc / ErrGrad messages, Operation names")

    def printer_r2():
        cases = ctx.gen(*P, subst=dict(HSET="{0, 1, 2, 3, 4}" if th else "{0, 1, 2, 3}", MAXCALLS=5, EMIT="TRUE"),
                        name="R1+R2 gen Printer histories (5 calls)")
        ctx.replay(b, "optim-printer", cases, [], name="R2 replay Printer histories")

    def printer_r3():
        tr = os.path.join(ctx.work, "printer-trace.ndjson")
        summ = ctx.record(b, "optim-printer", tr, ["thorough"] if th else [], name="R3 record Printer as Recorder of real Minimize runs", timeout=900)
        ex = summ.get("extra", {})
        for k in ("runs with 0 major iterations recorded", "runs with 30+ major iterations recorded", "runs ended by the writer's error"):
            if not ex.get(k):
                from vlib import Undecided
                raise Undecided("Printer recording is vacuous: no %s" % k)
        ok, st = ctx.validate("optimize/PrinterTrace.tla", "optimize/PrinterTrace.cfg", tr, name="R3 validate Printer as Recorder", timeout=900)
        if ok:
            n = summ.get("traces", 0)
            ctx.traces += n
            ctx.cases += n
            ctx.nontrivial += n
        else:
            keep = os.path.join(os.path.dirname(ctx.work), "..", "replays", ctx.id)
            os.makedirs(keep, exist_ok=True)
            dst = os.path.abspath(os.path.join(keep, "printer-seed%d.ndjson" % ctx.seed))
            shutil.copy(tr, dst)
            ctx.violation("printer:trace-rejected", st.get("detail", "")[:900],
                          {"trace": dst, "spec": "optimize/PrinterTrace.tla", "cfg": {}, "ls": True})

    thunks += [registry, wolfe, printer_r2, printer_r3]
    ctx.parallel(thunks, width=4)
    ctx.assumptions += [
        "Status / Printer / Wolfe: the binding of the specification's names to the package constants, the classification of a printed "
        "line (blank / starts with an integer / other; number of blank-separated fields) and the probe around the Printer are trusted; "
        "NewStatus is replayed without overlapping calls (documented as not thread safe)",
    ]
    return MISC_RULE
