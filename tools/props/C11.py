"""C11 - probability distributions describe one law (exact-closed and state-machine part ONLY).

What TLA+ cannot state (real-valued function values at general arguments) is NOT covered (see C11.meta.json level_note).
What is covered:

1  specs/dist/WeightedHeap.tla - the partial-sum heap of sampleuv.Weighted and distuv.Categorical as a
   state machine over integer weights.  R1: TLC proves HeapInv, the measure-preservation theorem of both
   descents (index i is chosen for exactly w_i of the grid variates (2r+1)/(2 total)), the Take / drain
   theorems and the law-consistency theorems of the categorical law.  R2: every transition out of every
   weight vector in the bound is replayed into the real objects (scripted math/rand/v2 Source) and the
   complete observation table of the post-state is compared.
2  specs/dist/DiscreteLaws.tla - Bernoulli, Uniform, Triangle, Binomial on rational parameters: exact
   rational reference functions, law-consistency theorems (R1), tables replayed into distuv (R2).
3  specs/dist/SamplerProtocol.tla - accept/reject protocols of sampleuv / samplemv (Rejection, Importance,
   MetropolisHastings with BurnIn/Rate, IID, SampleUniformWeighted, LatinHypercube; distmat.UniformPermutation) with scripted
   targets, proposals and variates: counting invariants (R1), scripts replayed into the samplers (R2).
4  specs/dist/RationalLaws.tla, SpecialFunctions.tla, MvLaws.tla (+ RatLib.tla, IncFns.tla) - the continuous laws of
   distuv, the special functions of mathext and the laws of distmv at the points where they are exactly rational
   (finite sums of the incomplete beta / gamma functions, power laws, rational moments derived from raw moments,
   rational linear algebra of Schur complements) and the identities with rational right-hand sides (complement, inverse,
   recurrence, symmetry, Prob = exp(LogProb), f(x)/exp(r)); the module prints (object, expression, exact rational,
   tolerance class), the harness area dist-rat / dist-mv interprets the expression on the real objects and compares
   through math/big.  R1: the lemmas guarding the oracle (Theorems) are TLC-checked on every parameter setting.
5  specs/dist/RandLaws.tla, FitScoreLaws.tla, MvLaws.tla (kinds normal-chol, normal-prec, wishart, eigen, rand, distance),
   SamplerProtocol.tla (halton, wor) - Rand of every law (one scripted variate through the law's own CDF; seeded draws against
   specification-printed supports and Dvoretzky-Kiefer-Wolfowitz bands around the law's CDF / the marginal law), Fit / SuffStat /
   ConjugateUpdate on exact data (small step programs interpreted on the real objects), Score / ScoreInput, entropies,
   AlphaStable, the statistical distances of distuv and distmv, the three constructions of distmv.Normal, Wishart, UnitVector,
   Halton stratification, WithoutReplacement.
"""
import json
import os

SPECS = os.path.join(os.path.dirname(os.path.abspath(__file__)), "..", "..", "specs", "dist")


def have(name):
    return os.path.exists(os.path.join(SPECS, name))


def heap_subst(n, w, kind, emit, salt, nall):
    return dict(N=n, W=w, KIND=kind, EMIT="TRUE" if emit else "FALSE", SALT=salt, NALL=nall)


def run_heap(ctx, binary, thorough):
    salt = ctx.seed % 1000
    # ---- R1: theorems on all weight vectors, both descents ----
    r1 = [(5, 3, "weighted"), (5, 3, "categorical"), (7, 1, "weighted"), (6, 2, "categorical")]
    if thorough:
        r1 += [(7, 2, "weighted"), (7, 2, "categorical"), (6, 3, "weighted"), (8, 1, "categorical")]
    for n, w, kind in r1:
        ctx.tlc("dist/WeightedHeap.tla", "dist/WeightedHeap.cfg", subst=heap_subst(n, w, kind, False, salt, 3),
                name="R1 WeightedHeap %s n=%d w<=%d" % (kind, n, w), workers=4, coverage=(n == 5))
    # ---- R2: every transition, replayed ----
    # sizes 1..9: Reweight of EVERY index (not only the heap positions 2^k - 1) to every weight, each followed by the complete
    # observation (a draw for every grid variate, Prob / CDF at all grid points)
    plan = [(1, 3, 3), (2, 3, 3), (3, 3, 3), (4, 3, 3), (5, 2, 3), (6, 1, 2), (7, 1, 2), (8, 1, 1), (9, 1, 1)]
    if thorough:
        plan = [(1, 3, 3), (2, 3, 4), (3, 3, 4), (4, 3, 4), (5, 3, 4), (6, 2, 3), (6, 3, 3), (7, 2, 2), (8, 2, 2), (9, 1, 2)]
    def gen(kind, n, w, nall):
        return lambda: (kind, n, w, ctx.gen("dist/WeightedHeap.tla", "dist/WeightedHeap.cfg",
                                            subst=heap_subst(n, w, kind, True, salt, nall),
                                            name="R2 gen heap %s n=%d w<=%d" % (kind, n, w)))

    jobs = [gen(kind, n, w, nall) for kind in ("weighted", "categorical") for n, w, nall in plan]
    for kind, n, w, cases in ctx.parallel(jobs, width=4):
        ctx.replay(binary, "dist-heap", cases, name="R2 replay heap %s n=%d w<=%d" % (kind, n, w))


def run(ctx):
    thorough = ctx.tier == "thorough"
    binary = ctx.build("")
    run_heap(ctx, binary, thorough)
    if have("DiscreteLaws.tla"):
        run_laws(ctx, binary, thorough)
    if have("SamplerProtocol.tla"):
        run_samplers(ctx, binary, thorough)
    if have("RationalLaws.tla"):
        run_rational(ctx, binary, thorough)

    ctx.assumptions += [
        "TLC/SANY and the CommunityModules Json module are trusted",
        "math/rand/v2's Rand.Float64 is float64(src.Uint64()<<11>>11)/2^53 (Go 1.22+): the harness encodes a scripted "
        "variate num/den as floor(num/den * 2^53); grid variates (2r+1)/(2 total) keep u*total at distance 1/2 from "
        "every cell boundary so that rounding cannot move the choice",
        "the harness's operand builders (float64 weights, scripted Source, test doubles for targets/proposals), its "
        "math/big decoding of the specification's rationals and the ulp tolerance test are trusted",
        "rational laws: the harness interprets the specification's expression trees (method calls by reflection, + - * / "
        "and math.Exp / math.Log where the specification wrote an exp / log node); math.Exp and math.Log of the Go "
        "standard library are trusted to a few ulp; a literal n/d is passed as the nearest float64 (exact for the dyadic "
        "arguments used wherever the tolerance class is `ops` or `exact`); tolerance classes: exact, ops = 8 ulp, "
        "special = 1e-10, prob = 1e-10 of max(|v|,1), inverse = coarse = 1e-8, each relative to max(|expected|, largest "
        "operand of a cancelling sum in the expression)",
        "the verdict on a draw is taken at the abstract level (index i drawn for exactly w_i grid variates, never an index "
        "of weight zero); a different measure-preserving assignment of variates to indices than the transcribed descent "
        "is counted as model drift, not as a violation",
    ]
    return ctx.finish(
        rule="heap: one case = one transition (Reweight / ReweightAll / Take, enabled or panicking) out of one weight vector, "
             "or one constructor call, applied to a live object reached by a real history, followed by the complete "
             "observation of the post-state (every grid variate, boundary variates, Prob/CDF/Mean at all grid points); "
             "non-trivial = the call changes the state, draws, or must panic. laws: one case = one parameter setting with its "
             "whole table (discrete laws: every method on the whole argument grid; rational laws / mathext / distmv: every "
             "check of the setting, counted in the stage's `checks`). samplers: one case = one script.",
        exhaustive=True)


def run_laws(ctx, binary, thorough):
    # (law, DBits, MaxN): one TLC run checks the law-consistency theorems on every parameter setting (R1) and prints
    # the table of each (R2)
    plan = [("bernoulli", 3, 0), ("bernoulli", 5, 0), ("uniform", 1, 4), ("triangle", 1, 3), ("binomial", 2, 6),
            ("binomial", 3, 4), ("binomial", 5, 3)]
    if thorough:
        plan += [("uniform", 1, 6), ("triangle", 1, 5), ("binomial", 4, 6), ("binomial", 5, 5), ("binomial", 1, 6)]
    for law, dbits, maxn in plan:
        sub = dict(LAW=law, DBITS=dbits, MAXN=maxn, EMIT="TRUE")
        cases = ctx.gen("dist/DiscreteLaws.tla", "dist/DiscreteLaws.cfg", subst=sub,
                        name="R1+R2 laws %s dyadic bits=%d range=%d (theorems checked, tables printed)" % (law, dbits, maxn))
        ctx.replay(binary, "dist-laws", cases, name="R2 replay laws %s bits=%d range=%d" % (law, dbits, maxn))


# ---- exact-rational points and rational-right-hand-side identities of the continuous laws, mathext and distmv ----
LAW_GROUPS = [
    ("beta-f", ["beta", "betabig", "f"]),
    ("symmetric", ["studentst", "normal", "laplace", "logistic"]),
    ("power-gamma", ["pareto", "exponential", "gamma", "chisquared", "chi", "inversegamma"]),
    ("misc-extreme", ["weibull", "lognormal", "gumbel", "poisson", "normal-x", "laplace-x", "logistic-x", "studentst-x",
                      "exponential-x", "gamma-x", "pareto-x", "weibull-x", "uniform-x"]),
]
FN_GROUPS = [
    ("incomplete-beta", ["incbeta", "incbeta-general", "beta", "beta-special"]),
    ("gamma-zeta-elliptic", ["digamma", "digamma-int", "gammainc", "zeta", "zeta-sums", "normalquantile", "normalquantile-special",
                             "elliptic", "elliptic-squares", "elliptic-rc", "legendre", "elliptic-special", "mvlgamma"]),
]
MV_KINDS = ["normal", "studentst", "uniform", "dirichlet",
            # the three constructions of one normal law, Wishart densities (area dist-mv)
            "normal-chol", "normal-prec", "wishart", "eigen"]
# MvLaws kinds printed in the expression-tree format of area dist-rat: draws of the multivariate / matrix samplers
# (marginal empirical distribution functions, supports) and the statistical distances of distmv
MV_RAT_KINDS = ["rand", "distance"]
# RandLaws.tla: one scripted variate through the law's own CDF; seeded draws (support, empirical distribution function)
RAND_GROUPS = ["variate", "freq"]
# FitScoreLaws.tla: Fit / SuffStat / ConjugateUpdate on exact data; Score / ScoreInput; entropies, higher moments, AlphaStable;
# the statistical distances of distuv
FITSCORE_GROUPS = ["fit", "score", "entropy", "distance"]


def run_rational(ctx, binary, thorough):
    """One TLC run per group: the lemmas of the module (R1: Theorems) are checked on every parameter setting of the group
    and the table of each setting is printed (R2); the tables are replayed into distuv / mathext / distmv."""
    tier = 1 if thorough else 0
    salt = ctx.seed % 1000
    jobs = []
    for name, laws in LAW_GROUPS:
        sub = dict(LAWS=", ".join('"%s"' % l for l in laws), TIER=tier, SALT=salt, EMIT="TRUE")
        jobs.append(("dist/RationalLaws.tla", "dist/RationalLaws.cfg", sub, "dist-rat", "laws " + name))
    for name, fams in FN_GROUPS:
        sub = dict(LAWS=", ".join('"%s"' % f for f in fams), TIER=tier, SALT=salt, EMIT="TRUE")
        jobs.append(("dist/SpecialFunctions.tla", "dist/SpecialFunctions.cfg", sub, "dist-rat", "mathext " + name))
    for kind in MV_KINDS:
        sub = dict(KIND=kind, TIER=tier, SALT=salt, EMIT="TRUE")
        jobs.append(("dist/MvLaws.tla", "dist/MvLaws.cfg", sub, "dist-mv", "distmv " + kind))
    if have("RandLaws.tla"):
        for kind in MV_RAT_KINDS:
            sub = dict(KIND=kind, TIER=tier, SALT=salt, EMIT="TRUE")
            jobs.append(("dist/MvLaws.tla", "dist/MvLaws.cfg", sub, "dist-rat", "distmv/distmat/samplemv " + kind))
        for g in RAND_GROUPS:
            sub = dict(GROUP=g, TIER=tier, SALT=salt, EMIT="TRUE")
            jobs.append(("dist/RandLaws.tla", "dist/RandLaws.cfg", sub, "dist-rat", "distuv Rand " + g))
        for g in FITSCORE_GROUPS:
            sub = dict(GROUP=g, TIER=tier, SALT=salt, EMIT="TRUE")
            jobs.append(("dist/FitScoreLaws.tla", "dist/FitScoreLaws.cfg", sub, "dist-rat", "distuv " + g))

    def one(job):
        spec, cfg, sub, area, name = job
        return lambda: (area, name, ctx.gen(spec, cfg, subst=sub, name="R1+R2 %s (lemmas checked, tables printed)" % name))

    for area, name, cases in ctx.parallel([one(j) for j in jobs], width=4):
        ctx.replay(binary, area, cases, name="R2 replay " + name)


def run_samplers(ctx, binary, thorough):
    # (protocol, MaxB, MaxSteps, MaxBurn, MaxRate): one TLC run explores every script in the bound, checks the counting /
    # structural invariants at every state (R1) and prints every complete script (R2)
    plan = [("rejection", 2, 5, 0, 0), ("mh", 3, 0, 2, 3), ("lhc", 4, 0, 0, 0), ("simple", 3, 0, 0, 0),
            # halton: n <= 25 * MaxB points in dimension 1..3; wor: WithoutReplacement of k <= n <= MaxB + 1
            ("halton", 4, 0, 0, 0), ("wor", 4, 0, 0, 0)]
    if thorough:
        plan = [("rejection", 3, 6, 0, 0), ("mh", 4, 0, 3, 3), ("lhc", 5, 0, 0, 0), ("simple", 4, 0, 0, 0),
                ("halton", 4, 0, 0, 0), ("wor", 5, 0, 0, 0)]
    for proto, maxb, maxsteps, maxburn, maxrate in plan:
        sub = dict(PROTO=proto, MAXB=maxb, MAXSTEPS=maxsteps, MAXBURN=maxburn, MAXRATE=maxrate, EMIT="TRUE")
        cases = ctx.gen("dist/SamplerProtocol.tla", "dist/SamplerProtocol.cfg", subst=sub,
                        name="R1+R2 sampler protocol %s batch<=%d (invariants checked, scripts printed)" % (proto, maxb))
        ctx.replay(binary, "dist-samplers", cases, name="R2 replay sampler scripts %s batch<=%d" % (proto, maxb))


def replay(ctx, path):
    d = json.load(open(path))["data"]
    one = os.path.join(ctx.work, "one.ndjson")
    with open(one, "w") as fh:
        fh.write(json.dumps(d["failure"]["case"]) + "\n")
    ctx.replay(ctx.build(""), d["area"], one, d["args"], confirm=False)
    return ctx.finish()
