"""C01 - BLAS routines compute the reference operation on exactly the addressed elements.

R1  TLC checks the storage theorems of specs/blas/BlasAddr.tla (addresses in range, minimum
    length attained, storage injective, inverse maps) over every operand descriptor in the bound,
    and - on a sample of every routine family in both number domains - that the reference
    semantics of BlasRef.tla writes only addressed slots, never lets a poisoned (must-not-read)
    slot influence the result, stays exactly representable in float32, and that the triangular
    solves satisfy their defining equation.
R2  spec->code: TLC (BlasGen.tla) enumerates calls (routine x flags x shapes x strides x
    increments x scalars x slack), prints the complete backing array of every operand before the
    call and the complete expected arrays after it; the Go harness builds the slices in float32,
    float64, complex64 and complex128 (poison codes become payload NaNs, canaries in the spare
    capacity), calls blas/gonum.Implementation and compares every element of every array and
    the returned value with what the specification printed - under the default (assembly),
    noasm and safe builds.
"""
import json
import os

HERE = os.path.dirname(os.path.abspath(__file__))

L1 = ["swap", "copy", "axpy", "scal", "asum", "iamax"]
L1R = ["dot", "dsdot", "sdsdot", "rot", "rotm"]
L1C = ["rscal", "dotu", "dotc"]
L2A = ["gemv", "gbmv", "trmv", "tbmv", "tpmv", "trsv", "tbsv", "tpsv"]
L2R = ["symv", "sbmv", "spmv", "ger", "syr", "spr", "syr2", "spr2"]
L2C = ["hemv", "hbmv", "hpmv", "geru", "gerc", "her", "hpr", "her2", "hpr2"]
L3 = ["gemm", "symm", "syrk", "syr2k", "trmm", "trsm"]
L3C = ["hemm", "herk", "her2k"]

GROUPS = [  # name, complex?, families
    ("L1-real", False, L1 + L1R),
    ("L1-complex", True, L1 + L1C),
    ("L2-real", False, L2A + L2R),
    ("L2-complex", True, L2A + L2C),
    ("L3-real", False, L3),
    ("L3-complex", True, L3 + L3C),
]
# families whose cost stays polynomial on block-edge sizes (no solves: their results grow)
BIG = [
    ("big-L2-real", False, ["gemv", "gbmv", "symv", "trmv", "ger", "syr2"], 2),
    ("big-L2-complex", True, ["gemv", "hemv", "trmv", "gerc"], 2),
    ("big-L3-real", False, ["gemm", "symm", "syrk", "syr2k", "trmm"], 1),
    ("big-L3-complex", True, ["gemm", "hemm", "herk", "her2k", "trmm"], 1),
]


def tset(xs):
    return "{" + ",".join(str(x) for x in xs) + "}"


def sset(xs):
    return "{" + ",".join('"%s"' % x for x in xs) + "}"


def base_subst(ctx, cx, fams, target, checks=False, **over):
    d = dict(CX="TRUE" if cx else "FALSE", ROUTINES=sset(fams), SEED=ctx.seed,
             DIMS=tset(range(0, 6)), DIMS3=tset(range(0, 5)), RAY=tset([7, 8, 9, 15, 16, 17, 31, 33]),
             RAYBASE=3, BANDS=tset(range(0, 4)), INCMAX=3, LDEXTRA=tset([0, 2]), SLACKS=tset([0, 2]),
             TARGET=target, CHECKS="TRUE" if checks else "FALSE")
    d.update(over)
    return d


def run(ctx):
    os.makedirs(os.path.join(HERE, "..", "..", "specs", "lib"), exist_ok=True)
    thorough = ctx.tier == "thorough"
    builds = [("default", ""), ("noasm", "noasm")] + ([("safe", "safe")] if thorough else [])
    bins = {n: ctx.build(t) for n, t in builds}
    workers = int(os.environ.get("VERIF_TLC_WORKERS", "4"))

    # ---- R1: storage theorems -------------------------------------------------
    ctx.tlc("blas/BlasAddrCheck.tla", "blas/BlasAddrCheck.cfg", name="R1 storage maps: range, tightness, injectivity, inverses",
            subst=dict(MAXDIM=6 if thorough else 5, MAXK=3, MAXINC=3, LDEXTRA=tset([0, 1, 2])), workers=4)
    # ---- R1: theorems of the reference semantics on a sample of every family ---
    for name, cx, fams in GROUPS:
        ctx.tlc("blas/BlasGen.tla", "blas/BlasGen.cfg", workers=workers, timeout=1500,
                name="R1 semantics theorems (footprint, poison independence, exactness, solves) " + name,
                subst=base_subst(ctx, cx, fams, 250 if thorough else 40, checks=True))

    # ---- R2: generated calls replayed into gonum ------------------------------
    target = {"L1": 4000, "L2": 2000, "L3": 1000} if thorough else {"L1": 600, "L2": 400, "L3": 300}
    for name, cx, fams in GROUPS:
        cases = ctx.gen("blas/BlasGen.tla", "blas/BlasGen.cfg", workers=workers, name="R2 gen " + name,
                        subst=base_subst(ctx, cx, fams, target[name[:2]]))
        for bn, _ in builds:
            ctx.replay(bins[bn], "blas", cases, ["build=" + bn], name="R2 replay %s [%s]" % (name, bn))
    # block-edge and parallel-threshold shapes (64-element blocks, >= 4 blocks => parallel gemm)
    for name, cx, fams, lvl in BIG:
        if lvl == 1 and not thorough:
            fams = fams[:1] + fams[2:3]      # quick: gemm, syrk/herk
        dims = [63, 64, 65, 129] if thorough else [63, 64, 65]
        tg = (40 if lvl == 2 else 5) if thorough else (10 if lvl == 2 else 1)
        cases = ctx.gen("blas/BlasGen.tla", "blas/BlasGen.cfg", workers=workers, name="R2 gen " + name, timeout=2400,
                        subst=base_subst(ctx, cx, fams, tg, DIMS=tset(dims), DIMS3=tset(dims), RAY="{}", INCMAX=2))
        for bn, _ in builds:
            ctx.replay(bins[bn], "blas", cases, ["build=" + bn], name="R2 replay %s [%s]" % (name, bn))

    ctx.assumptions += [
        "TLC/SANY and the CommunityModules Json module are trusted",
        "the harness's operand builder (integers -> floats, poison codes -> payload NaNs), its dispatch table "
        "(generated from a table of argument names, type-checked against gonum's signatures) and its exact "
        "comparison are trusted; they contain no arithmetic",
        "data are small integers / Gaussian integers, so every intermediate of any summation order is exact in "
        "float32 (theorem Exact checked by TLC on every emitted case); the rounding-bound clause on inexact data "
        "is not exercised",
        "reference-BLAS quick returns (gemv/gbmv with m=0 or n=0; her/hpr/her2/hpr2 with alpha=0; herk/her2k with "
        "(alpha=0 or k=0) and beta=1) may leave the result operand untouched: both outcomes are accepted there",
    ]
    return ctx.finish(
        rule="one case = one BLAS call (routine family, flags, dims, strides, increments, scalars, slack) generated "
             "and evaluated by TLC, executed in two precisions of its number domain; every element of every backing "
             "array and the returned value compared; non-trivial = at least one dimension is positive",
        exhaustive=False)


def replay(ctx, path):
    d = json.load(open(path))["data"]
    one = os.path.join(ctx.work, "one.ndjson")
    with open(one, "w") as fh:
        fh.write(json.dumps(d["failure"]["case"]) + "\n")
    build = "default"
    for a in d.get("args", []):
        if a.startswith("build="):
            build = a[6:]
    ctx.replay(ctx.build("" if build == "default" else build), d["area"], one, d["args"], confirm=False)
    return ctx.finish()
