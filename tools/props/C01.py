"""C01 - BLAS routines compute the reference operation on exactly the addressed elements.

R1  TLC checks the storage theorems of specs/blas/BlasAddr.tla (addresses in range, minimum
    length attained, storage injective, inverse maps; the column-major twins of the wrapper
    packages are the row-major maps of the transposed descriptor) over every operand descriptor
    in the bound, and - on a sample of every routine family in both number domains - that the
    reference semantics of BlasRef.tla writes only addressed slots, never lets a poisoned
    (must-not-read) slot influence the result, stays exactly representable in float32, that the
    triangular solves satisfy their defining equation, and that forwarding the wrapper structs
    that describe the operands of a call yields that call (BlasWrap.tla).
R2  spec->code: TLC (BlasGen.tla) enumerates calls (routine x flags x shapes x strides x
    increments x scalars x slack), prints the complete backing array of every operand before the
    call, the complete expected arrays after it, and the wrapper function, structs, forwarded
    parameters and documented panic of the same call through blas32 / blas64 / cblas64 /
    cblas128; the Go harness builds the slices in float32, float64, complex64 and complex128
    (poison codes become payload NaNs, canaries in the spare capacity), calls
    blas/gonum.Implementation and then the wrapper (with a recording implementation installed
    through Use, which must receive exactly the specified call) and compares every element of
    every array and the returned value with what the specification printed - under the default
    (assembly), noasm and safe builds.  Further generators: BlasConv.tla (From conversions
    between row-major and column-major structs), BlasUse.tla (Use / Implementation state machine
    and its histories), BlasNorm.tla (nrm2, rotg, rotmg with exact rational expectations).
"""
import json
import os

HERE = os.path.dirname(os.path.abspath(__file__))

L1 = ["swap", "copy", "axpy", "scal", "asum", "iamax"]
L1R = ["dot", "dsdot", "sdsdot", "rot", "rotm"]
L1C = ["rscal", "dotu", "dotc"]
L2A = ["gemv", "gbmv", "trmv", "tbmv", "tpmv", "trsv", "tbsv", "tpsv"]
L2R = ["symv", "sbmv", "spmv", "ger", "syr", "spr", "syr2", "spr2"]
L2C = ["hemv", "hbmv", "hpmv", "geru", "gerc", "her", "hpr", "her2", "hpr2"]
L3 = ["gemm", "symm", "syrk", "syr2k", "trmm", "trsm"]
L3C = ["hemm", "herk", "her2k"]

GROUPS = [  # name, complex?, families
    ("L1-real", False, L1 + L1R),
    ("L1-complex", True, L1 + L1C),
    ("L2-real", False, L2A + L2R),
    ("L2-complex", True, L2A + L2C),
    ("L3-real", False, L3),
    ("L3-complex", True, L3 + L3C),
]
# families whose cost stays polynomial on block-edge sizes (no solves: their results grow)
BIG = [
    ("big-L2-real", False, ["gemv", "gbmv", "symv", "trmv", "ger", "syr2"], 2),
    ("big-L2-complex", True, ["gemv", "hemv", "trmv", "gerc"], 2),
    ("big-L3-real", False, ["gemm", "symm", "syrk", "syr2k", "trmm"], 1),
    ("big-L3-complex", True, ["gemm", "hemm", "herk", "her2k", "trmm"], 1),
]


def tset(xs):
    return "{" + ",".join(str(x) for x in xs) + "}"


def sset(xs):
    return "{" + ",".join('"%s"' % x for x in xs) + "}"


def base_subst(ctx, cx, fams, target, checks=False, **over):
    d = dict(CX="TRUE" if cx else "FALSE", ROUTINES=sset(fams), SEED=ctx.seed,
             DIMS=tset(range(0, 6)), DIMS3=tset(range(0, 5)), RAY=tset([7, 8, 9, 15, 16, 17, 31, 33]),
             RAYBASE=3, BANDS=tset(range(0, 4)), INCMAX=3, LDEXTRA=tset([0, 2]), SLACKS=tset([0, 2]),
             TARGET=target, CHECKS="TRUE" if checks else "FALSE")
    d.update(over)
    return d


def run(ctx):
    os.makedirs(os.path.join(HERE, "..", "..", "specs", "lib"), exist_ok=True)
    thorough = ctx.tier == "thorough"
    builds = [("default", ""), ("noasm", "noasm")] + ([("safe", "safe")] if thorough else [])
    bins = {n: ctx.build(t) for n, t in builds}
    workers = int(os.environ.get("VERIF_TLC_WORKERS", "4"))
    stages = []

    def replay_all(cases, name):
        for bn, _ in builds:
            ctx.replay(bins[bn], "blas", cases, ["build=" + bn], name="R2 replay %s [%s]" % (name, bn))

    # ---- R1: storage theorems (row-major maps and their column-major twins) -------------------
    stages.append(lambda: ctx.tlc(
        "blas/BlasAddrCheck.tla", "blas/BlasAddrCheck.cfg",
        name="R1 storage maps: range, tightness, injectivity, inverses, column-major duality",
        subst=dict(MAXDIM=6 if thorough else 5, MAXK=3, MAXINC=3, LDEXTRA=tset([0, 1, 2])), workers=4))

    # ---- R1: theorems of the reference semantics on a sample of every family ------------------
    def r1(name, cx, fams):
        return lambda: ctx.tlc(
            "blas/BlasGen.tla", "blas/BlasGen.cfg", workers=workers, timeout=1500,
            name="R1 semantics theorems (footprint, poison independence, exactness, solves, wrapper forwarding) " + name,
            subst=base_subst(ctx, cx, fams, 250 if thorough else 40, checks=True))
    for name, cx, fams in GROUPS:
        stages.append(r1(name, cx, fams))

    # ---- R2: generated calls replayed into gonum (Implementation and the four wrapper packages) --
    target = {"L1": 4000, "L2": 2000, "L3": 1000} if thorough else {"L1": 600, "L2": 400, "L3": 300}

    def r2(name, cx, fams):
        def go():
            cases = ctx.gen("blas/BlasGen.tla", "blas/BlasGen.cfg", workers=workers, name="R2 gen " + name,
                            subst=base_subst(ctx, cx, fams, target[name[:2]]))
            replay_all(cases, name)
        return go
    for name, cx, fams in GROUPS:
        stages.append(r2(name, cx, fams))

    # block-edge and parallel-threshold shapes (64-element blocks, >= 4 blocks => parallel gemm)
    def big(name, cx, fams, lvl):
        def go():
            fm = fams
            if lvl == 1 and not thorough:
                fm = fams[:1] + fams[2:3]      # quick: gemm, syrk/herk
            dims = [63, 64, 65, 129] if thorough else [63, 64, 65]
            tg = (40 if lvl == 2 else 5) if thorough else (10 if lvl == 2 else 1)
            cases = ctx.gen("blas/BlasGen.tla", "blas/BlasGen.cfg", workers=workers, name="R2 gen " + name, timeout=2400,
                            subst=base_subst(ctx, cx, fm, tg, DIMS=tset(dims), DIMS3=tset(dims), RAY="{}", INCMAX=2))
            replay_all(cases, name)
        return go
    for name, cx, fams, lvl in BIG:
        stages.append(big(name, cx, fams, lvl))

    # ---- wrapper packages: From conversions, Use / Implementation histories --------------------
    def conv(cx):
        def go():
            cases = ctx.gen("blas/BlasConv.tla", "blas/BlasConv.cfg", name="R2 gen conversions " + ("complex" if cx else "real"),
                            subst=dict(CX="TRUE" if cx else "FALSE", SEED=ctx.seed,
                                       DIMS=tset(range(0, 5)), BANDS=tset(range(0, 3)),
                                       LDEXTRA=tset([0, 1, 3] if thorough else [0, 2]), SLACKS=tset([0, 2])))
            replay_all(cases, "conversions " + ("complex" if cx else "real"))
        return go
    stages += [conv(False), conv(True)]

    def use():
        cases = ctx.gen("blas/BlasUse.tla", "blas/BlasUse.cfg", name="R1+R2 Use/Implementation state machine and histories",
                        subst=dict(MAXLEN=5 if thorough else 4, CALLS=sset(["Axpy", "Gemv", "Gemm"])))
        replay_all(cases, "Use/Implementation histories")
    stages.append(use)

    # ---- nrm2, rotg, rotmg on data with exact rational results ---------------------------------
    def norm():
        cases = ctx.gen("blas/BlasNorm.tla", "blas/BlasNorm.cfg", workers=workers,
                        name="R1+R2 nrm2 / rotg / rotmg (lemmas and cases)",
                        subst=dict(SEED=ctx.seed, K=3, MAXLEN=4, REPS=tset([1, 4, 9, 16]), NRMINCS=tset([1, 2, 3]),
                                   NRMNEG=tset([1, 2] if thorough else [1]), R=20 if thorough else 15,
                                   STRIDE=1 if thorough else 4, STRIDEG=1 if thorough else 8))
        replay_all(cases, "nrm2/rotg/rotmg")
    stages.append(norm)

    ctx.parallel(stages, width=int(os.environ.get("VERIF_C01_WIDTH", "3")))

    ctx.assumptions += [
        "TLC/SANY and the CommunityModules Json module are trusted",
        "the harness's operand builder (integers -> floats, poison codes -> payload NaNs, exact scaling by a power "
        "of two), its dispatch tables (generated from tables of argument names and struct types, type-checked "
        "against gonum's signatures; the struct types and wrapper names are also cross-checked against the ones the "
        "specification prints), the recording BLAS implementation installed with Use, and its exact comparison "
        "(math/big for rationals with a printed tolerance) are trusted; they contain no arithmetic",
        "nrm2 / rotg / rotmg: the tolerance printed by the specification ((2n+8) eps for nrm2, 8 eps for rotg, "
        "16 eps for rotmg; eps = 2^-23 / 2^-52) is this check's reading of the property's 'standard rounding bound'; "
        "observed errors are below 4 eps",
        "data are small integers / Gaussian integers, so every intermediate of any summation order is exact in "
        "float32 (theorem Exact checked by TLC on every emitted case); the rounding-bound clause on inexact data "
        "is not exercised",
        "reference-BLAS quick returns (gemv/gbmv with m=0 or n=0; her/hpr/her2/hpr2 with alpha=0; herk/her2k with "
        "(alpha=0 or k=0) and beta=1) may leave the result operand untouched: both outcomes are accepted there",
    ]
    return ctx.finish(
        rule="one case = one BLAS call (routine family, flags, dims, strides, increments, scalars, slack) generated "
             "and evaluated by TLC, executed in two precisions of its number domain, directly and through the wrapper "
             "package of the precision (forwarded arguments recorded by an implementation installed with Use); every "
             "element of every backing array and the returned value compared; or one conversion / one Use history / "
             "one nrm2, rotg or rotmg call; non-trivial = at least one dimension is positive",
        exhaustive=False)


def replay(ctx, path):
    d = json.load(open(path))["data"]
    one = os.path.join(ctx.work, "one.ndjson")
    with open(one, "w") as fh:
        fh.write(json.dumps(d["failure"]["case"]) + "\n")
    build = "default"
    for a in d.get("args", []):
        if a.startswith("build="):
            build = a[6:]
    ctx.replay(ctx.build("" if build == "default" else build), d["area"], one, d["args"], confirm=False)
    return ctx.finish()
