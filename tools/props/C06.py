"""C06 - mat factorization types reconstruct, solve and update consistently.

R1  TLC checks the theorems of the two state machines over exact integer matrices
    (CholMachine.tla, LuMachine.tla): Adj(A)/Det(A) is the inverse, Cramer's rule solves, the
    determinant lemmas of every update, Sylvester's criterion against the quadratic form, a
    non-PD witness for every rejected update, existence of an LU row order for every
    non-singular target.
R2  spec->code: TLC prints every reachable state with the exact answers of all observers and
    every transition; the harness reaches the source state on a live mat.Cholesky / mat.LU by a
    real history (with spliced failing / no-op calls), applies the call in three receiver modes
    (in place, empty receiver, busy receiver) and operand representations, and compares ok flags,
    ToSym/UTo/LTo/At (P L U for LU), Det, LogDet, Cond bounds, SolveTo/SolveVecTo variants
    (dst empty, sized, dst aliasing b, transposed / interface-only b, both transpose flags) and
    InverseTo with the specification's rationals, exactly (math/big.Rat).
    Reuse part (ReuseMachine.tla): one object of each of 12 types (QR, LQ, LU, Cholesky, BandCholesky,
    PivotedCholesky, SVD, EigenSym, Eigen, GSVD, HOGSVD, Tridiag) is re-Factorized with every catalogue
    instance (same shape, more/fewer rows and columns, other kind flags, failing inputs), Reset, cloned
    into, with every query group extracted before and after; after Factorize(i) the complete observation
    log must be bit-identical to that of a fresh object factorized with instance i, the matrix view
    (Dims, At, T) must equal the specification's exact matrix, and empty objects must panic.
R3  code->spec: seeded random histories (50 calls, dimension <= 5, wider alphabets than R2) on a
    live mat.Cholesky are logged (arguments, ok flag, rounded ToSym and Det) and accepted or
    rejected by TLC against CholTrace.tla, which reuses CholMachine's Target/Classify; the same
    for mat.LU (40 calls, dimension <= 4, RankOne in place or into an empty receiver; the logged
    pivots decide, in LuTrace.tla, whether the update is representable).
    Static part (Planted.tla): integer least squares / minimum norm / square systems stated by
    their defining equations (Cramer on the Gram matrix), unimodular-style integer inverses,
    powers, determinants, and Hadamard-planted spectra for EigenSym / Eigen / SVD, replayed on
    Dense.Solve, VecDense.SolveVec, QR, LQ, SVD, LU, Dense.Inverse, Dense.Pow, mat.Det/LogDet.
    Matrix functions (ExpPow.tla): Dense.Exp on nilpotent dyadic matrices (finite exponential series evaluated
    by TLC; the norm is placed at / just above every threshold of the Pade / scaling-and-squaring algorithm and
    the run is undecided unless all 13 paths were executed), Dense.Pow (repeated product, exact), SymDense.PowPSD
    (Hadamard-planted spectra, exponents r/6), in every receiver / operand mode; exactly singular positive
    semi-definite inputs (zero matrix, 1x1 [0], diagonal with 1 or 2 zeros, a dense positive definite block bordered by
    zero rows / columns; theorem SingularPsd) x powers {-2,-1,-1/2,0,1/2,1,2}: the documented error is a must (the run
    is undecided unless such calls were executed); Hadamard-planted zeros: either answer is accepted.
    Destinations and operands (Extract.tla, extends Planted.tla): every accessor of every factorization type into
    an empty / pre-sized junk / window-of-a-larger-junk-matrix / wrong destination, every Matrix / Vector /
    Symmetric argument of every Factorize / Solve / update entry point as plain, strided window, transposed,
    interface-only; the expected values are the planted instance's predicates.
    GSVD (Gsvd.tla): the property's clause as the normative predicate GsvdHolds (TLC checks it on planted exact
    decompositions and refutes it on corrupted ones), evaluated by the harness in exact rationals on what
    mat.GSVD returned for every pair shape m,p<=4, n<=5 (generic, rank deficient, zero / duplicated leading
    columns), every subset of the job flags, every destination mode.  The weaker binding: a predicate, not a value.
    HOGSVD instances include matrices with different row counts (3x2 then 5x2, 2x2 then 5x2, 4x3 then 7x3, 1x1 then 3x1,
    3x1 then 6x1 and the reverse orders); every Factorize is followed by the specification's pool probe (Extract!HogProbe:
    Pow of a 4x4 matrix, receiver-aliased products and solves borrowing 4, 8, 16, 32-element workspaces) whose results
    must be the exact integer matrices the specification prints and must not panic.
"""
import os

BUILDS_QUICK = [("default", ""), ("noasm", "noasm")]
BUILDS_THOROUGH = [("default", ""), ("noasm", "noasm"), ("safe", "safe")]


def run(ctx):
    # the state spaces here are small (<= 10^4 states); cap the JVM heap so that several TLC processes in
    # parallel (and other checks on the same machine) do not provoke the kernel's OOM killer
    os.environ.setdefault("JAVA_TOOL_OPTIONS", "-Xmx3g")
    thorough = ctx.tier == "thorough"
    builds = BUILDS_THOROUGH if thorough else BUILDS_QUICK
    bins = {n: ctx.build(t) for n, t in builds}
    seed = ctx.seed % 1000

    # ---- R1: theorems of the specifications (no printing) ------------------------------
    def r1():
        ctx.tlc("matfactor/CholMachine.tla", "matfactor/CholMachine.cfg", name="R1 CholMachine n<=2, |a|<=4",
                subst=dict(MAXN=2, MAXENTRY=4, SEED=seed, EMIT="FALSE"), coverage=True, workers=2)
        ctx.tlc("matfactor/LuMachine.tla", "matfactor/LuMachine.cfg", name="R1 LuMachine n<=2, |a|<=2, depth<=2",
                subst=dict(MINN=1, MAXN=2, MAXENTRY=2, MAXDEPTH=2, NTARGETS=6, SEED=seed, EMIT="FALSE"),
                coverage=True, workers=2)

    # ---- R2: generators (the same modules with Emit = TRUE; theorems are checked again) ---
    chol_cfg = dict(MAXN=3, MAXENTRY=4 if thorough else 3, SEED=seed, EMIT="TRUE")
    lu_cfgs = [("n<=2", dict(MINN=1, MAXN=2, MAXENTRY=3 if thorough else 2, MAXDEPTH=4 if thorough else 3,
                             NTARGETS=8 if thorough else 6, SEED=seed, EMIT="TRUE")),
               ("n=3", dict(MINN=3, MAXN=3, MAXENTRY=2, MAXDEPTH=3 if thorough else 2,
                            NTARGETS=6, SEED=seed, EMIT="TRUE"))]
    files = {}

    def gen_chol():
        files["chol"] = ctx.gen("matfactor/CholMachine.tla", "matfactor/CholMachine.cfg", subst=chol_cfg,
                                name="R2 gen Cholesky machine n<=3 |a|<=%d" % chol_cfg["MAXENTRY"], timeout=2400)

    def gen_lu(i):
        def f():
            nm, cfg = lu_cfgs[i]
            files["lu%d" % i] = ctx.gen("matfactor/LuMachine.tla", "matfactor/LuMachine.cfg", subst=cfg,
                                        name="R2 gen LU machine " + nm, timeout=2400)
        return f

    def gen_planted():
        files["planted"] = ctx.gen("matfactor/Planted.tla", "matfactor/Planted.cfg",
                                   subst=dict(MAXDIM=8, NVARIANTS=60 if thorough else 24, SEED=seed, EMIT="TRUE"),
                                   name="R2 gen planted least squares / spectra (theorems checked per case)")

    def gen_reuse():
        files["reuse"] = ctx.gen("matfactor/ReuseMachine.tla", "matfactor/ReuseMachine.cfg",
                                 subst=dict(SEED=seed, MAXEX=3 if thorough else 2, EMIT="TRUE"),
                                 name="R2 gen reuse histories of one object, 12 types (HistoryIndependent checked)")

    def gen_exppow():
        files["exppow"] = ctx.gen("matfactor/ExpPow.tla", "matfactor/ExpPow.cfg",
                                  subst=dict(SEED=seed, NVARIANTS=4 if thorough else 2, EMIT="TRUE"),
                                  name="R2 gen Exp (nilpotent, every Pade / squaring branch) / Pow / PowPSD (theorems checked per case)")

    def gen_extract():
        files["extract"] = ctx.gen("matfactor/Extract.tla", "matfactor/Extract.cfg",
                                   subst=dict(SEED=seed, NVARIANTS=4 if thorough else 2, EMIT="TRUE"),
                                   name="R2 gen destinations x operand representations of every accessor / solve / update entry point")

    def gen_gsvd():
        files["gsvd"] = ctx.gen("matfactor/Gsvd.tla", "matfactor/Gsvd.cfg",
                                subst=dict(SEED=seed, NVARIANTS=3 if thorough else 1, EMIT="TRUE"),
                                name="R2 gen GSVD pairs m,p<=4 n<=5 with exact ranks (GsvdHolds checked on planted / corrupted decompositions)")

    ctx.parallel([r1, gen_chol, gen_lu(0), gen_lu(1), gen_planted, gen_reuse, gen_exppow, gen_extract, gen_gsvd], width=4)

    # ---- R2: replay on the real objects ----------------------------------------------------
    nsh = 4
    thunks = []
    exppow_summ = {}
    for bn, _ in builds:
        for sh in range(nsh):
            thunks.append(lambda bn=bn, sh=sh: ctx.replay(
                bins[bn], "matfactor-chol", files["chol"], ["shard=%d/%d" % (sh, nsh)],
                name="R2 replay Cholesky histories [%s] shard %d/%d" % (bn, sh, nsh)))
        for i, (nm, _) in enumerate(lu_cfgs):
            thunks.append(lambda bn=bn, i=i, nm=nm: ctx.replay(
                bins[bn], "matfactor-lu", files["lu%d" % i], [],
                name="R2 replay LU histories %s [%s]" % (nm, bn)))
        thunks.append(lambda bn=bn: ctx.replay(bins[bn], "matfactor-reuse", files["reuse"], [],
                                               name="R2 replay reuse histories (re-Factorize / Reset / Clone of a used object) [%s]" % bn))
        thunks.append(lambda bn=bn: ctx.replay(bins[bn], "matfactor-planted", files["planted"], [],
                                               name="R2 replay planted instances [%s]" % bn))
        thunks.append(lambda bn=bn: exppow_summ.__setitem__(bn, ctx.replay(
            bins[bn], "matfactor-exppow", files["exppow"], [], name="R2 replay Exp / Pow / PowPSD [%s]" % bn)))
        thunks.append(lambda bn=bn: ctx.replay(bins[bn], "matfactor-extract", files["extract"], [],
                                               name="R2 replay destinations x operand representations [%s]" % bn))
        thunks.append(lambda bn=bn: ctx.replay(bins[bn], "matfactor-gsvd", files["gsvd"], [],
                                               name="R2 replay GSVD predicate (GsvdHolds) [%s]" % bn))
    ctx.parallel(thunks, width=6)
    # non-vacuity of the Exp family: every path of the scaling-and-squaring algorithm must have been executed
    need = ["exp_branch_pade%d_sq0" % o for o in (3, 5, 7, 9, 13)] + ["exp_branch_pade13_sq%d" % j for j in range(1, 8)] \
        + ["exp_branch_pade13_norm_at_most_half_theta13"]
    for bn, summ in exppow_summ.items():
        missing = [n for n in need if not summ.get("extra", {}).get(n)]
        if missing:
            from vlib import Undecided
            raise Undecided("vacuous: Exp norm classes never executed [%s]: %s" % (bn, missing))
        if not summ.get("extra", {}).get("powpsd_singular_exact_error") and not ctx.violations:
            from vlib import Undecided
            raise Undecided("vacuous: no PowPSD call on an exactly singular positive semi-definite matrix was executed [%s]" % bn)

    # ---- R3: recorded random histories of the real objects, validated by TLC -----------------
    import shutil
    nh = 200 if thorough else 40
    for bn, _ in builds:
        for area, spec, what, extra in (("matfactor-chol", "matfactor/CholTrace.tla", "Cholesky", ["steps=50", "maxn=5"]),
                                        ("matfactor-lu", "matfactor/LuTrace.tla", "LU", ["steps=40", "maxn=4"])):
            tr = os.path.join(ctx.work, "%s-trace-%s.ndjson" % (what, bn))
            summ = ctx.record(bins[bn], area, tr, ["hist=%d" % nh] + extra,
                              name="R3 record %s histories [%s]" % (what, bn))
            ok, st = ctx.validate(spec, spec.replace(".tla", ".cfg"), tr,
                                  name="R3 validate %s histories [%s]" % (what, bn))
            if ok:
                ctx.traces += summ.get("traces", 0)
            else:
                keep = os.path.join(ctx.work, "..", "..", "replays", "C06")
                os.makedirs(keep, exist_ok=True)
                dst = os.path.abspath(os.path.join(keep, "%s-trace-%s-seed%d.ndjson" % (what, bn, ctx.seed)))
                shutil.copy(tr, dst)
                ctx.violation("matfactor:trace-rejected:%s:%s" % (what.lower(), bn), st.get("detail", "")[:700],
                              {"trace": dst, "build": bn, "spec": spec})

    ctx.assumptions += [
        "TLC/SANY and the CommunityModules Json module are trusted",
        "the harness's operand builders, receiver-mode plumbing, the P L U / U^T U products and comparisons in "
        "math/big.Rat, and Go's math.Exp (used to compare LogDet with the exact determinant) are trusted",
        "tolerances are the specification's: entrywise c*n*2^-44*(n*maxentry+2) for reconstructions (x256 for LU "
        "updates that keep the old pivot order), propagated through the exact inverse norm for solves/Det",
        "condition numbers are only bounded (1 <= Cond <= n*kappa_1 for Cholesky, Cond <= kappa_inf after LU.Factorize): "
        "the estimator is documented as an estimate",
        "R3 projection: ToSym and Det are rounded to integers at the logging boundary, with the recorded truth value "
        "'all within 2^-20 of an integer'",
        "reuse part: the rule 'observables after Factorize(i) do not depend on the history' is the specification's; the "
        "harness realises 'the observables of <<Factorize(i)>>' by a fresh object (whose correctness on such instances is "
        "what the planted and machine parts check) and compares complete logs bit for bit",
        "Exp: entrywise tolerance 256 n eps ceil|N| sum_k ceil|N|^k/k! (the relative condition number of exp at N is at "
        "least |N|); PowPSD: 64 n eps cond(A) |A^(r/6)|; Pow: exact (all powers below 2^20); GSVD / HOGSVD: no unique "
        "expected value - the spec-stated predicate (GsvdHolds; M_i = U_i S_i V^T) is evaluated in math/big.Rat on the "
        "returned factors with tolerance 64 max(m,p,n) 4eps (|A|+|B|+1); GSVD.Rank is only counted against the exact ranks; "
        "the 'cause' field of a GSVD pair selects the failure signature only",
        "Extract: accessor results are judged by the planted instance's predicates (reconstruction, orthogonality, exact "
        "structural zeros, Cramer solutions), the destination contract (shape, panic class, receiver unchanged, junk bit "
        "pattern outside the window) by the specification's Shape / Modes operators",
        "a boundary update (some leading minor exactly 0) may answer either way; an LU update that is not representable "
        "with the kept pivots, or whose result is singular, must only not return a finite wrong answer silently",
    ]
    return ctx.finish(
        rule="one case = one transition of the specification's state graph (one mutator call out of a reachable exact "
             "matrix state) replayed on a live object after a real history, in one receiver mode and operand "
             "representation, followed by all observers; non-trivial = the call changes the abstract matrix, must "
             "fail, or (LU) is a rank-one update or yields a singular matrix",
        exhaustive=True)


def replay(ctx, path):
    import json
    os.environ.setdefault("JAVA_TOOL_OPTIONS", "-Xmx3g")
    d = json.load(open(path))["data"]
    if "trace" in d:
        ok, st = ctx.validate(d["spec"], d["spec"].replace(".tla", ".cfg"), d["trace"])
        print("trace accepted" if ok else "trace rejected: " + st.get("detail", "")[:800])
        if not ok:
            print("VIOLATION property=C06 replay=%s" % path)
        return 0 if ok else 1
    one = os.path.join(ctx.work, "one.ndjson")
    with open(one, "w") as fh:
        fh.write(json.dumps(d["failure"]["case"]) + "\n")
    tags = ""
    for t in ("noasm", "safe"):
        if "[%s]" % t in json.dumps(d):
            tags = t
    ctx.replay(ctx.build(tags), d["area"], one, d["args"], confirm=False)
    return ctx.finish()
