"""C04 - mat results depend only on operand values, not on their representation.

MatRep.tla : ~30 storage schemes of package mat (dense, views, symmetric, triangular, band, symmetric /
             triangular band, diagonal, tridiagonal, vectors, user types exposing only an interface,
             Cholesky-as-matrix) and their implicit-transpose wrappers as refinement maps
             (Slot / Store / Abs) onto one abstract matrix.
MatOps.tla : element-wise definitions over the integers of the operations named by the property, and the
             case generator (operation x representation in every operand position x receiver state x
             shapes).
R1  TLC checks the refinement maps: Abs(Store(A)) = A, the transpose law, injectivity of the storage
    maps and independence from unreferenced slots (MatRepModel), for every representation of the bound.
R2  spec->code: TLC prints every case of the (seed-sampled in quick, wider in thorough) grid with the
    operands' backing arrays and the demanded result; the harness builds the operands from those arrays
    with mat's public constructors, calls the method, reads the result through Dims/At and compares bit
    for bit; operands' backing arrays and the receiver's frame must be unchanged.
"""
import json
import os

GROUPS = [
    # (name, ops, number of shards the enumeration is split into, max dimension in quick tier)
    ("elementwise", ["Add", "Sub", "MulElem"], 6, 3),
    ("mul", ["Mul"], 8, 3),
    ("unary", ["Scale", "Apply", "CloneFrom", "Copy", "Pow"], 4, 4),
    ("stack", ["Stack", "Augment"], 12, 3),
    ("kron", ["Kronecker"], 8, 3),
    ("rank", ["RankOne", "Outer"], 8, 3),
    ("product", ["Product"], 32, 3),
    ("vec", ["MulVec", "AddVec", "SubVec", "MulElemVec", "AddScaledVec", "ScaleVec", "CopyVec", "CloneFromVec"], 4, 4),
    ("sym", ["AddSym", "CopySym", "ScaleSym", "SymRankOne", "RankTwo", "SymRankK", "SymOuterK"], 4, 3),
    ("tri", ["ScaleTri", "MulTri", "CopyTri"], 4, 4),
    ("func1", ["Sum", "Max", "Min", "Trace", "Norm1", "NormInf", "Row", "Col", "Dot"], 4, 4),
    ("func2", ["Equal", "Inner"], 6, 3),
    ("div", ["DivElem", "DivElemVec"], 8, 3),
    ("bandvec", ["MulVecTo", "SolveVecTo", "InverseTri", "Det", "Inverse"], 2, 4),
    ("solve", ["Solve", "SolveVec", "SolveTo"], 8, 3),
]
# calls with mismatched operand shapes (a shape panic is demanded; Equal answers false)
MISMATCH = ["Add", "Sub", "MulElem", "Equal", "Mul", "Stack", "Augment", "MulVec", "AddVec", "SubVec", "MulElemVec",
            "Dot", "AddSym", "SymRankOne", "Trace", "Pow", "RankOne"]
MISMATCH_SHARDS = 80


def w_small(name):
    return name in ("unary", "vec", "sym", "tri", "func1", "bandvec", "rank")


def tla_set(xs):
    return "{" + ",".join('"%s"' % x for x in xs) + "}"


def run(ctx):
    th = ctx.tier == "thorough"
    bins = {"default": ctx.build("")}
    if th:
        bins["safe"] = ctx.build("safe")
        bins["noasm"] = ctx.build("noasm")
        bins["bounds"] = ctx.build("bounds")

    # ---- R1: refinement maps of every representation ----------------------
    ctx.tlc("matrep/MatRepModel.tla", "matrep/MatRepModel.cfg", workers=4,
            subst=dict(MAXN=4, MAXOFF=2, SALTS="{%d,%d}" % (ctx.seed, ctx.seed + 7)),
            name="R1 MatRep refinement maps, all kinds, shapes<=4x4")

    # ---- R2: generator + replay -------------------------------------------
    jobs = []
    for name, ops, w, qn in GROUPS + [("mismatch", MISMATCH, MISMATCH_SHARDS, 3)]:
        # quick: one seed-chosen shard of every group, dimensions <= qn, one hash-chosen receiver state per
        # operand tuple; thorough: dimensions <= 4, every receiver state for every operand tuple, 4 shards
        # of a finer split (all shards of the small groups)
        if th:
            maxn = 4
            ns = w * 3 if w >= 6 else w
            take = sorted({(ctx.seed + k * max(1, ns // 4)) % ns for k in range(4)})
        else:
            maxn, ns = qn, w
            take = [ctx.seed % ns]
        for sh in take:
            jobs.append((name, ops, sh, ns, maxn, "TRUE" if name == "mismatch" else "FALSE"))

    def one(name, ops, sh, ns, maxn, mism):
        sub = dict(OPS=tla_set(ops), MAXN=maxn, SEED=ctx.seed, SHARD=sh, NSHARDS=ns, MISM=mism,
                   ALLRS="TRUE" if th else "FALSE", WIDE="TRUE" if th and w_small(name) else "FALSE")
        cases = ctx.gen("matrep/MatOps.tla", "matrep/MatOps.cfg", subst=sub,
                        name="R2 gen %s shard %d/%d n<=%d" % (name, sh, ns, maxn))
        for bn, b in bins.items():
            ctx.replay(b, "matrep", cases, [], name="R2 replay %s shard %d/%d [%s]" % (name, sh, ns, bn))

    ctx.parallel([lambda j=j: one(*j) for j in jobs], width=8)
    ctx.notes.append("representation kinds taken from MatRep.tla AllKinds x Wrappers (84 operand representations "
                     "incl. wrappers); see per-stage distinct_operand_representations")

    ctx.assumptions += [
        "TLC/SANY and the CommunityModules Json module are trusted",
        "the harness's operand builders (public mat constructors applied to the emitted backing arrays, "
        "Slice/SliceSym/SliceTri/ColView/RowView/DiagView, T()/TTri()/TBand()/TTriBand()/TVec()), its "
        "user types delegating At to the gonum value they wrap, and bit comparison are trusted",
        "all data are small integers, so every sum and product any algorithm forms is exact and the "
        "comparison is bit for bit (signed zeros are identified)",
    ]
    return ctx.finish(
        rule="one case = one call of one mat method/function with one representation per operand position "
             "and one receiver state; non-trivial = some operand is not a plain untransposed Dense or the "
             "receiver is not the zero value",
        exhaustive=th)


def replay(ctx, path):
    d = json.load(open(path))["data"]
    one = os.path.join(ctx.work, "one.ndjson")
    with open(one, "w") as fh:
        fh.write(json.dumps(d["failure"]["case"]) + "\n")
    for t in ("", "safe"):
        ctx.replay(ctx.build(t), d["area"], one, d["args"], confirm=False)
    return ctx.finish()
