"""C04 - mat results depend only on operand values, not on their representation.

MatRep.tla : ~30 storage schemes of package mat (dense, views, symmetric, triangular, band, symmetric /
             triangular band, diagonal, tridiagonal, vectors, user types exposing only an interface,
             Cholesky-as-matrix) and their implicit-transpose wrappers as refinement maps
             (Slot / Store / Abs) onto one abstract matrix.
MatOps.tla : element-wise definitions over the integers of the operations named by the property, and the
             case generator (operation x representation in every operand position x receiver state x
             shapes).
R1  TLC checks the refinement maps: Abs(Store(A)) = A, the transpose law, injectivity of the storage
    maps and independence from unreferenced slots (MatRepModel), for every representation of the bound.
R2  spec->code: TLC prints every case of the (seed-sampled in quick, wider in thorough) grid with the
    operands' backing arrays and the demanded result; the harness builds the operands from those arrays
    with mat's public constructors, calls the method, reads the result through Dims/At and compares bit
    for bit; operands' backing arrays and the receiver's frame must be unchanged.
"""
import json
import os

GROUPS = [
    # (name, ops, relative weight: number of shards the enumeration is split into in quick tier)
    ("elementwise", ["Add", "Sub", "MulElem"], 48),
    ("mul", ["Mul"], 64),
    ("unary", ["Scale", "Apply", "CloneFrom", "Copy", "Pow"], 4),
    ("stack", ["Stack", "Augment"], 96),
    ("kron", ["Kronecker"], 64),
    ("rank", ["RankOne", "Outer"], 4),
    ("product", ["Product"], 256),
    ("vec", ["MulVec", "AddVec", "SubVec", "MulElemVec", "AddScaledVec", "ScaleVec", "CopyVec", "CloneFromVec"], 2),
    ("sym", ["AddSym", "CopySym", "ScaleSym", "SymRankOne", "RankTwo", "SymRankK", "SymOuterK"], 4),
    ("tri", ["ScaleTri", "MulTri", "CopyTri"], 2),
    ("func1", ["Sum", "Max", "Min", "Trace", "Norm1", "NormInf", "Row", "Col", "Dot"], 2),
    ("func2", ["Equal", "Inner"], 48),
]


def tla_set(xs):
    return "{" + ",".join('"%s"' % x for x in xs) + "}"


def run(ctx):
    th = ctx.tier == "thorough"
    bins = {"default": ctx.build("")}
    if th:
        bins["safe"] = ctx.build("safe")
        bins["noasm"] = ctx.build("noasm")
        bins["bounds"] = ctx.build("bounds")

    # ---- R1: refinement maps of every representation ----------------------
    ctx.tlc("matrep/MatRepModel.tla", "matrep/MatRepModel.cfg", workers=4,
            subst=dict(MAXN=4, MAXOFF=2, SALTS="{%d,%d}" % (ctx.seed, ctx.seed + 7)),
            name="R1 MatRep refinement maps, all kinds, shapes<=4x4")

    # ---- R2: generator + replay -------------------------------------------
    maxn = 3
    jobs = []
    for name, ops, w in GROUPS:
        ns = max(1, w // 8) if th else w
        take = range(ns) if th else [ctx.seed % ns]
        for sh in take:
            jobs.append((name, ops, sh, ns))

    def one(name, ops, sh, ns):
        sub = dict(OPS=tla_set(ops), MAXN=maxn, SEED=ctx.seed, SHARD=sh, NSHARDS=ns,
                   ALLRS="TRUE" if th else "FALSE", WIDE="TRUE" if th else "FALSE")
        cases = ctx.gen("matrep/MatOps.tla", "matrep/MatOps.cfg", subst=sub,
                        name="R2 gen %s shard %d/%d n<=%d" % (name, sh, ns, maxn))
        for bn, b in bins.items():
            ctx.replay(b, "matrep", cases, [], name="R2 replay %s shard %d/%d [%s]" % (name, sh, ns, bn))

    ctx.parallel([lambda j=j: one(*j) for j in jobs], width=8)

    ctx.assumptions += [
        "TLC/SANY and the CommunityModules Json module are trusted",
        "the harness's operand builders (public mat constructors applied to the emitted backing arrays, "
        "Slice/SliceSym/SliceTri/ColView/RowView/DiagView, T()/TTri()/TBand()/TTriBand()/TVec()), its "
        "user types delegating At to the gonum value they wrap, and bit comparison are trusted",
        "all data are small integers, so every sum and product any algorithm forms is exact and the "
        "comparison is bit for bit (signed zeros are identified)",
    ]
    return ctx.finish(
        rule="one case = one call of one mat method/function with one representation per operand position "
             "and one receiver state; non-trivial = some operand is not a plain untransposed Dense or the "
             "receiver is not the zero value",
        exhaustive=th)


def replay(ctx, path):
    d = json.load(open(path))["data"]
    one = os.path.join(ctx.work, "one.ndjson")
    with open(one, "w") as fh:
        fh.write(json.dumps(d["failure"]["case"]) + "\n")
    for t in ("", "safe"):
        ctx.replay(ctx.build(t), d["area"], one, d["args"], confirm=False)
    return ctx.finish()
