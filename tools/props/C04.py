"""C04 - mat results depend only on operand values, not on their representation.

MatRep.tla : ~30 storage schemes of package mat (dense, views, symmetric, triangular, band, symmetric /
             triangular band, diagonal, tridiagonal, vectors, user types exposing only an interface,
             Cholesky-as-matrix) and their implicit-transpose wrappers as refinement maps
             (Slot / Store / Abs) onto one abstract matrix.
MatOps.tla : element-wise definitions over the integers of the operations named by the property, and the
             case generator (operation x representation in every operand position x receiver state x
             shapes).
R1  TLC checks the refinement maps: Abs(Store(A)) = A, the transpose law, injectivity of the storage
    maps and independence from unreferenced slots (MatRepModel), for every representation of the bound.
R2  spec->code: TLC prints every case of the (seed-sampled in quick, wider in thorough) grid with the
    operands' backing arrays and the demanded result; the harness builds the operands from those arrays
    with mat's public constructors, calls the method, reads the result through Dims/At and compares bit
    for bit; operands' backing arrays and the receiver's frame must be unchanged.
MatObj.tla : object-level semantics of the concrete types as scripts (element access and typed setters at
             every index incl. the illegal ones, structure accessors, transpose wrappers and Untranspose*,
             DiagView, Do*NonZero, Zero, Reset / ReuseAs*, Grow, Slice*, permutations, Trace / Norm methods,
             Maybe* and the error values), interpreted step by step against the real types, in the default
             and the "bounds" build.
CMat.tla   : the same for CDense and the complex wrappers over Gaussian integers (plus Conj, Copy, CEqual,
             CEqualApprox).
             Stage "refill" (RefillCasesOf): operations that fill the receiver through a special-case path
             (Pow(a, 0..3), Exp of the zero matrix, Scale(0 / 1 / -1, a), the Copy family, MulTri of diagonal
             factors, DiagFrom, ...) x light operand representations x EVERY receiver state (zero value, pre-sized
             junk, view into a junk-filled parent whose slots outside the window must stay, "reset": emptied by
             Reset() with its old storage reused), not sampled.
MatFormat.tla : the text printed by mat.Formatted as a TLA+ string-building operator of the abstract
             matrix and the options; every representation of a matrix must print that text.
"""
import json
import os
import threading

GROUPS = [
    # (name, ops, number of shards the enumeration is split into, max dimension in quick tier)
    ("elementwise", ["Add", "Sub", "MulElem"], 9, 3),
    ("mul", ["Mul"], 12, 3),
    ("unary", ["Scale", "Apply", "CloneFrom", "Copy", "Pow"], 4, 4),
    ("stack", ["Stack", "Augment"], 18, 3),
    ("kron", ["Kronecker"], 12, 3),
    ("rank", ["RankOne", "Outer"], 12, 3),
    ("product", ["Product"], 48, 3),
    ("vec", ["MulVec", "AddVec", "SubVec", "MulElemVec", "AddScaledVec", "ScaleVec", "CopyVec", "CloneFromVec"], 4, 4),
    ("sym", ["AddSym", "CopySym", "ScaleSym", "SymRankOne", "RankTwo", "SymRankK", "SymOuterK"], 4, 3),
    ("tri", ["ScaleTri", "MulTri", "CopyTri"], 4, 4),
    ("func1", ["Sum", "Max", "Min", "Trace", "Norm1", "NormInf", "Row", "Col", "Dot"], 4, 4),
    ("func2", ["Equal", "Inner"], 9, 3),
    ("div", ["DivElem", "DivElemVec"], 12, 3),
    ("bandvec", ["MulVecTo", "SolveVecTo", "InverseTri", "Det", "Inverse"], 2, 4),
    ("solve", ["Solve", "SolveVec", "SolveTo"], 12, 3),
    ("diag", ["DiagFrom"], 2, 4),
    ("approx", ["EqualApprox"], 24, 3),
    ("productn", ["Product1", "Product2", "Product4"], 24, 3),
]
# MatObj.tla groups: (name, largest dimension quick / thorough, also replayed in the "bounds" build in the quick tier)
OBJ_GROUPS = [("At", 3, 4, True), ("Set", 3, 4, True), ("Meta", 3, 4, False), ("DiagView", 3, 4, True),
              ("NonZero", 3, 4, True), ("Zero", 3, 4, False), ("Reset", 3, 4, False), ("Grow", 3, 4, False),
              ("Slice", 3, 4, False), ("Permute", 3, 4, False), ("Norm", 3, 4, False), ("Errors", 1, 1, False), ("New", 3, 4, False)]
# CMat.tla groups
C_GROUPS = [("At", 3, 4, True), ("Chain", 3, 3, False), ("Conj", 3, 4, False), ("Copy", 3, 4, False),
            ("Shape", 3, 4, False), ("Equal", 2, 3, False), ("View", 3, 4, False)]
# stage "refill" (MatOps.tla RefillCasesOf): operation groups, each one TLC run with every receiver state
REFILL_GROUPS = [["Pow", "ExpZero"], ["Scale", "Apply", "CloneFrom", "Copy"], ["ScaleVec", "CloneFromVec", "CopyVec", "ScaleSym", "CopySym"],
                 ["ScaleTri", "MulTri"], ["CopyTri", "DiagFrom"]]
FMT_SHARDS = 4
# calls with mismatched operand shapes (a shape panic is demanded; Equal answers false)
MISMATCH = ["Add", "Sub", "MulElem", "Equal", "EqualApprox", "Mul", "Stack", "Augment", "MulVec", "AddVec", "SubVec", "MulElemVec",
            "Dot", "AddSym", "SymRankOne", "Trace", "Pow", "RankOne"]
MISMATCH_SHARDS = 120


def w_small(name):
    return name in ("unary", "vec", "sym", "tri", "func1", "bandvec", "rank", "diag")


def tla_set(xs):
    return "{" + ",".join('"%s"' % x for x in xs) + "}"


def run(ctx):
    th = ctx.tier == "thorough"
    bins = {"default": ctx.build("")}
    if th:
        bins["safe"] = ctx.build("safe")
        bins["noasm"] = ctx.build("noasm")
        bins["bounds"] = ctx.build("bounds")

    # ---- R1: refinement maps of every representation ----------------------
    ctx.tlc("matrep/MatRepModel.tla", "matrep/MatRepModel.cfg", workers=4,
            subst=dict(MAXN=4, MAXOFF=2, SALTS="{%d,%d}" % (ctx.seed, ctx.seed + 7)),
            name="R1 MatRep refinement maps, all kinds, shapes<=4x4")

    # ---- R2: generator + replay -------------------------------------------
    jobs = []
    for name, ops, w, qn in GROUPS + [("mismatch", MISMATCH, MISMATCH_SHARDS, 3)]:
        # quick: one seed-chosen shard of every group, dimensions <= qn, one hash-chosen receiver state per
        # operand tuple; thorough: dimensions <= 4, every receiver state for every operand tuple, 4 shards
        # of a finer split (all shards of the small groups)
        if th:
            maxn = 4
            ns = w * 3 if w >= 6 else w
            take = sorted({(ctx.seed + k * max(1, ns // 4)) % ns for k in range(4)})
        else:
            maxn, ns = qn, w
            take = [ctx.seed % ns]
        for sh in take:
            jobs.append((name, ops, sh, ns, maxn, "TRUE" if name == "mismatch" else "FALSE"))

    def one(name, ops, sh, ns, maxn, mism):
        sub = dict(OPS=tla_set(ops), MAXN=maxn, SEED=ctx.seed, SHARD=sh, NSHARDS=ns, MISM=mism,
                   ALLRS="TRUE" if th else "FALSE", WIDE="TRUE" if th and w_small(name) else "FALSE", REFILL="FALSE")
        cases = ctx.gen("matrep/MatOps.tla", "matrep/MatOps.cfg", subst=sub,
                        name="R2 gen %s shard %d/%d n<=%d" % (name, sh, ns, maxn))
        for bn, b in bins.items():
            ctx.replay(b, "matrep", cases, [], name="R2 replay %s shard %d/%d [%s]" % (name, sh, ns, bn))

    # ---- stage "refill": operations that fill the receiver through a special-case path (Pow(a, 0 / 1 / 2),
    # Scale(0 / 1, a), the Copy family, MulTri of diagonal factors, DiagFrom ...) into EVERY receiver state
    # (zero value, pre-sized with junk, view into a junk-filled parent), not sampled (both tiers)
    def refill(ops, maxn):
        sub = dict(OPS=tla_set(ops), MAXN=maxn, SEED=ctx.seed, SHARD=0, NSHARDS=1, MISM="FALSE", ALLRS="TRUE",
                   WIDE="TRUE" if th else "FALSE", REFILL="TRUE")
        cases = ctx.gen("matrep/MatOps.tla", "matrep/MatOps.cfg", subst=sub,
                        name="R2 gen refill %s n<=%d" % ("+".join(ops), maxn))
        for bn, b in bins.items():
            ctx.replay(b, "matrep", cases, [], name="R2 replay refill %s [%s]" % ("+".join(ops), bn))

    # ---- object-level scripts (MatObj, CMat) and printed text (MatFormat) -----------
    blk = threading.Lock()      # the bounds build of the quick tier is made by the first job that needs it

    def bounds_bin():
        with blk:
            return ctx.build("bounds")

    def obj(spec, area, g, maxn, both):
        cases = ctx.gen("matrep/%s.tla" % spec, "matrep/%s.cfg" % spec, subst=dict(OPS=tla_set([g]), MAXN=maxn, SEED=ctx.seed),
                        name="R2 gen %s %s n<=%d" % (spec, g, maxn))
        todo = dict(bins) if th else ({"default": bins["default"], "bounds": bounds_bin()} if both else {"default": bins["default"]})
        for bn, b in todo.items():
            ctx.replay(b, area, cases, [], name="R2 replay %s %s [%s]" % (spec, g, bn))

    def fmtshard(sh, maxn, br, bc):
        cases = ctx.gen("matrep/MatFormat.tla", "matrep/MatFormat.cfg",
                        subst=dict(MAXN=maxn, BIGR=br, BIGC=bc, SEED=ctx.seed, SHARD=sh, NSHARDS=FMT_SHARDS),
                        name="R2 gen MatFormat shard %d/%d" % (sh, FMT_SHARDS))
        ctx.replay(bins["default"], "matfmt", cases, [], name="R2 replay MatFormat shard %d/%d" % (sh, FMT_SHARDS))

    ojobs = [lambda g=g: obj("MatObj", "matobj", g[0], g[2] if th else g[1], g[3]) for g in OBJ_GROUPS]
    ojobs += [lambda g=g: obj("CMat", "cmat", g[0], g[2] if th else g[1], g[3]) for g in C_GROUPS]
    if th:
        ojobs += [lambda sh=sh: fmtshard(sh, 4, 6, 7) for sh in range(FMT_SHARDS)]
    else:
        ojobs += [lambda: fmtshard(ctx.seed % FMT_SHARDS, 3, 5, 6)]

    rn = 4 if th else 3
    rjobs = [lambda g=g: refill(g, rn) for g in REFILL_GROUPS]

    ctx.parallel(rjobs + [lambda j=j: one(*j) for j in jobs] + ojobs, width=8)
    ctx.notes.append("representation kinds taken from MatRep.tla AllKinds x Wrappers (84 operand representations "
                     "incl. wrappers); see per-stage distinct_operand_representations")

    ctx.assumptions += [
        "TLC/SANY and the CommunityModules Json module are trusted",
        "the harness's operand builders (public mat constructors applied to the emitted backing arrays, "
        "Slice/SliceSym/SliceTri/ColView/RowView/DiagView, T()/TTri()/TBand()/TTriBand()/TVec()), its "
        "user types delegating At to the gonum value they wrap, and bit comparison are trusted",
        "all data are small integers, so every sum and product any algorithm forms is exact and the "
        "comparison is bit for bit (signed zeros are identified)",
        "the script interpreters (matobj.go, cmat.go: method name -> call of that method, comparison of the "
        "returned values / visited triples / Dims-At value / backing array with what the step demands) and the "
        "string comparison of matfmt.go are trusted; they contain no matrix arithmetic",
    ]
    return ctx.finish(
        rule="one case = one call of one mat method/function with one representation per operand position "
             "and one receiver state, or one script (1-40 method calls on one object and the objects derived "
             "from it), or one formatted print; non-trivial = some operand is not a plain untransposed Dense, "
             "the receiver is not the zero value, or a panic is demanded",
        exhaustive=th)


def replay(ctx, path):
    d = json.load(open(path))["data"]
    one = os.path.join(ctx.work, "one.ndjson")
    with open(one, "w") as fh:
        fh.write(json.dumps(d["failure"]["case"]) + "\n")
    for t in ("", "safe", "bounds"):
        ctx.replay(ctx.build(t), d["area"], one, d["args"], confirm=False)
    return ctx.finish()
