"""Shared stages for the optimize.Minimize protocol (properties C09 and C19)."""
import os
import shutil


def r1(ctx, thorough):
    """TLC on the protocol model: deadlock freedom, no send/close on closed channel, PostIteration once,
    close order, callbacks counted once, overshoot bound, status justified, termination (liveness)."""
    # Kinds: evaluation kinds the method may ask for (bit 0 Func, bit 1 Grad, bit 2 Hess; 0 = an evaluation whose
    # callbacks the configuration does not track).  MaxRuns = 2: a second run made with the same Method value (ReInit).
    cfgs = [
        ("NT=1 all causes, F/G/H limits, two runs on one Method value",
         dict(NT=1, MAXSENDS=5, FLIMIT=2, GLIMIT=2, HLIMIT=1, ILIMIT=2, CAUSES='{"converge","recerr","mdone","probstatus"}',
              KINDS="{1, 2, 3, 4, 7}", MAXRUNS=2, PROPS="PROPERTIES Termination ReInitIsInit")),
        ("NT=2 eval limit, converger, recorder error", dict(NT=2, MAXSENDS=5, FLIMIT=2, ILIMIT=0, CAUSES='{"converge","recerr"}', PROPS="PROPERTIES Termination")),
        ("NT=2 iteration limit, MethodDone, Problem.Status", dict(NT=2, MAXSENDS=5, FLIMIT=0, ILIMIT=1, CAUSES='{"mdone","probstatus"}', PROPS="PROPERTIES Termination")),
        ("NT=2 runtime limit elapsed at every major iteration, iteration limit, recorder error",
         dict(NT=2, MAXSENDS=5, FLIMIT=0, ILIMIT=2, CAUSES='{"runtime","recerr","mdone"}', PROPS="PROPERTIES Termination")),
    ]
    if thorough:
        cfgs += [
            ("NT=2 all causes, 6 sends", dict(NT=2, MAXSENDS=6, FLIMIT=3, ILIMIT=2, CAUSES='{"converge","recerr","mdone","probstatus"}', PROPS="PROPERTIES Termination")),
            ("NT=3 eval limit (safety)", dict(NT=3, MAXSENDS=6, FLIMIT=2, ILIMIT=0, CAUSES='{"converge"}', PROPS="")),
            ("NT=2 gradient / Hessian limits (slack NT-1 of each counter)",
             dict(NT=2, MAXSENDS=5, FLIMIT=0, GLIMIT=2, HLIMIT=1, ILIMIT=0, CAUSES='{"recerr"}', KINDS="{1, 3, 4}", MAXRUNS=1,
                  PROPS="PROPERTIES Termination")),
        ]
    for name, sub in cfgs:
        sub = dict(dict(GLIMIT=0, HLIMIT=0, KINDS="{0, 1}", MAXRUNS=1), **sub)
        ctx.tlc("optimize/Minimize.tla", "optimize/Minimize_model.cfg", subst=sub, name="R1 Minimize protocol " + name,
                coverage=(name.startswith("NT=2 eval")), timeout=2400)


def _which_run(tr, detail):
    """Name and result record of the rejected run (diagnosis of a rejection seen only in a log)."""
    import json
    import re
    m = re.search(r"event run (\d+)", detail)
    if not m:
        return ""
    try:
        with open(tr) as fh:
            for i, line in enumerate(fh, 1):
                if i == int(m.group(1)):
                    r = json.loads(line)
                    return "[rejected run %s: %s result %s] " % (m.group(1), r.get("name"), json.dumps(r.get("result"), sort_keys=True))
    except Exception:
        pass
    return ""


def r3(ctx, thorough, binary, label, prop, nts=(1, 2, 3, 4)):
    """Record real runs (all shipped methods x termination causes x Concurrent) and validate them."""
    def one(nt):
        tr = os.path.join(ctx.work, "min-%s-nt%d.ndjson" % (label, nt))
        args = ["nt=%d" % nt] + (["thorough"] if thorough else [])
        summ = ctx.record(binary, "minimize", tr, args, name="R3 record minimize nt=%d [%s]" % (nt, label), timeout=1200)
        if summ.get("traces", 0) == 0:
            return
        ok, st = ctx.validate("optimize/MinimizeTrace.tla", "optimize/MinimizeTrace.cfg", tr, subst=dict(NT=nt),
                              name="R3 validate minimize nt=%d [%s]" % (nt, label), dfs=True, timeout=1800)
        if ok:
            ctx.traces += summ.get("traces", 0)
            ctx.cases += summ.get("traces", 0)
            ctx.nontrivial += summ.get("traces", 0)
        else:
            keep = os.path.join(os.path.dirname(ctx.work), "..", "replays", prop)
            os.makedirs(keep, exist_ok=True)
            dst = os.path.abspath(os.path.join(keep, "minimize-%s-nt%d-seed%d.ndjson" % (label, nt, ctx.seed)))
            shutil.copy(tr, dst)
            ctx.violation("minimize:trace-rejected:nt%d:%s" % (nt, label), _which_run(tr, st.get("detail", "")) + st.get("detail", "")[:900],
                          {"trace": dst, "spec": "optimize/MinimizeTrace.tla", "cfg": dict(NT=nt)})
    ctx.parallel([lambda nt=nt: one(nt) for nt in nts], width=4)


def r3_reuse(ctx, thorough, binary, prop):
    """Histories that use ONE Method value for several Minimize calls (harness/internal/optim/reuse.go): the first run
    stopped by every kind of budget at every small count, by a Recorder error or by a Converger, then the same value on
    the same and on another problem.  Every run is recorded and validated like the single runs; a run with seq > 1 is
    reached by the model's ReInit step."""
    def one(nt, shard, nshards):
        label = "reuse-nt%d-%d" % (nt, shard)
        tr = os.path.join(ctx.work, "min-%s.ndjson" % label)
        args = ["reuse", "nt=%d" % nt, "shard=%d/%d" % (shard, nshards)] + (["thorough"] if thorough else [])
        summ = ctx.record(binary, "minimize", tr, args, name="R3 record minimize, reused Method values nt=%d shard %d/%d" % (nt, shard, nshards), timeout=1200)
        if summ.get("traces", 0) == 0:
            from vlib import Undecided
            raise Undecided("no reuse history was recorded (nt=%d)" % nt)
        ok, st = ctx.validate("optimize/MinimizeTrace.tla", "optimize/MinimizeTrace.cfg", tr, subst=dict(NT=nt),
                              name="R3 validate minimize, reused Method values nt=%d shard %d/%d" % (nt, shard, nshards), dfs=True, timeout=1800)
        if ok:
            ctx.traces += summ.get("traces", 0)
            ctx.cases += summ.get("traces", 0)
            ctx.nontrivial += summ.get("extra", {}).get("runs made with a used Method value", 0)
        else:
            keep = os.path.join(os.path.dirname(ctx.work), "..", "replays", prop)
            os.makedirs(keep, exist_ok=True)
            dst = os.path.abspath(os.path.join(keep, "minimize-%s-seed%d.ndjson" % (label, ctx.seed)))
            shutil.copy(tr, dst)
            ctx.violation("minimize:trace-rejected:reuse:nt%d" % nt, st.get("detail", "")[:1500],
                          {"trace": dst, "spec": "optimize/MinimizeTrace.tla", "cfg": dict(NT=nt)})
    jobs = [(1, 0, 3), (1, 1, 3), (1, 2, 3), (2, 0, 1)]
    if thorough:
        jobs = [(1, i, 6) for i in range(6)] + [(2, i, 6) for i in range(6)]
    ctx.parallel([lambda j=j: one(*j) for j in jobs], width=4)


def r3_defaults(ctx, thorough, binary, prop):
    """What Minimize does around the Method (harness/internal/optim/defaults.go): method == nil for every combination of
    Problem fields (the runs come without the method's own log: silent method steps SMSend / SMRecv / SMClose of
    MinimizeTrace.tla, clause DefaultChoiceOK), Settings.InitValues, invalid values at the start point (ErrFunc / ErrGrad),
    FunctionNegativeInfinity, GradientThreshold, a lying gradient (the line search fails), a Converger of the caller,
    and the calls Minimize has to refuse (AbortOK).  Part "ivunused" is a stage of its own with its own signature: a
    gradient handed in as InitValues to a method that never asks for one."""
    import os as _os
    parts = ["main"]
    if _os.environ.get("VERIF_C19_IVUNUSED", "1") != "0":
        parts.append("ivunused")

    def one(part):
        tr = os.path.join(ctx.work, "min-defaults-%s.ndjson" % part)
        args = ["defaults", "nt=1", "part=" + part] + (["thorough"] if thorough else [])
        summ = ctx.record(binary, "minimize", tr, args, name="R3 record minimize, default method / InitValues / invalid start / refused calls [%s]" % part, timeout=1200)
        if summ.get("traces", 0) == 0:
            from vlib import Undecided
            raise Undecided("no run was recorded (defaults, part %s)" % part)
        if part == "main":
            ex = summ.get("extra", {})
            need = ["runs with method == nil", "runs with Settings.InitValues", "status Failure / error errfunc", "status Failure / error errgrad",
                    "status Failure / error linesearch", "status FunctionNegativeInfinity / error none", "status GradientThreshold / error none",
                    "calls Minimize had to refuse (uses)", "calls Minimize had to refuse (recinit)"]
            missing = [k for k in need if not ex.get(k)]
            if missing:
                from vlib import Undecided
                raise Undecided("defaults stage is vacuous: no run of kind %s" % missing)
        ok, st = ctx.validate("optimize/MinimizeTrace.tla", "optimize/MinimizeTrace.cfg", tr, subst=dict(NT=1),
                              name="R3 validate minimize, default method / InitValues / invalid start / refused calls [%s]" % part, dfs=True, timeout=1800)
        if ok:
            ctx.traces += summ.get("traces", 0)
            ctx.cases += summ.get("traces", 0)
            ctx.nontrivial += summ.get("traces", 0)
        else:
            keep = os.path.join(os.path.dirname(ctx.work), "..", "replays", prop)
            os.makedirs(keep, exist_ok=True)
            dst = os.path.abspath(os.path.join(keep, "minimize-defaults-%s-seed%d.ndjson" % (part, ctx.seed)))
            shutil.copy(tr, dst)
            ctx.violation("minimize:trace-rejected:defaults:%s" % part, _which_run(tr, st.get("detail", "")) + st.get("detail", "")[:1200],
                          {"trace": dst, "spec": "optimize/MinimizeTrace.tla", "cfg": dict(NT=1)})
    ctx.parallel([lambda part=part: one(part) for part in parts], width=2)


def replay_trace(ctx, d, prop):
    ok, st = ctx.validate(d["spec"], d["spec"].replace(".tla", ".cfg"), d["trace"], subst=d["cfg"], dfs=True)
    print("trace accepted" if ok else "trace rejected: " + st.get("detail", "")[:1200])
    if not ok:
        print("VIOLATION property=%s replay=%s" % (prop, d["trace"]))
    return 0 if ok else 1
