"""Shared stages for the optimize.Minimize protocol (properties C09 and C19)."""
import os
import shutil


def r1(ctx, thorough):
    """TLC on the protocol model: deadlock freedom, no send/close on closed channel, PostIteration once,
    close order, callbacks counted once, overshoot bound, status justified, termination (liveness)."""
    cfgs = [
        ("NT=1 all causes", dict(NT=1, MAXSENDS=5, FLIMIT=2, ILIMIT=2, CAUSES='{"converge","recerr","mdone","probstatus"}', PROPS="PROPERTIES Termination")),
        ("NT=2 eval limit, converger, recorder error", dict(NT=2, MAXSENDS=5, FLIMIT=2, ILIMIT=0, CAUSES='{"converge","recerr"}', PROPS="PROPERTIES Termination")),
        ("NT=2 iteration limit, MethodDone, Problem.Status", dict(NT=2, MAXSENDS=5, FLIMIT=0, ILIMIT=1, CAUSES='{"mdone","probstatus"}', PROPS="PROPERTIES Termination")),
    ]
    if thorough:
        cfgs += [
            ("NT=2 all causes, 6 sends", dict(NT=2, MAXSENDS=6, FLIMIT=3, ILIMIT=2, CAUSES='{"converge","recerr","mdone","probstatus"}', PROPS="PROPERTIES Termination")),
            ("NT=3 eval limit (safety)", dict(NT=3, MAXSENDS=6, FLIMIT=2, ILIMIT=0, CAUSES='{"converge"}', PROPS="")),
        ]
    for name, sub in cfgs:
        ctx.tlc("optimize/Minimize.tla", "optimize/Minimize_model.cfg", subst=sub, name="R1 Minimize protocol " + name,
                coverage=(name.startswith("NT=2 eval")), timeout=2400)


def r3(ctx, thorough, binary, label, prop, nts=(1, 2, 3, 4)):
    """Record real runs (all shipped methods x termination causes x Concurrent) and validate them."""
    def one(nt):
        tr = os.path.join(ctx.work, "min-%s-nt%d.ndjson" % (label, nt))
        args = ["nt=%d" % nt] + (["thorough"] if thorough else [])
        summ = ctx.record(binary, "minimize", tr, args, name="R3 record minimize nt=%d [%s]" % (nt, label), timeout=1200)
        if summ.get("traces", 0) == 0:
            return
        ok, st = ctx.validate("optimize/MinimizeTrace.tla", "optimize/MinimizeTrace.cfg", tr, subst=dict(NT=nt),
                              name="R3 validate minimize nt=%d [%s]" % (nt, label), dfs=True, timeout=1800)
        if ok:
            ctx.traces += summ.get("traces", 0)
            ctx.cases += summ.get("traces", 0)
            ctx.nontrivial += summ.get("traces", 0)
        else:
            keep = os.path.join(os.path.dirname(ctx.work), "..", "replays", prop)
            os.makedirs(keep, exist_ok=True)
            dst = os.path.abspath(os.path.join(keep, "minimize-%s-nt%d-seed%d.ndjson" % (label, nt, ctx.seed)))
            shutil.copy(tr, dst)
            ctx.violation("minimize:trace-rejected:nt%d:%s" % (nt, label), st.get("detail", "")[:900],
                          {"trace": dst, "spec": "optimize/MinimizeTrace.tla", "cfg": dict(NT=nt)})
    ctx.parallel([lambda nt=nt: one(nt) for nt in nts], width=4)


def replay_trace(ctx, d, prop):
    ok, st = ctx.validate(d["spec"], d["spec"].replace(".tla", ".cfg"), d["trace"], subst=d["cfg"], dfs=True)
    print("trace accepted" if ok else "trace rejected: " + st.get("detail", "")[:1200])
    if not ok:
        print("VIOLATION property=%s replay=%s" % (prop, d["trace"]))
    return 0 if ok else 1
