"""C07 - invalid arguments panic before any write; valid arguments never fault.

R1  TLC checks the theorems of the argument-contract decision tables (specs/contract):
    the closed-form storage extent Need covers every addressed slot and equals 1 + the largest
    addressed slot for tight operands (the index maps are those of specs/blas/BlasAddr.tla, shared
    with C01); exactly-minimal slices satisfy the contract; a slice one shorter than the addressed
    extent is rejected; zero-sized problems accept any slice; breaking any single shape clause is
    rejected; lengthening never hurts.
R2  spec->code: TLC enumerates the property's argument grid (dims {-1,0,1,2,3,5}, ld in
    {min-1,min,min+2}, inc in -2..2, lengths {need-1,need,need+3}, every flag legal or illegal)
    per routine family - the whole product for the small families, a stratified sample (all-valid /
    exactly one illegal argument / anything) for the others - evaluates the decision table and
    prints arguments, slice lengths and the expected abstract outcome.  The Go harness allocates
    the slices with cap == len inside a canary arena, calls blas/gonum.Implementation in all four
    precisions (and the LAPACK routines) under recover and compares outcome class
    (returned / package panic / runtime.Error / foreign panic), operand bytes and canaries.
    LAPACK (84 prologues incl. the drivers whose minimum lengths depend on job flags and on
    min/max of the dimensions, the norm routines whose work slice is needed for some norms only,
    and auxiliaries with increment / index-slice rules; sixteen also through lapack64) additionally gets a deterministic
    boundary grid: every legal flag combination x shapes with dimensions 0..3 x lwork minimal and
    queried, every slice exactly minimal (accepted) and each slice in turn one element short
    (rejected, operands unchanged).
    Workspace part (LapackQuery.tla): every routine with an lwork argument x every legal flag combination x
    shapes with dimensions on both sides of the blocking thresholds and extreme aspect ratios: the workspace
    query changes nothing but work[0], the call with the queried length and the call with the documented
    minimum complete without a panic; mat.QR / LQ / SVD / Eigen / GSVD / HOGSVD Factorize with every kind flag
    on the same shapes do not panic.
"""
import json
import os

HERE = os.path.dirname(os.path.abspath(__file__))

L1 = ["swap", "copy", "axpy", "scal", "asum", "iamax"]
L1R = ["dot", "dsdot", "sdsdot", "rot", "rotm"]
L1C = ["rscal", "dotu", "dotc"]
L2A = ["gemv", "gbmv", "trmv", "tbmv", "tpmv", "trsv", "tbsv", "tpsv"]
L2R = ["symv", "sbmv", "spmv", "ger", "syr", "spr", "syr2", "spr2"]
L2C = ["hemv", "hbmv", "hpmv", "geru", "gerc", "her", "hpr", "her2", "hpr2"]
L3 = ["gemm", "symm", "syrk", "syr2k", "trmm", "trsm"]
L3C = ["hemm", "herk", "her2k"]
REAL = L1 + L1R + L2A + L2R + L3
CPLX = L1 + L1C + L2A + L2C + L3 + L3C
# families whose whole grid product is small enough to enumerate (tuples per family in brackets)
FULL_QUICK = {False: L1 + L1R, True: L1 + L1C}                      # <= 6.8k each
FULL_THOROUGH = {False: ["trmv", "trsv", "tpmv", "tpsv", "syr", "spr", "spmv"],     # 4k .. 73k each
                 True: ["trmv", "trsv", "tpmv", "tpsv", "her", "hpr", "hpmv"]}


LAPACK = [
    ("LU+Cholesky+triangular", ["Dgetrf", "Dgetf2", "Dgetrs", "Dgesv", "Dgetri", "Dpotrf", "Dpotf2", "Dpotrs", "Dpotri",
                                "Dtrtri", "Dtrti2", "Dtrtrs"]),
    ("QR+LQ", ["Dgeqrf", "Dgeqr2", "Dgelqf", "Dgelq2", "Dorgqr", "Dorg2r", "Dorglq", "Dorgl2"]),
    ("apply-Q+reflectors", ["Dormqr", "Dorm2r", "Dormlq", "Dorml2", "Dlarft", "Dlarfb", "Dlarf"]),
    ("drivers", ["Dgels", "Dgesvd", "Dsyev", "Dgeev", "Dgtsv", "Dptsv", "Dpbtrs", "Dpbtrf", "Dtbtrs"]),
    ("reductions+generators", ["Dgeqp3", "Dgebrd", "Dsytrd", "Dgehrd", "Dorgbr", "Dorgtr", "Dorghr", "Dormbr", "Dormhr"]),
    ("norms+condition+aux", ["Dlacpy", "Dlaset", "Dlange", "Dlansy", "Dlantr", "Dtrcon", "Dgecon", "Dpocon"]),
    # norm routines whose work slice is needed for some norms only, and auxiliaries with increments / index slices
    ("band+tridiagonal norms, aux", ["Dlansb", "Dlantb", "Dlangt", "Dlanst", "Dlangb", "Dlanhs", "Dlascl", "Dlaswp",
                                     "Dlapmt", "Dlapmr", "Drscl", "Dlassq", "Dlasrt"]),
    ("unblocked+tridiagonal", ["Dgeql2", "Dgerq2", "Dgehd2", "Dsytd2", "Dlauu2", "Dlauum", "Dpttrf", "Dpttrs", "Dptcon"]),
    ("RQ+QL+band", ["Dgerqf", "Dorgql", "Dorg2l", "Dorgr2", "Dormr2", "Dpbtf2", "Dpbcon", "Dsterf", "Dlarfg"]),
]


def tset(xs):
    return "{" + ",".join(str(x) for x in xs) + "}"


def sset(xs):
    return "{" + ",".join('"%s"' % x for x in xs) + "}"


def check_vacuity(ctx, summ, what):
    never = summ.get("extra", {}).get("clauses_never_sole") or []
    if never:
        from vlib import Undecided
        raise Undecided("vacuous: in %s these clauses were never the only violated clause of a tuple: %s"
                        % (what, ", ".join(never[:20])))


def run(ctx):
    os.makedirs(os.path.join(HERE, "..", "..", "specs", "lib"), exist_ok=True)
    thorough = ctx.tier == "thorough"
    builds = [("default", ""), ("noasm", "noasm")] + ([("safe", "safe")] if thorough else [])
    bins = {n: ctx.build(t) for n, t in builds}
    workers = int(os.environ.get("VERIF_TLC_WORKERS", "4"))
    scratch = []

    # ---- R1: storage theorems of the shared index maps and of the decision table ----------
    def r1_addr():
        ctx.tlc("blas/BlasAddrCheck.tla", "blas/BlasAddrCheck.cfg", workers=2,
                name="R1 storage maps (shared with C01): range, tightness, injectivity, inverses",
                subst=dict(MAXDIM=5, MAXK=2, MAXINC=2, LDEXTRA=tset([0, 2])))

    def r1_table(cx):
        def f():
            ctx.tlc("contract/BlasContractCheck.tla", "contract/BlasContractCheck.cfg", workers=workers, timeout=1500,
                    name="R1 BLAS decision table theorems (%s)" % ("complex" if cx else "real"),
                    subst=dict(CX="TRUE" if cx else "FALSE", ROUTINES=sset(CPLX if cx else REAL),
                               DIMS=tset([0, 1, 2, 3, 5] if thorough else [0, 1, 3]),
                               BANDS=tset([0, 1, 2] if thorough else [0, 2]), LDEXTRA=tset([0, 2]),
                               INCNEG=tset([1, 2] if thorough else [2]), INCPOS=tset([1, 2] if thorough else [1])))
        return f

    # ---- R2: BLAS tuples ------------------------------------------------------------------
    def r2_blas(cx, mode, fams, target, label):
        def f():
            cases = ctx.gen("contract/BlasContractGen.tla", "contract/BlasContractGen.cfg", workers=workers,
                            name="R2 gen BLAS %s %s" % (label, "complex" if cx else "real"), timeout=2400,
                            subst=dict(CX="TRUE" if cx else "FALSE", ROUTINES=sset(fams), SEED=ctx.seed, MODE=mode,
                                       TARGET=target, EMIT="TRUE"))
            for bn, _ in builds:
                summ = ctx.replay(bins[bn], "contract", cases, ["build=" + bn],
                                  name="R2 replay BLAS %s %s [%s]" % (label, "C/Z" if cx else "S/D", bn))
                if mode == "sample" or label == "full-L1":
                    check_vacuity(ctx, summ, "BLAS %s %s" % (label, "complex" if cx else "real"))
            if thorough:
                scratch.append(cases)
        return f

    # ---- R2: LAPACK tuples ----------------------------------------------------------------
    # per group: the stratified sample of the property's grid plus the boundary grid (every legal flag
    # combination x every legal shape with dimensions in 0..3 x lwork minimal/queried: all slices exactly
    # minimal, and each slice in turn one element short); both files are replayed as one
    def r2_lapack(fams, target, label):
        def f():
            base = dict(ROUTINES=sset(fams), SEED=ctx.seed, EMIT="TRUE", BDIMS=tset([0, 1, 2, 3]),
                        BLD=tset([0, 2] if thorough else [0]))
            sample = ctx.gen("contract/LapackContractGen.tla", "contract/LapackContractGen.cfg", workers=workers,
                             name="R2 gen LAPACK sample " + label, timeout=2400,
                             subst=dict(base, MODE="sample", TARGET=target))
            bound = ctx.gen("contract/LapackContractGen.tla", "contract/LapackContractGen.cfg", workers=workers,
                            name="R2 gen LAPACK boundary " + label, timeout=2400,
                            subst=dict(base, MODE="boundary", TARGET=0, SEED=1))
            both = os.path.join(ctx.work, "lapack-%s.ndjson" % "".join(ch for ch in label if ch.isalnum()))
            with open(both, "w") as fo:
                for part in (sample, bound):
                    with open(part) as fi:
                        for line in fi:
                            fo.write(line)
            for bn, _ in builds:
                summ = ctx.replay(bins[bn], "contract", both, ["build=" + bn], name="R2 replay LAPACK %s [%s]" % (label, bn))
                check_vacuity(ctx, summ, "LAPACK " + label)
            if thorough:
                scratch.append(sample)
        return f

    # ---- R2: workspace-query sufficiency (LapackQuery.tla) ------------------------------------
    # every routine with an lwork argument (taken from the decision table, not listed here) x every legal
    # flag combination x tall / wide / threshold shapes: query -> call with the queried length -> call with
    # the documented minimum; and the mat factorizations that size their workspaces by such queries
    def r2_query():
        def grid(big, tag):
            qs = [1, 2, 3, 32, 33, 65, 129, 160, 300] if big else [1, 2, 3, 33, 65, 160, 300]
            base = dict(QS=tset(qs), QGN=tset(qs if big else [1, 2, 3, 33, 65]), QK=tset([1, 3, 70, 200] if big else [1, 3, 70]),
                        QLD=tset([0, 3] if big else [0]), CAP=90000 if big else 25600, EMIT="TRUE")
            nsh = 4

            def part(mode, sh, n, nm):
                return lambda: ctx.gen("contract/LapackQuery.tla", "contract/LapackQuery.cfg", workers=1, timeout=2400, name=nm,
                                       subst=dict(base, MODE=mode, SHARD=sh, NSHARDS=n))
            parts = ctx.parallel([part("lapack", sh, nsh, "R2 gen LAPACK workspace-query grid %s %d/%d" % (tag, sh + 1, nsh))
                                  for sh in range(nsh)] + [part("mat", 0, 1, "R2 gen mat factorization grid " + tag)], width=2)
            both = os.path.join(ctx.work, "lapack-query-%s.ndjson" % tag)
            with open(both, "w") as fo:
                for part_ in parts:
                    with open(part_) as fi:
                        for line in fi:
                            fo.write(line)
            return both
        small = grid(False, "quick")
        # the workspace formulas do not depend on the kernels: quick runs the default build only; thorough runs the
        # large grid (dimensions up to 300 x 300, two strides) under the default build and the quick grid under the others
        plan = [("default", grid(True, "thorough"))] + [(bn, small) for bn, _ in builds[1:]] if thorough else [("default", small)]
        for bn, cases in plan:
            summ = ctx.replay(bins[bn], "contract", cases, ["build=" + bn], timeout=3000,
                              name="R2 replay LAPACK workspace queries + mat factorizations [%s]" % bn)
            check_vacuity(ctx, summ, "workspace-query grid")

    stages = [r2_query, r1_addr, r1_table(False), r1_table(True)]
    ltarget = 8000 if thorough else 600
    for label, fams in LAPACK:
        stages.append(r2_lapack(fams, ltarget, label))
    target = 6000 if thorough else 500
    for cx in (False, True):
        stages.append(r2_blas(cx, "sample", CPLX if cx else REAL, target, "sample"))
        stages.append(r2_blas(cx, "full", FULL_QUICK[cx], 0, "full-L1"))
        if thorough:
            for fam in FULL_THOROUGH[cx]:
                stages.append(r2_blas(cx, "full", [fam], 0, "full-" + fam))
    ctx.parallel(stages, width=3)

    # thorough-tier generator output is large: do not keep it in the cache
    for p in scratch:
        for q in (p, p[:-7] + ".meta.json"):
            try:
                os.remove(q)
            except OSError:
                pass

    ctx.assumptions += [
        "TLC/SANY and the CommunityModules Json module are trusted",
        "the harness's operand allocator (cap == len slices inside a canary arena), its dispatch tables (generated from "
        "tables of argument names, type-checked against gonum's signatures), its classification of the recovered value "
        "(runtime.Error / string with the package's prefix / error type defined by the package) and its byte comparison "
        "are trusted; they contain no contract knowledge",
        "where the documentation leaves the minimum open (a slice at least as long as the addressed extent but shorter than "
        "the full storage extent: band rows, unit triangles, matrices without columns; zero-sized gemv/gbmv with a short y; "
        "single-vector Level 1 routines with a negative increment and another illegal argument) both outcomes are accepted",
        "which message a panic carries is not checked, only its class",
    ]
    return ctx.finish(
        rule="one case = one argument tuple of one routine family generated and classified by TLC, executed in two "
             "precisions of its number domain under every build; non-trivial = exactly one clause violated, or a valid "
             "call that addresses at least one element",
        exhaustive=False)


def replay(ctx, path):
    d = json.load(open(path))["data"]
    one = os.path.join(ctx.work, "one.ndjson")
    with open(one, "w") as fh:
        fh.write(json.dumps(d["failure"]["case"]) + "\n")
    build = "default"
    for a in d.get("args", []):
        if a.startswith("build="):
            build = a[6:]
    ctx.replay(ctx.build("" if build == "default" else build), d["area"], one, d["args"], confirm=False)
    return ctx.finish()
