"""Stand-alone TEST driver for the line-search / FunctionConverge clause of C19 (tools/check C19ls).
Not a registered property: the real entry point is tools/props/C19.py, which is to call
C19_ls.run_ls(ctx).  evidence/C19ls.json is a test artefact."""
import importlib.util
import json
import os

_p = os.path.join(os.path.dirname(os.path.abspath(__file__)), "C19_ls.py")
_s = importlib.util.spec_from_file_location("C19_ls", _p)
C19_ls = importlib.util.module_from_spec(_s)
_s.loader.exec_module(C19_ls)


def run(ctx):
    if not os.environ.get("C19LS_NO_KNOWN"):
        ctx.known = list(ctx.known) + [dict(k, property=ctx.id) for k in C19_ls.PROPOSED_KNOWN]
    rule = C19_ls.run_ls(ctx)
    return ctx.finish(rule=rule, exhaustive=False)


def replay(ctx, path):
    d = json.load(open(path))["data"]
    if "trace" in d:
        return C19_ls.replay_ls(ctx, d)
    one = os.path.join(ctx.work, "one.ndjson")
    with open(one, "w") as fh:
        fh.write(json.dumps(d["failure"]["case"]) + "\n")
    ctx.replay(ctx.build(""), d["area"], one, d["args"], confirm=False)
    return ctx.finish()
