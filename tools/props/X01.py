"""X01 - specification growth: unit dimension algebra, floats/scalar on exactly specifiable inputs,
internal/order sorting helpers.

Three small exact TLA+ specifications (specs/misc), each bound to the real code spec->code:

 UnitAlgebra.tla   package unit: exponent vectors in Z^3 (free abelian group), exact rational values,
                   a register machine of *Unit values (receiver-mutating calls, aliasing calls
                   u.Mul(u) / u.Div(u) / u.Add(u), typed operands, Copy, SetValue, New with zero
                   entries / nil map).  R1: group laws, map-layer refinement lemma, action
                   properties.  R2: every history up to Depth calls replayed into unit.Unit.
                   R3 (code->spec): 400-call random histories on three real registers are recorded (exponent
                   vectors of all registers and the formatted receiver after every call) and validated by TLC
                   against UnitAlgebraTrace.tla, which reuses UnitAlgebra's Apply.
 UnitRegistry.tla  NewDimension / SymbolExists / Dimension.String as a registry machine, and the ordering
                   of user-defined dimensions in formatted output.
 ScalarFloat.tla   floats/scalar: float64 as a point of the ULP lattice (64-bit naturals as 21-bit limbs):
                   EqualWithinULP, Same, NaNWith / NaNPayload, Round / RoundEven on dyadic inputs as exact
                   rationals, EqualWithinAbs / Rel / AbsOrRel on quarter-integers, ParseWithNA.
 OrderX.tla        internal/order: ByID, BySliceValues, BySliceIDs, LinesByIDs as "the sorted permutation
                   under the lexicographic order"; every small input list.
"""
import json
import os

HERE = os.path.dirname(os.path.abspath(__file__))


def load_local_known(ctx):
    """X01 is not a listed property, so known_findings.json (read-only for the builder) cannot
    carry its findings yet; the proposed entries live next to this file and are honoured the same
    way (printed as KNOWN-FINDING, matched by exact signature)."""
    p = os.path.join(HERE, "X01.findings.json")
    if os.path.exists(p):
        have = {k.get("id") for k in ctx.known}
        for k in json.load(open(p)).get("findings", []):
            if k.get("id") not in have:
                ctx.known.append(k)


def unit_part(ctx, hb):
    thorough = ctx.tier == "thorough"
    vs = ctx.seed % 3
    # R1: laws (ASSUMEs), invariants and action properties over every bounded history
    ctx.tlc("misc/UnitAlgebra.tla", "misc/UnitAlgebra.cfg", name="R1 UnitAlgebra laws + histories depth 2, all initial files",
            subst=dict(NREG=2, DEPTH=2, VS=vs, SHARD=0, NSHARDS=1, EMIT="FALSE"), workers=4, coverage=True)
    # R2: every history of <= 2 calls from all 16 initial register files ...
    jobs = [("d2 all", dict(NREG=2, DEPTH=2, VS=vs, SHARD=0, NSHARDS=1, EMIT="TRUE"))]
    # ... and of <= 3 calls from the initial files of one shard (quick) / all shards (thorough)
    shards = range(16) if thorough else [ctx.seed % 16, (ctx.seed * 7 + 5) % 16, (ctx.seed * 11 + 10) % 16]
    for s in sorted(set(shards)):
        jobs.append(("d3 shard %d" % s, dict(NREG=2, DEPTH=3, VS=vs, SHARD=s, NSHARDS=16, EMIT="TRUE")))
    if thorough:
        for v in range(3):
            if v != vs:
                jobs.append(("d2 all vs=%d" % v, dict(NREG=2, DEPTH=2, VS=v, SHARD=0, NSHARDS=1, EMIT="TRUE")))
        jobs.append(("3 registers d2", dict(NREG=3, DEPTH=2, VS=vs, SHARD=0, NSHARDS=1, EMIT="TRUE")))

    def one(name, sub):
        cases = ctx.gen("misc/UnitAlgebra.tla", "misc/UnitAlgebra.cfg", subst=sub, name="R2 gen unit " + name)
        ctx.replay(hb, "unitalg", cases, name="R2 replay unit " + name)
    ctx.parallel([(lambda n=n, s=s: one(n, s)) for n, s in jobs], width=4)


def unit_trace_part(ctx, hb):
    """R3 code->spec: long random histories of the real units, judged by TLC."""
    import shutil
    hist = 20 if ctx.tier == "thorough" else 5
    tr = os.path.join(ctx.work, "unit-trace.ndjson")
    summ = ctx.record(hb, "unitalg", tr, ["hist=%d" % hist, "steps=400"], name="R3 record unit histories")
    ok, st = ctx.validate("misc/UnitAlgebraTrace.tla", "misc/UnitAlgebraTrace.cfg", tr, subst=dict(NREG=3),
                          name="R3 validate unit histories")
    if ok:
        ctx.traces += summ.get("traces", 0)
    else:
        keep = os.path.join(ctx.work, "..", "..", "replays", "X01")
        os.makedirs(keep, exist_ok=True)
        dst = os.path.abspath(os.path.join(keep, "unit-trace-seed%d.ndjson" % ctx.seed))
        shutil.copy(tr, dst)
        ctx.violation("unitalg:trace-rejected", st.get("detail", "")[:600],
                      {"trace": dst, "spec": "misc/UnitAlgebraTrace.tla", "cfg": dict(NREG=3)})


def registry_part(ctx, hb):
    depth = 4 if ctx.tier == "thorough" else 3
    cases = ctx.gen("misc/UnitRegistry.tla", "misc/UnitRegistry.cfg", subst=dict(DEPTH=depth, EMIT="TRUE"),
                    name="R1+R2 gen unit registry depth %d (invariants NoDup, NoClash)" % depth)
    ctx.replay(hb, "unitreg", cases, name="R2 replay unit registry")


def scalar_part(ctx, hb):
    wide = "TRUE" if ctx.tier == "thorough" else "FALSE"

    def one(mode):
        cases = ctx.gen("misc/ScalarFloat.tla", "misc/ScalarFloat.cfg", subst=dict(MODE=mode, WIDE=wide),
                        name="R1+R2 gen scalar %s (lemmas checked as ASSUMEs)" % mode)
        ctx.replay(hb, "scalar", cases, name="R2 replay scalar " + mode)
    ctx.parallel([(lambda m=m: one(m)) for m in ("ulp", "round", "eq", "nan", "parse")], width=4)


def order_part(ctx, hb):
    thorough = ctx.tier == "thorough"
    jobs = [("values", 1, 3, 3), ("ids", 3, 1, 4), ("lines", 1, 3, 3)]
    if thorough:
        jobs = [("values", 2, 3, 3), ("values", 1, 2, 5), ("ids", 4, 1, 5), ("lines", 2, 3, 2), ("lines", 1, 3, 4)]

    def one(mode, mv, ml, mn):
        cases = ctx.gen("misc/OrderX.tla", "misc/OrderX.cfg", subst=dict(MODE=mode, MAXVAL=mv, MAXLEN=ml, MAXN=mn),
                        name="R1+R2 gen order %s vals<=%d len<=%d n<=%d" % (mode, mv, ml, mn))
        ctx.replay(hb, "orderx", cases, name="R2 replay order %s vals<=%d len<=%d n<=%d" % (mode, mv, ml, mn))
    ctx.parallel([(lambda j=j: one(*j)) for j in jobs], width=4)


def run(ctx):
    load_local_known(ctx)
    hb = ctx.build("")
    unit_part(ctx, hb)
    unit_trace_part(ctx, hb)
    registry_part(ctx, hb)
    scalar_part(ctx, hb)
    order_part(ctx, hb)
    ctx.assumptions += [
        "TLC/SANY and the CommunityModules Json module are trusted",
        "the harness's decoding of spec-emitted integers into float64 / uint64 / Go values and its equality comparisons are trusted",
        "unit: model dimensions 1..3 are bound to LengthDim, MassDim, TimeDim (symbols and their byte order are verified by the harness against the header TLC prints)",
    ]
    ctx.assumptions += [
        "unit registry: the model's fresh symbols are bound to per-case unique real symbols (suffix _<n>); the byte order the "
        "specification assumes is verified on the real strings",
        "scalar: 64-bit patterns are decoded from four 21-bit limbs; rationals are decoded with math/big (nearest float64)",
    ]
    return ctx.finish(
        rule="unit: one case = one history of receiver-mutating calls on a register file of real *unit.Unit values, "
             "all queries compared at its end (non-trivial = at least one call); R3: one trace = one 400-call random history; registry: one history of NewDimension calls "
             "(non-trivial = something was registered); scalar: one case = one point of a table (non-trivial = the "
             "documentation fixes the answer, i.e. not an 'open' infinity comparison); order: one input list "
             "(non-trivial = not already sorted).",
        exhaustive=True)


def replay(ctx, path):
    load_local_known(ctx)
    d = json.load(open(path))["data"]
    if "trace" in d:
        ok, st = ctx.validate(d["spec"], d["spec"].replace(".tla", ".cfg"), d["trace"], subst=d["cfg"])
        print("trace accepted" if ok else "trace rejected: " + st.get("detail", "")[:800])
        if not ok:
            print("VIOLATION property=X01 replay=%s" % path)
        return 0 if ok else 1
    one = os.path.join(ctx.work, "one.ndjson")
    with open(one, "w") as fh:
        fh.write(json.dumps(d["failure"]["case"]) + "\n")
    ctx.replay(ctx.build(""), d["area"], one, d["args"], confirm=False)
    return ctx.finish()
