"""C16 - codecs round-trip losslessly, decoders are total, RDF c14n is label-invariant.

specs/codec/Graph6.tla       graph6 / digraph6 as arithmetic on byte sequences (Enc, Dec, Valid, Class)
specs/codec/Graph6Ids.tla    Encode on ANY graph: the encoding as a function of the node ID set (64-bit IDs as [anchor, offset],
                             printed as decimal strings) sorted ascending and the arc set; rank relabelling
specs/codec/RdfDecoder.tla   the N-Quads stream decoder as an object with a history: NewDecoder / Reset on a zero value, Reset,
                             Unmarshal, Unmarshal until io.EOF; lines left + set of terms that have a UID
specs/codec/MatBinary.tla    the 40-byte header of mat's binary form and the decision table of the decoders
specs/codec/RdfIso.tla       datasets as sets of quads (s, p, o, g), isomorphism by brute force over blank-node bijections
                             (acting on subject, object and graph label), statement order for Deduplicate, plan of all
                             statement orders and listings with repetitions
specs/codec/DotAbstract.tla  abstract DOT structure over a quoting-hostile string pool (round trip = identity)
specs/codec/NQuadsAbstract.tla  abstract N-Quads statement content over hostile literal texts (print then parse = identity)
specs/codec/TokenCorrupt.tla  single-token corruptions of DOT / N-Quads documents (decoder totality only)
specs/codec/HllState.tla     HyperLogLog sketch state, Marshal/Unmarshal/Union/SetHash rules, malformed-field grid
specs/codec/HllHist.tla      decoder histories on an initialised HyperLogLog receiver: Write / Decode(valid, every rejection
                             class) / Union / Reset; a rejected decode leaves the receiver as it was
specs/codec/DotSubgraph.tla  abstract DOT terms with (nested) subgraph end points of edge statements: node set, bag of lines,
                             edge set, self-pair error; the document text is the specification's token list
specs/codec/PrngStream.tla   generator = place in an output stream + opaque byte tokens; PrngHist.tla enumerates histories
                             (spec->code), PrngStreamTrace.tla validates recorded histories (code->spec)

R1  TLC checks the specifications' own theorems (round trips, normal forms, totality of the decision
    tables, Iso is an equivalence) on every enumerated case.
R2  spec->code: TLC prints every case of the bounded spaces with the expected bytes / classification /
    decoded value / equivalence classes; the Go harness feeds them to the real encoders and decoders.
R3  code->spec: histories of construction / Seed / output / MarshalBinary / UnmarshalBinary calls of the real
    PRNGs (and every truncation of a saved state) are recorded and validated by TLC against PrngStreamTrace.
"""
import json
import os
import shutil

A8 = "{38, 62, 63, 64, 94, 95, 126, 127}"
A12 = "{38, 62, 63, 64, 65, 66, 67, 68, 94, 95, 126, 127}"


def g6(ctx, bins, name, directed, modes, maxn=0, maxlen=0, alphabet=A8, bigns="{}", args=(), timeout=1800):
    subst = dict(DIRECTED="TRUE" if directed else "FALSE", MODES="{" + ", ".join('"%s"' % m for m in modes) + "}",
                 MAXN=maxn, MAXLEN=maxlen, ALPHABET=alphabet, BIGNS=bigns, SEED=ctx.seed, EMIT="TRUE")
    cases = ctx.gen("codec/Graph6.tla", "codec/Graph6.cfg", subst=subst, name="R1+R2 gen " + name, timeout=timeout)
    for bn, b in bins.items():
        ctx.replay(b, "codec-graph6", cases, list(args), name="R2 replay %s [%s]" % (name, bn))


def run_graph6(ctx, bins, dirs=(False, True)):
    thorough = ctx.tier == "thorough"
    idm = ["idmaps=identity,spread,neg,extreme"]
    for d in dirs:
        fam = "digraph6" if d else "graph6"
        # every graph of order <= MaxN and a seed-dependent family of orders around the size-field width change
        # at n = 63: Encode bytes, decode as a graph, re-encode
        g6(ctx, bins, fam + ": all graphs <= %d nodes + orders 0..70" % ((4 if d else 5) if not thorough else (4 if d else 6)),
           d, ["graphs", "big"], maxn=(4 if d else 5) if not thorough else (4 if d else 6),
           bigns="{0, 1, 2, 61, 62, 63, 64, 65, 70}" if not thorough else "{0,1,2,60,61,62,63,64,65,66,67,68,69,70,71,90}", args=idm)
        # every byte string of length <= 4 over 8 hostile letters; every truncation / substitution / extension near
        # the header of wide-header encodings
        g6(ctx, bins, fam + ": strings <= 4 over 8 letters + mutants of wide-header encodings", d, ["strings", "bigmut"],
           maxlen=4, alphabet=A8, bigns="{62, 63, 64}" if not thorough else "{61, 62, 63, 64, 65, 70}")
        # strings over 12 letters; every truncation, single-byte substitution and one-byte extension of every valid
        # encoding; size-field grid: minimal / 4-byte / 8-byte field x data length need-1, need, need+1 x fill
        g6(ctx, bins, fam + ": strings <= %d over 12 letters + mutants of all encodings + header grid" % (4 if thorough else 3),
           d, ["strings", "mutants", "hdr"], maxlen=4 if thorough else 3, alphabet=A12,
           maxn=(3 if d else 4) if not thorough else (4 if d else 5), bigns="{0, 1, 2, 3, 5, 62, 63, 64}")


def run_graph6_ids(ctx, bins):
    """Encode on graphs whose node IDs are any int64 values (Graph6Ids.tla): every ID set with <= 3 members of an 11-ID pool
    (MinInt64, MinInt64+1, -5, -1, 0, 1, 2, 3, 7, MaxInt64-1, MaxInt64) x every digraph / graph on it; thorough adds every
    ID set with <= 4 members of an 8-ID pool (digraphs on 4 nodes: a seed-chosen shard of 4 by arc count)."""
    thorough = ctx.tier == "thorough"
    plans = [(d, 3, True, 0, 1) for d in (True, False)]
    if thorough:
        plans += [(False, 4, False, 0, 1), (True, 4, False, ctx.seed % 4, 4)]
    for d, idn, wide, shard, nshards in plans:
        fam = "digraph6" if d else "graph6"
        what = "%s: every node ID set with <= %d members of the %s pool x every %s on it" % (
            fam, idn, "11-ID" if wide else "8-ID", "digraph" if d else "graph")
        if nshards > 1:
            what += ", arc-count shard %d/%d (by seed)" % (shard, nshards)
        cases = ctx.gen("codec/Graph6Ids.tla", "codec/Graph6Ids.cfg",
                        subst=dict(DIRECTED="TRUE" if d else "FALSE", SEED=ctx.seed if nshards > 1 else 0, EMIT="TRUE", IDN=idn,
                                   WIDE="TRUE" if wide else "FALSE", SHARD=shard, NSHARDS=nshards),
                        name="R1+R2 gen " + what)
        for bn, b in bins.items():
            ctx.replay(b, "codec-graph6", cases, name="R2 replay %s, 4-9 containers [%s]" % (what, bn))


def run_rdf_decoder(ctx, bins):
    """Histories of one rdf.Decoder (RdfDecoder.tla): a creating operation (NewDecoder(d) / Reset(d) on a zero value, 4
    documents) followed by every sequence of MaxOps-1 operations from {Unmarshal, Unmarshal until io.EOF, Reset(d)}."""
    maxops = 6 if ctx.tier == "thorough" else 5
    cases = ctx.gen("codec/RdfDecoder.tla", "codec/RdfDecoder.cfg", subst=dict(MAXOPS=maxops, EMIT="TRUE", SHARD=0, NSHARDS=1),
                    name="R1+R2 gen rdf.Decoder histories: 8 creating operations x every %d operations over 4 documents" % (maxops - 1))
    for bn, b in bins.items():
        ctx.replay(b, "codec-rdfdec", cases, ["forms=lf,crlf,nofinal", "readers=whole,onebyte,dataerr"],
                   name="R2 replay rdf.Decoder histories, 3 line forms x 3 readers [%s]" % bn)


def run_mat(ctx, bins):
    for mode, what in (("enc", "values 1..4 x 1..4, 11 bit patterns, 3 representations"),
                       ("dec", "dimension grid 13 x 13 x payload lengths, every other header field, every truncation")):
        cases = ctx.gen("codec/MatBinary.tla", "codec/MatBinary.cfg", subst=dict(MODE=mode, SEED=ctx.seed, EMIT="TRUE"),
                        name="R1+R2 gen mat binary %s (%s)" % (mode, what))
        for bn, b in bins.items():
            ctx.replay(b, "codec-mat", cases, name="R2 replay mat binary %s [%s]" % (mode, bn))


RDF_R1 = "OrbitIsDef DefIsOrbit Equivalence OrbitStabiliser ShardInvariant SortTotal LabelsMatter"
# term pools of RdfIso.tla: the triple family (default graph only, 3 blank labels, IRI + literal, 2 predicates: 40 statements),
# quad family A (2 blank labels, 1 predicate, graph label in {none, 2 IRIs, the 2 blank labels}: 45 statements) and
# quad family B (3 blank labels, graph label in {none, 2 IRIs, the 3 blank labels}: 96 statements)
RDF_TRIPLES = dict(NB=3, NPRED=2, WITHLIT="TRUE", NIRILABELS=0, BLANKLABELS="FALSE")
RDF_QUADS_A = dict(NB=2, NPRED=1, WITHLIT="FALSE", NIRILABELS=2, BLANKLABELS="TRUE")
RDF_QUADS_B = dict(NB=3, NPRED=1, WITHLIT="FALSE", NIRILABELS=2, BLANKLABELS="TRUE")
RDF_NAMINGS = ["b", "rev", "c14n", "prefix", "mixed"]


def rdf_sub(pool, **kw):
    d = dict(pool)
    d.update(kw)
    return d


def run_rdf(ctx, bins):
    thorough = ctx.tier == "thorough"
    spec, cfg = "codec/RdfIso.tla", "codec/RdfIso.cfg"
    # R1: Iso (orbit form) = the definition by bijections, is an equivalence, orbit-stabiliser, shard invariance
    if thorough:
        ctx.tlc(spec, cfg, subst=rdf_sub(RDF_TRIPLES, MINQ=0, MAXQ=3, SHARD=0, NSHARDS=1, EMIT="FALSE", INVS=RDF_R1, SHARDFROM=0), workers=4,
                name="R1 RdfIso: all datasets <= 3 quads, 3 blank labels")
    else:
        ctx.tlc(spec, cfg, subst=rdf_sub(RDF_TRIPLES, MINQ=0, MAXQ=3, SHARD=ctx.seed % 6, NSHARDS=6, EMIT="FALSE", INVS=RDF_R1, SHARDFROM=0), workers=4,
                name="R1 RdfIso: datasets <= 3 quads, 3 blank labels, class shard %d/6 (by seed)" % (ctx.seed % 6))
    if thorough:
        ctx.tlc(spec, cfg, subst=rdf_sub(RDF_TRIPLES, MINQ=4, MAXQ=4, SHARD=0, NSHARDS=1, EMIT="FALSE", INVS=RDF_R1, SHARDFROM=0), workers=4,
                name="R1 RdfIso: all datasets with 4 quads", timeout=1500)
    # R2: every dataset with its class key
    if thorough:
        gens = [("<= 3 quads", dict(MINQ=1, MAXQ=3, SHARD=0, NSHARDS=1, SHARDFROM=0))]
        gens += [("4 quads shard %d/4" % i, dict(MINQ=4, MAXQ=4, SHARD=i, NSHARDS=4, SHARDFROM=0)) for i in range(4)]
    else:
        gens = [("all with <= 3 quads + 4 quads class shard %d/32 (by seed)" % (ctx.seed % 32),
                 dict(MINQ=1, MAXQ=4, SHARD=ctx.seed % 32, NSHARDS=32, SHARDFROM=4))]
    for name, sub in gens:
        sub = rdf_sub(RDF_TRIPLES, EMIT="TRUE", INVS="EmitCase", **sub)
        cases = ctx.gen(spec, cfg, subst=sub, name="R2 gen rdf datasets " + name)
        for bn, b in bins.items():
            ctx.replay(b, "codec-rdf", cases, ["namings=b,rev,c14n,prefix,mixed" if thorough else "namings=" + ["b,c14n", "rev,c14n", "b,prefix", "mixed,rev"][ctx.seed % 4]],
                       name="R2 replay rdf %s [%s]" % (name, bn))


def run_rdf_quads(ctx, bins):
    """Datasets with named graphs: statements (s, p, o, g), g in {no label, two IRIs, a blank node of the same pool}.
    Every statement order (all permutations) for the canonical forms, every listing with one or two repetitions
    for Deduplicate."""
    thorough = ctx.tier == "thorough"
    spec, cfg = "codec/RdfIso.tla", "codec/RdfIso.cfg"
    # R1 on the quad pools
    ctx.tlc(spec, cfg, subst=rdf_sub(RDF_QUADS_A, MINQ=0, MAXQ=3, SHARD=0, NSHARDS=1, EMIT="FALSE", INVS=RDF_R1, SHARDFROM=0), workers=4,
            name="R1 RdfIso quads: all datasets <= 3 quads over 45 statements (2 blank labels, graph label none/2 IRIs/blank)")
    if thorough:
        # (DefIsOrbit compares each dataset with all 4 560 pairs of statements: measured 880 s unsharded on a loaded machine)
        ctx.tlc(spec, cfg, subst=rdf_sub(RDF_QUADS_B, MINQ=0, MAXQ=2, SHARD=ctx.seed % 4, NSHARDS=4, EMIT="FALSE", INVS=RDF_R1, SHARDFROM=0), workers=4,
                name="R1 RdfIso quads: datasets <= 2 quads over 96 statements (3 blank labels), class shard %d/4 (by seed)" % (ctx.seed % 4), timeout=1500)
    # R2
    if thorough:
        plans = [("A: all with <= 3 quads", RDF_QUADS_A, dict(MINQ=1, MAXQ=3, SHARD=0, NSHARDS=1, SHARDFROM=0), RDF_NAMINGS[ctx.seed % 5:][:1] + ["c14n"])]
        plans += [("A: 4 quads class shard %d/16 (by seed)" % ((ctx.seed + i) % 16), RDF_QUADS_A,
                   dict(MINQ=4, MAXQ=4, SHARD=(ctx.seed + i) % 16, NSHARDS=16, SHARDFROM=0), [RDF_NAMINGS[(ctx.seed + i) % 5]]) for i in range(2)]
        plans += [("B: all with <= 2 quads + 3 quads class shard %d/8 (by seed)" % (ctx.seed % 8), RDF_QUADS_B,
                   dict(MINQ=1, MAXQ=3, SHARD=ctx.seed % 8, NSHARDS=8, SHARDFROM=3), [RDF_NAMINGS[(ctx.seed + 2) % 5], "rev"])]
    else:
        plans = [("A: all with <= 3 quads + 4 quads class shard %d/128 (by seed)" % (ctx.seed % 128), RDF_QUADS_A,
                  dict(MINQ=1, MAXQ=4, SHARD=ctx.seed % 128, NSHARDS=128, SHARDFROM=4), [RDF_NAMINGS[ctx.seed % 5]]),
                 ("B: all with <= 2 quads + 3 quads class shard %d/64 (by seed)" % (ctx.seed % 64), RDF_QUADS_B,
                  dict(MINQ=1, MAXQ=3, SHARD=ctx.seed % 64, NSHARDS=64, SHARDFROM=3), [RDF_NAMINGS[(ctx.seed + 2) % 5]])]
    for name, pool, sub, names in plans:
        sub = rdf_sub(pool, EMIT="TRUE", INVS="EmitCase", **sub)
        cases = ctx.gen(spec, cfg, subst=sub, name="R2 gen rdf quad datasets " + name)
        for bn, b in bins.items():
            ctx.replay(b, "codec-rdf", cases, ["namings=" + ",".join(dict.fromkeys(names)), "perms=all", "dedup=1"],
                       name="R2 replay rdf quads %s, namings %s, all statement orders, Deduplicate [%s]" % (name, "+".join(dict.fromkeys(names)), bn))


def run_dot(ctx, bins):
    thorough = ctx.tier == "thorough"
    spec, cfg = "codec/DotAbstract.tla", "codec/DotAbstract.cfg"
    runs = [("roles", "every pool string in every role", 0, 1), ("shapes", "all graphs on 3 seed-chosen hostile names", 0, 1),
            ("multi", "multigraphs: every multiset of <= 3 lines between two hostile names", 0, 1),
            ("ports", "both ends ported: 81 port/compass combinations x stored orientation x reversal rule x graph kind, "
                      "simple and multi (1-2 lines), directed and undirected", 0, 1)]
    if thorough:
        runs += [("pairs", "pairs of hostile names, shard %d/4" % i, i, 4) for i in range(4)]
    else:
        runs.append(("pairs", "pairs of hostile names, shard %d/16 (by seed)" % (ctx.seed % 16), ctx.seed % 16, 16))
    for mode, what, shard, nshards in runs:
        cases = ctx.gen(spec, cfg, subst=dict(MODE=mode, SEED=ctx.seed, SHARD=shard, NSHARDS=nshards, EMIT="TRUE"),
                        name="R1+R2 gen dot %s (%s)" % (mode, what))
        for bn, b in bins.items():
            ctx.replay(b, "codec-dot", cases, name="R2 replay dot %s %s [%s]" % (mode, what, bn))
    # decode side: edge statements whose end points are subgraphs nested to depth 3 (DotSubgraph.tla), into simple and
    # multi, directed and undirected destinations
    spec, cfg = "codec/DotSubgraph.tla", "codec/DotSubgraph.cfg"
    if thorough:
        subruns = [("small", "<= 3 leaves: every shape x every pattern of repeated names, + second statement, + earlier node statement", 0, 1)]
        subruns += [("four", "4 leaves, every pattern of repeated names, shard %d/4" % i, i, 4) for i in range(4)]
        subruns += [("chain", "chains of three end points, <= 4 leaves, every pattern", 0, 1)]
    else:
        subruns = [("small", "<= 3 leaves: every shape x every pattern of repeated names, + second statement, + earlier node statement", 0, 1),
                   ("four", "4 leaves, 3 patterns of repeated names, shard %d/4 (by seed)" % (ctx.seed % 4), ctx.seed % 4, 4),
                   ("chain", "chains of three end points, <= 4 leaves, shard %d/2 (by seed)" % (ctx.seed % 2), ctx.seed % 2, 2)]
    for mode, what, shard, nshards in subruns:
        # (the seed only enters the shard selector: an unsharded family is the same for every seed and is cached once)
        sub = dict(MODE=mode, SEED=ctx.seed if nshards > 1 else 0, SHARD=shard, NSHARDS=nshards, EMIT="TRUE",
                   ALLPATS="TRUE" if thorough else "FALSE")
        cases = ctx.gen(spec, cfg, subst=sub, name="R1+R2 gen dot subgraph end points %s (%s)" % (mode, what))
        for bn, b in bins.items():
            ctx.replay(b, "codec-dotsub", cases, name="R2 replay dot subgraph end points %s [%s]" % (mode, bn))


def run_nquads(ctx, bins):
    thorough = ctx.tier == "thorough"
    spec, cfg = "codec/NQuadsAbstract.tla", "codec/NQuadsAbstract.cfg"
    runs = [("lit1", "every literal text of the pool; all subject/object/label shapes", 0, 1)]
    if thorough:
        runs += [("lit2", "text x qualifier x subject x label, shard %d/2" % i, i, 2) for i in range(2)]
    else:
        runs.append(("lit2", "text x qualifier x subject x label, shard %d/4 (by seed)" % (ctx.seed % 4), ctx.seed % 4, 4))
    for mode, what, shard, nshards in runs:
        cases = ctx.gen(spec, cfg, subst=dict(MODE=mode, SEED=ctx.seed, SHARD=shard, NSHARDS=nshards, EMIT="TRUE"),
                        name="R1+R2 gen nquads %s (%s)" % (mode, what))
        for bn, b in bins.items():
            ctx.replay(b, "codec-nquads", cases, name="R2 replay nquads %s [%s]" % (mode, bn))


def run_total(ctx, bins):
    for fam in ("dot", "nq"):
        cases = ctx.gen("codec/TokenCorrupt.tla", "codec/TokenCorrupt.cfg", subst=dict(FAMILY=fam, EMIT="TRUE"),
                        name="R1+R2 gen token corruptions of %s documents (delete/duplicate/transpose/substitute/insert/truncate)" % fam)
        for bn, b in bins.items():
            ctx.replay(b, "codec-total", cases, name="R2 replay decoder totality %s [%s]" % (fam, bn))


def run_hll(ctx, bins):
    for w in (64, 32):
        cases = ctx.gen("codec/HllState.tla", "codec/HllState.cfg",
                        subst=dict(W=w, MODES='{"rt", "union", "sethash", "corrupt"}', SEED=ctx.seed, EMIT="TRUE"),
                        name="R1+R2 gen hll%d: marshal/unmarshal x receiver, Union table, SetHash, malformed-field grid" % w)
        for bn, b in bins.items():
            ctx.replay(b, "codec-hll", cases, name="R2 replay hll%d [%s]" % (w, bn))
        # decoder histories on an initialised receiver: 4 prepared sketches x (context operation, any operation incl. the
        # 35 rejected encodings, probe operation, final Write); thorough: any operation at the first two places
        full = ctx.tier == "thorough"
        cases = ctx.gen("codec/HllHist.tla", "codec/HllHist.cfg",
                        subst=dict(W=w, SEED=ctx.seed, EMIT="TRUE", FULL="TRUE" if full else "FALSE"), timeout=2400,
                        name="R1+R2 gen hll%d decoder histories on an initialised receiver (%s)" % (
                            w, "every operation x every operation x probe" if full else "context x every operation x probe"))
        for bn, b in bins.items():
            ctx.replay(b, "codec-hll", cases, name="R2 replay hll%d decoder histories [%s]" % (w, bn))


PRNG_FAMILIES = [
    # block size in stream units, generator types, ways of drawing the units
    (624, ["MT19937"], [[], ["draw=pairs"]]),
    (312, ["MT19937_64"], [[]]),
    (5, ["SplitMix64", "Xoshiro256plus", "Xoshiro256plusplus", "Xoshiro256starstar"], [[]]),
]


def run_prng(ctx, bins):
    thorough = ctx.tier == "thorough"
    # R1: the abstract machine (place in a stream, byte tokens) keeps its invariants
    maxn = 3 if thorough else 2
    ctx.tlc("codec/PrngStream.tla", "codec/PrngStream.cfg", subst=dict(MAXN=maxn, MAXTOK=maxn, STREAMS="{1, 2}"), workers=4, timeout=1500,
            name="R1 PrngStream: 2 generators, 1 slot, default + 2 seeded streams, positions <= %d, byte tokens <= %d" % (maxn, maxn))
    # R2: every history = prepared configuration (36: generator 1 unseeded or at index 0, 1, B-1, B, B+1 of its block;
    # generator 2 absent, new, zero value or on another stream) followed by Free arbitrary operations, in which a
    # Restore happens
    plans = [(3, 0, 1)] + ([(4, ctx.seed % 4, 4)] if thorough else [])
    for blk, kinds, variants in PRNG_FAMILIES:
        for free, shard, nshards in plans:
            what = "block %d, 36 prepared configurations x every %d free operations" % (blk, free)
            if nshards > 1:
                what += ", configurations shard %d/%d (by seed)" % (shard, nshards)
            cases = ctx.gen("codec/PrngHist.tla", "codec/PrngHist.cfg",
                            subst=dict(B=blk, FREE=free, TAIL=blk + 2, SHARD=shard, NSHARDS=nshards, EMIT="TRUE"),
                            name="R1+R2 gen prng histories (%s)" % what)
            for bn, b in bins.items():
                for v in variants:
                    ctx.replay(b, "codec-prnghist", cases, ["kinds=" + ",".join(kinds)] + v,
                               name="R2 replay prng histories %s %s, %d free operations [%s]" % ("+".join(kinds), " ".join(v), free, bn))
    # R3: long random histories over 4 generators and 6 slots, every truncation and a few extensions of a state
    for bn, b in bins.items():
        tr = os.path.join(ctx.work, "prng-%s.ndjson" % bn)
        summ = ctx.record(b, "codec-prng", tr, ["steps=%d" % (2000 if thorough else 600)], name="R3 record prng histories [%s]" % bn)
        ok, st = ctx.validate("codec/PrngStreamTrace.tla", "codec/PrngStreamTrace.cfg", tr, name="R3 validate prng histories [%s]" % bn)
        if ok:
            ctx.traces += summ.get("traces", 0)
        else:
            keep = os.path.join(os.path.dirname(os.path.abspath(__file__)), "..", "..", "replays", "C16")
            os.makedirs(keep, exist_ok=True)
            dst = os.path.abspath(os.path.join(keep, "prng-trace-%s-seed%d.ndjson" % (bn, ctx.seed)))
            shutil.copy(tr, dst)
            ctx.violation("codec:prng:trace-rejected", st.get("detail", "")[:700],
                          {"trace": dst, "spec": "codec/PrngStreamTrace.tla", "cfg": "codec/PrngStreamTrace.cfg"})


def run(ctx):
    builds = [("default", "")]
    bins = {n: ctx.build(t) for n, t in builds}

    def object_histories():
        run_rdf_decoder(ctx, bins)
        run_graph6_ids(ctx, bins)

    def small_families():
        run_mat(ctx, bins)
        run_dot(ctx, bins)
        run_nquads(ctx, bins)
        run_total(ctx, bins)
        run_hll(ctx, bins)

    # independent families side by side (the generators are single-threaded TLC runs)
    ctx.parallel([lambda: run_graph6(ctx, bins, (False,)), lambda: run_graph6(ctx, bins, (True,)),
                  lambda: run_rdf(ctx, bins), lambda: run_rdf_quads(ctx, bins), small_families, lambda: run_prng(ctx, bins),
                  object_histories], width=7)

    ctx.assumptions += [
        "TLC/SANY and the CommunityModules Json module are trusted",
        "the harness's operand builders (byte sequence -> string, model node i -> real id by a strictly increasing map) "
        "and set comparison are trusted",
        "graph6: strings longer than 10^8 bytes (orders above 40000) are outside the model; such size fields are "
        "classified invalid because no enumerated string is that long",
    ]
    return ctx.finish(
        rule="one case = one spec-printed graph / byte string / header / dataset pushed through the real encoder or "
             "decoder and compared with the expected value the specification printed; non-trivial = the expected "
             "outcome is not plain rejection (a value is decoded or encoded and compared)",
        exhaustive=True)


def replay(ctx, path):
    d = json.load(open(path))["data"]
    if "trace" in d:
        ok, st = ctx.validate(d["spec"], d["cfg"], d["trace"])
        print("trace accepted" if ok else "trace rejected: " + st.get("detail", "")[:800])
        if not ok:
            print("VIOLATION property=C16 replay=%s" % path)
        return 0 if ok else 1
    one = os.path.join(ctx.work, "one.ndjson")
    with open(one, "w") as fh:
        for c in d["failure"].get("prelude", []):
            fh.write(json.dumps(c) + "\n")
        fh.write(json.dumps(d["failure"]["case"]) + "\n")
    ctx.replay(ctx.build(""), d["area"], one, d["args"], confirm=False)
    return ctx.finish()
