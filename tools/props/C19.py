"""C19 - Minimize always terminates with a coherent result; LP answers are truly optimal."""
import importlib.util
import json
import os

HERE = os.path.dirname(os.path.abspath(__file__))


def _load(name):
    spec = importlib.util.spec_from_file_location(name, os.path.join(HERE, name + ".py"))
    m = importlib.util.module_from_spec(spec)
    spec.loader.exec_module(m)
    return m


def run(ctx):
    th = ctx.tier == "thorough"
    mz = _load("_minimize")
    b = ctx.build("")
    mz.r1(ctx, th)
    ctx.parallel([lambda: mz.r3(ctx, th, b, "default", "C19"), lambda: mz.r3_reuse(ctx, th, b, "C19"),
                  lambda: mz.r3_defaults(ctx, th, b, "C19")], width=3)
    if os.path.exists(os.path.join(HERE, "C19_misc.py")):
        _load("C19_misc").run_misc(ctx)
    if os.path.exists(os.path.join(HERE, "C19_lp.py")):
        _load("C19_lp").run_lp(ctx)
    if os.path.exists(os.path.join(HERE, "C19_ls.py")):
        _load("C19_ls").run_ls(ctx)
    ctx.assumptions += [
        "TLC trusted; the hook emitters in optimize/minimize.go and the recording Method proxy are trusted to log "
        "each goroutine's own events in program order (no cross-goroutine ordering is used)",
        "F = f(X), 'X was evaluated' and 'no worse than the initial point' are logging-boundary predicates computed "
        "by the harness from the values the real run produced (bit comparisons), the specification says when they must hold",
        "'reaches the minimiser to tolerance' is not covered (no real arithmetic in TLA+)",
        "'the reported gradient is the gradient at the reported X' is a logging-boundary predicate as well: the harness's objective "
        "wrapper remembers, per run, the gradient it returned for each point (bit comparison); histories that reuse one Method value "
        "(harness/internal/optim/reuse.go) judge every run on its own - evaluated points, counters and the start value are those of that run",
        "runs made with method == nil come without the method's own log (no proxy can be put around a method the caller never sees): the "
        "acceptor lets the method move silently; 'the error returned is the Recorder's / an ErrFunc holding the invalid value / an ErrGrad "
        "naming an invalid component', '|gradient|_inf < threshold' and 'F = -Inf' are logging-boundary predicates on values the run produced",
    ]
    return ctx.finish(
        rule="one trace = one real Minimize run (method x termination cause x Concurrent; in the reuse histories: one of the 2-3 runs made "
             "with one Method value, the first stopped by one budget at one small count) validated against the protocol "
             "model and the result-coherence conditions (also: method == nil x Problem fields, InitValues, invalid start values, refused calls); Status registry / Wolfe grid / Printer: see C19_misc.MISC_RULE; line search: one trace = one real LinesearchMethod run validated against LineSearch.tla, one case = one TLC behaviour replayed into LinesearchMethod / FunctionConverge; LP: one case = one integer LP classified exactly by the spec",
        exhaustive=False)


def replay(ctx, path):
    d = json.load(open(path))["data"]
    if d.get("ls"):
        return _load("C19_ls").replay_ls(ctx, d)
    if "trace" in d:
        return _load("_minimize").replay_trace(ctx, d, "C19")
    if "failure" in d and "area" in d:
        one = os.path.join(ctx.work, "one.ndjson")
        with open(one, "w") as fh:
            fh.write(json.dumps(d["failure"]["case"]) + "\n")
        ctx.replay(ctx.build("noasm" if "noasm" in d.get("binary", "") else ""), d["area"], one, d["args"], confirm=False)
        return ctx.finish()
    lp = _load("C19_lp")
    if hasattr(lp, "replay_lp"):
        return lp.replay_lp(ctx, d)
    return 2
