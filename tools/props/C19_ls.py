"""C19, line-search clause and convergence window - "line searches return steps satisfying their
advertised conditions" and optimize.FunctionConverge.

specs/optimize/LineSearch.tla        optimize.LinesearchMethod x one Linesearcher as a state machine over the calls
                                     crossing the Linesearcher interface and the operations handed to the driver;
                                     real-valued data are opaque, every event carries logging-boundary predicates
specs/optimize/LineSearchTrace.tla   acceptor for logs of real line searches
specs/optimize/FunctionConverge.tla  the convergence window: machine + independent statement over the history
specs/optimize/FunctionConvergeTrace.tla

R1  TLC: theorems of the composed machine for every predicate outcome (Backtracking, Bisection, MoreThuente).
R2  TLC prints every bounded behaviour of LinesearchMethod against an arbitrary (scripted) Linesearcher and
    NextDirectioner; the harness replays them into the real optimize.LinesearchMethod.  Same for FunctionConverge.
R3  recording proxies around the real Linesearchers inside real LinesearchMethod runs (driven directly, and inside
    real optimize.Minimize runs of GradientDescent / BFGS / LBFGS / CG), validated by TLC.

run_ls(ctx) performs the stages and does not call ctx.finish (the caller does).
"""
import os
import shutil

LS_RULE = ("line search: R2 one case = one complete bounded behaviour of LinesearchMethod against a scripted "
           "Linesearcher (non-trivial: at least one Linesearcher.Iterate call); R3 one trace = one real run of a "
           "method x Linesearcher x objective (up to 25 line searches); FunctionConverge: one case = one history of "
           "Converged calls (non-trivial: FunctionConvergence is reached), one trace = one real Minimize run")

# Genuine defect of gonum found by this clause (see tools/props/C19_ls.notes.md).  It is NOT suppressed here:
# suppression is the business of known_findings.json.  tools/props/C19ls.py (stand-alone test driver) installs it
# in memory so that the stand-alone run shows the state "all known".
PROPOSED_KNOWN = [
    {"id": "C19-LS1", "status": "known",
     "match": r"^linesearch:trace-rejected:(direct|min):morethuente:nonfinF$",
     "what": "optimize.MoreThuente answers an objective value of +Inf (or NaN) at a trial step with a NaN trial step "
             "(morethuente.go nextStep: the cubic/quadratic interpolation is evaluated with f = +Inf; Iterate has no "
             "finiteness guard and every bracketing test is false for a NaN step), or asks for the same evaluation at "
             "the same step again; LinesearchMethod.Iterate (linesearch.go) moves to x + NaN*dir without any check. "
             "The advertised 'step > 0' is violated and the line search never ends: e.g. functions.ExtendedRosenbrock "
             "from (-1.2, 1) with Func returning +Inf for x[0] > 0.25 (a barrier), optimize.Minimize(p, x0, nil, "
             "&optimize.CG{}) - CG's default Linesearcher is MoreThuente - never returns (also BFGS / LBFGS with "
             "Linesearcher: &MoreThuente{}; also with NaN instead of +Inf). Backtracking and Bisection handle the same "
             "objective (ErrLinesearcherFailure or convergence)."},
    {"id": "C19-LS2", "status": "known",
     "match": r"^linesearch:trace-rejected:(direct|min):morethuente-bounds:(finite|nonfinF)$",
     "what": "optimize.MoreThuente.Init clamps the first trial step into [MinimumStep, MaximumStep] privately "
             "(morethuente.go Init: 'if step < mt.MinimumStep { step = mt.MinimumStep }; if step > mt.MaximumStep ...'), "
             "but the Linesearcher interface cannot return it and LinesearchMethod.initNextLinesearch (linesearch.go) "
             "evaluates at the NextDirectioner's unclamped step: MoreThuente then judges phi(step_unclamped) as if it "
             "were phi(step_clamped). Observed: BFGS (NextDirection returns 1) with &MoreThuente{DecreaseFactor: 1e-4, "
             "MaximumStep: 0.75}: the point at step 1 satisfies Armijo and the curvature condition, Iterate returns "
             "ErrLinesearcherBound in the second line search of a planted quadratic (and a step above MaximumStep was "
             "evaluated); BFGS with &MoreThuente{DecreaseFactor: 1e-4, CurvatureFactor: 0.5, MinimumStep: 0.05} on "
             "functions.Watson from (-1.5,-1.125,-0.125,-1,-1.875,-0.5) (initial step 1/|g| < 0.05): Iterate returns "
             "MajorIteration with step 0.05 although the step evaluated (and thereby accepted) is the smaller one."},
]


def _keep(ctx, tr, name):
    keep = os.path.join(os.path.dirname(ctx.work), "..", "replays", ctx.id)
    os.makedirs(keep, exist_ok=True)
    dst = os.path.abspath(os.path.join(keep, "%s-seed%d.ndjson" % (name, ctx.seed)))
    shutil.copy(tr, dst)
    return dst


def _r3(ctx, binary, label, spec, cfg, args, sigkind):
    tr = os.path.join(ctx.work, "ls-%s.ndjson" % label)
    summ = ctx.record(binary, "linesearch", tr, args, name="R3 record " + label, timeout=900)
    ok, st = ctx.validate(spec, cfg, tr, name="R3 validate " + label, timeout=1500)
    if ok:
        n = summ.get("traces", 0)
        ctx.traces += n
        ctx.cases += n
        ctx.nontrivial += n
    else:
        dst = _keep(ctx, tr, "linesearch-" + label)
        ctx.violation("linesearch:trace-rejected:%s" % sigkind, st.get("detail", "")[:900],
                      {"trace": dst, "spec": spec, "cfg": {}, "ls": True})


def run_ls(ctx):
    th = ctx.tier == "thorough"
    b = ctx.build("")
    M = "optimize/LineSearch.tla", "optimize/LineSearch_model.cfg"
    thunks = []

    # ---- R1: the composed machine, every predicate outcome ---------------------------------
    def r1(kind, mi, ms):
        # MaxRuns = 2: the run is stopped anywhere (or fails) and the same LinesearchMethod / Linesearcher values are
        # initialised again (ReInit); theorem ReInitIsStart
        ctx.tlc(*M, workers=2, name="R1 LineSearch %s MaxIter=%d MaxSearch=%d, two runs on one value" % (kind, mi, ms), coverage=True,
                subst=dict(SPEC="SpecR1", KINDS='{"%s"}' % kind, WITHH="FALSE", MAXITER=mi, MAXSEARCH=ms, MAXRUNS=2, EMIT="FALSE"))
    for kind in ("backtracking", "bisection", "morethuente"):
        thunks.append(lambda kind=kind: r1(kind, 4 if th else 3, 2))

    # ---- R2: LinesearchMethod against a scripted Linesearcher -------------------------------
    def r2(withh, mi, ms, runs=1):
        tag = "H=%s MaxIter=%d MaxSearch=%d" % (withh, mi, ms) + (", %d runs on one value (reinit)" % runs if runs > 1 else "")
        cases = ctx.gen(*M, name="R2 gen LinesearchMethod behaviours " + tag,
                        subst=dict(SPEC="Spec", KINDS='{"script"}', WITHH=withh, MAXITER=mi, MAXSEARCH=ms, MAXRUNS=runs, EMIT="TRUE"))
        ctx.replay(b, "linesearch", cases, [], name="R2 replay LinesearchMethod " + tag)
    thunks.append(lambda: r2("FALSE", 4, 3))
    thunks.append(lambda: r2("TRUE", 4 if th else 3, 3))
    if th:
        thunks.append(lambda: r2("FALSE", 5, 3))
    # one LinesearchMethod value used for two runs: the first run stopped at EVERY place of the cycle (between a trial
    # evaluation and Iterate, while the evaluation completing an accepted step is outstanding, after a MajorIteration)
    # or failed, then Init again; the bounds count over both runs
    thunks.append(lambda: r2("FALSE", 3, 3, runs=2))
    thunks.append(lambda: r2("TRUE", 3, 2, runs=2))
    if th:
        thunks.append(lambda: r2("FALSE", 4, 2, runs=2))

    # ---- R3: real line searches ---------------------------------------------------------------
    # one trace file per (recording mode, Linesearcher kind, class of the run): a rejection names its class and
    # does not hide the other classes.  class = what the objective fed: only finite values / a non-finite
    # function value (runs fed a non-finite gradient are counted, not judged)
    per = 12 if th else 2
    for mode in ("direct", "min"):
        for kind in ("backtracking", "bisection", "morethuente", "morethuente-bounds"):
            for cls in ("finite", "nonfinF"):
                thunks.append(lambda mode=mode, kind=kind, cls=cls: _r3(
                    ctx, b, "%s-%s-%s" % (mode, kind, cls), "optimize/LineSearchTrace.tla", "optimize/LineSearchTrace.cfg",
                    ["mode=" + mode, "per=%d" % per, "kind=" + kind, "class=" + cls], "%s:%s:%s" % (mode, kind, cls)))

    # the same method / LinesearchMethod / Linesearcher values used for two runs (first run stopped by every small
    # budget); finite objectives only, the Linesearcher configurations of the known finding C19-LS2 left out
    for mode in ("direct", "min"):
        thunks.append(lambda mode=mode: _r3(
            ctx, b, "reuse-%s" % mode, "optimize/LineSearchTrace.tla", "optimize/LineSearchTrace.cfg",
            ["reuse", "mode=" + mode, "per=%d" % (8 if th else 2), "class=finite"], "reuse:%s" % mode))

    # ---- FunctionConverge ---------------------------------------------------------------------
    F = "optimize/FunctionConverge.tla", "optimize/FunctionConverge.cfg"

    def fc_gen(vmax, mlen, iters, reinit):
        sub = dict(VMAX=vmax, MAXLEN=mlen, ITERS=iters, ABS="{0, 1}", RELNUM="{0, 1, 2}", REINIT=reinit, EMIT="TRUE")
        cases = ctx.gen(*F, subst=sub, name="R1+R2 gen FunctionConverge |f|<=%d len %d iters %s" % (vmax, mlen, iters))
        ctx.replay(b, "linesearch", cases, ["mode=fc"], name="R2 replay FunctionConverge |f|<=%d len %d" % (vmax, mlen))
    thunks.append(lambda: fc_gen(2, 5, "{0, 1, 2, 3}", "FALSE"))
    thunks.append(lambda: fc_gen(1, 6, "{1, 2, 4}", "TRUE"))
    if th:
        thunks.append(lambda: fc_gen(3, 6, "{1, 2, 3}", "FALSE"))
    thunks.append(lambda: ctx.tlc(*F, workers=2, name="R1 FunctionConverge machine = documented window, |f|<=3 len 6",
                                  subst=dict(VMAX=3, MAXLEN=6 if th else 5, ITERS="{0, 1, 2, 3, 5}", ABS="{0, 1, 3}",
                                             RELNUM="{0, 1, 4}", REINIT="TRUE", EMIT="FALSE")))
    thunks.append(lambda: _r3(ctx, b, "fc", "optimize/FunctionConvergeTrace.tla", "optimize/FunctionConvergeTrace.cfg",
                              ["mode=fc", "runs=%d" % (3000 if th else 400)], "functionconverge"))

    ctx.parallel(thunks, width=6)

    ctx.assumptions += [
        "line search: TLC/SANY/Json trusted; the recording proxies around optimize.Linesearcher / NextDirectioner / "
        "Recorder / Converger are trusted to log every call in order (single goroutine or causally ordered)",
        "line search: Armijo, curvature, step > 0, 'step is the NextDirectioner's', 'value passed is the value evaluated "
        "at this step', 'point is start + step*dir' are logging-boundary predicates computed by the harness from the "
        "values the real code passed and returned (bit comparisons; inequalities three-valued with a 32 ulp undecided "
        "band); the specification alone decides when they must hold",
    ]
    return LS_RULE


def replay_ls(ctx, d):
    ok, st = ctx.validate(d["spec"], d["spec"].replace(".tla", ".cfg"), d["trace"], subst=d.get("cfg") or {})
    print("trace accepted" if ok else "trace rejected: " + st.get("detail", "")[:1200])
    if not ok:
        print("VIOLATION property=%s replay=%s" % (ctx.id, d["trace"]))
    shutil.rmtree(ctx.work, ignore_errors=True)
    return 0 if ok else 1
