"""C18 - quadrature, differentiation and interpolation on their design classes (exact-rational part).

Every stage is a TLC generator run over a module of specs/num whose Emit invariant prints a case only
after the module's theorems (R1) held on it, followed by a replay of the printed cases into gonum (R2,
spec->code, harness area "num"):

  Quadrature.tla   trapezoid / Simpson / Romberg as definitions over Q on all sorted lattice grids;
                   Gauss-Legendre structure and moment conditions for n = 1..300
  FiniteDiff.tla   stencil definitions of the six formulas and of Derivative .. CrossLaplacian on integer
                   polynomials with dyadic steps (bitwise comparison), exactness classes, consistency
  DualAlgebra.tla  dual / hyperdual / quaternion / dual quaternion / dual complex algebras from basis
                   multiplication tables, ring laws, inverses, integer powers
  DualFun.tla      elementary functions of dual / hyperdual numbers: chain rule with rational f', f'' tables
                   (pinned by differential identities), first-order systems for Exp/Sin/Cos/Sinh/Cosh/Tan/Tanh
                   with f'' derived by polynomial differentiation, zero-real-part arguments, identities
                   Exp(Log a) = a, Pow(a,2) = a a, Sqrt(a)^2 = a, Log(ab) = Log a + Log b; dualquat / dualcmplx
                   with scalar or complex leading part
  Interp.tla       piecewise constant / linear / Hermite / Akima / Fritsch-Butland / natural / clamped /
                   not-a-knot interpolants on <= 6 integer knots by rational elimination
  InterpHist.tla   histories of 2-3 Fit calls on ONE predictor value (growing, equal, shrinking knot counts; nested,
                   overlapping, disjoint ranges; failing calls in between): the state of the object is the data of its
                   last good Fit; after every good step the answers are Interp.tla's for that step's data (R2), and at
                   points outside the knots, where the documentation fixes no value, the recorded answers of the refitted
                   object and of fresh objects must be one function of (data, point) (R3, InterpHistTrace.tla)
  GaussHermite.tla Gauss-Hermite moments as rational multiples of sqrt(pi) (n = 1..20 every k <= 2n-1, tabulated
                   n <= 200 and the asymptotic branch n > 200), structure clauses, the first inexact moment k = 2n,
                   the default rule of quad.Fixed on (semi-)infinite ranges (rational integrals), and the
                   argument contracts of integrate / integrate/quad / interp as a decision table
  QuatFun.tla      elementary functions of quaternions: expression trees over gonum's own functions with exact
                   rational values (definitions through Exp, first integrals, inverse pairs, exact squares and
                   integer powers, similarity and conjugation symmetry, real-argument reduction, documented
                   special values, IsInf / IsNaN / Abs truth tables)
  NumText.tla      positional decimal notation; fmt.Formatter layouts of the five number types; quat.Parse on
                   generated strings of the documented format, on malformed strings, and Parse(Format(q)) = q
"""
import json
import os
import re
import shutil

from vlib import SPECS

S = lambda *a: "{" + ",".join('"%s"' % x for x in a) + "}"


def quad_stages(ctx, thorough, seed):
    """(name, subst) of the Quadrature.tla generator runs."""
    base = dict(NMIN=2, NMAX=7, DMAX=4, NPOLY=3 if thorough else 2, SEED=seed, GLMIN=1, GLMAX=1, GLALL=0,
                VLO=0 if thorough else seed % 4, VHI=3 if thorough else seed % 4)
    st = []
    if thorough:
        for v in range(4):
            st.append(("trapezoid v%d" % v, dict(base, KINDS=S("trap"), VLO=v, VHI=v)))
            st.append(("simpson v%d" % v, dict(base, KINDS=S("simp"), VLO=v, VHI=v)))
    else:
        st.append(("trapezoid", dict(base, KINDS=S("trap"))))
        st.append(("simpson n<=5", dict(base, KINDS=S("simp"), NMAX=5)))
        st.append(("simpson n=6..7", dict(base, KINDS=S("simp"), NMIN=6)))
    st.append(("romberg", dict(base, KINDS=S("romb"), DMAX=8, VLO=0, VHI=3)))
    st.append(("gauss-legendre structure n<=300", dict(base, KINDS=S("gls"), GLMAX=300)))
    if thorough:
        for lo, hi in ((1, 150), (151, 230), (231, 300)):
            st.append(("gauss-legendre all moments n=%d..%d" % (lo, hi), dict(base, KINDS=S("glm"), GLMIN=lo, GLMAX=hi, GLALL=1)))
    else:
        st.append(("gauss-legendre moments n<=300", dict(base, KINDS=S("glm"), GLMAX=300, GLALL=0)))
    return [("quadrature " + n, "num/Quadrature.tla", "num/Quadrature_gen.cfg", s) for n, s in st]


def fd_stages(ctx, thorough, seed):
    allr = ["Derivative", "Gradient", "Jacobian", "Laplacian", "CrossLaplacian"]
    base = dict(DLO=1, DHI=4, KS="{2,3,5}" if thorough else "{3,5}", NP=16 if thorough else 8, SEED=seed)
    st = [("finite differences " + ", ".join(allr), dict(base, ROUTINES=S(*allr)))]
    # the Hessian is the expensive definition: its own runs, split by dimension
    st.append(("finite differences Hessian d<=3", dict(base, ROUTINES=S("Hessian"), DHI=3)))
    st.append(("finite differences Hessian d=4", dict(base, ROUTINES=S("Hessian"), DLO=4)))
    return [(n, "num/FiniteDiff.tla", "num/FiniteDiff_gen.cfg", s) for n, s in st]


def alg_stages(ctx, thorough, seed):
    st = []
    for types, nq, nt, shards in ((("dual", "hyper"), 8, 24, 1), (("quat", "dcmplx"), 6, 16, 1), (("dquat",), 2, 8, 3)):
        for sh in range(shards):
            st.append(("algebra " + "+".join(types) + (" shard %d/%d" % (sh + 1, shards) if shards > 1 else ""),
                       "num/DualAlgebra.tla", "num/DualAlgebra_gen.cfg",
                       dict(TYPES=S(*types), NRAND=nt if thorough else nq, SEED=seed, SHARD=sh, NSHARDS=shards)))
    return st


def interp_stages(ctx, thorough, seed):
    base = dict(NMIN=2, NMAX=6, LMAX=7 if thorough else 6, NDATA=10 if thorough else 7, SEED=seed)
    groups = [("const, linear, given derivatives, Akima, Fritsch-Butland", ("const", "linear", "pwcubic", "akima", "fb")),
              ("natural, clamped", ("natural", "clamped")), ("not-a-knot", ("notaknot",))]
    return [("interpolation " + n, "num/Interp.tla", "num/Interp_gen.cfg", dict(base, METHODS=S(*m))) for n, m in groups]


ALL_INTERP = ("const", "linear", "pwcubic", "akima", "fb", "natural", "clamped", "notaknot")
IH_SPEC, IH_CFG = "num/InterpHistTrace.tla", "num/InterpHistTrace.cfg"


def _ih_validate(ctx, hb, cases, label):
    """R3 for the fit histories in `cases`: record the answers outside the knots, let TLC judge them."""
    tr = os.path.join(ctx.work, "interphist-trace-%s.ndjson" % label)
    summ = ctx.record(hb, "num-interphist", tr, ["cases=" + cases], name="R3 record interpolation fit histories, queries outside the knots (%s)" % label)
    ok, st = ctx.validate(IH_SPEC, IH_CFG, tr, name="R3 validate interpolation fit histories (%s)" % label)
    if ok:
        ctx.traces += summ.get("traces", 0)
        ctx.cases += summ.get("traces", 0)
        ctx.nontrivial += summ.get("traces", 0)
        return True
    keep = os.path.join(os.path.dirname(os.path.abspath(__file__)), "..", "..", "replays", "C18")
    os.makedirs(keep, exist_ok=True)
    dst = os.path.abspath(os.path.join(keep, "interphist-trace-%s-seed%d.ndjson" % (label, ctx.seed)))
    shutil.copy(tr, dst)
    m = re.search(r'm \|-> \\?"(\w+)', st.get("detail", ""))
    names = {"const": "PiecewiseConstant", "linear": "PiecewiseLinear", "pwcubic": "PiecewiseCubic", "akima": "AkimaSpline",
             "fb": "FritschButland", "natural": "NaturalCubic", "clamped": "ClampedCubic", "notaknot": "NotAKnotCubic"}
    who = names.get(m.group(1), "?") if m else "?"
    ctx.violation("num:interp.%s:history:trace-rejected" % who,
                  "the answer of a predictor outside its knots is not a function of the data of its last Fit and the query point "
                  "(a refitted object and a fresh object disagree, or a query panicked): " + st.get("detail", "")[:700],
                  {"trace": dst, "spec": IH_SPEC, "cfg_file": IH_CFG, "cfg": {}})
    return False


def interp_histories(ctx, hb, thorough, seed):
    def thunk():
        cases = ctx.gen("num/InterpHist.tla", "num/InterpHist_gen.cfg", subst=dict(METHODS=S(*ALL_INTERP), NDATA=6 if thorough else 2, SEED=seed),
                        name="R1+R2 gen interpolation fit histories (one object, 2-3 Fit calls, 22 knot histories x 8 types)", timeout=1700)
        ctx.replay(hb, "num", cases, name="R2 replay interpolation fit histories")
        _ih_validate(ctx, hb, cases, "all")
    return thunk


def dfun_stages(ctx, thorough, seed):
    fns = S("Inv", "Log", "Sqrt", "SqrtSq", "PowInt", "PowHalf", "Atan", "Atanh", "Asin", "Acos", "Asinh", "Acosh",
            "Exp", "Sin", "Cos", "Sinh", "Cosh", "Tan", "Tanh", "ExpLog", "PowNum2", "LogMul", "Special")
    return [("elementary functions dual+hyperdual (derivative parts, identities, documented special values)", "num/DualFun.tla", "num/DualFun_gen.cfg",
             dict(TYPES=S("dual", "hyper"), FUNS=fns, NVAR=4, SEED=seed)),
            ("elementary functions dualquat+dualcmplx (scalar / complex leading part, Pow, documented special values)", "num/DualFun.tla", "num/DualFun_gen.cfg",
             dict(TYPES=S("dquat", "dcmplx"), FUNS=S("Log", "Sqrt", "PowInt", "PowNum", "Exp", "Special"), NVAR=4, SEED=seed))]


def iset(xs):
    return "{" + ",".join(str(x) for x in sorted(set(xs))) + "}"


def hermite_stages(ctx, thorough, seed):
    spec, cfg = "num/GaussHermite.tla", "num/GaussHermite_gen.cfg"
    if thorough:
        small, big = range(1, 200), [200, 201, 202, 203, 204, 205, 250, 301, 400, 500, 1000]
        st = [("gauss-hermite n=1..199 every moment k<=min(2n-1,100)", dict(KINDS=S("ghs", "ghm"), NSET=iset(small), KCAP=100, KALL=1, SEED=seed)),
              ("gauss-hermite n>=200 (asymptotic branch n>200) every moment k<=100", dict(KINDS=S("ghs", "ghm"), NSET=iset(big), KCAP=100, KALL=1, SEED=seed)),
              ("gauss-hermite n=2000..8000 (Airy roots beyond the ten tabulated ones), selected moments",
               dict(KINDS=S("ghs", "ghm"), NSET=iset([2000, 5000, 6747, 6748, 7000, 8000]), KCAP=60, KALL=0, SEED=seed))]
    else:
        st = [("gauss-hermite n=1..20 every moment k<=2n-1", dict(KINDS=S("ghs", "ghm"), NSET=iset(range(1, 21)), KCAP=60, KALL=1, SEED=seed)),
              ("gauss-hermite tabulated n<=200 and asymptotic n>200, selected moments k<=60",
               dict(KINDS=S("ghs", "ghm"), NSET=iset([25, 50, 64, 100, 150, 199, 200, 201, 202, 250, 301, 500, 7000] + [21 + (seed * 37) % 170, 203 + (seed * 53) % 300]),
                    KCAP=60, KALL=0, SEED=seed))]
    st.append(("default rule on (semi-)infinite ranges; argument contracts of integrate, quad, interp",
               dict(KINDS=S("ginf", "ctr"), NSET="{1}", KCAP=1, KALL=0, SEED=seed)))
    return [(n, spec, cfg, s) for n, s in st]


def quat_stages(ctx, thorough, seed):
    spec, cfg = "num/QuatFun.tla", "num/QuatFun_gen.cfg"
    if thorough:
        groups = [("definitions, first integrals, inverse pairs", ("def", "pyth", "inv")), ("similarity invariance", ("sim",)),
                  ("conjugation, powers, real arguments, special values, branch cuts", ("conj", "pow", "real", "special", "cut"))]
        return [("quaternion functions " + n, spec, cfg, dict(GROUPS=S(*g), TIER=1, SEED=seed)) for n, g in groups]
    return [("quaternion functions (definitions, identities, symmetries, exact points, special values)", spec, cfg,
             dict(GROUPS=S("def", "pyth", "inv", "sim", "conj", "pow", "real", "special", "cut"), TIER=0, SEED=seed))]


def text_stages(ctx, thorough, seed):
    return [("text forms: Format of quat / dual / hyperdual / dualquat / dualcmplx, quat.Parse", "num/NumText.tla", "num/NumText_gen.cfg",
             dict(KINDS=S("format", "parse", "reject", "round"), NVEC=16 if thorough else 6, NPARSE=1200 if thorough else 240, SEED=seed))]


def run(ctx):
    os.makedirs(os.path.join(SPECS, "lib"), exist_ok=True)
    thorough = ctx.tier == "thorough"
    seed = ctx.seed % 1000
    hb = ctx.build("")
    stages = (quad_stages(ctx, thorough, seed) + fd_stages(ctx, thorough, seed) + alg_stages(ctx, thorough, seed) + interp_stages(ctx, thorough, seed)
              + dfun_stages(ctx, thorough, seed) + hermite_stages(ctx, thorough, seed) + quat_stages(ctx, thorough, seed) + text_stages(ctx, thorough, seed))
    stages.sort(key=lambda st: ("Hessian" not in st[0], "dquat" not in st[0], "quaternion" not in st[0], "simpson" not in st[0]))   # longest first

    def one(st):
        name, spec, cfg, subst = st
        def thunk():
            cases = ctx.gen(spec, cfg, subst=subst, name="R1+R2 gen " + name, timeout=1700)
            ctx.replay(hb, "num", cases, name="R2 replay " + name)
        return thunk
    ctx.parallel([one(s) for s in stages] + [interp_histories(ctx, hb, thorough, seed)], width=4)

    ctx.assumptions += [
        "TLC/SANY and the CommunityModules Json module are trusted",
        "the harness's decoding of the spec's rationals (exactness of the float conversion is asserted), the "
        "big.Rat comparison and the integrands it hands to gonum (x^k by repeated multiplication, polynomial "
        "evaluation on dyadic points, the rational / algebraic integrands of the default-rule cases) are trusted",
        "Gauss-Hermite: the specification's expected values are rational multiples of sqrt(pi); the harness multiplies by "
        "the one constant math.Sqrt(math.Pi)",
        "quaternion identities: both sides of an identity are evaluated by gonum (the specification supplies the identity, "
        "the exact rotated / squared / inverted arguments and the rational value); the rounding allowance is tolu*2^-52 times "
        "the largest modulus among the leaves and intermediate values of the printed expression",
        "fit histories: outside the knots the documentation of package interp fixes no value; the state machine of InterpHist.tla only says "
        "that an answer is a function of the data of the last successful Fit and of the query point, and InterpHistTrace.tla judges the "
        "recorded bit patterns of refitted and fresh objects by that clause (the harness's recording of calls and answers is trusted)",
        "fmt (package fmt's formatting of float64 and complex128) and strconv.ParseFloat are trusted; the shortest "
        "decimal of a float with a terminating expansion of at most 15 digits is that expansion",
    ]
    return ctx.finish(
        rule="one case = one gonum call (or one node/weight table) on operands printed by the specification whose "
             "result was compared with the specification's exact rational value within the specification's rounding "
             "allowance (0 where the spec proves the float computation exact); non-trivial = integrand of degree >= 1 / "
             "any Gauss-Legendre / Gauss-Hermite case / every quaternion identity / every text case / every contract case that must panic; "
             "fit histories: one case = one history of 2-3 Fit calls on one predictor value with all queries after every good step "
             "(non-trivial = at least two good steps), one trace = the recorded answers of that history's refitted and fresh objects outside the knots",
        exhaustive=False)


def replay(ctx, path):
    os.makedirs(os.path.join(SPECS, "lib"), exist_ok=True)
    d = json.load(open(path))["data"]
    if "trace" in d:
        ok, st = ctx.validate(d["spec"], d["cfg_file"], d["trace"], subst=d.get("cfg", {}))
        print("trace accepted" if ok else "trace rejected: " + st.get("detail", "")[:800])
        if not ok:
            print("VIOLATION property=C18 replay=%s" % path)
        return 0 if ok else 1
    one = os.path.join(ctx.work, "one.ndjson")
    with open(one, "w") as fh:
        fh.write(json.dumps(d["failure"]["case"]) + "\n")
    if d.get("area") == "num-interphist":
        # a query outside the knots panicked while a fit history was recorded: record that history alone again
        _ih_validate(ctx, ctx.build(""), one, "one")
        return ctx.finish()
    ctx.replay(ctx.build(""), d["area"], one, d["args"], confirm=False, name="replay")
    return ctx.finish()
