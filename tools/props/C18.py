"""C18 - quadrature, differentiation and interpolation on their design classes (exact-rational part).

Every stage is a TLC generator run over a module of specs/num whose Emit invariant prints a case only
after the module's theorems (R1) held on it, followed by a replay of the printed cases into gonum (R2,
spec->code, harness area "num"):

  Quadrature.tla   trapezoid / Simpson / Romberg as definitions over Q on all sorted lattice grids;
                   Gauss-Legendre structure and moment conditions for n = 1..300
  FiniteDiff.tla   stencil definitions of the six formulas and of Derivative .. CrossLaplacian on integer
                   polynomials with dyadic steps (bitwise comparison), exactness classes, consistency
  DualAlgebra.tla  dual / hyperdual / quaternion / dual quaternion / dual complex algebras from basis
                   multiplication tables, ring laws, inverses, integer powers
  DualFun.tla      elementary functions of dual / hyperdual numbers: chain rule with rational f', f'' tables
                   (pinned by differential identities), first-order systems for Exp/Sin/Cos/Sinh/Cosh/Tan/Tanh
                   with f'' derived by polynomial differentiation, zero-real-part arguments, identities
                   Exp(Log a) = a, Pow(a,2) = a a, Sqrt(a)^2 = a, Log(ab) = Log a + Log b; dualquat / dualcmplx
                   with scalar or complex leading part
  Interp.tla       piecewise constant / linear / Hermite / Akima / Fritsch-Butland / natural / clamped /
                   not-a-knot interpolants on <= 6 integer knots by rational elimination
"""
import json
import os

from vlib import SPECS

S = lambda *a: "{" + ",".join('"%s"' % x for x in a) + "}"


def quad_stages(ctx, thorough, seed):
    """(name, subst) of the Quadrature.tla generator runs."""
    base = dict(NMIN=2, NMAX=7, DMAX=4, NPOLY=3 if thorough else 2, SEED=seed, GLMIN=1, GLMAX=1, GLALL=0,
                VLO=0 if thorough else seed % 4, VHI=3 if thorough else seed % 4)
    st = []
    if thorough:
        for v in range(4):
            st.append(("trapezoid v%d" % v, dict(base, KINDS=S("trap"), VLO=v, VHI=v)))
            st.append(("simpson v%d" % v, dict(base, KINDS=S("simp"), VLO=v, VHI=v)))
    else:
        st.append(("trapezoid", dict(base, KINDS=S("trap"))))
        st.append(("simpson n<=5", dict(base, KINDS=S("simp"), NMAX=5)))
        st.append(("simpson n=6..7", dict(base, KINDS=S("simp"), NMIN=6)))
    st.append(("romberg", dict(base, KINDS=S("romb"), DMAX=8, VLO=0, VHI=3)))
    st.append(("gauss-legendre structure n<=300", dict(base, KINDS=S("gls"), GLMAX=300)))
    if thorough:
        for lo, hi in ((1, 150), (151, 230), (231, 300)):
            st.append(("gauss-legendre all moments n=%d..%d" % (lo, hi), dict(base, KINDS=S("glm"), GLMIN=lo, GLMAX=hi, GLALL=1)))
    else:
        st.append(("gauss-legendre moments n<=300", dict(base, KINDS=S("glm"), GLMAX=300, GLALL=0)))
    return [("quadrature " + n, "num/Quadrature.tla", "num/Quadrature_gen.cfg", s) for n, s in st]


def fd_stages(ctx, thorough, seed):
    allr = ["Derivative", "Gradient", "Jacobian", "Laplacian", "CrossLaplacian"]
    base = dict(DLO=1, DHI=4, KS="{2,3,5}" if thorough else "{3,5}", NP=16 if thorough else 8, SEED=seed)
    st = [("finite differences " + ", ".join(allr), dict(base, ROUTINES=S(*allr)))]
    # the Hessian is the expensive definition: its own runs, split by dimension
    st.append(("finite differences Hessian d<=3", dict(base, ROUTINES=S("Hessian"), DHI=3)))
    st.append(("finite differences Hessian d=4", dict(base, ROUTINES=S("Hessian"), DLO=4)))
    return [(n, "num/FiniteDiff.tla", "num/FiniteDiff_gen.cfg", s) for n, s in st]


def alg_stages(ctx, thorough, seed):
    st = []
    for types, nq, nt, shards in ((("dual", "hyper"), 8, 24, 1), (("quat", "dcmplx"), 6, 16, 1), (("dquat",), 2, 8, 3)):
        for sh in range(shards):
            st.append(("algebra " + "+".join(types) + (" shard %d/%d" % (sh + 1, shards) if shards > 1 else ""),
                       "num/DualAlgebra.tla", "num/DualAlgebra_gen.cfg",
                       dict(TYPES=S(*types), NRAND=nt if thorough else nq, SEED=seed, SHARD=sh, NSHARDS=shards)))
    return st


def interp_stages(ctx, thorough, seed):
    base = dict(NMIN=2, NMAX=6, LMAX=7 if thorough else 6, NDATA=10 if thorough else 7, SEED=seed)
    groups = [("const, linear, given derivatives, Akima, Fritsch-Butland", ("const", "linear", "pwcubic", "akima", "fb")),
              ("natural, clamped", ("natural", "clamped")), ("not-a-knot", ("notaknot",))]
    return [("interpolation " + n, "num/Interp.tla", "num/Interp_gen.cfg", dict(base, METHODS=S(*m))) for n, m in groups]


def dfun_stages(ctx, thorough, seed):
    fns = S("Inv", "Log", "Sqrt", "SqrtSq", "PowInt", "PowHalf", "Atan", "Atanh", "Asin", "Acos", "Asinh", "Acosh",
            "Exp", "Sin", "Cos", "Sinh", "Cosh", "Tan", "Tanh", "ExpLog", "PowNum2", "LogMul")
    return [("elementary functions dual+hyperdual (derivative parts, identities)", "num/DualFun.tla", "num/DualFun_gen.cfg",
             dict(TYPES=S("dual", "hyper"), FUNS=fns, NVAR=4, SEED=seed)),
            ("elementary functions dualquat+dualcmplx (scalar / complex leading part)", "num/DualFun.tla", "num/DualFun_gen.cfg",
             dict(TYPES=S("dquat", "dcmplx"), FUNS=S("Log", "Sqrt", "PowInt", "Exp"), NVAR=4, SEED=seed))]


def run(ctx):
    os.makedirs(os.path.join(SPECS, "lib"), exist_ok=True)
    thorough = ctx.tier == "thorough"
    seed = ctx.seed % 1000
    hb = ctx.build("")
    stages = quad_stages(ctx, thorough, seed) + fd_stages(ctx, thorough, seed) + alg_stages(ctx, thorough, seed) + interp_stages(ctx, thorough, seed) + dfun_stages(ctx, thorough, seed)
    stages.sort(key=lambda st: ("Hessian" not in st[0], "dquat" not in st[0], "simpson" not in st[0]))   # longest first

    def one(st):
        name, spec, cfg, subst = st
        def thunk():
            cases = ctx.gen(spec, cfg, subst=subst, name="R1+R2 gen " + name, timeout=1700)
            ctx.replay(hb, "num", cases, name="R2 replay " + name)
        return thunk
    ctx.parallel([one(s) for s in stages], width=4)

    ctx.assumptions += [
        "TLC/SANY and the CommunityModules Json module are trusted",
        "the harness's decoding of the spec's rationals (exactness of the float conversion is asserted), the "
        "big.Rat comparison and the integrands it hands to gonum (x^k by repeated multiplication, polynomial "
        "evaluation on dyadic points) are trusted",
    ]
    return ctx.finish(
        rule="one case = one gonum call (or one node/weight table) on operands printed by the specification whose "
             "result was compared with the specification's exact rational value within the specification's rounding "
             "allowance (0 where the spec proves the float computation exact); non-trivial = integrand of degree >= 1 / "
             "any Gauss-Legendre case",
        exhaustive=False)


def replay(ctx, path):
    os.makedirs(os.path.join(SPECS, "lib"), exist_ok=True)
    d = json.load(open(path))["data"]
    one = os.path.join(ctx.work, "one.ndjson")
    with open(one, "w") as fh:
        fh.write(json.dumps(d["failure"]["case"]) + "\n")
    ctx.replay(ctx.build(""), d["area"], one, d["args"], confirm=False, name="replay")
    return ctx.finish()
