"""C18 - quadrature, differentiation and interpolation on their design classes (exact-rational part).

R1  TLC checks the theorems of the specifications on every enumerated case (the generator only
    prints a case after its theorems held): exactness classes of trapezoid / Simpson / Romberg and
    linearity of the rules (Quadrature.tla) ...
R2  spec->code: TLC enumerates grids x integrands (and the other case families) and prints operands
    as exact dyadic rationals with the exact rational value the definition gives and a rounding
    allowance; the harness converts them to floats (exactly), calls gonum and compares in big.Rat.
"""
import json
import os

from vlib import SPECS

S = lambda *a: "{" + ",".join('"%s"' % x for x in a) + "}"


def quad_stages(ctx, thorough, seed):
    """(name, subst) of the Quadrature.tla generator runs."""
    base = dict(NMIN=2, NMAX=7, DMAX=4, NPOLY=3 if thorough else 2, SEED=seed, GLMAX=1, GLALL=0,
                VLO=0 if thorough else seed % 4, VHI=3 if thorough else seed % 4)
    st = []
    if thorough:
        for v in range(4):
            st.append(("trapezoid v%d" % v, dict(base, KINDS=S("trap"), VLO=v, VHI=v)))
            st.append(("simpson v%d" % v, dict(base, KINDS=S("simp"), VLO=v, VHI=v)))
    else:
        st.append(("trapezoid", dict(base, KINDS=S("trap"))))
        st.append(("simpson n<=5", dict(base, KINDS=S("simp"), NMAX=5)))
        st.append(("simpson n=6..7", dict(base, KINDS=S("simp"), NMIN=6)))
    st.append(("romberg", dict(base, KINDS=S("romb"), DMAX=8, VLO=0, VHI=3)))
    st.append(("gauss-legendre structure n<=300", dict(base, KINDS=S("gls"), GLMAX=300)))
    st.append(("gauss-legendre moments n<=300", dict(base, KINDS=S("glm"), GLMAX=300, GLALL=1 if thorough else 0)))
    return [("quadrature " + n, "num/Quadrature.tla", "num/Quadrature_gen.cfg", s) for n, s in st]


def fd_stages(ctx, thorough, seed):
    allr = ["Derivative", "Gradient", "Jacobian", "Laplacian", "CrossLaplacian"]
    base = dict(DLO=1, DHI=4, KS="{2,3,5}" if thorough else "{3,5}", NP=16 if thorough else 8, SEED=seed)
    st = [("finite differences " + ", ".join(allr), dict(base, ROUTINES=S(*allr)))]
    # the Hessian is the expensive definition: its own runs, split by dimension
    st.append(("finite differences Hessian d<=3", dict(base, ROUTINES=S("Hessian"), DHI=3)))
    st.append(("finite differences Hessian d=4", dict(base, ROUTINES=S("Hessian"), DLO=4)))
    return [(n, "num/FiniteDiff.tla", "num/FiniteDiff_gen.cfg", s) for n, s in st]


def alg_stages(ctx, thorough, seed):
    st = []
    for types, nq, nt in ((("dual", "hyper"), 8, 24), (("quat", "dcmplx"), 6, 16), (("dquat",), 2, 8)):
        st.append(("algebra " + "+".join(types), "num/DualAlgebra.tla", "num/DualAlgebra_gen.cfg",
                   dict(TYPES=S(*types), NRAND=nt if thorough else nq, SEED=seed)))
    return st


def run(ctx):
    os.makedirs(os.path.join(SPECS, "lib"), exist_ok=True)
    thorough = ctx.tier == "thorough"
    seed = ctx.seed % 1000
    hb = ctx.build("")
    stages = quad_stages(ctx, thorough, seed) + fd_stages(ctx, thorough, seed) + alg_stages(ctx, thorough, seed)
    stages.sort(key=lambda st: ("Hessian" not in st[0], "dquat" not in st[0], "simpson" not in st[0]))   # longest first

    def one(st):
        name, spec, cfg, subst = st
        def thunk():
            cases = ctx.gen(spec, cfg, subst=subst, name="R1+R2 gen " + name, timeout=1700)
            ctx.replay(hb, "num", cases, name="R2 replay " + name)
        return thunk
    ctx.parallel([one(s) for s in stages], width=4)

    ctx.assumptions += [
        "TLC/SANY and the CommunityModules Json module are trusted",
        "the harness's decoding of the spec's rationals (exactness of the float conversion is asserted), the "
        "big.Rat comparison and the integrands it hands to gonum (x^k by repeated multiplication, polynomial "
        "evaluation on dyadic points) are trusted",
    ]
    return ctx.finish(
        rule="one case = one gonum call (or one node/weight table) on operands printed by the specification whose "
             "result was compared with the specification's exact rational value within the specification's rounding "
             "allowance (0 where the spec proves the float computation exact); non-trivial = integrand of degree >= 1 / "
             "any Gauss-Legendre case",
        exhaustive=False)


def replay(ctx, path):
    os.makedirs(os.path.join(SPECS, "lib"), exist_ok=True)
    d = json.load(open(path))["data"]
    one = os.path.join(ctx.work, "one.ndjson")
    with open(one, "w") as fh:
        fh.write(json.dumps(d["failure"]["case"]) + "\n")
    ctx.replay(ctx.build(""), d["area"], one, d["args"], confirm=False, name="replay")
    return ctx.finish()
