"""C02 - LAPACK factorizations, solves and inverses (structure, reconstruction, path independence).

R1  TLC checks the blocked-driver state machines against the unblocked reference algorithms
    (exact rationals) and the uniqueness lemmas behind the planted instances.
R2  spec->code: Planted.tla prints exactly representable instances with their unique expected
    factors / pivots / solutions / inverses and the property's own tolerance; the harness replays
    them through lapack/gonum.Implementation and lapack64 under lda / ldb / lwork / routine
    (blocked vs unblocked entry point) variation.  Sizes cross the real block sizes (32/64) and
    the crossover point (128) of the default Ilaenv.  PlantedX.tla adds LU at the ends of the exponent range
    (sub-safe-minimum pivots), two-sided bounds for the condition estimators, pivoted Cholesky, QL / RQ,
    triangular band solves, Dlauum and the norms incl. Frobenius; its lemmas are in PlantedXLemmas.tla.
    PlantedC.tla adds LU with complete pivoting (Dgetc2: strictly unique planted pivot sequences, rank deficient
    and general tie-rich matrices judged by the acceptance predicate Getc2Accept), the solve Dgesc2 (with and
    without scaling) and the Dif-estimate contribution Dlatdf (LatdfAccept / LatdfNullAccept / SumsqAccept),
    plus exactly singular tridiagonal systems (Dgtsv ok = false), Dlagtm and Drscl; lemmas in PlantedCLemmas.tla.
"""
import os

SMALL = {"quick": 6, "thorough": 8}
# shapes beyond the exhaustive small range: they cross the block sizes of the default Ilaenv
# (Dgetrf/Dpotrf nb=64; Dgeqrf/Dgelqf/Dorgqr/Dorglq nb=32, crossover nx=128; Dormqr/Dormlq nb=32)
BIG = {
    "lu": {"quick": [(65, 65), (64, 70), (97, 66), (130, 129)],
           "thorough": [(63, 63), (64, 64), (65, 65), (66, 64), (64, 70), (97, 66), (96, 96), (127, 127), (128, 128),
                        (129, 129), (130, 129), (129, 140), (200, 200)]},
    "chol": {"quick": [(65, 65), (97, 97), (130, 130)],
             "thorough": [(n, n) for n in (63, 64, 65, 66, 96, 127, 128, 129, 130, 200)]},
    "qr": {"quick": [(33, 33), (40, 35), (34, 47), (130, 130), (140, 129), (129, 150)],
           "thorough": [(31, 31), (32, 32), (33, 33), (40, 35), (34, 47), (63, 65), (65, 64), (96, 96), (128, 128),
                        (129, 129), (130, 130), (140, 129), (129, 150), (161, 161), (200, 160), (160, 200)]},
    "qp3": {"quick": [(130, 130), (161, 161), (200, 200), (140, 170)],
            "thorough": [(129, 129), (130, 130), (160, 160), (161, 161), (162, 200), (200, 161), (200, 200), (140, 170),
                         (193, 193)]},
    "tri": {"quick": [(70, 70), (97, 97), (130, 130)],
            "thorough": [(n, n) for n in (63, 64, 65, 66, 96, 100, 127, 128, 129, 130, 200)]},
    "ls": {"quick": [(40, 33), (140, 130)],
           "thorough": [(40, 33), (70, 64), (129, 129), (140, 130), (200, 150), (161, 161)]},
    "pb": {"quick": [(90, 66), (40, 33)], "thorough": [(130, 70), (100, 65), (90, 66), (70, 64), (40, 33)]},   # (n, kd)
    "td": {"quick": [(70, 70), (200, 200)], "thorough": [(33, 33), (70, 70), (129, 129), (200, 200)]},
    "aux": {"quick": [(45, 60), (70, 33)], "thorough": [(45, 60), (70, 33), (130, 129), (64, 200)]},
    "larft": {"quick": [], "thorough": []},
}
LEMMA = {"quick": dict(SMALL=5, BIG=[(12, 12), (9, 14)]), "thorough": dict(SMALL=8, BIG=[(20, 20), (33, 30), (14, 25)])}
FAMS = ("lu", "chol", "qr", "qp3", "tri", "ls", "pb", "td", "aux", "larft")
# families of PlantedX.tla (extreme-scale LU, pivoted Cholesky, QL / RQ, Dlauum, condition estimators,
# triangular band solves, norms incl. Frobenius); shapes beyond the exhaustive small range as above
XFAMS = ("lus", "con", "pst", "tb", "nrm", "lauum", "ql")
XBIG = {
    "lus": {"quick": [(66, 65), (70, 33)], "thorough": [(65, 65), (66, 65), (70, 33), (64, 70), (130, 129)]},
    "pst": {"quick": [(70, 70), (97, 97)], "thorough": [(n, n) for n in (64, 65, 66, 97, 130)]},
    "ql": {"quick": [(40, 35), (34, 47), (140, 130)], "thorough": [(33, 33), (40, 35), (34, 47), (65, 64), (130, 130), (140, 130), (129, 150)]},
    "lauum": {"quick": [(70, 70), (130, 130)], "thorough": [(n, n) for n in (63, 64, 65, 66, 97, 129, 130)]},
    "con": {"quick": [], "thorough": []},
    "tb": {"quick": [(40, 33), (70, 3)], "thorough": [(40, 33), (70, 3), (130, 70), (90, 66)]},     # (n, kd)
    "nrm": {"quick": [(45, 60), (70, 33)], "thorough": [(45, 60), (70, 33), (97, 96)]},
}
XFORCE = ("lus", "pst", "ql", "lauum")   # families whose routines choose a block size through Ilaenv
NOFORCE = ("larft", "td", "aux")   # families without block-size dependent code
FORCED = {"quick": [(1, 0), (2, 0), (3, 0), (4, 0), (2, 2), (3, 2)],
          "thorough": [(1, 0), (2, 0), (3, 0), (4, 0), (5, 0), (7, 0), (2, 2), (3, 2)]}


def enc(shapes):
    return "{" + ", ".join(str(m * 1000 + n) for m, n in shapes) + "}"


def run(ctx):
    thorough = ctx.tier == "thorough"
    builds = [("default", ""), ("noasm", "noasm")]
    if thorough:
        builds.append(("safe", "safe"))
    bins = {n: ctx.build(t) for n, t in builds}
    args = ["variants=full"] if thorough else []

    # ---- R1: blocked driver == unblocked reference, panel invariant (exact rationals) -------
    ctx.tlc("lapack/LuBlocked.tla", "lapack/LuBlocked.cfg", name="R1 LuBlocked: blocked Dgetrf state machine vs Dgetf2",
            subst=dict(ALPHA="{0,1,2}", MAXENUM=9 if thorough else 6, MAXDIM=6 if thorough else 5,
                       NSALT=3 if thorough else 2, MAXNB=3), workers=4, coverage=not thorough, timeout=1500)
    # ---- R1: uniqueness / definition lemmas behind the planted instances --------------------
    lm = LEMMA[ctx.tier]
    for fam in FAMS:
        big = lm["BIG"] if fam in ("lu", "qr", "qp3") else [(m + n, n) for m, n in lm["BIG"]] if fam == "ls" else [(n, n) for _, n in lm["BIG"]] if fam in ("chol", "tri", "td") else lm["BIG"] if fam == "aux" else [(12, 3), (9, 9)] if fam == "pb" else []
        ctx.tlc("lapack/PlantedLemmas.tla", "lapack/PlantedLemmas.cfg", name="R1 PlantedLemmas %s" % fam,
                subst=dict(FAM=fam, SMALL=lm["SMALL"], BIG=enc(big), NRHS=2, SEED=ctx.seed), workers=4)

    # one run for the lemmas of all PlantedX families (LusLemma: exactness at the ends of the exponent range,
    # PstLemma: forced pivot order, QlLemma, LauumLemma, TbLemma, ConLemma: exact inverse, lower <= upper,
    # kappa <= 256, no interchange, NrmLemma: perfect-square sums)
    ctx.tlc("lapack/PlantedXLemmas.tla", "lapack/PlantedXLemmas.cfg", name="R1 PlantedXLemmas (lus pst ql lauum con tb nrm)",
            subst=dict(FAM="xall", SMALL=lm["SMALL"], BIG=enc(lm["BIG"]), NRHS=2, SEED=ctx.seed), workers=4)

    # ---- R2: planted instances replayed into gonum -------------------------------------------
    for fam in FAMS + XFAMS:
        x = fam in XFAMS
        cases = ctx.gen("lapack/PlantedX.tla" if x else "lapack/Planted.tla", "lapack/PlantedX.cfg" if x else "lapack/Planted.cfg",
                        name="R2 gen planted %s" % fam,
                        subst=dict(FAM=fam, SMALL=SMALL[ctx.tier], BIG=enc((XBIG if x else BIG)[fam][ctx.tier]), NRHS=3, SEED=ctx.seed))
        for bn, _ in builds:
            ctx.replay(bins[bn], "lapack", cases, args, name="R2 replay %s [%s]" % (fam, bn))
        # the same instances with the block size / crossover forced through the verifhook.Ilaenv override:
        # the blocked code runs on every small shape, around its own block edges
        if fam in XFORCE or fam in FAMS and fam not in NOFORCE:
            for nb, nx in FORCED[ctx.tier]:
                if fam not in ("qr", "qp3", "ls", "ql") and nx != 0:
                    continue        # only the QR/LQ family has a crossover parameter
                for bn, _ in builds[:1]:
                    ctx.replay(bins[bn], "lapack", cases, args + ["nb=%d" % nb, "nx=%d" % nx],
                               name="R2 replay %s nb=%d nx=%d [%s]" % (fam, nb, nx, bn))

    # ---- complete pivoting: Dgetc2 / Dgesc2 / Dlatdf (PlantedC.tla), R1 lemmas and R2 replay ----------
    csub = dict(FAM="call", SMALL=SMALL[ctx.tier], BIG="{}", NRHS=3, SEED=ctx.seed)
    ctx.tlc("lapack/PlantedCLemmas.tla", "lapack/PlantedCLemmas.cfg", name="R1 PlantedCLemmas (c2 c2g latdf gts tdm rscl)", subst=csub, workers=4)
    cases = ctx.gen("lapack/PlantedC.tla", "lapack/PlantedC.cfg", name="R2 gen planted complete pivoting + leftovers (c2 c2g gts tdm rscl)", subst=csub)
    for bn, _ in builds:
        ctx.replay(bins[bn], "lapack", cases, args, name="R2 replay complete pivoting + leftovers [%s]" % bn)

    ctx.assumptions += [
        "TLC/SANY and the CommunityModules Json module are trusted",
        "complete pivoting (weaker binding where the result is not unique): Getc2Accept, LatdfAccept, LatdfNullAccept and "
        "SumsqAccept are stated in PlantedC.tla over exact rationals, checked by TLC on the exact reference factorization and "
        "on mutations (PlantedCLemmas.tla), and evaluated by the harness's mirror functions (cpiv.go, math/big.Rat) on gonum's "
        "output; that the mirror is a faithful transcription is trusted",
        "the harness's operand builders (scaled integer -> float64, row-major layout, transposition, canaries), "
        "the sign bookkeeping S read off the computed triangular factor (the documented freedom of QR/LQ) and the "
        "math/big.Rat comparison are trusted",
        "condition estimators: the lower bound max(||inv(A)u||_1, 2||inv(A)b||_1/(3n)) is what DLACN2's documented "
        "construction guarantees (first iterate, final alternating-sign stage); the rounding allowance n*2^-40 "
        "relies on kappa <= 256, which PlantedXLemmas!ConLemma checks on every instance",
        "block sizes: the default Ilaenv (blocked paths above 32/64/128), reduced block sizes 2 and 3 selected through "
        "lwork, and nb in 1..4 (thorough ..7), nx in {0,2} forced through the verif-tagged verifhook.Ilaenv override; "
        "the override changes which path runs, never what is expected",
    ]
    return ctx.finish(
        rule="one case = one call of a gonum LAPACK routine (one routine x lda/ldb/ldc/lwork variant, or one "
             "workspace query) on one spec-generated instance, every output compared with the specification's "
             "values (condition estimators: rcond inside the specification's exact interval; complete pivoting on "
             "non-unique inputs: the specification's acceptance predicate); non-trivial = the "
             "instance has min(m,n) >= 2 (Dlarft: k >= 3; band families: also kd >= 1)",
        exhaustive=False)


def replay(ctx, path):
    import json
    d = json.load(open(path))["data"]
    one = os.path.join(ctx.work, "one.ndjson")
    with open(one, "w") as fh:
        fh.write(json.dumps(d["failure"]["case"]) + "\n")
    ctx.replay(ctx.build(""), d["area"], one, d["args"], confirm=False)
    return ctx.finish()
