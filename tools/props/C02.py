"""C02 - LAPACK factorizations, solves and inverses (structure, reconstruction, path independence).

R1  TLC checks the blocked-driver state machines against the unblocked reference algorithms
    (exact rationals) and the uniqueness lemmas behind the planted instances.
R2  spec->code: Planted.tla prints exactly representable instances with their unique expected
    factors / pivots / solutions / inverses and the property's own tolerance; the harness replays
    them through lapack/gonum.Implementation and lapack64 under lda / ldb / lwork / routine
    (blocked vs unblocked entry point) variation.  Sizes cross the real block sizes (32/64) and
    the crossover point (128) of the default Ilaenv.
"""
import os

SMALL = {"quick": 6, "thorough": 8}
BIG = {
    "lu": {"quick": [(65, 65), (64, 70), (97, 66), (130, 129)],
           "thorough": [(63, 63), (64, 64), (65, 65), (66, 64), (64, 70), (97, 66), (96, 96), (127, 127), (128, 128),
                        (129, 129), (130, 129), (129, 140), (200, 200)]},
}


def enc(shapes):
    return "{" + ", ".join(str(m * 1000 + n) for m, n in shapes) + "}"


def run(ctx):
    thorough = ctx.tier == "thorough"
    builds = [("default", ""), ("noasm", "noasm")]
    if thorough:
        builds.append(("safe", "safe"))
    bins = {n: ctx.build(t) for n, t in builds}
    args = ["variants=full"] if thorough else []

    for fam in ("lu",):
        cases = ctx.gen("lapack/Planted.tla", "lapack/Planted.cfg", name="R2 gen planted %s" % fam,
                        subst=dict(FAM=fam, SMALL=SMALL[ctx.tier], BIG=enc(BIG[fam][ctx.tier]), NRHS=3, SEED=ctx.seed))
        for bn, _ in builds:
            ctx.replay(bins[bn], "lapack", cases, args, name="R2 replay %s [%s]" % (fam, bn))

    ctx.assumptions += [
        "TLC/SANY and the CommunityModules Json module are trusted",
        "the harness's operand builders (scaled integer -> float64, row-major layout, canaries) and the "
        "math/big.Rat comparison are trusted",
    ]
    return ctx.finish(
        rule="one case = one call of a gonum LAPACK routine (one routine x lda/ldb/lwork variant) on one "
             "spec-generated instance, all outputs compared with the specification's values; non-trivial = "
             "min(m,n) >= 2",
        exhaustive=False)


def replay(ctx, path):
    import json
    d = json.load(open(path))["data"]
    one = os.path.join(ctx.work, "one.ndjson")
    with open(one, "w") as fh:
        fh.write(json.dumps(d["failure"]["case"]) + "\n")
    ctx.replay(ctx.build(""), d["area"], one, d["args"], confirm=False)
    return ctx.finish()
