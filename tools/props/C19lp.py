"""Stand-alone TEST driver for the LP clause of C19 (tools/check C19lp).  Not a registered property:
the real entry point is tools/props/C19.py, which calls C19_lp.run_lp(ctx).  evidence/C19lp.json is a
test artefact.  The two gonum defects found by the LP check are installed as known findings IN MEMORY
(known_findings.json has no entries for the pseudo-property C19lp); set C19LP_NO_KNOWN=1 to see them
reported as violations."""
import importlib.util
import json
import os

_p = os.path.join(os.path.dirname(os.path.abspath(__file__)), "C19_lp.py")
_s = importlib.util.spec_from_file_location("C19_lp", _p)
C19_lp = importlib.util.module_from_spec(_s)
_s.loader.exec_module(C19_lp)


def run(ctx):
    if not os.environ.get("C19LP_NO_KNOWN"):
        ctx.known = list(ctx.known) + [dict(k, property=ctx.id) for k in C19_lp.PROPOSED_KNOWN]
    rule = C19_lp.run_lp(ctx)
    return ctx.finish(rule=rule, exhaustive=False)


def replay(ctx, path):
    d = json.load(open(path))["data"]
    one = os.path.join(ctx.work, "one.ndjson")
    with open(one, "w") as fh:
        fh.write(json.dumps(d["failure"]["case"]) + "\n")
    ctx.replay(ctx.build(""), d["area"], one, d["args"], confirm=False)
    return ctx.finish()
