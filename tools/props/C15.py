"""C15 - network measures and community detection equal their defining formulas.

R1  TLC checks the specifications' own identities on every graph it enumerates (sum of
    betweenness = sum of (hops-1), triangle inequality of the brute-force distances, the exact
    PageRank vector satisfies the stationary equation, Q(all-in-one)=0 at gamma=1, Q invariant
    under relabeling, ...).
R2  spec->code: one record per graph (all graphs on <=4/5 nodes, directed/undirected,
    unit/1..3 weights) carries the exact rational value of every measure (and of Q for every
    partition x gamma); the harness builds the graph on the real containers and compares what
    gonum returns with what the specification printed.
R3  code->spec: Modularize on random graphs up to ~60 nodes is recorded level by level (structure,
    reduced-graph weights) and validated by TLC against CommunityTrace.tla; the exact Q of every
    level is printed by TLC and compared with the Q gonum reports in a second pass.
"""
import os
import shutil

# name, N, DIRECTED, WEIGHTED, SAMPLE, quick?
NET = [
    # (longest first: the stages run four at a time)
    ("dir-u4", 4, "TRUE", "FALSE", 0, True),
    ("dir-w4s", 4, "TRUE", "TRUE", 1500, True),       # quick: sampled weighted shapes (depends on the seed)
    ("dir-w4", 4, "TRUE", "TRUE", 0, False),          # thorough: every shape
    ("und-u5", 5, "FALSE", "FALSE", 0, True),
    ("dir-u3", 3, "TRUE", "FALSE", 0, True),
    ("und-u4", 4, "FALSE", "FALSE", 0, True),
    ("dir-w3", 3, "TRUE", "TRUE", 0, True),
    ("und-w4", 4, "FALSE", "TRUE", 0, True),
    ("und-w5", 5, "FALSE", "TRUE", 0, False),
    ("dir-u5s", 5, "TRUE", "FALSE", 4000, False),
    ("dir-w5s", 5, "TRUE", "TRUE", 4000, False),
]

# modularity Q for every partition x gamma: name, N, DIRECTED, WEIGHTED, SAMPLE, quick?
QCFG = [
    ("und-u4", 4, "FALSE", "FALSE", 0, True),
    ("und-w4", 4, "FALSE", "TRUE", 0, True),
    ("dir-u3", 3, "TRUE", "FALSE", 0, True),
    ("dir-w3", 3, "TRUE", "TRUE", 0, True),
    ("dir-w4s", 4, "TRUE", "TRUE", 500, True),
    ("und-w5s", 5, "FALSE", "TRUE", 150, True),
    ("dir-u4", 4, "TRUE", "FALSE", 0, False),
    ("dir-w4", 4, "TRUE", "TRUE", 0, False),
    ("und-u5", 5, "FALSE", "FALSE", 0, False),
    ("und-w5", 5, "FALSE", "TRUE", 0, False),
]

# QMultiplex on 2-layer graphs, every partition x layer weights x resolutions
QMCFG = [
    ("und-u3", 3, "FALSE", "FALSE", 0, True),
    ("und-w4", 4, "FALSE", "TRUE", 0, True),
    ("dir-w3", 3, "TRUE", "TRUE", 0, True),
    ("dir-u4s", 4, "TRUE", "FALSE", 250, True),
    ("und-w5s", 5, "FALSE", "TRUE", 60, True),
    ("dir-w4", 4, "TRUE", "TRUE", 0, False),
    ("dir-u4", 4, "TRUE", "FALSE", 0, False),
    ("und-w5", 5, "FALSE", "TRUE", 0, False),
]


def run(ctx):
    thorough = ctx.tier == "thorough"
    # the machine is shared: TLC's default heap is a quarter of the RAM per process and the JVM fills it
    # with garbage before collecting; these runs need little memory (a few thousand states each)
    os.environ.setdefault("JAVA_TOOL_OPTIONS", "-Xmx3g")
    hb = ctx.build("")

    # ---- network measures: R1 identities + R2 generator in one TLC run per configuration ----
    def net_stage(name, n, d, w, sample):
        salt = ctx.seed if (w == "TRUE" or sample) else 0      # unweighted exhaustive runs do not depend on the seed
        cases = ctx.gen("network/Network.tla", "network/Network.cfg", name="R1+R2 gen network " + name,
                        subst=dict(N=n, DIRECTED=d, WEIGHTED=w, SALT=salt, SAMPLE=sample, EMIT="TRUE"))
        ctx.replay(hb, "network", cases, name="R2 replay network " + name)

    def q_stage(name, n, d, w, sample):
        salt = ctx.seed if (w == "TRUE" or sample) else 0
        cases = ctx.gen("network/Community.tla", "network/Community.cfg", name="R1+R2 gen Q " + name,
                        subst=dict(N=n, DIRECTED=d, WEIGHTED=w, SALT=salt, SAMPLE=sample, EMIT="TRUE"))
        ctx.replay(hb, "community-q", cases, name="R2 replay Q " + name)

    def qm_stage(name, n, d, w, sample):
        cases = ctx.gen("network/Multiplex.tla", "network/Multiplex.cfg", name="R1+R2 gen QMultiplex " + name,
                        subst=dict(N=n, DIRECTED=d, WEIGHTED=w, SALT=ctx.seed, SAMPLE=sample, EMIT="TRUE"))
        ctx.replay(hb, "community-qm", cases, name="R2 replay QMultiplex " + name)

    ctx.parallel([(lambda a=a: net_stage(*a[:5])) for a in NET if a[5] or thorough] +
                 [(lambda a=a: q_stage(*a[:5])) for a in QCFG if a[5] or thorough] +
                 [(lambda a=a: qm_stage(*a[:5])) for a in QMCFG if a[5] or thorough], width=4)

    # ---- Louvain: record real Modularize runs, validate every level with TLC, compare Q --------
    runs = 200 if thorough else 16

    def louvain_stage(fam):
        tr = os.path.join(ctx.work, "louvain-%s.ndjson" % fam)
        summ = ctx.record(hb, "louvain", tr, ["family=" + fam, "runs=%d" % runs, "maxn=60"],
                          name="R3 record Modularize " + fam)
        ok, st = ctx.validate("network/CommunityTrace.tla", "network/CommunityTrace.cfg", tr,
                              subst=dict(TRACE="trace.ndjson", EMIT="FALSE"), name="R3 validate Modularize " + fam)
        if not ok:
            keep = os.path.join(os.path.dirname(__file__), "..", "..", "replays", "C15")
            os.makedirs(keep, exist_ok=True)
            dst = os.path.abspath(os.path.join(keep, "louvain-%s-seed%d.ndjson" % (fam, ctx.seed)))
            shutil.copy(tr, dst)
            ctx.violation("community:Modularize:trace-rejected:" + fam, st.get("detail", "")[:700],
                          {"trace": dst, "family": fam})
            return
        with ctx._lock:
            ctx.traces += summ.get("traces", 0)
        # second pass: TLC prints the exact Q of every level next to gonum's floats
        qs = ctx.gen("network/CommunityTrace.tla", "network/CommunityTrace.cfg", cache=False,
                     subst=dict(TRACE=tr, EMIT="TRUE"), name="R3 exact Q of every level " + fam)
        ctx.replay(hb, "louvain-q", qs, name="R3 compare Q " + fam)
        for f in (qs, qs[:-7] + ".meta.json"):
            if os.path.exists(f):
                os.remove(f)

    ctx.parallel([lambda: louvain_stage("undir"), lambda: louvain_stage("dir")], width=2)

    ctx.assumptions += [
        "TLC/SANY and the CommunityModules (Json, Functions, FiniteSetsExt) are trusted",
        "the harness's graph builder (model node -> real id), map comparison and big.Rat comparison are trusted",
        "formula-valued measures are compared with the exact rational within 1e-12 relative (c*n*eps)",
        "Louvain traces: the recorder's projection of each level (Communities, Structure, Weight matrix) is trusted; "
        "Q of a level is compared with TLC's exact rational within 1e-10 (sum of up to n^2 float terms, n <= 60)",
        "HITS: where the spec states the limit direction d exactly, scores must be parallel to d within "
        "2*tol*lam2/(lam-lam2) (emitted by the spec from the termination test) + 1e-12; unit norm within 1e-12",
        "DiffuseToEquilibrium: allowed deviation tol*(dmax/dmin)*(diam*vol)/(1-damp) emitted by the spec (Chung's gap "
        "bound); Diffuse conservation within 1e-9 relative, t=0 compared exactly",
        "PageRank: allowed deviation from the exact stationary vector = d/(1-d)*n*tol (emitted by the spec from the "
        "contraction argument) + 1e-7 for the rounding of the iteration itself (random start vector scaled by 1/sum)",
    ]
    return ctx.finish(
        rule="one case = one graph (all measures of graph/network and graph/spectral on it, on every applicable "
             "container type and shortest-path source); for community.Q / QMultiplex one case = one evaluation "
             "(graph or layer pair, container type, partition, resolution); "
             "non-trivial = the graph has at least one edge (Q: partition neither trivial nor singletons). "
             "R3: one trace = one Modularize run (all levels); one Q case = one level of one run.",
        exhaustive=True)


def replay(ctx, path):
    import json
    d = json.load(open(path))["data"]
    if "trace" in d:
        ok, st = ctx.validate("network/CommunityTrace.tla", "network/CommunityTrace.cfg", d["trace"],
                              subst=dict(TRACE="trace.ndjson", EMIT="FALSE"))
        print("trace accepted" if ok else "trace rejected: " + st.get("detail", "")[:800])
        if not ok:
            print("VIOLATION property=C15 replay=%s" % path)
        return 0 if ok else 1
    one = os.path.join(ctx.work, "one.ndjson")
    with open(one, "w") as fh:
        fh.write(json.dumps(d["failure"]["case"]) + "\n")
    ctx.replay(ctx.build(""), d["area"], one, d["args"], confirm=False)
    return ctx.finish()
