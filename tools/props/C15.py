"""C15 - network measures and community detection equal their defining formulas.

R1  TLC checks the specifications' own identities on every graph it enumerates (sum of
    betweenness = sum of (hops-1), triangle inequality of the brute-force distances, the exact
    PageRank vector satisfies the stationary equation, Q(all-in-one)=0 at gamma=1, Q invariant
    under relabeling, ...).
R2  spec->code: one record per graph (all graphs on <=4/5 nodes, directed/undirected,
    unit/1..3 weights) carries the exact rational value of every measure (and of Q for every
    partition x gamma); the harness builds the graph on the real containers and compares what
    gonum returns with what the specification printed.
R3  code->spec: Modularize on random graphs up to ~60 nodes is recorded level by level (structure,
    reduced-graph weights) and validated by TLC against CommunityTrace.tla; the exact Q of every
    level is printed by TLC and compared with the Q gonum reports in a second pass.
    The same for ModularizeMultiplex on 2- and 3-layer graphs (MultiplexTrace.tla, signed layer
    weights), for community.Profile over ModularScore / ModularMultiplexScore (ProfileTrace.tla)
    and for the query methods of every level / layer of the hierarchies (ReducedQueryTrace.tla).
R2  ProfileStep.tla scripts step-function score functions for community.Profile and states the
    intervals that must come back.
R2  MultiplexGrid.tla: QMultiplex on 2- and 3-layer graphs over the documented ARGUMENT grid (weights nil /
    ones / zeros in first, middle, last position / all zero / negative; resolutions nil / one global value /
    per layer), every partition; the same arguments go to ModularizeMultiplex (both values of `all`), whose
    top level must be a partition the record lists as not worse than the singletons.
R2  ZeroDist.tla: the distance-based measures on graphs with edge weights {0,1,2} (distinct nodes at
    distance 0), for DijkstraAllPaths, FloydWarshall and JohnsonAllPaths.
"""
import os
import shutil

# name, N, DIRECTED, WEIGHTED, SAMPLE, quick?
NET = [
    # (longest first: the stages run four at a time)
    ("dir-u4", 4, "TRUE", "FALSE", 0, True),
    ("dir-w4s", 4, "TRUE", "TRUE", 1500, True),       # quick: sampled weighted shapes (depends on the seed)
    ("dir-w4", 4, "TRUE", "TRUE", 0, False),          # thorough: every shape
    ("und-u5", 5, "FALSE", "FALSE", 0, True),
    ("dir-u3", 3, "TRUE", "FALSE", 0, True),
    ("und-u4", 4, "FALSE", "FALSE", 0, True),
    ("dir-w3", 3, "TRUE", "TRUE", 0, True),
    ("und-w4", 4, "FALSE", "TRUE", 0, True),
    ("und-w5", 5, "FALSE", "TRUE", 0, False),
    ("dir-u5s", 5, "TRUE", "FALSE", 4000, False),
    ("dir-w5s", 5, "TRUE", "TRUE", 4000, False),
]

# modularity Q for every partition x gamma: name, N, DIRECTED, WEIGHTED, SAMPLE, quick?
QCFG = [
    ("und-u4", 4, "FALSE", "FALSE", 0, True),
    ("und-w4", 4, "FALSE", "TRUE", 0, True),
    ("dir-u3", 3, "TRUE", "FALSE", 0, True),
    ("dir-w3", 3, "TRUE", "TRUE", 0, True),
    ("dir-w4s", 4, "TRUE", "TRUE", 500, True),
    ("und-w5s", 5, "FALSE", "TRUE", 150, True),
    ("dir-u4", 4, "TRUE", "FALSE", 0, False),
    ("dir-w4", 4, "TRUE", "TRUE", 0, False),
    ("und-u5", 5, "FALSE", "FALSE", 0, False),
    ("und-w5", 5, "FALSE", "TRUE", 0, False),
]

# QMultiplex on 2-layer graphs, every partition x layer weights x resolutions
QMCFG = [
    ("und-u3", 3, "FALSE", "FALSE", 0, True),
    ("und-w4", 4, "FALSE", "TRUE", 0, True),
    ("dir-w3", 3, "TRUE", "TRUE", 0, True),
    ("dir-u4s", 4, "TRUE", "FALSE", 250, True),
    ("und-w5s", 5, "FALSE", "TRUE", 60, True),
    ("dir-w4", 4, "TRUE", "TRUE", 0, False),
    ("dir-u4", 4, "TRUE", "FALSE", 0, False),
    ("und-w5", 5, "FALSE", "TRUE", 0, False),
]

# QMultiplex over the documented ARGUMENT grid (MultiplexGrid.tla): weights nil / ones / zero in first, middle,
# last position / two zeros / all zero / negative first, last; resolutions nil / one global value in
# {1/2,1,2,3} / per layer; every partition.  name, N, DEPTH, DIRECTED, WEIGHTED, FULL, FULLGRID, SAMPLE, quick?
# FULL: every tuple of layers; otherwise (SAMPLE = 0) layer 1 = every graph, the other layers salted
QMGRID = [
    ("und-w4-d3s", 4, 3, "FALSE", "TRUE", "FALSE", "FALSE", 30, True),
    ("dir-u4-d3s", 4, 3, "TRUE", "FALSE", "FALSE", "FALSE", 30, True),
    ("dir-w4-d2s", 4, 2, "TRUE", "TRUE", "FALSE", "FALSE", 48, True),
    ("und-u4-d2", 4, 2, "FALSE", "FALSE", "FALSE", "FALSE", 0, True),
    ("dir-w3-d3", 3, 3, "TRUE", "TRUE", "FALSE", "FALSE", 0, True),
    ("dir-u3-d2", 3, 2, "TRUE", "FALSE", "FALSE", "FALSE", 0, True),
    ("und-u3-d2-full", 3, 2, "FALSE", "FALSE", "TRUE", "FALSE", 0, True),
    ("und-w3-d3s", 3, 3, "FALSE", "TRUE", "FALSE", "FALSE", 64, True),
    ("und-w3-d3-full", 3, 3, "FALSE", "TRUE", "TRUE", "FALSE", 0, False),
    ("und-w4-d3", 4, 3, "FALSE", "TRUE", "FALSE", "FALSE", 0, False),
    ("und-u3-d3-full", 3, 3, "FALSE", "FALSE", "TRUE", "FALSE", 0, False),
    ("dir-w3-d2-allw", 3, 2, "TRUE", "TRUE", "FALSE", "TRUE", 0, False),
    ("und-w3-d3-allw", 3, 3, "FALSE", "TRUE", "FALSE", "TRUE", 60, False),
    ("und-w4-d3-allw", 4, 3, "FALSE", "TRUE", "FALSE", "TRUE", 30, False),
    ("dir-w4-d3s", 4, 3, "TRUE", "TRUE", "FALSE", "FALSE", 300, False),
    ("dir-u4-d2s", 4, 2, "TRUE", "FALSE", "FALSE", "FALSE", 400, False),
]

# distance-based measures on graphs with edge weights {0,1,2} (ZeroDist.tla): name, N, DIRECTED, SAMPLE, NSHARDS, quick?
ZDIST = [
    ("und-4", 4, "FALSE", 0, 4, True),        # every graph: 4^6 = 4096
    ("dir-3", 3, "TRUE", 0, 4, True),         # every graph: 4^6 = 4096
    ("dir-4s", 4, "TRUE", 600, 1, True),
    ("und-3", 3, "FALSE", 0, 1, True),
    ("dir-4s", 4, "TRUE", 6000, 6, False),
    ("und-5s", 5, "FALSE", 1200, 4, False),
    ("dir-5s", 5, "TRUE", 600, 3, False),
]


def run(ctx):
    thorough = ctx.tier == "thorough"
    # the machine is shared: TLC's default heap is a quarter of the RAM per process and the JVM fills it
    # with garbage before collecting; these runs need little memory (a few thousand states each)
    os.environ.setdefault("JAVA_TOOL_OPTIONS", "-Xmx3g")
    hb = ctx.build("")

    # ---- network measures: R1 identities + R2 generator in one TLC run per configuration ----
    def net_stage(name, n, d, w, sample):
        salt = ctx.seed if (w == "TRUE" or sample) else 0      # unweighted exhaustive runs do not depend on the seed
        cases = ctx.gen("network/Network.tla", "network/Network.cfg", name="R1+R2 gen network " + name,
                        subst=dict(N=n, DIRECTED=d, WEIGHTED=w, SALT=salt, SAMPLE=sample, EMIT="TRUE"))
        ctx.replay(hb, "network", cases, name="R2 replay network " + name)

    def q_stage(name, n, d, w, sample):
        salt = ctx.seed if (w == "TRUE" or sample) else 0
        cases = ctx.gen("network/Community.tla", "network/Community.cfg", name="R1+R2 gen Q " + name,
                        subst=dict(N=n, DIRECTED=d, WEIGHTED=w, SALT=salt, SAMPLE=sample, EMIT="TRUE"))
        ctx.replay(hb, "community-q", cases, name="R2 replay Q " + name)

    def qm_stage(name, n, d, w, sample):
        cases = ctx.gen("network/Multiplex.tla", "network/Multiplex.cfg", name="R1+R2 gen QMultiplex " + name,
                        subst=dict(N=n, DIRECTED=d, WEIGHTED=w, SALT=ctx.seed, SAMPLE=sample, EMIT="TRUE"))
        ctx.replay(hb, "community-qm", cases, name="R2 replay QMultiplex " + name)

    def qmg_stage(name, n, depth, d, w, full, fullgrid, sample):
        salt = 0 if (full == "TRUE" and w == "FALSE") else ctx.seed
        cases = ctx.gen("network/MultiplexGrid.tla", "network/MultiplexGrid.cfg", name="R1+R2 gen QMultiplex argument grid " + name,
                        subst=dict(N=n, DEPTH=depth, DIRECTED=d, WEIGHTED=w, FULL=full, FULLGRID=fullgrid, SALT=salt,
                                   SAMPLE=sample, EMIT="TRUE"))
        ctx.replay(hb, "community-qmg", cases, name="R2 replay QMultiplex argument grid " + name)

    def zd_stage(name, n, d, sample, shard, nshards):
        cases = ctx.gen("network/ZeroDist.tla", "network/ZeroDist.cfg",
                        name="R1+R2 gen zero-weight distances %s %d/%d" % (name, shard + 1, nshards),
                        subst=dict(N=n, DIRECTED=d, SALT=(ctx.seed if sample else 0), SAMPLE=sample, SHARD=shard,
                                   NSHARDS=nshards, EMIT="TRUE"))
        ctx.replay(hb, "network-zero", cases, name="R2 replay zero-weight distances %s %d/%d" % (name, shard + 1, nshards))

    grid_stages = ([(lambda a=a: qmg_stage(*a[:8])) for a in QMGRID if a[8] or thorough] +
                   [(lambda a=a, sh=sh: zd_stage(a[0], a[1], a[2], a[3], sh, a[4]))
                    for a in ZDIST if a[5] or thorough for sh in range(a[4])])

    r2_stages = ([(lambda a=a: net_stage(*a[:5])) for a in NET if a[5] or thorough] +
                 [(lambda a=a: q_stage(*a[:5])) for a in QCFG if a[5] or thorough] +
                 [(lambda a=a: qm_stage(*a[:5])) for a in QMCFG if a[5] or thorough])

    # ---- community.Profile on scripted step functions (R1 windows disjoint + R2) ----------------
    def pstep_stage():
        cases = ctx.gen("network/ProfileStep.tla", "network/ProfileStep.cfg", name="R1+R2 gen Profile step functions",
                        subst=dict(EMIT="TRUE"))
        ctx.replay(hb, "profile-step", cases, name="R2 replay Profile on scripted step functions")

    # ---- recorded real runs: record, validate every event with TLC, second pass for the floats ----
    def trace_stage(area, fam, args, spec, label, qarea, sig):
        tr = os.path.join(ctx.work, "%s-%s.ndjson" % (area, fam))
        summ = ctx.record(hb, area, tr, list(args), name="R3 record %s %s" % (label, fam))
        if not summ.get("traces", 0):
            return          # nothing was recorded (every run failed and was reported by ctx.record)
        ok, st = ctx.validate("network/%s.tla" % spec, "network/%s.cfg" % spec, tr,
                              subst=dict(TRACE="trace.ndjson", EMIT="FALSE"), name="R3 validate %s %s" % (label, fam))
        if not ok:
            keep = os.path.join(os.path.dirname(__file__), "..", "..", "replays", "C15")
            os.makedirs(keep, exist_ok=True)
            dst = os.path.abspath(os.path.join(keep, "%s-%s-seed%d.ndjson" % (area, fam, ctx.seed)))
            shutil.copy(tr, dst)
            ctx.violation("community:%s:trace-rejected:%s" % (sig, fam), st.get("detail", "")[:700],
                          {"trace": dst, "family": fam, "spec": spec})
            return
        with ctx._lock:
            ctx.traces += summ.get("traces", 0)
        if qarea is None:
            return
        # second pass: TLC prints the exact value of every float gonum reported
        qs = ctx.gen("network/%s.tla" % spec, "network/%s.cfg" % spec, cache=False,
                     subst=dict(TRACE=tr, EMIT="TRUE"), name="R3 exact values %s %s" % (label, fam))
        ctx.replay(hb, qarea, qs, name="R3 compare %s %s" % (label, fam))
        for f in (qs, qs[:-7] + ".meta.json"):
            if os.path.exists(f):
                os.remove(f)

    runs = 200 if thorough else 16
    mruns = 150 if thorough else 16
    pruns = 80 if thorough else 12
    qruns = 100 if thorough else 14
    stages = [pstep_stage]
    for fam in ("undir", "dir"):
        stages += [
            lambda fam=fam: trace_stage("louvain", fam, ["family=" + fam, "runs=%d" % runs, "maxn=60"],
                                        "CommunityTrace", "Modularize", "louvain-q", "Modularize"),
            lambda fam=fam: trace_stage("mlouvain", fam, ["family=" + fam, "runs=%d" % mruns, "maxn=40"],
                                        "MultiplexTrace", "ModularizeMultiplex", "mlouvain-q", "ModularizeMultiplex"),
            lambda fam=fam: trace_stage("profile", fam, ["family=" + fam, "runs=%d" % pruns],
                                        "ProfileTrace", "Profile", "profile-q", "Profile"),
            lambda fam=fam: trace_stage("reduced-queries", fam, ["family=" + fam, "runs=%d" % qruns],
                                        "ReducedQueryTrace", "reduced graph queries", None, "queries"),
        ]
    # weights = nil ("layers are equally weighted"): its own stage and failure signature
    stages.append(lambda: trace_stage("mlouvain", "undir-nilweights",
                                      ["family=undir", "runs=%d" % (20 if thorough else 4), "maxn=14", "weights=nil"],
                                      "MultiplexTrace", "ModularizeMultiplex(weights=nil)", "mlouvain-q",
                                      "ModularizeMultiplex:nil-weights"))
    # one pool: the two longest generator stages first, the short trace stages fill the gaps
    ctx.parallel(r2_stages[:2] + stages + r2_stages[2:] + grid_stages, width=4)

    ctx.assumptions += [
        "TLC/SANY and the CommunityModules (Json, Functions, FiniteSetsExt) are trusted",
        "the harness's graph builder (model node -> real id), map comparison and big.Rat comparison are trusted",
        "formula-valued measures are compared with the exact rational within 1e-12 relative (c*n*eps)",
        "Louvain traces: the recorder's projection of each level (Communities, Structure, Weight matrix) is trusted; "
        "Q of a level is compared with TLC's exact rational within 1e-10 (sum of up to n^2 float terms, n <= 60)",
        "multiplex modularity with a negative layer weight: A* of the documented formula is read as the magnitude of the "
        "layer's (non-positive) edge weights, Q_layer = w * SUM[|A| - gamma k k / m] (Traag's signed modularity, which the "
        "code cites); an unweighted layer under a negative layer weight counts every edge as -1",
        "Profile traces: resolutions enter TLC as order ranks computed by the recorder (sort of the float boundaries) and, "
        "for linear bisection, as exact dyadic rationals; Interval.Score is compared with the exact score within 1e-12",
        "Profile on scripted step functions: in log mode the granularity bound e^grain is replaced by the rational "
        "1 + grain + grain^2 >= e^grain",
        "HITS: where the spec states the limit direction d exactly, scores must be parallel to d within "
        "2*tol*lam2/(lam-lam2) (emitted by the spec from the termination test) + 1e-12; unit norm within 1e-12",
        "DiffuseToEquilibrium: allowed deviation tol*(dmax/dmin)*(diam*vol)/(1-damp) emitted by the spec (Chung's gap "
        "bound); Diffuse conservation within 1e-9 relative, t=0 compared exactly",
        "QMultiplex argument grid: a layer under a negative layer weight is built with the negated edge weights (the "
        "record says which layers); Q_layer of an edgeless layer (0/0) is not compared whatever its layer weight; "
        "ModularizeMultiplex on the grid: only termination without panic, Communities() of the top level being a partition, "
        "and SUM_layer Q_layer(top) >= SUM_layer Q_layer(singletons) decided by TLC in exact rationals (asked only when "
        "every layer has an edge) - the seeded source is PCG(seed*7919+line, argument lengths)",
        "zero-weight distances: H(v) must be +Inf as soon as a distinct node is at distance 0 (a term 1/0 among non-negative "
        "terms); C(v) = 1/F(v) with F(v) = 0 is left open (skipped and counted); shortest paths are simple paths "
        "(\"Paths containing zero-weight cycles are not returned\")",
        "PageRank: allowed deviation from the exact stationary vector = d/(1-d)*n*tol (emitted by the spec from the "
        "contraction argument) + 1e-7 for the rounding of the iteration itself (random start vector scaled by 1/sum)",
    ]
    return ctx.finish(
        rule="one case = one graph (all measures of graph/network and graph/spectral on it, on every applicable "
             "container type and shortest-path source); for community.Q / QMultiplex one case = one evaluation "
             "(graph or layer pair, container type, partition, resolution); "
             "non-trivial = the graph has at least one edge (Q: partition neither trivial nor singletons). "
             "R3: one trace = one Modularize / ModularizeMultiplex / Profile run (all levels / intervals) or one "
             "(level, layer) of a hierarchy with the answers of every query method; one Q case = one level of one run "
             "or one interval of one profile. Profile step functions: one case = one Profile call. "
             "QMultiplex argument grid: one case = one (multiplex, container, weights form, resolutions form, partition) "
             "evaluation, non-trivial as for Q. Zero-weight distances: one case = one graph (all measures, three "
             "shortest-path sources), non-trivial = some pair of distinct nodes is at distance 0.",
        exhaustive=True)


def replay(ctx, path):
    import json
    d = json.load(open(path))["data"]
    if "trace" in d:
        spec = d.get("spec", "CommunityTrace")
        ok, st = ctx.validate("network/%s.tla" % spec, "network/%s.cfg" % spec, d["trace"],
                              subst=dict(TRACE="trace.ndjson", EMIT="FALSE"))
        print("trace accepted" if ok else "trace rejected: " + st.get("detail", "")[:800])
        if not ok:
            print("VIOLATION property=C15 replay=%s" % path)
        return 0 if ok else 1
    if d.get("failure", {}).get("case") is None and "failure" in d:
        # a failure reported by a seeded recorder (panic / hang of the call itself): run the same
        # recorder again with the recorded seed and arguments and look for the same signature
        ctx.seed = json.load(open(path)).get("seed", ctx.seed)
        sig = d["failure"].get("sig", "")
        summ = ctx.record(ctx.build(""), d["area"], os.path.join(ctx.work, "rerun.ndjson"), d["args"])
        again = [f for f in summ.get("failures", []) if f.get("sig") == sig]
        for f in again[:1]:
            print("reproduced: %s :: %s" % (sig, f.get("msg", "")[:600]))
            print("VIOLATION property=C15 replay=%s" % path)
        if not again:
            print("not reproduced: " + sig)
        return 1 if again else 0
    one = os.path.join(ctx.work, "one.ndjson")
    with open(one, "w") as fh:
        fh.write(json.dumps(d["failure"]["case"]) + "\n")
    ctx.replay(ctx.build(""), d["area"], one, d["args"], confirm=False)
    return ctx.finish()
