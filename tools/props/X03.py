"""X03 - specification growth driven by the coverage measurement: gonum code that no listed property executes.

 OptFunctions.tla  optimize/functions: every test function as an expression tree over exact rationals built from its DOCUMENTED
                   definition (More-Garbow-Hillstrom, More-Thuente, the VLSE pages quoted in the doc comments); value, gradient
                   and Hessian are derived by the module's own calculus (sum / product / quotient / chain rules with an
                   "unnameable real" value for everything transcendental, so the module itself decides at which points exp, sin,
                   cos, sqrt ... are stateable).  Points on integer / dyadic lattices, the documented dimensions (panics), the
                   documented minima (Func(X) = F, Grad(X) = 0 to the tolerances gonum's own tests publish), MinimalSurface
                   (dimensions, symmetries of ExactSolution, area >= 1).
 Spatial23.tla     spatial/r2, spatial/r3: Norm / Unit / Cos on Pythagorean vectors, rotations of the square and cube groups
                   (Rodrigues' formula with rational cos and sin/|axis|), Rotation.Mat, Box (NewBox, Size, Center, Empty, Vertices,
                   Union, Add, Scale, Contains, Canon), Triangle (Centroid, Area, Normal, IsDegenerate), r3.Mat (zero value,
                   CloneFrom, Eye, general Mul, VecRow / VecCol, shape panics), Gradient / Divergence / Hessian / Jacobian on
                   quadratic fields where central differences are exact (TLC checks that lemma).
 RdfGraph.tla      graph/formats/rdf Graph and Query as a set model: histories (add a statement set, one RemoveStatement /
                   RemoveTerm, add one more statement) with every observer after each phase, with caller-assigned and with
                   graph-assigned term UIDs; query programs of up to three instructions (Out, In, HasAll*, HasAny*, And, Or, Not,
                   Unique, Repeat) on every small statement set; AddStatement on statements that are not valid RDF.
 RdfLean.tla       rdf.Lean: the cores of every small data set by brute force over all maps of its blank nodes.
 X03Rat.tla        exact rationals shared by the first two.
"""
import json
import os

HERE = os.path.dirname(os.path.abspath(__file__))


def load_local_known(ctx):
    """X03 is not a listed property, so known_findings.json (read-only for the builder) cannot carry its findings; the
    proposed entries live next to this file and are honoured the same way (printed as KNOWN-FINDING, matched by signature)."""
    p = os.path.join(HERE, "X03.findings.json")
    if os.path.exists(p):
        have = {k.get("id") for k in ctx.known}
        for k in json.load(open(p)).get("findings", []):
            if k.get("id") not in have:
                ctx.known.append(k)


def functions_part(ctx, hb):
    def one(fam, what):
        cases = ctx.gen("misc/OptFunctions.tla", "misc/OptFunctions.cfg", subst=dict(FAM=fam),
                        name="R1+R2 gen test functions: %s (CalculusLemma, MinimaLemma as ASSUME; invariant HessSym)" % what)
        ctx.replay(hb, "misc-optfuncs", cases, name="R2 replay test functions: " + what)
    ctx.parallel([lambda: one("points", "value / gradient / Hessian at lattice points"),
                  lambda: one("tables", "documented dimensions, documented minima, MinimalSurface")], width=2)


def spatial_part(ctx, bins):
    laws = dict(vec="VecLaws", rot="RotLaws", box2="BoxLaws", box3="-", tri="TriLaws", mat="DiffLaws")

    def one(mode):
        cases = ctx.gen("misc/Spatial23.tla", "misc/Spatial23.cfg", subst=dict(MODE=mode),
                        name="R1+R2 gen spatial %s (law checked as ASSUME: %s)" % (mode, laws[mode]))
        for bn, bp in bins:
            if bn != "default" and mode not in ("mat", "rot"):
                continue        # only r3.Mat has a second implementation (build tag safe)
            ctx.replay(bp, "misc-spatial", cases, ["build=" + bn], name="R2 replay spatial %s [%s]" % (mode, bn))
    ctx.parallel([lambda m=m: one(m) for m in ("vec", "rot", "box2", "box3", "tri", "mat")], width=6)


def rdf_part(ctx, hb):
    thorough = ctx.tier == "thorough"
    salt = ctx.seed % 1000

    def one(mode, maxs, extra, pergraph, what):
        cases = ctx.gen("misc/RdfGraph.tla", "misc/RdfGraph.cfg",
                        subst=dict(MODE=mode, MAXS=maxs, EXTRA=extra, SALT=salt, PERGRAPH=pergraph),
                        name="R1+R2 gen rdf %s (%s)" % (mode, what), timeout=2400)
        if mode == "invalid":
            ctx.replay(hb, "misc-rdfgraph", cases, name="R2 replay rdf invalid statements / UID clashes / mixed graphs")
            return
        for um in ("uid", "zero"):
            ctx.replay(hb, "misc-rdfgraph", cases, ["mode=" + um], name="R2 replay rdf %s [term UIDs: %s]" % (mode, um))

    def lean(maxs, extra):
        cases = ctx.gen("misc/RdfLean.tla", "misc/RdfLean.cfg", subst=dict(MAXS=maxs, EXTRA=extra, SALT=salt, CYCLE4="TRUE" if thorough else "FALSE"),
                        name="R1+R2 gen rdf.Lean data sets <= %d statements + 1/%d of those with %d (invariant CoreLaws)" % (maxs, extra, maxs + 1),
                        timeout=2400)
        ctx.replay(hb, "misc-rdflean", cases, name="R2 replay rdf.Lean")

    jobs = [lambda: one("invalid", 1, 0, 1, "statements that are not valid RDF")]
    if thorough:
        jobs += [lambda: one("hist", 3, 12, 1, "all statement sets <= 3 of 24, 1/12 of those with 4; GraphLaws as ASSUME"),
                 lambda: one("query", 3, 0, 12, "12 programs on every statement set <= 3 of 18, every single instruction on sets <= 2; QueryLaws as ASSUME"),
                 lambda: lean(3, 8)]
    else:
        jobs += [lambda: one("hist", 2, 3, 1, "all statement sets <= 2 of 24, 1/3 of those with 3; GraphLaws as ASSUME"),
                 lambda: one("query", 2, 2, 8, "8 programs on every statement set <= 2 of 18 and 1/2 of those with 3, every single instruction on sets of 1; QueryLaws as ASSUME"),
                 lambda: lean(2, 2)]
    ctx.parallel(jobs, width=4)


def run(ctx):
    load_local_known(ctx)
    hb = ctx.build("")
    bins = [("default", hb), ("safe", ctx.build("safe"))]
    ctx.parallel([lambda: functions_part(ctx, hb), lambda: spatial_part(ctx, bins), lambda: rdf_part(ctx, hb)], width=3)
    ctx.assumptions += [
        "TLC/SANY and the CommunityModules Json module are trusted",
        "the harness's decoding of spec-emitted rationals (math/big), its construction of operands (vectors, boxes, triangles, "
        "matrices, quadratic fields as closures, *rdf.Statement values, query filters) and its set comparisons are trusted",
        "optimize/functions: the expression trees are transcriptions of the definitions in the cited literature and doc "
        "comments; CrossInTray follows the cited reference (factor 0.0001), the doc comment prints 0.001",
        "rdf: every statement value is handed to the graph once (two different *Statement values with equal terms are not "
        "used); with graph-assigned UIDs a statement that is added after a removal is a new value with zero UIDs",
    ]
    return ctx.finish(
        rule="functions: one case = one (function, point) with value / gradient / Hessian compared, one row of the dimension "
             "table, one function's documented minima, one MinimalSurface clause (non-trivial = some expected number is not 0 / "
             "an illegal size / a table row); spatial: one case = one operand tuple of one operation group (non-trivial = the "
             "expected result is not the trivial one: a non-zero norm, a rotation that is not the identity, a box with volume, "
             "a triangle with area ...); rdf graph: one history of two mutations and three full observations run with both UID "
             "conventions (non-trivial = the removal removes something), one query program (non-trivial = some result is not "
             "empty); rdf.Lean: one data set in two statement orders and once with graph labels (non-trivial = not lean).",
        exhaustive=True)


def replay(ctx, path):
    load_local_known(ctx)
    d = json.load(open(path))["data"]
    one = os.path.join(ctx.work, "one.ndjson")
    with open(one, "w") as fh:
        fh.write(json.dumps(d["failure"]["case"]) + "\n")
    ctx.replay(ctx.build("safe" if "build=safe" in d["args"] else ""), d["area"], one, d["args"], confirm=False)
    return ctx.finish()
